(* Lemmas for C10 (value level of NDNav navigation). *)
From Coq Require Import List Arith NArith ZArith Bool Lia.
Import ListNotations.
Require Import SR.Base.Res SR.Spec.Layout SR.Model.Layout SR.Model.LayoutValue SR.Spec.Coherence.
(* Location.__init__ and NDNav under the rules read from the source (Gen/LayoutParams.v): loc_size_plus, nav_*_unf *)
Require SR.Proofs.LayoutP.
Open Scope nat_scope.

(* ------------------------------------------------------------------ NDNav under the current rules
   Model/LayoutValue.v evaluates the rules harness/t1_layout.py read in schema_instance.py; these equations give them
   in the form the proofs below use and are proved by computation from the generated parameters. *)
Lemma vnav_of_unf {B} (dcount : list B -> nat) r s :
  vnav_of dcount r s = match walkv dcount r s 0 [] with Ok (l, an) => Ok (mkvnav l an) | Err e => Err e end.
Proof. reflexivity. Qed.
Lemma vnav_name_unf v k :
  vnav_name v k =
  match vn_loc v with
  | WObj _ _ ps =>
      match wfind k ps with
      | None => Err KeyError
      | Some (WRef _ t) => match wlookup t (vn_an v) with Some l => Ok (mkvnav l (vn_an v)) | None => Err KeyError end
      | Some l => Ok (mkvnav l (vn_an v))
      end
  | _ => Err TypeError
  end.
Proof. reflexivity. Qed.
Lemma vnav_index_unf {B} (dcount : list B -> nat) r v i :
  vnav_index dcount r v i =
  match vn_loc v with
  | WArr st _ isz cnt _ sch =>
      if cnt <=? i then Err IndexError
      else match walkv dcount r sch (st + isz * i) [] with
           | Ok (l, an) => Ok (mkvnav l an)
           | Err e => Err e
           end
  | _ => Err TypeError
  end.
Proof. reflexivity. Qed.
Lemma index_start_z_unf v z :
  index_start_z v z =
  match vn_loc v with
  | WArr st _ isz cnt _ _ =>
      if ((z <? 0) || (Z.of_nat cnt <=? z))%Z then Err IndexError else Ok (Z.of_nat st + Z.of_nat isz * z)%Z
  | _ => Err TypeError
  end.
Proof. reflexivity. Qed.
(* the same with the tests of the source before fix 08e8809: no test against 0 *)
Lemma index_start_old_unf v z :
  index_start_with None (Some LayoutRule.CmpGe) v z =
  match vn_loc v with
  | WArr st _ isz cnt _ _ =>
      if (Z.of_nat cnt <=? z)%Z then Err IndexError else Ok (Z.of_nat st + Z.of_nat isz * z)%Z
  | _ => Err TypeError
  end.
Proof. reflexivity. Qed.
Lemma vnav_raw_unf {B} (r : list B) v : vnav_raw r v = slice r (wstart (vn_loc v)) (wend (vn_loc v)).
Proof. reflexivity. Qed.
Lemma wsize_ref s k : wsize (WRef s k) = 0.
Proof. reflexivity. Qed.
(* NDNav.value is location.value(instance) with the default offset, 0 *)
Lemma vnav_value_unf {B A} (r : list B) (dec : option key -> list B -> res A) v :
  vnav_value r dec v = wvalue r dec (length (vn_an v)) (vn_an v) (vn_loc v) 0.
Proof. reflexivity. Qed.
Lemma vnav_foot_unf v : vnav_foot v = wfoot (length (vn_an v)) (vn_an v) (vn_loc v) 0.
Proof. reflexivity. Qed.

(* ------------------------------------------------------------------ slices *)
Lemma skipn_skipn' : forall {T} (a b : nat) (l : list T), skipn a (skipn b l) = skipn (b + a) l.
Proof.
  intros T a b. revert a. induction b as [|b IH]; intros a l; [reflexivity|].
  destruct l as [|x l]; [now rewrite !skipn_nil|]. cbn [skipn plus]. apply IH.
Qed.

Lemma slice_slice : forall {T} (l : list T) s e a b,
  s <= a -> b <= e -> slice (slice l s e) (a - s) (b - s) = slice l a b.
Proof.
  intros T l s e a b Hs He. unfold slice.
  rewrite skipn_firstn_comm, skipn_skipn', firstn_firstn.
  replace (s + (a - s)) with a by lia.
  f_equal. lia.
Qed.

(* ------------------------------------------------------------------ seq_values *)
Lemma seq_values_ext : forall {T} (f g : nat -> vres T) n i,
  (forall j, i <= j < i + n -> f j = g j) -> seq_values f n i = seq_values g n i.
Proof.
  intros T f g n. induction n as [|n IH]; intros i H; [reflexivity|].
  cbn [seq_values]. rewrite (H i) by lia. rewrite (IH (S i)); [reflexivity|]. intros j Hj. apply H. lia.
Qed.

Lemma seq_values_mono : forall {T} (f g : nat -> vres T) n i x,
  (forall j y, f j = Some y -> g j = Some y) -> seq_values f n i = Some x -> seq_values g n i = Some x.
Proof.
  intros T f g n. induction n as [|n IH]; intros i x H E; [exact E|].
  cbn [seq_values] in *.
  destruct (f i) as [[y|e]|] eqn:Ef; [|rewrite (H _ _ Ef); exact E|discriminate].
  rewrite (H _ _ Ef).
  destruct (seq_values f n (S i)) as [[ys|e]|] eqn:Es; [| |discriminate].
  - rewrite (IH _ _ H Es). exact E.
  - rewrite (IH _ _ H Es). exact E.
Qed.

Lemma seq_values_nth : forall {T} (f : nat -> vres T) n i xs,
  seq_values f n i = Some (Ok xs) ->
  length xs = n /\ forall j, j < n -> exists x, nth_error xs j = Some x /\ f (i + j) = Some (Ok x).
Proof.
  intros T f n. induction n as [|n IH]; intros i xs E; cbn [seq_values] in E.
  - inversion E. split; [reflexivity|]. intros j Hj. lia.
  - destruct (f i) as [[y|e]|] eqn:Ef; try discriminate.
    destruct (seq_values f n (S i)) as [[ys|e]|] eqn:Es; try discriminate.
    inversion E; subst xs. destruct (IH _ _ Es) as [Hl Hn]. split; [cbn; lia|].
    intros [|j] Hj.
    + exists y. split; [reflexivity|]. now rewrite Nat.add_0_r.
    + destruct (Hn j) as [x [H1 H2]]; [lia|]. exists x. split; [exact H1|].
      now replace (i + S j) with (S i + j) by lia.
Qed.

Section Value.
  Variable B : Type.
  Variable dcount : list B -> nat.
  Variable A : Type.
  Variable dec : option key -> list B -> res A.

  Notation pvA := (pv A).

  (* ---------------------------------------------------------------- unfolding *)
  Lemma vb_atom : forall r an d a st sz o,
    value_body r dec an d (WAtom a st sz) o =
    match dec a (slice r (st + o) (st + sz + o)) with Ok x => Some (Ok (PAtom x)) | Err e => Some (Err e) end.
  Proof. reflexivity. Qed.
  Lemma vb_arr : forall r an d st sz isz cnt it sch o,
    value_body r dec an d (WArr st sz isz cnt it sch) o =
    match seq_values (fun i => value_body r dec an d it (o + i * isz)) cnt 0 with
    | None => None | Some (Err e) => Some (Err e) | Some (Ok xs) => Some (Ok (PList xs)) end.
  Proof. reflexivity. Qed.
  Lemma vb_obj : forall r an d st sz ps o,
    value_body r dec an d (WObj st sz ps) o =
    match props_body r dec an d ps o with
    | None => None | Some (Err e) => Some (Err e) | Some (Ok dd) => Some (Ok (PDict dd)) end.
  Proof. reflexivity. Qed.
  Lemma vb_one : forall r an d st sz alts o,
    value_body r dec an d (WOne st sz alts) o =
    match alts with WANil => Some (Err ValueError) | WACons first _ => value_body r dec an d first o end.
  Proof. reflexivity. Qed.
  Lemma vb_ref : forall r an d st t o,
    value_body r dec an d (WRef st t) o =
    match wlookup t an with None => Some (Err KeyError) | Some target => d target o end.
  Proof. reflexivity. Qed.
  Lemma pb_nil : forall r an d o, props_body r dec an d WPNil o = Some (Ok []).
  Proof. reflexivity. Qed.
  Lemma pb_cons : forall r an d k l rest o,
    props_body r dec an d (WPCons k l rest) o =
    match value_body r dec an d l o with
    | None => None
    | Some (Err e) => Some (Err e)
    | Some (Ok x) =>
        match props_body r dec an d rest o with
        | None => None | Some (Err e) => Some (Err e) | Some (Ok dd) => Some (Ok ((k, x) :: dd)) end
    end.
  Proof. reflexivity. Qed.
  Lemma wvalue_0 : forall r an, wvalue r dec 0 an = value_body r dec an (fun _ _ => None).
  Proof. reflexivity. Qed.
  Lemma wvalue_S : forall r an f, wvalue r dec (S f) an = value_body r dec an (wvalue r dec f an).
  Proof. reflexivity. Qed.

  (* ---------------------------------------------------------------- fuel: results are stable once defined *)
  Definition first_alt (P : wloc -> Prop) (ls : walts) : Prop :=
    match ls with WANil => True | WACons l _ => P l end.

  Lemma body_mono : forall (r : list B) (an : wanchors) (d1 d2 : wloc -> nat -> vres pvA),
    (forall l o x, d1 l o = Some x -> d2 l o = Some x) ->
    (forall l o x, value_body r dec an d1 l o = Some x -> value_body r dec an d2 l o = Some x)
    /\ (forall ps o x, props_body r dec an d1 ps o = Some x -> props_body r dec an d2 ps o = Some x)
    /\ (forall ls, first_alt (fun l => forall o x, value_body r dec an d1 l o = Some x -> value_body r dec an d2 l o = Some x) ls).
  Proof.
    intros r an d1 d2 Hd. apply wloc_wprops_walts_ind.
    - intros a st sz o x E. exact E.
    - intros st sz isz cnt it IH sch o x E. rewrite vb_arr in *.
      destruct (seq_values (fun i => value_body r dec an d1 it (o + i * isz)) cnt 0) as [y|] eqn:Es; [|discriminate].
      assert (Hm := seq_values_mono (fun i => value_body r dec an d1 it (o + i * isz))
                      (fun i => value_body r dec an d2 it (o + i * isz)) cnt 0 y
                      (fun j z => IH (o + j * isz) z) Es).
      rewrite Hm. exact E.
    - intros st sz ps IH o x E. rewrite vb_obj in *.
      destruct (props_body r dec an d1 ps o) as [y|] eqn:Ep; [|discriminate].
      rewrite (IH _ _ Ep). exact E.
    - intros st sz alts IH o x E. rewrite vb_one in *. destruct alts as [|first rest]; [exact E|].
      exact (IH o x E).
    - intros st t o x E. rewrite vb_ref in *. destruct (wlookup t an); [|exact E]. exact (Hd _ _ _ E).
    - intros o x E. exact E.
    - intros k l IHl rest IHr o x E. rewrite pb_cons in *.
      destruct (value_body r dec an d1 l o) as [[y|e]|] eqn:El; [|rewrite (IHl _ _ El); exact E|discriminate].
      rewrite (IHl _ _ El).
      destruct (props_body r dec an d1 rest o) as [z|] eqn:Er; [|discriminate].
      rewrite (IHr _ _ Er). exact E.
    - exact I.
    - intros l IHl rest _. exact IHl.
  Qed.

  Lemma wvalue_mono_S : forall r an f l o x,
    wvalue r dec f an l o = Some x -> wvalue r dec (S f) an l o = Some x.
  Proof.
    intros r an f. induction f as [|f IH]; intros l o x E.
    - rewrite wvalue_S, wvalue_0 in *. revert E. apply (proj1 (body_mono r an _ _ (fun _ _ x (H : None = Some x) => False_ind _ (eq_ind None (fun v => match v with None => True | Some _ => False end) I _ H)))).
    - rewrite wvalue_S in *. revert E. apply (proj1 (body_mono r an _ _ IH)).
  Qed.

  Lemma wvalue_mono : forall r an f f' l o x,
    f <= f' -> wvalue r dec f an l o = Some x -> wvalue r dec f' an l o = Some x.
  Proof.
    intros r an f f' l o x Hle E. induction Hle as [|m _ IH]; [exact E|]. now apply wvalue_mono_S.
  Qed.
  (* ---------------------------------------------------------------- whole and part: names *)
  Lemma props_body_lookup : forall r an d ps o dd,
    props_body r dec an d ps o = Some (Ok dd) ->
    map fst dd = wkeys ps /\
    forall k, match wfind k ps with
              | Some l => exists x, value_body r dec an d l o = Some (Ok x) /\ dlookup k dd = Some x
              | None => dlookup k dd = None
              end.
  Proof.
    intros r an d ps. induction ps as [|k0 l0 rest IH]; intros o dd E.
    - rewrite pb_nil in E. inversion E. split; [reflexivity|]. intros k. reflexivity.
    - rewrite pb_cons in E.
      destruct (value_body r dec an d l0 o) as [[x0|e]|] eqn:El; try discriminate.
      destruct (props_body r dec an d rest o) as [[dr|e]|] eqn:Er; try discriminate.
      inversion E; subst dd. destruct (IH _ _ Er) as [Hk Hf]. split; [cbn; now rewrite Hk|].
      intros k. cbn [wfind dlookup]. destruct (key_eqb k k0).
      + exists x0. split; [exact El|reflexivity].
      + apply Hf.
  Qed.

  Theorem commute_name : forall (r : list B) (v v' : vnav) (k : key) (d : list (key * pvA)),
    vnav_value r dec v = Some (Ok (PDict d)) ->
    vnav_name v k = Ok v' ->
    exists x, dlookup k d = Some x /\ vnav_value r dec v' = Some (Ok x).
  Proof.
    intros r [l an] v' k d Hv Hn. unfold vnav_value in *; change SR.Gen.LayoutParams.value_default_offset with 0 in *. rewrite ?vnav_name_unf in *. cbn [vn_loc vn_an] in *.
    destruct l as [a st sz|st sz isz cnt it sch|st sz ps|st sz alts|st t]; try discriminate.
    set (F := length an) in *.
    assert (Hb : exists dr, (forall l o x, dr l o = Some x -> wvalue r dec F an l o = Some x) /\
                            wvalue r dec F an = value_body r dec an dr).
    { destruct F as [|f].
      - exists (fun _ _ => None). split; [intros; discriminate|apply wvalue_0].
      - exists (wvalue r dec f an). split; [intros; now apply wvalue_mono_S|apply wvalue_S]. }
    destruct Hb as [dr [Hdr Hw]]. rewrite Hw in Hv. rewrite vb_obj in Hv.
    destruct (props_body r dec an dr ps 0) as [[dd|e]|] eqn:Ep; try discriminate.
    inversion Hv; subst dd. destruct (props_body_lookup _ _ _ _ _ _ Ep) as [_ Hf]. specialize (Hf k).
    destruct (wfind k ps) as [c|]; [|discriminate].
    destruct Hf as [x [Hx Hd]]. exists x. split; [exact Hd|].
    destruct c as [a' st' sz'|st' sz' isz' cnt' it' sch'|st' sz' ps'|st' sz' alts'|st' t'];
      try (inversion Hn; subst v'; cbn [vn_loc vn_an]; fold F; rewrite Hw; exact Hx).
    rewrite vb_ref in Hx. destruct (wlookup t' an) as [target|]; [|discriminate].
    inversion Hn; subst v'. cbn [vn_loc vn_an]. fold F. apply Hdr. exact Hx.
  Qed.

  (* a name of the schema can be navigated to whenever the whole value exists *)
  Lemma name_total : forall (r : list B) (v : vnav) st sz ps (d : list (key * pvA)) k,
    vn_loc v = WObj st sz ps ->
    vnav_value r dec v = Some (Ok (PDict d)) ->
    In k (wkeys ps) -> exists v', vnav_name v k = Ok v'.
  Proof.
    intros r [l an] st sz ps d k Hl Hv Hin. cbn [vn_loc] in Hl. subst l.
    unfold vnav_value in *; change SR.Gen.LayoutParams.value_default_offset with 0 in *. rewrite ?vnav_name_unf in *. cbn [vn_loc vn_an] in *.
    set (F := length an) in *.
    assert (Hb : exists dr, wvalue r dec F an = value_body r dec an dr).
    { destruct F as [|f]; [exists (fun _ _ => None); apply wvalue_0|exists (wvalue r dec f an); apply wvalue_S]. }
    destruct Hb as [dr Hw]. rewrite Hw, vb_obj in Hv.
    destruct (props_body r dec an dr ps 0) as [[dd|e]|] eqn:Ep; try discriminate.
    destruct (props_body_lookup _ _ _ _ _ _ Ep) as [_ Hf]. specialize (Hf k).
    assert (Hsome : wfind k ps <> None).
    { clear -Hin. induction ps as [|k0 l0 rest IH]; [destruct Hin|]. cbn [wfind wkeys] in *.
      destruct (key_eqb k k0) eqn:E; [discriminate|]. destruct Hin as [H|H]; [|now apply IH].
      subst k0. exfalso. clear -E. destruct k; cbn in E; now rewrite N.eqb_refl in E. }
    destruct (wfind k ps) as [c|]; [|congruence]. destruct Hf as [x [Hx _]].
    destruct c as [a' st' sz'|st' sz' isz' cnt' it' sch'|st' sz' ps'|st' sz' alts'|st' t']; try (eexists; reflexivity).
    rewrite vb_ref in Hx. destruct (wlookup t' an); [eexists; reflexivity|discriminate].
  Qed.

  (* Row.values: the values of the top-level properties, in schema order *)
  Theorem row_values_whole : forall (r : list B) (v : vnav) st sz ps (d : list (key * pvA)),
    vn_loc v = WObj st sz ps ->
    vnav_value r dec v = Some (Ok (PDict d)) ->
    map fst d = wkeys ps /\
    exists vs, row_values r dec v = Some (Ok vs) /\ Forall2 (fun k x => dlookup k d = Some x) (wkeys ps) vs.
  Proof.
    intros r v st sz ps d Hl Hv. split.
    - destruct v as [l an]. cbn [vn_loc] in Hl. subst l. unfold vnav_value in Hv; change SR.Gen.LayoutParams.value_default_offset with 0 in Hv. cbn [vn_loc vn_an] in Hv.
      set (F := length an) in *.
      assert (Hb : exists dr, wvalue r dec F an = value_body r dec an dr).
      { destruct F as [|f]; [exists (fun _ _ => None); apply wvalue_0|exists (wvalue r dec f an); apply wvalue_S]. }
      destruct Hb as [dr Hw]. rewrite Hw, vb_obj in Hv.
      destruct (props_body r dec an dr ps 0) as [[dd|e]|] eqn:Ep; try discriminate.
      inversion Hv; subst dd. exact (proj1 (props_body_lookup _ _ _ _ _ _ Ep)).
    - unfold row_values. rewrite Hl.
      assert (Hall : forall ks, (forall k, In k ks -> In k (wkeys ps)) ->
                exists vs, values_of r dec v ks = Some (Ok vs) /\ Forall2 (fun k x => dlookup k d = Some x) ks vs).
      { induction ks as [|k ks IH]; intros Hsub.
        - exists []. split; [reflexivity|constructor].
        - destruct (name_total r v st sz ps d k Hl Hv (Hsub k (or_introl eq_refl))) as [v' Hn].
          destruct (commute_name r v v' k d Hv Hn) as [x [Hd Hx]].
          destruct IH as [vs [Hvs HF]]; [intros k' Hk'; apply Hsub; now right|].
          exists (x :: vs). split; [|constructor; assumption].
          cbn [values_of]. rewrite Hn, Hx, Hvs. reflexivity. }
      apply Hall. auto.
  Qed.

  Lemma dlookup_nodup : forall (d : list (key * pvA)) vs,
    NoDup (map fst d) -> Forall2 (fun k x => dlookup k d = Some x) (map fst d) vs -> vs = map snd d.
  Proof.
    assert (Hrefl : forall k, key_eqb k k = true) by (intros [i|i]; cbn; apply N.eqb_refl).
    assert (Heq : forall a b, key_eqb a b = true -> a = b).
    { intros [i|i] [j|j] E; cbn in E; try discriminate; apply N.eqb_eq in E; now subst. }
    induction d as [|[k x] d IH]; intros vs Hnd HF.
    - inversion HF. reflexivity.
    - cbn [map fst snd] in *. inversion HF as [|k' y ks ys Hy Hrest]; subst. inversion Hnd as [|? ? Hnotin Hnd']; subst.
      cbn [dlookup] in Hy. rewrite Hrefl in Hy. inversion Hy; subst y. f_equal. apply IH; [exact Hnd'|].
      clear -Hrest Hnotin Heq. revert ys Hrest. induction (map fst d) as [|k1 ks IH2]; intros ys HF.
      + inversion HF. constructor.
      + inversion HF as [|? y1 ? ys1 Hy1 Hr1]; subst. constructor.
        * cbn [dlookup] in Hy1. destruct (key_eqb k1 k) eqn:E; [|exact Hy1].
          apply Heq in E. subst k1. exfalso. apply Hnotin. now left.
        * apply IH2; [|exact Hr1]. intros H. apply Hnotin. now right.
  Qed.

  (* ---------------------------------------------------------------- frame: value() reads only its footprint *)
  Lemma fb_atom : forall an df a st sz o, foot_body an df (WAtom a st sz) o = [(st + o, st + sz + o)].
  Proof. reflexivity. Qed.
  Lemma fb_arr : forall an df st sz isz cnt it sch o,
    foot_body an df (WArr st sz isz cnt it sch) o = flat_map (fun i => foot_body an df it (o + i * isz)) (seq 0 cnt).
  Proof. reflexivity. Qed.
  Lemma fb_obj : forall an df st sz ps o, foot_body an df (WObj st sz ps) o = foot_props an df ps o.
  Proof. reflexivity. Qed.
  Lemma fb_one : forall an df st sz alts o,
    foot_body an df (WOne st sz alts) o = match alts with WANil => [] | WACons first _ => foot_body an df first o end.
  Proof. reflexivity. Qed.
  Lemma fb_ref : forall an df st t o,
    foot_body an df (WRef st t) o = match wlookup t an with None => [] | Some target => df target o end.
  Proof. reflexivity. Qed.
  Lemma fp_cons : forall an df k l rest o,
    foot_props an df (WPCons k l rest) o = foot_body an df l o ++ foot_props an df rest o.
  Proof. reflexivity. Qed.
  Lemma wfoot_0 : forall an, wfoot 0 an = foot_body an (fun _ _ => []).
  Proof. reflexivity. Qed.
  Lemma wfoot_S : forall an f, wfoot (S f) an = foot_body an (wfoot f an).
  Proof. reflexivity. Qed.

  Definition agree_on (r r' : list B) (fp : list (nat * nat)) : Prop :=
    forall a b, In (a, b) fp -> slice r a b = slice r' a b.

  Lemma frame_body : forall (r r' : list B) (an : wanchors) (d d' : wloc -> nat -> vres pvA) df,
    (forall l o, agree_on r r' (df l o) -> d l o = d' l o) ->
    (forall l o, agree_on r r' (foot_body an df l o) -> value_body r dec an d l o = value_body r' dec an d' l o)
    /\ (forall ps o, agree_on r r' (foot_props an df ps o) -> props_body r dec an d ps o = props_body r' dec an d' ps o)
    /\ (forall ls, first_alt (fun l => forall o, agree_on r r' (foot_body an df l o) ->
                                        value_body r dec an d l o = value_body r' dec an d' l o) ls).
  Proof.
    intros r r' an d d' df Hd. apply wloc_wprops_walts_ind.
    - intros a st sz o H. rewrite !vb_atom. rewrite (H (st + o) (st + sz + o)); [reflexivity|]. rewrite fb_atom. now left.
    - intros st sz isz cnt it IH sch o H. rewrite !vb_arr.
      rewrite (seq_values_ext (fun i => value_body r dec an d it (o + i * isz))
                              (fun i => value_body r' dec an d' it (o + i * isz)) cnt 0); [reflexivity|].
      intros j Hj. apply IH. intros a b Hab. apply H. rewrite fb_arr. apply in_flat_map.
      exists j. split; [apply in_seq; lia|exact Hab].
    - intros st sz ps IH o H. rewrite !vb_obj. rewrite IH; [reflexivity|]. now rewrite fb_obj in H.
    - intros st sz alts IH o H. rewrite !vb_one. destruct alts as [|first rest]; [reflexivity|].
      apply IH. now rewrite fb_one in H.
    - intros st t o H. rewrite !vb_ref. rewrite fb_ref in H. destruct (wlookup t an); [|reflexivity]. now apply Hd.
    - intros o _. reflexivity.
    - intros k l IHl rest IHr o H. rewrite !pb_cons. rewrite fp_cons in H.
      rewrite IHl by (intros a b Hab; apply H; apply in_or_app; now left).
      rewrite IHr by (intros a b Hab; apply H; apply in_or_app; now right). reflexivity.
    - exact I.
    - intros l IHl rest _. exact IHl.
  Qed.

  Lemma frame_wvalue : forall (r r' : list B) an f l o,
    agree_on r r' (wfoot f an l o) -> wvalue r dec f an l o = wvalue r' dec f an l o.
  Proof.
    intros r r' an f. induction f as [|f IH]; intros l o H.
    - rewrite !wvalue_0. rewrite wfoot_0 in H. revert H. apply (proj1 (frame_body r r' an _ _ _ (fun _ _ _ => eq_refl))).
    - rewrite !wvalue_S. rewrite wfoot_S in H. revert H. apply (proj1 (frame_body r r' an _ _ _ IH)).
  Qed.

  (* non-interference: two records that agree on the bytes of a location give the same value there,
     error status included, whatever the rest of the records holds *)
  Theorem lazy_value : forall (r r' : list B) (v : vnav),
    foot_inside v = true ->
    vnav_raw r v = vnav_raw r' v ->
    vnav_value r dec v = vnav_value r' dec v.
  Proof.
    intros r r' v Hin Hraw. unfold vnav_value; change SR.Gen.LayoutParams.value_default_offset with 0. apply frame_wvalue. intros a b Hab.
    unfold foot_inside in Hin. rewrite forallb_forall in Hin. specialize (Hin _ Hab). cbn [fst snd] in Hin.
    apply andb_prop in Hin. destruct Hin as [H1 H2]. apply Nat.leb_le in H1. apply Nat.leb_le in H2.
    rewrite <- (slice_slice r _ _ a b H1 H2), <- (slice_slice r' _ _ a b H1 H2).
    rewrite !vnav_raw_unf in Hraw. now rewrite Hraw.
  Qed.

  (* an elementary item: its value is its own decoder applied to its own raw bytes *)
  Theorem atom_value : forall (r : list B) (v : vnav) a st sz,
    vn_loc v = WAtom a st sz ->
    vnav_value r dec v = match dec a (vnav_raw r v) with Ok x => Some (Ok (PAtom x)) | Err e => Some (Err e) end.
  Proof.
    intros r [l an] a st sz Hl. cbn [vn_loc] in Hl. subst l. unfold vnav_value; change SR.Gen.LayoutParams.value_default_offset with 0. rewrite vnav_raw_unf. unfold wend. cbn [vn_loc vn_an wstart wsize].
    destruct (length an); [rewrite wvalue_0|rewrite wvalue_S]; rewrite vb_atom; now rewrite !Nat.add_0_r.
  Qed.

  (* ---------------------------------------------------------------- raw bytes *)
  Theorem raw_slice : forall (r : list B) (v v' : vnav),
    wstart (vn_loc v) <= wstart (vn_loc v') -> wend (vn_loc v') <= wend (vn_loc v) ->
    vnav_raw r v' = slice (vnav_raw r v) (wstart (vn_loc v') - wstart (vn_loc v)) (wend (vn_loc v') - wstart (vn_loc v)).
  Proof. intros r v v' H1 H2. rewrite !vnav_raw_unf. symmetry. now apply slice_slice. Qed.

  (* ---------------------------------------------------------------- schemas without OCCURS DEPENDING ON *)

  Lemma simple_odo_free :
    (forall s, simple s = true -> odo_free s = true)
    /\ (forall ps, simple_props ps = true -> odo_free_props ps = true)
    /\ (forall alts, simple_alts alts = true -> odo_free_alts alts = true).
  Proof.
    apply js_props_alts_ind; cbn [simple simple_props simple_alts odo_free odo_free_props odo_free_alts]; intros; auto; try discriminate.
    - apply andb_prop in H1. destruct H1. rewrite H, H0; auto.
    - apply andb_prop in H1. destruct H1. rewrite H, H0; auto.
  Qed.

  Definition shift_an (d : nat) (an : wanchors) : wanchors := map (fun p => (fst p, wshift d (snd p))) an.

  Lemma wsize_shift : forall d l, wsize (wshift d l) = wsize l.
  Proof. intros d l. destruct l; reflexivity. Qed.
  Lemma wstart_shift : forall d l, wstart (wshift d l) = wstart l + d.
  Proof. intros d l. destruct l; reflexivity. Qed.
  Lemma wmax_shift : forall d ls, wmax_size (wshift_alts d ls) = wmax_size ls.
  Proof. intros d ls. induction ls as [|l r IH]; [reflexivity|]. cbn [wshift_alts wmax_size]. now rewrite wsize_shift, IH. Qed.
  Lemma wreg_shift : forall d a l new an0,
    shift_an d (wreg a l new) ++ an0 = wreg a (wshift d l) (shift_an d new ++ an0).
  Proof. intros d a l new an0. destruct a; reflexivity. Qed.
  Lemma wreg_app : forall a l new an, wreg a l (new ++ an) = wreg a l new ++ an.
  Proof. intros a l new an. destruct a; reflexivity. Qed.

  Section Rec.
    Variable r : list B.

    Lemma walkv_atom : forall a sz st an, walkv dcount r (JAtom a sz) st an = Ok (WAtom a st sz, wreg a (WAtom a st sz) an).
    Proof.
      intros a sz st an.
      change (walkv dcount r (JAtom a sz) st an)
        with (Ok (WAtom a st (loc_size st (st + sz)), wreg a (WAtom a st (loc_size st (st + sz))) an) : res (wloc * wanchors)).
      rewrite LayoutP.loc_size_plus. reflexivity.
    Qed.
    Lemma walkv_arr : forall a n its st an,
      walkv dcount r (JArr a n its) st an =
      match walkv dcount r its st an with
      | Err e => Err e
      | Ok (sub, an1) => Ok (WArr st (wsize sub * n) (wsize sub) n sub its, wreg a (WArr st (wsize sub * n) (wsize sub) n sub its) an1)
      end.
    Proof.
      intros a n its st an.
      change (walkv dcount r (JArr a n its) st an)
        with (match walkv dcount r its st an with
              | Err e => Err e
              | Ok (sub, an1) =>
                  Ok (WArr st (loc_size st (st + wsize sub * n)) (wsize sub) n sub its,
                      wreg a (WArr st (loc_size st (st + wsize sub * n)) (wsize sub) n sub its) an1)
              end).
      destruct (walkv dcount r its st an) as [[sub an1]|ex]; [|reflexivity]. rewrite LayoutP.loc_size_plus. reflexivity.
    Qed.
    Lemma walkv_odo : forall a c its st an,
      walkv dcount r (JOdo a c its) st an =
      match wlookup (KName c) an with
      | None => Err KeyError
      | Some (WAtom _ cst csz) =>
          match walkv dcount r its st an with
          | Err e => Err e
          | Ok (sub, an1) =>
              Ok (WArr st (wsize sub * dcount (slice r cst (cst + csz))) (wsize sub) (dcount (slice r cst (cst + csz))) sub its,
                  wreg a (WArr st (wsize sub * dcount (slice r cst (cst + csz))) (wsize sub) (dcount (slice r cst (cst + csz))) sub its) an1)
          end
      | Some _ => Err TypeError
      end.
    Proof.
      intros a c its st an.
      change (walkv dcount r (JOdo a c its) st an)
        with (match wodo_count dcount r c an with
              | Err e => Err e
              | Ok cnt =>
                  match walkv dcount r its st an with
                  | Err e => Err e
                  | Ok (sub, an1) =>
                      Ok (WArr st (loc_size st (st + wsize sub * cnt)) (wsize sub) cnt sub its,
                          wreg a (WArr st (loc_size st (st + wsize sub * cnt)) (wsize sub) cnt sub its) an1)
                  end
              end).
      change (wodo_count dcount r c an)
        with (match wlookup (KName c) an with
              | None => Err KeyError
              | Some (WAtom _ cst csz) => Ok (dcount (slice r cst (cst + csz)))
              | Some _ => Err TypeError
              end).
      destruct (wlookup (KName c) an) as [[ca cst csz| | | |]|]; try reflexivity.
      destruct (walkv dcount r its st an) as [[sub an1]|ex]; [|reflexivity]. rewrite LayoutP.loc_size_plus. reflexivity.
    Qed.
    Lemma walkv_one : forall a s0 rest st an,
      walkv dcount r (JOne a (ACons s0 rest)) st an =
      match walkv_alts dcount r (ACons s0 rest) st an with
      | Err e => Err e
      | Ok (als, an1) => Ok (WOne st (wmax_size als) als, wreg a (WOne st (wmax_size als) als) an1)
      end.
    Proof.
      intros a s0 rest st an.
      change (walkv dcount r (JOne a (ACons s0 rest)) st an)
        with (match walkv_alts dcount r (ACons s0 rest) st an with
              | Err e => Err e
              | Ok (als, an1) =>
                  Ok (WOne st (loc_size st (st + wmax_size als)) als, wreg a (WOne st (loc_size st (st + wmax_size als)) als) an1)
              end).
      destruct (walkv_alts dcount r (ACons s0 rest) st an) as [[als an1]|ex]; [|reflexivity].
      rewrite LayoutP.loc_size_plus. reflexivity.
    Qed.
    Lemma walkv_one_nil : forall a st an, walkv dcount r (JOne a ANil) st an = Err ValueError.
    Proof. reflexivity. Qed.
    Lemma walkv_ref : forall t st an, walkv dcount r (JRef t) st an = Ok (WRef st t, an).
    Proof. reflexivity. Qed.
    Lemma walkv_props_nil : forall off an, walkv_props dcount r PNil off an = Ok (WPNil, off, an).
    Proof. reflexivity. Qed.
    Lemma walkv_props_cons : forall k p rest off an,
      walkv_props dcount r (PCons k p rest) off an =
      match walkv dcount r p off an with
      | Err e => Err e
      | Ok (pl, an1) =>
          match walkv_props dcount r rest (off + wsize pl) (wreg (js_anchor p) pl an1) with
          | Err e => Err e
          | Ok (rl, off', an2) => Ok (WPCons k pl rl, off', an2)
          end
      end.
    Proof. reflexivity. Qed.
    Lemma walkv_alts_nil : forall st an, walkv_alts dcount r ANil st an = Ok (WANil, an).
    Proof. reflexivity. Qed.
    Lemma walkv_alts_cons : forall s rest st an,
      walkv_alts dcount r (ACons s rest) st an =
      match walkv dcount r s st an with
      | Err e => Err e
      | Ok (l, an1) =>
          match walkv_alts dcount r rest st an1 with
          | Err e => Err e
          | Ok (ls, an2) => Ok (WACons l ls, an2)
          end
      end.
    Proof. reflexivity. Qed.
    (* the running offset ends at start + the sum of the property sizes: the size ObjectLocation.__init__ stores *)
    Lemma walkv_props_offset :
      forall ps off an pls off' an', walkv_props dcount r ps off an = Ok (pls, off', an') -> off' = off + wsum_props pls.
    Proof.
      induction ps as [|k p rest IH]; intros off an pls off' an' H.
      - rewrite walkv_props_nil in H. injection H as <- <- <-. cbn [wsum_props]. lia.
      - rewrite walkv_props_cons in H. destruct (walkv dcount r p off an) as [[pl an1]|ex]; [|discriminate].
        destruct (walkv_props dcount r rest (off + wsize pl) (wreg (js_anchor p) pl an1)) as [[[rl o2] an2]|ex] eqn:E; [|discriminate].
        injection H as <- <- <-. apply IH in E. cbn [wsum_props]. lia.
    Qed.
    Lemma wobj_size_eq : forall ps st an pls off an1,
      walkv_props dcount r ps st an = Ok (pls, off, an1) -> wobj_size st off pls = off - st.
    Proof.
      intros ps st an pls off an1 E. apply walkv_props_offset in E.
      first
        [ change (wobj_size st off pls) with (wsum_props pls); lia
        | change (wobj_size st off pls) with (loc_size st off); subst off; rewrite LayoutP.loc_size_plus; lia ].
    Qed.
    Lemma walkv_obj : forall a ps st an,
      walkv dcount r (JObj a ps) st an =
      match walkv_props dcount r ps st an with
      | Err e => Err e
      | Ok (pls, off, an1) => Ok (WObj st (off - st) pls, wreg a (WObj st (off - st) pls) an1)
      end.
    Proof.
      intros a ps st an.
      change (walkv dcount r (JObj a ps) st an)
        with (match walkv_props dcount r ps st an with
              | Err e => Err e
              | Ok (pls, off, an1) => Ok (WObj st (wobj_size st off pls) pls, wreg a (WObj st (wobj_size st off pls) pls) an1)
              end).
      destruct (walkv_props dcount r ps st an) as [[[pls off] an1]|ex] eqn:E; [|reflexivity].
      rewrite (wobj_size_eq _ _ _ _ _ _ E). reflexivity.
    Qed.

    (* walking an ODO-free schema somewhere else, with other anchors, gives the same tree moved *)
    Lemma walkv_shift :
      (forall s, odo_free s = true -> forall st an l an', walkv dcount r s st an = Ok (l, an') ->
         exists new, an' = new ++ an /\
           forall d an0, walkv dcount r s (st + d) an0 = Ok (wshift d l, shift_an d new ++ an0))
      /\ (forall ps, odo_free_props ps = true -> forall off an pls off' an', walkv_props dcount r ps off an = Ok (pls, off', an') ->
         exists new, an' = new ++ an /\
           forall d an0, walkv_props dcount r ps (off + d) an0 = Ok (wshift_props d pls, off' + d, shift_an d new ++ an0))
      /\ (forall alts, odo_free_alts alts = true -> forall st an als an', walkv_alts dcount r alts st an = Ok (als, an') ->
         exists new, an' = new ++ an /\
           forall d an0, walkv_alts dcount r alts (st + d) an0 = Ok (wshift_alts d als, shift_an d new ++ an0)).
    Proof.
      apply js_props_alts_ind.
      - intros a sz _ st an l an' E. rewrite walkv_atom in E. inversion E; subst.
        exists (wreg a (WAtom a st sz) []). split; [now rewrite <- wreg_app|].
        intros d an0. rewrite walkv_atom. now rewrite wreg_shift.
      - intros a n its IH Hof st an l an' E. rewrite walkv_arr in E. cbn [odo_free odo_free_props odo_free_alts] in Hof.
        destruct (walkv dcount r its st an) as [[sub an1]|e] eqn:Es; [|discriminate].
        inversion E; subst. destruct (IH Hof _ _ _ _ Es) as [new [Hn Hs]]. subst an1.
        exists (wreg a (WArr st (wsize sub * n) (wsize sub) n sub its) new). split; [now rewrite wreg_app|].
        intros d an0. rewrite walkv_arr, Hs. rewrite wreg_shift. cbn [wshift]. now rewrite wsize_shift.
      - intros a c its _ Hof. discriminate.
      - intros a ps IH Hof st an l an' E. rewrite walkv_obj in E. cbn [odo_free odo_free_props odo_free_alts] in Hof.
        destruct (walkv_props dcount r ps st an) as [[[pls off] an1]|e] eqn:Es; [|discriminate].
        inversion E; subst. destruct (IH Hof _ _ _ _ _ Es) as [new [Hn Hs]]. subst an1.
        exists (wreg a (WObj st (off - st) pls) new). split; [now rewrite wreg_app|].
        intros d an0. rewrite walkv_obj, Hs. rewrite wreg_shift. cbn [wshift].
        replace (off + d - (st + d)) with (off - st) by lia. reflexivity.
      - intros a alts IH Hof st an l an' E. cbn [odo_free odo_free_props odo_free_alts] in Hof.
        destruct alts as [|s0 rest]; [discriminate|]. rewrite walkv_one in E.
        destruct (walkv_alts dcount r (ACons s0 rest) st an) as [[als an1]|e] eqn:Es; [|discriminate].
        inversion E; subst. destruct (IH Hof _ _ _ _ Es) as [new [Hn Hs]]. subst an1.
        exists (wreg a (WOne st (wmax_size als) als) new). split; [now rewrite wreg_app|].
        intros d an0. rewrite walkv_one, Hs. rewrite wreg_shift. cbn [wshift]. now rewrite wmax_shift.
      - intros t _ st an l an' E. rewrite walkv_ref in E. inversion E; subst. exists []. split; [reflexivity|].
        intros d an0. reflexivity.
      - intros _ off an pls off' an' E. rewrite walkv_props_nil in E. inversion E; subst. exists []. split; [reflexivity|].
        intros d an0. reflexivity.
      - intros k s IHs rest IHr Hof off an pls off' an' E. rewrite walkv_props_cons in E. cbn [odo_free odo_free_props odo_free_alts] in Hof.
        apply andb_prop in Hof. destruct Hof as [Hs Hr].
        destruct (walkv dcount r s off an) as [[pl an1]|e] eqn:Es; [|discriminate].
        destruct (walkv_props dcount r rest (off + wsize pl) (wreg (js_anchor s) pl an1)) as [[[rl off1] an2]|e] eqn:Er; [|discriminate].
        inversion E; subst. destruct (IHs Hs _ _ _ _ Es) as [new1 [Hn1 Hs1]]. subst an1.
        destruct (IHr Hr _ _ _ _ _ Er) as [new2 [Hn2 Hs2]]. subst an'.
        exists (new2 ++ wreg (js_anchor s) pl new1). split; [now rewrite <- app_assoc, wreg_app|].
        intros d an0. rewrite walkv_props_cons, Hs1. rewrite wsize_shift.
        replace (off + d + wsize pl) with (off + wsize pl + d) by lia.
        rewrite <- wreg_shift. rewrite Hs2. cbn [wshift_props]. unfold shift_an. now rewrite map_app, <- app_assoc.
      - intros _ st an als an' E. rewrite walkv_alts_nil in E. inversion E; subst. exists []. split; [reflexivity|].
        intros d an0. reflexivity.
      - intros s IHs rest IHr Hof st an als an' E. rewrite walkv_alts_cons in E. cbn [odo_free odo_free_props odo_free_alts] in Hof.
        apply andb_prop in Hof. destruct Hof as [Hs Hr].
        destruct (walkv dcount r s st an) as [[l an1]|e] eqn:Es; [|discriminate].
        destruct (walkv_alts dcount r rest st an1) as [[ls an2]|e] eqn:Er; [|discriminate].
        inversion E; subst. destruct (IHs Hs _ _ _ _ Es) as [new1 [Hn1 Hs1]]. subst an1.
        destruct (IHr Hr _ _ _ _ Er) as [new2 [Hn2 Hs2]]. subst an'.
        exists (new2 ++ new1). split; [now rewrite <- app_assoc|].
        intros d an0. rewrite walkv_alts_cons, Hs1, Hs2. cbn [wshift_alts]. unfold shift_an. now rewrite map_app, <- app_assoc.
    Qed.
  End Rec.

  (* ---------------------------------------------------------------- shape of walk-produced trees *)
  Fixpoint chain (ps : wprops) (off : nat) : nat :=
    match ps with WPNil => off | WPCons _ l rest => chain rest (off + wsize l) end.

  Lemma chain_ge : forall ps off, off <= chain ps off.
  Proof. induction ps as [|k l rest IH]; intros off; cbn [chain]; [lia|]. specialize (IH (off + wsize l)). lia. Qed.

  Definition all_an (P : wloc -> Prop) (an : wanchors) : Prop := forall k l, In (k, l) an -> P l.

  Lemma all_an_wreg : forall (P : wloc -> Prop) a l an, P l -> all_an P an -> all_an P (wreg a l an).
  Proof.
    intros P a l an Hl Han. destruct a as [k|]; [|exact Han]. intros k' l' [H|H]; [inversion H; now subst|eauto].
  Qed.

  Lemma wlookup_in : forall t an l, wlookup t an = Some l -> exists k, In (k, l) an.
  Proof.
    intros t an. induction an as [|[k' l'] an IH]; intros l H; [discriminate|]. cbn [wlookup] in H.
    destruct (key_eqb t k').
    - inversion H; subst. exists k'. now left.
    - destruct (IH _ H) as [k Hk]. exists k. now right.
  Qed.

  Fixpoint ref_free (l : wloc) : bool :=
    match l with
    | WAtom _ _ _ => true
    | WArr _ _ _ _ it _ => ref_free it
    | WObj _ _ ps => ref_free_props ps
    | WOne _ _ alts => ref_free_alts alts
    | WRef _ _ => false
    end
  with ref_free_props (ps : wprops) : bool :=
    match ps with WPNil => true | WPCons _ l r => ref_free l && ref_free_props r end
  with ref_free_alts (ls : walts) : bool :=
    match ls with WANil => true | WACons l r => ref_free l && ref_free_alts r end.

  (* a location without $ref: its value does not depend on the anchors or the fuel, and moving the
     location is the same as moving the offset *)
  Lemma shift_reffree : forall (r : list B) an d an' d' D,
    (forall l, ref_free l = true -> forall o, value_body r dec an' d' (wshift D l) o = value_body r dec an d l (o + D))
    /\ (forall ps, ref_free_props ps = true -> forall o, props_body r dec an' d' (wshift_props D ps) o = props_body r dec an d ps (o + D))
    /\ (forall ls, ref_free_alts ls = true ->
          first_alt (fun l => forall o, value_body r dec an' d' (wshift D l) o = value_body r dec an d l (o + D)) ls).
  Proof.
    intros r an d an' d' D. apply wloc_wprops_walts_ind.
    - intros a st sz _ o. cbn [wshift]. rewrite !vb_atom.
      replace (st + D + o) with (st + (o + D)) by lia. replace (st + D + sz + o) with (st + sz + (o + D)) by lia. reflexivity.
    - intros st sz isz cnt it IH sch Hrf o. cbn [wshift ref_free ref_free_props ref_free_alts] in *. rewrite !vb_arr.
      rewrite (seq_values_ext (fun i => value_body r dec an' d' (wshift D it) (o + i * isz))
                              (fun i => value_body r dec an d it (o + D + i * isz)) cnt 0); [reflexivity|].
      intros j _. rewrite IH by exact Hrf. f_equal. lia.
    - intros st sz ps IH Hrf o. cbn [wshift ref_free ref_free_props ref_free_alts] in *. rewrite !vb_obj. now rewrite IH.
    - intros st sz alts IH Hrf o. cbn [wshift ref_free ref_free_props ref_free_alts] in *. rewrite !vb_one.
      destruct alts as [|first rest]; [reflexivity|]. cbn [wshift_alts]. exact (IH Hrf o).
    - intros st t Hrf. discriminate.
    - intros _ o. reflexivity.
    - intros k l IHl rest IHr Hrf o. cbn [wshift_props ref_free ref_free_props ref_free_alts] in *.
      apply andb_prop in Hrf. destruct Hrf as [H1 H2]. rewrite !pb_cons. now rewrite IHl, IHr.
    - intros _. exact I.
    - intros l IHl rest _ Hrf. cbn [ref_free ref_free_props ref_free_alts] in Hrf. apply andb_prop in Hrf. exact (IHl (proj1 Hrf)).
  Qed.

  Lemma wshift_0 :
    (forall l, wshift 0 l = l) /\ (forall ps, wshift_props 0 ps = ps) /\ (forall ls, wshift_alts 0 ls = ls).
  Proof.
    apply wloc_wprops_walts_ind; intros; cbn [wshift wshift_props wshift_alts]; rewrite ?Nat.add_0_r; congruence.
  Qed.

  Section Shape.
    Variable r : list B.

    Fixpoint wf (l : wloc) : Prop :=
      match l with
      | WAtom _ _ _ => True
      | WRef _ _ => True
      | WArr st sz isz cnt it sch =>
          wstart it = st /\ wsize it = isz /\ sz = isz * cnt /\ wf it
          /\ exists an0 an1, walkv dcount r sch st an0 = Ok (it, an1)
      | WObj st sz ps => wf_props ps st /\ st + sz = chain ps st
      | WOne st sz alts => wf_alts alts st sz
      end
    with wf_props (ps : wprops) (off : nat) : Prop :=
      match ps with
      | WPNil => True
      | WPCons _ l rest => wstart l = off /\ wf l /\ wf_props rest (off + wsize l)
      end
    with wf_alts (ls : walts) (st sz : nat) : Prop :=
      match ls with
      | WANil => True
      | WACons l rest => wstart l = st /\ wsize l <= sz /\ wf l /\ wf_alts rest st sz
      end.

    Lemma wf_alts_weaken : forall ls st sz sz', sz <= sz' -> wf_alts ls st sz -> wf_alts ls st sz'.
    Proof.
      induction ls as [|l rest IH]; intros st sz sz' Hle H; [exact I|]. cbn [wf_alts] in *.
      destruct H as [H1 [H2 [H3 H4]]]. repeat split; try assumption; [lia|eauto].
    Qed.

    Lemma walkv_wf :
      (forall s st an l an', walkv dcount r s st an = Ok (l, an') ->
         wstart l = st /\ wf l /\ (all_an wf an -> all_an wf an'))
      /\ (forall ps off an pls off' an', walkv_props dcount r ps off an = Ok (pls, off', an') ->
         wf_props pls off /\ off' = chain pls off /\ (all_an wf an -> all_an wf an'))
      /\ (forall alts st an als an', walkv_alts dcount r alts st an = Ok (als, an') ->
         wf_alts als st (wmax_size als) /\ (all_an wf an -> all_an wf an')).
    Proof.
      apply js_props_alts_ind.
      - intros a sz st an l an' E. rewrite walkv_atom in E. inversion E; subst. repeat split.
        intros H. now apply all_an_wreg.
      - intros a n its IH st an l an' E. rewrite walkv_arr in E.
        destruct (walkv dcount r its st an) as [[sub an1]|e] eqn:Es; [|discriminate].
        inversion E; subst. destruct (IH _ _ _ _ Es) as [H1 [H2 H3]].
        assert (Hw : wf (WArr st (wsize sub * n) (wsize sub) n sub its)).
        { cbn [wf]. repeat split; try assumption. eauto. }
        repeat split; try assumption; [eauto|]. intros H. apply all_an_wreg; auto.
      - intros a c its IH st an l an' E. rewrite walkv_odo in E.
        destruct (wlookup (KName c) an) as [[ca cst csz| | | |]|]; try discriminate.
        destruct (walkv dcount r its st an) as [[sub an1]|e] eqn:Es; [|discriminate].
        inversion E; subst. destruct (IH _ _ _ _ Es) as [H1 [H2 H3]].
        set (n := dcount (slice r cst (cst + csz))) in *.
        assert (Hw : wf (WArr st (wsize sub * n) (wsize sub) n sub its)).
        { cbn [wf]. repeat split; try assumption. eauto. }
        repeat split; try assumption; [eauto|]. intros H. apply all_an_wreg; auto.
      - intros a ps IH st an l an' E. rewrite walkv_obj in E.
        destruct (walkv_props dcount r ps st an) as [[[pls off] an1]|e] eqn:Es; [|discriminate].
        inversion E; subst. destruct (IH _ _ _ _ _ Es) as [H1 [H2 H3]].
        assert (Hw : wf (WObj st (off - st) pls)).
        { cbn [wf]. split; [exact H1|]. pose proof (chain_ge pls st). lia. }
        repeat split; try assumption; [exact (proj2 Hw)|]. intros H. apply all_an_wreg; auto.
      - intros a alts IH st an l an' E. destruct alts as [|s0 rest]; [discriminate|]. rewrite walkv_one in E.
        destruct (walkv_alts dcount r (ACons s0 rest) st an) as [[als an1]|e] eqn:Es; [|discriminate].
        inversion E; subst. destruct (IH _ _ _ _ Es) as [H1 H3].
        repeat split; try assumption. intros H. apply all_an_wreg; auto.
      - intros t st an l an' E. rewrite walkv_ref in E. inversion E; subst. repeat split. auto.
      - intros off an pls off' an' E. rewrite walkv_props_nil in E. inversion E; subst. repeat split. auto.
      - intros k s IHs rest IHr off an pls off' an' E. rewrite walkv_props_cons in E.
        destruct (walkv dcount r s off an) as [[pl an1]|e] eqn:Es; [|discriminate].
        destruct (walkv_props dcount r rest (off + wsize pl) (wreg (js_anchor s) pl an1)) as [[[rl off1] an2]|e] eqn:Er; [|discriminate].
        inversion E; subst. destruct (IHs _ _ _ _ Es) as [H1 [H2 H3]]. destruct (IHr _ _ _ _ _ Er) as [G1 [G2 G3]].
        cbn [wf_props chain]. repeat split; try assumption.
        intros H. apply G3. apply all_an_wreg; auto.
      - intros st an als an' E. rewrite walkv_alts_nil in E. inversion E; subst. split; [exact I|auto].
      - intros s IHs rest IHr st an als an' E. rewrite walkv_alts_cons in E.
        destruct (walkv dcount r s st an) as [[l an1]|e] eqn:Es; [|discriminate].
        destruct (walkv_alts dcount r rest st an1) as [[ls an2]|e] eqn:Er; [|discriminate].
        inversion E; subst. destruct (IHs _ _ _ _ Es) as [H1 [H2 H3]]. destruct (IHr _ _ _ _ Er) as [G1 G3].
        cbn [wf_alts wmax_size]. repeat split; try assumption; [lia| |auto].
        apply (wf_alts_weaken _ _ (wmax_size ls)); [lia|exact G1].
    Qed.

    Lemma wf_props_find : forall ps off k c,
      wf_props ps off -> wfind k ps = Some c -> wf c /\ off <= wstart c /\ wend c <= chain ps off.
    Proof.
      induction ps as [|k0 l rest IH]; intros off k c Hw Hf; [discriminate|]. cbn [wf_props wfind chain] in *.
      destruct Hw as [H1 [H2 H3]]. destruct (key_eqb k k0).
      - inversion Hf; subst c. split; [exact H2|]. unfold wend. pose proof (chain_ge rest (off + wsize l)). lia.
      - destruct (IH _ _ _ H3 Hf) as [G1 [G2 G3]]. split; [exact G1|]. lia.
    Qed.

    (* what holds of every navigator obtained from vnav_of by name / index steps *)
    Definition inv (v : vnav) : Prop := wf (vn_loc v) /\ all_an wf (vn_an v).

    Lemma inv_of : forall s v, vnav_of dcount r s = Ok v -> inv v.
    Proof.
      intros s v E. rewrite vnav_of_unf in E. destruct (walkv dcount r s 0 []) as [[l an]|e] eqn:Ew; [|discriminate].
      inversion E; subst. destruct (proj1 walkv_wf _ _ _ _ _ Ew) as [_ [H2 H3]]. split; [exact H2|].
      apply H3. intros k l' [].
    Qed.

    Lemma inv_name : forall v k v', inv v -> vnav_name v k = Ok v' -> inv v'.
    Proof.
      intros [l an] k v' [Hw Ha] E. rewrite vnav_name_unf in E. cbn [vn_loc vn_an] in *.
      destruct l as [a st sz|st sz isz cnt it sch|st sz ps|st sz alts|st t]; try discriminate.
      destruct (wfind k ps) as [c|] eqn:Ef; [|discriminate]. cbn [wf] in Hw.
      destruct (wf_props_find _ _ _ _ (proj1 Hw) Ef) as [Hc _].
      destruct c as [a' st' sz'|st' sz' isz' cnt' it' sch'|st' sz' ps'|st' sz' alts'|st' t'];
        try (inversion E; subst v'; split; assumption).
      destruct (wlookup t' an) as [target|] eqn:El; [|discriminate]. inversion E; subst v'.
      split; [|exact Ha]. cbn [vn_loc]. destruct (wlookup_in _ _ _ El) as [k' Hin]. exact (Ha _ _ Hin).
    Qed.

    Lemma inv_index : forall v i v', vnav_index dcount r v i = Ok v' -> inv v'.
    Proof.
      intros [l an] i v' E. rewrite vnav_index_unf in E. cbn [vn_loc vn_an] in *.
      destruct l as [a st sz|st sz isz cnt it sch|st sz ps|st sz alts|st t]; try discriminate.
      destruct (cnt <=? i); [discriminate|].
      destruct (walkv dcount r sch (st + isz * i) []) as [[l' an']|e] eqn:Ew; [|discriminate].
      inversion E; subst. destruct (proj1 walkv_wf _ _ _ _ _ Ew) as [_ [H2 H3]]. split; [exact H2|].
      apply H3. intros k l'' [].
    Qed.

    Lemma inv_path : forall p v v', inv v -> vnav_path dcount r v p = Ok v' -> inv v'.
    Proof.
      induction p as [|s p IH]; intros v v' Hi E; cbn [vnav_path] in E; [inversion E; now subst|].
      destruct (vnav_step dcount r v s) as [v1|e] eqn:Es; [|discriminate].
      apply (IH v1); [|exact E]. destruct s as [k|i]; cbn [vnav_step] in Es; [eapply inv_name|eapply inv_index]; eauto.
    Qed.

    (* ---- containment: a child reached by a name that is not a $ref placeholder *)

    Lemma name_inside : forall v k v', inv v -> vnav_name v k = Ok v' -> ref_prop v k = false ->
      wstart (vn_loc v) <= wstart (vn_loc v') /\ wend (vn_loc v') <= wend (vn_loc v).
    Proof.
      intros [l an] k v' [Hw Ha] E Hr. unfold ref_prop in *. rewrite ?vnav_name_unf in *. cbn [vn_loc vn_an] in *.
      destruct l as [a st sz|st sz isz cnt it sch|st sz ps|st sz alts|st t]; try discriminate.
      destruct (wfind k ps) as [c|] eqn:Ef; [|discriminate]. cbn [wf] in Hw. destruct Hw as [Hp Hc].
      destruct (wf_props_find _ _ _ _ Hp Ef) as [_ [G1 G2]].
      destruct c as [a' st' sz'|st' sz' isz' cnt' it' sch'|st' sz' ps'|st' sz' alts'|st' t']; try discriminate;
        inversion E; subst v'; cbn [vn_loc wstart] in *; unfold wend in *; cbn [wstart wsize] in *; lia.
    Qed.

    (* ---- one occurrence of an ODO-free item: the first occurrence, moved *)
    Lemma index_shift : forall v st sz isz cnt it sch i,
      inv v -> vn_loc v = WArr st sz isz cnt it sch -> odo_free sch = true -> i < cnt ->
      exists an', vnav_index dcount r v i = Ok (mkvnav (wshift (isz * i) it) an').
    Proof.
      intros [l an] st sz isz cnt it sch i [Hw _] Hl Hof Hi. cbn [vn_loc] in *. subst l. cbn [wf] in Hw.
      destruct Hw as [_ [_ [_ [_ [an0 [an1 Ew]]]]]].
      destruct (proj1 (walkv_shift r) sch Hof _ _ _ _ Ew) as [new [_ Hs]].
      rewrite vnav_index_unf. cbn [vn_loc]. destruct (cnt <=? i) eqn:E; [apply Nat.leb_le in E; lia|].
      rewrite Hs. eexists. reflexivity.
    Qed.

    Lemma index_inside : forall v st sz isz cnt it sch i v',
      inv v -> vn_loc v = WArr st sz isz cnt it sch -> odo_free sch = true ->
      vnav_index dcount r v i = Ok v' ->
      wstart (vn_loc v') = st + isz * i /\ wsize (vn_loc v') = isz
      /\ wstart (vn_loc v) <= wstart (vn_loc v') /\ wend (vn_loc v') <= wend (vn_loc v).
    Proof.
      intros v st sz isz cnt it sch i v' Hinv Hl Hof E.
      assert (Hi : i < cnt).
      { rewrite vnav_index_unf in E. rewrite Hl in E. destruct (cnt <=? i) eqn:Ec; [discriminate|]. now apply Nat.leb_gt in Ec. }
      destruct (index_shift v _ _ _ _ _ _ i Hinv Hl Hof Hi) as [an' E']. rewrite E' in E. inversion E; subst v'.
      destruct Hinv as [Hw _]. rewrite Hl in Hw. cbn [wf] in Hw. destruct Hw as [H1 [H2 [H3 _]]].
      cbn [vn_loc]. rewrite wstart_shift, wsize_shift. rewrite Hl. unfold wend. rewrite wstart_shift, wsize_shift.
      cbn [wstart wsize]. subst sz. repeat split; try lia. nia.
    Qed.

    (* ---- simple (no $ref, no ODO) schemas give $ref-free trees *)
    Lemma walkv_simple_reffree :
      (forall s, simple s = true -> forall st an l an', walkv dcount r s st an = Ok (l, an') -> ref_free l = true)
      /\ (forall ps, simple_props ps = true -> forall off an pls off' an', walkv_props dcount r ps off an = Ok (pls, off', an') -> ref_free_props pls = true)
      /\ (forall alts, simple_alts alts = true -> forall st an als an', walkv_alts dcount r alts st an = Ok (als, an') -> ref_free_alts als = true).
    Proof.
      apply js_props_alts_ind.
      - intros a sz _ st an l an' E. rewrite walkv_atom in E. inversion E; subst. reflexivity.
      - intros a n its IH Hs st an l an' E. cbn [simple simple_props simple_alts] in Hs. rewrite walkv_arr in E.
        destruct (walkv dcount r its st an) as [[sub an1]|e] eqn:Es; [|discriminate]. inversion E; subst.
        cbn [ref_free]. eauto.
      - intros a c its _ Hs. discriminate.
      - intros a ps IH Hs st an l an' E. cbn [simple simple_props simple_alts] in Hs. rewrite walkv_obj in E.
        destruct (walkv_props dcount r ps st an) as [[[pls off] an1]|e] eqn:Es; [|discriminate]. inversion E; subst.
        cbn [ref_free]. eauto.
      - intros a alts IH Hs st an l an' E. cbn [simple simple_props simple_alts] in Hs.
        destruct alts as [|s0 rest]; [discriminate|]. rewrite walkv_one in E.
        destruct (walkv_alts dcount r (ACons s0 rest) st an) as [[als an1]|e] eqn:Es; [|discriminate]. inversion E; subst.
        cbn [ref_free]. eauto.
      - intros t Hs. discriminate.
      - intros _ off an pls off' an' E. rewrite walkv_props_nil in E. inversion E; subst. reflexivity.
      - intros k s IHs rest IHr Hs off an pls off' an' E. cbn [simple simple_props simple_alts] in Hs.
        apply andb_prop in Hs. destruct Hs as [Hs1 Hs2]. rewrite walkv_props_cons in E.
        destruct (walkv dcount r s off an) as [[pl an1]|e] eqn:Es; [|discriminate].
        destruct (walkv_props dcount r rest (off + wsize pl) (wreg (js_anchor s) pl an1)) as [[[rl off1] an2]|e] eqn:Er; [|discriminate].
        inversion E; subst. cbn [ref_free_props]. rewrite (IHs Hs1 _ _ _ _ Es), (IHr Hs2 _ _ _ _ _ Er). reflexivity.
      - intros _ st an als an' E. rewrite walkv_alts_nil in E. inversion E; subst. reflexivity.
      - intros s IHs rest IHr Hs st an als an' E. cbn [simple simple_props simple_alts] in Hs.
        apply andb_prop in Hs. destruct Hs as [Hs1 Hs2]. rewrite walkv_alts_cons in E.
        destruct (walkv dcount r s st an) as [[l an1]|e] eqn:Es; [|discriminate].
        destruct (walkv_alts dcount r rest st an1) as [[ls an2]|e] eqn:Er; [|discriminate].
        inversion E; subst. cbn [ref_free_alts]. rewrite (IHs Hs1 _ _ _ _ Es), (IHr Hs2 _ _ _ _ Er). reflexivity.
    Qed.

    (* ---- whole and part: indices, for items without $ref and without ODO *)
    Theorem commute_index_simple : forall v st sz isz cnt it sch (xs : list pvA) i,
      inv v -> vn_loc v = WArr st sz isz cnt it sch -> simple sch = true ->
      vnav_value r dec v = Some (Ok (PList xs)) -> i < cnt ->
      exists v' x, vnav_index dcount r v i = Ok v' /\ nth_error xs i = Some x /\ vnav_value r dec v' = Some (Ok x).
    Proof.
      intros v st sz isz cnt it sch xs i Hinv Hl Hs Hv Hi.
      pose proof (proj1 simple_odo_free _ Hs) as Hof.
      destruct (index_shift v _ _ _ _ _ _ i Hinv Hl Hof Hi) as [an' E'].
      assert (Hrf : ref_free it = true).
      { destruct Hinv as [Hw _]. rewrite Hl in Hw. cbn [wf] in Hw. destruct Hw as [_ [_ [_ [_ [an0 [an1 Ew]]]]]].
        exact (proj1 walkv_simple_reffree _ Hs _ _ _ _ Ew). }
      destruct v as [l an]. cbn [vn_loc] in Hl. subst l. unfold vnav_value in *; change SR.Gen.LayoutParams.value_default_offset with 0 in *. cbn [vn_loc vn_an] in *.
      assert (Hb : forall F an0, exists dr, wvalue r dec F an0 = value_body r dec an0 dr).
      { intros F an0. destruct F as [|f]; [exists (fun _ _ => None); apply wvalue_0|exists (wvalue r dec f an0); apply wvalue_S]. }
      destruct (Hb (length an) an) as [dr Hw]. rewrite Hw, vb_arr in Hv.
      destruct (seq_values (fun j => value_body r dec an dr it (0 + j * isz)) cnt 0) as [[ys|e]|] eqn:Es; try discriminate.
      inversion Hv; subst ys. destruct (seq_values_nth _ _ _ _ Es) as [_ Hn]. destruct (Hn i Hi) as [x [Hx1 Hx2]].
      eexists. exists x. split; [exact E'|]. split; [exact Hx1|]. cbn [vn_loc vn_an].
      destruct (Hb (length an') an') as [dr' Hw']. rewrite Hw'.
      rewrite (proj1 (shift_reffree r an dr an' dr' (isz * i)) it Hrf 0).
      rewrite <- Hx2. f_equal. lia.
    Qed.
  End Shape.

  (* ---------------------------------------------------------------- NDNav.index takes any Python int *)
  Lemma index_start_nat : forall (v : vnav) st sz isz cnt it sch i,
    vn_loc v = WArr st sz isz cnt it sch -> i < cnt ->
    index_start_z v (Z.of_nat i) = Ok (Z.of_nat (st + isz * i)).
  Proof.
    intros v st sz isz cnt it sch i Hl Hi. rewrite index_start_z_unf. rewrite Hl.
    destruct (Z.of_nat i <? 0)%Z eqn:E0; [apply Z.ltb_lt in E0; lia|]. cbn [orb].
    destruct (Z.of_nat cnt <=? Z.of_nat i)%Z eqn:E; [apply Z.leb_le in E; lia|]. f_equal. lia.
  Qed.

  (* every negative index is refused, whatever the table (fix 08e8809) *)
  Lemma index_negative_refused : forall (v : vnav) st sz isz cnt it sch z,
    vn_loc v = WArr st sz isz cnt it sch -> (z < 0)%Z ->
    index_start_z v z = Err IndexError.
  Proof.
    intros v st sz isz cnt it sch z Hl Hz. rewrite index_start_z_unf. rewrite Hl.
    apply Z.ltb_lt in Hz. rewrite Hz. reflexivity.
  Qed.

  (* an index is accepted exactly when 0 <= z < item_count *)
  Lemma index_accepted_iff : forall (v : vnav) st sz isz cnt it sch z,
    vn_loc v = WArr st sz isz cnt it sch ->
    (index_start_z v z <> Err IndexError <-> (0 <= z < Z.of_nat cnt)%Z).
  Proof.
    intros v st sz isz cnt it sch z Hl. rewrite index_start_z_unf. rewrite Hl.
    destruct (z <? 0)%Z eqn:E0; [apply Z.ltb_lt in E0|apply Z.ltb_ge in E0]; cbn [orb].
    - split; [intros H; now elim H|lia].
    - destruct (Z.of_nat cnt <=? z)%Z eqn:E; [apply Z.leb_le in E|apply Z.leb_gt in E].
      + split; [intros H; now elim H|lia].
      + split; [lia|discriminate].
  Qed.

  (* what the fix repaired: with the single test index >= item_count of the original source a negative index is
     NOT refused, and the occurrence is walked from a start before the table *)
  Lemma index_start_old_negative : forall (v : vnav) st sz isz cnt it sch z,
    vn_loc v = WArr st sz isz cnt it sch -> (z < 0)%Z ->
    index_start_with None (Some LayoutRule.CmpGe) v z = Ok (Z.of_nat st + Z.of_nat isz * z)%Z.
  Proof.
    intros v st sz isz cnt it sch z Hl Hz. rewrite index_start_old_unf. rewrite Hl.
    destruct (Z.of_nat cnt <=? z)%Z eqn:E; [apply Z.leb_le in E; lia|]. reflexivity.
  Qed.

  (* ---------------------------------------------------------------- a $ref occurring inside a location *)

  (* ---------------------------------------------------------------- without ODO the tree does not depend on the record *)
  Lemma walkv_record_free : forall (r r' : list B),
    (forall s, odo_free s = true -> forall st an, walkv dcount r s st an = walkv dcount r' s st an)
    /\ (forall ps, odo_free_props ps = true -> forall off an, walkv_props dcount r ps off an = walkv_props dcount r' ps off an)
    /\ (forall alts, odo_free_alts alts = true -> forall st an, walkv_alts dcount r alts st an = walkv_alts dcount r' alts st an).
  Proof.
    intros r r'. apply js_props_alts_ind.
    - reflexivity.
    - intros a n its IH Hof st an. cbn [odo_free odo_free_props odo_free_alts] in Hof. rewrite !walkv_arr. now rewrite IH.
    - intros a c its _ Hof. discriminate.
    - intros a ps IH Hof st an. cbn [odo_free odo_free_props odo_free_alts] in Hof. rewrite !walkv_obj. now rewrite IH.
    - intros a alts IH Hof st an. cbn [odo_free odo_free_props odo_free_alts] in Hof.
      destruct alts as [|s0 rest]; [reflexivity|]. rewrite !walkv_one. now rewrite IH.
    - reflexivity.
    - reflexivity.
    - intros k s IHs rest IHr Hof off an. cbn [odo_free odo_free_props odo_free_alts] in Hof.
      apply andb_prop in Hof. destruct Hof as [H1 H2]. rewrite !walkv_props_cons. rewrite IHs by exact H1.
      destruct (walkv dcount r' s off an) as [[pl an1]|e]; [|reflexivity]. now rewrite IHr.
    - reflexivity.
    - intros s IHs rest IHr Hof st an. cbn [odo_free odo_free_props odo_free_alts] in Hof.
      apply andb_prop in Hof. destruct Hof as [H1 H2]. rewrite !walkv_alts_cons. rewrite IHs by exact H1.
      destruct (walkv dcount r' s st an) as [[l an1]|e]; [|reflexivity]. now rewrite IHr.
  Qed.

  (* ---------------------------------------------------------------- footprint of $ref-free, well-shaped trees *)
  Lemma foot_reffree_inside : forall (r : list B) an df,
    (forall l, wf r l -> ref_free l = true -> forall o a b, In (a, b) (foot_body an df l o) ->
       wstart l + o <= a /\ b <= wend l + o)
    /\ (forall ps, forall off, wf_props r ps off -> ref_free_props ps = true -> forall o a b, In (a, b) (foot_props an df ps o) ->
       off + o <= a /\ b <= chain ps off + o)
    /\ (forall ls, forall st sz, wf_alts r ls st sz -> ref_free_alts ls = true ->
       first_alt (fun l => forall o a b, In (a, b) (foot_body an df l o) -> st + o <= a /\ b <= st + sz + o) ls).
  Proof.
    intros r an df. apply wloc_wprops_walts_ind.
    - intros a st sz _ _ o x y H. rewrite fb_atom in H. destruct H as [H|[]]. inversion H; subst. unfold wend. cbn [wstart wsize]. lia.
    - intros st sz isz cnt it IH sch Hw Hrf o x y H. cbn [wf ref_free ref_free_props ref_free_alts] in *.
      destruct Hw as [H1 [H2 [H3 [H4 _]]]]. rewrite fb_arr in H. apply in_flat_map in H. destruct H as [j [Hj Hin]].
      apply in_seq in Hj. destruct (IH H4 Hrf _ _ _ Hin) as [G1 G2]. unfold wend in *. cbn [wstart wsize]. rewrite H1, H2 in *. subst sz.
      split; [lia|]. nia.
    - intros st sz ps IH Hw Hrf o x y H. cbn [wf ref_free ref_free_props ref_free_alts] in *. destruct Hw as [H1 H2].
      rewrite fb_obj in H. destruct (IH st H1 Hrf _ _ _ H) as [G1 G2]. unfold wend. cbn [wstart wsize]. lia.
    - intros st sz alts IH Hw Hrf o x y H. cbn [wf ref_free ref_free_props ref_free_alts] in *. rewrite fb_one in H.
      destruct alts as [|first rest]; [destruct H|]. specialize (IH st sz Hw Hrf). cbn [first_alt] in IH.
      destruct (IH _ _ _ H) as [G1 G2]. unfold wend. cbn [wstart wsize]. lia.
    - intros st t _ Hrf. discriminate.
    - intros off _ _ o x y H. destruct H.
    - intros k l IHl rest IHr off Hw Hrf o x y H. cbn [wf_props ref_free ref_free_props ref_free_alts chain] in *.
      destruct Hw as [H1 [H2 H3]]. apply andb_prop in Hrf. destruct Hrf as [R1 R2]. rewrite fp_cons in H.
      apply in_app_or in H. destruct H as [H|H].
      + destruct (IHl H2 R1 _ _ _ H) as [G1 G2]. unfold wend in G2. pose proof (chain_ge rest (off + wsize l)). lia.
      + destruct (IHr _ H3 R2 _ _ _ H) as [G1 G2]. lia.
    - intros st sz _ _. exact I.
    - intros l IHl rest _ st sz Hw Hrf. cbn [wf_alts ref_free ref_free_props ref_free_alts first_alt] in *.
      destruct Hw as [H1 [H2 [H3 _]]]. apply andb_prop in Hrf. destruct Hrf as [R1 _].
      intros o x y H. destruct (IHl H3 R1 _ _ _ H) as [G1 G2]. unfold wend in G2. lia.
  Qed.

  Lemma foot_inside_reffree : forall (r : list B) (v : vnav),
    inv r v -> ref_free (vn_loc v) = true -> foot_inside v = true.
  Proof.
    intros r [l an] [Hw _] Hrf. cbn [vn_loc] in *. unfold foot_inside, vnav_foot; change SR.Gen.LayoutParams.value_default_offset with 0. cbn [vn_loc vn_an].
    apply forallb_forall. intros [a b] Hin. cbn [fst snd].
    assert (Hb : exists df, wfoot (length an) an = foot_body an df).
    { destruct (length an) as [|f]; [exists (fun _ _ => []); apply wfoot_0|exists (wfoot f an); apply wfoot_S]. }
    destruct Hb as [df Hf]. rewrite Hf in Hin.
    destruct (proj1 (foot_reffree_inside r an df) l Hw Hrf _ _ _ Hin) as [G1 G2].
    apply andb_true_intro. split; apply Nat.leb_le; lia.
  Qed.

  (* trees of simple schemas: no $ref, and every table remembers a simple items schema *)
  Fixpoint simple_loc (l : wloc) : bool :=
    match l with
    | WAtom _ _ _ => true
    | WArr _ _ _ _ it sch => simple sch && simple_loc it
    | WObj _ _ ps => simple_loc_props ps
    | WOne _ _ alts => simple_loc_alts alts
    | WRef _ _ => false
    end
  with simple_loc_props (ps : wprops) : bool :=
    match ps with WPNil => true | WPCons _ l r => simple_loc l && simple_loc_props r end
  with simple_loc_alts (ls : walts) : bool :=
    match ls with WANil => true | WACons l r => simple_loc l && simple_loc_alts r end.

  Lemma simple_loc_reffree :
    (forall l, simple_loc l = true -> ref_free l = true)
    /\ (forall ps, simple_loc_props ps = true -> ref_free_props ps = true)
    /\ (forall ls, simple_loc_alts ls = true -> ref_free_alts ls = true).
  Proof.
    apply wloc_wprops_walts_ind; cbn [simple_loc simple_loc_props simple_loc_alts ref_free ref_free_props ref_free_alts]; intros; auto.
    - apply andb_prop in H0. destruct H0. auto.
    - apply andb_prop in H1. destruct H1. rewrite H, H0; auto.
    - apply andb_prop in H1. destruct H1. rewrite H, H0; auto.
  Qed.

  Lemma walkv_simple_loc : forall (r : list B),
    (forall s, simple s = true -> forall st an l an', walkv dcount r s st an = Ok (l, an') -> simple_loc l = true)
    /\ (forall ps, simple_props ps = true -> forall off an pls off' an', walkv_props dcount r ps off an = Ok (pls, off', an') -> simple_loc_props pls = true)
    /\ (forall alts, simple_alts alts = true -> forall st an als an', walkv_alts dcount r alts st an = Ok (als, an') -> simple_loc_alts als = true).
  Proof.
    intros r. apply js_props_alts_ind.
    - intros a sz _ st an l an' E. rewrite walkv_atom in E. inversion E; subst. reflexivity.
    - intros a n its IH Hs st an l an' E. cbn [simple simple_props simple_alts] in Hs. rewrite walkv_arr in E.
      destruct (walkv dcount r its st an) as [[sub an1]|e] eqn:Es; [|discriminate]. inversion E; subst.
      cbn [simple_loc]. rewrite Hs. cbn. eauto.
    - intros a c its _ Hs. discriminate.
    - intros a ps IH Hs st an l an' E. cbn [simple simple_props simple_alts] in Hs. rewrite walkv_obj in E.
      destruct (walkv_props dcount r ps st an) as [[[pls off] an1]|e] eqn:Es; [|discriminate]. inversion E; subst.
      cbn [simple_loc]. eauto.
    - intros a alts IH Hs st an l an' E. cbn [simple simple_props simple_alts] in Hs.
      destruct alts as [|s0 rest]; [discriminate|]. rewrite walkv_one in E.
      destruct (walkv_alts dcount r (ACons s0 rest) st an) as [[als an1]|e] eqn:Es; [|discriminate]. inversion E; subst.
      cbn [simple_loc]. eauto.
    - intros t Hs. discriminate.
    - intros _ off an pls off' an' E. rewrite walkv_props_nil in E. inversion E; subst. reflexivity.
    - intros k s IHs rest IHr Hs off an pls off' an' E. cbn [simple simple_props simple_alts] in Hs.
      apply andb_prop in Hs. destruct Hs as [Hs1 Hs2]. rewrite walkv_props_cons in E.
      destruct (walkv dcount r s off an) as [[pl an1]|e] eqn:Es; [|discriminate].
      destruct (walkv_props dcount r rest (off + wsize pl) (wreg (js_anchor s) pl an1)) as [[[rl off1] an2]|e] eqn:Er; [|discriminate].
      inversion E; subst. cbn [simple_loc_props]. rewrite (IHs Hs1 _ _ _ _ Es), (IHr Hs2 _ _ _ _ _ Er). reflexivity.
    - intros _ st an als an' E. rewrite walkv_alts_nil in E. inversion E; subst. reflexivity.
    - intros s IHs rest IHr Hs st an als an' E. cbn [simple simple_props simple_alts] in Hs.
      apply andb_prop in Hs. destruct Hs as [Hs1 Hs2]. rewrite walkv_alts_cons in E.
      destruct (walkv dcount r s st an) as [[l an1]|e] eqn:Es; [|discriminate].
      destruct (walkv_alts dcount r rest st an1) as [[ls an2]|e] eqn:Er; [|discriminate].
      inversion E; subst. cbn [simple_loc_alts]. rewrite (IHs Hs1 _ _ _ _ Es), (IHr Hs2 _ _ _ _ Er). reflexivity.
  Qed.

  Lemma simple_loc_find : forall ps k c, simple_loc_props ps = true -> wfind k ps = Some c -> simple_loc c = true.
  Proof.
    induction ps as [|k0 l rest IH]; intros k c Hs Hf; [discriminate|]. cbn [simple_loc_props wfind] in *.
    apply andb_prop in Hs. destruct Hs as [H1 H2]. destruct (key_eqb k k0); [inversion Hf; now subst|eauto].
  Qed.

  Lemma simple_path : forall (r : list B) p v v',
    simple_loc (vn_loc v) = true -> vnav_path dcount r v p = Ok v' -> simple_loc (vn_loc v') = true.
  Proof.
    intros r. induction p as [|s p IH]; intros v v' Hs E; cbn [vnav_path] in E; [inversion E; now subst|].
    destruct (vnav_step dcount r v s) as [v1|e] eqn:Es; [|discriminate]. apply (IH v1); [|exact E].
    destruct v as [l an]. cbn [vn_loc] in Hs. destruct s as [k|i]; cbn [vnav_step] in Es.
    - rewrite vnav_name_unf in Es. cbn [vn_loc vn_an] in Es.
      destruct l as [a st sz|st sz isz cnt it sch|st sz ps|st sz alts|st t]; try discriminate.
      destruct (wfind k ps) as [c|] eqn:Ef; [|discriminate]. cbn [simple_loc] in Hs.
      pose proof (simple_loc_find _ _ _ Hs Ef) as Hc.
      destruct c as [a' st' sz'|st' sz' isz' cnt' it' sch'|st' sz' ps'|st' sz' alts'|st' t']; try discriminate;
        inversion Es; subst v1; exact Hc.
    - rewrite vnav_index_unf in Es. cbn [vn_loc vn_an] in Es.
      destruct l as [a st sz|st sz isz cnt it sch|st sz ps|st sz alts|st t]; try discriminate.
      destruct (cnt <=? i); [discriminate|]. cbn [simple_loc] in Hs. apply andb_prop in Hs. destruct Hs as [Hsch _].
      destruct (walkv dcount r sch (st + isz * i) []) as [[l' an']|e] eqn:Ew; [|discriminate]. inversion Es; subst v1.
      exact (proj1 (walkv_simple_loc r) _ Hsch _ _ _ _ Ew).
  Qed.

  Theorem foot_inside_simple : forall (r : list B) s p v0 v,
    simple s = true -> vnav_of dcount r s = Ok v0 -> vnav_path dcount r v0 p = Ok v -> foot_inside v = true.
  Proof.
    intros r s p v0 v Hs H0 Hp. apply (foot_inside_reffree r).
    - exact (inv_path r p v0 v (inv_of r s v0 H0) Hp).
    - apply (proj1 simple_loc_reffree). apply (simple_path r p v0 v); [|exact Hp].
      rewrite vnav_of_unf in H0. destruct (walkv dcount r s 0 []) as [[l an]|e] eqn:Ew; [|discriminate]. inversion H0; subst.
      exact (proj1 (walkv_simple_loc r) _ Hs _ _ _ _ Ew).
  Qed.

  Lemma index_refused : forall (r : list B) (v : vnav) st sz isz cnt it sch i,
    vn_loc v = WArr st sz isz cnt it sch -> cnt <= i -> vnav_index dcount r v i = Err IndexError.
  Proof.
    intros r v st sz isz cnt it sch i Hl Hi. rewrite vnav_index_unf. rewrite Hl.
    destruct (cnt <=? i) eqn:E; [reflexivity|]. apply Nat.leb_gt in E. lia.
  Qed.

End Value.

(* ------------------------------------------------------------------ the tie to C01's layout model *)
Section Erase.
  Variable B : Type.
  Variable dcount : list B -> nat.
  Variable r : list B.

  Lemma lsize_erase : forall l, lsize (erase l) = wsize l.
  Proof. destruct l; reflexivity. Qed.
  Lemma lstart_erase : forall l, lstart (erase l) = wstart l.
  Proof. destruct l; reflexivity. Qed.
  Lemma max_size_erase : forall ls, max_size (erase_alts ls) = wmax_size ls.
  Proof. induction ls as [|l rest IH]; [reflexivity|]. cbn [erase_alts max_size wmax_size]. now rewrite lsize_erase, IH. Qed.
  Lemma lookup_erase : forall k an, lookup k (erase_an an) = option_map erase (wlookup k an).
  Proof.
    intros k an. induction an as [|[k' l] an IH]; [reflexivity|]. cbn [erase_an map lookup wlookup fst snd].
    destruct (key_eqb k k'); [reflexivity|exact IH].
  Qed.
  Lemma reg_erase : forall a l an, reg a (erase l) (erase_an an) = erase_an (wreg a l an).
  Proof. intros a l an. destruct a; reflexivity. Qed.
  Lemma find_prop_erase : forall k ps, find_prop k (erase_props ps) = option_map erase (wfind k ps).
  Proof.
    intros k ps. induction ps as [|k' l rest IH]; [reflexivity|]. cbn [erase_props find_prop wfind].
    destruct (key_eqb k k'); [reflexivity|exact IH].
  Qed.

  Definition erase_res (x : res (wloc * wanchors)) : res (loc * anchors) :=
    match x with Ok (l, an) => Ok (erase l, erase_an an) | Err e => Err e end.

  (* LocationMaker.walk of Model/LayoutValue.v is LocationMaker.walk of Model/Layout.v (C01) with the atoms annotated *)
  Lemma walkv_erase :
    (forall s st an, walk dcount r s st (erase_an an) = erase_res (walkv dcount r s st an))
    /\ (forall ps off an, walk_props dcount r ps off (erase_an an) =
          match walkv_props dcount r ps off an with
          | Ok (pls, off', an') => Ok (erase_props pls, off', erase_an an') | Err e => Err e end)
    /\ (forall alts st an, walk_alts dcount r alts st (erase_an an) =
          match walkv_alts dcount r alts st an with
          | Ok (als, an') => Ok (erase_alts als, erase_an an') | Err e => Err e end).
  Proof.
    apply js_props_alts_ind.
    - intros a sz st an. rewrite walkv_atom, LayoutP.walk_atom. cbn [erase_res erase]. now rewrite <- reg_erase.
    - intros a n its IH st an. rewrite walkv_arr, LayoutP.walk_arr. rewrite IH.
      destruct (walkv dcount r its st an) as [[sub an1]|e]; [|reflexivity]. cbn [erase_res erase].
      rewrite lsize_erase. now rewrite <- reg_erase.
    - intros a c its IH st an. rewrite walkv_odo, LayoutP.walk_odo. rewrite lookup_erase.
      destruct (wlookup (KName c) an) as [[ca cst csz| | | |]|]; try reflexivity.
      cbn [option_map erase]. rewrite IH.
      destruct (walkv dcount r its st an) as [[sub an1]|e]; [|reflexivity]. cbn [erase_res erase].
      rewrite lsize_erase. now rewrite <- reg_erase.
    - intros a ps IH st an. rewrite walkv_obj, LayoutP.walk_obj. rewrite IH.
      destruct (walkv_props dcount r ps st an) as [[[pls off] an1]|e]; [|reflexivity]. cbn [erase_res erase].
      now rewrite <- reg_erase.
    - intros a alts IH st an. destruct alts as [|s0 rest]; [reflexivity|]. rewrite walkv_one.
      rewrite LayoutP.walk_one.
      rewrite IH.
      destruct (walkv_alts dcount r (ACons s0 rest) st an) as [[als an1]|e]; [|reflexivity]. cbn [erase_res erase].
      rewrite max_size_erase. now rewrite <- reg_erase.
    - intros t st an. reflexivity.
    - intros off an. reflexivity.
    - intros k s IHs rest IHr off an. rewrite walkv_props_cons.
      change (walk_props dcount r (PCons k s rest) off (erase_an an)) with
        (match walk dcount r s off (erase_an an) with
         | Err e => Err e
         | Ok (pl, an1) =>
             match walk_props dcount r rest (off + lsize pl) (reg (js_anchor s) pl an1) with
             | Err e => Err e
             | Ok (rl, off', an2) => Ok (LPCons k pl rl, off', an2)
             end
         end).
      rewrite IHs. destruct (walkv dcount r s off an) as [[pl an1]|e]; [|reflexivity]. cbn [erase_res].
      rewrite lsize_erase, reg_erase, IHr.
      destruct (walkv_props dcount r rest (off + wsize pl) (wreg (js_anchor s) pl an1)) as [[[rl off1] an2]|e]; reflexivity.
    - intros st an. reflexivity.
    - intros s IHs rest IHr st an. rewrite walkv_alts_cons.
      change (walk_alts dcount r (ACons s rest) st (erase_an an)) with
        (match walk dcount r s st (erase_an an) with
         | Err e => Err e
         | Ok (l, an1) =>
             match walk_alts dcount r rest st an1 with
             | Err e => Err e
             | Ok (ls, an2) => Ok (LACons l ls, an2)
             end
         end).
      rewrite IHs. destruct (walkv dcount r s st an) as [[l an1]|e]; [|reflexivity]. cbn [erase_res].
      rewrite IHr. destruct (walkv_alts dcount r rest st an1) as [[ls an2]|e]; reflexivity.
  Qed.


  Lemma nav_of_erase : forall s, nav_of dcount r s = erase_rnav (vnav_of dcount r s).
  Proof.
    intros s. rewrite LayoutP.nav_of_unf, vnav_of_unf. change (@nil (key * loc)) with (erase_an []).
    rewrite (proj1 walkv_erase). destruct (walkv dcount r s 0 []) as [[l an]|e]; reflexivity.
  Qed.

  Lemma nav_name_erase : forall v k, nav_name (erase_nav v) k = erase_rnav (vnav_name v k).
  Proof.
    intros [l an] k. rewrite LayoutP.nav_name_unf, vnav_name_unf. unfold erase_nav. cbn [n_loc n_an vn_loc vn_an].
    destruct l as [a st sz|st sz isz cnt it sch|st sz ps|st sz alts|st t]; try reflexivity.
    cbn [erase]. rewrite find_prop_erase. destruct (wfind k ps) as [c|]; [|reflexivity]. cbn [option_map].
    destruct c as [a' st' sz'|st' sz' isz' cnt' it' sch'|st' sz' ps'|st' sz' alts'|st' t']; try reflexivity.
    cbn [erase]. rewrite lookup_erase. destruct (wlookup t' an); reflexivity.
  Qed.

  Lemma nav_index_erase : forall v i, nav_index dcount r (erase_nav v) i = erase_rnav (vnav_index dcount r v i).
  Proof.
    intros [l an] i. rewrite LayoutP.nav_index_unf, vnav_index_unf. unfold erase_nav. cbn [n_loc n_an vn_loc vn_an].
    destruct l as [a st sz|st sz isz cnt it sch|st sz ps|st sz alts|st t]; try reflexivity.
    cbn [erase]. destruct (cnt <=? i); [reflexivity|]. change (@nil (key * loc)) with (erase_an []).
    rewrite (proj1 walkv_erase). destruct (walkv dcount r sch (st + isz * i) []) as [[l' an']|e]; reflexivity.
  Qed.

  Lemma nav_raw_erase : forall v, nav_raw r (erase_nav v) = vnav_raw r v.
  Proof. intros [l an]. rewrite LayoutP.nav_raw_unf, vnav_raw_unf. unfold erase_nav, lend, wend. cbn [n_loc vn_loc]. now rewrite lstart_erase, lsize_erase. Qed.
End Erase.

(* ------------------------------------------------------------------ the location tree depends on the record only through the ODO counters *)
(* the counters an OCCURS DEPENDING ON inside s consults *)

Section Counters.
  Variable B : Type.
  Variable dcount : list B -> nat.

  Lemma key_eqb_eq : forall a b, key_eqb a b = true -> a = b.
  Proof. intros [i|i] [j|j] E; cbn in E; try discriminate; apply N.eqb_eq in E; now subst. Qed.

  Lemma wlookup_in_key : forall k an l, wlookup k an = Some l -> In (k, l) an.
  Proof.
    intros k an. induction an as [|[k' l'] an IH]; intros l H; [discriminate|]. cbn [wlookup] in H.
    destruct (key_eqb k k') eqn:E.
    - inversion H; subst. apply key_eqb_eq in E. subst. now left.
    - right. now apply IH.
  Qed.

  (* anchors only grow *)
  Lemma walkv_extends : forall (r : list B),
    (forall s st an l an', walkv dcount r s st an = Ok (l, an') -> exists new, an' = new ++ an)
    /\ (forall ps off an pls off' an', walkv_props dcount r ps off an = Ok (pls, off', an') -> exists new, an' = new ++ an)
    /\ (forall alts st an als an', walkv_alts dcount r alts st an = Ok (als, an') -> exists new, an' = new ++ an).
  Proof.
    intros r. apply js_props_alts_ind.
    - intros a sz st an l an' E. rewrite walkv_atom in E. inversion E; subst.
      exists (wreg a (WAtom a st sz) []). now rewrite <- wreg_app.
    - intros a n its IH st an l an' E. rewrite walkv_arr in E.
      destruct (walkv dcount r its st an) as [[sub an1]|e] eqn:Es; [|discriminate]. inversion E; subst.
      destruct (IH _ _ _ _ Es) as [new Hn]. subst an1. eexists. now rewrite wreg_app.
    - intros a c its IH st an l an' E. rewrite walkv_odo in E.
      destruct (wlookup (KName c) an) as [[ca cst csz| | | |]|]; try discriminate.
      destruct (walkv dcount r its st an) as [[sub an1]|e] eqn:Es; [|discriminate]. inversion E; subst.
      destruct (IH _ _ _ _ Es) as [new Hn]. subst an1. eexists. now rewrite wreg_app.
    - intros a ps IH st an l an' E. rewrite walkv_obj in E.
      destruct (walkv_props dcount r ps st an) as [[[pls off] an1]|e] eqn:Es; [|discriminate]. inversion E; subst.
      destruct (IH _ _ _ _ _ Es) as [new Hn]. subst an1. eexists. now rewrite wreg_app.
    - intros a alts IH st an l an' E. destruct alts as [|s0 rest]; [discriminate|]. rewrite walkv_one in E.
      destruct (walkv_alts dcount r (ACons s0 rest) st an) as [[als an1]|e] eqn:Es; [|discriminate]. inversion E; subst.
      destruct (IH _ _ _ _ Es) as [new Hn]. subst an1. eexists. now rewrite wreg_app.
    - intros t st an l an' E. rewrite walkv_ref in E. inversion E; subst. now exists [].
    - intros off an pls off' an' E. rewrite walkv_props_nil in E. inversion E; subst. now exists [].
    - intros k s IHs rest IHr off an pls off' an' E. rewrite walkv_props_cons in E.
      destruct (walkv dcount r s off an) as [[pl an1]|e] eqn:Es; [|discriminate].
      destruct (walkv_props dcount r rest (off + wsize pl) (wreg (js_anchor s) pl an1)) as [[[rl off1] an2]|e] eqn:Er; [|discriminate].
      inversion E; subst. destruct (IHs _ _ _ _ Es) as [n1 H1]. destruct (IHr _ _ _ _ _ Er) as [n2 H2]. subst.
      exists (n2 ++ wreg (js_anchor s) pl n1). now rewrite <- app_assoc, wreg_app.
    - intros st an als an' E. rewrite walkv_alts_nil in E. inversion E; subst. now exists [].
    - intros s IHs rest IHr st an als an' E. rewrite walkv_alts_cons in E.
      destruct (walkv dcount r s st an) as [[l an1]|e] eqn:Es; [|discriminate].
      destruct (walkv_alts dcount r rest st an1) as [[ls an2]|e] eqn:Er; [|discriminate].
      inversion E; subst. destruct (IHs _ _ _ _ Es) as [n1 H1]. destruct (IHr _ _ _ _ Er) as [n2 H2]. subst.
      exists (n2 ++ n1). now rewrite <- app_assoc.
  Qed.

  (* two records that agree (as far as the count goes) on every counter field the walk registered
     give the same location tree and the same anchors *)
  Definition counters_agree (r r' : list B) (ks : list id) (an : wanchors) : Prop :=
    forall c a cst csz, In c ks -> In (KName c, WAtom a cst csz) an ->
      dcount (slice r cst (cst + csz)) = dcount (slice r' cst (cst + csz)).

  Lemma counters_agree_sub : forall r r' ks ks' an an',
    (forall c, In c ks' -> In c ks) -> (forall x, In x an' -> In x an) ->
    counters_agree r r' ks an -> counters_agree r r' ks' an'.
  Proof. intros r r' ks ks' an an' Hk Ha H c a cst csz Hc Hin. apply (H c a); auto. Qed.

  Lemma walkv_counters : forall (r r' : list B),
    (forall s st an l an', walkv dcount r s st an = Ok (l, an') -> counters_agree r r' (odo_keys s) an' ->
       walkv dcount r' s st an = Ok (l, an'))
    /\ (forall ps off an pls off' an', walkv_props dcount r ps off an = Ok (pls, off', an') -> counters_agree r r' (odo_keys_props ps) an' ->
       walkv_props dcount r' ps off an = Ok (pls, off', an'))
    /\ (forall alts st an als an', walkv_alts dcount r alts st an = Ok (als, an') -> counters_agree r r' (odo_keys_alts alts) an' ->
       walkv_alts dcount r' alts st an = Ok (als, an')).
  Proof.
    intros r r'. apply js_props_alts_ind.
    - intros a sz st an l an' E _. rewrite walkv_atom in *. exact E.
    - intros a n its IH st an l an' E H. rewrite walkv_arr in *.
      destruct (walkv dcount r its st an) as [[sub an1]|e] eqn:Es; [|discriminate]. inversion E; subst.
      rewrite (IH _ _ _ _ Es); [reflexivity|].
      eapply counters_agree_sub; [| |exact H]; [auto|]. intros x Hx. destruct a; [now right|exact Hx].
    - intros a c its IH st an l an' E H. rewrite walkv_odo in *.
      destruct (wlookup (KName c) an) as [[ca cst csz| | | |]|] eqn:El; try discriminate.
      destruct (walkv dcount r its st an) as [[sub an1]|e] eqn:Es; [|discriminate]. inversion E; subst.
      destruct (proj1 (walkv_extends r) _ _ _ _ _ Es) as [new Hn]. subst an1.
      assert (Hc : dcount (slice r cst (cst + csz)) = dcount (slice r' cst (cst + csz))).
      { apply (H c ca); [now left|]. apply wlookup_in_key in El.
        destruct a; [right|]; apply in_or_app; now right. }
      rewrite (IH _ _ _ _ Es).
      + now rewrite Hc.
      + eapply counters_agree_sub; [| |exact H]; [intros c' Hc'; now right|].
        intros x Hx. destruct a; [now right|exact Hx].
    - intros a ps IH st an l an' E H. rewrite walkv_obj in *.
      destruct (walkv_props dcount r ps st an) as [[[pls off] an1]|e] eqn:Es; [|discriminate]. inversion E; subst.
      rewrite (IH _ _ _ _ _ Es); [reflexivity|].
      eapply counters_agree_sub; [| |exact H]; [auto|]. intros x Hx. destruct a; [now right|exact Hx].
    - intros a alts IH st an l an' E H. destruct alts as [|s0 rest]; [discriminate|]. rewrite walkv_one in *.
      destruct (walkv_alts dcount r (ACons s0 rest) st an) as [[als an1]|e] eqn:Es; [|discriminate]. inversion E; subst.
      rewrite (IH _ _ _ _ Es); [reflexivity|].
      eapply counters_agree_sub; [| |exact H]; [auto|]. intros x Hx. destruct a; [now right|exact Hx].
    - intros t st an l an' E _. exact E.
    - intros off an pls off' an' E _. exact E.
    - intros k s IHs rest IHr off an pls off' an' E H. rewrite walkv_props_cons in *.
      destruct (walkv dcount r s off an) as [[pl an1]|e] eqn:Es; [|discriminate].
      destruct (walkv_props dcount r rest (off + wsize pl) (wreg (js_anchor s) pl an1)) as [[[rl off1] an2]|e] eqn:Er; [|discriminate].
      inversion E; subst.
      destruct (proj1 (proj2 (walkv_extends r)) _ _ _ _ _ _ Er) as [n2 H2].
      rewrite (IHs _ _ _ _ Es).
      + rewrite (IHr _ _ _ _ _ Er); [reflexivity|].
        eapply counters_agree_sub; [| |exact H]; [|auto]. intros c Hc. cbn [odo_keys_props]. apply in_or_app. now right.
      + eapply counters_agree_sub; [| |exact H].
        * intros c Hc. cbn [odo_keys_props]. apply in_or_app. now left.
        * intros x Hx. rewrite H2. apply in_or_app. right. destruct (js_anchor s); [now right|exact Hx].
    - intros st an als an' E _. exact E.
    - intros s IHs rest IHr st an als an' E H. rewrite walkv_alts_cons in *.
      destruct (walkv dcount r s st an) as [[l an1]|e] eqn:Es; [|discriminate].
      destruct (walkv_alts dcount r rest st an1) as [[ls an2]|e] eqn:Er; [|discriminate].
      inversion E; subst.
      destruct (proj2 (proj2 (walkv_extends r)) _ _ _ _ _ Er) as [n2 H2].
      rewrite (IHs _ _ _ _ Es).
      + rewrite (IHr _ _ _ _ Er); [reflexivity|].
        eapply counters_agree_sub; [| |exact H]; [|auto]. intros c Hc. cbn [odo_keys_alts]. apply in_or_app. now right.
      + eapply counters_agree_sub; [| |exact H].
        * intros c Hc. cbn [odo_keys_alts]. apply in_or_app. now left.
        * intros x Hx. rewrite H2. apply in_or_app. now right.
  Qed.

  Theorem nav_counters : forall (r r' : list B) s v,
    vnav_of dcount r s = Ok v -> counters_agree r r' (odo_keys s) (vn_an v) -> vnav_of dcount r' s = Ok v.
  Proof.
    intros r r' s v E H. rewrite !vnav_of_unf in *. destruct (walkv dcount r s 0 []) as [[l an]|e] eqn:Ew; [|discriminate].
    inversion E; subst. cbn [vn_an] in H. now rewrite (proj1 (walkv_counters r r') _ _ _ _ _ Ew H).
  Qed.
End Counters.

(* ================================================================== COBOL-shaped schemas ($ref only to an
   alternative of an earlier oneOf property of the same object, distinct anchors): coherence of the anchors,
   whole-versus-part for items with $ref, containment of $ref children, footprint inside the location *)


Definition keysof (an : wanchors) : list key := map fst an.

Lemma keq_eq : forall a b, key_eqb a b = true -> a = b.
Proof. intros [i|i] [j|j] E; cbn in E; try discriminate; apply N.eqb_eq in E; now subst. Qed.
Lemma keq_refl : forall a, key_eqb a a = true.
Proof. intros [i|i]; cbn; apply N.eqb_refl. Qed.

Lemma memk_In : forall k l, memk k l = true <-> In k l.
Proof.
  intros k l. unfold memk. rewrite existsb_exists. split.
  - intros [x [H1 H2]]. apply keq_eq in H2. now subst.
  - intros H. exists k. split; [exact H|apply keq_refl].
Qed.

Lemma nodupk_NoDup : forall l, nodupk l = true -> NoDup l.
Proof.
  induction l as [|k t IH]; intros H; [constructor|]. cbn [nodupk] in H. apply andb_prop in H. destruct H as [H1 H2].
  constructor; [|now apply IH]. intros Hin. apply memk_In in Hin. rewrite Hin in H1. discriminate.
Qed.

Lemma NoDup_app_l' : forall {T} (a b : list T), NoDup (a ++ b) -> NoDup a.
Proof. intros T a b. induction a as [|x a IH]; intros H; [constructor|]. inversion H; subst. constructor; [|auto]. intros Hin. apply H2. apply in_or_app. now left. Qed.
Lemma NoDup_app_r' : forall {T} (a b : list T), NoDup (a ++ b) -> NoDup b.
Proof. intros T a b. induction a as [|x a IH]; intros H; [exact H|]. inversion H; subst. auto. Qed.
Lemma NoDup_app_disj' : forall {T} (a b : list T) x, NoDup (a ++ b) -> In x a -> In x b -> False.
Proof.
  intros T a b x. induction a as [|y a IH]; intros H Ha Hb; [destruct Ha|]. inversion H; subst.
  destruct Ha as [->|Ha]; [apply H2; apply in_or_app; now right|auto].
Qed.

(* ---- coherent anchors: a name has one location ---- *)
Definition coherent (an : wanchors) : Prop := forall k l1 l2, In (k, l1) an -> In (k, l2) an -> l1 = l2.

Lemma coherent_tail : forall x an, coherent (x :: an) -> coherent an.
Proof. intros x an H k l1 l2 H1 H2. apply (H k); now right. Qed.

Lemma wlookup_coherent : forall an k l, coherent an -> In (k, l) an -> wlookup k an = Some l.
Proof.
  induction an as [|[k' l'] an IH]; intros k l Hc Hin; [destruct Hin|]. cbn [wlookup].
  destruct (key_eqb k k') eqn:E.
  - apply keq_eq in E. subst k'. f_equal. apply (Hc k); [now left|exact Hin].
  - destruct Hin as [H|H]; [inversion H; subst; now rewrite keq_refl in E|]. apply IH; [eapply coherent_tail; eauto|exact H].
Qed.

Lemma coherent_incl : forall a b, (forall x, In x a -> In x b) -> coherent b -> coherent a.
Proof. intros a b Hi Hc k l1 l2 H1 H2. apply (Hc k); auto. Qed.

Lemma coherent_app : forall a b, coherent a -> coherent b ->
  (forall k, In k (keysof a) -> In k (keysof b) -> False) -> coherent (a ++ b).
Proof.
  intros a b Ha Hb Hd k l1 l2 H1 H2. apply in_app_or in H1. apply in_app_or in H2.
  destruct H1 as [H1|H1], H2 as [H2|H2].
  - now apply (Ha k).
  - exfalso. apply (Hd k); unfold keysof; [apply (in_map fst _ _ H1)|apply (in_map fst _ _ H2)].
  - exfalso. apply (Hd k); unfold keysof; [apply (in_map fst _ _ H2)|apply (in_map fst _ _ H1)].
  - now apply (Hb k).
Qed.

Lemma coherent_wreg : forall a l an, coherent an -> (forall k, a = Some k -> ~ In k (keysof an) \/ (forall l', In (k, l') an -> l' = l)) ->
  coherent (wreg a l an).
Proof.
  intros a l an Hc Ha. destruct a as [k|]; [|exact Hc]. cbn [wreg]. specialize (Ha k eq_refl).
  intros k0 l1 l2 [H1|H1] [H2|H2].
  - inversion H1; inversion H2; now subst.
  - inversion H1; subst. destruct Ha as [Ha|Ha]; [exfalso; apply Ha; apply (in_map fst _ _ H2)|symmetry; now apply Ha].
  - inversion H2; subst. destruct Ha as [Ha|Ha]; [exfalso; apply Ha; apply (in_map fst _ _ H1)|now apply Ha].
  - now apply (Hc k0).
Qed.

Lemma keysof_wreg : forall a l an, keysof (wreg a l an) = okey a ++ keysof an.
Proof. intros [k|] l an; reflexivity. Qed.
Lemma keysof_app : forall a b, keysof (a ++ b) = keysof a ++ keysof b.
Proof. intros. unfold keysof. apply map_app. Qed.

Section L1c.
  Variable B : Type.
  Variable dcount : list B -> nat.
  Variable r : list B.

  (* what a walk registers: under the schema's own anchors only, and coherently when those are distinct *)
  Lemma walkv_keys :
    (forall s st an l an', walkv dcount r s st an = Ok (l, an') ->
       exists new, an' = new ++ an /\ incl (keysof new) (jkeys s) /\ (NoDup (jkeys s) -> coherent new)
                   /\ (forall a, js_anchor s = Some a -> In (a, l) new))
    /\ (forall ps off an pls off' an', walkv_props dcount r ps off an = Ok (pls, off', an') ->
       exists new, an' = new ++ an /\ incl (keysof new) (jkeys_props ps) /\ (NoDup (jkeys_props ps) -> coherent new))
    /\ (forall alts st an als an', walkv_alts dcount r alts st an = Ok (als, an') ->
       exists new, an' = new ++ an /\ incl (keysof new) (jkeys_alts alts) /\ (NoDup (jkeys_alts alts) -> coherent new)).
  Proof.
    assert (Hreg : forall a l new (ks : list key), incl (keysof new) ks -> (NoDup (okey a ++ ks) -> coherent new) ->
              incl (keysof (wreg a l new)) (okey a ++ ks) /\ (NoDup (okey a ++ ks) -> coherent (wreg a l new))
              /\ (forall a0, a = Some a0 -> In (a0, l) (wreg a l new))).
    { intros a l new ks Hi Hc. split; [|split].
      - rewrite keysof_wreg. intros k Hk. apply in_app_or in Hk. apply in_or_app. destruct Hk; [now left|right; auto].
      - intros Hnd. apply coherent_wreg; [auto|]. intros k ->. left. cbn [okey app] in Hnd. inversion Hnd; subst. intros Hin. apply H1. auto.
      - intros a0 ->. now left. }
    apply js_props_alts_ind.
    - intros a sz st an l an' E. rewrite walkv_atom in E. inversion E; subst.
      exists (wreg a (WAtom a st sz) []). split; [now rewrite <- wreg_app|].
      cbn [jkeys js_anchor]. rewrite app_nil_r.
      destruct (Hreg a (WAtom a st sz) [] [] (fun k H => H) (fun _ k l1 l2 (H : In _ []) => match H with end)) as [H1 [H2 H3]].
      rewrite app_nil_r in *. repeat split; auto.
    - intros a n its IH st an l an' E. rewrite walkv_arr in E.
      destruct (walkv dcount r its st an) as [[sub an1]|e] eqn:Es; [|discriminate]. inversion E; subst.
      destruct (IH _ _ _ _ Es) as [new [Hn [Hi [Hc _]]]]. subst an1.
      eexists. split; [now rewrite wreg_app|]. cbn [jkeys js_anchor].
      destruct (Hreg a (WArr st (wsize sub * n) (wsize sub) n sub its) new (jkeys its) Hi) as [H1 [H2 H3]].
      { intros Hnd. apply Hc. now apply NoDup_app_r' in Hnd. }
      repeat split; auto.
    - intros a c its IH st an l an' E. rewrite walkv_odo in E.
      destruct (wlookup (KName c) an) as [[ca cst csz| | | |]|]; try discriminate.
      destruct (walkv dcount r its st an) as [[sub an1]|e] eqn:Es; [|discriminate]. inversion E; subst.
      destruct (IH _ _ _ _ Es) as [new [Hn [Hi [Hc _]]]]. subst an1.
      eexists. split; [now rewrite wreg_app|]. cbn [jkeys js_anchor].
      match goal with |- context [wreg a ?L new] => destruct (Hreg a L new (jkeys its) Hi) as [H1 [H2 H3]] end.
      { intros Hnd. apply Hc. now apply NoDup_app_r' in Hnd. }
      repeat split; auto.
    - intros a ps IH st an l an' E. rewrite walkv_obj in E.
      destruct (walkv_props dcount r ps st an) as [[[pls off] an1]|e] eqn:Es; [|discriminate]. inversion E; subst.
      destruct (IH _ _ _ _ _ Es) as [new [Hn [Hi Hc]]]. subst an1.
      eexists. split; [now rewrite wreg_app|]. cbn [jkeys js_anchor].
      destruct (Hreg a (WObj st (off - st) pls) new (jkeys_props ps) Hi) as [H1 [H2 H3]].
      { intros Hnd. apply Hc. now apply NoDup_app_r' in Hnd. }
      repeat split; auto.
    - intros a alts IH st an l an' E. destruct alts as [|s0 rest]; [discriminate|]. rewrite walkv_one in E.
      destruct (walkv_alts dcount r (ACons s0 rest) st an) as [[als an1]|e] eqn:Es; [|discriminate]. inversion E; subst.
      destruct (IH _ _ _ _ Es) as [new [Hn [Hi Hc]]]. subst an1.
      eexists. split; [now rewrite wreg_app|]. cbn [jkeys js_anchor].
      destruct (Hreg a (WOne st (wmax_size als) als) new (jkeys_alts (ACons s0 rest)) Hi) as [H1 [H2 H3]].
      { intros Hnd. apply Hc. now apply NoDup_app_r' in Hnd. }
      repeat split; auto.
    - intros t st an l an' E. rewrite walkv_ref in E. inversion E; subst. exists []. repeat split.
      + intros k [].
      + intros _ k l1 l2 [].
      + intros a H. discriminate.
    - intros off an pls off' an' E. rewrite walkv_props_nil in E. inversion E; subst. exists []. repeat split.
      + intros k [].
      + intros _ k l1 l2 [].
    - intros k s IHs rest IHr off an pls off' an' E. rewrite walkv_props_cons in E.
      destruct (walkv dcount r s off an) as [[pl an1]|e] eqn:Es; [|discriminate].
      destruct (walkv_props dcount r rest (off + wsize pl) (wreg (js_anchor s) pl an1)) as [[[rl off1] an2]|e] eqn:Er; [|discriminate].
      inversion E; subst. destruct (IHs _ _ _ _ Es) as [n1 [H1 [Hi1 [Hc1 Ha1]]]]. destruct (IHr _ _ _ _ _ Er) as [n2 [H2 [Hi2 Hc2]]]. subst.
      exists (n2 ++ wreg (js_anchor s) pl n1). split; [now rewrite <- app_assoc, wreg_app|]. cbn [jkeys_props]. split.
      + rewrite keysof_app, keysof_wreg. intros x Hx. apply in_or_app. apply in_app_or in Hx. destruct Hx as [Hx|Hx]; [right; auto|left].
        apply in_app_or in Hx. destruct Hx as [Hx|Hx]; [|auto].
        destruct s; cbn [js_anchor jkeys okey] in *; try (apply in_or_app; now left).
      + intros Hnd. apply coherent_app.
        * apply Hc2. now apply NoDup_app_r' in Hnd.
        * apply coherent_wreg; [apply Hc1; now apply NoDup_app_l' in Hnd|]. intros k0 Hk0. right. intros l' Hl'.
          apply (Hc1 (NoDup_app_l' _ _ Hnd) k0); [exact Hl'|now apply Ha1].
        * intros k0 Hk2 Hk1. apply (NoDup_app_disj' _ _ k0 Hnd); [|auto].
          rewrite keysof_wreg in Hk1. apply in_app_or in Hk1. destruct Hk1 as [Hk1|Hk1]; [|auto].
          destruct s; cbn [js_anchor jkeys okey] in *; try (apply in_or_app; now left).
    - intros st an als an' E. rewrite walkv_alts_nil in E. inversion E; subst. exists []. repeat split.
      + intros k [].
      + intros _ k l1 l2 [].
    - intros s IHs rest IHr st an als an' E. rewrite walkv_alts_cons in E.
      destruct (walkv dcount r s st an) as [[l an1]|e] eqn:Es; [|discriminate].
      destruct (walkv_alts dcount r rest st an1) as [[ls an2]|e] eqn:Er; [|discriminate].
      inversion E; subst. destruct (IHs _ _ _ _ Es) as [n1 [H1 [Hi1 [Hc1 _]]]]. destruct (IHr _ _ _ _ Er) as [n2 [H2 [Hi2 Hc2]]]. subst.
      exists (n2 ++ n1). split; [now rewrite <- app_assoc|]. cbn [jkeys_alts]. split.
      + rewrite keysof_app. intros x Hx. apply in_or_app. apply in_app_or in Hx. destruct Hx; [right|left]; auto.
      + intros Hnd. apply coherent_app; [apply Hc2; now apply NoDup_app_r' in Hnd|apply Hc1; now apply NoDup_app_l' in Hnd|].
        intros k0 Hk2 Hk1. apply (NoDup_app_disj' _ _ k0 Hnd); auto.
  Qed.
End L1c.


(* ---- ranked anchors: a registered location only refers to names registered before it ---- *)
Fixpoint rankedF (an : wanchors) : Prop :=
  match an with
  | [] => True
  | (k, l) :: suf => (forall st t, sub_ref l st t -> In t (keysof suf)) /\ rankedF suf
  end.

Lemma rankedF_app : forall a b, rankedF a -> rankedF b -> rankedF (a ++ b).
Proof.
  induction a as [|[k l] a IH]; intros b Ha Hb; [exact Hb|]. cbn [app rankedF] in *. destruct Ha as [H1 H2].
  split; [|auto]. intros st t Hs. rewrite keysof_app. apply in_or_app. left. eauto.
Qed.

Lemma rankedF_wreg : forall a l new, (forall st t, sub_ref l st t -> In t (keysof new)) -> rankedF new -> rankedF (wreg a l new).
Proof. intros [k|] l new H1 H2; [split; assumption|exact H2]. Qed.

Lemma rankedF_skip : forall pre suf, rankedF (pre ++ suf) -> rankedF suf.
Proof. induction pre as [|[k l] pre IH]; intros suf H; [exact H|]. cbn [app rankedF] in H. apply IH. tauto. Qed.

Lemma alt_anchors_jkeys : forall alts, incl (alt_anchors alts) (jkeys_alts alts).
Proof.
  induction alts as [|s r IH]; [intros k []|]. cbn [alt_anchors jkeys_alts]. intros k Hk. apply in_app_or in Hk.
  apply in_or_app. destruct Hk as [Hk|Hk]; [left|right; auto]. destruct s; cbn [jkeys js_anchor] in *; apply in_or_app; now left.
Qed.

Section L1.
  Variable B : Type.
  Variable dcount : list B -> nat.
  Variable r : list B.

  Lemma walkv_closed :
    (forall s, redef_ok s = true -> forall st an l an', walkv dcount r s st an = Ok (l, an') ->
       exists new, an' = new ++ an /\ incl (jkeys s) (keysof new)
                   /\ (forall st' t, sub_ref l st' t -> In t (keysof new)) /\ rankedF new)
    /\ (forall ps seen, redef_props seen ps = true -> forall off an pls off' an', walkv_props dcount r ps off an = Ok (pls, off', an') ->
       exists new, an' = new ++ an /\ incl (jkeys_props ps) (keysof new)
                   /\ (forall st' t, sub_ref_props pls st' t -> In t (keysof new) \/ In t seen) /\ rankedF new)
    /\ (forall alts, redef_alts alts = true -> forall st an als an', walkv_alts dcount r alts st an = Ok (als, an') ->
       exists new, an' = new ++ an /\ incl (jkeys_alts alts) (keysof new)
                   /\ (forall st' t, sub_ref_alts als st' t -> In t (keysof new)) /\ rankedF new).
  Proof.
    assert (Hreg : forall a l new (ks : list key), incl ks (keysof new) ->
              (forall st t, sub_ref l st t -> In t (keysof new)) -> rankedF new ->
              incl (okey a ++ ks) (keysof (wreg a l new))
              /\ (forall st t, sub_ref l st t -> In t (keysof (wreg a l new))) /\ rankedF (wreg a l new)).
    { intros a l new ks Hi Hs Hr. rewrite keysof_wreg. split; [|split].
      - intros k Hk. apply in_app_or in Hk. apply in_or_app. destruct Hk; [now left|right; auto].
      - intros st t H. apply in_or_app. right. eauto.
      - now apply rankedF_wreg. }
    apply js_props_alts_ind.
    - intros a sz _ st an l an' E. rewrite walkv_atom in E. inversion E; subst.
      exists (wreg a (WAtom a st sz) []). split; [now rewrite <- wreg_app|]. cbn [jkeys js_anchor].
      apply (Hreg a (WAtom a st sz) [] []); [intros k []|intros st' t []|exact I].
    - intros a n its IH Hok st an l an' E. cbn [redef_ok redef_props redef_alts] in Hok. rewrite walkv_arr in E.
      destruct (walkv dcount r its st an) as [[sub an1]|e] eqn:Es; [|discriminate]. inversion E; subst.
      destruct (IH Hok _ _ _ _ Es) as [new [Hn [Hi [Hs Hr]]]]. subst an1.
      eexists. split; [now rewrite wreg_app|]. cbn [jkeys js_anchor]. apply Hreg; auto.
    - intros a c its IH Hok st an l an' E. cbn [redef_ok redef_props redef_alts] in Hok. rewrite walkv_odo in E.
      destruct (wlookup (KName c) an) as [[ca cst csz| | | |]|]; try discriminate.
      destruct (walkv dcount r its st an) as [[sub an1]|e] eqn:Es; [|discriminate]. inversion E; subst.
      destruct (IH Hok _ _ _ _ Es) as [new [Hn [Hi [Hs Hr]]]]. subst an1.
      eexists. split; [now rewrite wreg_app|]. cbn [jkeys js_anchor]. apply Hreg; auto.
    - intros a ps IH Hok st an l an' E. cbn [redef_ok redef_props redef_alts] in Hok. rewrite walkv_obj in E.
      destruct (walkv_props dcount r ps st an) as [[[pls off] an1]|e] eqn:Es; [|discriminate]. inversion E; subst.
      destruct (IH [] Hok _ _ _ _ _ Es) as [new [Hn [Hi [Hs Hr]]]]. subst an1.
      eexists. split; [now rewrite wreg_app|]. cbn [jkeys js_anchor]. apply Hreg; auto.
      intros st' t H. cbn [sub_ref] in H. destruct (Hs _ _ H) as [H1|[]]. exact H1.
    - intros a alts IH Hok st an l an' E. cbn [redef_ok redef_props redef_alts] in Hok.
      destruct alts as [|s0 rest]; [discriminate|]. rewrite walkv_one in E.
      destruct (walkv_alts dcount r (ACons s0 rest) st an) as [[als an1]|e] eqn:Es; [|discriminate]. inversion E; subst.
      destruct (IH Hok _ _ _ _ Es) as [new [Hn [Hi [Hs Hr]]]]. subst an1.
      eexists. split; [now rewrite wreg_app|]. cbn [jkeys js_anchor]. apply Hreg; auto.
    - intros t Hok. discriminate.
    - intros seen _ off an pls off' an' E. rewrite walkv_props_nil in E. inversion E; subst. exists []. repeat split.
      + intros k [].
      + intros st' t [].
    - intros k s IHs rest IHr seen Hok off an pls off' an' E. rewrite walkv_props_cons in E.
      destruct (walkv dcount r s off an) as [[pl an1]|e] eqn:Es; [|discriminate].
      destruct (walkv_props dcount r rest (off + wsize pl) (wreg (js_anchor s) pl an1)) as [[[rl off1] an2]|e] eqn:Er; [|discriminate].
      inversion E; subst. clear E.
      assert (Hgen : forall seen2, redef_ok s = true -> (forall t, In t seen2 -> In t (jkeys s) \/ In t seen) ->
                redef_props seen2 rest = true ->
                exists new, an' = new ++ an /\ incl (jkeys_props (PCons k s rest)) (keysof new)
                  /\ (forall st' t, sub_ref_props (WPCons k pl rl) st' t -> In t (keysof new) \/ In t seen) /\ rankedF new).
      { intros seen2 Hs2 Hsub Hr2.
        destruct (IHs Hs2 _ _ _ _ Es) as [n1 [H1 [Hi1 [Hs1 Hr1]]]]. subst an1.
        destruct (IHr seen2 Hr2 _ _ _ _ _ Er) as [n2 [H2 [Hi2 [Hsr Hrr]]]]. subst an'.
        destruct (Hreg (js_anchor s) pl n1 (jkeys s) Hi1 Hs1 Hr1) as [G1 [G2 G3]].
        exists (n2 ++ wreg (js_anchor s) pl n1). split; [now rewrite <- app_assoc, wreg_app|]. split; [|split].
        - cbn [jkeys_props]. rewrite keysof_app. intros x Hx. apply in_or_app. apply in_app_or in Hx.
          destruct Hx as [Hx|Hx]; [right; apply G1; apply in_or_app; now right|left; auto].
        - intros st' t H. cbn [sub_ref_props] in H. rewrite keysof_app. destruct H as [H|H].
          + left. apply in_or_app. right. eauto.
          + destruct (Hsr _ _ H) as [H'|H']; [left; apply in_or_app; now left|].
            destruct (Hsub _ H') as [H''|H'']; [left; apply in_or_app; right; apply G1; apply in_or_app; now right|now right].
        - apply rankedF_app; assumption. }
      destruct s as [a sz|a n its|a c its|a ps|a alts|t]; cbn [redef_ok redef_props redef_alts] in Hok.
      + apply andb_prop in Hok. destruct Hok as [O1 O2]. apply (Hgen seen); auto.
      + apply andb_prop in Hok. destruct Hok as [O1 O2]. apply (Hgen seen); auto.
      + apply andb_prop in Hok. destruct Hok as [O1 O2]. apply (Hgen seen); auto.
      + apply andb_prop in Hok. destruct Hok as [O1 O2]. apply (Hgen seen); auto.
      + apply andb_prop in Hok. destruct Hok as [O1 O2]. apply (Hgen (alt_anchors alts ++ seen)); auto.
        intros t Ht. apply in_app_or in Ht. destruct Ht as [Ht|Ht]; [left|now right].
        cbn [jkeys]. apply in_or_app. right. now apply alt_anchors_jkeys.
      + apply andb_prop in Hok. destruct Hok as [O1 O2]. apply memk_In in O1.
        rewrite walkv_ref in Es. inversion Es; subst. cbn [js_anchor wreg] in Er.
        destruct (IHr seen O2 _ _ _ _ _ Er) as [n2 [H2 [Hi2 [Hsr Hrr]]]]. subst an'.
        exists n2. split; [reflexivity|]. split; [|split; [|exact Hrr]].
        * cbn [jkeys_props jkeys js_anchor okey app]. exact Hi2.
        * intros st' t0 H. cbn [sub_ref_props sub_ref] in H. destruct H as [[_ <-]|H]; [now right|exact (Hsr _ _ H)].
    - intros _ st an als an' E. rewrite walkv_alts_nil in E. inversion E; subst. exists []. repeat split.
      + intros k [].
      + intros st' t [].
    - intros s IHs rest IHr Hok st an als an' E. cbn [redef_ok redef_props redef_alts] in Hok.
      apply andb_prop in Hok. destruct Hok as [O1 O2]. rewrite walkv_alts_cons in E.
      destruct (walkv dcount r s st an) as [[l an1]|e] eqn:Es; [|discriminate].
      destruct (walkv_alts dcount r rest st an1) as [[ls an2]|e] eqn:Er; [|discriminate].
      inversion E; subst. destruct (IHs O1 _ _ _ _ Es) as [n1 [H1 [Hi1 [Hs1 Hr1]]]]. destruct (IHr O2 _ _ _ _ Er) as [n2 [H2 [Hi2 [Hs2 Hr2]]]]. subst.
      exists (n2 ++ n1). split; [now rewrite <- app_assoc|]. split; [|split].
      + cbn [jkeys_alts]. rewrite keysof_app. intros x Hx. apply in_or_app. apply in_app_or in Hx. destruct Hx; [right|left]; auto.
      + intros st' t H. cbn [sub_ref_alts] in H. rewrite keysof_app. apply in_or_app. destruct H as [H|H]; [right|left]; eauto.
      + now apply rankedF_app.
  Qed.
End L1.


Lemma wlookup_shift_an : forall D t an, wlookup t (shift_an D an) = option_map (wshift D) (wlookup t an).
Proof.
  intros D t an. induction an as [|[k l] an IH]; [reflexivity|]. cbn [shift_an map wlookup fst snd].
  destruct (key_eqb t k); [reflexivity|exact IH].
Qed.

Lemma keysof_shift_an : forall D an, keysof (shift_an D an) = keysof an.
Proof. intros D an. unfold keysof, shift_an. rewrite map_map. reflexivity. Qed.

Section V.
  Variable B : Type.
  Variable A : Type.
  Variable dec : option key -> list B -> res A.
  Variable r : list B.
  Notation pvA := (pv A).

  (* moving a location and its anchors together is moving the offset *)
  Lemma shift_body : forall an an' (d d' : wloc -> nat -> vres pvA) D,
    (forall l,
       (forall st t, sub_ref l st t -> exists lt, wlookup t an = Some lt /\ wlookup t an' = Some (wshift D lt)
                                          /\ forall o, d' (wshift D lt) o = d lt (o + D)) ->
       forall o, value_body r dec an' d' (wshift D l) o = value_body r dec an d l (o + D))
    /\ (forall ps,
       (forall st t, sub_ref_props ps st t -> exists lt, wlookup t an = Some lt /\ wlookup t an' = Some (wshift D lt)
                                          /\ forall o, d' (wshift D lt) o = d lt (o + D)) ->
       forall o, props_body r dec an' d' (wshift_props D ps) o = props_body r dec an d ps (o + D))
    /\ (forall ls,
       (forall st t, sub_ref_alts ls st t -> exists lt, wlookup t an = Some lt /\ wlookup t an' = Some (wshift D lt)
                                          /\ forall o, d' (wshift D lt) o = d lt (o + D)) ->
       first_alt (fun l => forall o, value_body r dec an' d' (wshift D l) o = value_body r dec an d l (o + D)) ls).
  Proof.
    intros an an' d d' D. apply wloc_wprops_walts_ind.
    - intros a st sz _ o. cbn [wshift]. rewrite !(vb_atom B A dec).
      replace (st + D + o) with (st + (o + D)) by lia. replace (st + D + sz + o) with (st + sz + (o + D)) by lia. reflexivity.
    - intros st sz isz cnt it IH sch H o. cbn [wshift]. rewrite !(vb_arr B A dec).
      rewrite (seq_values_ext (fun i => value_body r dec an' d' (wshift D it) (o + i * isz))
                              (fun i => value_body r dec an d it (o + D + i * isz)) cnt 0); [reflexivity|].
      intros j _. rewrite IH by exact H. f_equal. lia.
    - intros st sz ps IH H o. cbn [wshift]. rewrite !(vb_obj B A dec). now rewrite IH.
    - intros st sz alts IH H o. cbn [wshift]. rewrite !(vb_one B A dec).
      destruct alts as [|first rest]; [reflexivity|]. cbn [wshift_alts]. exact (IH H o).
    - intros st t H o. cbn [wshift]. rewrite !(vb_ref B A dec).
      destruct (H st t (conj eq_refl eq_refl)) as [lt [H1 [H2 H3]]]. rewrite H1, H2. apply H3.
    - intros _ o. reflexivity.
    - intros k l IHl rest IHr H o. cbn [wshift_props]. rewrite !(pb_cons B A dec).
      rewrite IHl by (intros st t Hs; apply (H st t); now left).
      rewrite IHr by (intros st t Hs; apply (H st t); now right). reflexivity.
    - intros _. exact I.
    - intros l IHl rest _ H. cbn [first_alt]. apply IHl. intros st t Hs. apply (H st t). now left.
  Qed.

  (* the value of a location depends on the treatment of references only at the targets of its own references *)
  Lemma body_ext : forall an (d d' : wloc -> nat -> vres pvA) l,
    (forall st t, sub_ref l st t -> exists lt, wlookup t an = Some lt /\ forall o, d' lt o = d lt o) ->
    forall o, value_body r dec an d' l o = value_body r dec an d l o.
  Proof.
    intros an d d' l H o.
    pose proof (proj1 (shift_body an an d d' 0) l) as Hs.
    rewrite (proj1 wshift_0) in Hs. rewrite Hs; [now rewrite Nat.add_0_r|].
    intros st t Hr. destruct (H st t Hr) as [lt [H1 H2]]. exists lt. rewrite (proj1 wshift_0).
    repeat split; auto. intros o'. now rewrite Nat.add_0_r.
  Qed.

  Lemma wvalue_body : forall an f, exists dr, wvalue r dec f an = value_body r dec an dr
      /\ dr = match f with O => (fun _ _ => None) | S f' => wvalue r dec f' an end.
  Proof. intros an [|f]; eexists; split; reflexivity. Qed.

  (* fuel: with ranked, coherent anchors the value of a location whose references fall among the oldest n
     registrations needs no more than fuel n *)
  Lemma settled : forall an, coherent an -> forall suf pre,
    rankedF (pre ++ suf) -> (forall x, In x (pre ++ suf) -> In x an) ->
    forall l, (forall st t, sub_ref l st t -> In t (keysof suf)) ->
    forall f o, length suf <= f -> wvalue r dec f an l o = wvalue r dec (length suf) an l o.
  Proof.
    intros an Hc. induction suf as [|[k lk] suf IH]; intros pre Hr Hin l Hl f o Hf.
    - destruct (wvalue_body an f) as [d1 [E1 _]]. destruct (wvalue_body an (length (@nil (key * wloc)))) as [d2 [E2 _]].
      rewrite E1, E2. apply body_ext. intros st t Hs. destruct (Hl st t Hs).
    - cbn [length] in *. destruct f as [|f]; [lia|]. rewrite !(wvalue_S B A dec). apply body_ext.
      intros st t Hs. specialize (Hl st t Hs).
      assert (Hpre : pre ++ (k, lk) :: suf = (pre ++ [(k, lk)]) ++ suf) by (rewrite <- app_assoc; reflexivity).
      assert (Hr' : rankedF ((k, lk) :: suf)) by (apply (rankedF_skip pre); exact Hr).
      cbn [rankedF] in Hr'. destruct Hr' as [Hk Hrs].
      assert (Htarget : exists lt, In (t, lt) (pre ++ (k, lk) :: suf) /\ forall st' t', sub_ref lt st' t' -> In t' (keysof suf)).
      { cbn [keysof map fst] in Hl. destruct Hl as [<-|Hl].
        - exists lk. split; [apply in_or_app; right; now left|exact Hk].
        - unfold keysof in Hl. apply in_map_iff in Hl. destruct Hl as [[t' lt] [Et Hlt]]. cbn [fst] in Et. subst t'.
          exists lt. split; [apply in_or_app; right; now right|].
          destruct (in_split _ _ Hlt) as [p2 [s2 Es]]. rewrite Es in Hrs. apply rankedF_skip in Hrs. cbn [rankedF] in Hrs.
          intros st' t' Hs'. rewrite Es, keysof_app. apply in_or_app. right. cbn [keysof map]. right. exact (proj1 Hrs st' t' Hs'). }
      destruct Htarget as [lt [Hlt Hrefs]]. exists lt. split; [apply wlookup_coherent; [exact Hc|apply Hin; exact Hlt]|].
      intros o'. rewrite Hpre in Hr, Hin.
      rewrite (IH (pre ++ [(k, lk)]) Hr Hin lt Hrefs f o') by lia. reflexivity.
  Qed.

  (* the anchors of a re-walked item are those of the first occurrence, moved *)
  Lemma shift_wvalue : forall an new D, coherent an -> (forall x, In x new -> In x an) ->
    (forall k lk, In (k, lk) new -> forall st t, sub_ref lk st t -> In t (keysof new)) ->
    forall f l, (forall st t, sub_ref l st t -> In t (keysof new)) ->
    forall o, wvalue r dec f (shift_an D new) (wshift D l) o = wvalue r dec f an l (o + D).
  Proof.
    intros an new D Hc Hin Hcl.
    assert (Hcn : coherent new) by (eapply coherent_incl; eauto).
    assert (Hlk : forall t, In t (keysof new) -> exists lt, In (t, lt) new /\ wlookup t an = Some lt /\ wlookup t (shift_an D new) = Some (wshift D lt)).
    { intros t Ht. unfold keysof in Ht. apply in_map_iff in Ht. destruct Ht as [[t' lt] [Et Hlt]]. cbn [fst] in Et. subst t'.
      exists lt. split; [exact Hlt|]. split; [apply wlookup_coherent; auto|].
      rewrite wlookup_shift_an, (wlookup_coherent new t lt Hcn Hlt). reflexivity. }
    induction f as [|f IH]; intros l Hl o.
    - rewrite !(wvalue_0 B A dec). apply (proj1 (shift_body an (shift_an D new) _ _ D)).
      intros st t Hs. destruct (Hlk t (Hl st t Hs)) as [lt [_ [H1 H2]]]. exists lt. repeat split; auto.
    - rewrite !(wvalue_S B A dec). apply (proj1 (shift_body an (shift_an D new) _ _ D)).
      intros st t Hs. destruct (Hlk t (Hl st t Hs)) as [lt [H0 [H1 H2]]]. exists lt. repeat split; auto.
      intros o'. apply IH. intros st' t'. apply (Hcl t lt H0).
  Qed.
End V.


Definition is_wref (l : wloc) : bool := match l with WRef _ _ => true | _ => false end.
Definition is_jref (s : js) : bool := match s with JRef _ => true | _ => false end.

Section T.
  Variable B : Type.
  Variable dcount : list B -> nat.
  Variable r : list B.

  (* every table remembers how its first occurrence was walked and that its registrations are still in force;
     every $ref placeholder of an object resolves to a registered location lying inside that object *)
  Fixpoint tidy (anF : wanchors) (l : wloc) : Prop :=
    match l with
    | WAtom _ _ _ => True
    | WRef _ _ => False
    | WArr st sz isz cnt it sch =>
        redef_ok sch = true /\ NoDup (jkeys sch) /\ tidy anF it /\
        exists an0 nw, walkv dcount r sch st an0 = Ok (it, nw ++ an0) /\ (forall x, In x nw -> In x anF)
    | WObj st sz ps => tidy_props anF st (st + sz) ps
    | WOne st sz alts => tidy_alts anF alts
    end
  with tidy_props (anF : wanchors) (lo hi : nat) (ps : wprops) : Prop :=
    match ps with
    | WPNil => True
    | WPCons _ l rest =>
        match l with
        | WRef _ t => exists lt, In (t, lt) anF /\ lo <= wstart lt /\ wend lt <= hi
        | _ => tidy anF l
        end /\ tidy_props anF lo hi rest
    end
  with tidy_alts (anF : wanchors) (ls : walts) : Prop :=
    match ls with WANil => True | WACons l rest => tidy anF l /\ tidy_alts anF rest end.

  Lemma tidy_obj : forall anF st sz ps, tidy anF (WObj st sz ps) = tidy_props anF st (st + sz) ps.
  Proof. reflexivity. Qed.
  Lemma tidy_arr : forall anF st sz isz cnt it sch, tidy anF (WArr st sz isz cnt it sch) =
    (redef_ok sch = true /\ NoDup (jkeys sch) /\ tidy anF it /\
     exists an0 nw, walkv dcount r sch st an0 = Ok (it, nw ++ an0) /\ (forall x, In x nw -> In x anF)).
  Proof. reflexivity. Qed.
  Lemma tidy_one : forall anF st sz alts, tidy anF (WOne st sz alts) = tidy_alts anF alts.
  Proof. reflexivity. Qed.
  Lemma tidy_alts_cons : forall anF l rest, tidy_alts anF (WACons l rest) = (tidy anF l /\ tidy_alts anF rest).
  Proof. reflexivity. Qed.

  Lemma walkv_not_ref : forall s st an l an', is_jref s = false -> walkv dcount r s st an = Ok (l, an') -> is_wref l = false.
  Proof.
    intros s st an l an' Hs E. destruct s as [a sz|a n its|a c its|a ps|a alts|t]; try discriminate.
    - rewrite walkv_atom in E. inversion E; reflexivity.
    - rewrite walkv_arr in E. destruct (walkv dcount r its st an) as [[sub an1]|e]; [|discriminate]. inversion E; reflexivity.
    - rewrite walkv_odo in E. destruct (wlookup (KName c) an) as [[ca cst csz| | | |]|]; try discriminate.
      destruct (walkv dcount r its st an) as [[sub an1]|e]; [|discriminate]. inversion E; reflexivity.
    - rewrite walkv_obj in E. destruct (walkv_props dcount r ps st an) as [[[pls off] an1]|e]; [|discriminate]. inversion E; reflexivity.
    - destruct alts as [|s0 rest]; [discriminate|]. rewrite walkv_one in E.
      destruct (walkv_alts dcount r (ACons s0 rest) st an) as [[als an1]|e]; [|discriminate]. inversion E; reflexivity.
  Qed.

  (* the direct alternatives of a oneOf are registered, start where the oneOf starts and are no longer than it *)
  Lemma alts_entries : forall alts st an als an', walkv_alts dcount r alts st an = Ok (als, an') ->
    exists new, an' = new ++ an /\
      forall t, In t (alt_anchors alts) -> exists lt, In (t, lt) new /\ wstart lt = st /\ wsize lt <= wmax_size als.
  Proof.
    induction alts as [|s rest IH]; intros st an als an' E.
    - rewrite walkv_alts_nil in E. inversion E; subst. exists []. split; [reflexivity|]. intros t [].
    - rewrite walkv_alts_cons in E.
      destruct (walkv dcount r s st an) as [[l an1]|e] eqn:Es; [|discriminate].
      destruct (walkv_alts dcount r rest st an1) as [[ls an2]|e] eqn:Er; [|discriminate]. inversion E; subst.
      destruct (proj1 (walkv_keys B dcount r) _ _ _ _ _ Es) as [n1 [H1 [_ [_ Ha]]]]. subst an1.
      destruct (IH _ _ _ _ Er) as [n2 [H2 Hr]]. subst an'.
      destruct (proj1 (walkv_wf B dcount r) _ _ _ _ _ Es) as [Hst _].
      exists (n2 ++ n1). split; [now rewrite <- app_assoc|]. intros t Ht. cbn [alt_anchors] in Ht. apply in_app_or in Ht.
      destruct Ht as [Ht|Ht].
      + destruct (js_anchor s) as [a|] eqn:Ea; [|destruct Ht]. destruct Ht as [<-|[]].
        exists l. split; [apply in_or_app; right; now apply Ha|]. split; [exact Hst|]. cbn [wmax_size]. lia.
      + destruct (Hr t Ht) as [lt [G1 [G2 G3]]]. exists lt. split; [apply in_or_app; now left|]. split; [exact G2|].
        cbn [wmax_size]. lia.
  Qed.

  Definition tidy_prop (anF : wanchors) (lo hi : nat) (l : wloc) : Prop :=
    match l with
    | WRef _ t => exists lt, In (t, lt) anF /\ lo <= wstart lt /\ wend lt <= hi
    | _ => tidy anF l
    end.

  Lemma tidy_prop_plain : forall anF lo hi l, tidy anF l -> tidy_prop anF lo hi l.
  Proof. intros anF lo hi l T. destruct l; try exact T. destruct T. Qed.

  Lemma tidy_props_cons : forall anF lo hi k l rest,
    tidy_props anF lo hi (WPCons k l rest) <-> tidy_prop anF lo hi l /\ tidy_props anF lo hi rest.
  Proof. intros. destruct l; reflexivity. Qed.

  Lemma walkv_tidy :
    (forall s, redef_ok s = true -> NoDup (jkeys s) -> forall st an l an', walkv dcount r s st an = Ok (l, an') ->
       exists new, an' = new ++ an /\
         forall anF, (forall x, In x new -> In x anF) -> tidy anF l /\ (forall k l', In (k, l') new -> tidy anF l'))
    /\ (forall ps seen, redef_props seen ps = true -> NoDup (jkeys_props ps) -> forall off an pls off' an', walkv_props dcount r ps off an = Ok (pls, off', an') ->
       exists new, an' = new ++ an /\
         forall anF lo hi, (forall x, In x new -> In x anF) -> lo <= off -> off' <= hi ->
           (forall t, In t seen -> exists lt, In (t, lt) anF /\ lo <= wstart lt /\ wend lt <= off) ->
           tidy_props anF lo hi pls /\ (forall k l', In (k, l') new -> tidy anF l'))
    /\ (forall alts, redef_alts alts = true -> NoDup (jkeys_alts alts) -> forall st an als an', walkv_alts dcount r alts st an = Ok (als, an') ->
       exists new, an' = new ++ an /\
         forall anF, (forall x, In x new -> In x anF) -> tidy_alts anF als /\ (forall k l', In (k, l') new -> tidy anF l')).
  Proof.
    assert (Hreg : forall anF a l new, tidy anF l -> (forall k l', In (k, l') new -> tidy anF l') ->
              forall k l', In (k, l') (wreg a l new) -> tidy anF l').
    { intros anF a l new Hl Hn k l' Hin. destruct a as [a|]; [|eauto]. destruct Hin as [Hin|Hin]; [inversion Hin; now subst|eauto]. }
    assert (Hsub : forall a l (new : wanchors) x, In x new -> In x (wreg a l new)).
    { intros a l new x Hx. destruct a; [now right|exact Hx]. }
    apply js_props_alts_ind.
    - intros a sz _ _ st an l an' E. rewrite walkv_atom in E. inversion E; subst.
      exists (wreg a (WAtom a st sz) []). split; [now rewrite <- wreg_app|]. intros anF Hi. split; [exact I|].
      apply Hreg; [exact I|intros k l' []].
    - intros a n its IH Hok Hnd st an l an' E. cbn [redef_ok redef_props redef_alts] in Hok. rewrite walkv_arr in E.
      cbn [jkeys] in Hnd. apply NoDup_app_r' in Hnd.
      destruct (walkv dcount r its st an) as [[sub an1]|e] eqn:Es; [|discriminate]. inversion E; subst.
      destruct (IH Hok Hnd _ _ _ _ Es) as [new [Hn Ht]]. subst an1.
      eexists. split; [now rewrite wreg_app|]. intros anF Hi.
      destruct (Ht anF (fun x Hx => Hi x (Hsub _ _ _ x Hx))) as [T1 T2].
      assert (Tl : tidy anF (WArr st (wsize sub * n) (wsize sub) n sub its)).
      { cbn [tidy]. split; [exact Hok|]. split; [exact Hnd|]. split; [exact T1|]. exists an, new. split; [exact Es|]. intros x Hx. apply Hi. now apply Hsub. }
      split; [exact Tl|]. now apply Hreg.
    - intros a c its IH Hok Hnd st an l an' E. cbn [redef_ok redef_props redef_alts] in Hok. rewrite walkv_odo in E.
      cbn [jkeys] in Hnd. apply NoDup_app_r' in Hnd.
      destruct (wlookup (KName c) an) as [[ca cst csz| | | |]|]; try discriminate.
      destruct (walkv dcount r its st an) as [[sub an1]|e] eqn:Es; [|discriminate]. inversion E; subst.
      destruct (IH Hok Hnd _ _ _ _ Es) as [new [Hn Ht]]. subst an1.
      eexists. split; [now rewrite wreg_app|]. intros anF Hi.
      destruct (Ht anF (fun x Hx => Hi x (Hsub _ _ _ x Hx))) as [T1 T2].
      match goal with |- tidy anF ?L /\ _ => assert (Tl : tidy anF L) end.
      { cbn [tidy]. split; [exact Hok|]. split; [exact Hnd|]. split; [exact T1|]. exists an, new. split; [exact Es|]. intros x Hx. apply Hi. now apply Hsub. }
      split; [exact Tl|]. now apply Hreg.
    - intros a ps IH Hok Hnd st an l an' E. cbn [redef_ok redef_props redef_alts] in Hok. rewrite walkv_obj in E.
      cbn [jkeys] in Hnd. apply NoDup_app_r' in Hnd.
      destruct (walkv_props dcount r ps st an) as [[[pls off] an1]|e] eqn:Es; [|discriminate]. inversion E; subst.
      destruct (IH [] Hok Hnd _ _ _ _ _ Es) as [new [Hn Ht]]. subst an1.
      destruct (proj1 (proj2 (walkv_wf B dcount r)) _ _ _ _ _ _ Es) as [_ [Hch _]]. pose proof (chain_ge pls st) as Hge.
      eexists. split; [now rewrite wreg_app|]. intros anF Hi.
      destruct (Ht anF st (st + (off - st)) (fun x Hx => Hi x (Hsub _ _ _ x Hx))) as [T1 T2]; [lia|lia|intros t []|].
      split; [exact T1|]. apply Hreg; [exact T1|exact T2].
    - intros a alts IH Hok Hnd st an l an' E. cbn [redef_ok redef_props redef_alts] in Hok.
      cbn [jkeys] in Hnd. apply NoDup_app_r' in Hnd.
      destruct alts as [|s0 rest]; [discriminate|]. rewrite walkv_one in E.
      destruct (walkv_alts dcount r (ACons s0 rest) st an) as [[als an1]|e] eqn:Es; [|discriminate]. inversion E; subst.
      destruct (IH Hok Hnd _ _ _ _ Es) as [new [Hn Ht]]. subst an1.
      eexists. split; [now rewrite wreg_app|]. intros anF Hi.
      destruct (Ht anF (fun x Hx => Hi x (Hsub _ _ _ x Hx))) as [T1 T2].
      split; [exact T1|]. apply Hreg; [exact T1|exact T2].
    - intros t Hok. discriminate.
    - intros seen _ _ off an pls off' an' E. rewrite walkv_props_nil in E. inversion E; subst. exists []. split; [reflexivity|].
      intros anF lo hi _ _ _ _. split; [exact I|intros k l' []].
    - intros k s IHs rest IHr seen Hok Hnd off an pls off' an' E. rewrite walkv_props_cons in E.
      cbn [jkeys_props] in Hnd. pose proof (NoDup_app_l' _ _ Hnd) as Hnd1. pose proof (NoDup_app_r' _ _ Hnd) as Hnd2.
      destruct (walkv dcount r s off an) as [[pl an1]|e] eqn:Es; [|discriminate].
      destruct (walkv_props dcount r rest (off + wsize pl) (wreg (js_anchor s) pl an1)) as [[[rl off1] an2]|e] eqn:Er; [|discriminate].
      inversion E; subst. clear E.
      destruct (proj1 (proj2 (walkv_wf B dcount r)) _ _ _ _ _ _ Er) as [_ [Hch _]]. pose proof (chain_ge rl (off + wsize pl)) as Hge.
      destruct (proj1 (walkv_extends B dcount r) _ _ _ _ _ Es) as [n1 Hn1]. subst an1.
      assert (Hgen : forall seen2, is_jref s = false -> redef_ok s = true -> redef_props seen2 rest = true ->
                (forall anF lo, (forall x, In x n1 -> In x anF) -> lo <= off ->
                   (forall t, In t seen -> exists lt, In (t, lt) anF /\ lo <= wstart lt /\ wend lt <= off) ->
                   forall t, In t seen2 -> exists lt, In (t, lt) anF /\ lo <= wstart lt /\ wend lt <= off + wsize pl) ->
                exists new, an' = new ++ an /\
                  forall anF lo hi, (forall x, In x new -> In x anF) -> lo <= off -> off' <= hi ->
                    (forall t, In t seen -> exists lt, In (t, lt) anF /\ lo <= wstart lt /\ wend lt <= off) ->
                    tidy_props anF lo hi (WPCons k pl rl) /\ (forall k0 l', In (k0, l') new -> tidy anF l')).
      { intros seen2 Hjr Hs2 Hr2 Hseen.
        destruct (IHs Hs2 Hnd1 _ _ _ _ Es) as [n1' [Hn1' Ht1]]. apply app_inv_tail in Hn1'. subst n1'.
        destruct (IHr seen2 Hr2 Hnd2 _ _ _ _ _ Er) as [n2 [Hn2 Ht2]]. subst an'.
        exists (n2 ++ wreg (js_anchor s) pl n1). split; [now rewrite <- app_assoc, wreg_app|].
        intros anF lo hi Hi Hlo Hhi Hsn.
        assert (Hi1 : forall x, In x n1 -> In x anF) by (intros x Hx; apply Hi; apply in_or_app; right; now apply Hsub).
        destruct (Ht1 anF Hi1) as [T1 T1'].
        destruct (Ht2 anF lo hi) as [T2 T2']; [intros x Hx; apply Hi; apply in_or_app; now left|lia|lia|exact (Hseen anF lo Hi1 Hlo Hsn)|].
        split.
        - apply tidy_props_cons. split; [|exact T2]. apply tidy_prop_plain. exact T1.
        - intros k0 l' Hin. apply in_app_or in Hin. destruct Hin as [Hin|Hin]; [exact (T2' _ _ Hin)|]. exact (Hreg anF (js_anchor s) pl n1 T1 T1' k0 l' Hin). }
      assert (Hkeep : forall anF lo (w : nat), (forall t, In t seen -> exists lt, In (t, lt) anF /\ lo <= wstart lt /\ wend lt <= off) ->
                forall t, In t seen -> exists lt, In (t, lt) anF /\ lo <= wstart lt /\ wend lt <= off + w).
      { intros anF lo w H t Ht. destruct (H t Ht) as [lt [G1 [G2 G3]]]. exists lt. repeat split; auto. lia. }
      destruct s as [a sz|a n its|a c its|a ps|a alts|t]; cbn [redef_ok redef_props redef_alts] in Hok.
      + apply andb_prop in Hok. destruct Hok as [O1 O2]. apply (Hgen seen); auto.
      + apply andb_prop in Hok. destruct Hok as [O1 O2]. apply (Hgen seen); auto.
      + apply andb_prop in Hok. destruct Hok as [O1 O2]. apply (Hgen seen); auto.
      + apply andb_prop in Hok. destruct Hok as [O1 O2]. apply (Hgen seen); auto.
      + apply andb_prop in Hok. destruct Hok as [O1 O2]. apply (Hgen (alt_anchors alts ++ seen)); auto.
        intros anF lo Hi1 Hlo H t Ht. apply in_app_or in Ht. destruct Ht as [Ht|Ht]; [|now apply Hkeep].
        (* an alternative of this oneOf *)
        destruct alts as [|s0 arest]; [destruct Ht|]. rewrite walkv_one in Es.
        destruct (walkv_alts dcount r (ACons s0 arest) off an) as [[als ana]|e] eqn:Ea; [|discriminate]. injection Es as Epl Ean. subst pl.
        destruct (alts_entries _ _ _ _ _ Ea) as [na [Hna Hent]]. subst ana.
        rewrite wreg_app in Ean. apply app_inv_tail in Ean. subst n1.
        destruct (Hent t Ht) as [lt [G1 [G2 G3]]]. exists lt. split; [apply Hi1; now apply Hsub|].
        unfold wend. cbn [wsize]. lia.
      + apply andb_prop in Hok. destruct Hok as [O1 O2]. apply memk_In in O1.
        rewrite walkv_ref in Es. injection Es as Epl Ean. subst pl. cbn [js_anchor wreg wsize] in Er. symmetry in Ean. apply (app_inv_tail an n1 []) in Ean. subst n1. cbn [app] in Er.
        destruct (IHr seen O2 Hnd2 _ _ _ _ _ Er) as [n2 [Hn2 Ht2]]. subst an'.
        exists n2. split; [reflexivity|]. intros anF lo hi Hi Hlo Hhi Hsn. cbn [wsize] in *.
        destruct (Ht2 anF lo hi Hi) as [T2 T2']; [lia|lia| |].
        * intros t0 Ht0. destruct (Hsn t0 Ht0) as [lt [G1 [G2 G3]]]. exists lt. repeat split; auto. lia.
        * split; [|exact T2']. apply tidy_props_cons. split; [|exact T2]. cbn [tidy_prop].
          destruct (Hsn t O1) as [lt [G1 [G2 G3]]]. exists lt. repeat split; auto. lia.
    - intros _ _ st an als an' E. rewrite walkv_alts_nil in E. inversion E; subst. exists []. split; [reflexivity|].
      intros anF _. split; [exact I|intros k l' []].
    - intros s IHs rest IHr Hok Hnd st an als an' E. cbn [redef_ok redef_props redef_alts] in Hok.
      cbn [jkeys_alts] in Hnd. pose proof (NoDup_app_l' _ _ Hnd) as Hnd1. pose proof (NoDup_app_r' _ _ Hnd) as Hnd2.
      apply andb_prop in Hok. destruct Hok as [O1 O2]. rewrite walkv_alts_cons in E.
      destruct (walkv dcount r s st an) as [[l an1]|e] eqn:Es; [|discriminate].
      destruct (walkv_alts dcount r rest st an1) as [[ls an2]|e] eqn:Er; [|discriminate].
      inversion E; subst. destruct (IHs O1 Hnd1 _ _ _ _ Es) as [n1 [H1 T1]]. destruct (IHr O2 Hnd2 _ _ _ _ Er) as [n2 [H2 T2]]. subst.
      exists (n2 ++ n1). split; [now rewrite <- app_assoc|]. intros anF Hi.
      destruct (T1 anF) as [A1 A2]; [intros x Hx; apply Hi; apply in_or_app; now right|].
      destruct (T2 anF) as [B1 B2]; [intros x Hx; apply Hi; apply in_or_app; now left|].
      split; [split; assumption|]. intros k l' Hin. apply in_app_or in Hin. destruct Hin; eauto.
  Qed.
End T.


Lemma rankedF_closed : forall an k l, rankedF an -> In (k, l) an -> forall st t, sub_ref l st t -> In t (keysof an).
Proof.
  intros an k l Hr Hin st t Hs. destruct (in_split _ _ Hin) as [p [s E]]. subst an.
  apply rankedF_skip in Hr. cbn [rankedF] in Hr. rewrite keysof_app. apply in_or_app. right. cbn [keysof map]. right.
  exact (proj1 Hr st t Hs).
Qed.

Lemma coherent_shift_an : forall D an, coherent an -> coherent (shift_an D an).
Proof.
  intros D an Hc k l1 l2 H1 H2. unfold shift_an in *. apply in_map_iff in H1. apply in_map_iff in H2.
  destruct H1 as [[k1 x1] [E1 I1]]. destruct H2 as [[k2 x2] [E2 I2]]. cbn [fst snd] in *.
  inversion E1; inversion E2; subst. f_equal. now apply (Hc k).
Qed.

Section N.
  Variable B : Type.
  Variable dcount : list B -> nat.
  Variable A : Type.
  Variable dec : option key -> list B -> res A.
  Variable r : list B.
  Notation pvA := (pv A).

  (* what holds of every navigator obtained from unpacker.nav on a cobol_like schema by names and indices *)
  Definition J (v : vnav) : Prop :=
    inv B dcount r v /\ coherent (vn_an v) /\ tidy B dcount r (vn_an v) (vn_loc v)
    /\ (forall k l, In (k, l) (vn_an v) -> tidy B dcount r (vn_an v) l).

  Lemma J_walk : forall s st l an, redef_ok s = true -> NoDup (jkeys s) ->
    walkv dcount r s st [] = Ok (l, an) -> inv B dcount r (mkvnav l an) -> J (mkvnav l an).
  Proof.
    intros s st l an Hok Hnd Ew Hinv. split; [exact Hinv|]. cbn [vn_an vn_loc].
    destruct (proj1 (walkv_keys B dcount r) _ _ _ _ _ Ew) as [n1 [E1 [_ [Hc _]]]].
    destruct (proj1 (walkv_tidy B dcount r) s Hok Hnd _ _ _ _ Ew) as [n2 [E2 Ht]].
    rewrite app_nil_r in E1, E2. subst n1 n2. split; [now apply Hc|]. apply Ht. auto.
  Qed.

  Lemma J_of : forall s v, cobol_like s = true -> vnav_of dcount r s = Ok v -> J v.
  Proof.
    intros s v Hc E. unfold cobol_like in Hc. apply andb_prop in Hc. destruct Hc as [H1 H2]. apply nodupk_NoDup in H2.
    pose proof (inv_of B dcount r s v E) as Hinv.
    rewrite vnav_of_unf in E. destruct (walkv dcount r s 0 []) as [[l an]|e] eqn:Ew; [|discriminate]. inversion E; subst.
    eapply J_walk; eauto.
  Qed.

  Lemma tidy_props_find : forall anF lo hi ps k c, tidy_props B dcount r anF lo hi ps -> wfind k ps = Some c -> tidy_prop B dcount r anF lo hi c.
  Proof.
    induction ps as [|k0 l rest IH]; intros k c Ht Hf; [discriminate|]. apply (proj1 (tidy_props_cons B dcount r _ _ _ _ _ _)) in Ht. destruct Ht as [H1 H2].
    cbn [wfind] in Hf. destruct (key_eqb k k0); [inversion Hf; now subst|eauto].
  Qed.

  Lemma J_name : forall v k v', J v -> vnav_name v k = Ok v' -> J v'.
  Proof.
    intros v k v' [Hinv [Hc [Ht Ha]]] E. pose proof (inv_name B dcount r v k v' Hinv E) as Hinv'.
    destruct v as [l an]. rewrite vnav_name_unf in E. cbn [vn_loc vn_an] in *.
    destruct l as [a st sz|st sz isz cnt it sch|st sz ps|st sz alts|st t]; try discriminate.
    destruct (wfind k ps) as [c|] eqn:Ef; [|discriminate]. rewrite tidy_obj in Ht.
    pose proof (tidy_props_find _ _ _ _ _ _ Ht Ef) as Hp.
    destruct c as [a' st' sz'|st' sz' isz' cnt' it' sch'|st' sz' ps'|st' sz' alts'|st' t'];
      try (cbn [tidy_prop] in Hp; inversion E; subst v'; exact (conj Hinv' (conj Hc (conj Hp Ha)))).
    destruct (wlookup t' an) as [target|] eqn:El; [|discriminate]. inversion E; subst v'.
    destruct (wlookup_in _ _ _ El) as [k' Hin]. exact (conj Hinv' (conj Hc (conj (Ha _ _ Hin) Ha))).
  Qed.

  Lemma J_index : forall v i v', J v -> vnav_index dcount r v i = Ok v' -> J v'.
  Proof.
    intros v i v' [Hinv [Hc [Ht Ha]]] E. pose proof (inv_index B dcount r v i v' E) as Hinv'.
    destruct v as [l an]. rewrite vnav_index_unf in E. cbn [vn_loc vn_an] in *.
    destruct l as [a st sz|st sz isz cnt it sch|st sz ps|st sz alts|st t]; try discriminate.
    destruct (cnt <=? i); [discriminate|]. rewrite tidy_arr in Ht. destruct Ht as [Hok [Hnd _]].
    destruct (walkv dcount r sch (st + isz * i) []) as [[l' an']|e] eqn:Ew; [|discriminate]. inversion E; subst v'.
    eapply J_walk; eauto.
  Qed.

  Lemma J_path : forall p v v', J v -> vnav_path dcount r v p = Ok v' -> J v'.
  Proof.
    induction p as [|s p IH]; intros v v' Hj E; cbn [vnav_path] in E; [inversion E; now subst|].
    destruct (vnav_step dcount r v s) as [v1|e] eqn:Es; [|discriminate]. apply (IH v1); [|exact E].
    destruct s as [k|i]; cbn [vnav_step] in Es; [eapply J_name|eapply J_index]; eauto.
  Qed.

  (* ---- (2) raw bytes: every child reached by name, $ref placeholders included, lies inside its parent ---- *)
  Lemma name_inside_all : forall v k v', J v -> vnav_name v k = Ok v' ->
    wstart (vn_loc v) <= wstart (vn_loc v') /\ wend (vn_loc v') <= wend (vn_loc v).
  Proof.
    intros v k v' Hj E. destruct (ref_prop v k) eqn:Er; [|exact (name_inside B dcount r v k v' (proj1 Hj) E Er)].
    destruct Hj as [Hinv [Hc [Ht Ha]]]. destruct v as [l an]. unfold ref_prop in *. rewrite ?vnav_name_unf in *. cbn [vn_loc vn_an] in *.
    destruct l as [a st sz|st sz isz cnt it sch|st sz ps|st sz alts|st t]; try discriminate.
    destruct (wfind k ps) as [c|] eqn:Ef; [|discriminate]. rewrite tidy_obj in Ht.
    pose proof (tidy_props_find _ _ _ _ _ _ Ht Ef) as Hp.
    destruct c as [a' st' sz'|st' sz' isz' cnt' it' sch'|st' sz' ps'|st' sz' alts'|st' t']; try discriminate.
    cbn [tidy_prop] in Hp. destruct Hp as [lt [Hin [H1 H2]]]. rewrite (wlookup_coherent an t' lt Hc Hin) in E.
    inversion E; subst v'. cbn [vn_loc wstart]. unfold wend at 2. cbn [wstart wsize]. lia.
  Qed.

  (* ---- (3) value() reads nothing outside the location's own range ---- *)
  Lemma foot_tidy : forall an, coherent an -> all_an (wf B dcount r) an -> (forall k l, In (k, l) an -> tidy B dcount r an l) ->
    forall f l, wf B dcount r l -> tidy B dcount r an l -> forall o a b, In (a, b) (wfoot f an l o) -> wstart l + o <= a /\ b <= wend l + o.
  Proof.
    intros an Hc Hwf Hta.
    assert (Hbody : forall df, (forall lt, (exists k, In (k, lt) an) -> forall o a b, In (a, b) (df lt o) -> wstart lt + o <= a /\ b <= wend lt + o) ->
      (forall l, wf B dcount r l -> tidy B dcount r an l -> forall o a b, In (a, b) (foot_body an df l o) -> wstart l + o <= a /\ b <= wend l + o)
      /\ (forall ps, forall off lo hi, wf_props B dcount r ps off -> tidy_props B dcount r an lo hi ps -> lo <= off -> chain ps off <= hi ->
            forall o a b, In (a, b) (foot_props an df ps o) -> lo + o <= a /\ b <= hi + o)
      /\ (forall ls, forall st sz, wf_alts B dcount r ls st sz -> tidy_alts B dcount r an ls ->
            first_alt (fun l => forall o a b, In (a, b) (foot_body an df l o) -> st + o <= a /\ b <= st + sz + o) ls)).
    { intros df Hdf. apply wloc_wprops_walts_ind.
      - intros a st sz _ _ o x y H. rewrite fb_atom in H. destruct H as [H|[]]. inversion H; subst. unfold wend. cbn [wstart wsize]. lia.
      - intros st sz isz cnt it IH sch Hw Ht o x y H. rewrite tidy_arr in Ht. cbn [wf wf_props wf_alts] in Hw.
        destruct Hw as [H1 [H2 [H3 [H4 _]]]]. destruct Ht as [_ [_ [Ht _]]]. rewrite fb_arr in H. apply in_flat_map in H. destruct H as [j [Hj Hin]].
        apply in_seq in Hj. destruct (IH H4 Ht _ _ _ Hin) as [G1 G2]. unfold wend in *. cbn [wstart wsize]. rewrite H1, H2 in *. subst sz.
        split; [lia|]. nia.
      - intros st sz ps IH Hw Ht o x y H. rewrite tidy_obj in Ht. cbn [wf wf_props wf_alts] in Hw. destruct Hw as [H1 H2]. rewrite fb_obj in H.
        destruct (IH st st (st + sz) H1 Ht (le_n _) ltac:(lia) _ _ _ H) as [G1 G2]. unfold wend. cbn [wstart wsize]. lia.
      - intros st sz alts IH Hw Ht o x y H. rewrite tidy_one in Ht. cbn [wf wf_props wf_alts] in Hw. rewrite fb_one in H.
        destruct alts as [|first rest]; [destruct H|]. specialize (IH st sz Hw Ht). cbn [first_alt] in IH.
        destruct (IH _ _ _ H) as [G1 G2]. unfold wend. cbn [wstart wsize]. lia.
      - intros st t _ Ht. destruct Ht.
      - intros off lo hi _ _ _ _ o x y H. destruct H.
      - intros k l IHl rest IHr off lo hi Hw Ht Hlo Hhi o x y H. cbn [wf wf_props wf_alts chain] in Hw, Hhi.
        destruct Hw as [H1 [H2 H3]]. apply (proj1 (tidy_props_cons B dcount r _ _ _ _ _ _)) in Ht. destruct Ht as [T1 T2]. rewrite fp_cons in H.
        pose proof (chain_ge rest (off + wsize l)) as Hge.
        apply in_app_or in H. destruct H as [H|H].
        + destruct l as [a' st' sz'|st' sz' isz' cnt' it' sch'|st' sz' ps'|st' sz' alts'|st' t'];
            try (destruct (IHl H2 T1 _ _ _ H) as [G1 G2]; unfold wend in G2; lia).
          cbn [tidy_prop] in T1. destruct T1 as [lt [Hin [L1 L2]]]. rewrite fb_ref in H.
          rewrite (wlookup_coherent an t' lt Hc Hin) in H.
          destruct (Hdf lt (ex_intro _ t' Hin) _ _ _ H) as [G1 G2]. lia.
        + apply (IHr (off + wsize l) lo hi H3 T2); [lia|lia|exact H].
      - intros st sz _ _. exact I.
      - intros l IHl rest _ st sz Hw Ht. rewrite tidy_alts_cons in Ht. cbn [wf wf_props wf_alts] in Hw. cbn [first_alt].
        destruct Hw as [H1 [H2 [H3 _]]]. destruct Ht as [T1 _].
        intros o x y H. destruct (IHl H3 T1 _ _ _ H) as [G1 G2]. unfold wend in G2. lia. }
    induction f as [|f IH]; intros l Hw Ht o a b H.
    - rewrite wfoot_0 in H.
      assert (Hdf : forall lt, (exists k, In (k, lt) an) -> forall o a b, In (a, b) ((fun (_ : wloc) (_ : nat) => @nil (nat * nat)) lt o) -> wstart lt + o <= a /\ b <= wend lt + o)
        by (intros lt _ o' a' b' []).
      exact (proj1 (Hbody _ Hdf) l Hw Ht o a b H).
    - rewrite wfoot_S in H.
      assert (Hdf : forall lt, (exists k, In (k, lt) an) -> forall o a b, In (a, b) (wfoot f an lt o) -> wstart lt + o <= a /\ b <= wend lt + o).
      { intros lt [k Hin] o' a' b' H'. apply (IH lt); [exact (Hwf _ _ Hin)|exact (Hta _ _ Hin)|exact H']. }
      exact (proj1 (Hbody _ Hdf) l Hw Ht o a b H).
  Qed.

  Lemma foot_inside_J : forall v, J v -> foot_inside v = true.
  Proof.
    intros [l an] [[Hw Hwa] [Hc [Ht Ha]]]. cbn [vn_loc vn_an] in *. unfold foot_inside, vnav_foot; change SR.Gen.LayoutParams.value_default_offset with 0. cbn [vn_loc vn_an].
    apply forallb_forall. intros [a b] Hin. cbn [fst snd].
    destruct (foot_tidy an Hc Hwa Ha (length an) l Hw Ht 0 a b Hin) as [G1 G2].
    apply andb_true_intro. split; apply Nat.leb_le; lia.
  Qed.

  (* ---- (1) whole and part, indices: items with $ref, without OCCURS DEPENDING ON ---- *)
  Lemma commute_index_J : forall v st sz isz cnt it sch (xs : list pvA) i,
    J v -> vn_loc v = WArr st sz isz cnt it sch -> odo_free sch = true ->
    vnav_value r dec v = Some (Ok (PList xs)) -> i < cnt ->
    exists v' x, vnav_index dcount r v i = Ok v' /\ nth_error xs i = Some x /\ vnav_value r dec v' = Some (Ok x).
  Proof.
    intros [l an] st sz isz cnt it sch xs i [Hinv [Hc [Ht Ha]]] Hl Hof Hv Hi. cbn [vn_loc vn_an] in *. subst l.
    rewrite tidy_arr in Ht. destruct Ht as [Hok [Hnd [Tit [an0 [nw [Ew Hsub]]]]]].
    destruct (proj1 (walkv_closed B dcount r) sch Hok _ _ _ _ Ew) as [n1 [E1 [_ [Hrefs Hrk]]]]. apply app_inv_tail in E1. subst n1.
    destruct (proj1 (walkv_shift B dcount r) sch Hof _ _ _ _ Ew) as [n2 [E2 Hsh]]. apply app_inv_tail in E2. subst n2.
    set (D := isz * i).
    assert (Ei : vnav_index dcount r (mkvnav (WArr st sz isz cnt it sch) an) i = Ok (mkvnav (wshift D it) (shift_an D nw))).
    { rewrite vnav_index_unf. cbn [vn_loc]. destruct (cnt <=? i) eqn:E; [apply Nat.leb_le in E; lia|]. fold D. rewrite Hsh, app_nil_r. reflexivity. }
    unfold vnav_value in Hv; change SR.Gen.LayoutParams.value_default_offset with 0 in Hv. cbn [vn_loc vn_an] in Hv.
    destruct (wvalue_body B A dec r an (length an)) as [dr [Hw _]]. rewrite Hw, (vb_arr B A dec) in Hv.
    destruct (seq_values (fun j => value_body r dec an dr it (0 + j * isz)) cnt 0) as [[ys|e]|] eqn:Es; try discriminate.
    inversion Hv; subst ys. destruct (seq_values_nth _ _ _ _ Es) as [_ Hn]. destruct (Hn i Hi) as [x [Hx1 Hx2]].
    exists (mkvnav (wshift D it) (shift_an D nw)), x. split; [exact Ei|]. split; [exact Hx1|].
    unfold vnav_value; change SR.Gen.LayoutParams.value_default_offset with 0. cbn [vn_loc vn_an].
    assert (Hlen : length (shift_an D nw) = length nw) by (unfold shift_an; apply map_length). rewrite Hlen.
    rewrite (shift_wvalue B A dec r an nw D Hc Hsub (fun k lk Hin => rankedF_closed nw k lk Hrk Hin) (length nw) it Hrefs 0).
    assert (Hwhole : wvalue r dec (length an) an it (0 + D) = Some (Ok x)).
    { rewrite Hw. rewrite <- Hx2. f_equal. unfold D. lia. }
    destruct (le_ge_dec (length nw) (length an)) as [Hle|Hge].
    - rewrite <- (settled B A dec r an Hc nw [] Hrk Hsub it Hrefs (length an) (0 + D) Hle). exact Hwhole.
    - apply (wvalue_mono B A dec r an (length an) (length nw)); [lia|exact Hwhole].
  Qed.
End N.

(* ================================================================== tables without OCCURS DEPENDING ON *)


(* every table inside a location remembers an items schema without OCCURS DEPENDING ON *)
Fixpoint ofree_loc (l : wloc) : bool :=
  match l with
  | WAtom _ _ _ => true
  | WArr _ _ _ _ it sch => odo_free sch && ofree_loc it
  | WObj _ _ ps => ofree_props ps
  | WOne _ _ alts => ofree_alts alts
  | WRef _ _ => true
  end
with ofree_props (ps : wprops) : bool :=
  match ps with WPNil => true | WPCons _ l r => ofree_loc l && ofree_props r end
with ofree_alts (ls : walts) : bool :=
  match ls with WANil => true | WACons l r => ofree_loc l && ofree_alts r end.

Section OF.
  Variable B : Type.
  Variable dcount : list B -> nat.
  Variable r : list B.

  Definition ofree_an (an : wanchors) : Prop := forall k l, In (k, l) an -> ofree_loc l = true.

  Lemma ofree_wreg : forall a l an, ofree_loc l = true -> ofree_an an -> ofree_an (wreg a l an).
  Proof. intros [k|] l an Hl Ha; [|exact Ha]. intros k' l' [H|H]; [inversion H; now subst|eauto]. Qed.

  Lemma walkv_ofree :
    (forall s, odo_free s = true -> forall st an l an', walkv dcount r s st an = Ok (l, an') ->
       ofree_loc l = true /\ (ofree_an an -> ofree_an an'))
    /\ (forall ps, odo_free_props ps = true -> forall off an pls off' an', walkv_props dcount r ps off an = Ok (pls, off', an') ->
       ofree_props pls = true /\ (ofree_an an -> ofree_an an'))
    /\ (forall alts, odo_free_alts alts = true -> forall st an als an', walkv_alts dcount r alts st an = Ok (als, an') ->
       ofree_alts als = true /\ (ofree_an an -> ofree_an an')).
  Proof.
    apply js_props_alts_ind.
    - intros a sz _ st an l an' E. rewrite walkv_atom in E. inversion E; subst. split; [reflexivity|]. intros H. now apply ofree_wreg.
    - intros a n its IH Hof st an l an' E. cbn [odo_free odo_free_props odo_free_alts] in Hof. rewrite walkv_arr in E.
      destruct (walkv dcount r its st an) as [[sub an1]|e] eqn:Es; [|discriminate]. inversion E; subst.
      destruct (IH Hof _ _ _ _ Es) as [H1 H2].
      assert (Hl : ofree_loc (WArr st (wsize sub * n) (wsize sub) n sub its) = true) by (cbn [ofree_loc]; now rewrite Hof, H1).
      split; [exact Hl|]. intros H. apply ofree_wreg; auto.
    - intros a c its _ Hof. discriminate.
    - intros a ps IH Hof st an l an' E. cbn [odo_free odo_free_props odo_free_alts] in Hof. rewrite walkv_obj in E.
      destruct (walkv_props dcount r ps st an) as [[[pls off] an1]|e] eqn:Es; [|discriminate]. inversion E; subst.
      destruct (IH Hof _ _ _ _ _ Es) as [H1 H2]. split; [exact H1|]. intros H. apply ofree_wreg; auto.
    - intros a alts IH Hof st an l an' E. cbn [odo_free odo_free_props odo_free_alts] in Hof.
      destruct alts as [|s0 rest]; [discriminate|]. rewrite walkv_one in E.
      destruct (walkv_alts dcount r (ACons s0 rest) st an) as [[als an1]|e] eqn:Es; [|discriminate]. inversion E; subst.
      destruct (IH Hof _ _ _ _ Es) as [H1 H2]. split; [exact H1|]. intros H. apply ofree_wreg; auto.
    - intros t _ st an l an' E. rewrite walkv_ref in E. inversion E; subst. split; [reflexivity|auto].
    - intros _ off an pls off' an' E. rewrite walkv_props_nil in E. inversion E; subst. split; [reflexivity|auto].
    - intros k s IHs rest IHr Hof off an pls off' an' E. cbn [odo_free odo_free_props odo_free_alts] in Hof.
      apply andb_prop in Hof. destruct Hof as [O1 O2]. rewrite walkv_props_cons in E.
      destruct (walkv dcount r s off an) as [[pl an1]|e] eqn:Es; [|discriminate].
      destruct (walkv_props dcount r rest (off + wsize pl) (wreg (js_anchor s) pl an1)) as [[[rl off1] an2]|e] eqn:Er; [|discriminate].
      inversion E; subst. destruct (IHs O1 _ _ _ _ Es) as [H1 H2]. destruct (IHr O2 _ _ _ _ _ Er) as [G1 G2].
      split; [cbn [ofree_props]; now rewrite H1, G1|]. intros H. apply G2. apply ofree_wreg; auto.
    - intros _ st an als an' E. rewrite walkv_alts_nil in E. inversion E; subst. split; [reflexivity|auto].
    - intros s IHs rest IHr Hof st an als an' E. cbn [odo_free odo_free_props odo_free_alts] in Hof.
      apply andb_prop in Hof. destruct Hof as [O1 O2]. rewrite walkv_alts_cons in E.
      destruct (walkv dcount r s st an) as [[l an1]|e] eqn:Es; [|discriminate].
      destruct (walkv_alts dcount r rest st an1) as [[ls an2]|e] eqn:Er; [|discriminate].
      inversion E; subst. destruct (IHs O1 _ _ _ _ Es) as [H1 H2]. destruct (IHr O2 _ _ _ _ Er) as [G1 G2].
      split; [cbn [ofree_alts]; now rewrite H1, G1|auto].
  Qed.

  Definition ofree_nav (v : vnav) : Prop := ofree_loc (vn_loc v) = true /\ ofree_an (vn_an v).

  Lemma ofree_find : forall ps k c, ofree_props ps = true -> wfind k ps = Some c -> ofree_loc c = true.
  Proof.
    induction ps as [|k0 l rest IH]; intros k c Hs Hf; [discriminate|]. cbn [ofree_props wfind] in *.
    apply andb_prop in Hs. destruct Hs as [H1 H2]. destruct (key_eqb k k0); [inversion Hf; now subst|eauto].
  Qed.

  Lemma ofree_of : forall s v, odo_free s = true -> vnav_of dcount r s = Ok v -> ofree_nav v.
  Proof.
    intros s v Hof E. rewrite vnav_of_unf in E. destruct (walkv dcount r s 0 []) as [[l an]|e] eqn:Ew; [|discriminate]. inversion E; subst.
    destruct (proj1 walkv_ofree s Hof _ _ _ _ Ew) as [H1 H2]. split; [exact H1|]. apply H2. intros k l' [].
  Qed.

  Lemma ofree_path : forall p v v', ofree_nav v -> vnav_path dcount r v p = Ok v' -> ofree_nav v'.
  Proof.
    induction p as [|s p IH]; intros v v' Hv E; cbn [vnav_path] in E; [inversion E; now subst|].
    destruct (vnav_step dcount r v s) as [v1|e] eqn:Es; [|discriminate]. apply (IH v1); [|exact E].
    destruct v as [l an]. destruct Hv as [Hl Ha]. cbn [vn_loc vn_an] in *. destruct s as [k|i]; cbn [vnav_step] in Es.
    - rewrite vnav_name_unf in Es. cbn [vn_loc vn_an] in Es.
      destruct l as [a st sz|st sz isz cnt it sch|st sz ps|st sz alts|st t]; try discriminate.
      destruct (wfind k ps) as [c|] eqn:Ef; [|discriminate]. cbn [ofree_loc] in Hl.
      pose proof (ofree_find _ _ _ Hl Ef) as Hc.
      destruct c as [a' st' sz'|st' sz' isz' cnt' it' sch'|st' sz' ps'|st' sz' alts'|st' t'];
        try (inversion Es; subst v1; split; assumption).
      destruct (wlookup t' an) as [target|] eqn:El; [|discriminate]. inversion Es; subst v1.
      split; [|exact Ha]. cbn [vn_loc]. destruct (wlookup_in _ _ _ El) as [k' Hin]. exact (Ha _ _ Hin).
    - rewrite vnav_index_unf in Es. cbn [vn_loc vn_an] in Es.
      destruct l as [a st sz|st sz isz cnt it sch|st sz ps|st sz alts|st t]; try discriminate.
      destruct (cnt <=? i); [discriminate|]. cbn [ofree_loc] in Hl. apply andb_prop in Hl. destruct Hl as [Hsch _].
      destruct (walkv dcount r sch (st + isz * i) []) as [[l' an']|e] eqn:Ew; [|discriminate]. inversion Es; subst v1.
      destruct (proj1 walkv_ofree sch Hsch _ _ _ _ Ew) as [H1 H2]. split; [exact H1|]. apply H2. intros k l'' [].
  Qed.
End OF.

(* ================================================================== what cobol_parser emits for a well-formed
   record description (C01's wf, distinct ids) is cobol_like and free of OCCURS DEPENDING ON *)
Require Import SR.Proofs.LayoutP.


Lemma jkeys_keys_js :
  (forall s, jkeys s = keys_js s) /\ (forall ps, jkeys_props ps = keys_props ps) /\ (forall alts, jkeys_alts alts = keys_alts alts).
Proof.
  apply js_props_alts_ind; intros; cbn [jkeys jkeys_props jkeys_alts keys_js keys_props keys_alts]; try congruence; try reflexivity.
Qed.

(* build_alt never yields a bare oneOf or $ref *)
Definition plainish (s : js) : bool := match s with JOne _ _ | JRef _ => false | _ => true end.
Lemma build_alt_plainish : forall x, plainish (build_alt x) = true.
Proof. intros [i sz [|n|c] rd|i [|n|c] rd ks]; reflexivity. Qed.

Lemma redef_props_plain_step : forall seen k p rest, plainish p = true ->
  redef_props seen (PCons k p rest) = redef_ok p && redef_props seen rest.
Proof. intros seen k p rest H. destruct p; try discriminate; reflexivity. Qed.

Lemma anchor_build : forall x, elem_table x = false -> js_anchor (build_alt x) = Some (KName (item_id x)).
Proof. intros [i sz [|n|c] rd|i [|n|c] rd ks] H; try discriminate; reflexivity. Qed.

Lemma memk_true : forall k l, In k l -> memk k l = true.
Proof.
  intros k l H. unfold memk. apply existsb_exists. exists k. split; [exact H|]. destruct k; cbn; apply N.eqb_refl.
Qed.

Lemma redef_alts_red : forall u xs, (forall y, in_kids y xs -> redef_ok (build_alt y) = true) -> redef_alts (alts_red u xs) = true.
Proof.
  induction xs as [|x xs IH]; intros H; [reflexivity|]. cbn [alts_red].
  assert (Hxs : redef_alts (alts_red u xs) = true) by (apply IH; intros y Hy; apply H; now right).
  destruct (item_redef x) as [u'|]; [|exact Hxs]. destruct (N.eqb u u'); [|exact Hxs].
  cbn [redef_alts]. rewrite (H x (or_introl eq_refl)). exact Hxs.
Qed.

Lemma alt_anchors_red : forall u xs y, in_kids y xs -> item_redef y = Some u -> elem_table y = false ->
  In (KName (item_id y)) (alt_anchors (alts_red u xs)).
Proof.
  induction xs as [|x xs IH]; intros y Hy Er Het; [destruct Hy|]. cbn [alts_red]. destruct Hy as [->|Hy].
  - rewrite Er, N.eqb_refl. cbn [alt_anchors]. rewrite (anchor_build _ Het). now left.
  - specialize (IH y Hy Er Het). destruct (item_redef x) as [u'|]; [|exact IH]. destruct (N.eqb u u'); [|exact IH].
    cbn [alt_anchors]. apply in_or_app. now right.
Qed.

Lemma redef_plain : forall tg ks seen, (forall y, in_kids y ks -> redef_ok (build_alt y) = true) ->
  redef_props seen (plain (kid_alts tg ks)) = true.
Proof.
  induction ks as [|x xs IH]; intros seen H; [reflexivity|]. rewrite kid_alts_cons. cbn [plain].
  rewrite redef_props_plain_step by apply build_alt_plainish. rewrite (H x (or_introl eq_refl)). cbn [andb].
  apply IH. intros y Hy. apply H. now right.
Qed.

(* the children loop: every $ref placeholder names an alternative of an earlier REDEFINES-x entry *)
Lemma redef_assemble : forall e ks seen bases,
  unions_ok e bases ks = true ->
  (forall y, in_kids y ks -> redef_ok (build_alt y) = true) ->
  (forall y u, in_kids y ks -> item_redef y = Some u -> In u (map fst bases) -> In (KName (item_id y)) seen) ->
  redef_props seen (assemble_d ks) = true.
Proof.
  induction ks as [|x xs IH]; intros seen bases Hu Hk Hinv; [reflexivity|].
  cbn [unions_ok] in Hu. cbn [assemble_d].
  assert (Hkxs : forall y, in_kids y xs -> redef_ok (build_alt y) = true) by (intros y Hy; apply Hk; now right).
  destruct (item_redef x) as [u|] eqn:Er.
  - apply andb_true_iff in Hu. destruct Hu as [Hu Hxs]. apply andb_true_iff in Hu. destruct Hu as [_ Hf].
    destruct (find (fun p => N.eqb (fst p) u) bases) as [[u' ext]|] eqn:Ef; [|discriminate].
    destruct (find_fst_In u bases _ Ef) as [Hin Heq]. cbn [fst] in *. subst u'.
    cbn [redef_props]. rewrite (memk_true _ _ (Hinv x u (or_introl eq_refl) Er Hin)). cbn [andb].
    apply (IH seen bases Hxs Hkxs). intros y u0 Hy. apply Hinv. now right.
  - apply andb_true_iff in Hu. destruct Hu as [Hel Hxs].
    destruct (existsb (N.eqb (item_id x)) (redef_targets xs)) eqn:Ex.
    + rewrite orb_false_r in Hel. apply negb_true_iff in Hel.
      cbn [redef_props redef_alts]. rewrite (Hk x (or_introl eq_refl)), (redef_alts_red _ _ Hkxs). cbn [andb].
      set (seen' := alt_anchors (ACons (build_alt x) (alts_red (item_id x) xs)) ++ seen).
      assert (Hx : In (KName (item_id x)) seen').
      { unfold seen'. apply in_or_app. left. cbn [alt_anchors]. rewrite (anchor_build _ Hel). now left. }
      rewrite (memk_true _ _ Hx). cbn [andb].
      apply (IH seen' ((item_id x, extent e x) :: bases) Hxs Hkxs).
      intros y u0 Hy Ery Hin. cbn [map fst] in Hin. destruct Hin as [<-|Hin].
      * unfold seen'. apply in_or_app. left. cbn [alt_anchors]. apply in_or_app. right.
        apply alt_anchors_red; [exact Hy|exact Ery|].
        (* a redefiner is never an elementary table *)
        clear - Hxs Hy Ery. revert Hxs. generalize ((item_id x, extent e x) :: bases). induction xs as [|z zs IHz]; intros bs Hu; [destruct Hy|].
        cbn [unions_ok] in Hu. destruct Hy as [->|Hy].
        -- rewrite Ery in Hu. apply andb_true_iff in Hu. destruct Hu as [Hu _]. apply andb_true_iff in Hu. destruct Hu as [Hu _].
           now apply negb_true_iff in Hu.
        -- destruct (item_redef z); apply andb_true_iff in Hu; destruct Hu as [_ Hu]; eapply IHz; eauto.
      * unfold seen'. apply in_or_app. right. apply (Hinv y u0); [now right|exact Ery|exact Hin].
    + rewrite redef_props_plain_step by apply build_alt_plainish. rewrite (Hk x (or_introl eq_refl)). cbn [andb].
      apply (IH seen ((item_id x, extent e x) :: bases) Hxs Hkxs).
      intros y u0 Hy Ery Hin. cbn [map fst] in Hin. destruct Hin as [<-|Hin].
      * exfalso. pose proof (redef_targets_spec xs y (item_id x) Hy Ery) as Ht. apply existsb_eqb_In in Ht. congruence.
      * apply (Hinv y u0); [now right|exact Ery|exact Hin].
Qed.

Lemma redef_ok_build : forall e,
  (forall x, wf e x = true -> NoDup (ids x) -> redef_ok (build_alt x) = true) /\
  (forall ks, wf_kids e ks = true -> NoDup (ids_kids ks) -> forall y, in_kids y ks -> redef_ok (build_alt y) = true).
Proof.
  intros e. apply item_items_ind.
  - intros i sz oc rd Hw _. destruct oc as [|n|c]; [reflexivity|reflexivity|discriminate].
  - intros i oc rd ks IH Hw Hnd. cbn [wf item_oc] in Hw.
    apply andb_true_iff in Hw. destruct Hw as [Hoc Hw]. apply andb_true_iff in Hw. destruct Hw as [Hwk Hu].
    cbn [ids] in Hnd. assert (Hndk : NoDup (ids_kids ks)) by (inversion Hnd; assumption).
    specialize (IH Hwk Hndk).
    destruct oc as [|n|c]; [| |discriminate].
    + rewrite (build_group_once e) by assumption. cbn [redef_ok].
      apply (redef_assemble e ks [] [] Hu IH). intros y u _ _ [].
    + cbn [build_alt redef_ok]. apply redef_plain. exact IH.
  - intros _ _ y [].
  - intros x IHx xs IHxs Hw Hnd y Hy. cbn [wf_kids] in Hw. apply andb_true_iff in Hw. destruct Hw as [Hwx Hwxs].
    cbn [ids_kids] in Hnd. destruct Hy as [->|Hy].
    + apply IHx; [exact Hwx|apply NoDup_app_l in Hnd; exact Hnd].
    + apply IHxs; [exact Hwxs|apply NoDup_app_r in Hnd; exact Hnd|exact Hy].
Qed.


Lemma K_redef : forall l i, In (KRedef i) (K l) <-> In i l.
Proof.
  intros l i. unfold K. rewrite in_app_iff, !in_map_iff. split.
  - intros [(x & E & H)|(x & E & H)]; [discriminate|injection E as ->; exact H].
  - intros H. right. exists i. split; [reflexivity|exact H].
Qed.

Lemma K_disj : forall a b k, NoDup (a ++ b) -> In k (K a) -> In k (K b) -> False.
Proof.
  intros a b [i|i] Hnd Ha Hb.
  - apply K_name in Ha. apply K_name in Hb. exact (NoDup_app_disj _ _ i Hnd Ha Hb).
  - apply K_redef in Ha. apply K_redef in Hb. exact (NoDup_app_disj _ _ i Hnd Ha Hb).
Qed.

Lemma nodup_app : forall {T} (a b : list T), NoDup a -> NoDup b -> (forall x, In x a -> In x b -> False) -> NoDup (a ++ b).
Proof.
  intros T a b Ha Hb Hd. induction Ha as [|x a Hx Ha IH]; [exact Hb|]. cbn [app]. constructor.
  - intros Hin. apply in_app_or in Hin. destruct Hin as [Hin|Hin]; [contradiction|]. apply (Hd x); [now left|exact Hin].
  - apply IH. intros y Hy. apply Hd. now right.
Qed.

Notation own y := (keys_js (build_alt y)).

Lemma keys_assemble_redefiner : forall x xs u, item_redef x = Some u ->
  keys_props (assemble_d (ICons x xs)) = keys_props (assemble_d xs).
Proof. intros x xs u H. cbn [assemble_d]. rewrite H. reflexivity. Qed.
Lemma keys_assemble_union : forall x xs, item_redef x = None -> existsb (N.eqb (item_id x)) (redef_targets xs) = true ->
  keys_props (assemble_d (ICons x xs)) =
  KRedef (item_id x) :: (own x ++ keys_alts (alts_red (item_id x) xs)) ++ keys_props (assemble_d xs).
Proof. intros x xs H1 H2. cbn [assemble_d]. rewrite H1, H2. reflexivity. Qed.
Lemma keys_assemble_plain : forall x xs, item_redef x = None -> existsb (N.eqb (item_id x)) (redef_targets xs) = false ->
  keys_props (assemble_d (ICons x xs)) = own x ++ keys_props (assemble_d xs).
Proof. intros x xs H1 H2. cbn [assemble_d]. rewrite H1, H2. reflexivity. Qed.

(* a key among the alternatives contributed by the redefiners of u belongs to one of them *)
Lemma alts_red_key : forall u xs k, In k (keys_alts (alts_red u xs)) ->
  exists y, in_kids y xs /\ item_redef y = Some u /\ In k (own y).
Proof.
  induction xs as [|x xs IH]; intros k H; [destruct H|]. cbn [alts_red] in H.
  destruct (item_redef x) as [u'|] eqn:Er.
  - destruct (N.eqb u u') eqn:E.
    + apply N.eqb_eq in E. subst u'. cbn [keys_alts] in H. apply in_app_or in H. destruct H as [H|H].
      * exists x. repeat split; [now left|exact Er|exact H].
      * destruct (IH k H) as [y [H1 [H2 H3]]]. exists y. repeat split; [now right|exact H2|exact H3].
    + destruct (IH k H) as [y [H1 [H2 H3]]]. exists y. repeat split; [now right|exact H2|exact H3].
  - destruct (IH k H) as [y [H1 [H2 H3]]]. exists y. repeat split; [now right|exact H2|exact H3].
Qed.

Lemma kids_share : forall xs y1 y2 i, in_kids y1 xs -> in_kids y2 xs -> In i (ids y1) -> In i (ids y2) ->
  NoDup (ids_kids xs) -> y1 = y2.
Proof.
  induction xs as [|x xs IH]; intros y1 y2 i H1 H2 I1 I2 Hnd; [destruct H1|]. cbn [ids_kids] in Hnd.
  destruct H1 as [->|H1], H2 as [->|H2].
  - reflexivity.
  - exfalso. apply (NoDup_app_disj _ _ i Hnd I1). eapply in_kids_ids_incl; eauto.
  - exfalso. apply (NoDup_app_disj _ _ i Hnd I2). eapply in_kids_ids_incl; eauto.
  - apply (IH y1 y2 i H1 H2 I1 I2). now apply NoDup_app_r in Hnd.
Qed.

Section ND.
  Variable e : env.

  Definition outer_free (B : list id) (k : key) (xs : items) : Prop :=
    exists y, in_kids y xs /\ (forall u, item_redef y = Some u -> ~ In u B) /\ In k (K (ids y)).

  (* a key of the flattened children loop belongs to a child that does not redefine an item outside the list *)
  Lemma assemble_key : forall xs bases,
    unions_ok e bases xs = true ->
    (forall y, in_kids y xs -> incl (own y) (K (ids y))) ->
    NoDup (kid_ids xs) ->
    (forall i, In i (map fst bases) -> ~ In i (kid_ids xs)) ->
    forall k, In k (keys_props (assemble_d xs)) -> outer_free (map fst bases) k xs.
  Proof.
    induction xs as [|x xs IH]; intros bases Hu Hk Hnd HB k H; [destruct H|].
    cbn [unions_ok] in Hu. cbn [kid_ids] in Hnd, HB. inversion Hnd as [|? ? Hxn Hndxs]; subst.
    assert (Hkxs : forall y, in_kids y xs -> incl (own y) (K (ids y))) by (intros y Hy; apply Hk; now right).
    assert (lift : forall B0, outer_free B0 k xs -> (forall i, In i (map fst bases) -> In i B0) -> outer_free (map fst bases) k (ICons x xs)).
    { intros B0 [y [H1 [H2 H3]]] Hsub. exists y. repeat split; [now right| |exact H3]. intros u Hr Hin. apply (H2 u Hr). auto. }
    assert (HBxs : forall i, In i (map fst bases) -> ~ In i (kid_ids xs)) by (intros i Hi Hin; apply (HB i Hi); now right).
    destruct (item_redef x) as [u|] eqn:Er.
    - apply andb_true_iff in Hu. destruct Hu as [_ Hxs]. rewrite (keys_assemble_redefiner x xs u Er) in H.
      apply (lift (map fst bases)); [|auto]. apply IH; auto.
    - apply andb_true_iff in Hu. destruct Hu as [_ Hxs].
      assert (Hx : In k (K (ids x)) -> outer_free (map fst bases) k (ICons x xs)).
      { intros Hin. exists x. repeat split; [now left| |exact Hin]. intros u Hr. congruence. }
      assert (Hrec : In k (keys_props (assemble_d xs)) -> outer_free (map fst bases) k (ICons x xs)).
      { intros H'. apply (lift (map fst ((item_id x, extent e x) :: bases))); [|intros i Hi; now right].
        apply IH; auto. intros i Hi. cbn [map fst] in Hi. destruct Hi as [<-|Hi]; [exact Hxn|now apply HBxs]. }
      destruct (existsb (N.eqb (item_id x)) (redef_targets xs)) eqn:Ex.
      + rewrite (keys_assemble_union x xs Er Ex) in H. destruct H as [<-|H].
        * apply Hx. apply K_redef. apply item_id_in_ids.
        * apply in_app_or in H. destruct H as [H|H]; [|now apply Hrec].
          apply in_app_or in H. destruct H as [H|H]; [apply Hx; apply (Hk x); [now left|exact H]|].
          destruct (alts_red_key _ _ _ H) as [y [H1 [H2 H3]]]. exists y. repeat split; [now right| |apply (Hkxs y H1); exact H3].
          intros u Hr. rewrite H2 in Hr. injection Hr as <-. intros Hin. apply (HB _ Hin). now left.
      + rewrite (keys_assemble_plain x xs Er Ex) in H. apply in_app_or in H. destruct H as [H|H]; [|now apply Hrec].
        apply Hx. apply (Hk x); [now left|exact H].
  Qed.

  Lemma nodup_alts_red : forall u xs,
    (forall y, in_kids y xs -> NoDup (own y)) -> (forall y, in_kids y xs -> incl (own y) (K (ids y))) ->
    NoDup (ids_kids xs) -> NoDup (keys_alts (alts_red u xs)).
  Proof.
    induction xs as [|x xs IH]; intros Hn Hk Hnd; [constructor|]. cbn [alts_red ids_kids] in *.
    assert (Hxs : NoDup (keys_alts (alts_red u xs))).
    { apply IH; [intros y Hy; apply Hn; now right|intros y Hy; apply Hk; now right|now apply NoDup_app_r in Hnd]. }
    destruct (item_redef x) as [u'|]; [|exact Hxs]. destruct (N.eqb u u'); [|exact Hxs].
    cbn [keys_alts]. apply nodup_app; [apply Hn; now left|exact Hxs|].
    intros k H1 H2. apply (K_disj _ _ k Hnd); [apply (Hk x); [now left|exact H1]|].
    apply (keys_alts_red u xs); [intros y Hy; apply Hk; now right|exact H2].
  Qed.

  Lemma nodup_plain : forall tg xs,
    (forall y, in_kids y xs -> NoDup (own y)) -> (forall y, in_kids y xs -> incl (own y) (K (ids y))) ->
    NoDup (ids_kids xs) -> NoDup (keys_props (plain (kid_alts tg xs))).
  Proof.
    induction xs as [|x xs IH]; intros Hn Hk Hnd; [constructor|]. rewrite kid_alts_cons. cbn [plain keys_props ids_kids] in *.
    apply nodup_app; [apply Hn; now left| |].
    - apply IH; [intros y Hy; apply Hn; now right|intros y Hy; apply Hk; now right|now apply NoDup_app_r in Hnd].
    - intros k H1 H2. apply (K_disj _ _ k Hnd); [apply (Hk x); [now left|exact H1]|].
      apply (keys_plain tg xs); [intros y Hy; apply Hk; now right|exact H2].
  Qed.

  Lemma nodup_assemble : forall xs bases,
    unions_ok e bases xs = true ->
    (forall y, in_kids y xs -> NoDup (own y)) ->
    (forall y, in_kids y xs -> incl (own y) (K (ids y))) ->
    (forall y, in_kids y xs -> ~ In (KRedef (item_id y)) (own y)) ->
    NoDup (ids_kids xs) ->
    (forall i, In i (map fst bases) -> ~ In i (kid_ids xs)) ->
    NoDup (keys_props (assemble_d xs)).
  Proof.
    induction xs as [|x xs IH]; intros bases Hu Hn Hk Hr Hnd HB; [constructor|].
    cbn [unions_ok] in Hu. pose proof (NoDup_ids_kid_ids _ Hnd) as Hndk. cbn [kid_ids] in Hndk, HB.
    inversion Hndk as [|? ? Hxn Hndkxs]; subst. cbn [ids_kids] in Hnd.
    assert (Hnxs : forall y, in_kids y xs -> NoDup (own y)) by (intros y Hy; apply Hn; now right).
    assert (Hkxs : forall y, in_kids y xs -> incl (own y) (K (ids y))) by (intros y Hy; apply Hk; now right).
    assert (Hrxs : forall y, in_kids y xs -> ~ In (KRedef (item_id y)) (own y)) by (intros y Hy; apply Hr; now right).
    assert (Hndxs : NoDup (ids_kids xs)) by (now apply NoDup_app_r in Hnd).
    assert (HBxs : forall i, In i (map fst bases) -> ~ In i (kid_ids xs)) by (intros i Hi Hin; apply (HB i Hi); now right).
    assert (Hkx : incl (own x) (K (ids x))) by (apply Hk; now left).
    assert (HAD : incl (keys_props (assemble_d xs)) (K (ids_kids xs))) by (apply keys_assemble_d; exact Hkxs).
    destruct (item_redef x) as [u|] eqn:Er.
    - apply andb_true_iff in Hu. destruct Hu as [_ Hxs]. rewrite (keys_assemble_redefiner x xs u Er). apply (IH bases); auto.
    - apply andb_true_iff in Hu. destruct Hu as [_ Hxs].
      assert (HB' : forall i, In i (map fst ((item_id x, extent e x) :: bases)) -> ~ In i (kid_ids xs)).
      { intros i Hi. cbn [map fst] in Hi. destruct Hi as [<-|Hi]; [exact Hxn|now apply HBxs]. }
      assert (Hrest : NoDup (keys_props (assemble_d xs))) by (apply (IH ((item_id x, extent e x) :: bases)); auto).
      assert (Hdx : forall k, In k (own x) -> In k (keys_props (assemble_d xs)) -> False).
      { intros k H1 H2. apply (K_disj _ _ k Hnd); [apply Hkx, H1|apply HAD, H2]. }
      destruct (existsb (N.eqb (item_id x)) (redef_targets xs)) eqn:Ex.
      + rewrite (keys_assemble_union x xs Er Ex).
        assert (HRA : incl (keys_alts (alts_red (item_id x) xs)) (K (ids_kids xs))) by (apply keys_alts_red; exact Hkxs).
        assert (Hxid : ~ In (item_id x) (ids_kids xs)).
        { intros Hin. exact (NoDup_app_disj _ _ _ Hnd (item_id_in_ids x) Hin). }
        constructor.
        * intros Hin. apply in_app_or in Hin. destruct Hin as [Hin|Hin].
          -- apply in_app_or in Hin. destruct Hin as [Hin|Hin]; [apply (Hr x); [now left|exact Hin]|].
             apply HRA in Hin. apply K_redef in Hin. contradiction.
          -- apply HAD in Hin. apply K_redef in Hin. contradiction.
        * apply nodup_app; [|exact Hrest|].
          -- apply nodup_app; [apply Hn; now left|apply nodup_alts_red; auto|].
             intros k H1 H2. apply (K_disj _ _ k Hnd); [apply Hkx, H1|apply HRA, H2].
          -- intros k H1 H2. apply in_app_or in H1. destruct H1 as [H1|H1]; [exact (Hdx k H1 H2)|].
             destruct (alts_red_key _ _ _ H1) as [y1 [A1 [A2 A3]]].
             destruct (assemble_key xs ((item_id x, extent e x) :: bases) Hxs Hkxs Hndkxs HB' k H2) as [y2 [B1 [B2 B3]]].
             apply (Hkxs y1 A1) in A3.
             assert (Hsame : y1 = y2).
             { destruct k as [i|i].
               - apply K_name in A3. apply K_name in B3. exact (kids_share xs y1 y2 i A1 B1 A3 B3 Hndxs).
               - apply K_redef in A3. apply K_redef in B3. exact (kids_share xs y1 y2 i A1 B1 A3 B3 Hndxs). }
             subst y2. apply (B2 _ A2). now left.
      + rewrite (keys_assemble_plain x xs Er Ex). apply nodup_app; [apply Hn; now left|exact Hrest|exact Hdx].
  Qed.

  (* KRedef i is registered by the parent of i, never inside the schema of i itself *)
  Lemma no_own_redef : forall x, wf e x = true -> NoDup (ids x) -> ~ In (KRedef (item_id x)) (own x).
  Proof.
    intros x Hw Hnd. destruct x as [i sz oc rd|i oc rd ks].
    - destruct oc as [|n|c]; cbn; intuition discriminate.
    - cbn [wf item_oc] in Hw. apply andb_true_iff in Hw. destruct Hw as [Hoc Hw]. apply andb_true_iff in Hw. destruct Hw as [Hwk Hu].
      cbn [ids] in Hnd. inversion Hnd as [|? ? Hi Hndk]; subst.
      assert (Hkids : forall y, in_kids y ks -> incl (own y) (K (ids y))) by (apply (proj2 (keys_build e)); assumption).
      destruct oc as [|n|c]; [| |discriminate]; cbn [item_id].
      + rewrite (build_group_once e) by assumption. cbn [keys_js js_anchor opt_list app]. intros [H|H]; [discriminate|].
        apply (keys_assemble_d ks Hkids) in H. apply K_redef in H. contradiction.
      + cbn [build_alt keys_js js_anchor opt_list app]. intros [H|H]; [discriminate|].
        apply (keys_plain [] ks Hkids) in H. apply K_redef in H. contradiction.
  Qed.

  Lemma nodup_build :
    (forall x, wf e x = true -> NoDup (ids x) -> NoDup (own x)) /\
    (forall ks, wf_kids e ks = true -> NoDup (ids_kids ks) -> forall y, in_kids y ks -> NoDup (own y)).
  Proof.
    apply item_items_ind.
    - intros i sz oc rd Hw _. destruct oc as [|n|c]; [| |discriminate]; cbn; repeat constructor; intuition.
    - intros i oc rd ks IH Hw Hnd. pose proof Hw as Hw0. cbn [wf item_oc] in Hw.
      apply andb_true_iff in Hw. destruct Hw as [Hoc Hw]. apply andb_true_iff in Hw. destruct Hw as [Hwk Hu].
      cbn [ids] in Hnd. inversion Hnd as [|? ? Hi Hndk]; subst. specialize (IH Hwk Hndk).
      assert (Hkids : forall y, in_kids y ks -> incl (own y) (K (ids y))) by (apply (proj2 (keys_build e)); assumption).
      destruct oc as [|n|c]; [| |discriminate].
      + rewrite (build_group_once e) by assumption. cbn [keys_js js_anchor opt_list app]. constructor.
        * intros H. apply (keys_assemble_d ks Hkids) in H. apply K_name in H. contradiction.
        * apply (nodup_assemble ks []); auto.
          intros y Hy. apply no_own_redef; [eapply wf_kids_in; eauto|eapply NoDup_ids_kid; eauto].
      + cbn [build_alt keys_js js_anchor opt_list app]. constructor.
        * intros H. apply (keys_plain [] ks Hkids) in H. apply K_name in H. contradiction.
        * apply nodup_plain; auto.
    - intros _ _ y [].
    - intros x IHx xs IHxs Hw Hnd y Hy. cbn [wf_kids] in Hw. apply andb_true_iff in Hw. destruct Hw as [Hwx Hwxs].
      cbn [ids_kids] in Hnd. destruct Hy as [->|Hy].
      + apply IHx; [exact Hwx|apply NoDup_app_l in Hnd; exact Hnd].
      + apply IHxs; [exact Hwxs|apply NoDup_app_r in Hnd; exact Hnd|exact Hy].
  Qed.
End ND.

Lemma nodupk_of_NoDup : forall l, NoDup l -> nodupk l = true.
Proof.
  induction l as [|k t IH]; intros H; [reflexivity|]. inversion H; subst. cbn [nodupk]. rewrite IH by assumption.
  rewrite andb_true_r. apply negb_true_iff. destruct (memk k t) eqn:E; [|reflexivity].
  unfold memk in E. apply existsb_exists in E. destruct E as [x [Hx Ex]].
  assert (k = x) by (destruct k, x; cbn in Ex; try discriminate; apply N.eqb_eq in Ex; now subst). subst. contradiction.
Qed.

(* what cobol_parser emits for a well-formed record description is cobol_like *)
Theorem cobol_like_build : forall e t, wf e t = true -> NoDup (ids t) -> cobol_like (build t) = true.
Proof.
  intros e t Hw Hnd. unfold cobol_like, build, uniq_keys. rewrite (proj1 (redef_ok_build e) t Hw Hnd). cbn [andb].
  apply nodupk_of_NoDup. rewrite (proj1 jkeys_keys_js). exact (proj1 (nodup_build e) t Hw Hnd).
Qed.


Lemma odo_free_alts_red : forall u xs, (forall y, in_kids y xs -> odo_free (build_alt y) = true) -> odo_free_alts (alts_red u xs) = true.
Proof.
  induction xs as [|x xs IH]; intros H; [reflexivity|]. cbn [alts_red].
  assert (Hxs : odo_free_alts (alts_red u xs) = true) by (apply IH; intros y Hy; apply H; now right).
  destruct (item_redef x) as [u'|]; [|exact Hxs]. destruct (N.eqb u u'); [|exact Hxs].
  cbn [odo_free_alts]. now rewrite (H x (or_introl eq_refl)).
Qed.

Lemma odo_free_plain : forall tg ks, (forall y, in_kids y ks -> odo_free (build_alt y) = true) -> odo_free_props (plain (kid_alts tg ks)) = true.
Proof.
  induction ks as [|x xs IH]; intros H; [reflexivity|]. rewrite kid_alts_cons. cbn [plain odo_free_props].
  rewrite (H x (or_introl eq_refl)). apply IH. intros y Hy. apply H. now right.
Qed.

Lemma odo_free_assemble : forall ks, (forall y, in_kids y ks -> odo_free (build_alt y) = true) -> odo_free_props (assemble_d ks) = true.
Proof.
  induction ks as [|x xs IH]; intros H; [reflexivity|].
  assert (Hxs : odo_free_props (assemble_d xs) = true) by (apply IH; intros y Hy; apply H; now right).
  cbn [assemble_d]. destruct (item_redef x) as [u|].
  - cbn [odo_free_props odo_free]. exact Hxs.
  - destruct (existsb (N.eqb (item_id x)) (redef_targets xs)).
    + cbn [odo_free_props odo_free odo_free_alts]. rewrite (H x (or_introl eq_refl)), odo_free_alts_red; [exact Hxs|].
      intros y Hy. apply H. now right.
    + cbn [odo_free_props]. now rewrite (H x (or_introl eq_refl)).
Qed.

Lemma odo_free_build : forall e,
  (forall x, wf e x = true -> NoDup (ids x) -> odo_free (build_alt x) = true) /\
  (forall ks, wf_kids e ks = true -> NoDup (ids_kids ks) -> forall y, in_kids y ks -> odo_free (build_alt y) = true).
Proof.
  intros e. apply item_items_ind.
  - intros i sz oc rd Hw _. destruct oc as [|n|c]; [reflexivity|reflexivity|discriminate].
  - intros i oc rd ks IH Hw Hnd. cbn [wf item_oc] in Hw.
    apply andb_true_iff in Hw. destruct Hw as [Hoc Hw]. apply andb_true_iff in Hw. destruct Hw as [Hwk Hu].
    cbn [ids] in Hnd. assert (Hndk : NoDup (ids_kids ks)) by (inversion Hnd; assumption).
    specialize (IH Hwk Hndk).
    destruct oc as [|n|c]; [| |discriminate].
    + rewrite (build_group_once e) by assumption. cbn [odo_free]. now apply odo_free_assemble.
    + cbn [build_alt odo_free]. now apply odo_free_plain.
  - intros _ _ y [].
  - intros x IHx xs IHxs Hw Hnd y Hy. cbn [wf_kids] in Hw. apply andb_true_iff in Hw. destruct Hw as [Hwx Hwxs].
    cbn [ids_kids] in Hnd. destruct Hy as [->|Hy].
    + apply IHx; [exact Hwx|apply NoDup_app_l in Hnd; exact Hnd].
    + apply IHxs; [exact Hwxs|apply NoDup_app_r in Hnd; exact Hnd|exact Hy].
Qed.

Section Cobol.
  Variable B : Type.
  Variable dcount : list B -> nat.
  Variable A : Type.
  Variable dec : option key -> list B -> res A.
  Variable r : list B.
  Variable e : env.

  Lemma J_cobol : forall t p v0 v, LayoutP.wf e t = true -> NoDup (ids t) ->
    vnav_of dcount r (build t) = Ok v0 -> vnav_path dcount r v0 p = Ok v -> J B dcount r v /\ ofree_nav v.
  Proof.
    intros t p v0 v Hw Hnd H0 Hp. split.
    - exact (J_path B dcount r p v0 v (J_of B dcount r _ v0 (cobol_like_build e t Hw Hnd) H0) Hp).
    - exact (ofree_path B dcount r p v0 v (ofree_of B dcount r _ v0 (proj1 (odo_free_build e) t Hw Hnd) H0) Hp).
  Qed.

  Theorem commute_index_cobol : forall t p v0 v st sz isz cnt it sch (xs : list (pv A)) i,
    LayoutP.wf e t = true -> NoDup (ids t) ->
    vnav_of dcount r (build t) = Ok v0 -> vnav_path dcount r v0 p = Ok v ->
    vn_loc v = WArr st sz isz cnt it sch ->
    vnav_value r dec v = Some (Ok (PList xs)) -> i < cnt ->
    exists v' x, vnav_index dcount r v i = Ok v' /\ nth_error xs i = Some x /\ vnav_value r dec v' = Some (Ok x).
  Proof.
    intros t p v0 v st sz isz cnt it sch xs i Hw Hnd H0 Hp Hl.
    destruct (J_cobol t p v0 v Hw Hnd H0 Hp) as [Hj [Ho _]].
    apply (commute_index_J B dcount A dec r v st sz isz cnt it sch xs i Hj Hl).
    rewrite Hl in Ho. cbn [ofree_loc] in Ho. apply andb_prop in Ho. exact (proj1 Ho).
  Qed.

  Theorem raw_name_cobol : forall t p v0 v v' k,
    LayoutP.wf e t = true -> NoDup (ids t) ->
    vnav_of dcount r (build t) = Ok v0 -> vnav_path dcount r v0 p = Ok v -> vnav_name v k = Ok v' ->
    wstart (vn_loc v) <= wstart (vn_loc v') /\ wend (vn_loc v') <= wend (vn_loc v) /\
    vnav_raw r v' = slice (vnav_raw r v) (wstart (vn_loc v') - wstart (vn_loc v)) (wend (vn_loc v') - wstart (vn_loc v)).
  Proof.
    intros t p v0 v v' k Hw Hnd H0 Hp Hn.
    destruct (name_inside_all B dcount r v k v' (proj1 (J_cobol t p v0 v Hw Hnd H0 Hp)) Hn) as [H1 H2].
    repeat split; try assumption. now apply raw_slice.
  Qed.

  Theorem raw_index_cobol : forall t p v0 v v' st sz isz cnt it sch i,
    LayoutP.wf e t = true -> NoDup (ids t) ->
    vnav_of dcount r (build t) = Ok v0 -> vnav_path dcount r v0 p = Ok v ->
    vn_loc v = WArr st sz isz cnt it sch -> vnav_index dcount r v i = Ok v' ->
    wstart (vn_loc v') = st + isz * i /\ wsize (vn_loc v') = isz /\
    vnav_raw r v' = slice (vnav_raw r v) (wstart (vn_loc v') - wstart (vn_loc v)) (wend (vn_loc v') - wstart (vn_loc v)).
  Proof.
    intros t p v0 v v' st sz isz cnt it sch i Hw Hnd H0 Hp Hl Hi.
    destruct (J_cobol t p v0 v Hw Hnd H0 Hp) as [[Hinv _] [Ho _]].
    rewrite Hl in Ho. cbn [ofree_loc] in Ho. apply andb_prop in Ho.
    destruct (index_inside B dcount r v st sz isz cnt it sch i v' Hinv Hl (proj1 Ho) Hi) as [H1 [H2 [H3 H4]]].
    repeat split; try assumption. now apply raw_slice.
  Qed.

  Theorem foot_inside_cobol : forall t p v0 v,
    LayoutP.wf e t = true -> NoDup (ids t) ->
    vnav_of dcount r (build t) = Ok v0 -> vnav_path dcount r v0 p = Ok v -> foot_inside v = true.
  Proof.
    intros t p v0 v Hw Hnd H0 Hp. exact (foot_inside_J B dcount r v (proj1 (J_cobol t p v0 v Hw Hnd H0 Hp))).
  Qed.

  Theorem lazy_cobol : forall (r' : list B) t p v0 v,
    LayoutP.wf e t = true -> NoDup (ids t) ->
    vnav_of dcount r (build t) = Ok v0 -> vnav_path dcount r v0 p = Ok v ->
    vnav_raw r v = vnav_raw r' v ->
    vnav_value r dec v = vnav_value r' dec v.
  Proof.
    intros r' t p v0 v Hw Hnd H0 Hp. apply (lazy_value B A dec). exact (foot_inside_cobol t p v0 v Hw Hnd H0 Hp).
  Qed.
End Cobol.
