(* Property C07, known finding 5, on the text-layer model (Model/RefFormat.v reference_format,
   dde_sentences, compact): the sentence pattern of dde_sentences ends a data description entry at
   the FIRST period that is followed by white space, wherever it stands - also inside a VALUE
   literal.  The entry then carries only the clause text before that period; the rest of the
   literal is dropped (the scan resumes behind it and finds the next two digits).

   sentence_cut     for every entry  d1 d2 blank a . w b  whose text a holds no period-white-space pair:
                    the first sentence returned is (d1 d2, a), whatever b is;
   refuted_5        the witness copybook, evaluated. *)
From Coq Require Import NArith List Bool Lia Arith.
Import ListNotations.
Require Import SR.Base.Res SR.Model.RefFormat SR.Spec.RefFormat SR.Proofs.RefFormatP.
(* The definitions of this development that occur in theorem statements (Props/) live in Spec/SentenceValueWitness.v (audit item G1).
   The abbreviations keep the qualified names SentenceValueP.name of other files resolving; they are parsing-only aliases. *)
Require Export SR.Spec.SentenceValueWitness.
Notation w5_line1 := SR.Spec.SentenceValueWitness.w5_line1 (only parsing).
Notation w5_line2 := SR.Spec.SentenceValueWitness.w5_line2 (only parsing).
Notation w5_line3 := SR.Spec.SentenceValueWitness.w5_line3 (only parsing).
Notation witness5 := SR.Spec.SentenceValueWitness.witness5 (only parsing).
Notation w5_written := SR.Spec.SentenceValueWitness.w5_written (only parsing).
Notation w5_got := SR.Spec.SentenceValueWitness.w5_got (only parsing).
Notation entry_texts := SR.Spec.SentenceValueWitness.entry_texts (only parsing).
Open Scope N_scope.

Lemma sentence_cut : forall (d1 d2 c : N) (a : line) (w : N) (b : line),
  is_digit d1 = true -> is_digit d2 = true -> is_ws c = false ->
  has_term (c :: a) = false -> is_ws w = true ->
  exists more, dde_sentences [[d1; d2; 32] ++ (c :: a) ++ 46 :: w :: b] = ([d1; d2], c :: a) :: more.
Proof.
  intros d1 d2 c a w b H1 H2 Hc Ha Hw. unfold dde_sentences. cbn [concat]. rewrite app_nil_r.
  cbn [app scan]. rewrite try_match_eq.
  rewrite lstrip_head by (apply digit_not_ws; exact H1). rewrite H1, H2. cbn [andb].
  change (lstrip (32 :: c :: a ++ 46 :: w :: b)) with (lstrip (c :: a ++ 46 :: w :: b)).
  rewrite lstrip_head by exact Hc.
  change (c :: a ++ 46 :: w :: b) with ((c :: a) ++ 46 :: w :: b).
  rewrite (find_term_body (c :: a) w b Ha Hw). eexists. reflexivity.
Qed.

Lemma refuted_5 :
  entry_texts witness5 = Ok [([48; 49], [82]); ([48; 53], w5_got); ([48; 53], [70; 76; 68; 45; 66; 32; 80; 73; 67; 32; 88])]
  /\ w5_got <> w5_written
  /\ (forall got, entry_texts witness5 = Ok got -> ~ In w5_written (map snd got)).
Proof.
  assert (E : entry_texts witness5 =
              Ok [([48; 49], [82]); ([48; 53], w5_got); ([48; 53], [70; 76; 68; 45; 66; 32; 80; 73; 67; 32; 88])])
    by (vm_compute; reflexivity).
  split; [exact E|]. split; [discriminate|].
  intros got Hg. rewrite E in Hg. inversion Hg; subst got. cbn [map snd In].
  intros [H|[H|[H|[]]]]; discriminate.
Qed.

(* non-vacuity of sentence_cut: the witness entry is an instance *)
Example sentence_cut_example :
  is_digit 48 = true /\ is_digit 53 = true /\ is_ws 70 = false /\ has_term w5_got = false /\ is_ws 32 = true
  /\ [48; 53; 32] ++ w5_got ++ 46 :: 32 :: [66; 39; 46; 10] = skipn 9 w5_line2.
Proof. repeat split. Qed.
