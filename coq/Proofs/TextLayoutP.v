(* Proofs for C07c / C12d: the documents Model/Pipeline.v computes from raw copybook text, read the way the loader and
   LocationMaker read them (Model/TextLayout.v layout_of_doc), ARE Model/Layout.v's build of the record description of the
   forest (item_of); hence C01c_layout / C06_layout / C01b_stored_is_read apply to the schema computed from the text, and two
   spellings of the same entries give the same layout.

   Plan
     0  the domains of the text theorems as booleans on the entries (text_layout_ok, text_values_ok: they use wf /
        siblings_distinct / anchored_names_unique of the layout proofs, so they live here and not in Model/TextLayout.v)
     1  name_id is injective; key_of is injective
     2  view_of on the document shapes doc_r emits (elementary, elementary table, group table, group, union, placeholder)
     3  the children loop: docs_kids_r (a left fold that inserts and later UPDATES the oneOf of a union) against Layout's
        assemble, through LayoutP.assemble_flat_gen (assemble = assemble_d, the direct description) and the generalised
        statement  view (docs_kids_r ks acc) = ext (view acc) ks ++ assemble_d ks
     4  the bridge theorem by mutual induction on xtree / xforest (documents_are_built_trees)
     5  composition with C07b_end_to_end and C01c_layout (text_documents_are_built, text_to_layout)
     6  respelling: xsim2 trees have the same item_of and the same bridge domain (respelling_layout, respelling_located)
     7  OCCURS DEPENDING ON: composition with C06_layout (text_to_layout_odo)
     8  values: composition with C01b_stored_is_read (text_to_values); the decoder of a kind is the decoder of the text
     9  respelling: the same decoders (the usage families of estruct.unpack), the same values (respelling_values) *)
From Coq Require Import NArith List Bool Arith Lia.
Import ListNotations.
Require Import SR.Base.Res.
Require SR.Model.Structure SR.Model.Picture SR.Model.Estruct SR.Model.JsonType SR.Gen.JsonTypeParams.
Require Import SR.Model.Pipeline SR.Spec.Copybook SR.Proofs.PipelineP.
Require Import SR.Spec.Layout SR.Model.Layout SR.Proofs.LayoutP SR.Proofs.LayoutNamesP.
Require Import SR.Model.TextLayout.
Require SR.Proofs.StructureP.

Local Notation str := SR.Model.Pipeline.str.
Local Notation jdoc := SR.Model.Pipeline.jdoc.
Local Notation DObj := SR.Model.Pipeline.JObj.
Local Notation DArr := SR.Model.Pipeline.JArr.
Local Notation DStr := SR.Model.Pipeline.JStr.
Local Notation DInt := SR.Model.Pipeline.JInt.
Local Notation str_eqb := SR.Model.Structure.str_eqb.
Local Notation RD := SR.Model.Structure.REDEFINES_dash.

(* ================================================================ 0. the domains of the text theorems (decidable, on the entries) *)
(* the hypotheses of C01c_layout on a record description *)
Definition record_wf (t : item) : bool :=
  wf no_counters t && siblings_distinct t && anchored_names_unique t.

(* everything C07c_text_to_layout needs besides copybook_ok, as one boolean on the entries *)
Definition text_layout_ok (es : list centry) : bool :=
  bridge_domain es
  && match forest_of_entries es with Some xf => forallb (fun t => record_wf (item_of t)) xf | None => false end.

(* ... and what C07c_text_to_values needs: every elementary item has a kind, and all names of the record differ (the decoders are
   indexed by name) *)
Definition text_values_ok (es : list centry) : bool :=
  text_layout_ok es
  && match forest_of_entries es with
     | Some xf => forallb (fun t => kinds_defined t && nodupb (ids (item_of t))) xf
     | None => false
     end.

(* ================================================================ 1. names *)
Lemma shl_inj : forall c d a b, shl c (xI a) = shl d (xI b) -> c = d /\ a = b.
Proof.
  induction c as [|c IH]; intros [|d] a b H; cbn [shl] in H.
  - injection H as <-. split; reflexivity.
  - discriminate.
  - discriminate.
  - injection H as H. destruct (IH d a b H) as [-> ->]. split; reflexivity.
Qed.

Lemma shl_not_xH : forall c a, shl c (xI a) <> xH.
Proof. intros [|c] a H; cbn [shl] in H; discriminate. Qed.

Lemma name_pos_inj : forall s s', name_pos s = name_pos s' -> s = s'.
Proof.
  induction s as [|c s IH]; intros [|c' s'] H; cbn [name_pos] in H.
  - reflexivity.
  - symmetry in H. apply shl_not_xH in H. contradiction.
  - apply shl_not_xH in H. contradiction.
  - apply shl_inj in H. destruct H as [Hc Hs]. apply N2Nat.inj in Hc. subst c'. rewrite (IH s' Hs). reflexivity.
Qed.

Theorem name_id_inj : forall s s', name_id s = name_id s' -> s = s'.
Proof. intros s s' H. unfold name_id in H. injection H as H. apply name_pos_inj. exact H. Qed.

Lemma is_pre_split : forall p s, is_pre p s = true -> s = p ++ skipn (length p) s.
Proof.
  induction p as [|x p IH]; intros s H; [reflexivity|]. destruct s as [|y s]; cbn [is_pre] in H; [discriminate|].
  apply andb_true_iff in H as [H1 H2]. apply N.eqb_eq in H1. subst y. cbn [length skipn app]. rewrite <- (IH s H2). reflexivity.
Qed.

Lemma is_pre_app : forall p s, is_pre p (p ++ s) = true.
Proof. induction p as [|x p IH]; intros s; [reflexivity|]. cbn [app is_pre]. rewrite N.eqb_refl. apply IH. Qed.

Lemma skipn_app_len : forall (p s : str), skipn (length p) (p ++ s) = s.
Proof. induction p as [|x p IH]; intros s; [reflexivity|]. cbn [length app skipn]. apply IH. Qed.

Theorem key_of_inj : forall a b, key_of a = key_of b -> a = b.
Proof.
  intros a b H. unfold key_of in H. destruct (is_pre RD a) eqn:Pa, (is_pre RD b) eqn:Pb; try discriminate.
  - assert (E : name_id (skipn (length RD) a) = name_id (skipn (length RD) b)) by (injection H as H; unfold name_id; f_equal; exact H).
    apply name_id_inj in E. pose proof (is_pre_split _ _ Pa) as Ea. pose proof (is_pre_split _ _ Pb) as Eb. congruence.
  - assert (E : name_id a = name_id b) by (injection H as H; unfold name_id; f_equal; exact H).
    apply name_id_inj. exact E.
Qed.

Lemma key_of_name : forall s, is_pre RD s = false -> key_of s = KName (name_id s).
Proof. intros s H. unfold key_of. rewrite H. reflexivity. Qed.

Lemma key_of_redef : forall t, key_of (redef_key t) = KRedef (name_id t).
Proof. intros t. unfold key_of, redef_key. rewrite is_pre_app, skipn_app_len. reflexivity. Qed.

Lemma str_eqb_false : forall a b, a <> b -> str_eqb a b = false.
Proof. intros a b H. destruct (str_eqb a b) eqn:E; [|reflexivity]. apply SR.Proofs.StructureP.str_eqb_eq in E. contradiction. Qed.

Lemma existsb_str_In : forall k l, existsb (str_eqb k) l = true <-> In k l.
Proof.
  intros k l. rewrite existsb_exists. split.
  - intros (x & I & E). apply SR.Proofs.StructureP.str_eqb_eq in E. subst. exact I.
  - intros I. exists k. split; [exact I|apply SR.Proofs.StructureP.str_eqb_refl].
Qed.

Lemma existsb_str_notin : forall k l, existsb (str_eqb k) l = false <-> ~ In k l.
Proof.
  intros k l. split.
  - intros H I. apply existsb_str_In in I. congruence.
  - intros H. destruct (existsb (str_eqb k) l) eqn:E; [|reflexivity]. apply existsb_str_In in E. contradiction.
Qed.

Lemma existsb_name_id : forall k l, existsb (N.eqb (name_id k)) (map name_id l) = existsb (str_eqb k) l.
Proof.
  intros k. induction l as [|x l IH]; [reflexivity|]. cbn [map existsb]. rewrite IH. f_equal.
  destruct (str_eqb k x) eqn:E.
  - apply SR.Proofs.StructureP.str_eqb_eq in E. subst. apply N.eqb_refl.
  - apply N.eqb_neq. intros H. apply name_id_inj in H. subst. rewrite SR.Proofs.StructureP.str_eqb_refl in E. discriminate.
Qed.

Lemma nodup_strs_NoDup : forall l, nodup_strs l = true -> NoDup l.
Proof.
  induction l as [|a l IH]; intros H; [constructor|]. cbn [nodup_strs] in H. apply andb_true_iff in H as [H1 H2].
  apply negb_true_iff in H1. constructor; [apply existsb_str_notin; exact H1|apply IH; exact H2].
Qed.

(* ================================================================ 2. views of the emitted shapes *)
Definition subs (kvs : list (str * jdoc)) : list (str * view) := map (fun kv => (fst kv, view_of (snd kv))) kvs.

Lemma view_obj : forall kvs, view_of (DObj kvs) = mkview (schema_view kvs (subs kvs)) (props_view (subs kvs)) None.
Proof. reflexivity. Qed.

Lemma view_arr : forall l, view_of (DArr l) = mkview None None (alts_view (map view_of l)).
Proof. reflexivity. Qed.

Lemma sfind_subs : forall key kvs, sfind key (subs kvs) = option_map view_of (jfind key kvs).
Proof.
  intros key. induction kvs as [|[k v] kvs IH]; [reflexivity|]. unfold subs in *. cbn [map fst snd sfind jfind].
  destruct (str_eqb k key); [reflexivity|exact IH].
Qed.

Lemma subs_app : forall a b, subs (a ++ b) = subs a ++ subs b.
Proof. intros. apply map_app. Qed.

(* ---- append on the trees of Model/Layout.v ---- *)
Fixpoint papp (a b : props) : props := match a with PNil => b | PCons k s r => PCons k s (papp r b) end.
Fixpoint aapp (a b : jalts) : jalts := match a with ANil => b | ACons s r => ACons s (aapp r b) end.

Lemma papp_nil : forall a, papp a PNil = a.
Proof. induction a as [|k s r IH]; [reflexivity|]. cbn [papp]. rewrite IH. reflexivity. Qed.
Lemma papp_assoc : forall a b c, papp (papp a b) c = papp a (papp b c).
Proof. induction a as [|k s r IH]; intros; [reflexivity|]. cbn [papp]. rewrite IH. reflexivity. Qed.
Lemma aapp_nil : forall a, aapp a ANil = a.
Proof. induction a as [|s r IH]; [reflexivity|]. cbn [aapp]. rewrite IH. reflexivity. Qed.
Lemma aapp_assoc : forall a b c, aapp (aapp a b) c = aapp a (aapp b c).
Proof. induction a as [|s r IH]; intros; [reflexivity|]. cbn [aapp]. rewrite IH. reflexivity. Qed.

Lemma props_view_app : forall a b P Q, props_view a = Some P -> props_view b = Some Q -> props_view (a ++ b) = Some (papp P Q).
Proof.
  induction a as [|[k v] a IH]; intros b P Q HP HQ; cbn [props_view app] in *.
  - injection HP as <-. exact HQ.
  - destruct (v_js v) as [s|]; [|discriminate]. destruct (props_view a) as [P1|]; [|discriminate]. injection HP as <-.
    rewrite (IH b P1 Q eq_refl HQ). reflexivity.
Qed.

Lemma props_view_split : forall a b R, props_view (a ++ b) = Some R ->
  exists P Q, props_view a = Some P /\ props_view b = Some Q /\ R = papp P Q.
Proof.
  induction a as [|[k v] a IH]; intros b R H; cbn [props_view app] in *.
  - exists PNil, R. repeat split. exact H.
  - destruct (v_js v) as [s|]; [|discriminate]. destruct (props_view (a ++ b)) as [R1|] eqn:E; [|discriminate]. injection H as <-.
    destruct (IH b R1 E) as (P & Q & HP & HQ & ->). rewrite HP. exists (PCons (key_of k) s P), Q. repeat split. exact HQ.
Qed.

Lemma alts_view_app : forall a b A B, alts_view a = Some A -> alts_view b = Some B -> alts_view (a ++ b) = Some (aapp A B).
Proof.
  induction a as [|v a IH]; intros b A B HA HB; cbn [alts_view app] in *.
  - injection HA as <-. exact HB.
  - destruct (v_js v) as [s|]; [|discriminate]. destruct (alts_view a) as [A1|]; [|discriminate]. injection HA as <-.
    rewrite (IH b A1 B eq_refl HB). reflexivity.
Qed.

(* ---- json_type: the keyword lists it can emit, by computation from Gen/JsonTypeParams.v ---- *)
Definition triple_kvs (k : N * N * N) : R (list (str * str)) :=
  match k with (t, e, c) => rbind (type_kv t) (fun a => rbind (enc_kv e) (fun b => rbind (conv_kv c) (fun d => ROk (a ++ b ++ d)))) end.

Definition jt_candidates : list (N * N * N) :=
  SR.Gen.JsonTypeParams.jt_out_numeric :: SR.Gen.JsonTypeParams.jt_out_text :: map snd SR.Gen.JsonTypeParams.jt_branches.

Lemma chain_in : forall u bs k, SR.Model.JsonType.chain u bs = Ok k -> In k (map snd bs).
Proof.
  intros u. induction bs as [|[names out] bs IH]; intros k H; cbn [SR.Model.JsonType.chain] in H; [discriminate|].
  cbn [map snd]. destruct (SR.Model.Estruct.mem u names); [injection H as <-; left; reflexivity|right; apply IH; exact H].
Qed.

Lemma json_type_in : forall u txt k, SR.Model.JsonType.json_type u txt = Ok k -> In k jt_candidates.
Proof.
  intros u txt k H. unfold SR.Model.JsonType.json_type in H. unfold jt_candidates.
  destruct (SR.Model.Estruct.mem u SR.Gen.JsonTypeParams.jt_display).
  - injection H as <-. destruct (SR.Model.JsonType.numeric_text _ _ _); [left; reflexivity|right; left; reflexivity].
  - right. right. apply (chain_in u). exact H.
Qed.

Lemma json_type_kvs_in : forall x jt, json_type_kvs x = ROk jt -> exists k, In k jt_candidates /\ triple_kvs k = ROk jt.
Proof.
  intros x jt H. unfold json_type_kvs in H.
  destruct (SR.Model.JsonType.json_type (usage_number x) _) as [k|ex] eqn:E; [|discriminate].
  exists k. split; [apply (json_type_in _ _ _ E)|]. destruct k as [[t e] c]. exact H.
Qed.

(* the type keyword json_type emits is never array or object: the object stays atomic for the loader *)
Definition jt_atomic (jt : list (str * str)) : bool :=
  match jfind k_type (jstrs jt) with
  | Some (DStr ty) => negb (str_eqb ty v_array) && negb (str_eqb ty v_object)
  | Some _ => false
  | None => true
  end.

Lemma jt_candidates_atomic : forallb (fun k => match triple_kvs k with ROk jt => jt_atomic jt | _ => true end) jt_candidates = true.
Proof. vm_compute. reflexivity. Qed.

Lemma json_type_atomic : forall x jt, json_type_kvs x = ROk jt -> jt_atomic jt = true.
Proof.
  intros x jt H. destruct (json_type_kvs_in x jt H) as (k & I & E).
  pose proof jt_candidates_atomic as F. rewrite forallb_forall in F. specialize (F k I). rewrite E in F. exact F.
Qed.

(* ---- jfind through the keyword lists ---- *)
Lemma jfind_jstrs_jt : forall key jt, jt_ok jt = true -> jt_key key = false -> jfind key (jstrs jt) = None.
Proof.
  intros key jt J K. pose proof (jfind_jt key jt [] J K) as H. rewrite app_nil_r in H. exact H.
Qed.

Lemma jfind_app : forall key (a b : list (str * jdoc)),
  jfind key (a ++ b) = match jfind key a with Some v => Some v | None => jfind key b end.
Proof.
  intros key. induction a as [|[k v] a IH]; intros b; [reflexivity|]. cbn [app jfind]. destruct (str_eqb k key); [reflexivity|apply IH].
Qed.

(* the schema view, with the sub-views looked up through the document *)
Lemma schema_view_subs : forall kvs, schema_view kvs (subs kvs) =
  match jfind k_ref kvs with
  | Some (DStr (h :: tgt)) => if (h =? 35)%N then Some (JRef (key_of tgt)) else None
  | Some _ => None
  | None =>
      match jfind k_oneOf kvs with
      | Some d => option_map (JOne (anchor_view kvs)) (v_alts (view_of d))
      | None =>
          match jfind k_type kvs with
          | Some (DStr ty) =>
              if str_eqb ty v_array then array_view kvs (subs kvs)
              else if str_eqb ty v_object then
                match jfind k_properties kvs with
                | Some d => option_map (Layout.JObj (anchor_view kvs)) (v_props (view_of d))
                | None => None
                end
              else atom_view kvs
          | _ => atom_view kvs
          end
      end
  end.
Proof.
  intros kvs. unfold schema_view. rewrite !sfind_subs.
  destruct (jfind k_ref kvs) as [[?|?|?|?]|]; try reflexivity.
  destruct (jfind k_oneOf kvs); cbn [option_map]; [reflexivity|].
  destruct (jfind k_type kvs) as [[ty|?|?|?]|]; try reflexivity.
  destruct (str_eqb ty v_array); [reflexivity|]. destruct (str_eqb ty v_object); [|reflexivity].
  destruct (jfind k_properties kvs); reflexivity.
Qed.

(* ---- the shapes ---- *)
Lemma view_placeholder : forall k, v_js (view_of (placeholder k)) = Some (JRef (key_of (xuname k))).
Proof. intros k. reflexivity. Qed.

Definition oneof_obj (key : str) (l : list jdoc) : jdoc := DObj [(k_oneOf, DArr l); (k_anchor, DStr key)].

Lemma view_oneof_eq : forall key l,
  v_js (view_of (oneof_obj key l)) = option_map (JOne (Some (key_of key))) (alts_view (map view_of l)).
Proof.
  intros key l. unfold oneof_obj. rewrite view_obj. cbn [v_js]. rewrite schema_view_subs.
  change (jfind k_ref [(k_oneOf, DArr l); (k_anchor, DStr key)]) with (@None jdoc).
  change (jfind k_oneOf [(k_oneOf, DArr l); (k_anchor, DStr key)]) with (Some (DArr l)).
  cbv iota. rewrite view_arr. cbn [v_alts]. reflexivity.
Qed.

Lemma view_oneof : forall key l A, alts_view (map view_of l) = Some A ->
  v_js (view_of (oneof_obj key l)) = Some (JOne (Some (key_of key)) A).
Proof. intros key l A H. rewrite view_oneof_eq, H. reflexivity. Qed.

(* an elementary item's object: header, the keywords of json_type, then whatever follows (the lengths, or nothing) *)
Lemma view_atom_obj : forall hd un cobol jt tl n,
  jt_ok jt = true -> jt_atomic jt = true -> calcsize_text cobol = ROk n ->
  jfind k_ref (jstrs hd) = None -> jfind k_oneOf (jstrs hd) = None -> jfind k_type (jstrs hd) = None ->
  jfind k_anchor (jstrs hd) = Some (DStr un) -> jfind k_cobol (jstrs hd) = Some (DStr cobol) ->
  jfind k_ref tl = None -> jfind k_oneOf tl = None -> jfind k_type tl = None ->
  v_js (view_of (DObj (jstrs (hd ++ jt) ++ tl))) = Some (JAtom (Some (key_of un)) (N.to_nat n)).
Proof.
  intros hd un cobol jt tl n J A C H1 H2 H3 H4 H5 T1 T2 T3.
  rewrite view_obj. cbn [v_js]. rewrite schema_view_subs. rewrite jstrs_app, <- app_assoc.
  assert (F : forall key, jt_key key = false -> jfind key (jstrs hd ++ jstrs jt ++ tl)
                                           = match jfind key (jstrs hd) with Some v => Some v | None => jfind key tl end).
  { intros key K. rewrite jfind_app. destruct (jfind key (jstrs hd)); [reflexivity|]. rewrite jfind_app, (jfind_jstrs_jt key jt J K). reflexivity. }
  rewrite (F k_ref eq_refl), H1, T1. rewrite (F k_oneOf eq_refl), H2, T2.
  assert (AT : atom_view (jstrs hd ++ jstrs jt ++ tl) = Some (JAtom (Some (key_of un)) (N.to_nat n))).
  { unfold atom_view, anchor_view. rewrite (F k_cobol eq_refl), H5, (F k_anchor eq_refl), H4, C. reflexivity. }
  rewrite jfind_app, H3, jfind_app. unfold jt_atomic in A.
  destruct (jfind k_type (jstrs jt)) as [[ty|?|?|?]|]; try discriminate.
  - apply andb_true_iff in A as [A1 A2]. apply negb_true_iff in A1. apply negb_true_iff in A2. rewrite A1, A2. exact AT.
  - rewrite T3. exact AT.
Qed.

Lemma view_elem : forall name un cobol jt n, jt_ok jt = true -> jt_atomic jt = true -> calcsize_text cobol = ROk n ->
  v_js (view_of (DObj (jstrs ([(k_title, name); (k_anchor, un); (k_cobol, cobol)] ++ jt) ++ [(k_maxLength, DInt n); (k_minLength, DInt n)])))
  = Some (JAtom (Some (key_of un)) (N.to_nat n)).
Proof. intros name un cobol jt n J A C. apply (view_atom_obj [(k_title, name); (k_anchor, un); (k_cobol, cobol)] un cobol jt _ n J A C); reflexivity. Qed.

Lemma view_inner : forall un cobol jt n, jt_ok jt = true -> jt_atomic jt = true -> calcsize_text cobol = ROk n ->
  v_js (view_of (DObj (jstrs ([(k_anchor, un); (k_cobol, cobol)] ++ jt)))) = Some (JAtom (Some (key_of un)) (N.to_nat n)).
Proof.
  intros un cobol jt n J A C. rewrite <- (app_nil_r (jstrs _)).
  apply (view_atom_obj [(k_anchor, un); (k_cobol, cobol)] un cobol jt [] n J A C); reflexivity.
Qed.

(* OCCURS n / OCCURS DEPENDING ON c over the schema of one occurrence *)
Definition arr_js (a : option key) (o : occ) (its : js) : js :=
  match o with Times n => Layout.JArr a n its | Odo c => JOdo a c its | Once => its end.

Lemma max_items_cases : forall x mx, max_items_doc x = ROk mx ->
  (exists dep, mx = (k_maxItemsDependsOn, DObj [(k_ref, DStr (35%N :: dep))]) /\ occ_of x = Odo (name_id dep))
  \/ (exists c, mx = (k_maxItems, DInt c) /\ occ_of x = Times (N.to_nat c)).
Proof.
  intros x mx H. unfold max_items_doc in H. unfold occ_of. destruct (i_dep x) as [dep|].
  - injection H as <-. left. exists dep. split; reflexivity.
  - destruct (i_occ x) as [ds|]; [|discriminate]. injection H as <-. right. eexists. split; reflexivity.
Qed.

Lemma view_items : forall props P, props_view (subs props) = Some P ->
  v_js (view_of (DObj [(k_type, DStr v_object); (k_properties, DObj props)])) = Some (Layout.JObj None P).
Proof.
  intros props P H. rewrite view_obj. cbn [v_js]. rewrite schema_view_subs.
  change (jfind k_ref [(k_type, DStr v_object); (k_properties, DObj props)]) with (@None jdoc).
  change (jfind k_oneOf [(k_type, DStr v_object); (k_properties, DObj props)]) with (@None jdoc).
  change (jfind k_type [(k_type, DStr v_object); (k_properties, DObj props)]) with (Some (DStr v_object)).
  change (str_eqb v_object v_array) with false. change (str_eqb v_object v_object) with true. cbv iota.
  change (jfind k_properties [(k_type, DStr v_object); (k_properties, DObj props)]) with (Some (DObj props)).
  cbv iota. rewrite view_obj. cbn [v_props]. rewrite H. reflexivity.
Qed.

Lemma view_array : forall name cobol items mx x tl its,
  max_items_doc x = ROk mx -> v_js (view_of items) = Some its ->
  jfind k_ref tl = None -> jfind k_oneOf tl = None -> jfind k_maxItemsDependsOn tl = None -> jfind k_maxItems tl = None ->
  v_js (view_of (DObj (jstrs [(k_title, name); (k_cobol, cobol); (k_type, v_array)] ++ (k_items, items) :: mx :: tl)))
  = Some (arr_js (anchor_view tl) (occ_of x) its).
Proof.
  intros name cobol items mx x tl its M I T1 T2 T3 T4.
  rewrite view_obj. cbn [v_js]. rewrite schema_view_subs.
  destruct (max_items_cases x mx M) as [(dep & -> & ->)|(c & -> & ->)].
  - assert (AV : anchor_view (jstrs [(k_title, name); (k_cobol, cobol); (k_type, v_array)] ++ (k_items, items)
                              :: (k_maxItemsDependsOn, DObj [(k_ref, DStr (35%N :: dep))]) :: tl) = anchor_view tl) by reflexivity.
    rewrite AV. clear AV.
    cbn [jstrs map fst snd app jfind]. change (str_eqb k_title k_ref) with false. change (str_eqb k_cobol k_ref) with false.
    change (str_eqb k_type k_ref) with false. change (str_eqb k_items k_ref) with false. change (str_eqb k_maxItemsDependsOn k_ref) with false.
    cbv iota. rewrite T1.
    change (str_eqb k_title k_oneOf) with false. change (str_eqb k_cobol k_oneOf) with false.
    change (str_eqb k_type k_oneOf) with false. change (str_eqb k_items k_oneOf) with false. change (str_eqb k_maxItemsDependsOn k_oneOf) with false.
    cbv iota. rewrite T2.
    change (str_eqb k_title k_type) with false. change (str_eqb k_cobol k_type) with false. change (str_eqb k_type k_type) with true.
    cbv iota. change (str_eqb v_array v_array) with true. cbv iota.
    unfold array_view. rewrite sfind_subs. cbn [jfind].
    change (str_eqb k_title k_items) with false. change (str_eqb k_cobol k_items) with false. change (str_eqb k_type k_items) with false.
    change (str_eqb k_items k_items) with true. cbv iota. cbn [option_map]. rewrite I.
    change (str_eqb k_title k_maxItemsDependsOn) with false. change (str_eqb k_cobol k_maxItemsDependsOn) with false.
    change (str_eqb k_type k_maxItemsDependsOn) with false. change (str_eqb k_items k_maxItemsDependsOn) with false.
    change (str_eqb k_maxItemsDependsOn k_maxItemsDependsOn) with true. cbv iota.
    change (str_eqb k_ref k_ref) with true. change (35 =? 35)%N with true. reflexivity.
  - assert (AV : anchor_view (jstrs [(k_title, name); (k_cobol, cobol); (k_type, v_array)] ++ (k_items, items)
                              :: (k_maxItems, DInt c) :: tl) = anchor_view tl) by reflexivity.
    rewrite AV. clear AV.
    cbn [jstrs map fst snd app jfind]. change (str_eqb k_title k_ref) with false. change (str_eqb k_cobol k_ref) with false.
    change (str_eqb k_type k_ref) with false. change (str_eqb k_items k_ref) with false. change (str_eqb k_maxItems k_ref) with false.
    cbv iota. rewrite T1.
    change (str_eqb k_title k_oneOf) with false. change (str_eqb k_cobol k_oneOf) with false.
    change (str_eqb k_type k_oneOf) with false. change (str_eqb k_items k_oneOf) with false. change (str_eqb k_maxItems k_oneOf) with false.
    cbv iota. rewrite T2.
    change (str_eqb k_title k_type) with false. change (str_eqb k_cobol k_type) with false. change (str_eqb k_type k_type) with true.
    cbv iota. change (str_eqb v_array v_array) with true. cbv iota.
    unfold array_view. rewrite sfind_subs. cbn [jfind].
    change (str_eqb k_title k_items) with false. change (str_eqb k_cobol k_items) with false. change (str_eqb k_type k_items) with false.
    change (str_eqb k_items k_items) with true. cbv iota. cbn [option_map]. rewrite I.
    change (str_eqb k_title k_maxItemsDependsOn) with false. change (str_eqb k_cobol k_maxItemsDependsOn) with false.
    change (str_eqb k_type k_maxItemsDependsOn) with false. change (str_eqb k_items k_maxItemsDependsOn) with false.
    change (str_eqb k_maxItems k_maxItemsDependsOn) with false. cbv iota. rewrite T3.
    change (str_eqb k_title k_maxItems) with false. change (str_eqb k_cobol k_maxItems) with false.
    change (str_eqb k_type k_maxItems) with false. change (str_eqb k_items k_maxItems) with false.
    change (str_eqb k_maxItems k_maxItems) with true. cbv iota. reflexivity.
Qed.

Lemma view_array_pic : forall name un cobol jt mx x n,
  jt_ok jt = true -> jt_atomic jt = true -> calcsize_text cobol = ROk n -> max_items_doc x = ROk mx ->
  v_js (view_of (DObj (jstrs [(k_title, name); (k_cobol, cobol); (k_type, v_array)]
                       ++ [(k_items, DObj [(k_type, DStr v_object);
                                           (k_properties, DObj [(un, DObj (jstrs ([(k_anchor, un); (k_cobol, cobol)] ++ jt)))])]);
                           mx])))
  = Some (arr_js None (occ_of x) (Layout.JObj None (PCons (key_of un) (JAtom (Some (key_of un)) (N.to_nat n)) PNil))).
Proof.
  intros name un cobol jt mx x n J A C M.
  apply (view_array name cobol _ mx x [] _ M); try reflexivity.
  apply view_items. unfold subs. cbn [map fst snd props_view]. rewrite (view_inner un cobol jt n J A C). reflexivity.
Qed.

Lemma view_array_group : forall name un cobol props mx x P,
  max_items_doc x = ROk mx -> props_view (subs props) = Some P ->
  v_js (view_of (DObj (jstrs [(k_title, name); (k_cobol, cobol); (k_type, v_array)]
                       ++ [(k_items, DObj [(k_type, DStr v_object); (k_properties, DObj props)]); mx; (k_anchor, DStr un)])))
  = Some (arr_js (Some (key_of un)) (occ_of x) (Layout.JObj None P)).
Proof.
  intros name un cobol props mx x P M H.
  apply (view_array name cobol _ mx x [(k_anchor, DStr un)] _ M); try reflexivity.
  apply view_items. exact H.
Qed.

Lemma view_group : forall name un cobol props P, props_view (subs props) = Some P ->
  v_js (view_of (DObj (jstrs [(k_title, name); (k_anchor, un); (k_cobol, cobol); (k_type, v_object)] ++ [(k_properties, DObj props)])))
  = Some (Layout.JObj (Some (key_of un)) P).
Proof.
  intros name un cobol props P H. rewrite view_obj. cbn [v_js]. rewrite schema_view_subs.
  set (kvs := jstrs [(k_title, name); (k_anchor, un); (k_cobol, cobol); (k_type, v_object)] ++ [(k_properties, DObj props)]).
  change (jfind k_ref kvs) with (@None jdoc). change (jfind k_oneOf kvs) with (@None jdoc).
  change (jfind k_type kvs) with (Some (DStr v_object)).
  change (str_eqb v_object v_array) with false. change (str_eqb v_object v_object) with true. cbv iota.
  change (jfind k_properties kvs) with (Some (DObj props)). cbv iota.
  change (anchor_view kvs) with (Some (key_of un)).
  rewrite view_obj. cbn [v_props]. rewrite H. reflexivity.
Qed.


(* ================================================================ 3. the children loops *)
Lemma subs_cons : forall k v a, subs ((k, v) :: a) = (k, view_of v) :: subs a.
Proof. reflexivity. Qed.

Fixpoint pkeys (P : props) : list key := match P with PNil => [] | PCons k _ r => k :: pkeys r end.

Lemma pkeys_view : forall a A, props_view (subs a) = Some A -> pkeys A = map key_of (map fst a).
Proof.
  induction a as [|[k v] a IH]; intros A H.
  - injection H as <-. reflexivity.
  - rewrite subs_cons in H. cbn [props_view] in H. destruct (v_js (view_of v)); [|discriminate].
    destruct (props_view (subs a)) as [A1|]; [|discriminate]. injection H as <-. cbn [pkeys map fst]. rewrite (IH A1 eq_refl). reflexivity.
Qed.

(* every union entry with the key of u gets more alternatives *)
Fixpoint add_alts (u : id) (extra : jalts) (P : props) : props :=
  match P with
  | PNil => PNil
  | PCons k s r =>
      PCons k (match k, s with
               | KRedef u', JOne a alts => if N.eqb u u' then JOne a (aapp alts extra) else s
               | _, _ => s
               end) (add_alts u extra r)
  end.

(* the properties built so far, after the children ks have added themselves to the unions they belong to *)
Fixpoint ext (P : props) (ks : items) : props :=
  match ks with
  | INil => P
  | ICons x xs => ext (match item_redef x with Some u => add_alts u (ACons (build_alt x) ANil) P | None => P end) xs
  end.

Lemma add_alts_papp : forall u e P Q, add_alts u e (papp P Q) = papp (add_alts u e P) (add_alts u e Q).
Proof. intros u e. induction P as [|k s r IH]; intros Q; [reflexivity|]. cbn [papp add_alts]. rewrite IH. reflexivity. Qed.

Lemma ext_papp : forall ks P Q, ext (papp P Q) ks = papp (ext P ks) (ext Q ks).
Proof.
  induction ks as [|x xs IH]; intros P Q; [reflexivity|]. cbn [ext]. destruct (item_redef x) as [u|]; [|apply IH].
  rewrite add_alts_papp. apply IH.
Qed.

Lemma add_alts_notin : forall u e P, ~ In (KRedef u) (pkeys P) -> add_alts u e P = P.
Proof.
  intros u e. induction P as [|k s r IH]; intros N; [reflexivity|]. cbn [pkeys In] in N. cbn [add_alts].
  rewrite IH by (intros I; apply N; right; exact I). f_equal.
  destruct k as [i|u']; [reflexivity|]. destruct s; try reflexivity.
  destruct (N.eqb u u') eqn:E; [|reflexivity]. apply N.eqb_eq in E. subst u'. exfalso. apply N. left. reflexivity.
Qed.

Lemma ext_name1 : forall ks i s, ext (PCons (KName i) s PNil) ks = PCons (KName i) s PNil.
Proof. induction ks as [|x xs IH]; intros i s; [reflexivity|]. cbn [ext]. destruct (item_redef x); cbn [add_alts]; apply IH. Qed.

Lemma ext_one1 : forall ks u a A,
  ext (PCons (KRedef u) (JOne a A) PNil) ks = PCons (KRedef u) (JOne a (aapp A (alts_red u ks))) PNil.
Proof.
  induction ks as [|x xs IH]; intros u a A; cbn [ext alts_red]; [rewrite aapp_nil; reflexivity|].
  destruct (item_redef x) as [u'|]; [|apply IH]. cbn [add_alts]. rewrite (N.eqb_sym u' u).
  destruct (N.eqb u u'); rewrite IH; [|reflexivity]. rewrite aapp_assoc. reflexivity.
Qed.

(* ---- the record description of a child ---- *)
Lemma item_id_of : forall k, item_id (item_of k) = name_id (xuname k).
Proof.
  intros [d b x kids]. cbn [item_of xuname xdde]. destruct (SR.Model.Structure.eocc _); [destruct (SR.Model.Structure.epic _); reflexivity|].
  destruct kids; reflexivity.
Qed.

Lemma item_redef_of : forall k, item_redef (item_of k) = option_map name_id (xredef k).
Proof.
  intros [d b x kids]. cbn [item_of xredef xdde]. unfold redef_of. destruct (SR.Model.Structure.eocc _); [destruct (SR.Model.Structure.epic _); reflexivity|].
  destruct kids; reflexivity.
Qed.

Lemma redef_targets_of : forall ks, redef_targets (items_of ks) = map name_id (xtargets ks).
Proof.
  induction ks as [|k r IH]; [reflexivity|]. cbn [items_of redef_targets xtargets]. rewrite item_redef_of, IH.
  destruct (xredef k); reflexivity.
Qed.

Lemma kid_ids_of : forall ks, kid_ids (items_of ks) = map name_id (xunames ks).
Proof. induction ks as [|k r IH]; [reflexivity|]. cbn [items_of kid_ids xunames map]. rewrite item_id_of, IH. reflexivity. Qed.

Lemma xeff_eq : forall k, xeff_redef k = if xbased k then Some (SR.Model.Structure.dde_name (SR.Model.Structure.de (xdde k))) else xredef k.
Proof. intros [d b x kids]. reflexivity. Qed.

Lemma bridge_ok_name : forall k, bridge_ok k = true -> is_pre RD (xuname k) = false.
Proof.
  intros [d b x kids] H. cbn [bridge_ok] in H. apply andb_true_iff in H as [H _]. apply negb_true_iff in H. exact H.
Qed.

Lemma key_not_name : forall n t, is_pre RD n = false -> n <> redef_key t.
Proof. intros n t H E. subst n. unfold redef_key in H. rewrite is_pre_app in H. discriminate. Qed.

Lemma redef_key_inj : forall a b, redef_key a = redef_key b -> a = b.
Proof. intros a b H. unfold redef_key in H. apply app_inv_head in H. exact H. Qed.

Lemma docs_kids_r_cons : forall k r acc, docs_kids_r (XCons k r) acc =
  match xeff_redef k with
  | None => rbind (doc_r k) (fun dk => docs_kids_r r (jset (xuname k) dk acc))
  | Some tgt =>
      let key := redef_key tgt in
      let acc1 := match jfind key acc with Some _ => acc | None => acc ++ [(key, oneof_new key)] end in
      rbind (doc_r k) (fun dk => rbind (oneof_add key dk acc1) (fun acc2 => docs_kids_r r (jset (xuname k) (placeholder k) acc2)))
  end.
Proof. reflexivity. Qed.

Lemma docs_kids_o_cons : forall k r acc, docs_kids_o (XCons k r) acc =
  match xeff_redef k with
  | Some _ => RErr KeyError
  | None => rbind (doc_r k) (fun dk => docs_kids_o r (jset (xuname k) dk acc))
  end.
Proof. reflexivity. Qed.

Lemma oneof_add_obj : forall key dk a1 l a2, ~ In key (map fst a1) ->
  oneof_add key dk (a1 ++ (key, oneof_obj key l) :: a2) = ROk (a1 ++ (key, oneof_obj key (l ++ [dk])) :: a2).
Proof.
  intros key dk a1 l a2 N. unfold oneof_add. rewrite (Redef.jfind_mid key _ a1 a2 N). unfold oneof_obj.
  change (jfind k_oneOf [(k_oneOf, DArr l); (k_anchor, DStr key)]) with (Some (DArr l)). cbv iota.
  rewrite (Redef.jset_mid key _ _ a1 a2 N). reflexivity.
Qed.

Lemma map_fst_mid : forall (a1 a2 : list (str * jdoc)) k v v', map fst (a1 ++ (k, v) :: a2) = map fst (a1 ++ (k, v') :: a2).
Proof. intros. rewrite !map_app. reflexivity. Qed.

Lemma notin_existsb : forall k (acc : list (str * jdoc)), ~ In k (map fst acc) -> existsb (str_eqb k) (map fst acc) = false.
Proof. intros k acc H. apply existsb_str_notin. exact H. Qed.

Lemma jfind_some_app : forall key (a b : list (str * jdoc)) v, jfind key a = Some v -> jfind key (a ++ b) = Some v.
Proof. intros key a b v H. rewrite jfind_app, H. reflexivity. Qed.

Lemma jfind_none_notin : forall key (a : list (str * jdoc)), ~ In key (map fst a) -> jfind key a = None.
Proof.
  intros key. induction a as [|[k v] a IH]; intros N; [reflexivity|]. cbn [jfind map fst In] in *.
  rewrite str_eqb_false by (intros E; apply N; left; exact E). apply IH. intros I. apply N. right. exact I.
Qed.

Definition Pt (t : xtree) : Prop :=
  bridge_ok t = true -> exists doc, doc_r t = ROk doc /\ v_js (view_of doc) = Some (build_alt (item_of t)).

Definition fresh (acc : list (str * jdoc)) (ks : xforest) : Prop :=
  forall n, In n (xunames ks) -> ~ In n (map fst acc) /\ ~ In (redef_key n) (map fst acc).

Definition Qr (ks : xforest) : Prop := forall bases acc P,
  bridge_ok_f ks = true -> kids_union_ok bases ks = true -> nodup_strs (xunames ks) = true ->
  NoDup (map fst acc) -> props_view (subs acc) = Some P ->
  (forall t, In t bases -> exists l, jfind (redef_key t) acc = Some (oneof_obj (redef_key t) l)) ->
  fresh acc ks ->
  exists props, docs_kids_r ks acc = ROk props
                /\ props_view (subs props) = Some (papp (ext P (items_of ks)) (assemble_d (items_of ks))).

Definition Qo (ks : xforest) : Prop := forall acc P,
  bridge_ok_f ks = true -> kids_plain ks = true -> nodup_strs (xunames ks) = true ->
  props_view (subs acc) = Some P -> (forall n, In n (xunames ks) -> ~ In n (map fst acc)) ->
  exists props, docs_kids_o ks acc = ROk props
                /\ props_view (subs props) = Some (papp P (plain (kid_alts [] (items_of ks)))).

Lemma view_snoc : forall acc P k d s, props_view (subs acc) = Some P -> v_js (view_of d) = Some s ->
  props_view (subs (acc ++ [(k, d)])) = Some (papp P (PCons (key_of k) s PNil)).
Proof.
  intros acc P k d s V D. rewrite subs_app. apply props_view_app; [exact V|]. rewrite subs_cons. cbn [props_view subs map]. rewrite D. reflexivity.
Qed.

Lemma Qo_step : forall k r, Pt k -> Qo r -> Qo (XCons k r).
Proof.
  intros k r Pk Qr0 acc P B KP ND V FR. cbn [bridge_ok_f] in B. apply andb_true_iff in B as [B1 B2].
  cbn [kids_plain] in KP. apply andb_true_iff in KP as [KP KP2]. apply andb_true_iff in KP as [K1 K2].
  apply negb_true_iff in K1. apply negb_true_iff in K2.
  cbn [xunames nodup_strs] in ND. apply andb_true_iff in ND as [N1 N2]. apply negb_true_iff in N1. apply existsb_str_notin in N1.
  destruct (Pk B1) as (dk & Dk & Vk).
  assert (XR : xredef k = None) by (destruct (xredef k); [discriminate|reflexivity]).
  rewrite docs_kids_o_cons, xeff_eq, K1, XR, Dk. cbn [rbind].
  assert (F0 : ~ In (xuname k) (map fst acc)) by (apply FR; left; reflexivity).
  rewrite (jset_fresh _ _ _ (notin_existsb _ _ F0)).
  pose proof (view_snoc acc P (xuname k) dk _ V Vk) as V3. rewrite (key_of_name _ (bridge_ok_name k B1)) in V3.
  destruct (Qr0 _ _ B2 KP2 N2 V3) as (props & Dp & Vp).
  { intros n I. rewrite map_app. cbn [map fst]. intros J. apply in_app_or in J. destruct J as [J|[J|[]]].
    - apply (FR n); [right; exact I|exact J].
    - subst n. apply N1. exact I. }
  exists props. split; [exact Dp|]. rewrite Vp. f_equal. rewrite papp_assoc. cbn [papp items_of kid_alts plain]. rewrite item_id_of. reflexivity.
Qed.

Lemma NoDup_app_snoc_str : forall (l : list str) x, NoDup l -> ~ In x l -> NoDup (l ++ [x]).
Proof.
  intros l x N I. apply NoDup_rev in N. rewrite <- (rev_involutive (l ++ [x])). apply NoDup_rev. rewrite rev_app_distr. cbn [rev app].
  constructor; [|exact N]. intros J. apply in_rev in J. exact (I J).
Qed.

Lemma NoDup_app_snoc2_str : forall (l : list str) x y, NoDup l -> ~ In x l -> ~ In y l -> x <> y -> NoDup (l ++ [x; y]).
Proof.
  intros l x y N Ix Iy D. change [x; y] with ([x] ++ [y]). rewrite app_assoc. apply NoDup_app_snoc_str; [apply NoDup_app_snoc_str; assumption|].
  intros J. apply in_app_or in J. destruct J as [J|[J|[]]]; [exact (Iy J)|exact (D J)].
Qed.

Lemma str_eqb_sym : forall a b, str_eqb a b = str_eqb b a.
Proof.
  intros a b. destruct (str_eqb a b) eqn:E.
  - apply SR.Proofs.StructureP.str_eqb_eq in E. subst. symmetry. apply SR.Proofs.StructureP.str_eqb_refl.
  - symmetry. apply str_eqb_false. intros H. subst. rewrite SR.Proofs.StructureP.str_eqb_refl in E. discriminate.
Qed.

Lemma fresh_tail : forall acc k r (extra : list (str * jdoc)),
  fresh acc (XCons k r) -> nodup_strs (xunames (XCons k r)) = true -> is_pre RD (xuname k) = false ->
  (forall n, In n (xunames r) -> is_pre RD n = false) ->
  (forall e, In e (map fst extra) -> e = xuname k \/ e = redef_key (xuname k)) ->
  fresh (acc ++ extra) r.
Proof.
  intros acc k r extra FR ND NK NR EX n I.
  cbn [xunames nodup_strs] in ND. apply andb_true_iff in ND as [N1 _]. apply negb_true_iff in N1. apply existsb_str_notin in N1.
  destruct (FR n (or_intror I)) as [F1 F2]. rewrite map_app. split; intros J; apply in_app_or in J; destruct J as [J|J].
  - exact (F1 J).
  - destruct (EX _ J) as [E|E].
    + subst n. exact (N1 I).
    + exact (key_not_name n _ (NR n I) E).
  - exact (F2 J).
  - destruct (EX _ J) as [E|E].
    + symmetry in E. exact (key_not_name _ _ NK E).
    + apply redef_key_inj in E. subst n. exact (N1 I).
Qed.

Lemma bridge_names_f : forall ks, bridge_ok_f ks = true -> forall n, In n (xunames ks) -> is_pre RD n = false.
Proof.
  induction ks as [|k r IH]; intros B n I; [destruct I|]. cbn [bridge_ok_f] in B. apply andb_true_iff in B as [B1 B2].
  destruct I as [<-|I]; [apply bridge_ok_name; exact B1|apply IH; assumption].
Qed.

Lemma Qr_step : forall k r, Pt k -> Qr r -> Qr (XCons k r).
Proof.
  intros k r Pk IHr bases acc P B U ND NDa V BS FR.
  pose proof B as B0. cbn [bridge_ok_f] in B. apply andb_true_iff in B as [B1 B2].
  pose proof ND as ND0. cbn [xunames nodup_strs] in ND. apply andb_true_iff in ND as [N1 N2]. apply negb_true_iff in N1. apply existsb_str_notin in N1.
  destruct (Pk B1) as (dk & Dk & Vk).
  pose proof (bridge_ok_name k B1) as NK. pose proof (bridge_names_f r B2) as NR.
  destruct (FR (xuname k) (or_introl eq_refl)) as [F1 F2].
  cbn [kids_union_ok] in U. rewrite docs_kids_r_cons, xeff_eq.
  cbn [items_of ext assemble_d]. rewrite item_redef_of, item_id_of, redef_targets_of, existsb_name_id.
  destruct (xredef k) as [t|] eqn:XR; cbn [option_map].
  - (* a redefiner: its union exists already *)
    apply andb_true_iff in U as [U U2]. apply andb_true_iff in U as [U0 U1]. apply negb_true_iff in U0. rewrite U0.
    apply existsb_str_In in U1. destruct (BS t U1) as (l & J). cbv zeta. rewrite J, Dk. cbn [rbind].
    destruct (DefsR.jfind_split _ _ _ J) as (a1 & a2 & EA & NA). subst acc.
    rewrite (oneof_add_obj _ dk a1 l a2 NA). cbn [rbind].
    assert (F1' : ~ In (xuname k) (map fst (a1 ++ (redef_key t, oneof_obj (redef_key t) (l ++ [dk])) :: a2)))
      by (rewrite (map_fst_mid a1 a2 _ _ (oneof_obj (redef_key t) l)); exact F1).
    rewrite (jset_fresh _ _ _ (notin_existsb _ _ F1')).
    (* the view of the accumulator *)
    destruct (props_view_split _ _ _ (eq_trans (eq_sym (f_equal props_view (subs_app a1 _))) V)) as (A1 & A2' & VA1 & VA2 & EP).
    rewrite subs_cons in VA2. cbn [props_view] in VA2. rewrite view_oneof_eq in VA2.
    destruct (alts_view (map view_of l)) as [A|] eqn:EA; cbn [option_map] in VA2; [|discriminate].
    destruct (props_view (subs a2)) as [A2|] eqn:VA2'; [|discriminate]. injection VA2 as <-. rewrite key_of_redef in EP.
    assert (EA' : alts_view (map view_of (l ++ [dk])) = Some (aapp A (ACons (build_alt (item_of k)) ANil))).
    { rewrite map_app. apply alts_view_app; [exact EA|]. cbn [map alts_view]. rewrite Vk. reflexivity. }
    assert (V2 : props_view (subs (a1 ++ (redef_key t, oneof_obj (redef_key t) (l ++ [dk])) :: a2))
                 = Some (add_alts (name_id t) (ACons (build_alt (item_of k)) ANil) P)).
    { rewrite subs_app, subs_cons. erewrite props_view_app; [|exact VA1|cbn [props_view]; rewrite (view_oneof _ _ _ EA'), VA2'; reflexivity].
      rewrite EP, add_alts_papp. cbn [add_alts]. rewrite N.eqb_refl, key_of_redef.
      assert (K1 : ~ In (KRedef (name_id t)) (pkeys A1)).
      { rewrite (pkeys_view _ _ VA1). intros I. apply in_map_iff in I. destruct I as (e & E & I). rewrite <- key_of_redef in E.
        apply key_of_inj in E. subst e. exact (NA I). }
      assert (K2 : ~ In (KRedef (name_id t)) (pkeys A2)).
      { rewrite (pkeys_view _ _ VA2'). intros I. apply in_map_iff in I. destruct I as (e & E & I). rewrite <- key_of_redef in E.
        apply key_of_inj in E. subst e. rewrite map_app in NDa. cbn [map fst] in NDa. apply NoDup_remove_2 in NDa. apply NDa. apply in_or_app. right. exact I. }
      rewrite (add_alts_notin _ _ _ K1), (add_alts_notin _ _ _ K2). reflexivity. }
    pose proof (view_snoc _ _ (xuname k) (placeholder k) _ V2 (view_placeholder k)) as V3. rewrite (key_of_name _ NK) in V3.
    match type of V3 with props_view (subs ?a) = _ => set (acc3 := a) in * end.
    assert (exists props, docs_kids_r r acc3 = ROk props /\ props_view (subs props) = Some (papp (ext (papp (add_alts (name_id t) (ACons (build_alt (item_of k)) ANil) P)
          (PCons (KName (name_id (xuname k))) (JRef (KName (name_id (xuname k)))) PNil)) (items_of r)) (assemble_d (items_of r)))) as (props & Dp & Vp);
      [apply (IHr bases acc3 _ B2 U2 N2); [| exact V3 | |] |].
    + unfold acc3. rewrite map_app. cbn [map fst]. rewrite (map_fst_mid a1 a2 _ _ (oneof_obj (redef_key t) l)).
      apply NoDup_app_snoc_str; assumption.
    + unfold acc3. intros t' I'. destruct (BS t' I') as (l' & J').
      destruct (SR.Model.Structure.str_eqb (redef_key t') (redef_key t)) eqn:Q.
      * apply SR.Proofs.StructureP.str_eqb_eq in Q. rewrite Q. eexists. apply jfind_some_app. apply (Redef.jfind_mid _ _ a1 a2 NA).
      * exists l'. apply jfind_some_app. rewrite <- J'. rewrite !jfind_app.
        destruct (jfind (redef_key t') a1); [reflexivity|]. cbn [jfind]. rewrite str_eqb_sym, Q. reflexivity.
    + unfold acc3. intros n I. destruct (fresh_tail _ k r [(xuname k, placeholder k)] FR ND0 NK NR) with (n := n) as [G1 G2]; [|exact I|].
      { intros e [<-|[]]. left. reflexivity. }
      rewrite map_app in G1, G2. rewrite map_app. rewrite (map_fst_mid a1 a2 _ _ (oneof_obj (redef_key t) l)). split; assumption.
    + exists props. split; [exact Dp|]. rewrite Vp. f_equal. rewrite ext_papp, ext_name1, papp_assoc. reflexivity.
  - apply andb_true_iff in U as [U U2]. apply andb_true_iff in U as [U0 U1]. apply Bool.eqb_prop in U0.
    destruct (xbased k) eqn:XB.
    + (* the redefined item: it opens its union *)
      rewrite <- U0. cbn [negb orb] in U1. apply SR.Proofs.StructureP.str_eqb_eq in U1. rewrite U1. cbv zeta.
      rewrite (jfind_none_notin _ _ F2), Dk. cbn [rbind].
      change (oneof_new (redef_key (xuname k))) with (oneof_obj (redef_key (xuname k)) []).
      rewrite (oneof_add_obj _ dk acc [] [] F2). cbn [rbind app].
      assert (F1' : ~ In (xuname k) (map fst (acc ++ [(redef_key (xuname k), oneof_obj (redef_key (xuname k)) [dk])]))).
      { rewrite map_app. cbn [map fst]. intros I. apply in_app_or in I. destruct I as [I|[I|[]]]; [exact (F1 I)|]. symmetry in I. exact (key_not_name _ _ NK I). }
      rewrite (jset_fresh _ _ _ (notin_existsb _ _ F1')).
      assert (VO : v_js (view_of (oneof_obj (redef_key (xuname k)) [dk]))
                   = Some (JOne (Some (KRedef (name_id (xuname k)))) (ACons (build_alt (item_of k)) ANil))).
      { rewrite <- key_of_redef. apply view_oneof. cbn [map alts_view]. rewrite Vk. reflexivity. }
      pose proof (view_snoc _ _ (redef_key (xuname k)) _ _ V VO) as V2. rewrite key_of_redef in V2.
      pose proof (view_snoc _ _ (xuname k) (placeholder k) _ V2 (view_placeholder k)) as V3. rewrite (key_of_name _ NK) in V3.
      match type of V3 with props_view (subs ?a) = Some ?p => set (acc3 := a) in *; set (P3 := p) in * end.
      assert (exists props, docs_kids_r r acc3 = ROk props /\ props_view (subs props) = Some (papp (ext P3 (items_of r)) (assemble_d (items_of r)))) as (props & Dp & Vp);
        [apply (IHr (xuname k :: bases) acc3 _ B2 U2 N2); [| exact V3 | |]; unfold acc3 |unfold P3 in Vp].
      * rewrite <- app_assoc. rewrite map_app. cbn [app map fst]. apply NoDup_app_snoc2_str; try assumption.
        intros E. symmetry in E. exact (key_not_name _ _ NK E).
      * intros t' [<-|I'].
        -- exists [dk]. apply jfind_some_app. rewrite jfind_app, (jfind_none_notin _ _ F2). cbn [jfind].
           rewrite SR.Proofs.StructureP.str_eqb_refl. reflexivity.
        -- destruct (BS t' I') as (l' & J'). exists l'. apply jfind_some_app. apply jfind_some_app. exact J'.
      * rewrite <- app_assoc. cbn [app]. apply (fresh_tail _ k r _ FR ND0 NK NR).
        intros e [<-|[<-|[]]]; [right|left]; reflexivity.
      * exists props. split; [exact Dp|]. rewrite Vp. f_equal. rewrite !ext_papp, ext_one1, ext_name1, !papp_assoc. reflexivity.
    + (* an ordinary child *)
      rewrite <- U0. rewrite Dk. cbn [rbind]. rewrite (jset_fresh _ _ _ (notin_existsb _ _ F1)).
      pose proof (view_snoc acc P (xuname k) dk _ V Vk) as V3. rewrite (key_of_name _ NK) in V3.
      match type of V3 with props_view (subs ?a) = Some ?p => set (acc3 := a) in *; set (P3 := p) in * end.
      assert (exists props, docs_kids_r r acc3 = ROk props /\ props_view (subs props) = Some (papp (ext P3 (items_of r)) (assemble_d (items_of r)))) as (props & Dp & Vp);
        [apply (IHr bases acc3 _ B2 U2 N2); [| exact V3 | |]; unfold acc3 |unfold P3 in Vp].
      * rewrite map_app. cbn [map fst]. apply NoDup_app_snoc_str; assumption.
      * intros t' I'. destruct (BS t' I') as (l' & J'). exists l'. apply jfind_some_app. exact J'.
      * apply (fresh_tail _ k r _ FR ND0 NK NR). intros e [<-|[]]. left. reflexivity.
      * exists props. split; [exact Dp|]. rewrite Vp. f_equal. rewrite ext_papp, ext_name1, papp_assoc. reflexivity.
Qed.

(* ================================================================ 4. the bridge *)
Lemma ext_nil : forall ks, ext PNil ks = PNil.
Proof. induction ks as [|x xs IH]; [reflexivity|]. cbn [ext]. destruct (item_redef x); cbn [add_alts]; exact IH. Qed.

Lemma sib_ok_of : forall ks bases B, kids_union_ok bases ks = true -> (forall t, In t bases -> In (name_id t) B) ->
  sib_ok B (items_of ks) = true.
Proof.
  induction ks as [|k r IH]; intros bases B U SB; [reflexivity|]. cbn [kids_union_ok] in U. cbn [items_of sib_ok]. rewrite item_redef_of.
  destruct (xredef k) as [t|]; cbn [option_map].
  - apply andb_true_iff in U as [U U2]. apply andb_true_iff in U as [_ U1]. apply existsb_str_In in U1.
    apply andb_true_iff. split; [apply existsb_eqb_In; apply SB; exact U1|apply (IH bases); assumption].
  - apply andb_true_iff in U as [_ U2]. apply (IH _ _ U2). rewrite item_id_of. intros t I.
    destruct (xbased k); [destruct I as [<-|I]; [left; reflexivity|right; apply SB; exact I]|right; apply SB; exact I].
Qed.

Lemma redef_targets_src : forall ks u, In u (redef_targets ks) -> exists y, in_kids y ks /\ item_redef y = Some u.
Proof.
  induction ks as [|z zs IHz]; intros u Hu; cbn [redef_targets] in Hu; [contradiction|].
  destruct (item_redef z) as [t|] eqn:Ez.
  - destruct Hu as [<-|Hu]; [exists z; split; [left; reflexivity|exact Ez]|].
    destruct (IHz u Hu) as (y & Hy & Ey). exists y. split; [right; exact Hy|exact Ey].
  - destruct (IHz u Hu) as (y & Hy & Ey). exists y. split; [right; exact Hy|exact Ey].
Qed.

Lemma NoDup_map_name_id : forall l, NoDup l -> NoDup (map name_id l).
Proof.
  induction l as [|a l IH]; intros N; [constructor|]. inversion N as [|? ? N1 N2]; subst. cbn [map]. constructor; [|apply IH; exact N2].
  intros I. apply in_map_iff in I. destruct I as (b & E & I). apply name_id_inj in E. subst b. exact (N1 I).
Qed.

Lemma assemble_of : forall ks, kids_union_ok [] ks = true -> nodup_strs (xunames ks) = true ->
  assemble (kid_alts (redef_targets (items_of ks)) (items_of ks)) [] (kid_alts (redef_targets (items_of ks)) (items_of ks))
  = assemble_d (items_of ks).
Proof.
  intros ks U ND.
  apply (assemble_flat_gen (redef_targets (items_of ks)) (items_of ks) INil [] []).
  - intros u. cbn. tauto.
  - intros y [].
  - intros u [].
  - cbn [app_items]. rewrite kid_ids_of. apply NoDup_map_name_id. apply nodup_strs_NoDup. exact ND.
  - apply (sib_ok_of ks [] [] U). intros t [].
  - intros y u. apply redef_targets_spec.
  - intros u Hu. cbn [app_items]. apply redef_targets_src. exact Hu.
  - cbn [app_items]. apply redefiner_not_target.
    + apply (sib_ok_of ks [] [] U). intros t [].
    + rewrite kid_ids_of. apply NoDup_map_name_id. apply nodup_strs_NoDup. exact ND.
Qed.

Lemma is_rok_inv : forall (T : Type) (r : R T), is_rok r = true -> exists v, r = ROk v.
Proof. intros T [v|e|w] H; try discriminate. exists v. reflexivity. Qed.

Lemma occ_not_once : forall x mx, max_items_doc x = ROk mx -> occ_of x <> Once.
Proof. intros x mx M. destruct (max_items_cases x mx M) as [(dep & _ & ->)|(c & _ & ->)]; discriminate. Qed.

Lemma Pt_node : forall d b x kids, (Qr kids /\ Qo kids) -> Pt (XNode d b x kids).
Proof.
  intros d b x kids [QR QO] B. cbn [bridge_ok] in B. apply andb_true_iff in B as [NK B]. apply negb_true_iff in NK.
  pose proof (key_of_name _ NK) as KO. cbn [doc_r item_of].
  destruct (SR.Model.Structure.eocc (SR.Model.Structure.de d)).
  - apply andb_true_iff in B as [M B]. apply is_rok_inv in M. destruct M as (mx & M). rewrite M. cbn [rbind].
    pose proof (occ_not_once x mx M) as ON.
    destruct (SR.Model.Structure.epic (SR.Model.Structure.de d)).
    + apply andb_true_iff in B as [B _]. apply andb_true_iff in B as [J C]. apply is_rok_inv in J. destruct J as (jt & J).
      apply is_rok_inv in C. destruct C as (n & C). rewrite J. cbn [rbind]. eexists. split; [reflexivity|].
      rewrite (view_array_pic _ _ _ _ _ _ n (json_type_keys x jt J) (json_type_atomic x jt J) C M). rewrite KO.
      unfold width_of. rewrite C. cbn [build_alt]. destruct (occ_of x); [contradiction|reflexivity|reflexivity].
    + apply andb_true_iff in B as [B B3]. apply andb_true_iff in B as [B1 B2].
      destruct (QO [] PNil B3 B1 B2 eq_refl) as (props & Dp & Vp); [intros n _ []|].
      rewrite Dp. cbn [rbind]. eexists. split; [reflexivity|]. cbn [papp] in Vp.
      rewrite (view_array_group _ _ _ _ _ _ _ M Vp), KO. cbn [build_alt]. destruct (occ_of x); [contradiction|reflexivity|reflexivity].
  - destruct kids as [|k r].
    + apply andb_true_iff in B as [J C]. apply is_rok_inv in J. destruct J as (jt & J). apply is_rok_inv in C. destruct C as (n & C).
      rewrite J, C. cbn [rbind]. eexists. split; [reflexivity|].
      rewrite (view_elem _ _ _ _ n (json_type_keys x jt J) (json_type_atomic x jt J) C), KO. unfold width_of. rewrite C. reflexivity.
    + apply andb_true_iff in B as [B B3]. apply andb_true_iff in B as [B1 B2].
      destruct (QR [] [] PNil B3 B1 B2 (NoDup_nil _) eq_refl) as (props & Dp & Vp); [intros t []|intros n _; split; intros []|].
      rewrite Dp. cbn [rbind]. eexists. split; [reflexivity|]. rewrite ext_nil in Vp. cbn [papp] in Vp.
      rewrite (view_group _ _ _ _ _ Vp), KO. cbn [build_alt]. rewrite (assemble_of _ B1 B2). reflexivity.
Qed.

Theorem bridge_all : (forall t, Pt t) /\ (forall ks, Qr ks /\ Qo ks).
Proof.
  apply xtree_xforest_ind.
  - intros d b x kids IH. apply Pt_node. exact IH.
  - split.
    + intros bases acc P _ _ _ _ V _ _. exists acc. split; [reflexivity|]. cbn [items_of ext assemble_d]. rewrite papp_nil. exact V.
    + intros acc P _ _ _ V _. exists acc. split; [reflexivity|]. cbn [items_of kid_alts plain]. rewrite papp_nil. exact V.
  - intros k Pk r [QR QO]. split; [apply Qr_step; assumption|apply Qo_step; assumption].
Qed.

(* A. the document of a tree of the forest IS the built record description *)
Theorem documents_are_built_trees : forall t, bridge_ok t = true ->
  exists doc, doc_r t = ROk doc /\ layout_of_doc doc = Some (build (item_of t)).
Proof. intros t B. destruct bridge_all as [H _]. exact (H t B). Qed.

Theorem documents_are_built_forest : forall xf, forallb bridge_ok xf = true ->
  exists docs, docs_r xf = ROk docs /\ Forall2 (fun doc t => layout_of_doc doc = Some (build (item_of t))) docs xf.
Proof.
  induction xf as [|t xf IH]; intros B; cbn [docs_r].
  - exists []. split; [reflexivity|constructor].
  - cbn [forallb] in B. apply andb_true_iff in B as [B1 B2]. destruct (documents_are_built_trees t B1) as (doc & D & L).
    destruct (IH B2) as (docs & Ds & F). rewrite D, Ds. cbn [rbind]. exists (doc :: docs). split; [reflexivity|constructor; assumption].
Qed.

(* ================================================================ 5. from the text *)
Local Open Scope nat_scope.
Lemma map_opt_layouts : forall docs (xf : list xtree),
  Forall2 (fun doc t => layout_of_doc doc = Some (build (item_of t))) docs xf ->
  map_opt layout_of_doc docs = Some (map (fun t => build (item_of t)) xf).
Proof.
  intros docs xf F. induction F as [|doc t docs xf H F IH]; [reflexivity|]. cbn [map_opt map]. rewrite H, IH. reflexivity.
Qed.

Lemma forest_of_entries_eq : forall es f, SR.Model.Structure.structure (map spec_entry es) = Ok f ->
  forest_of_entries es = annot_forest f (kept_infos (map spec_info es)).
Proof. intros es f H. unfold forest_of_entries. rewrite H. reflexivity. Qed.

Theorem text_documents_are_built : forall es tail seqs, copybook_ok es tail seqs = true -> bridge_domain es = true ->
  exists f xf docs,
    SR.Model.Structure.structure (map spec_entry es) = Ok f
    /\ annot_forest f (kept_infos (map spec_info es)) = Some xf /\ map erase xf = f
    /\ concat (map xpre xf) = kept_infos (map spec_info es)
    /\ schemas_of_text (print_copybook es tail seqs) = Done (Ok docs)
    /\ Forall2 (fun doc t => layout_of_doc doc = Some (build (item_of t))) docs xf
    /\ layouts_of_text (print_copybook es tail seqs) = Some (map (fun t => build (item_of t)) xf).
Proof.
  intros es tail seqs OK BD. unfold bridge_domain, forest_of_entries in BD.
  destruct (SR.Model.Structure.structure (map spec_entry es)) as [f|e] eqn:Hf; [|discriminate].
  destruct (end_to_end_full es tail seqs f OK Hf) as (xf & A & R & Q & S). rewrite A in BD. apply andb_true_iff in BD as [NW BO].
  destruct (documents_are_built_forest xf BO) as (docs & D & F).
  exists f, xf, docs. repeat split; try assumption.
  - rewrite (S NW), D. reflexivity.
  - unfold layouts_of_text. rewrite (S NW), D. cbn [to_outcome]. apply map_opt_layouts. exact F.
Qed.

(* B. the schema computed from the text, navigated, lands on the bytes the COBOL rules assign *)
Theorem text_to_layout : forall es tail seqs, copybook_ok es tail seqs = true -> text_layout_ok es = true ->
  exists f xf schemas,
    SR.Model.Structure.structure (map spec_entry es) = Ok f
    /\ annot_forest f (kept_infos (map spec_info es)) = Some xf /\ map erase xf = f
    /\ concat (map xpre xf) = kept_infos (map spec_info es)
    /\ layouts_of_text (print_copybook es tail seqs) = Some schemas /\ length schemas = length xf
    /\ forall k s t, nth_error schemas k = Some s -> nth_error xf k = Some t ->
         s = build (item_of t)
         /\ forall (B : Type) (dcount : list B -> nat) (r : list B),
            exists v0, nav_of dcount r s = Ok v0
              /\ lstart (n_loc v0) = 0 /\ lend (n_loc v0) = extent no_counters (item_of t)
              /\ forall p v st, spec_nav no_counters (VItem (item_of t)) 0 p = inl (v, st) ->
                   exists nv, nav_path dcount r v0 p = Ok nv
                     /\ lstart (n_loc nv) = st /\ lend (n_loc nv) = st + view_size no_counters v
                     /\ nav_raw r nv = slice r st (st + view_size no_counters v).
Proof.
  intros es tail seqs OK TL. unfold text_layout_ok in TL. apply andb_true_iff in TL as [BD RW].
  destruct (text_documents_are_built es tail seqs OK BD) as (f & xf & docs & Hf & A & R & Q & _ & _ & L).
  rewrite (forest_of_entries_eq es f Hf), A in RW.
  exists f, xf, (map (fun t => build (item_of t)) xf).
  split; [exact Hf|]. split; [exact A|]. split; [exact R|]. split; [exact Q|]. split; [exact L|]. split; [apply map_length|].
  intros k s t Hs Ht. rewrite nth_error_map, Ht in Hs. injection Hs as <-. split; [reflexivity|].
  intros B dcount r.
  rewrite forallb_forall in RW. specialize (RW t (nth_error_In _ _ Ht)). unfold record_wf in RW.
  apply andb_true_iff in RW as [RW W3]. apply andb_true_iff in RW as [W1 W2].
  apply layout_correct_names; assumption.
Qed.

(* ================================================================ 6. respelling *)
Import Resp2.

Lemma occ_of_isim : forall x x', isim x x' -> occ_of x = occ_of x'.
Proof.
  intros x x' [M _]. unfold max_items_doc in M. unfold occ_of.
  destruct (i_dep x) as [dep|], (i_dep x') as [dep'|].
  - injection M as M. rewrite M. reflexivity.
  - destruct (i_occ x'); [injection M as M _; discriminate M|discriminate].
  - destruct (i_occ x); [injection M as M _; discriminate M|discriminate].
  - destruct (i_occ x) as [ds|], (i_occ x') as [ds'|]; try discriminate; [|reflexivity]. injection M as M. rewrite M. reflexivity.
Qed.

Definition hsim (k k' : xtree) : Prop :=
  xbased k = xbased k' /\ xredef k = xredef k' /\ xuname k = xuname k'
  /\ SR.Model.Structure.dde_name (SR.Model.Structure.de (xdde k)) = SR.Model.Structure.dde_name (SR.Model.Structure.de (xdde k')).

Lemma xsim2_hsim : forall k k', xsim2 k k' -> hsim k k'.
Proof.
  intros k k' S. destruct S as [d b x kids d' x' kids' (L & U & Nm & Rd & _) _ _]. unfold hsim, xredef, xuname. cbn [xbased xdde].
  repeat split; assumption.
Qed.

Lemma xunames_sim : forall ks ks', xsim2_f ks ks' -> xunames ks = xunames ks'.
Proof. intros ks ks' S. induction S as [|k r k' r' Sk Sr IH]; [reflexivity|]. cbn [xunames]. destruct (xsim2_hsim _ _ Sk) as (_ & _ & U & _). rewrite U, IH. reflexivity. Qed.

Lemma xtargets_sim : forall ks ks', xsim2_f ks ks' -> xtargets ks = xtargets ks'.
Proof. intros ks ks' S. induction S as [|k r k' r' Sk Sr IH]; [reflexivity|]. cbn [xtargets]. destruct (xsim2_hsim _ _ Sk) as (_ & Rd & _ & _). rewrite Rd, IH. reflexivity. Qed.

Lemma kids_plain_sim : forall ks ks', xsim2_f ks ks' -> kids_plain ks = kids_plain ks'.
Proof.
  intros ks ks' S. induction S as [|k r k' r' Sk Sr IH]; [reflexivity|]. cbn [kids_plain]. destruct (xsim2_hsim _ _ Sk) as (Bd & Rd & _ & _).
  rewrite Bd, Rd, IH. reflexivity.
Qed.

Lemma kids_union_ok_sim : forall ks ks', xsim2_f ks ks' -> forall bases, kids_union_ok bases ks = kids_union_ok bases ks'.
Proof.
  intros ks ks' S. induction S as [|k r k' r' Sk Sr IH]; intros bases; [reflexivity|]. cbn [kids_union_ok].
  destruct (xsim2_hsim _ _ Sk) as (Bd & Rd & U & Nm). rewrite Bd, Rd, U, Nm, (xtargets_sim _ _ Sr). destruct (xredef k'); rewrite !IH; reflexivity.
Qed.

Lemma kids_shape_sim : forall ks ks', xsim2_f ks ks' -> match ks, ks' with XNil, XNil => True | XCons _ _, XCons _ _ => True | _, _ => False end.
Proof. intros ks ks' S. destruct S; exact I. Qed.

Theorem sim_item_bridge :
  (forall t t', xsim2 t t' -> item_of t = item_of t' /\ bridge_ok t = bridge_ok t' /\ forall anc, names_wf anc t = names_wf anc t')
  /\ (forall ks ks', xsim2_f ks ks' -> items_of ks = items_of ks' /\ bridge_ok_f ks = bridge_ok_f ks'
                                       /\ forall anc, names_wf_f anc ks = names_wf_f anc ks').
Proof.
  apply xsim2_ind2.
  - intros d b x kids d' x' kids' (L & U & Nm & Rd & Ep & Eo & Cs) Hx Sk (IH1 & IH2 & IH3).
    pose proof (occ_of_isim _ _ Hx) as OC. destruct Hx as [Mx Jt].
    assert (W : width_of d = width_of d') by (unfold width_of; rewrite Cs; reflexivity).
    assert (RO : redef_of d = redef_of d') by (unfold redef_of; rewrite Rd; reflexivity).
    pose proof (kids_shape_sim _ _ Sk) as SH.
    split; [|split].
    + cbn [item_of]. rewrite <- Eo, <- Ep, <- U, <- W, <- OC, <- RO, <- IH1.
      destruct (SR.Model.Structure.eocc (SR.Model.Structure.de d)); [reflexivity|]. destruct kids, kids'; try contradiction; reflexivity.
    + cbn [bridge_ok]. rewrite <- Eo, <- Ep, <- U, <- Mx, <- Jt, <- Cs, <- IH2, <- (kids_plain_sim _ _ Sk), <- (xunames_sim _ _ Sk).
      rewrite <- (kids_union_ok_sim _ _ Sk []). destruct kids, kids'; try contradiction; reflexivity.
    + intros anc. cbn [names_wf]. rewrite <- U, <- IH3. reflexivity.
  - split; [reflexivity|split; [reflexivity|intros anc; reflexivity]].
  - intros k r k' r' Sk (K1 & K2 & K3) Sr (R1 & R2 & R3). split; [|split].
    + cbn [items_of]. rewrite K1, R1. reflexivity.
    + cbn [bridge_ok_f]. rewrite K2, R2. reflexivity.
    + intros anc. cbn [names_wf_f]. rewrite K3, R3. reflexivity.
Qed.

Lemma sim_forest : forall xf xf', Forall2 xsim2 xf xf' ->
  map item_of xf = map item_of xf' /\ forallb bridge_ok xf = forallb bridge_ok xf'
  /\ forallb (names_wf []) xf = forallb (names_wf []) xf'.
Proof.
  intros xf xf' F. induction F as [|t t' xf xf' H F (I1 & I2 & I3)]; [repeat split|].
  destruct (proj1 sim_item_bridge t t' H) as (K1 & K2 & K3). cbn [map forallb]. rewrite K1, K2, K3, I1, I2, I3. repeat split.
Qed.

(* two printings of the same entries: their annotated forests are similar *)
Lemma respelling_forests : forall es tail seqs es' tail' seqs' f,
  Forall2 same_clauses es es' ->
  copybook_ok es tail seqs = true -> copybook_ok es' tail' seqs' = true ->
  forallb respelling_domain es = true -> forallb respelling_domain es' = true ->
  SR.Model.Structure.structure (map spec_entry es) = Ok f ->
  exists f' xf xf',
    SR.Model.Structure.structure (map spec_entry es') = Ok f'
    /\ annot_forest f (kept_infos (map spec_info es)) = Some xf
    /\ annot_forest f' (kept_infos (map spec_info es')) = Some xf'
    /\ Forall2 xsim2 xf xf'.
Proof.
  intros es tail seqs es' tail' seqs' f SC OK OK' RD RD' Hf.
  assert (OKe : forallb ce_ok es = true).
  { unfold copybook_ok in OK. apply andb_true_iff in OK as [OK0 _]. apply andb_true_iff in OK0 as [OK0 _]. exact OK0. }
  assert (OKe' : forallb ce_ok es' = true).
  { unfold copybook_ok in OK'. apply andb_true_iff in OK' as [OK0 _]. apply andb_true_iff in OK0 as [OK0 _]. exact OK0. }
  assert (ALL : Forall2 (fun e e' => esim2 (spec_entry e) (spec_entry e') /\ isim (spec_info e) (spec_info e')
                                     /\ info_skipped (spec_info e) = info_skipped (spec_info e')) es es').
  { clear - SC OKe OKe' RD RD'. revert OKe OKe' RD RD'.
    induction SC as [|e e' es es' Se SC IH]; intros OKe OKe' RD RD'; [constructor|]. cbn [forallb] in *.
    apply andb_true_iff in OKe as [O1 O2]. apply andb_true_iff in OKe' as [O1' O2'].
    apply andb_true_iff in RD as [D1 D2]. apply andb_true_iff in RD' as [D1' D2'].
    constructor; [apply respell_sim3; assumption|apply IH; assumption]. }
  assert (ES : Forall2 esim2 (map spec_entry es) (map spec_entry es')).
  { clear - ALL. induction ALL as [|e e' es es' (H & _) ALL IH]; cbn [map]; constructor; assumption. }
  assert (IS : Forall2 (fun x x' => isim x x' /\ info_skipped x = info_skipped x') (map spec_info es) (map spec_info es')).
  { clear - ALL. induction ALL as [|e e' es es' (_ & H) ALL IH]; cbn [map]; constructor; assumption. }
  pose proof (structure_ddes_sim dsim2 dsim2_lv dsim2_red dsim2_nm _ _ (mk_ddes_sim2 _ _ ES 0%N)) as SS.
  fold (SR.Model.Structure.structure (map spec_entry es)) in SS. fold (SR.Model.Structure.structure (map spec_entry es')) in SS.
  rewrite Hf in SS. destruct (SR.Model.Structure.structure (map spec_entry es')) as [f'|e'] eqn:Hf'; [|contradiction].
  destruct (end_to_end_full es tail seqs f OK Hf) as (xf & A & R & Q & _).
  destruct (end_to_end_full es' tail' seqs' f' OK' Hf') as (xf' & A' & R' & Q' & _).
  exists f', xf, xf'. repeat split; try assumption.
  pose proof (kept_infos_sim _ _ IS) as KS. rewrite <- Q, <- Q' in KS. rewrite <- R, <- R' in SS.
  apply xsim2_forest; assumption.
Qed.

Lemma forallb_map_eq : forall (X Y : Type) (g : X -> Y) (q : Y -> bool) (l : list X), forallb q (map g l) = forallb (fun x => q (g x)) l.
Proof. intros X Y g q. induction l as [|a l IH]; [reflexivity|]. cbn [map forallb]. rewrite IH. reflexivity. Qed.

(* C. two spellings of the same entries: the same record descriptions, the same layouts computed from the two texts *)
Theorem respelling_layout : forall es tail seqs es' tail' seqs',
  Forall2 same_clauses es es' ->
  copybook_ok es tail seqs = true -> copybook_ok es' tail' seqs' = true ->
  forallb respelling_domain es = true -> forallb respelling_domain es' = true ->
  text_layout_ok es = true ->
  text_layout_ok es' = true
  /\ records_of_entries es = records_of_entries es'
  /\ exists schemas, layouts_of_text (print_copybook es tail seqs) = Some schemas
                     /\ layouts_of_text (print_copybook es' tail' seqs') = Some schemas.
Proof.
  intros es tail seqs es' tail' seqs' SC OK OK' RD RD' TL.
  assert (TL0 := TL). unfold text_layout_ok in TL. apply andb_true_iff in TL as [BD RW].
  destruct (text_documents_are_built es tail seqs OK BD) as (f & xf & docs & Hf & A & R & Q & _ & _ & L).
  destruct (respelling_forests es tail seqs es' tail' seqs' f SC OK OK' RD RD' Hf) as (f' & xf0 & xf' & Hf' & A0 & A' & SIM).
  rewrite A in A0. injection A0 as <-.
  destruct (sim_forest _ _ SIM) as (I1 & I2 & I3).
  assert (FE : forest_of_entries es = Some xf) by (rewrite (forest_of_entries_eq es f Hf); exact A).
  assert (FE' : forest_of_entries es' = Some xf') by (rewrite (forest_of_entries_eq es' f' Hf'); exact A').
  assert (BD' : bridge_domain es' = true).
  { unfold bridge_domain in *. rewrite FE in BD. rewrite FE', <- I2, <- I3. exact BD. }
  assert (RWeq : forallb (fun t => record_wf (item_of t)) xf' = forallb (fun t => record_wf (item_of t)) xf).
  { rewrite <- (forallb_map_eq _ _ item_of record_wf xf'), <- (forallb_map_eq _ _ item_of record_wf xf), I1. reflexivity. }
  split; [|split].
  - unfold text_layout_ok. rewrite BD', FE', RWeq. rewrite FE in RW. exact RW.
  - unfold records_of_entries. rewrite FE, FE'. cbn [option_map]. rewrite I1. reflexivity.
  - destruct (text_documents_are_built es' tail' seqs' OK' BD') as (f2 & xf2 & docs2 & Hf2 & A2 & _ & _ & _ & _ & L2).
    rewrite Hf' in Hf2. injection Hf2 as <-. rewrite A' in A2. injection A2 as <-.
    exists (map (fun t => build (item_of t)) xf). split; [exact L|]. rewrite L2.
    rewrite <- (map_map item_of build xf), <- (map_map item_of build xf'), I1. reflexivity.
Qed.

(* ... hence the same place for every path in every record, and the same record length *)
Theorem respelling_located : forall es tail seqs es' tail' seqs',
  Forall2 same_clauses es es' ->
  copybook_ok es tail seqs = true -> copybook_ok es' tail' seqs' = true ->
  forallb respelling_domain es = true -> forallb respelling_domain es' = true ->
  text_layout_ok es = true ->
  forall (B : Type) (dcount : list B -> nat) (r : list B) (k : nat) (p : list step),
    located (print_copybook es tail seqs) k dcount r p = located (print_copybook es' tail' seqs') k dcount r p.
Proof.
  intros es tail seqs es' tail' seqs' SC OK OK' RD RD' TL B dcount r k p.
  destruct (respelling_layout es tail seqs es' tail' seqs' SC OK OK' RD RD' TL) as (_ & _ & schemas & L & L').
  unfold located. rewrite L, L'. reflexivity.
Qed.

(* ================================================================ 7. OCCURS DEPENDING ON: composition with C06_layout *)
Require SR.Proofs.LayoutOdoP.

Theorem text_to_layout_odo : forall es tail seqs, copybook_ok es tail seqs = true -> bridge_domain es = true ->
  exists xf schemas,
    forest_of_entries es = Some xf
    /\ layouts_of_text (print_copybook es tail seqs) = Some schemas /\ length schemas = length xf
    /\ forall k s t, nth_error schemas k = Some s -> nth_error xf k = Some t ->
         s = build (item_of t)
         /\ forall (B : Type) (dcount : list B -> nat) (r : list B) (e : env),
            SR.Proofs.LayoutOdoP.wfo e [] (item_of t) = true -> NoDup (ids (item_of t)) ->
            SR.Proofs.LayoutOdoP.Holds B dcount r e (item_of t) 0 ->
            exists v0, nav_of dcount r s = Ok v0
              /\ lstart (n_loc v0) = 0 /\ lend (n_loc v0) = extent e (item_of t)
              /\ forall p v st, spec_nav e (VItem (item_of t)) 0 p = inl (v, st) ->
                   exists nv, nav_path dcount r v0 p = Ok nv
                     /\ lstart (n_loc nv) = st /\ lend (n_loc nv) = st + view_size e v
                     /\ nav_raw r nv = slice r st (st + view_size e v)
                     /\ (forall x, v = VItem x -> is_table x = true ->
                           forall i, count e (item_oc x) <= i -> nav_index dcount r nv i = Err IndexError).
Proof.
  intros es tail seqs OK BD.
  destruct (text_documents_are_built es tail seqs OK BD) as (f & xf & docs & Hf & A & R & Q & _ & _ & L).
  exists xf, (map (fun t => build (item_of t)) xf).
  split; [rewrite (forest_of_entries_eq es f Hf); exact A|]. split; [exact L|]. split; [apply map_length|].
  intros k s t Hs Ht. rewrite nth_error_map, Ht in Hs. injection Hs as <-. split; [reflexivity|].
  intros B dcount r e W ND H. apply SR.Proofs.LayoutOdoP.layout_correct_odo; assumption.
Qed.

(* ================================================================ 8. values: composition with C01b *)
Require Import SR.Spec.Encode SR.Spec.Record SR.Model.Estruct SR.Model.LayoutValue SR.Model.RecordValue.
Require SR.Proofs.RecordP.

(* the decoder of a field kind taken from the cobol text is the decoder's own treatment of that text *)
Lemma dec_kind_cobol : forall c k, kind_of_cobol c = Some k -> forall bs, dec_kind k bs = unpack_cobol c bs.
Proof.
  intros c k H bs. unfold kind_of_cobol, kind_of_shape in H. unfold unpack_cobol. destruct (shape_of_cobol c) as [u s m n|u n|]; [| |discriminate].
  - destruct (mem u SR.Gen.EstructParams.unpack_display) eqn:E1.
    + injection H as <-. cbn [dec_kind]. unfold unpack. rewrite E1. reflexivity.
    + destruct (mem u SR.Gen.EstructParams.unpack_packed) eqn:E2.
      * injection H as <-. cbn [dec_kind]. unfold canon_usage. rewrite E1, E2. unfold unpack. rewrite E1, E2. reflexivity.
      * destruct (mem u SR.Gen.EstructParams.unpack_binary) eqn:E3; [|discriminate].
        injection H as <-. cbn [dec_kind]. unfold canon_usage. rewrite E1, E2, E3. unfold unpack. rewrite E1, E2, E3. reflexivity.
  - destruct (mem u SR.Gen.EstructParams.unpack_display) eqn:E1; [|discriminate]. injection H as <-. cbn [dec_kind].
    unfold unpack_x. rewrite E1. reflexivity.
Qed.

Lemma field_dec_kind : forall kd i bs, field_dec kd (Some (KName i)) bs = dec_kind (kd i) bs.
Proof. intros kd i bs. cbn [field_dec]. destruct (kd i); reflexivity. Qed.

Theorem text_to_values : forall es tail seqs, copybook_ok es tail seqs = true -> text_values_ok es = true ->
  exists xf schemas,
    forest_of_entries es = Some xf
    /\ layouts_of_text (print_copybook es tail seqs) = Some schemas /\ length schemas = length xf
    /\ forall k s t, nth_error schemas k = Some s -> nth_error xf k = Some t ->
       forall (dcount : list N -> nat) (vals : assignment),
         record_ok (kinds_of t) vals no_counters (item_of t) = true ->
         forall p i sz st, elem_at no_counters (item_of t) p = Some (i, sz, st) ->
           own_storage no_counters (VItem (item_of t)) 0 p = true ->
           value_at (kinds_of t) dcount (spec_record (kinds_of t) vals no_counters (item_of t)) s p
           = Some (Ok (PAtom (py_of (stored (kinds_of t i) (vals p))))).
Proof.
  intros es tail seqs OK TV. unfold text_values_ok in TV. apply andb_true_iff in TV as [TL KD].
  destruct (text_to_layout es tail seqs OK TL) as (f & xf & schemas & Hf & A & _ & _ & L & Len & NAV).
  rewrite (forest_of_entries_eq es f Hf), A in KD.
  exists xf, schemas. split; [rewrite (forest_of_entries_eq es f Hf); exact A|]. split; [exact L|]. split; [exact Len|].
  intros k s t Hs Ht dcount vals RO p i sz st EA OS. destruct (NAV k s t Hs Ht) as [-> _].
  rewrite forallb_forall in KD. specialize (KD t (nth_error_In _ _ Ht)). apply andb_true_iff in KD as [_ ND].
  unfold text_layout_ok in TL. apply andb_true_iff in TL as [_ RW]. rewrite (forest_of_entries_eq es f Hf), A in RW.
  rewrite forallb_forall in RW. specialize (RW t (nth_error_In _ _ Ht)). unfold record_wf in RW.
  apply andb_true_iff in RW as [RW _]. apply andb_true_iff in RW as [W1 _].
  apply (SR.Proofs.RecordP.stored_is_read dcount (kinds_of t) vals no_counters (item_of t) W1 (nodupb_NoDup _ ND) RO p i sz st EA OS).
Qed.

(* ================================================================ 9. respelling: the same decoders *)
Local Notation erase := SR.Proofs.PipelineP.erase.
Local Notation erase_f := SR.Proofs.PipelineP.erase_f.
Definition unpack_class (u : N) : bool * bool * bool * N :=
  (mem u SR.Gen.EstructParams.unpack_display, mem u SR.Gen.EstructParams.unpack_packed,
   mem u SR.Gen.EstructParams.unpack_binary, canon_usage u).

Lemma family_unpack : forall u u', In u R13 -> In u' R13 ->
  SR.Spec.Clauses.norm_value 11 (word_of u) = SR.Spec.Clauses.norm_value 11 (word_of u') -> unpack_class u = unpack_class u'.
Proof.
  intros u u' Hu Hu' E. unfold R13 in Hu, Hu'. cbn [In] in Hu, Hu'.
  repeat (destruct Hu as [<-|Hu];
          [repeat (destruct Hu' as [<-|Hu']; [first [ (vm_compute in E; discriminate E) | (vm_compute; reflexivity) ] | ]); contradiction | ]);
  contradiction.
Qed.

Lemma usage_unpack : forall e e', SR.Spec.Clauses.normal (ce_dict e) = SR.Spec.Clauses.normal (ce_dict e') ->
  reparse_agrees e = true -> reparse_agrees e' = true ->
  unpack_class (usage_number (spec_info e)) = unpack_class (usage_number (spec_info e')).
Proof.
  intros e e' N RA RA'. pose proof (reparse_usage_range e RA) as Ru. pose proof (reparse_usage_range e' RA') as Ru'.
  pose proof (SR.Proofs.ClausesP.lookup_normal 11 (ce_dict e)) as A. pose proof (SR.Proofs.ClausesP.lookup_normal 11 (ce_dict e')) as B.
  rewrite N in A. rewrite A in B. clear A.
  unfold usage_number, spec_info in *. cbn [i_usage] in *.
  destruct (SR.Spec.Clauses.lookup 11 (ce_dict e)) as [w|], (SR.Spec.Clauses.lookup 11 (ce_dict e')) as [w'|]; cbn [option_map] in B; try discriminate.
  - injection B as B.
    destruct (SR.Model.Pipeline.index_of w est_usage_words 0) as [u|] eqn:Eu.
    2:{ exfalso. unfold R13 in Ru. cbn [In] in Ru. intuition discriminate. }
    destruct (SR.Model.Pipeline.index_of w' est_usage_words 0) as [u'|] eqn:Eu'.
    2:{ exfalso. unfold R13 in Ru'. cbn [In] in Ru'. intuition discriminate. }
    destruct (index_word _ _ Eu) as [I1 W1]. destruct (index_word _ _ Eu') as [I2 W2].
    apply family_unpack; [assumption|assumption|]. rewrite W1, W2. exact B.
  - reflexivity.
Qed.

Lemma kind_class : forall u u' es, unpack_class u = unpack_class u' ->
  kind_of_shape (shape_body u es) = kind_of_shape (shape_body u' es).
Proof.
  intros u u' es H.
  assert (H1 : mem u SR.Gen.EstructParams.unpack_display = mem u' SR.Gen.EstructParams.unpack_display) by exact (f_equal (fun q => fst (fst (fst q))) H).
  assert (H2 : mem u SR.Gen.EstructParams.unpack_packed = mem u' SR.Gen.EstructParams.unpack_packed) by exact (f_equal (fun q => snd (fst (fst q))) H).
  assert (H3 : mem u SR.Gen.EstructParams.unpack_binary = mem u' SR.Gen.EstructParams.unpack_binary) by exact (f_equal (fun q => snd (fst q)) H).
  assert (H4 : canon_usage u = canon_usage u') by exact (f_equal (fun q => snd q) H).
  clear H. unfold shape_body.
  destruct (SR.Model.Picture.size_loop es 0) as [size|]; [|reflexivity]. cbv zeta.
  destruct (_ && _).
  - cbn [kind_of_shape]. rewrite H1, H2, H3, H4. reflexivity.
  - destruct es as [|[[| | |] [|c t]] [|? ?]]; try reflexivity. destruct (all_X (c :: t)); [|reflexivity].
    cbn [kind_of_shape]. rewrite H1. reflexivity.
Qed.

(* the text estruct parses for an entry *)
Definition ctext (e : SR.Model.Structure.entry) : str :=
  [fst (SR.Model.Structure.elv e); snd (SR.Model.Structure.elv e); 32%N] ++ SR.Model.Structure.etext e.

Lemma kind_agrees : forall e, reparse_agrees e = true ->
  kind_of_cobol (ctext (spec_entry e))
  = match est_formula (usage_number (spec_info e)) (i_pic (spec_info e)) with
    | ROk (u, es) => kind_of_shape (shape_body u es)
    | _ => None
    end.
Proof.
  intros e H. unfold reparse_agrees in H. apply andb_true_iff in H as [H P]. apply andb_true_iff in H as [C U].
  apply Nat.leb_le in C. apply N.eqb_eq in U. apply optstr_eqb_eq in P.
  unfold kind_of_cobol, shape_of_cobol, ctext, spec_entry. cbn [SR.Model.Structure.elv SR.Model.Structure.etext fst snd].
  rewrite (est_loop_summary _ _ C), U, P.
  destruct (est_formula _ _) as [[u es]|ex|w]; reflexivity.
Qed.

Lemma respell_kind : forall e e', same_clauses e e' -> ce_ok e = true -> ce_ok e' = true ->
  respelling_domain e = true -> respelling_domain e' = true ->
  kind_of_cobol (ctext (spec_entry e)) = kind_of_cobol (ctext (spec_entry e')).
Proof.
  intros e e' SC OK OK' RD RD'. pose proof (normal_same_clauses e e' SC OK OK') as N.
  unfold respelling_domain in RD, RD'. apply andb_true_iff in RD as [_ RA]. apply andb_true_iff in RD' as [_ RA'].
  assert (IP : i_pic (spec_info e) = i_pic (spec_info e')) by exact (lookup_verbatim 7 _ _ N (fun v => eq_refl)).
  pose proof (usage_unpack e e' N RA RA') as UC.
  rewrite (kind_agrees e RA), (kind_agrees e' RA'), <- IP. unfold est_formula.
  destruct (i_pic (spec_info e)) as [q|]; [|apply kind_class; exact UC].
  destruct (SR.Model.Picture.dec_normalize q) as [[es|ex]|]; try reflexivity. apply kind_class. exact UC.
Qed.

(* structure() on entries that also agree on the decoder's kind *)
Definition dsim3 (d d' : SR.Model.Structure.dde) : Prop :=
  dsim2 d d' /\ kind_of_cobol (SR.Model.Structure.cobol_of d) = kind_of_cobol (SR.Model.Structure.cobol_of d').
Definition esim3 (e e' : SR.Model.Structure.entry) : Prop := esim2 e e' /\ kind_of_cobol (ctext e) = kind_of_cobol (ctext e').

Lemma mk_ddes_sim3 : forall l l', Forall2 esim3 l l' -> forall c, Forall2 dsim3 (SR.Model.Structure.mk_ddes c l) (SR.Model.Structure.mk_ddes c l').
Proof.
  intros l l' F. induction F as [|e e' l l' [E2 K] F IH]; intros c; cbn [SR.Model.Structure.mk_ddes]; [constructor|].
  pose proof (mk_ddes_sim2 [e] [e'] (Forall2_cons _ _ E2 (Forall2_nil _)) c) as H1. cbn [SR.Model.Structure.mk_ddes] in H1.
  destruct E2 as (L & Nm & R1 & Ep & Eo & Cs).
  assert (IF : SR.Model.Structure.is_filler e' = SR.Model.Structure.is_filler e) by (unfold SR.Model.Structure.is_filler; rewrite Nm; reflexivity).
  rewrite IF in *. rewrite <- L in *. destruct (SR.Model.Structure.is_filler e); inversion H1 as [|? ? ? ? Hd _]; subst;
    (constructor; [split; [exact Hd|exact K]|apply IH]).
Qed.

Lemma dsim3_lv : forall d d', dsim3 d d' -> SR.Model.Structure.dlv d = SR.Model.Structure.dlv d'.
Proof. intros d d' [H _]. apply dsim2_lv. exact H. Qed.
Lemma dsim3_red : forall d d', dsim3 d d' -> SR.Model.Structure.eredef (SR.Model.Structure.de d) = SR.Model.Structure.eredef (SR.Model.Structure.de d').
Proof. intros d d' [H _]. apply dsim2_red. exact H. Qed.
Lemma dsim3_nm : forall d d', dsim3 d d' -> SR.Model.Structure.dde_name (SR.Model.Structure.de d) = SR.Model.Structure.dde_name (SR.Model.Structure.de d').
Proof. intros d d' [H _]. apply dsim2_nm. exact H. Qed.

Theorem kind_table_sim :
  (forall xt xt', tsim dsim3 (erase xt) (erase xt') -> kind_table xt = kind_table xt' /\ kinds_defined xt = kinds_defined xt')
  /\ (forall ks ks', Forall2 (tsim dsim3) (erase_f ks) (erase_f ks') ->
        kind_table_f ks = kind_table_f ks' /\ kinds_defined_f ks = kinds_defined_f ks').
Proof.
  apply xtree_xforest_ind.
  - intros d b x kids IH [d' b' x' kids'] T. cbn [erase] in T. inversion T as [? ? ? ? ? Hd Hk]; subst.
    destruct Hd as [(L & U & Nm & Rd & Ep & Eo & Cs) K]. destruct (IH kids' Hk) as [I1 I2].
    cbn [kind_table kinds_defined]. rewrite <- K, <- U, <- Eo, <- Ep, <- I1, <- I2.
    assert (SH : match kids, kids' with XNil, XNil => True | XCons _ _, XCons _ _ => True | _, _ => False end).
    { destruct kids, kids'; cbn [erase_f] in Hk; inversion Hk; exact I. }
    destruct (SR.Model.Structure.eocc (SR.Model.Structure.de d)); [split; reflexivity|]. destruct kids, kids'; try contradiction; split; reflexivity.
  - intros [|k' r'] T; cbn [erase_f] in T; inversion T. split; reflexivity.
  - intros k IHk r IHr [|k' r'] T; cbn [erase_f] in T; inversion T as [|? ? ? ? Hk Hr]; subst.
    destruct (IHk k' Hk) as [K1 K2]. destruct (IHr r' Hr) as [R1 R2]. cbn [kind_table_f kinds_defined_f]. rewrite K1, K2, R1, R2. split; reflexivity.
Qed.

Lemma spec_entry_ctext : forall e, ctext (spec_entry e) = [ce_d1 e; ce_d2 e; 32%N] ++ SR.Model.RefFormat.compact (ce_body e).
Proof. reflexivity. Qed.

(* two printings of the same entries: their forests agree on the decoders as well *)
Lemma respelling_kinds : forall es tail seqs es' tail' seqs' f f' xf xf',
  Forall2 same_clauses es es' ->
  copybook_ok es tail seqs = true -> copybook_ok es' tail' seqs' = true ->
  forallb respelling_domain es = true -> forallb respelling_domain es' = true ->
  SR.Model.Structure.structure (map spec_entry es) = Ok f -> SR.Model.Structure.structure (map spec_entry es') = Ok f' ->
  map erase xf = f -> map erase xf' = f' ->
  map kind_table xf = map kind_table xf' /\ map kinds_defined xf = map kinds_defined xf'.
Proof.
  intros es tail seqs es' tail' seqs' f f' xf xf' SC OK OK' RD RD' Hf Hf' R R'.
  assert (OKe : forallb ce_ok es = true).
  { unfold copybook_ok in OK. apply andb_true_iff in OK as [OK0 _]. apply andb_true_iff in OK0 as [OK0 _]. exact OK0. }
  assert (OKe' : forallb ce_ok es' = true).
  { unfold copybook_ok in OK'. apply andb_true_iff in OK' as [OK0 _]. apply andb_true_iff in OK0 as [OK0 _]. exact OK0. }
  assert (ES : Forall2 esim3 (map spec_entry es) (map spec_entry es')).
  { clear - SC OKe OKe' RD RD'. revert OKe OKe' RD RD'.
    induction SC as [|e e' es es' Se SC IH]; intros OKe OKe' RD RD'; [constructor|]. cbn [forallb map] in *.
    apply andb_true_iff in OKe as [O1 O2]. apply andb_true_iff in OKe' as [O1' O2'].
    apply andb_true_iff in RD as [D1 D2]. apply andb_true_iff in RD' as [D1' D2'].
    constructor; [|apply IH; assumption]. split; [apply (respell_sim3 e e' Se O1 O1' D1 D1')|apply respell_kind; assumption]. }
  pose proof (structure_ddes_sim dsim3 dsim3_lv dsim3_red dsim3_nm _ _ (mk_ddes_sim3 _ _ ES 0%N)) as SS.
  fold (SR.Model.Structure.structure (map spec_entry es)) in SS. fold (SR.Model.Structure.structure (map spec_entry es')) in SS.
  rewrite Hf, Hf', <- R, <- R' in SS. clear - SS.
  revert xf' SS. induction xf as [|t xf IH]; intros [|t' xf'] SS; cbn [map] in SS; inversion SS as [|? ? ? ? Ht Tr]; subst; [split; reflexivity|].
  destruct (proj1 kind_table_sim t t' Ht) as [K1 K2]. destruct (IH xf' Tr) as [I1 I2]. cbn [map]. rewrite K1, K2, I1, I2. split; reflexivity.
Qed.

(* the value delivered for path p in record number k of the text, on the record instance r, each atom decoded by its own
   cobol text (kinds_of); None: no such record, or the decoders are not defined *)
Definition value_in_text (text : str) (xf : list xtree) (k : nat) (dcount : list N -> nat) (r : list N) (p : list step)
  : option (vres (pv pyval)) :=
  match layouts_of_text text, nth_error xf k with
  | Some ss, Some t => match nth_error ss k with Some s => Some (value_at (kinds_of t) dcount r s p) | None => None end
  | _, _ => None
  end.

Theorem respelling_values : forall es tail seqs es' tail' seqs',
  Forall2 same_clauses es es' ->
  copybook_ok es tail seqs = true -> copybook_ok es' tail' seqs' = true ->
  forallb respelling_domain es = true -> forallb respelling_domain es' = true ->
  text_values_ok es = true ->
  text_values_ok es' = true
  /\ exists xf xf', forest_of_entries es = Some xf /\ forest_of_entries es' = Some xf'
       /\ map kinds_of xf = map kinds_of xf'
       /\ forall (k : nat) (dcount : list N -> nat) (r : list N) (p : list step),
            value_in_text (print_copybook es tail seqs) xf k dcount r p
            = value_in_text (print_copybook es' tail' seqs') xf' k dcount r p.
Proof.
  intros es tail seqs es' tail' seqs' SC OK OK' RD RD' TV.
  unfold text_values_ok in TV. apply andb_true_iff in TV as [TL KD].
  destruct (respelling_layout es tail seqs es' tail' seqs' SC OK OK' RD RD' TL) as (TL' & RE & schemas & L & L').
  assert (TLc := TL). unfold text_layout_ok in TLc. apply andb_true_iff in TLc as [BD _].
  destruct (text_documents_are_built es tail seqs OK BD) as (f & xf & docs & Hf & A & R & _).
  assert (TLc' := TL'). unfold text_layout_ok in TLc'. apply andb_true_iff in TLc' as [BD' _].
  destruct (text_documents_are_built es' tail' seqs' OK' BD') as (f' & xf' & docs' & Hf' & A' & R' & _).
  assert (FE : forest_of_entries es = Some xf) by (rewrite (forest_of_entries_eq es f Hf); exact A).
  assert (FE' : forest_of_entries es' = Some xf') by (rewrite (forest_of_entries_eq es' f' Hf'); exact A').
  destruct (respelling_kinds es tail seqs es' tail' seqs' f f' xf xf' SC OK OK' RD RD' Hf Hf' R R') as [KT KDf].
  assert (IT : map item_of xf = map item_of xf').
  { unfold records_of_entries in RE. rewrite FE, FE' in RE. cbn [option_map] in RE. injection RE as RE. exact RE. }
  assert (KO : map kinds_of xf = map kinds_of xf').
  { unfold kinds_of. rewrite <- (map_map kind_table table_kinds xf), <- (map_map kind_table table_kinds xf'), KT. reflexivity. }
  split.
  - unfold text_values_ok. rewrite TL', FE'. rewrite FE in KD. cbn [andb].
    assert (PE : forallb (fun t => kinds_defined t && nodupb (ids (item_of t))) xf
                 = forallb (fun t => kinds_defined t && nodupb (ids (item_of t))) xf').
    { clear - KDf IT. revert xf' KDf IT. induction xf as [|t xf IH]; intros [|t' xf'] K I; cbn [map] in *; try discriminate; [reflexivity|].
      injection K as K1 K2. injection I as I1 I2. cbn [forallb]. rewrite K1, I1, (IH xf' K2 I2). reflexivity. }
    rewrite <- PE. exact KD.
  - exists xf, xf'. split; [exact FE|]. split; [exact FE'|]. split; [exact KO|].
    intros k dcount r p. unfold value_in_text. rewrite L, L'.
    pose proof (f_equal (fun l => nth_error l k) KO) as NK. cbn beta in NK. rewrite !nth_error_map in NK.
    destruct (nth_error xf k) as [t|], (nth_error xf' k) as [t'|]; cbn [option_map] in NK; try discriminate; [|reflexivity].
    injection NK as NK. rewrite NK. reflexivity.
Qed.

(* the size the decoder computes from the cobol text of an entry does not depend on its spelling (inside the respelling domain) *)
Theorem respelling_size : forall e e', same_clauses e e' -> ce_ok e = true -> ce_ok e' = true ->
  respelling_domain e = true -> respelling_domain e' = true ->
  calcsize_text (ctext (spec_entry e)) = calcsize_text (ctext (spec_entry e')).
Proof.
  intros e e' SC OK OK' RD RD'. destruct (respell_sim3 e e' SC OK OK' RD RD') as [(_ & _ & _ & _ & _ & Cs) _]. exact Cs.
Qed.
