From Coq Require Import ZArith NArith List Bool Lia Arith ZifyBool ZifyN ZifyNat.
Import ListNotations.
Require Import SR.Base.Res SR.Spec.JsonDoc SR.Gen.SchemaMakerParams SR.Model.SchemaMaker.
(* The definitions of this development that occur in theorem statements (Props/) live in Spec/SchemaMakerWitness.v (audit item G1).
   The abbreviations keep the qualified names SchemaMakerP.name of other files resolving; they are parsing-only aliases. *)
Require Export SR.Spec.SchemaMakerWitness.
Notation mk_atom := SR.Spec.SchemaMakerWitness.mk_atom (only parsing).
Notation mk_ref := SR.Spec.SchemaMakerWitness.mk_ref (only parsing).
Notation mk_obj := SR.Spec.SchemaMakerWitness.mk_obj (only parsing).
Notation mk_arr := SR.Spec.SchemaMakerWitness.mk_arr (only parsing).
Notation mk_one := SR.Spec.SchemaMakerWitness.mk_one (only parsing).
Notation nX := SR.Spec.SchemaMakerWitness.nX (only parsing).
Notation nY := SR.Spec.SchemaMakerWitness.nY (only parsing).
Notation ka := SR.Spec.SchemaMakerWitness.ka (only parsing).
Notation kt := SR.Spec.SchemaMakerWitness.kt (only parsing).
Notation kr := SR.Spec.SchemaMakerWitness.kr (only parsing).
Notation kv := SR.Spec.SchemaMakerWitness.kv (only parsing).
Notation kw := SR.Spec.SchemaMakerWitness.kw (only parsing).
Notation witness_shadow := SR.Spec.SchemaMakerWitness.witness_shadow (only parsing).
Notation witness_title_only := SR.Spec.SchemaMakerWitness.witness_title_only (only parsing).
Notation example_doc := SR.Spec.SchemaMakerWitness.example_doc (only parsing).
Notation example_dangling := SR.Spec.SchemaMakerWitness.example_dangling (only parsing).
Notation example_instance := SR.Spec.SchemaMakerWitness.example_instance (only parsing).

(* ------------------------------------------------------------------ equality tests *)

Lemma str_eqb_refl s : str_eqb s s = true.
Proof. induction s as [|c t IH]; simpl; [reflexivity|]. rewrite N.eqb_refl. exact IH. Qed.

Lemma str_eqb_eq a : forall b, str_eqb a b = true -> a = b.
Proof.
  induction a as [|x a IH]; intros [|y b] H; simpl in H; try discriminate; [reflexivity|].
  apply andb_true_iff in H. destruct H as [H1 H2]. apply N.eqb_eq in H1. subst y.
  rewrite (IH b H2). reflexivity.
Qed.

Lemma str_eqb_false a b : str_eqb a b = false -> a <> b.
Proof. intros H E. subst b. rewrite str_eqb_refl in H. discriminate. Qed.

Lemma ostr_eqb_refl s : ostr_eqb s s = true.
Proof. destruct s; simpl; [apply str_eqb_refl|reflexivity]. Qed.

Lemma extra_eqb_refl l : extra_eqb l l = true.
Proof.
  induction l as [|[k v] r IH]; simpl; [reflexivity|].
  rewrite !str_eqb_refl, IH. reflexivity.
Qed.

Lemma scal_eqb_refl sc : scal_eqb sc sc = true.
Proof. unfold scal_eqb. rewrite !ostr_eqb_refl, extra_eqb_refl. reflexivity. Qed.

Lemma path_eqb_refl p : path_eqb p p = true.
Proof. induction p as [|n p IH]; simpl; [reflexivity|]. rewrite Nat.eqb_refl. exact IH. Qed.

Lemma path_eqb_eq a : forall b, path_eqb a b = true -> a = b.
Proof.
  induction a as [|x a IH]; intros [|y b] H; simpl in H; try discriminate; [reflexivity|].
  apply andb_true_iff in H. destruct H as [H1 H2]. apply Nat.eqb_eq in H1. subst y.
  rewrite (IH b H2). reflexivity.
Qed.

(* ------------------------------------------------------------------ induction over documents *)

Scheme js_mut := Induction for js Sort Prop
with oalts_mut := Induction for oalts Sort Prop
with alts_mut := Induction for alts Sort Prop
with ojs_mut := Induction for ojs Sort Prop
with oprops_mut := Induction for oprops Sort Prop
with props_mut := Induction for props Sort Prop.
Combined Scheme js_all_ind from js_mut, oalts_mut, alts_mut, ojs_mut, oprops_mut, props_mut.

Lemma js_triple_ind (Pj : js -> Prop) (Pa : alts -> Prop) (Pp : props -> Prop) :
  (forall sc o i p,
      (forall l, o = OASome l -> Pa l) -> (forall x, i = OJSome x -> Pj x) -> (forall l, p = OPSome l -> Pp l) ->
      Pj (Node sc o i p)) ->
  Pa ANil -> (forall x r, Pj x -> Pa r -> Pa (ACons x r)) ->
  Pp PNil -> (forall k x r, Pj x -> Pp r -> Pp (PCons k x r)) ->
  (forall d, Pj d) /\ (forall l, Pa l) /\ (forall l, Pp l).
Proof.
  intros HN HA0 HA1 HP0 HP1.
  destruct (js_all_ind Pj (fun o => forall l, o = OASome l -> Pa l) Pa
                       (fun i => forall x, i = OJSome x -> Pj x)
                       (fun p => forall l, p = OPSome l -> Pp l) Pp) as (H1 & _ & H3 & _ & _ & H6).
  - intros sc o Ho i Hi p Hp. apply HN; assumption.
  - intros l E. discriminate.
  - intros l Hl l' E. injection E as <-. exact Hl.
  - exact HA0.
  - intros x Hx r Hr. apply HA1; assumption.
  - intros x E. discriminate.
  - intros x Hx x' E. injection E as <-. exact Hx.
  - intros l E. discriminate.
  - intros l Hl l' E. injection E as <-. exact Hl.
  - exact HP0.
  - intros k v Hv r Hr. apply HP1; assumption.
  - auto.
Qed.

Lemma js_eqb_refl_all :
  (forall d, js_eqb d d = true) /\ (forall l, alts_eqb l l = true) /\ (forall l, props_eqb l l = true).
Proof.
  apply js_triple_ind.
  - intros sc o i p Ho Hi Hp. simpl. rewrite scal_eqb_refl. simpl.
    assert (Eo : oalts_eqb o o = true) by (destruct o as [|l]; simpl; [reflexivity|apply Ho; reflexivity]).
    assert (Ei : ojs_eqb i i = true) by (destruct i as [|x]; simpl; [reflexivity|apply Hi; reflexivity]).
    assert (Ep : oprops_eqb p p = true) by (destruct p as [|l]; simpl; [reflexivity|apply Hp; reflexivity]).
    rewrite Eo, Ei, Ep. reflexivity.
  - reflexivity.
  - intros x r Hx Hr. simpl. rewrite Hx, Hr. reflexivity.
  - reflexivity.
  - intros k x r Hx Hr. simpl. rewrite str_eqb_refl, Hx, Hr. reflexivity.
Qed.

Lemma js_eqb_refl d : js_eqb d d = true.
Proof. apply js_eqb_refl_all. Qed.

(* ------------------------------------------------------------------ the source's ATOMIC set *)

Lemma in_atomic_spec t : in_atomic t = is_atomic t.
Proof.
  unfold in_atomic, is_atomic, mem, atomic_names, atomic_types, s_null, s_boolean, s_integer, s_number, s_string.
  cbn [existsb].
  destruct (str_eqb t [98; 111; 111; 108; 101; 97; 110]%N), (str_eqb t [105; 110; 116; 101; 103; 101; 114]%N),
    (str_eqb t [110; 117; 108; 108]%N), (str_eqb t [110; 117; 109; 98; 101; 114]%N),
    (str_eqb t [115; 116; 114; 105; 110; 103]%N); reflexivity.
Qed.

(* ------------------------------------------------------------------ walk_schema, one node, flat form *)

Definition props_or_nil (p : oprops) : props := match p with OPSome l => l | OPNone => PNil end.

Definition after_array (sc : scal) (o : oalts) (i : ojs) (p : oprops) (rp : path)
           (r : res (schema * cache * fixups)) : res (schema * cache * fixups) :=
  match r with
  | Err e => Err e
  | Ok (it, c1, fx1) =>
      match k_mido sc with
      | None => finish sc rp (LArray (Node sc o i p) it) c1 fx1
      | Some m =>
          match ref_name (Some m) with
          | Some name =>
              match lookup name c1 with
              | Some t => finish sc rp (LDepends (Node sc o i p) it t) c1 fx1
              | None => Err ValueError
              end
          | None => Err AssertionError
          end
      end
  end.

Lemma walk_node_eq sc o i p rp c fx :
  walk (Node sc o i p) rp c fx =
  if nonempty_alts o then
    match o with
    | OASome l =>
        match walk_alts l rp 0 c fx with
        | Ok (ss, c1, fx1) => finish sc rp (LOneOf (Node sc o i p) ss) c1 fx1
        | Err e => Err e
        end
    | OANone => Err OtherError
    end
  else if nonempty_str (k_ref sc) then
    match ref_name (k_ref sc) with
    | Some name =>
        match lookup name c with
        | Some t => finish sc rp (LRefTo (Node sc o i p) (Some t)) c fx
        | None => finish sc rp (LRefTo (Node sc o i p) None) c ((rev rp, name) :: fx)
        end
    | None => Err AssertionError
    end
  else
    match k_type sc with
    | None => Err KeyError
    | Some t =>
        if is_atomic t then finish sc rp (LAtomic (Node sc o i p)) c fx
        else if str_eqb t s_array || has_items i then
          match i with
          | OJNone => Err KeyError
          | OJSome x => after_array sc o i p rp (walk x (0%nat :: rp) c fx)
          end
        else if str_eqb t s_object || has_props p then
          match walk_props (props_or_nil p) rp 0 c fx with
          | Ok (ps, c1, fx1) => finish sc rp (LObject (Node sc o i p) ps) c1 fx1
          | Err e => Err e
          end
        else Err ValueError
    end.
Proof.
  assert (T : forall o', nonempty_alts o' = false ->
    match o' with
    | OASome (ACons _ _ as l) =>
        match walk_alts l rp 0 c fx with
        | Ok (ss, c1, fx1) => finish sc rp (LOneOf (Node sc o' i p) ss) c1 fx1
        | Err e => Err e
        end
    | _ =>
      match k_ref sc with
      | Some (ch :: name) =>
          if N.eqb ch hash then
            match lookup name c with
            | Some t => finish sc rp (LRefTo (Node sc o' i p) (Some t)) c fx
            | None => finish sc rp (LRefTo (Node sc o' i p) None) c ((rev rp, name) :: fx)
            end
          else Err AssertionError
      | _ =>
          match k_type sc with
          | None => Err KeyError
          | Some t =>
              if in_atomic t then finish sc rp (LAtomic (Node sc o' i p)) c fx
              else if str_eqb t s_array || has_items i then
                match i with
                | OJNone => Err KeyError
                | OJSome x =>
                    match walk x (0%nat :: rp) c fx with
                    | Err e => Err e
                    | Ok (it, c1, fx1) =>
                        match k_mido sc with
                        | None => finish sc rp (LArray (Node sc o' i p) it) c1 fx1
                        | Some (ch :: name) =>
                            if N.eqb ch hash then
                              match lookup name c1 with
                              | Some t => finish sc rp (LDepends (Node sc o' i p) it t) c1 fx1
                              | None => Err ValueError
                              end
                            else Err AssertionError
                        | Some [] => Err AssertionError
                        end
                    end
                end
              else if str_eqb t s_object || has_props p then
                match p with
                | OPSome l =>
                    match walk_props l rp 0 c fx with
                    | Ok (ps, c1, fx1) => finish sc rp (LObject (Node sc o' i p) ps) c1 fx1
                    | Err e => Err e
                    end
                | OPNone => finish sc rp (LObject (Node sc o' i p) SPNil) c fx
                end
              else Err ValueError
          end
      end
    end =
    if nonempty_str (k_ref sc) then
      match ref_name (k_ref sc) with
      | Some name =>
          match lookup name c with
          | Some t => finish sc rp (LRefTo (Node sc o' i p) (Some t)) c fx
          | None => finish sc rp (LRefTo (Node sc o' i p) None) c ((rev rp, name) :: fx)
          end
      | None => Err AssertionError
      end
    else
      match k_type sc with
      | None => Err KeyError
      | Some t =>
          if is_atomic t then finish sc rp (LAtomic (Node sc o' i p)) c fx
          else if str_eqb t s_array || has_items i then
            match i with
            | OJNone => Err KeyError
            | OJSome x => after_array sc o' i p rp (walk x (0%nat :: rp) c fx)
            end
          else if str_eqb t s_object || has_props p then
            match walk_props (props_or_nil p) rp 0 c fx with
            | Ok (ps, c1, fx1) => finish sc rp (LObject (Node sc o' i p) ps) c1 fx1
            | Err e => Err e
            end
          else Err ValueError
      end).
  { intros o' Hne.
    assert (TD :
      match k_type sc with
      | None => Err KeyError
      | Some t =>
          if in_atomic t then finish sc rp (LAtomic (Node sc o' i p)) c fx
          else if str_eqb t s_array || has_items i then
            match i with
            | OJNone => Err KeyError
            | OJSome x =>
                match walk x (0%nat :: rp) c fx with
                | Err e => Err e
                | Ok (it, c1, fx1) =>
                    match k_mido sc with
                    | None => finish sc rp (LArray (Node sc o' i p) it) c1 fx1
                    | Some (ch :: name) =>
                        if N.eqb ch hash then
                          match lookup name c1 with
                          | Some t => finish sc rp (LDepends (Node sc o' i p) it t) c1 fx1
                          | None => Err ValueError
                          end
                        else Err AssertionError
                    | Some [] => Err AssertionError
                    end
                end
            end
          else if str_eqb t s_object || has_props p then
            match p with
            | OPSome l =>
                match walk_props l rp 0 c fx with
                | Ok (ps, c1, fx1) => finish sc rp (LObject (Node sc o' i p) ps) c1 fx1
                | Err e => Err e
                end
            | OPNone => finish sc rp (LObject (Node sc o' i p) SPNil) c fx
            end
          else Err ValueError
      end =
      match k_type sc with
      | None => Err KeyError
      | Some t =>
          if is_atomic t then finish sc rp (LAtomic (Node sc o' i p)) c fx
          else if str_eqb t s_array || has_items i then
            match i with
            | OJNone => Err KeyError
            | OJSome x => after_array sc o' i p rp (walk x (0%nat :: rp) c fx)
            end
          else if str_eqb t s_object || has_props p then
            match walk_props (props_or_nil p) rp 0 c fx with
            | Ok (ps, c1, fx1) => finish sc rp (LObject (Node sc o' i p) ps) c1 fx1
            | Err e => Err e
            end
          else Err ValueError
      end).
    { destruct (k_type sc) as [t|]; [|reflexivity].
      rewrite in_atomic_spec. destruct (is_atomic t); [reflexivity|].
      destruct (str_eqb t s_array || has_items i).
      - destruct i as [|x]; [reflexivity|]. unfold after_array.
        destruct (walk x (0%nat :: rp) c fx) as [[[it c1] fx1]|e]; [|reflexivity].
        destruct (k_mido sc) as [[|ch name]|]; try reflexivity.
        unfold ref_name. destruct (N.eqb ch hash); reflexivity.
      - destruct (str_eqb t s_object || has_props p); [|reflexivity].
        destruct p as [|l]; reflexivity. }
    destruct o' as [|[|x r]]; try discriminate.
    - destruct (k_ref sc) as [[|ch name]|]; simpl nonempty_str; cbv iota; try exact TD.
      unfold ref_name. destruct (N.eqb ch hash); reflexivity.
    - destruct (k_ref sc) as [[|ch name]|]; simpl nonempty_str; cbv iota; try exact TD.
      unfold ref_name. destruct (N.eqb ch hash); reflexivity. }
  destruct (nonempty_alts o) eqn:Hne.
  - destruct o as [|[|x r]]; try discriminate. reflexivity.
  - specialize (T o Hne). cbn [walk]. exact T.
Qed.

(* ------------------------------------------------------------------ small list facts *)

Lemma lookup_In {T} x (l : list (str * T)) t : lookup x l = Some t -> In (x, t) l.
Proof.
  induction l as [|[k v] r IH]; simpl; [discriminate|].
  destruct (str_eqb x k) eqn:E.
  - intros H. injection H as <-. apply str_eqb_eq in E. subst k. left. reflexivity.
  - intros H. right. apply IH. exact H.
Qed.

Lemma In_lookup_some {T} x (l : list (str * T)) t : In (x, t) l -> lookup x l <> None.
Proof.
  induction l as [|[k v] r IH]; simpl; [contradiction|].
  intros [E|H].
  - injection E as -> ->. rewrite str_eqb_refl. discriminate.
  - destruct (str_eqb x k); [discriminate|]. apply IH. exact H.
Qed.

Lemma mem_In x l : mem x l = true <-> In x l.
Proof.
  unfold mem. rewrite existsb_exists. split.
  - intros (y & Hy & E). apply str_eqb_eq in E. subst y. exact Hy.
  - intros H. exists x. split; [exact H|apply str_eqb_refl].
Qed.

Lemma lookup_nodup {T} (l : list (str * T)) x t :
  nodup_str (map fst l) = true -> In (x, t) l -> lookup x l = Some t.
Proof.
  induction l as [|[k v] r IH]; simpl; [contradiction|].
  intros Hnd [E|H].
  - injection E as -> ->. rewrite str_eqb_refl. reflexivity.
  - apply andb_true_iff in Hnd. destruct Hnd as [Hk Hr].
    destruct (str_eqb x k) eqn:E.
    + apply str_eqb_eq in E. subst k. exfalso.
      apply negb_true_iff in Hk.
      assert (M : mem x (map fst r) = true).
      { apply mem_In. apply in_map_iff. exists (x, t). split; [reflexivity|exact H]. }
      rewrite M in Hk. discriminate.
    + apply IH; assumption.
Qed.

(* ------------------------------------------------------------------ the invariant of the walk *)

Definition dnode := (path * scal * kind)%type.
Definition entry (e : dnode) : str * path := (cache_key (snd (fst e)), fst (fst e)).

Definition tgt_ok (c : cache) (fx : fixups) (e : str * option path) : Prop :=
  match snd e with
  | Some t => In (fst e, t) c
  | None => In (fst e) (map snd fx)
  end.

(* walking the nodes [ns] (document order) from cache c and fixups fx gives c2, fx2 and a piece of
   graph holding the references [tg] *)
Definition inv (ns : list dnode) (tg : list (str * option path)) (c : cache) (fx : fixups)
           (c2 : cache) (fx2 : fixups) : Prop :=
  (forall e, In e c2 <-> In e c \/ In e (map entry ns)) /\
  Forall (tgt_ok c2 fx2) tg /\
  map fst tg = flat_map ref_entry ns /\
  incl fx fx2 /\
  (forall x, In x (map snd fx2) -> In x (map snd fx) \/ In x (flat_map ref_entry ns)).

Lemma tgt_ok_mono c fx c2 fx2 e :
  incl c c2 -> incl fx fx2 -> tgt_ok c fx e -> tgt_ok c2 fx2 e.
Proof.
  unfold tgt_ok. intros Hc Hf. destruct (snd e).
  - apply Hc.
  - intros H. apply in_map_iff in H. destruct H as (y & E & Hy).
    apply in_map_iff. exists y. split; [exact E|apply Hf; exact Hy].
Qed.

Lemma inv_nil c fx : inv [] [] c fx c fx.
Proof.
  unfold inv. simpl. repeat split; try tauto.
  - constructor.
  - apply incl_refl.
Qed.

Lemma inv_incl ns tg c fx c2 fx2 : inv ns tg c fx c2 fx2 -> incl c c2.
Proof. intros (H & _) e He. apply H. left. exact He. Qed.

Lemma inv_app ns1 tg1 ns2 tg2 c fx c1 fx1 c2 fx2 :
  inv ns1 tg1 c fx c1 fx1 -> inv ns2 tg2 c1 fx1 c2 fx2 -> inv (ns1 ++ ns2) (tg1 ++ tg2) c fx c2 fx2.
Proof.
  intros (A1 & A2 & A3 & A4 & A5) (B1 & B2 & B3 & B4 & B5).
  unfold inv. repeat split.
  - intros H. apply B1 in H. rewrite map_app, in_app_iff. destruct H as [H|H]; [|tauto].
    apply A1 in H. tauto.
  - intros H. apply B1. rewrite map_app, in_app_iff in H. destruct H as [H|[H|H]].
    + left. apply A1. left. exact H.
    + left. apply A1. right. exact H.
    + right. exact H.
  - apply Forall_app. split; [|exact B2].
    eapply Forall_impl; [|exact A2]. intros e. apply tgt_ok_mono.
    + intros y Hy. apply B1. left. exact Hy.
    + exact B4.
  - rewrite map_app, flat_map_app, A3, B3. reflexivity.
  - eapply incl_tran; eassumption.
  - intros x H. apply B5 in H. rewrite flat_map_app, in_app_iff. destruct H as [H|H]; [|tauto].
    apply A5 in H. tauto.
Qed.

(* the node itself is written to the cache after its children *)
Lemma inv_post n ns tg c fx c1 fx1 :
  inv ns tg c fx c1 fx1 -> ref_entry n = [] -> inv (n :: ns) tg c fx (entry n :: c1) fx1.
Proof.
  intros (A1 & A2 & A3 & A4 & A5) Hr. unfold inv. repeat split.
  - intros [H|H]; [right; left; exact H|]. apply A1 in H. simpl. tauto.
  - intros [H|[H|H]].
    + right. apply A1. left. exact H.
    + left. exact H.
    + right. apply A1. right. exact H.
  - eapply Forall_impl; [|exact A2]. intros e. apply tgt_ok_mono.
    + intros y Hy. right. exact Hy.
    + apply incl_refl.
  - simpl. rewrite Hr. exact A3.
  - exact A4.
  - intros x H. apply A5 in H. simpl. rewrite Hr. exact H.
Qed.

Lemma inv_post_dep n name t ns tg c fx c1 fx1 :
  inv ns tg c fx c1 fx1 -> ref_entry n = [name] -> In (name, t) c1 ->
  inv (n :: ns) ((name, Some t) :: tg) c fx (entry n :: c1) fx1.
Proof.
  intros (A1 & A2 & A3 & A4 & A5) Hr Hin. unfold inv. repeat split.
  - intros [H|H]; [right; left; exact H|]. apply A1 in H. simpl. tauto.
  - intros [H|[H|H]].
    + right. apply A1. left. exact H.
    + left. exact H.
    + right. apply A1. right. exact H.
  - constructor.
    + unfold tgt_ok. simpl. right. exact Hin.
    + eapply Forall_impl; [|exact A2]. intros e. apply tgt_ok_mono.
      * intros y Hy. right. exact Hy.
      * apply incl_refl.
  - simpl. rewrite Hr. simpl. rewrite A3. reflexivity.
  - exact A4.
  - intros x H. apply A5 in H. simpl. rewrite Hr. simpl. tauto.
Qed.

Lemma inv_ref_bound n name t c fx :
  ref_entry n = [name] -> In (name, t) c -> inv [n] [(name, Some t)] c fx (entry n :: c) fx.
Proof.
  intros Hr Hin. unfold inv. repeat split.
  - intros [H|H]; [right; left; exact H|left; exact H].
  - intros [H|[H|[]]]; [right; exact H|left; exact H].
  - constructor; [|constructor]. unfold tgt_ok. simpl. right. exact Hin.
  - simpl. rewrite Hr. reflexivity.
  - apply incl_refl.
  - intros x H. left. exact H.
Qed.

Lemma inv_ref_pending n name rpath c fx :
  ref_entry n = [name] -> inv [n] [(name, None)] c fx (entry n :: c) ((rpath, name) :: fx).
Proof.
  intros Hr. unfold inv. repeat split.
  - intros [H|H]; [right; left; exact H|left; exact H].
  - intros [H|[H|[]]]; [right; exact H|left; exact H].
  - constructor; [|constructor]. unfold tgt_ok. simpl. left. reflexivity.
  - simpl. rewrite Hr. reflexivity.
  - intros y Hy. right. exact Hy.
  - intros x [H|H]; [right; simpl in H; subst x|left; exact H].
    simpl. rewrite Hr. left. reflexivity.
Qed.

(* ------------------------------------------------------------------ the walk: mirror and invariant *)

Lemma nodes_node sc o i p rp :
  nodes (Node sc o i p) rp =
  (rev rp, sc, shape_kw sc o i p) ::
  match shape_kw sc o i p with
  | KOneOf => match o with OASome l => nodes_alts l rp 0 | OANone => [] end
  | KArray | KDepends => match i with OJSome x => nodes x (0%nat :: rp) | OJNone => [] end
  | KObject => match p with OPSome l => nodes_props l rp 0 | OPNone => [] end
  | _ => []
  end.
Proof. reflexivity. Qed.

Lemma ref_name_nonempty r name : ref_name r = Some name -> nonempty_str r = true.
Proof. destruct r as [[|ch s]|]; simpl; try discriminate. reflexivity. Qed.

Definition walk_ok_js (d : js) : Prop :=
  forall rp c fx s c2 fx2, walk d rp c fx = Ok (s, c2, fx2) ->
  mirrors s d = true /\ inv (nodes d rp) (stargets s) c fx c2 fx2.
Definition walk_ok_alts (l : alts) : Prop :=
  forall rp n c fx ss c2 fx2, walk_alts l rp n c fx = Ok (ss, c2, fx2) ->
  mirrors_alts ss l = true /\ inv (nodes_alts l rp n) (stargets_list ss) c fx c2 fx2.
Definition walk_ok_props (l : props) : Prop :=
  forall rp n c fx ps c2 fx2, walk_props l rp n c fx = Ok (ps, c2, fx2) ->
  mirrors_props ps l = true /\ inv (nodes_props l rp n) (stargets_props ps) c fx c2 fx2.

Lemma walk_ok_all :
  (forall d, walk_ok_js d) /\ (forall l, walk_ok_alts l) /\ (forall l, walk_ok_props l).
Proof.
  apply js_triple_ind.
  - (* a node *)
    intros sc o i p IHo IHi IHp rp c fx s c2 fx2 H.
    rewrite walk_node_eq in H. rewrite nodes_node.
    destruct (nonempty_alts o) eqn:Ho.
    { (* oneOf *)
      assert (Sh : shape_kw sc o i p = KOneOf) by (unfold shape_kw; rewrite Ho; reflexivity).
      destruct o as [|l]; [discriminate|].
      destruct (walk_alts l rp 0 c fx) as [[[ss c1] fx1]|e] eqn:E; [|discriminate].
      unfold finish in H. injection H as <- <- <-.
      destruct (IHo l eq_refl _ _ _ _ _ _ _ E) as [M I]. rewrite Sh. split.
      - cbn [mirrors attrs kind_of]. rewrite js_eqb_refl, Sh, M. reflexivity.
      - cbn [stargets]. apply (inv_post (rev rp, sc, KOneOf)); [exact I|reflexivity]. }
    destruct (nonempty_str (k_ref sc)) eqn:Hr.
    { (* $ref *)
      assert (Sh : shape_kw sc o i p = KRef) by (unfold shape_kw; rewrite Ho, Hr; reflexivity).
      rewrite Sh.
      destruct (ref_name (k_ref sc)) as [name|] eqn:En; [|discriminate].
      assert (Re : ref_entry (rev rp, sc, KRef) = [name]) by (unfold ref_entry; simpl; rewrite En; reflexivity).
      destruct (lookup name c) as [t|] eqn:El; unfold finish in H; injection H as <- <- <-.
      - split.
        + cbn [mirrors attrs kind_of]. rewrite js_eqb_refl, Sh. reflexivity.
        + cbn [stargets scal_of]. rewrite En. apply inv_ref_bound; [exact Re|]. apply lookup_In. exact El.
      - split.
        + cbn [mirrors attrs kind_of]. rewrite js_eqb_refl, Sh. reflexivity.
        + cbn [stargets scal_of]. rewrite En. apply inv_ref_pending. exact Re. }
    destruct (k_type sc) as [t|] eqn:Et; [|discriminate].
    destruct (is_atomic t) eqn:Ha.
    { (* atomic *)
      assert (Sh : shape_kw sc o i p = KAtomic) by (unfold shape_kw; rewrite Ho, Hr, Et, Ha; reflexivity).
      rewrite Sh. unfold finish in H. injection H as <- <- <-. split.
      - cbn [mirrors attrs kind_of]. rewrite js_eqb_refl, Sh. reflexivity.
      - cbn [stargets]. apply (inv_post (rev rp, sc, KAtomic)); [apply inv_nil|reflexivity]. }
    destruct (str_eqb t s_array || has_items i) eqn:Harr.
    { (* array *)
      destruct i as [|x]; [discriminate|].
      unfold after_array in H.
      destruct (walk x (0%nat :: rp) c fx) as [[[it c1] fx1]|e] eqn:E; [|discriminate].
      destruct (IHi x eq_refl _ _ _ _ _ _ E) as [M I].
      destruct (k_mido sc) as [m|] eqn:Em.
      - assert (Sh : shape_kw sc o (OJSome x) p = KDepends)
          by (unfold shape_kw; rewrite Ho, Hr, Et, Ha, Harr, Em; reflexivity).
        rewrite Sh.
        destruct (ref_name (Some m)) as [name|] eqn:En; [|discriminate].
        destruct (lookup name c1) as [tg|] eqn:El; [|discriminate].
        unfold finish in H. injection H as <- <- <-. split.
        + cbn [mirrors attrs kind_of]. rewrite js_eqb_refl, Sh, M. reflexivity.
        + cbn [stargets scal_of]. rewrite Em, En. cbn [app].
          apply (inv_post_dep (rev rp, sc, KDepends)); [exact I| |apply lookup_In; exact El].
          unfold ref_entry. simpl. rewrite Em, En. reflexivity.
      - assert (Sh : shape_kw sc o (OJSome x) p = KArray)
          by (unfold shape_kw; rewrite Ho, Hr, Et, Ha, Harr, Em; reflexivity).
        rewrite Sh. unfold finish in H. injection H as <- <- <-. split.
        + cbn [mirrors attrs kind_of]. rewrite js_eqb_refl, Sh, M. reflexivity.
        + cbn [stargets]. apply (inv_post (rev rp, sc, KArray)); [exact I|reflexivity]. }
    destruct (str_eqb t s_object || has_props p) eqn:Hobj; [|discriminate].
    { (* object *)
      assert (Sh : shape_kw sc o i p = KObject)
        by (unfold shape_kw; rewrite Ho, Hr, Et, Ha, Harr, Hobj; reflexivity).
      rewrite Sh.
      destruct (walk_props (props_or_nil p) rp 0 c fx) as [[[ps c1] fx1]|e] eqn:E; [|discriminate].
      unfold finish in H. injection H as <- <- <-.
      destruct p as [|l].
      - simpl in E. injection E as <- <- <-. split.
        + cbn [mirrors attrs kind_of]. rewrite js_eqb_refl, Sh. reflexivity.
        + cbn [stargets stargets_props]. apply (inv_post (rev rp, sc, KObject)); [apply inv_nil|reflexivity].
      - simpl in E. destruct (IHp l eq_refl _ _ _ _ _ _ _ E) as [M I]. split.
        + cbn [mirrors attrs kind_of]. rewrite js_eqb_refl, Sh, M. reflexivity.
        + cbn [stargets]. apply (inv_post (rev rp, sc, KObject)); [exact I|reflexivity]. }
  - intros rp n c fx ss c2 fx2 H. simpl in H. injection H as <- <- <-. split; [reflexivity|apply inv_nil].
  - intros x r IHx IHr rp n c fx ss c2 fx2 H. cbn [walk_alts] in H.
    destruct (walk x (n :: rp) c fx) as [[[s c1] fx1]|e] eqn:E1; [|discriminate].
    destruct (walk_alts r rp (S n) c1 fx1) as [[[ss' c3] fx3]|e] eqn:E2; [|discriminate].
    injection H as <- <- <-.
    destruct (IHx _ _ _ _ _ _ E1) as [M1 I1]. destruct (IHr _ _ _ _ _ _ _ E2) as [M2 I2]. split.
    + cbn [mirrors_alts]. rewrite M1, M2. reflexivity.
    + cbn [nodes_alts stargets_list]. eapply inv_app; eassumption.
  - intros rp n c fx ss c2 fx2 H. simpl in H. injection H as <- <- <-. split; [reflexivity|apply inv_nil].
  - intros k x r IHx IHr rp n c fx ss c2 fx2 H. cbn [walk_props] in H.
    destruct (walk x (n :: rp) c fx) as [[[s c1] fx1]|e] eqn:E1; [|discriminate].
    destruct (walk_props r rp (S n) c1 fx1) as [[[ss' c3] fx3]|e] eqn:E2; [|discriminate].
    injection H as <- <- <-.
    destruct (IHx _ _ _ _ _ _ E1) as [M1 I1]. destruct (IHr _ _ _ _ _ _ _ E2) as [M2 I2]. split.
    + cbn [mirrors_props]. rewrite str_eqb_refl, M1, M2. reflexivity.
    + cbn [nodes_props stargets_props]. eapply inv_app; eassumption.
Qed.

(* ------------------------------------------------------------------ resolve() *)

Scheme schema_mut := Induction for schema Sort Prop
with slist_mut := Induction for slist Sort Prop
with sprops_mut := Induction for sprops Sort Prop.
Combined Scheme schema_all_ind from schema_mut, slist_mut, sprops_mut.

Definition fill (c : cache) (e : str * option path) : str * option path :=
  (fst e, match snd e with Some t => Some t | None => lookup (fst e) c end).

Lemma stargets_patch_all c :
  (forall s, stargets (patch c s) = map (fill c) (stargets s)) /\
  (forall ss, stargets_list (patch_list c ss) = map (fill c) (stargets_list ss)) /\
  (forall ps, stargets_props (patch_props c ps) = map (fill c) (stargets_props ps)).
Proof.
  apply schema_all_ind.
  - reflexivity.
  - intros a it IH. exact IH.
  - intros a it IH t. cbn [patch stargets]. rewrite map_app, IH.
    destruct (ref_name (k_mido (scal_of a))); reflexivity.
  - intros a ps IH. exact IH.
  - intros a ss IH. exact IH.
  - intros a [t|]; cbn [patch stargets].
    + destruct (ref_name (k_ref (scal_of a))); reflexivity.
    + destruct (ref_name (k_ref (scal_of a))); reflexivity.
  - reflexivity.
  - intros x IHx r IHr. cbn [patch_list stargets_list]. rewrite map_app, IHx, IHr. reflexivity.
  - reflexivity.
  - intros k x IHx r IHr. cbn [patch_props stargets_props]. rewrite map_app, IHx, IHr. reflexivity.
Qed.

Lemma attrs_patch c s : attrs (patch c s) = attrs s.
Proof. destruct s as [a|a it|a it t|a ps|a ss|a [t|]]; reflexivity. Qed.

Lemma kind_of_patch c s : kind_of (patch c s) = kind_of s.
Proof. destruct s as [a|a it|a it t|a ps|a ss|a [t|]]; reflexivity. Qed.

Lemma mirrors_patch_all c :
  (forall s d, mirrors s d = true -> mirrors (patch c s) d = true) /\
  (forall ss l, mirrors_alts ss l = true -> mirrors_alts (patch_list c ss) l = true) /\
  (forall ps l, mirrors_props ps l = true -> mirrors_props (patch_props c ps) l = true).
Proof.
  apply schema_all_ind.
  - intros a d H. exact H.
  - intros a it IH [sc o i p] H. cbn [mirrors patch attrs kind_of] in *.
    apply andb_true_iff in H. destruct H as [H1 H2]. rewrite H1.
    destruct i as [|x]; [discriminate|]. apply IH. exact H2.
  - intros a it IH t [sc o i p] H. cbn [mirrors patch attrs kind_of] in *.
    apply andb_true_iff in H. destruct H as [H1 H2]. rewrite H1.
    destruct i as [|x]; [discriminate|]. apply IH. exact H2.
  - intros a ps IH [sc o i p] H. cbn [mirrors patch attrs kind_of] in *.
    apply andb_true_iff in H. destruct H as [H1 H2]. rewrite H1.
    destruct p as [|l]; apply IH; exact H2.
  - intros a ss IH [sc o i p] H. cbn [mirrors patch attrs kind_of] in *.
    apply andb_true_iff in H. destruct H as [H1 H2]. rewrite H1.
    destruct o as [|l]; [discriminate|]. apply IH. exact H2.
  - intros a [t|] [sc o i p] H; exact H.
  - intros l H. exact H.
  - intros x IHx r IHr [|y l] H; cbn [mirrors_alts patch_list] in *; [discriminate|].
    apply andb_true_iff in H. destruct H as [H1 H2]. rewrite (IHx _ H1), (IHr _ H2). reflexivity.
  - intros l H. exact H.
  - intros k x IHx r IHr [|k' y l] H; cbn [mirrors_props patch_props] in *; [discriminate|].
    apply andb_true_iff in H. destruct H as [H1 H2]. apply andb_true_iff in H1. destruct H1 as [H0 H1].
    rewrite H0, (IHx _ H1), (IHr _ H2). reflexivity.
Qed.

Lemma load_inv d s :
  load d = Ok s ->
  exists s0 c fx, walk d [] [] [] = Ok (s0, c, fx) /\ resolvable c fx = true /\ s = patch c s0.
Proof.
  unfold load. destruct (walk d [] [] []) as [[[s0 c] fx]|e] eqn:E; [|discriminate].
  destruct (resolvable c fx) eqn:R; [|discriminate].
  intros H. injection H as <-. exists s0, c, fx. auto.
Qed.

(* ------------------------------------------------------------------ C15_mirror *)

Lemma load_mirrors d s : load d = Ok s -> mirrors s d = true.
Proof.
  intros H. destruct (load_inv d s H) as (s0 & c & fx & W & _ & ->).
  apply mirrors_patch_all. destruct walk_ok_all as (Hj & _ & _).
  destruct (Hj d _ _ _ _ _ _ W) as [M _]. exact M.
Qed.

Lemma walk_attrs d rp c fx s c2 fx2 : walk d rp c fx = Ok (s, c2, fx2) -> attrs s = d.
Proof.
  destruct d as [sc o i p]. rewrite walk_node_eq. unfold finish, after_array.
  destruct (nonempty_alts o).
  - destruct o as [|l]; [discriminate|].
    destruct (walk_alts l rp 0 c fx) as [[[ss c1] fx1]|e]; [|discriminate].
    intros H. injection H as <- _ _. reflexivity.
  - destruct (nonempty_str (k_ref sc)).
    + destruct (ref_name (k_ref sc)); [|discriminate].
      destruct (lookup s0 c); intros H; injection H as <- _ _; reflexivity.
    + destruct (k_type sc) as [t|]; [|discriminate].
      destruct (is_atomic t); [intros H; injection H as <- _ _; reflexivity|].
      destruct (str_eqb t s_array || has_items i).
      * destruct i as [|x]; [discriminate|].
        destruct (walk x (0%nat :: rp) c fx) as [[[it c1] fx1]|e]; [|discriminate].
        destruct (k_mido sc) as [m|].
        -- destruct (ref_name (Some m)); [|discriminate].
           destruct (lookup s0 c1); [|discriminate]. intros H; injection H as <- _ _; reflexivity.
        -- intros H; injection H as <- _ _; reflexivity.
      * destruct (str_eqb t s_object || has_props p); [|discriminate].
        destruct (walk_props (props_or_nil p) rp 0 c fx) as [[[ps c1] fx1]|e]; [|discriminate].
        intros H; injection H as <- _ _; reflexivity.
Qed.

Lemma load_attrs d s : load d = Ok s -> attrs s = d.
Proof.
  intros H. destruct (load_inv d s H) as (s0 & c & fx & W & _ & ->).
  rewrite attrs_patch. eapply walk_attrs. exact W.
Qed.

(* ------------------------------------------------------------------ C15_refs *)

Lemma anchor_of_key d n x t :
  shadowed d = false -> In x (refnames d) -> In n (all_nodes d) -> entry n = (x, t) ->
  In (x, t) (anchor_table d).
Proof.
  intros Hs Hx Hn He. destruct n as [[pth sc] k]. unfold entry in He. simpl in He.
  injection He as Hk Hp. subst t.
  destruct (k_anchor sc) as [a|] eqn:Ea.
  - unfold cache_key in Hk. rewrite Ea in Hk. subst a.
    unfold anchor_table. apply in_flat_map. exists (pth, sc, k). split; [exact Hn|].
    unfold anchor_entry. simpl. rewrite Ea. left. reflexivity.
  - exfalso. assert (S : shadowed d = true); [|rewrite S in Hs; discriminate].
    unfold shadowed. apply existsb_exists. exists x. split.
    + unfold anon_keys. apply in_flat_map. exists (pth, sc, k). split; [exact Hn|].
      unfold anon_key. simpl. rewrite Ea. left. exact Hk.
    + apply mem_In. exact Hx.
Qed.

Lemma map_fst_fill c l : map fst (map (fill c) l) = map fst l.
Proof. rewrite map_map. apply map_ext. intros e. reflexivity. Qed.

Lemma resolvable_spec c fx x : resolvable c fx = true -> In x (map snd fx) -> lookup x c <> None.
Proof.
  unfold resolvable. rewrite forallb_forall. intros H Hin.
  apply in_map_iff in Hin. destruct Hin as (f & <- & Hf).
  specialize (H f Hf). destruct (lookup (snd f) c); [discriminate|discriminate].
Qed.

Lemma load_refs d s :
  uniq_anchors d = true -> shadowed d = false -> load d = Ok s ->
  refs_resolved d s = true /\ map fst (stargets s) = refnames d.
Proof.
  intros Hu Hs H. destruct (load_inv d s H) as (s0 & c & fx & W & R & ->).
  destruct walk_ok_all as (Hj & _ & _).
  destruct (Hj d _ _ _ _ _ _ W) as [_ (A1 & A2 & A3 & A4 & A5)].
  destruct (stargets_patch_all c) as (SP & _ & _). unfold refs_resolved. rewrite SP.
  assert (Names : map fst (map (fill c) (stargets s0)) = refnames d).
  { rewrite map_fst_fill. exact A3. }
  split; [|exact Names].
  apply forallb_forall. intros e He.
  apply in_map_iff in He. destruct He as (e0 & <- & He0).
  rewrite Forall_forall in A2. specialize (A2 e0 He0).
  assert (Hx : In (fst e0) (refnames d)).
  { fold (all_nodes d) in A3. unfold refnames. rewrite <- A3. apply in_map. exact He0. }
  assert (B : exists t, snd (fill c e0) = Some t /\ In (fst e0, t) c).
  { unfold tgt_ok in A2. unfold fill. simpl. destruct (snd e0) as [t|].
    - exists t. auto.
    - pose proof (resolvable_spec c fx (fst e0) R A2) as L.
      destruct (lookup (fst e0) c) as [t|] eqn:El; [|congruence].
      exists t. split; [reflexivity|apply lookup_In; exact El]. }
  destruct B as (t & Bt & Bin). rewrite Bt. cbn [fst fill is_some andb].
  apply A1 in Bin. destruct Bin as [[]|Bin].
  apply in_map_iff in Bin. destruct Bin as (n & En & Hn).
  pose proof (anchor_of_key d n (fst e0) t Hs Hx Hn En) as Ha.
  unfold find_anchor. rewrite (lookup_nodup (anchor_table d) (fst e0) t Hu Ha).
  simpl. apply path_eqb_refl.
Qed.

(* ------------------------------------------------------------------ totality on the grammar *)

Definition depends_in (ns : list dnode) : Prop := exists e, In e ns /\ snd e = KDepends.

Definition total_js (d : js) : Prop :=
  wf d = true -> forall rp c fx,
  (exists r, walk d rp c fx = Ok r) \/ (walk d rp c fx = Err ValueError /\ depends_in (nodes d rp)).
Definition total_alts (l : alts) : Prop :=
  wf_alts l = true -> forall rp n c fx,
  (exists r, walk_alts l rp n c fx = Ok r) \/ (walk_alts l rp n c fx = Err ValueError /\ depends_in (nodes_alts l rp n)).
Definition total_props (l : props) : Prop :=
  wf_props l = true -> forall rp n c fx,
  (exists r, walk_props l rp n c fx = Ok r) \/ (walk_props l rp n c fx = Err ValueError /\ depends_in (nodes_props l rp n)).

Lemma depends_in_cons n ns : depends_in ns -> depends_in (n :: ns).
Proof. intros (e & H1 & H2). exists e. split; [right; exact H1|exact H2]. Qed.
Lemma depends_in_app_l a b : depends_in a -> depends_in (a ++ b).
Proof. intros (e & H1 & H2). exists e. split; [apply in_or_app; left; exact H1|exact H2]. Qed.
Lemma depends_in_app_r a b : depends_in b -> depends_in (a ++ b).
Proof. intros (e & H1 & H2). exists e. split; [apply in_or_app; right; exact H1|exact H2]. Qed.

Lemma wf_node sc o i p :
  wf (Node sc o i p) =
  match shape_kw sc o i p with
  | KOneOf => match o with OASome l => wf_alts l | OANone => false end
  | KRef => hash_prefixed (k_ref sc)
  | KAtomic => true
  | KArray => match i with OJSome x => wf x | OJNone => false end
  | KDepends => match i with OJSome x => wf x | OJNone => false end && hash_prefixed (k_mido sc)
  | KObject => match p with OPSome l => nodup_str (keys_of l) && wf_props l | OPNone => true end
  | KBad => false
  end.
Proof. reflexivity. Qed.

Lemma walk_total_all :
  (forall d, total_js d) /\ (forall l, total_alts l) /\ (forall l, total_props l).
Proof.
  apply js_triple_ind.
  - intros sc o i p IHo IHi IHp Hwf rp c fx.
    rewrite wf_node in Hwf. rewrite walk_node_eq, nodes_node.
    destruct (nonempty_alts o) eqn:Ho.
    { assert (Sh : shape_kw sc o i p = KOneOf) by (unfold shape_kw; rewrite Ho; reflexivity).
      rewrite Sh in *. destruct o as [|l]; [discriminate|].
      destruct (IHo l eq_refl Hwf rp 0%nat c fx) as [[[[ss c1] fx1] E]|[E D]]; rewrite E.
      - left. eexists. reflexivity.
      - right. split; [reflexivity|]. apply depends_in_cons. exact D. }
    destruct (nonempty_str (k_ref sc)) eqn:Hr.
    { assert (Sh : shape_kw sc o i p = KRef) by (unfold shape_kw; rewrite Ho, Hr; reflexivity).
      rewrite Sh in *. unfold hash_prefixed in Hwf.
      destruct (ref_name (k_ref sc)) as [name|]; [|discriminate].
      left. destruct (lookup name c); eexists; reflexivity. }
    destruct (k_type sc) as [t|] eqn:Et.
    2: { exfalso. unfold shape_kw in Hwf. rewrite Ho, Hr, Et in Hwf. discriminate. }
    destruct (is_atomic t) eqn:Ha.
    { left. eexists. reflexivity. }
    destruct (str_eqb t s_array || has_items i) eqn:Harr.
    { destruct (k_mido sc) as [m|] eqn:Em.
      - assert (Sh : shape_kw sc o i p = KDepends)
          by (unfold shape_kw; rewrite Ho, Hr, Et, Ha, Harr, Em; reflexivity).
        rewrite Sh in *. destruct i as [|x]; [discriminate|].
        apply andb_true_iff in Hwf. destruct Hwf as [Hx Hm].
        unfold hash_prefixed in Hm. unfold after_array. rewrite Em.
        destruct (IHi x eq_refl Hx (0%nat :: rp) c fx) as [[[[it c1] fx1] E]|[E D]]; rewrite E.
        + destruct (ref_name (Some m)) as [name|]; [|discriminate].
          destruct (lookup name c1).
          * left. eexists. reflexivity.
          * right. split; [reflexivity|]. exists (rev rp, sc, KDepends). split; [left; reflexivity|reflexivity].
        + right. split; [reflexivity|]. apply depends_in_cons. exact D.
      - assert (Sh : shape_kw sc o i p = KArray)
          by (unfold shape_kw; rewrite Ho, Hr, Et, Ha, Harr, Em; reflexivity).
        rewrite Sh in *. destruct i as [|x]; [discriminate|].
        unfold after_array. rewrite Em.
        destruct (IHi x eq_refl Hwf (0%nat :: rp) c fx) as [[[[it c1] fx1] E]|[E D]]; rewrite E.
        + left. eexists. reflexivity.
        + right. split; [reflexivity|]. apply depends_in_cons. exact D. }
    destruct (str_eqb t s_object || has_props p) eqn:Hobj.
    2: { exfalso. unfold shape_kw in Hwf. rewrite Ho, Hr, Et, Ha, Harr, Hobj in Hwf. discriminate. }
    assert (Sh : shape_kw sc o i p = KObject)
      by (unfold shape_kw; rewrite Ho, Hr, Et, Ha, Harr, Hobj; reflexivity).
    rewrite Sh in *. destruct p as [|l].
    + left. simpl. eexists. reflexivity.
    + apply andb_true_iff in Hwf. destruct Hwf as [_ Hl]. simpl props_or_nil.
      destruct (IHp l eq_refl Hl rp 0%nat c fx) as [[[[ps c1] fx1] E]|[E D]]; rewrite E.
      * left. eexists. reflexivity.
      * right. split; [reflexivity|]. apply depends_in_cons. exact D.
  - intros _ rp n c fx. left. eexists. reflexivity.
  - intros x r IHx IHr Hwf rp n c fx. cbn [wf_alts] in Hwf.
    apply andb_true_iff in Hwf. destruct Hwf as [Hx Hr]. cbn [walk_alts nodes_alts].
    destruct (IHx Hx (n :: rp) c fx) as [[[[s c1] fx1] E]|[E D]]; rewrite E.
    + destruct (IHr Hr rp (S n) c1 fx1) as [[[[ss c2] fx2] E2]|[E2 D2]]; rewrite E2.
      * left. eexists. reflexivity.
      * right. split; [reflexivity|]. apply depends_in_app_r. exact D2.
    + right. split; [reflexivity|]. apply depends_in_app_l. exact D.
  - intros _ rp n c fx. left. eexists. reflexivity.
  - intros k x r IHx IHr Hwf rp n c fx. cbn [wf_props] in Hwf.
    apply andb_true_iff in Hwf. destruct Hwf as [Hx Hr]. cbn [walk_props nodes_props].
    destruct (IHx Hx (n :: rp) c fx) as [[[[s c1] fx1] E]|[E D]]; rewrite E.
    + destruct (IHr Hr rp (S n) c1 fx1) as [[[[ss c2] fx2] E2]|[E2 D2]]; rewrite E2.
      * left. eexists. reflexivity.
      * right. split; [reflexivity|]. apply depends_in_app_r. exact D2.
    + right. split; [reflexivity|]. apply depends_in_app_l. exact D.
Qed.

Lemma load_total d : wf d = true -> (exists s, load d = Ok s) \/ load d = Err ValueError.
Proof.
  intros Hwf. destruct walk_total_all as (T & _ & _).
  unfold load. destruct (T d Hwf [] [] []) as [[[[s c] fx] E]|[E _]]; rewrite E.
  - destruct (resolvable c fx); [left; eexists; reflexivity|right; reflexivity].
  - right. reflexivity.
Qed.

Lemma plain_refnames_incl d x : In x (plain_refnames d) -> In x (refnames d).
Proof.
  unfold plain_refnames, refnames. rewrite !in_flat_map. intros (e & He & Hx).
  exists e. split; [exact He|]. unfold plain_ref_entry in Hx. destruct (snd e) eqn:K; try contradiction.
  exact Hx.
Qed.

Lemma load_dangling d :
  wf d = true -> uniq_anchors d = true -> shadowed d = false -> has_dangling d = true ->
  load d = Err ValueError.
Proof.
  intros Hwf Hu Hs Hd. destruct (load_total d Hwf) as [[s H]|H]; [|exact H]. exfalso.
  destruct (load_refs d s Hu Hs H) as [R N].
  unfold has_dangling in Hd. apply existsb_exists in Hd. destruct Hd as (x & Hx & Hn).
  apply plain_refnames_incl in Hx. rewrite <- N in Hx.
  apply in_map_iff in Hx. destruct Hx as (e & <- & He).
  unfold refs_resolved in R. rewrite forallb_forall in R. specialize (R e He).
  destruct (find_anchor d (fst e)); [discriminate|].
  destruct (snd e); discriminate.
Qed.

(* without maxItemsDependsOn and without dangling references a document of the grammar loads *)
Lemma load_succeeds d :
  wf d = true -> has_depends d = false -> has_dangling d = false -> exists s, load d = Ok s.
Proof.
  intros Hwf Hnd Hdg. destruct walk_total_all as (T & _ & _).
  unfold load. destruct (T d Hwf [] [] []) as [[[[s0 c] fx] E]|[_ (e & He & Hk)]].
  2: { exfalso. unfold has_depends in Hnd.
       assert (X : existsb (fun e => kind_eqb (snd e) KDepends) (all_nodes d) = true).
       { apply existsb_exists. exists e. split; [exact He|]. rewrite Hk. reflexivity. }
       rewrite X in Hnd. discriminate. }
  rewrite E. destruct walk_ok_all as (Hj & _ & _).
  destruct (Hj d _ _ _ _ _ _ E) as [_ (A1 & A2 & A3 & A4 & A5)].
  assert (R : resolvable c fx = true).
  { unfold resolvable. apply forallb_forall. intros f Hf.
    assert (Hin : In (snd f) (map snd fx)) by (apply in_map; exact Hf).
    apply A5 in Hin. destruct Hin as [[]|Hin].
    apply in_flat_map in Hin. destruct Hin as (n & Hn & Hx).
    assert (Kn : snd n = KRef).
    { unfold ref_entry in Hx. destruct (snd n) eqn:K; try contradiction; [|reflexivity].
      exfalso. unfold has_depends in Hnd.
      assert (X : existsb (fun e => kind_eqb (snd e) KDepends) (all_nodes d) = true).
      { apply existsb_exists. exists n. split; [exact Hn|]. rewrite K. reflexivity. }
      rewrite X in Hnd. discriminate. }
    assert (Hp : In (snd f) (plain_refnames d)).
    { unfold plain_refnames. apply in_flat_map. exists n. split; [exact Hn|].
      unfold plain_ref_entry. rewrite Kn. exact Hx. }
    unfold has_dangling in Hdg.
    assert (F : negb (is_some (find_anchor d (snd f))) = false).
    { destruct (negb (is_some (find_anchor d (snd f)))) eqn:Q; [|reflexivity].
      assert (X : existsb (fun x => negb (is_some (find_anchor d x))) (plain_refnames d) = true).
      { apply existsb_exists. exists (snd f). auto. }
      rewrite X in Hdg. discriminate. }
    destruct (find_anchor d (snd f)) as [t|] eqn:Fa; [|discriminate].
    unfold find_anchor in Fa. apply lookup_In in Fa.
    unfold anchor_table in Fa. apply in_flat_map in Fa. destruct Fa as ([[pth sc] k] & Hm & Ha).
    unfold anchor_entry in Ha. simpl in Ha. destruct (k_anchor sc) as [a|] eqn:Ea; [|contradiction].
    destruct Ha as [Ha|[]]. injection Ha as -> ->.
    assert (Hc : In (snd f, t) c).
    { apply A1. right. apply in_map_iff. exists (t, sc, k). split; [|exact Hm].
      unfold entry, cache_key. simpl. rewrite Ea. reflexivity. }
    pose proof (In_lookup_some _ _ _ Hc) as L.
    destruct (lookup (snd f) c); [reflexivity|congruence]. }
  rewrite R. eexists. reflexivity.
Qed.

(* ------------------------------------------------------------------ DNav *)

Lemma idx_norm (len : nat) (z : Z) :
  norm_index len z =
  (let n := Z.of_nat len in
   let j := if (z <? 0)%Z then (z + n)%Z else z in
   if (j <? 0)%Z || (n <=? j)%Z then None else Some (Z.to_nat j)).
Proof.
  unfold norm_index. cbv zeta.
  destruct (z <? 0)%Z eqn:A, (0 <=? z)%Z eqn:B; try lia.
  - destruct (0 <=? z + Z.of_nat len)%Z eqn:C, (z + Z.of_nat len <? 0)%Z eqn:D,
      (Z.of_nat len <=? z + Z.of_nat len)%Z eqn:E; simpl; try reflexivity; exfalso; lia.
  - destruct (z <? Z.of_nat len)%Z eqn:C, (Z.of_nat len <=? z)%Z eqn:E; rewrite ?A; simpl; try reflexivity; exfalso; lia.
Qed.

(* Python indexing of parsed JSON, as modelled, is the specification's plain indexing *)
Lemma py_getitem_spec v st : py_getitem v st = index1 v st.
Proof.
  destruct st as [k|z]; destruct v as [| b | n | s | l | m]; try reflexivity.
  - cbn [py_getitem index1]. rewrite idx_norm. cbv zeta.
    repeat match goal with |- context [if ?b then _ else _] => destruct b end; reflexivity.
  - cbn [py_getitem index1]. rewrite idx_norm. cbv zeta.
    repeat match goal with |- context [if ?b then _ else _] => destruct b end; reflexivity.
Qed.

Lemma nav_step_value root s v st s' v' : nav_step root s v st = Ok (s', v') -> index1 v st = Ok v'.
Proof.
  intros H. unfold nav_step in H. rewrite py_getitem_spec in H.
  destruct (index1 v st) as [x|e] eqn:I.
  - repeat (match type of H with context [match ?x with _ => _ end] => destruct x end; try discriminate);
      injection H as _ <-; reflexivity.
  - repeat (match type of H with context [match ?x with _ => _ end] => destruct x end; try discriminate).
Qed.

Lemma navigate_value root p : forall s v s' v',
  navigate root s v p = Ok (s', v') -> index_json v p = Ok v'.
Proof.
  induction p as [|st q IH]; intros s v s' v' H; simpl in H.
  - injection H as _ <-. reflexivity.
  - destruct (nav_step root s v st) as [[s1 v1]|e] eqn:E; [|discriminate].
    simpl. rewrite (nav_step_value _ _ _ _ _ _ E). eapply IH. exact H.
Qed.

Lemma nav_value_sound root v p x : nav_value root v p = Ok x -> index_json v p = Ok x.
Proof.
  unfold nav_value. destruct (navigate root root v p) as [[s' v']|e] eqn:E; [|discriminate].
  intros H. injection H as <-. eapply navigate_value. exact E.
Qed.

Lemma nav_name_refused root s v k t :
  stype root s = Ok t -> str_eqb t s_object = false -> nav_step root s v (SName k) = Err TypeError.
Proof. intros H1 H2. unfold nav_step. rewrite H1, H2. reflexivity. Qed.

Lemma nav_index_refused root s v z t :
  stype root s = Ok t -> str_eqb t s_array = false -> nav_step root s v (SIndex z) = Err TypeError.
Proof. intros H1 H2. unfold nav_step. rewrite H1, H2. reflexivity. Qed.

Lemma conforms_eq root s v :
  conforms root s v =
  match deref (ssize root) root s with
  | Ok (LObject a ps) =>
      ostr_eqb (k_type (scal_of a)) (Some s_object) &&
      match v with JDict m => conforms_dict root ps m | _ => false end
  | Ok (LArray a it) | Ok (LDepends a it _) =>
      ostr_eqb (k_type (scal_of a)) (Some s_array) &&
      match v with JList l => conforms_list root it l | _ => false end
  | Ok _ => match v with JNull | JBool _ | JInt _ => true | _ => false end
  | Err _ => false
  end.
Proof. destruct v; reflexivity. Qed.

Lemma conforms_dict_get root ps m k x :
  conforms_dict root ps m = true -> jget m k = Some x ->
  exists sub, props_get ps k = Some sub /\ conforms root sub x = true.
Proof.
  induction m as [|k' v r IH]; cbn [conforms_dict jget]; [discriminate|].
  intros H G. apply andb_true_iff in H. destruct H as [H1 H2].
  destruct (str_eqb k k') eqn:E.
  - apply str_eqb_eq in E. subst k'. injection G as <-.
    destruct (props_get ps k) as [sub|]; [|discriminate]. exists sub. auto.
  - apply IH; assumption.
Qed.

Lemma conforms_list_nth root it l : forall n x,
  conforms_list root it l = true -> jnth l n = Some x -> conforms root it x = true.
Proof.
  induction l as [|y r IH]; intros n x; cbn [conforms_list jnth]; [discriminate|].
  intros H G. apply andb_true_iff in H. destruct H as [H1 H2].
  destruct n as [|n]; [injection G as <-; exact H1|]. eapply IH; eassumption.
Qed.

Lemma scalar_not_indexable v st x :
  match v with JNull | JBool _ | JInt _ => true | _ => false end = true -> index1 v st = Ok x -> False.
Proof. destruct v; try discriminate; destruct st; discriminate. Qed.

Lemma index_list_nth l z x : index1 (JList l) (SIndex z) = Ok x -> exists n, jnth l n = Some x.
Proof.
  cbn [index1]. destruct (norm_index (jlen l) z) as [n|]; [|discriminate].
  destruct (jnth l n) as [y|] eqn:E; [|discriminate]. intros H. injection H as <-. exists n. exact E.
Qed.

Lemma nav_step_complete root s v st x :
  conforms root s v = true -> index1 v st = Ok x ->
  exists s', nav_step root s v st = Ok (s', x) /\ conforms root s' x = true.
Proof.
  intros C I. rewrite conforms_eq in C.
  destruct (deref (ssize root) root s) as [[a|a it|a it t|a ps|a ss|a tg]|e] eqn:D; try discriminate;
    try (exfalso; eapply scalar_not_indexable; eassumption).
  - (* array *)
    apply andb_true_iff in C. destruct C as [C1 C2].
    destruct v as [| | | |l|]; try discriminate.
    destruct st as [k|z]; [discriminate|].
    destruct (k_type (scal_of a)) as [ty|] eqn:T; [|discriminate]. simpl in C1.
    destruct (index_list_nth _ _ _ I) as (n & Hn).
    exists it. split; [|eapply conforms_list_nth; eassumption].
    unfold nav_step, stype. rewrite D. cbn [bind type_of attrs]. rewrite T, C1. cbn [negb].
    rewrite py_getitem_spec, I. reflexivity.
  - (* array with maxItemsDependsOn *)
    apply andb_true_iff in C. destruct C as [C1 C2].
    destruct v as [| | | |l|]; try discriminate.
    destruct st as [k|z]; [discriminate|].
    destruct (k_type (scal_of a)) as [ty|] eqn:T; [|discriminate]. simpl in C1.
    destruct (index_list_nth _ _ _ I) as (n & Hn).
    exists it. split; [|eapply conforms_list_nth; eassumption].
    unfold nav_step, stype. rewrite D. cbn [bind type_of attrs]. rewrite T, C1. cbn [negb].
    rewrite py_getitem_spec, I. reflexivity.
  - (* object *)
    apply andb_true_iff in C. destruct C as [C1 C2].
    destruct v as [| | | | |m]; try discriminate.
    destruct st as [k|z]; [|discriminate].
    destruct (k_type (scal_of a)) as [ty|] eqn:T; [|discriminate]. simpl in C1.
    assert (G : jget m k = Some x).
    { cbn [index1] in I. destruct (jget m k) as [y|]; [|discriminate]. injection I as <-. reflexivity. }
    destruct (conforms_dict_get _ _ _ _ _ C2 G) as (sub & Hs & Hc).
    exists sub. split; [|exact Hc].
    unfold nav_step, stype. rewrite D. cbn [bind type_of attrs]. rewrite T, C1. cbn [negb].
    rewrite Hs, py_getitem_spec, I. reflexivity.
Qed.

Lemma navigate_complete root p : forall s v x,
  conforms root s v = true -> index_json v p = Ok x ->
  exists s', navigate root s v p = Ok (s', x) /\ conforms root s' x = true.
Proof.
  induction p as [|st q IH]; intros s v x C I; simpl in I.
  - injection I as <-. exists s. split; [reflexivity|exact C].
  - destruct (index1 v st) as [y|e] eqn:E; [|discriminate].
    destruct (nav_step_complete _ _ _ _ _ C E) as (s1 & N & C1).
    destruct (IH s1 y x C1 I) as (s2 & N2 & C2).
    exists s2. split; [|exact C2]. simpl. rewrite N. exact N2.
Qed.

Lemma nav_value_conforming root v p x :
  conforms root root v = true -> (nav_value root v p = Ok x <-> index_json v p = Ok x).
Proof.
  intros C. split; [apply nav_value_sound|].
  intros I. destruct (navigate_complete root p root v x C I) as (s' & N & _).
  unfold nav_value. rewrite N. reflexivity.
Qed.

(* ------------------------------------------------------------------ witnesses and examples *)

Definition refs_unguarded : Prop :=
  forall d s, wf d = true -> uniq_anchors d = true -> load d = Ok s -> refs_resolved d s = true.
Definition dangling_unguarded : Prop :=
  forall d, wf d = true -> uniq_anchors d = true -> has_dangling d = true -> load d = Err ValueError.

Lemma witness_shadow_facts :
  wf witness_shadow = true /\ uniq_anchors witness_shadow = true /\ shadowed witness_shadow = true /\
  match load witness_shadow with Ok s => refs_resolved witness_shadow s = false | Err _ => False end.
Proof. vm_compute. repeat split. Qed.

Lemma refs_unguarded_refuted : ~ refs_unguarded.
Proof.
  intros H. destruct witness_shadow_facts as (W & U & _ & R).
  destruct (load witness_shadow) as [s|e] eqn:E; [|exact R].
  rewrite (H witness_shadow s W U E) in R. discriminate.
Qed.

Lemma witness_title_only_facts :
  wf witness_title_only = true /\ uniq_anchors witness_title_only = true /\
  shadowed witness_title_only = true /\ has_dangling witness_title_only = true /\
  is_ok (load witness_title_only) = true.
Proof. vm_compute. repeat split. Qed.

Lemma dangling_unguarded_refuted : ~ dangling_unguarded.
Proof.
  intros H. destruct witness_title_only_facts as (W & U & _ & D & L).
  rewrite (H witness_title_only W U D) in L. discriminate.
Qed.

Lemma example_doc_facts :
  wf example_doc = true /\ uniq_anchors example_doc = true /\ shadowed example_doc = false /\
  has_dangling example_doc = false /\ refnames example_doc = [nY; nX; nX] /\
  match load example_doc with
  | Ok s => mirrors s example_doc = true /\ refs_resolved example_doc s = true /\
            stargets s = [(nY, Some [3; 1]%nat); (nX, Some [1%nat]); (nX, Some [1%nat])] /\
            conforms s s example_instance = true /\
            nav_value s example_instance [SName kv; SIndex (-1)] = Ok (JInt 8) /\
            nav_value s example_instance [SName kr; SName ka] = Ok JNull /\
            nav_value s example_instance [SName kw; SIndex 0] = Err TypeError
  | Err _ => False
  end.
Proof. vm_compute. repeat split. Qed.

Lemma example_dangling_facts :
  wf example_dangling = true /\ uniq_anchors example_dangling = true /\ shadowed example_dangling = false /\
  has_dangling example_dangling = true /\ has_depends example_dangling = false.
Proof. vm_compute. repeat split. Qed.

(* ------------------------------------------------------------------ the boolean tests mean equality *)

Lemma ostr_eqb_eq a b : ostr_eqb a b = true -> a = b.
Proof.
  destruct a as [x|], b as [y|]; simpl; try discriminate; [|reflexivity].
  intros H. rewrite (str_eqb_eq _ _ H). reflexivity.
Qed.

Lemma extra_eqb_eq a : forall b, extra_eqb a b = true -> a = b.
Proof.
  induction a as [|[k v] a IH]; intros [|[k' v'] b] H; simpl in H; try discriminate; [reflexivity|].
  apply andb_true_iff in H. destruct H as [H H3]. apply andb_true_iff in H. destruct H as [H1 H2].
  rewrite (str_eqb_eq _ _ H1), (str_eqb_eq _ _ H2), (IH _ H3). reflexivity.
Qed.

Lemma scal_eqb_eq a b : scal_eqb a b = true -> a = b.
Proof.
  destruct a as [a1 a2 a3 a4 a5 a6], b as [b1 b2 b3 b4 b5 b6]. unfold scal_eqb. simpl.
  intros H. repeat (apply andb_true_iff in H; destruct H as [H ?]).
  rewrite (ostr_eqb_eq _ _ H), (ostr_eqb_eq a2 b2), (ostr_eqb_eq a3 b3), (ostr_eqb_eq a4 b4),
    (ostr_eqb_eq a5 b5), (extra_eqb_eq a6 b6); auto.
Qed.

Lemma js_eqb_eq_all :
  (forall a b, js_eqb a b = true -> a = b) /\ (forall a b, alts_eqb a b = true -> a = b) /\
  (forall a b, props_eqb a b = true -> a = b).
Proof.
  apply js_triple_ind.
  - intros sc o i p IHo IHi IHp [sc' o' i' p'] H. cbn [js_eqb] in H.
    apply andb_true_iff in H. destruct H as [H H0].
    apply andb_true_iff in H. destruct H as [H H1].
    apply andb_true_iff in H. destruct H as [H H2].
    rewrite (scal_eqb_eq _ _ H).
    assert (Eo : o = o').
    { destruct o as [|l], o' as [|l']; simpl in *; try discriminate; [reflexivity|].
      rewrite (IHo l eq_refl l'); auto. }
    assert (Ei : i = i').
    { destruct i as [|x], i' as [|x']; simpl in *; try discriminate; [reflexivity|].
      rewrite (IHi x eq_refl x'); auto. }
    assert (Ep : p = p').
    { destruct p as [|l], p' as [|l']; simpl in *; try discriminate; [reflexivity|].
      rewrite (IHp l eq_refl l'); auto. }
    subst. reflexivity.
  - intros [|y r] H; simpl in H; [reflexivity|discriminate].
  - intros x r IHx IHr [|y r'] H; cbn [alts_eqb] in H; [discriminate|].
    apply andb_true_iff in H. destruct H as [H1 H2]. rewrite (IHx _ H1), (IHr _ H2). reflexivity.
  - intros [|k y r] H; simpl in H; [reflexivity|discriminate].
  - intros k x r IHx IHr [|k' y r'] H; cbn [props_eqb] in H; [discriminate|].
    apply andb_true_iff in H. destruct H as [H H3]. apply andb_true_iff in H. destruct H as [H1 H2].
    rewrite (str_eqb_eq _ _ H1), (IHx _ H2), (IHr _ H3). reflexivity.
Qed.

Lemma kind_eqb_eq a b : kind_eqb a b = true -> a = b.
Proof. destruct a, b; simpl; try discriminate; reflexivity. Qed.

(* what [mirrors] says at a node *)
Lemma mirrors_meaning s d :
  mirrors s d = true -> attrs s = d /\ kind_of s = shape_of_keywords d.
Proof.
  destruct d as [sc o i p]. intros H.
  assert (H' : js_eqb (attrs s) (Node sc o i p) && kind_eqb (kind_of s) (shape_kw sc o i p) = true).
  { destruct s; cbn [mirrors] in H; apply andb_true_iff in H; destruct H as [H _]; exact H. }
  apply andb_true_iff in H'. destruct H' as [H1 H2]. destruct js_eqb_eq_all as (J & _ & _).
  split; [apply J; exact H1|apply kind_eqb_eq; exact H2].
Qed.

(* the path [find_anchor] gives is the path of a sub-schema bearing that anchor *)
Lemma find_anchor_bears d x t :
  find_anchor d x = Some t -> exists sc k, In (t, sc, k) (all_nodes d) /\ k_anchor sc = Some x.
Proof.
  unfold find_anchor. intros H. apply lookup_In in H. unfold anchor_table in H.
  apply in_flat_map in H. destruct H as ([[pth sc] k] & Hn & Ha).
  unfold anchor_entry in Ha. simpl in Ha. destruct (k_anchor sc) as [a|] eqn:Ea; [|contradiction].
  destruct Ha as [Ha|[]]. injection Ha as -> ->. exists sc, k. auto.
Qed.
