(* Lemmas for C08c, known finding K-digit-first-name: the document Model/SchemaDoc.v renders is valid under
   Spec/SchemaTruth.v valid_schema EXACTLY when every $anchor it bears is a legal anchor; for the tree build makes:
   exactly when every name of the record description is a legal anchor; for COBOL data names: exactly when no name
   begins with a digit. *)
From Coq Require Import ZArith NArith List Bool Lia Arith ZifyBool ZifyN ZifyNat.
Import ListNotations.
Require Import SR.Base.Res SR.Spec.Anchor SR.Spec.Layout SR.Model.Layout SR.Spec.SchemaTruth
  SR.Model.JsonType SR.Model.SchemaDoc SR.Proofs.JsonTypeP SR.Proofs.SchemaDocP SR.Spec.DigitNames.
Open Scope nat_scope.

Lemma forallb_In {A : Type} (p : A -> bool) (l : list A) (x : A) : forallb p l = true -> In x l -> p x = true.
Proof. intros H. rewrite forallb_forall in H. apply H. Qed.

Lemma valid_schema_O v : valid_schema 0 v = false.
Proof. reflexivity. Qed.

(* ================================================================== a valid rendering bears legal anchors only *)

Section Names.
  Variables name_of title_of cobol_of : id -> list N.
  Variable kw_of : id -> N * N * N.

  Notation D := (doc_of name_of title_of cobol_of kw_of).
  Notation DP := (docs_props name_of title_of cobol_of kw_of).
  Notation DA := (docs_alts name_of title_of cobol_of kw_of).
  Notation AL := (anchors_legal name_of).

  Lemma anchor_member_legal f k l :
    forallb (member_ok f) l = true -> In (m_anchor name_of k) l -> legal (key_text name_of k) = true.
  Proof.
    intros H Hin. pose proof (forallb_In _ _ _ H Hin) as E. unfold m_anchor in E. rewrite ok_text_anchor in E. exact E.
  Qed.

  Lemma valid_anchors_legal :
    (forall s inner fuel, valid_schema fuel (D inner s) = true -> AL (anchors_of s))
    /\ (forall ps inner f, forallb (fun p => valid_schema f (snd p)) (DP inner ps) = true -> AL (anchors_props ps))
    /\ (forall alts f, forallb (valid_schema f) (DA alts) = true -> AL (anchors_alts alts)).
  Proof.
    apply js_props_alts_ind.
    - (* JAtom *)
      intros a sz inner fuel H k Hk. destruct fuel as [|f]; [rewrite valid_schema_O in H; discriminate|].
      rewrite doc_JAtom, valid_schema_S in H. rewrite anchors_of_unfold in Hk. cbn [js_anchor] in Hk.
      destruct a as [k0|]; [|destruct Hk]. cbn [app] in Hk. destruct Hk as [<-|[]].
      apply (anchor_member_legal f k0 _ H).
      apply in_or_app; left. apply in_or_app; right. apply in_or_app; left. left; reflexivity.
    - (* JArr *)
      intros a n its IH inner fuel H k Hk. destruct fuel as [|f]; [rewrite valid_schema_O in H; discriminate|].
      rewrite doc_JArr, valid_schema_S in H. rewrite anchors_of_unfold in Hk. cbn [js_anchor] in Hk.
      apply in_app_or in Hk as [Hk|Hk].
      + destruct a as [k0|]; [|destruct Hk]. destruct Hk as [<-|[]].
        apply (anchor_member_legal f k0 _ H).
        apply in_or_app; right. apply in_or_app; right. cbn [anchor_members]. left; reflexivity.
      + apply (IH (is_none a) f); [|exact Hk].
        assert (E : member_ok f (k_items, D (is_none a) its) = true).
        { apply (forallb_In _ _ _ H). apply in_or_app; right. apply in_or_app; left. right; left; reflexivity. }
        rewrite ok_items in E. exact E.
    - (* JOdo *)
      intros a c its IH inner fuel H k Hk. destruct fuel as [|f]; [rewrite valid_schema_O in H; discriminate|].
      rewrite doc_JOdo, valid_schema_S in H. rewrite anchors_of_unfold in Hk. cbn [js_anchor] in Hk.
      apply in_app_or in Hk as [Hk|Hk].
      + destruct a as [k0|]; [|destruct Hk]. destruct Hk as [<-|[]].
        apply (anchor_member_legal f k0 _ H).
        apply in_or_app; right. apply in_or_app; right. cbn [anchor_members]. left; reflexivity.
      + apply (IH (is_none a) f); [|exact Hk].
        assert (E : member_ok f (k_items, D (is_none a) its) = true).
        { apply (forallb_In _ _ _ H). apply in_or_app; right. apply in_or_app; left. right; left; reflexivity. }
        rewrite ok_items in E. exact E.
    - (* JObj *)
      intros a ps IH inner fuel H k Hk. destruct fuel as [|f]; [rewrite valid_schema_O in H; discriminate|].
      rewrite doc_JObj, valid_schema_S in H. rewrite anchors_of_unfold in Hk. cbn [js_anchor] in Hk.
      apply in_app_or in Hk as [Hk|Hk].
      + destruct a as [k0|]; [|destruct Hk]. destruct Hk as [<-|[]].
        apply (anchor_member_legal f k0 _ H).
        apply in_or_app; left. right; left; reflexivity.
      + assert (E : member_ok f (k_properties, VMap (DP (match a with None => inner | Some _ => false end) ps)) = true).
        { apply (forallb_In _ _ _ H). apply in_or_app; right. right; left; reflexivity. }
        rewrite ok_props in E. exact (IH _ f E k Hk).
    - (* JOne *)
      intros a alts IH inner fuel H k Hk. destruct fuel as [|f]; [rewrite valid_schema_O in H; discriminate|].
      rewrite doc_JOne, valid_schema_S in H. rewrite anchors_of_unfold in Hk. cbn [js_anchor] in Hk.
      apply in_app_or in Hk as [Hk|Hk].
      + destruct a as [k0|]; [|destruct Hk]. destruct Hk as [<-|[]].
        apply (anchor_member_legal f k0 _ H). right. cbn [anchor_members]. left; reflexivity.
      + assert (E : member_ok f (k_oneOf, VArr (DA alts)) = true).
        { apply (forallb_In _ _ _ H). left; reflexivity. }
        destruct alts as [|s0 r]; [destruct Hk|].
        rewrite docs_alts_cons, ok_oneOf, <- docs_alts_cons in E. exact (IH f E k Hk).
    - (* JRef *)
      intros k0 inner fuel _ k Hk. rewrite anchors_of_unfold in Hk. cbn [js_anchor app] in Hk. destruct Hk.
    - (* PNil *) intros inner f _ k [].
    - (* PCons *)
      intros k0 s IHs r IHr inner f H k Hk. rewrite docs_props_cons in H. cbn [forallb snd] in H.
      apply andb_true_iff in H as [H1 H2]. cbn [anchors_props] in Hk. apply in_app_or in Hk as [Hk|Hk].
      + exact (IHs inner f H1 k Hk).
      + exact (IHr inner f H2 k Hk).
    - (* ANil *) intros f _ k [].
    - (* ACons *)
      intros s IHs r IHr f H k Hk. rewrite docs_alts_cons in H. cbn [forallb] in H.
      apply andb_true_iff in H as [H1 H2]. cbn [anchors_alts] in Hk. apply in_app_or in Hk as [Hk|Hk].
      + exact (IHs false f H1 k Hk).
      + exact (IHr f H2 k Hk).
  Qed.

  (* the rendering of any structure tree with non-empty oneOfs and acceptable types: valid exactly when every $anchor
     it bears is legal *)
  Lemma valid_iff_anchors (s : js) (inner : bool) (fuel : nat) :
    shape_ok s = true ->
    (forall k, In k (atom_keys s) -> type_ok (kw_of (key_id k)) = true) ->
    jdepth s <= fuel ->
    (valid_schema fuel (D inner s) = true <-> (forall k, In k (anchors_of s) -> legal (key_text name_of k) = true)).
  Proof.
    intros Hs Ht Hd. split.
    - intros H. exact (proj1 valid_anchors_legal s inner fuel H).
    - intros Ha. exact (proj1 (doc_valid_js name_of title_of cobol_of kw_of) s inner fuel Hs Ha Ht Hd).
  Qed.

  (* ---- the tree build makes: a valid document needs every name of the description to be a legal anchor -
     whatever the description, the keywords and the fuel *)
  Lemma emitted_needs_legal (t : item) (fuel : nat) :
    valid_schema fuel (doc name_of title_of cobol_of kw_of (build t)) = true ->
    forall i, In i (ids_of t) -> legal (name_of i) = true.
  Proof.
    intros H i Hi. unfold doc in H.
    exact (proj1 valid_anchors_legal (build t) false fuel H (KName i) (names_anchored t i Hi)).
  Qed.

  (* ---- the exact boundary *)
  Lemma emitted_valid_iff (e : env) (t : item) (fuel : nat) :
    wf8 e t = true -> NoDup (ids_of t) ->
    (forall i, In i (elem_ids t) -> exists u txt, json_type u txt = Ok (kw_of i)) ->
    2 * idepth t + 1 <= fuel ->
    (valid_schema fuel (doc name_of title_of cobol_of kw_of (build t)) = true
     <-> forall i, In i (ids_of t) -> legal (name_of i) = true).
  Proof.
    intros Hw Hnd Ht Hf. split.
    - apply emitted_needs_legal.
    - intros Hn. exact (emitted_valid name_of title_of cobol_of kw_of e t fuel Hw Hnd Hn Ht Hf).
  Qed.
End Names.

(* ================================================================== COBOL data names *)

Lemma name_char_cont c : name_char c = true -> is_cont c = true.
Proof. unfold name_char, is_letter_cp, is_digit_cp, is_hyphen_cp, is_cont, is_start, us. lia. Qed.

Lemma first_char_start c : name_char c = true -> is_hyphen_cp c = false -> is_start c = negb (is_digit_cp c).
Proof. unfold name_char, is_letter_cp, is_digit_cp, is_hyphen_cp, is_start, us. lia. Qed.

(* among COBOL data names the illegal anchors are exactly the names that begin with a digit *)
Lemma cobol_name_legal s : cobol_name s = true -> legal s = negb (digit_first s).
Proof.
  destruct s as [|c t]; [discriminate|]. unfold cobol_name. intros H.
  apply andb_true_iff in H as [H _]. apply andb_true_iff in H as [H _]. apply andb_true_iff in H as [H Hc].
  apply andb_true_iff in H as [_ Hall]. cbn [forallb] in Hall. apply andb_true_iff in Hall as [Hc0 Ht].
  apply negb_true_iff in Hc.
  cbn [legal digit_first]. rewrite (first_char_start c Hc0 Hc).
  assert (E : forallb is_cont t = true).
  { apply forallb_forall. intros x Hx. apply name_char_cont. exact (forallb_In _ _ _ Ht Hx). }
  rewrite E, andb_true_r. reflexivity.
Qed.

Lemma emitted_valid_iff_cobol name_of title_of cobol_of kw_of (e : env) (t : item) (fuel : nat) :
  wf8 e t = true -> NoDup (ids_of t) ->
  (forall i, In i (ids_of t) -> cobol_name (name_of i) = true) ->
  (forall i, In i (elem_ids t) -> exists u txt, json_type u txt = Ok (kw_of i)) ->
  2 * idepth t + 1 <= fuel ->
  (valid_schema fuel (doc name_of title_of cobol_of kw_of (build t)) = true
   <-> forall i, In i (ids_of t) -> digit_first (name_of i) = false).
Proof.
  intros Hw Hnd Hc Ht Hf. rewrite (emitted_valid_iff name_of title_of cobol_of kw_of e t fuel Hw Hnd Ht Hf).
  split; intros H i Hi; specialize (H i Hi); rewrite (cobol_name_legal _ (Hc i Hi)) in *.
  - apply negb_true_iff in H. exact H.
  - rewrite H. reflexivity.
Qed.
