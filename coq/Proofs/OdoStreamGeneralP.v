(* Lemmas for C06d: the file-level theorems of C06 for the GENERAL OCCURS DEPENDING ON family (wfo, Proofs/LayoutOdoP.v).
   Part 1: a schema without a DependsOnArraySchema is walked without looking at the record (walk_indep); what a
           schema built from a description without ODO looks like (no_odo_build); set_schema never fails.
   Part 2: the frame lemma for the general family (nav_frame_general): when the walk on record r succeeds and
           ends inside r, every counter it fetched lies inside r, so the walk on r ++ more is the same walk.
   Part 3: the row loop and the record readers over ANY family, through one interface (framed): "on every buffer
           that begins with the record the navigator is v, and v ends at the record's length".
   Part 4: the interface instantiated for the flat family (the theorems of Proofs/OdoStreamP.v again, as a check of
           the abstraction) and for the general family (the new theorems).
   Part 5: a member of the general family and two records of it. *)
From Coq Require Import ZArith NArith List Bool Lia Arith.
Import ListNotations.
Require Import SR.Base.Res SR.Gen.RecfmParams SR.Spec.Recfm SR.Model.Recfm SR.Proofs.RecfmP.
Require Import SR.Spec.Layout SR.Model.Layout SR.Spec.OdoStream SR.Model.OdoStream.
Require SR.Proofs.OdoStreamP.
Require Import SR.Proofs.LayoutP SR.Proofs.LayoutOdoP.
(* The definitions of this development that occur in theorem statements (Props/) live in Spec/OdoGeneralWf.v (audit item G1).
   The abbreviations keep the qualified names OdoStreamGeneralP.name of other files resolving; they are parsing-only aliases. *)
Require Export SR.Spec.OdoGeneralWf.
Notation framed := SR.Spec.OdoGeneralWf.framed (only parsing).
Notation gen_tree := SR.Spec.OdoGeneralWf.gen_tree (only parsing).
Notation gen_dcount := SR.Spec.OdoGeneralWf.gen_dcount (only parsing).
Notation gen_e1 := SR.Spec.OdoGeneralWf.gen_e1 (only parsing).
Notation gen_e2 := SR.Spec.OdoGeneralWf.gen_e2 (only parsing).
Notation gen_r1 := SR.Spec.OdoGeneralWf.gen_r1 (only parsing).
Notation gen_r2 := SR.Spec.OdoGeneralWf.gen_r2 (only parsing).
Notation gen_start := SR.Spec.OdoGeneralWf.gen_start (only parsing).
Notation gen_row_view := SR.Spec.OdoGeneralWf.gen_row_view (only parsing).
Open Scope nat_scope.

(* ------------------------------------------------------------------ Part 1: schemas without ODO *)

Section Indep.
  Variable B : Type.
  Variable dcount : list B -> nat.
  Variables r r' : list B.

  (* the record is read by the DependsOnArraySchema case only *)
  Lemma walk_indep :
    (forall s, js_has_odo s = false -> forall st an, walk dcount r' s st an = walk dcount r s st an) /\
    (forall ps, props_have_odo ps = false -> forall off an, walk_props dcount r' ps off an = walk_props dcount r ps off an) /\
    (forall alts, alts_have_odo alts = false -> forall st an, walk_alts dcount r' alts st an = walk_alts dcount r alts st an).
  Proof.
    apply js_props_alts_ind.
    - intros a sz _ st an. rewrite !walk_atom. reflexivity.
    - intros a n its IH H st an. cbn [js_has_odo props_have_odo alts_have_odo] in H.
      rewrite (walk_arr B dcount r'), (walk_arr B dcount r), (IH H). reflexivity.
    - intros a c its IH H. discriminate.
    - intros a ps IH H st an. cbn [js_has_odo props_have_odo alts_have_odo] in H.
      rewrite (walk_obj B dcount r'), (walk_obj B dcount r), (IH H). reflexivity.
    - intros a alts IH H st an. cbn [js_has_odo props_have_odo alts_have_odo] in H.
      destruct alts as [|s0 rest]; [rewrite !walk_one_nil; reflexivity|].
      rewrite (walk_one B dcount r'), (walk_one B dcount r), (IH H). reflexivity.
    - intros t _ st an. rewrite !walk_ref. reflexivity.
    - intros _ off an. rewrite !walk_props_nil. reflexivity.
    - intros k s IHs rest IHr H off an. cbn [js_has_odo props_have_odo alts_have_odo] in H.
      apply orb_false_iff in H. destruct H as [H1 H2].
      rewrite (walk_props_cons B dcount r'), (walk_props_cons B dcount r), (IHs H1).
      destruct (walk dcount r s off an) as [[pl an1]|]; [|reflexivity]. rewrite (IHr H2). reflexivity.
    - intros _ st an. rewrite !walk_alts_nil. reflexivity.
    - intros s IHs rest IHr H st an. cbn [js_has_odo props_have_odo alts_have_odo] in H.
      apply orb_false_iff in H. destruct H as [H1 H2].
      rewrite (walk_alts_cons B dcount r'), (walk_alts_cons B dcount r), (IHs H1).
      destruct (walk dcount r s st an) as [[l an1]|]; [|reflexivity]. rewrite (IHr H2). reflexivity.
  Qed.

  (* ... and then the only way to fail is the empty oneOf (max() of an empty sequence: ValueError) *)
  Definition only_value_error {X} (x : res X) : Prop := match x with Ok _ => True | Err ex => ex = ValueError end.

  Lemma walk_noodo_errors :
    (forall s, js_has_odo s = false -> forall st an, only_value_error (walk dcount r s st an)) /\
    (forall ps, props_have_odo ps = false -> forall off an, only_value_error (walk_props dcount r ps off an)) /\
    (forall alts, alts_have_odo alts = false -> forall st an, only_value_error (walk_alts dcount r alts st an)).
  Proof.
    apply js_props_alts_ind.
    - intros a sz _ st an. rewrite walk_atom. exact I.
    - intros a n its IH H st an. cbn [js_has_odo props_have_odo alts_have_odo] in H. rewrite walk_arr.
      specialize (IH H st an). destruct (walk dcount r its st an) as [[sub an1]|ex]; [exact I|exact IH].
    - intros a c its IH H. discriminate.
    - intros a ps IH H st an. cbn [js_has_odo props_have_odo alts_have_odo] in H. rewrite walk_obj.
      specialize (IH H st an). destruct (walk_props dcount r ps st an) as [[[pls off] an1]|ex]; [exact I|exact IH].
    - intros a alts IH H st an. cbn [js_has_odo props_have_odo alts_have_odo] in H.
      destruct alts as [|s0 rest]; [rewrite walk_one_nil; reflexivity|]. rewrite walk_one.
      specialize (IH H st an). destruct (walk_alts dcount r (ACons s0 rest) st an) as [[als an1]|ex]; [exact I|exact IH].
    - intros t _ st an. rewrite walk_ref. exact I.
    - intros _ off an. rewrite walk_props_nil. exact I.
    - intros k s IHs rest IHr H off an. cbn [js_has_odo props_have_odo alts_have_odo] in H.
      apply orb_false_iff in H. destruct H as [H1 H2]. rewrite walk_props_cons.
      specialize (IHs H1 off an). destruct (walk dcount r s off an) as [[pl an1]|ex]; [|exact IHs].
      specialize (IHr H2 (off + lsize pl) (reg (js_anchor s) pl an1)).
      destruct (walk_props dcount r rest (off + lsize pl) (reg (js_anchor s) pl an1)) as [[[rl o2] an2]|ex]; [exact I|exact IHr].
    - intros _ st an. rewrite walk_alts_nil. exact I.
    - intros s IHs rest IHr H st an. cbn [js_has_odo props_have_odo alts_have_odo] in H.
      apply orb_false_iff in H. destruct H as [H1 H2]. rewrite walk_alts_cons.
      specialize (IHs H1 st an). destruct (walk dcount r s st an) as [[l an1]|ex]; [|exact IHs].
      specialize (IHr H2 st an1). destruct (walk_alts dcount r rest st an1) as [[ls an2]|ex]; [exact I|exact IHr].
  Qed.
End Indep.

(* COBOL_EBCDIC_Sheet.set_schema never raises, whatever the schema and the lrecl argument: a positive lrecl is kept;
   else from_schema() either succeeds or raises ValueError (an ODO array, an empty oneOf), which is caught *)
Lemma set_schema_total_any {A} (dcount : list A -> nat) (lrecl : option nat) (s : js) :
  exists l, set_schema dcount lrecl s = Ok l.
Proof.
  rewrite OdoStreamP.set_schema_unf. destruct lrecl as [[|n]|]; try (eexists; reflexivity).
  all: unfold from_schema; destruct (js_has_odo s) eqn:Eo; [eexists; reflexivity|].
  all: pose proof (proj1 (walk_noodo_errors A dcount []) s Eo
                     (LayoutRule.eval (LayoutRule.env_start LayoutParams.from_schema_default) LayoutParams.from_schema_start) []) as Hw.
  all: destruct (walk dcount [] s (LayoutRule.eval (LayoutRule.env_start LayoutParams.from_schema_default) LayoutParams.from_schema_start) [])
         as [[l an]|ex]; [eexists; reflexivity|].
  all: cbn [only_value_error] in Hw; subst ex; eexists; reflexivity.
Qed.

(* a description without OCCURS DEPENDING ON (wf) is built into a schema without a DependsOnArraySchema *)
Definition built_plain (b : built) : Prop := js_has_odo (snd b) = false.

Lemma alts_of_no_odo u : forall all, Forall built_plain all -> alts_have_odo (alts_of u all) = false.
Proof.
  induction all as [|[[i o] s] rest IH]; intros HF; [reflexivity|].
  inversion HF as [|b bs Hb HF']; subst. cbn [alts_of]. destruct o as [u'|]; [|apply IH; exact HF'].
  destruct (N.eqb u u'); [|apply IH; exact HF'].
  cbn [js_has_odo props_have_odo alts_have_odo]. unfold built_plain in Hb. cbn [snd] in Hb. rewrite Hb, (IH HF'). reflexivity.
Qed.

Lemma assemble_no_odo all : Forall built_plain all -> forall bs em, Forall built_plain bs ->
  props_have_odo (assemble all em bs) = false.
Proof.
  intros Hall. induction bs as [|[[i o] s] rest IH]; intros em HF; [reflexivity|].
  inversion HF as [|b bs Hb HF']; subst. unfold built_plain in Hb. cbn [snd] in Hb.
  cbn [assemble]. destruct o as [u|].
  - destruct (existsb (N.eqb u) em); cbn [js_has_odo props_have_odo alts_have_odo].
    + apply IH. exact HF'.
    + rewrite (alts_of_no_odo u all Hall), (IH _ HF'). reflexivity.
  - cbn [js_has_odo props_have_odo alts_have_odo]. rewrite Hb, (IH _ HF'). reflexivity.
Qed.

Lemma plain_no_odo : forall bs, Forall built_plain bs -> props_have_odo (plain bs) = false.
Proof.
  induction bs as [|[[i o] s] rest IH]; intros HF; [reflexivity|].
  inversion HF as [|b bs Hb HF']; subst. unfold built_plain in Hb. cbn [snd] in Hb.
  cbn [plain js_has_odo props_have_odo alts_have_odo]. rewrite Hb, (IH HF'). reflexivity.
Qed.

Lemma no_odo_build e :
  (forall x, wf e x = true -> js_has_odo (build_alt x) = false) /\
  (forall ks, wf_kids e ks = true -> forall tg, Forall built_plain (kid_alts tg ks)).
Proof.
  apply item_items_ind.
  - intros i sz oc rd Hw. destruct oc as [|n|c]; [reflexivity|reflexivity|discriminate].
  - intros i oc rd ks IH Hw. cbn [wf item_oc] in Hw. apply andb_true_iff in Hw. destruct Hw as [Hoc Hw].
    apply andb_true_iff in Hw. destruct Hw as [Hk _]. specialize (IH Hk).
    destruct oc as [|n|c]; [| |discriminate]; cbn [build_alt js_has_odo props_have_odo alts_have_odo].
    + apply assemble_no_odo; apply IH.
    + apply plain_no_odo. apply IH.
  - intros _ tg. constructor.
  - intros x IHx xs IHxs Hw tg. cbn [wf_kids] in Hw. apply andb_true_iff in Hw. destruct Hw as [Hx Hxs].
    rewrite kid_alts_cons. constructor; [exact (IHx Hx)|exact (IHxs Hxs tg)].
Qed.

Lemma alts_red_no_odo u : forall xs,
  (forall y, in_kids y xs -> item_redef y <> None -> js_has_odo (build_alt y) = false) ->
  alts_have_odo (alts_red u xs) = false.
Proof.
  induction xs as [|x xs IH]; intros H; [reflexivity|].
  assert (Hxs : alts_have_odo (alts_red u xs) = false) by (apply IH; intros y Hy; apply H; right; exact Hy).
  cbn [alts_red]. destruct (item_redef x) as [u'|] eqn:Er; [|exact Hxs].
  destruct (N.eqb u u'); [|exact Hxs]. cbn [js_has_odo props_have_odo alts_have_odo].
  rewrite Hxs, (H x (or_introl eq_refl)); [reflexivity|congruence].
Qed.

(* ------------------------------------------------------------------ Part 2: the frame lemma, general family *)

Section Frame.
  Variable B : Type.
  Variable dcount : list B -> nat.
  Variable r more : list B.
  Variable e : env.
  Notation r2 := (r ++ more).

  (* every available counter is registered as an atom that lies inside the record *)
  Definition CNb (an : anchors) (avail : list id) : Prop :=
    forall c, In c avail -> exists cst csz, lookup (KName c) an = Some (LAtom cst csz) /\ cst + csz <= length r.

  Lemma CNb_same an an' avail :
    CNb an avail -> (forall c, In c avail -> lookup (KName c) an' = lookup (KName c) an) -> CNb an' avail.
  Proof.
    intros H Hl c Hc. destruct (H c Hc) as (cst & csz & Hk & Hb). exists cst, csz. split; [|exact Hb].
    rewrite (Hl c Hc). exact Hk.
  Qed.

  Lemma CNb_extends an an' avail ks :
    CNb an avail -> extends ks an an' -> (forall c, In c avail -> ~ In (KName c) ks) -> CNb an' avail.
  Proof.
    intros H He Hd. apply (CNb_same an); [exact H|]. intros c Hc. apply (extends_lookup _ _ _ _ He (Hd c Hc)).
  Qed.

  Lemma name_not_in_K c l : ~ In c l -> ~ In (KName c) (K l).
  Proof. intros H Hk. apply K_name in Hk. contradiction. Qed.

  (* the ObjectSchema loop registers the anchor of a property a second time, under the same key with the same
     location: no lookup changes *)
  Lemma lookup_reg_again (rr : list B) s st an l an' k :
    walk dcount rr s st an = Ok (l, an') -> lookup k (reg (js_anchor s) l an') = lookup k an'.
  Proof.
    intros H. destruct (js_anchor s) as [k0|] eqn:Ea; [|reflexivity].
    assert (Hhd : exists an0, an' = (k0, l) :: an0).
    { destruct s as [a sz|a n its|a c its|a ps|a alts|t]; cbn [js_anchor] in Ea; try discriminate; subst a.
      - rewrite walk_atom in H. injection H as <- <-. eexists. reflexivity.
      - rewrite walk_arr in H. destruct (walk dcount rr its st an) as [[sub an1]|]; [|discriminate].
        injection H as <- <-. eexists. reflexivity.
      - rewrite walk_odo in H. destruct (lookup (KName c) an) as [[cst csz| | | |]|]; try discriminate.
        destruct (walk dcount rr its st an) as [[sub an1]|]; [|discriminate].
        injection H as <- <-. eexists. reflexivity.
      - rewrite walk_obj in H. destruct (walk_props dcount rr ps st an) as [[[pls off] an1]|]; [|discriminate].
        injection H as <- <-. eexists. reflexivity.
      - destruct alts as [|s0 rest]; [rewrite walk_one_nil in H; discriminate|]. rewrite walk_one in H.
        destruct (walk_alts dcount rr (ACons s0 rest) st an) as [[als an1]|]; [|discriminate].
        injection H as <- <-. eexists. reflexivity. }
    destruct Hhd as [an0 ->]. cbn [reg lookup]. destruct (key_eqb k k0); reflexivity.
  Qed.

  (* one DependsOnArraySchema whose items hold no further one: the counter lies inside r *)
  Lemma frame_odo a c its st an l an' avail :
    js_has_odo its = false -> CNb an avail -> In c avail ->
    walk dcount r (JOdo a c its) st an = Ok (l, an') -> walk dcount r2 (JOdo a c its) st an = Ok (l, an').
  Proof.
    intros Hno Hcn Hc H. destruct (Hcn c Hc) as (cst & csz & Hl & Hb).
    rewrite (walk_odo B dcount r), Hl in H. rewrite (walk_odo B dcount r2), Hl.
    rewrite (proj1 (walk_indep B dcount r r2) its Hno), (OdoStreamP.slice_app r more cst (cst + csz) Hb). exact H.
  Qed.

  (* an item without ODO inside *)
  Lemma FR_of_wf x avail st an l an' :
    wf e x = true -> NoDup (ids x) -> (forall c, In c avail -> ~ In c (ids x)) -> CNb an avail ->
    walk dcount r (build_alt x) st an = Ok (l, an') ->
    walk dcount r2 (build_alt x) st an = Ok (l, an') /\ CNb an' avail.
  Proof.
    intros Hw Hnd Hd Hcn H. split.
    - rewrite (proj1 (walk_indep B dcount r r2) _ (proj1 (no_odo_build e) x Hw)). exact H.
    - eapply CNb_extends; [exact Hcn|exact (W_extends B dcount r e x st an l an' Hw Hnd H)|].
      intros c Hc. apply name_not_in_K, Hd, Hc.
  Qed.

  (* the claim, per item: if the walk of x on r, started at st with every available counter inside r, succeeds and ends
     inside r, then the walk on r ++ more is the same, and the counters x supplies lie inside r too *)
  Definition FR (x : item) : Prop :=
    forall avail st an l an', wfo e avail x = true -> NoDup (ids x) -> (forall c, In c avail -> ~ In c (ids x)) ->
      CNb an avail -> walk dcount r (build_alt x) st an = Ok (l, an') -> st + lsize l <= length r ->
      walk dcount r2 (build_alt x) st an = Ok (l, an') /\ CNb an' (avail ++ new_counters x).

  (* one turn of the ObjectSchema loop, taken apart and put together *)
  Lemma props_step (rr : list B) k p rest off an pls off' an' :
    walk_props dcount rr (PCons k p rest) off an = Ok (pls, off', an') ->
    exists pl an1 rl, walk dcount rr p off an = Ok (pl, an1)
      /\ walk_props dcount rr rest (off + lsize pl) (reg (js_anchor p) pl an1) = Ok (rl, off', an')
      /\ pls = LPCons k pl rl.
  Proof.
    intros H. rewrite walk_props_cons in H. destruct (walk dcount rr p off an) as [[pl an1]|]; [|discriminate].
    destruct (walk_props dcount rr rest (off + lsize pl) (reg (js_anchor p) pl an1)) as [[[rl o2] an2]|] eqn:E; [|discriminate].
    injection H as <- <- <-. exists pl, an1, rl. repeat split. exact E.
  Qed.

  Lemma props_unstep (rr : list B) k p rest off an pl an1 rl off' an' :
    walk dcount rr p off an = Ok (pl, an1) ->
    walk_props dcount rr rest (off + lsize pl) (reg (js_anchor p) pl an1) = Ok (rl, off', an') ->
    walk_props dcount rr (PCons k p rest) off an = Ok (LPCons k pl rl, off', an').
  Proof. intros H1 H2. rewrite walk_props_cons, H1, H2. reflexivity. Qed.

  Lemma FRK : forall rem, (forall y, in_kids y rem -> FR y) -> NoDup (ids_kids rem) ->
    forall avail off an pls off' an',
      wfo_kids e avail rem = true -> (forall c, In c avail -> ~ In c (ids_kids rem)) -> CNb an avail ->
      walk_props dcount r (assemble_d rem) off an = Ok (pls, off', an') -> off' <= length r ->
      walk_props dcount r2 (assemble_d rem) off an = Ok (pls, off', an') /\ CNb an' (avail ++ kids_counters rem).
  Proof.
    induction rem as [|x xs IH]; intros HW Hnd avail off an pls off' an' Hwf Hav Hcn H Hb.
    - cbn [assemble_d kids_counters] in *. rewrite walk_props_nil in H. injection H as <- <- <-.
      rewrite walk_props_nil, app_nil_r. split; [reflexivity|exact Hcn].
    - assert (Hndx : NoDup (ids x)) by (cbn [ids_kids] in Hnd; apply NoDup_app_l in Hnd; exact Hnd).
      assert (Hndxs : NoDup (ids_kids xs)) by (cbn [ids_kids] in Hnd; apply NoDup_app_r in Hnd; exact Hnd).
      assert (HWxs : forall y, in_kids y xs -> FR y) by (intros y Hy; apply HW; right; exact Hy).
      assert (Havx : forall c, In c avail -> ~ In c (ids x))
        by (intros c Hc Hi; apply (Hav c Hc); cbn [ids_kids]; apply in_or_app; left; exact Hi).
      assert (Havxs : forall c, In c avail -> ~ In c (ids_kids xs))
        by (intros c Hc Hi; apply (Hav c Hc); cbn [ids_kids]; apply in_or_app; right; exact Hi).
      (* every key the loop over these children may register belongs to them *)
      pose proof (keys_assemble_d (ICons x xs) (proj2 (keys_build_o e) (ICons x xs) avail Hwf Hnd)) as HK.
      assert (Hfree : forall c, In c avail -> ~ In (KName c) (K (ids_kids (ICons x xs))))
        by (intros c Hc; apply name_not_in_K, Hav, Hc).
      cbn [assemble_d wfo_kids kids_counters] in *. unfold member in *.
      destruct (item_redef x) as [u|] eqn:Er.
      + (* a redefiner: a $ref placeholder *)
        apply andb_true_iff in Hwf. destruct Hwf as [Hwx Hwfxs].
        destruct (props_step r _ _ _ _ _ _ _ _ H) as (pl & an1 & rl & E1 & E2 & ->).
        pose proof E1 as E1'. rewrite walk_ref in E1'. injection E1' as <- <-. cbn [js_anchor reg] in E2.
        destruct (IH HWxs Hndxs avail _ an rl off' an' Hwfxs Havxs Hcn E2 Hb) as [E2' Hc'].
        split; [|exact Hc']. apply props_unstep with (an1 := an); [apply walk_ref|exact E2'].
      + destruct (existsb (N.eqb (item_id x)) (redef_targets xs)) eqn:Etg.
        * (* the redefined item: REDEFINES-x -> oneOf [x, its redefiners], then x -> $ref; no ODO inside *)
          apply andb_true_iff in Hwf. destruct Hwf as [Hwx Hwfxs].
          destruct (props_step r _ _ _ _ _ _ _ _ H) as (pl & an1 & rl & E1 & E2 & ->).
          destruct (props_step r _ _ _ _ _ _ _ _ E2) as (pl2 & an2 & rl2 & E3 & E4 & ->).
          pose proof E3 as E3'. rewrite walk_ref in E3'. injection E3' as <- <-.
          assert (HnoJ : js_has_odo (JOne (Some (KRedef (item_id x))) (ACons (build_alt x) (alts_red (item_id x) xs))) = false).
          { cbn [js_has_odo props_have_odo alts_have_odo]. rewrite (proj1 (no_odo_build e) x Hwx). cbn [orb].
            apply alts_red_no_odo. intros y Hy Hr. apply (proj1 (no_odo_build e)).
            eapply wfo_kids_member; [exact Hwfxs|exact Hy|exact Hr]. }
          assert (Hcn1 : CNb an1 avail).
          { eapply CNb_extends; [exact Hcn|exact (proj1 (walk_extends B dcount r) _ _ _ _ _ E1)|].
            intros c Hc Hin. apply (Hfree c Hc). apply HK. cbn [keys_props]. apply in_or_app. left. exact Hin. }
          assert (Hcn2 : CNb (reg (js_anchor (JRef (KName (item_id x)))) (LRef (off + lsize pl) (KName (item_id x)))
                              (reg (js_anchor (JOne (Some (KRedef (item_id x))) (ACons (build_alt x) (alts_red (item_id x) xs)))) pl an1)) avail).
          { cbn [js_anchor reg]. apply (CNb_same an1); [exact Hcn1|]. intros c _. reflexivity. }
          destruct (IH HWxs Hndxs avail _ _ rl2 off' an' Hwfxs Havxs Hcn2 E4 Hb) as [E4' Hc'].
          split; [|exact Hc'].
          eapply props_unstep; [rewrite (proj1 (walk_indep B dcount r r2) _ HnoJ); exact E1|].
          eapply props_unstep; [apply walk_ref|exact E4'].
        * (* an ordinary child: may contain, or be, an ODO table; may supply counters *)
          apply andb_true_iff in Hwf. destruct Hwf as [Hwx Hwfxs].
          destruct (props_step r _ _ _ _ _ _ _ _ H) as (pl & an1 & rl & E1 & E2 & ->).
          pose proof (walk_props_offset B dcount r _ _ _ _ _ _ E2) as Hoff.
          destruct (HW x (or_introl eq_refl) avail off an pl an1 Hwx Hndx Havx Hcn E1) as [E1' Hcn1]; [lia|].
          assert (Hcn2 : CNb (reg (js_anchor (build_alt x)) pl an1) (avail ++ new_counters x)).
          { apply (CNb_same an1); [exact Hcn1|]. intros c _. apply (lookup_reg_again r _ _ _ _ _ _ E1). }
          assert (Hav2 : forall c, In c (avail ++ new_counters x) -> ~ In c (ids_kids xs)).
          { intros c Hc Hi. apply in_app_or in Hc. destruct Hc as [Hc|Hc]; [exact (Havxs c Hc Hi)|].
            apply (proj1 new_counters_incl) in Hc. cbn [ids_kids] in Hnd. exact (NoDup_app_disj _ _ _ Hnd Hc Hi). }
          destruct (IH HWxs Hndxs (avail ++ new_counters x) _ _ rl off' an' Hwfxs Hav2 Hcn2 E2 Hb) as [E2' Hc'].
          split; [|rewrite app_assoc; exact Hc'].
          eapply props_unstep; [exact E1'|exact E2'].
  Qed.

  Theorem FR_all : (forall x, FR x) /\ (forall ks y, in_kids y ks -> FR y).
  Proof.
    apply item_items_ind.
    - (* elementary *)
      intros i sz oc rd avail st an l an' Hw Hnd Hav Hcn H Hb.
      assert (Hi : forall c, In c avail -> c <> i) by (intros c Hc E; apply (Hav c Hc); left; symmetry; exact E).
      destruct oc as [|n|c].
      + (* a fixed item: a potential counter, registered where it lies *)
        cbn [build_alt] in *. rewrite walk_atom in H. injection H as <- <-. rewrite walk_atom. split; [reflexivity|].
        cbn [new_counters reg lsize] in *. intros c0 Hc0. apply in_app_or in Hc0. destruct Hc0 as [Hc0|[ <- |[]]].
        * destruct (Hcn c0 Hc0) as (cst & csz & Hl & Hbd). exists cst, csz. split; [|exact Hbd].
          cbn [lookup]. rewrite key_eqb_neq; [exact Hl|]. intros E. injection E as E. exact (Hi c0 Hc0 E).
        * exists st, sz. split; [apply lookup_cons_same|exact Hb].
      + cbn [new_counters]. rewrite app_nil_r. apply (FR_of_wf (Elem i sz (Times n) rd) avail st an l an' eq_refl Hnd Hav Hcn H).
      + destruct rd as [u|]; [discriminate|]. cbn [wfo] in Hw. apply existsb_eqb_In in Hw.
        cbn [new_counters]. rewrite app_nil_r. split.
        * cbn [build_alt] in *. apply (frame_odo None c (elem_items i sz) st an l an' avail eq_refl Hcn Hw H).
        * eapply CNb_extends; [exact Hcn|exact (WO_ext B dcount r e (Elem i sz (Odo c) None) avail st an l an'
                                                    (proj2 (existsb_eqb_In c avail) Hw) Hnd H)|].
          intros c0 Hc0. apply name_not_in_K, Hav, Hc0.
    - (* group *)
      intros i oc rd ks IH avail st an l an' Hw Hnd Hav Hcn H Hb.
      pose proof Hnd as Hnd0. cbn [ids] in Hnd. assert (Hndk : NoDup (ids_kids ks)) by (inversion Hnd; assumption).
      assert (Hik : ~ In i (ids_kids ks)) by (inversion Hnd; assumption).
      assert (Havk : forall c, In c avail -> ~ In c (ids_kids ks)) by (intros c Hc Hin; apply (Hav c Hc); right; exact Hin).
      assert (Hi : forall c, In c avail -> c <> i) by (intros c Hc E; apply (Hav c Hc); left; symmetry; exact E).
      destruct oc as [|n|c].
      + cbn [wfo] in Hw. apply andb_true_iff in Hw. destruct Hw as [Hwk Hu].
        pose proof (build_group_once e i rd ks Hndk Hu) as Eb. rewrite Eb in H |- *. clear Eb.
        rewrite walk_obj in H. destruct (walk_props dcount r (assemble_d ks) st an) as [[[pls off] an1]|] eqn:E; [|discriminate].
        injection H as <- <-. pose proof (walk_props_offset B dcount r _ _ _ _ _ _ E) as Ho. cbn [lsize] in Hb.
        destruct (FRK ks IH Hndk avail st an pls off an1 Hwk Havk Hcn E) as [E2 Hc]; [lia|].
        split; [rewrite walk_obj, E2; reflexivity|].
        cbn [new_counters]. apply (CNb_same an1); [exact Hc|]. intros c0 Hc0. cbn [reg lookup].
        rewrite key_eqb_neq; [reflexivity|]. intros Eq. injection Eq as Eq. apply in_app_or in Hc0. destruct Hc0 as [Hc0|Hc0].
        * exact (Hi c0 Hc0 Eq).
        * apply (proj2 new_counters_incl) in Hc0. subst c0. contradiction.
      + cbn [wfo] in Hw. apply andb_true_iff in Hw. destruct Hw as [Hwk Hno].
        assert (Hold : wf e (Group i (Times n) rd ks) = true).
        { cbn [wf item_oc no_odo]. rewrite Hwk. unfold no_targets in Hno. cbn [andb]. destruct (redef_targets ks); [reflexivity|discriminate]. }
        cbn [new_counters]. rewrite app_nil_r. apply (FR_of_wf _ avail st an l an' Hold Hnd0 Hav Hcn H).
      + destruct rd as [u|]; [discriminate|]. pose proof Hw as Hw0. cbn [wfo] in Hw. apply andb_true_iff in Hw. destruct Hw as [Hw Hno].
        apply andb_true_iff in Hw. destruct Hw as [Hc Hwk]. apply existsb_eqb_In in Hc.
        cbn [new_counters]. rewrite app_nil_r. split.
        * cbn [build_alt] in *. refine (frame_odo _ c _ st an l an' avail _ Hcn Hc H).
          cbn [js_has_odo props_have_odo alts_have_odo]. apply plain_no_odo. apply (proj2 (no_odo_build e) ks Hwk).
        * eapply CNb_extends; [exact Hcn|exact (WO_ext B dcount r e _ avail st an l an' Hw0 Hnd0 H)|].
          intros c0 Hc0. apply name_not_in_K, Hav, Hc0.
    - intros y [].
    - intros x IHx xs IHxs y [ -> |Hy]; [exact IHx|apply IHxs; exact Hy].
  Qed.

  (* a walk of the whole record that ends inside r does not see what follows r *)
  Lemma frame_walk t l an :
    wfo e [] t = true -> NoDup (ids t) -> walk dcount r (build t) 0 [] = Ok (l, an) -> lsize l <= length r ->
    walk dcount r2 (build t) 0 [] = Ok (l, an).
  Proof.
    intros Hw Hnd H Hb.
    exact (proj1 (proj1 FR_all t [] 0 [] l an Hw Hnd (fun c Hc => match Hc with end) (fun c Hc => match Hc with end) H Hb)).
  Qed.

  (* the frame lemma: trailing elements - the next records in the read-ahead buffer, the padding of a fixed-length
     record - do not change the layout *)
  Theorem nav_frame_general t :
    wfo e [] t = true -> NoDup (ids t) -> Holds B dcount r e t 0 -> extent e t <= length r ->
    nav_of dcount (r ++ more) (build t) = nav_of dcount r (build t).
  Proof.
    intros Hw Hnd Hh Hlen. destruct (layout_correct_odo B dcount r e t Hw Hnd Hh) as (v0 & Hn & _ & Hend & _).
    rewrite (nav_of_unf B dcount r2), (nav_of_unf B dcount r) in *.
    destruct (walk dcount r (build t) 0 []) as [[l an]|] eqn:E; [|discriminate]. injection Hn as <-. cbn [n_loc] in Hend.
    rewrite (frame_walk t l an Hw Hnd E); [reflexivity|]. unfold lend in Hend. lia.
  Qed.
End Frame.

(* the same without the record hypothesis: any walk of a member of the family that succeeds on r and ends inside r *)
Lemma nav_frame_walk (B : Type) (dcount : list B -> nat) (r more : list B) (e : env) (t : item) (v : nav) :
  wfo e [] t = true -> NoDup (ids t) -> nav_of dcount r (build t) = Ok v -> lsize (n_loc v) <= length r ->
  nav_of dcount (r ++ more) (build t) = Ok v.
Proof.
  intros Hw Hnd Hn Hb.
  rewrite (nav_of_unf B dcount (r ++ more)). rewrite (nav_of_unf B dcount r) in Hn.
  destruct (walk dcount r (build t) 0 []) as [[l an]|] eqn:E; [|discriminate]. injection Hn as <-.
  rewrite (frame_walk B dcount r more e t l an Hw Hnd E Hb). reflexivity.
Qed.

(* ------------------------------------------------------------------ Part 3: the readers over any family *)

Lemma Forall2_map_l {X Y Z} (f : X -> Y) (P : Y -> Z -> Prop) : forall xs zs,
  Forall2 P (map f xs) zs -> Forall2 (fun x z => P (f x) z) xs zs.
Proof.
  induction xs as [|x xs IH]; intros zs H; inversion H; subst; constructor; [assumption|apply IH; assumption].
Qed.

Section AbstractRows.
  Context {A : Type}.
  Variable dcount : list A -> nat.
  Variable schema : js.
  Notation framed := (framed dcount schema).

  Lemma framed_self r v : framed r v -> nav_of dcount r schema = Ok v.
  Proof. intros [H _]. specialize (H []). rewrite app_nil_r in H. exact H. Qed.

  Section Loop.
  Variable B : nat.
  Hypothesis Bpos : 0 < B.
  Variable kind : N.

  (* OdoStreamP.row_loop_ok, with the family seen through [framed] only *)
  Lemma row_loop_abs : forall (rs : list (list A)) (vs : list nav) (s : st A) (fuel : nat),
    Forall2 framed rs vs -> Inv B s -> stream s = concat rs -> legal_N B rs = true ->
    length rs < fuel ->
    exists rows s', row_loop dcount fuel 0 kind B schema s = (rows, Done, s')
      /\ map (@row_buf A) rows = spec_bufs B (stream s) (map (@length A) rs)
      /\ map (@row_nav A) rows = vs
      /\ buf s' = [] /\ rest s' = [].
  Proof.
    induction rs as [|r rs IH]; intros vs s fuel HF HI HS HL Hfuel; (destruct fuel as [|f]; [cbn in Hfuel; lia|]).
    - inversion HF; subst. cbn [concat] in HS. unfold stream in HS. apply app_eq_nil in HS as [Hb Hr].
      exists [], s. cbn [row_loop]. rewrite Hb. repeat split; try assumption; reflexivity.
    - inversion HF as [|r' v rs' vs' [Hfr Hend] HF']; subst.
      unfold legal_N in HL. cbn [forallb] in HL. apply andb_prop in HL as [Hr HL']. fold (legal_N B rs) in HL'.
      apply andb_prop in Hr as [Hr1 Hr2]. apply Nat.leb_le in Hr1. apply Nat.leb_le in Hr2.
      cbn [concat] in HS.
      pose proof (inv_len B s HI) as Hblen. rewrite HS, app_length in Hblen.
      assert (Hn : length r <= length (buf s)) by lia.
      assert (Hbuf : buf s = r ++ firstn (B - length r) (concat rs)).
      { rewrite HI, HS. rewrite firstn_app. f_equal. apply firstn_all2. exact Hr2. }
      assert (Hnav : nav_of dcount (buf s) schema = Ok v) by (rewrite Hbuf; apply Hfr).
      assert (HI' : Inv B (RecfmP.step B s (length r))) by (apply step_inv; assumption).
      assert (HS' : stream (RecfmP.step B s (length r)) = concat rs).
      { rewrite step_stream by assumption. rewrite HS. apply skipn_exact. }
      destruct (IH vs' _ f HF' HI' HS' HL') as (rows & s' & Hrun & Hbufs & Hnavs & Hb & Hrest); [cbn in Hfuel; lia|].
      exists (mkrow (buf s) v :: rows), s'.
      cbn [row_loop].
      destruct (buf s) as [|b0 bs] eqn:Eb; [cbn in Hn; lia|]. rewrite <- Eb in *.
      rewrite Hnav, Hend.
      destruct (length r =? 0) eqn:E0; [apply Nat.eqb_eq in E0; lia|].
      rewrite (step_eq B Bpos kind s (length r) HI). rewrite Hrun.
      split; [reflexivity|]. split; [|split; [|split; assumption]].
      + cbn [map row_buf spec_bufs]. rewrite Hbufs. rewrite step_stream by assumption. rewrite <- HI. reflexivity.
      + cbn [map row_nav]. rewrite Hnavs. reflexivity.
  Qed.

  Lemma stream_N_any_buffer_abs (rs : list (list A)) (vs : list nav) :
    Forall2 framed rs vs -> legal_N B rs = true ->
    exists rows s',
      row_loop dcount (S (length (write_N rs))) 0 kind B schema (N_init B (write_N rs)) = (rows, Done, s')
      /\ map (@row_buf A) rows = spec_bufs B (write_N rs) (map (@length A) rs)
      /\ heads (map (@length A) rs) (map (@row_buf A) rows) = rs
      /\ map (@row_nav A) rows = vs
      /\ buf s' = [] /\ rest s' = [].
  Proof.
    intros HF HL. destruct (inv_init B (write_N rs)) as [HI HS].
    assert (Hfuel : length rs < S (length (write_N rs))).
    { unfold write_N. assert (length rs <= length (concat rs)); [|lia]. apply length_concat_ge.
      unfold legal_N in HL. clear -HL. induction rs as [|r rs IH]; [reflexivity|].
      cbn [forallb] in *. apply andb_prop in HL as [Hr HL]. apply andb_prop in Hr as [Hr _]. rewrite Hr, (IH HL). reflexivity. }
    destruct (row_loop_abs rs vs _ _ HF HI HS HL Hfuel) as (rows & s' & Hrun & Hbufs & Hnavs & Hb & Hr).
    rewrite HS in Hbufs.
    exists rows, s'. split; [exact Hrun|]. split; [exact Hbufs|]. split; [|split; [exact Hnavs|split; assumption]].
    rewrite Hbufs. apply OdoStreamP.heads_spec_bufs. exact HL.
  Qed.
  End Loop.

  (* through set_schema and rows(), buffer size and refill of the current source, any lrecl argument *)
  Lemma rows_N_abs (kind : N) (lrecl : option nat) (rs : list (list A)) (vs : list nav) :
    Forall2 framed rs vs -> legal_N (N.to_nat buffer_size) rs = true ->
    exists rows s',
      rows_N dcount kind lrecl schema (write_N rs) = Ok (rows, Done, s')
      /\ map (@row_buf A) rows = spec_bufs (N.to_nat buffer_size) (write_N rs) (map (@length A) rs)
      /\ heads (map (@length A) rs) (map (@row_buf A) rows) = rs
      /\ map (@row_nav A) rows = vs
      /\ buf s' = [] /\ rest s' = [].
  Proof.
    intros HF HL.
    destruct (stream_N_any_buffer_abs (N.to_nat buffer_size) buffer_positive kind rs vs HF HL) as (rows & s' & Hrun & H).
    exists rows, s'. split; [|exact H].
    unfold rows_N. destruct (set_schema_total_any dcount lrecl schema) as [l ->]. rewrite refill_is_top_up, Hrun. reflexivity.
  Qed.

  (* readers that deliver whole buffers: a Row per buffer *)
  Lemma rows_of_abs : forall (ps : list (list A)) (vs : list nav),
    Forall2 (fun p v => nav_of dcount p schema = Ok v) ps vs ->
    exists rows, rows_of dcount schema ps = (rows, None)
      /\ map (@row_buf A) rows = ps /\ map (@row_nav A) rows = vs.
  Proof.
    intros ps vs HF. induction HF as [|p v ps vs Hn HF IH].
    - exists []. repeat split; reflexivity.
    - destruct IH as (rows & Hrun & Hb & Hv). exists (mkrow p v :: rows).
      cbn [rows_of]. rewrite Hn, Hrun. cbn [map row_buf row_nav]. rewrite Hb, Hv. repeat split; reflexivity.
  Qed.

  Lemma framed_selves : forall rs vs, Forall2 framed rs vs -> Forall2 (fun p v => nav_of dcount p schema = Ok v) rs vs.
  Proof. intros rs vs HF. induction HF; constructor; [apply framed_self; assumption|assumption]. Qed.

  Lemma framed_padded : forall rs vs ps, Forall2 framed rs vs -> Forall2 OdoStreamP.padded rs ps ->
    Forall2 (fun p v => nav_of dcount p schema = Ok v) ps vs.
  Proof.
    intros rs vs ps HF. revert ps. induction HF as [|r v rs vs [Hfr _] HF IH]; intros ps HP; inversion HP as [|r0 p rs0 ps0 [more Hp] HP']; subst.
    - constructor.
    - constructor; [apply Hfr|apply IH; exact HP'].
  Qed.
End AbstractRows.

Lemma rows_V_abs (dcount : list N -> nat) (schema : js) (kind : N) (lrecl : option nat) (rs : list (list N)) (vs : list nav) :
  Forall2 (framed dcount schema) rs vs -> legal_V rs = true ->
  exists rows,
    rows_V dcount kind lrecl schema (write_V rs) = Ok (rows, Done)
    /\ map (@row_buf N) rows = rs /\ map (@row_nav N) rows = vs.
Proof.
  intros HF _. destruct (rows_of_abs dcount schema rs vs (framed_selves dcount schema rs vs HF)) as (rows & Hrun & Hb & Hv).
  exists rows. split; [|split; assumption].
  unfold rows_V. destruct (set_schema_total_any dcount lrecl schema) as [l ->].
  rewrite V_record_iter_ok. unfold rows_from. rewrite Hrun. reflexivity.
Qed.

Lemma rows_VB_abs (dcount : list N -> nat) (schema : js) (kind : N) (lrecl : option nat)
    (blocks : list (list (list N))) (vs : list nav) :
  Forall2 (framed dcount schema) (concat blocks) vs -> legal_VB blocks = true ->
  exists rows,
    rows_VB dcount kind lrecl schema (write_VB blocks) = Ok (rows, Done)
    /\ map (@row_buf N) rows = concat blocks /\ map (@row_nav N) rows = vs.
Proof.
  intros HF HL. destruct (rows_of_abs dcount schema _ vs (framed_selves dcount schema _ vs HF)) as (rows & Hrun & Hb & Hv).
  exists rows. split; [|split; assumption].
  unfold rows_VB. destruct (set_schema_total_any dcount lrecl schema) as [l ->].
  rewrite (VB_record_iter_ok kind blocks HL). unfold rows_from. rewrite Hrun. reflexivity.
Qed.

Lemma rows_F_abs (dcount : list N -> nat) (schema : js) (kind : N) (lrecl : nat) (rs ps : list (list N)) (vs : list nav) :
  Forall2 (framed dcount schema) rs vs -> Forall2 OdoStreamP.padded rs ps -> legal_F lrecl ps = true ->
  exists rows,
    rows_F dcount kind (Some lrecl) schema (write_F ps) = Ok (rows, Done)
    /\ map (@row_buf N) rows = ps /\ map (@row_nav N) rows = vs.
Proof.
  intros HF HP HL. destruct (rows_of_abs dcount schema ps vs (framed_padded dcount schema rs vs ps HF HP)) as (rows & Hrun & Hb & Hv).
  exists rows. split; [|split; assumption].
  assert (Hl : 1 <= lrecl).
  { unfold legal_F in HL. apply andb_prop in HL as [H1 _]. apply Nat.leb_le in H1. exact H1. }
  unfold rows_F, set_schema, set_schema_with. destruct lrecl as [|n]; [lia|].
  rewrite (F_record_iter_ok kind (S n) ps HL). unfold rows_from. rewrite Hrun. reflexivity.
Qed.

(* ------------------------------------------------------------------ Part 4a: the flat family through the interface *)

Lemma framed_flat {A} (dcount : list A -> nat) t e (r : list A) :
  flat_odo t = true -> OdoStreamP.rec_ok dcount t e r -> framed dcount (build t) r (OdoStreamP.flat_nav e t).
Proof.
  intros Hf [Hlen Hc]. split.
  - intros more. apply OdoStreamP.nav_flat; [exact Hf|]. apply OdoStreamP.counters_frame; [exact Hf|lia|exact Hc].
  - rewrite (OdoStreamP.flat_nav_end e t Hf). symmetry. exact Hlen.
Qed.

Lemma framed_flat_all {A} (dcount : list A -> nat) t : flat_odo t = true -> forall es (rs : list (list A)),
  Forall2 (OdoStreamP.rec_ok dcount t) es rs ->
  Forall2 (framed dcount (build t)) rs (map (fun e => OdoStreamP.flat_nav e t) es).
Proof.
  intros Hf es rs HF. induction HF as [|e r es rs H HF IH]; [constructor|].
  cbn [map]. constructor; [apply framed_flat; assumption|exact IH].
Qed.

(* the statements of OdoStreamP.stream_N_any_buffer / stream_N_any_lrecl / stream_V_any_lrecl / stream_VB_any_lrecl /
   stream_F (Props/C06.v: C06_stream_N_any_buffer, _N, _V, _VB, _F), word for word, now as instances *)
Lemma flat_stream_N_any_buffer_again {A} (dcount : list A -> nat) (B : nat) (kind : N) t es (rs : list (list A)) :
  0 < B -> flat_odo t = true -> Forall2 (OdoStreamP.rec_ok dcount t) es rs -> legal_N B rs = true ->
  exists rows s',
    row_loop dcount (S (length (write_N rs))) 0 kind B (build t) (N_init B (write_N rs)) = (rows, Done, s')
    /\ map (@row_buf A) rows = spec_bufs B (write_N rs) (map (@length A) rs)
    /\ heads (map (@length A) rs) (map (@row_buf A) rows) = rs
    /\ Forall2 (fun rw r => nav_of dcount r (build t) = Ok (row_nav rw)) rows rs
    /\ Forall2 (fun rw e => lend (n_loc (row_nav rw)) = extent e t) rows es
    /\ buf s' = [] /\ rest s' = [].
Proof.
  intros HB Hf HF HL.
  destruct (stream_N_any_buffer_abs dcount (build t) B HB kind rs _ (framed_flat_all dcount t Hf es rs HF) HL)
    as (rows & s' & Hrun & Hbufs & Hheads & Hnavs & Hb & Hr).
  destruct (OdoStreamP.rows_facts dcount t rows es rs Hf Hnavs HF) as [F1 F2].
  exists rows, s'. repeat split; assumption.
Qed.

Lemma flat_stream_N_again {A} (dcount : list A -> nat) (kind : N) (lrecl : option nat) t es (rs : list (list A)) :
  flat_odo t = true -> Forall2 (OdoStreamP.rec_ok dcount t) es rs -> legal_N (N.to_nat buffer_size) rs = true ->
  exists rows s',
    rows_N dcount kind lrecl (build t) (write_N rs) = Ok (rows, Done, s')
    /\ map (@row_buf A) rows = spec_bufs (N.to_nat buffer_size) (write_N rs) (map (@length A) rs)
    /\ heads (map (@length A) rs) (map (@row_buf A) rows) = rs
    /\ Forall2 (fun rw r => nav_of dcount r (build t) = Ok (row_nav rw)) rows rs
    /\ Forall2 (fun rw e => lend (n_loc (row_nav rw)) = extent e t) rows es
    /\ buf s' = [] /\ rest s' = [].
Proof.
  intros Hf HF HL.
  destruct (rows_N_abs dcount (build t) kind lrecl rs _ (framed_flat_all dcount t Hf es rs HF) HL)
    as (rows & s' & Hrun & Hbufs & Hheads & Hnavs & Hb & Hr).
  destruct (OdoStreamP.rows_facts dcount t rows es rs Hf Hnavs HF) as [F1 F2].
  exists rows, s'. repeat split; assumption.
Qed.

Lemma flat_stream_V_again (dcount : list N -> nat) (kind : N) (lrecl : option nat) t es (rs : list (list N)) :
  flat_odo t = true -> Forall2 (OdoStreamP.rec_ok dcount t) es rs -> legal_V rs = true ->
  exists rows,
    rows_V dcount kind lrecl (build t) (write_V rs) = Ok (rows, Done)
    /\ map (@row_buf N) rows = rs
    /\ Forall2 (fun rw r => nav_of dcount r (build t) = Ok (row_nav rw)) rows rs
    /\ Forall2 (fun rw e => lend (n_loc (row_nav rw)) = extent e t) rows es.
Proof.
  intros Hf HF HL.
  destruct (rows_V_abs dcount (build t) kind lrecl rs _ (framed_flat_all dcount t Hf es rs HF) HL) as (rows & Hrun & Hb & Hnavs).
  destruct (OdoStreamP.rows_facts dcount t rows es rs Hf Hnavs HF) as [F1 F2].
  exists rows. repeat split; assumption.
Qed.

Lemma flat_stream_VB_again (dcount : list N -> nat) (kind : N) (lrecl : option nat) t ess (blocks : list (list (list N))) :
  flat_odo t = true -> Forall2 (Forall2 (OdoStreamP.rec_ok dcount t)) ess blocks -> legal_VB blocks = true ->
  exists rows,
    rows_VB dcount kind lrecl (build t) (write_VB blocks) = Ok (rows, Done)
    /\ map (@row_buf N) rows = concat blocks
    /\ Forall2 (fun rw r => nav_of dcount r (build t) = Ok (row_nav rw)) rows (concat blocks)
    /\ Forall2 (fun rw e => lend (n_loc (row_nav rw)) = extent e t) rows (concat ess).
Proof.
  intros Hf HF HL. apply OdoStreamP.Forall2_concat in HF.
  destruct (rows_VB_abs dcount (build t) kind lrecl blocks _ (framed_flat_all dcount t Hf _ _ HF) HL) as (rows & Hrun & Hb & Hnavs).
  destruct (OdoStreamP.rows_facts dcount t rows _ _ Hf Hnavs HF) as [F1 F2].
  exists rows. repeat split; assumption.
Qed.

Lemma flat_stream_F_again (dcount : list N -> nat) (kind : N) (lrecl : nat) t es (rs ps : list (list N)) :
  flat_odo t = true -> Forall2 (OdoStreamP.rec_ok dcount t) es rs -> Forall2 OdoStreamP.padded rs ps -> legal_F lrecl ps = true ->
  exists rows,
    rows_F dcount kind (Some lrecl) (build t) (write_F ps) = Ok (rows, Done)
    /\ map (@row_buf N) rows = ps
    /\ Forall2 (fun rw r => nav_of dcount r (build t) = Ok (row_nav rw)) rows rs
    /\ Forall2 (fun rw e => lend (n_loc (row_nav rw)) = extent e t) rows es.
Proof.
  intros Hf HF HP HL.
  destruct (rows_F_abs dcount (build t) kind lrecl rs ps _ (framed_flat_all dcount t Hf es rs HF) HP HL) as (rows & Hrun & Hb & Hnavs).
  destruct (OdoStreamP.rows_facts dcount t rows es rs Hf Hnavs HF) as [F1 F2].
  exists rows. repeat split; assumption.
Qed.

(* ------------------------------------------------------------------ Part 4b: the general family through the interface *)

(* record r of description t carries count vector e: the hypotheses of C06_layout, and r is exactly as long as
   the description says for e *)
Definition rec_okg {A} (dcount : list A -> nat) (t : item) (e : env) (r : list A) : Prop :=
  wfo e [] t = true /\ length r = extent e t /\ Holds A dcount r e t 0.

Lemma framed_general {A} (dcount : list A -> nat) t e (r : list A) :
  NoDup (ids t) -> rec_okg dcount t e r ->
  exists v, framed dcount (build t) r v /\ nav_of dcount r (build t) = Ok v /\ lend (n_loc v) = extent e t.
Proof.
  intros Hnd (Hw & Hlen & Hh). destruct (layout_correct_odo A dcount r e t Hw Hnd Hh) as (v & Hn & _ & Hend & _).
  exists v. split; [split|split; [exact Hn|exact Hend]].
  - intros more. rewrite (nav_frame_general A dcount r more e t Hw Hnd Hh); [exact Hn|lia].
  - rewrite Hend. symmetry. exact Hlen.
Qed.

Lemma framed_general_all {A} (dcount : list A -> nat) t : NoDup (ids t) -> forall es (rs : list (list A)),
  Forall2 (rec_okg dcount t) es rs ->
  exists vs, Forall2 (framed dcount (build t)) rs vs
    /\ Forall2 (fun v r => nav_of dcount r (build t) = Ok v) vs rs
    /\ Forall2 (fun v e => lend (n_loc v) = extent e t) vs es.
Proof.
  intros Hnd es rs HF. induction HF as [|e r es rs H HF IH].
  - exists []. repeat split; constructor.
  - destruct IH as (vs & H1 & H2 & H3). destruct (framed_general dcount t e r Hnd H) as (v & Hv1 & Hv2 & Hv3).
    exists (v :: vs). repeat split; constructor; assumption.
Qed.

(* what the theorems say about the rows, from the list of navigators *)
Lemma rows_facts_general {A} (dcount : list A -> nat) t (rows : list (row A)) vs es (rs : list (list A)) :
  map (@row_nav A) rows = vs ->
  Forall2 (fun v r => nav_of dcount r (build t) = Ok v) vs rs ->
  Forall2 (fun v e => lend (n_loc v) = extent e t) vs es ->
  Forall2 (fun rw r => nav_of dcount r (build t) = Ok (row_nav rw)) rows rs
  /\ Forall2 (fun rw e => lend (n_loc (row_nav rw)) = extent e t) rows es.
Proof.
  intros <- H1 H2. split.
  - apply (Forall2_map_l (@row_nav A) (fun v r => nav_of dcount r (build t) = Ok v)). exact H1.
  - apply (Forall2_map_l (@row_nav A) (fun v e => lend (n_loc v) = extent e t)). exact H2.
Qed.

Lemma general_stream_N_any_buffer {A} (dcount : list A -> nat) (B : nat) (kind : N) t es (rs : list (list A)) :
  0 < B -> NoDup (ids t) -> Forall2 (rec_okg dcount t) es rs -> legal_N B rs = true ->
  exists rows s',
    row_loop dcount (S (length (write_N rs))) 0 kind B (build t) (N_init B (write_N rs)) = (rows, Done, s')
    /\ map (@row_buf A) rows = spec_bufs B (write_N rs) (map (@length A) rs)
    /\ heads (map (@length A) rs) (map (@row_buf A) rows) = rs
    /\ Forall2 (fun rw r => nav_of dcount r (build t) = Ok (row_nav rw)) rows rs
    /\ Forall2 (fun rw e => lend (n_loc (row_nav rw)) = extent e t) rows es
    /\ buf s' = [] /\ rest s' = [].
Proof.
  intros HB Hnd HF HL. destruct (framed_general_all dcount t Hnd es rs HF) as (vs & Hfr & Hn & He).
  destruct (stream_N_any_buffer_abs dcount (build t) B HB kind rs vs Hfr HL)
    as (rows & s' & Hrun & Hbufs & Hheads & Hnavs & Hb & Hr).
  destruct (rows_facts_general dcount t rows vs es rs Hnavs Hn He) as [F1 F2].
  exists rows, s'. repeat split; assumption.
Qed.

Lemma general_stream_N {A} (dcount : list A -> nat) (kind : N) (lrecl : option nat) t es (rs : list (list A)) :
  NoDup (ids t) -> Forall2 (rec_okg dcount t) es rs -> legal_N (N.to_nat buffer_size) rs = true ->
  exists rows s',
    rows_N dcount kind lrecl (build t) (write_N rs) = Ok (rows, Done, s')
    /\ map (@row_buf A) rows = spec_bufs (N.to_nat buffer_size) (write_N rs) (map (@length A) rs)
    /\ heads (map (@length A) rs) (map (@row_buf A) rows) = rs
    /\ Forall2 (fun rw r => nav_of dcount r (build t) = Ok (row_nav rw)) rows rs
    /\ Forall2 (fun rw e => lend (n_loc (row_nav rw)) = extent e t) rows es
    /\ buf s' = [] /\ rest s' = [].
Proof.
  intros Hnd HF HL. destruct (framed_general_all dcount t Hnd es rs HF) as (vs & Hfr & Hn & He).
  destruct (rows_N_abs dcount (build t) kind lrecl rs vs Hfr HL) as (rows & s' & Hrun & Hbufs & Hheads & Hnavs & Hb & Hr).
  destruct (rows_facts_general dcount t rows vs es rs Hnavs Hn He) as [F1 F2].
  exists rows, s'. repeat split; assumption.
Qed.

Lemma general_stream_V (dcount : list N -> nat) (kind : N) (lrecl : option nat) t es (rs : list (list N)) :
  NoDup (ids t) -> Forall2 (rec_okg dcount t) es rs -> legal_V rs = true ->
  exists rows,
    rows_V dcount kind lrecl (build t) (write_V rs) = Ok (rows, Done)
    /\ map (@row_buf N) rows = rs
    /\ Forall2 (fun rw r => nav_of dcount r (build t) = Ok (row_nav rw)) rows rs
    /\ Forall2 (fun rw e => lend (n_loc (row_nav rw)) = extent e t) rows es.
Proof.
  intros Hnd HF HL. destruct (framed_general_all dcount t Hnd es rs HF) as (vs & Hfr & Hn & He).
  destruct (rows_V_abs dcount (build t) kind lrecl rs vs Hfr HL) as (rows & Hrun & Hb & Hnavs).
  destruct (rows_facts_general dcount t rows vs es rs Hnavs Hn He) as [F1 F2].
  exists rows. repeat split; assumption.
Qed.

Lemma general_stream_VB (dcount : list N -> nat) (kind : N) (lrecl : option nat) t ess (blocks : list (list (list N))) :
  NoDup (ids t) -> Forall2 (Forall2 (rec_okg dcount t)) ess blocks -> legal_VB blocks = true ->
  exists rows,
    rows_VB dcount kind lrecl (build t) (write_VB blocks) = Ok (rows, Done)
    /\ map (@row_buf N) rows = concat blocks
    /\ Forall2 (fun rw r => nav_of dcount r (build t) = Ok (row_nav rw)) rows (concat blocks)
    /\ Forall2 (fun rw e => lend (n_loc (row_nav rw)) = extent e t) rows (concat ess).
Proof.
  intros Hnd HF HL. apply OdoStreamP.Forall2_concat in HF.
  destruct (framed_general_all dcount t Hnd _ _ HF) as (vs & Hfr & Hn & He).
  destruct (rows_VB_abs dcount (build t) kind lrecl blocks vs Hfr HL) as (rows & Hrun & Hb & Hnavs).
  destruct (rows_facts_general dcount t rows vs _ _ Hnavs Hn He) as [F1 F2].
  exists rows. repeat split; assumption.
Qed.

Lemma general_stream_F (dcount : list N -> nat) (kind : N) (lrecl : nat) t es (rs ps : list (list N)) :
  NoDup (ids t) -> Forall2 (rec_okg dcount t) es rs -> Forall2 (fun r p => exists more, p = r ++ more) rs ps ->
  legal_F lrecl ps = true ->
  exists rows,
    rows_F dcount kind (Some lrecl) (build t) (write_F ps) = Ok (rows, Done)
    /\ map (@row_buf N) rows = ps
    /\ Forall2 (fun rw r => nav_of dcount r (build t) = Ok (row_nav rw)) rows rs
    /\ Forall2 (fun rw e => lend (n_loc (row_nav rw)) = extent e t) rows es.
Proof.
  intros Hnd HF HP HL. destruct (framed_general_all dcount t Hnd es rs HF) as (vs & Hfr & Hn & He).
  destruct (rows_F_abs dcount (build t) kind lrecl rs ps vs Hfr HP HL) as (rows & Hrun & Hb & Hnavs).
  destruct (rows_facts_general dcount t rows vs es rs Hnavs Hn He) as [F1 F2].
  exists rows. repeat split; assumption.
Qed.

(* ------------------------------------------------------------------ Part 5: a member of the general family, two records *)

Lemma gen_family_ok :
  NoDup (ids gen_tree) /\ wfo gen_e1 [] gen_tree = true /\ wfo gen_e2 [] gen_tree = true
  /\ flat_odo gen_tree = false /\ js_has_odo (build gen_tree) = true.
Proof.
  split; [apply OdoStreamP.nodupb_NoDup; reflexivity|]. repeat split; reflexivity.
Qed.

Lemma gen_r1_ok : rec_okg gen_dcount gen_tree gen_e1 gen_r1.
Proof.
  split; [reflexivity|]. split; [reflexivity|].
  cbn. repeat first [reflexivity | split | eexists].
Qed.

Lemma gen_r2_ok : rec_okg gen_dcount gen_tree gen_e2 gen_r2.
Proof.
  split; [reflexivity|]. split; [reflexivity|].
  cbn. repeat first [reflexivity | split | eexists].
Qed.

Lemma gen_records_ok :
  Forall2 (rec_okg gen_dcount gen_tree) [gen_e1; gen_e2; gen_e1] [gen_r1; gen_r2; gen_r1]
  /\ length gen_r1 = 11 /\ length gen_r2 = 21
  /\ legal_N 32 [gen_r1; gen_r2; gen_r1] = true /\ legal_N (N.to_nat buffer_size) [gen_r1; gen_r2; gen_r1] = true
  /\ legal_V [gen_r1; gen_r2; gen_r1] = true /\ legal_VB [[gen_r1; gen_r2]; [gen_r1]] = true
  /\ Forall2 (fun r p => exists more, p = r ++ more) [gen_r1; gen_r2; gen_r1]
       [gen_r1 ++ repeat 0%N 13; gen_r2 ++ repeat 0%N 3; gen_r1 ++ repeat 64%N 13]
  /\ legal_F 24 [gen_r1 ++ repeat 0%N 13; gen_r2 ++ repeat 0%N 3; gen_r1 ++ repeat 64%N 13] = true.
Proof.
  split; [constructor; [exact gen_r1_ok|constructor; [exact gen_r2_ok|constructor; [exact gen_r1_ok|constructor]]]|].
  split; [reflexivity|]. split; [reflexivity|]. split; [reflexivity|]. split; [vm_compute; reflexivity|].
  split; [reflexivity|]. split; [reflexivity|]. split; [|reflexivity].
  repeat constructor; eexists; reflexivity.
Qed.

Lemma gen_run_ok :
  map gen_row_view (fst (fst (row_loop gen_dcount 64 0 0 32 (build gen_tree) (N_init 32 (write_N [gen_r1; gen_r2; gen_r1])))))
  = [(32, 11, Err IndexError, Ok 6, Ok 9); (32, 21, Ok 9, Ok 12, Ok 19); (11, 11, Err IndexError, Ok 6, Ok 9)].
Proof. vm_compute. reflexivity. Qed.
