(* Lemmas for Props/C03e.v: several passes over one Sheet, and EBCDIC records longer than the layout.  Stdlib only.
   Part A  one pass of Sheet.row_iter in closed form (for the rules Gen/HeaderRowParams.v has now)
   Part B  in-memory formats: every pass delivers the whole table
   Part C  file-backed formats: every pass delivers rows of what the passes before left unread
   Part D  the refutation witnesses
   Part E  padded EBCDIC records *)
From Coq Require Import ZArith NArith List Bool Arith Lia.
Import ListNotations.
Require Import SR.Base.Res SR.Spec.Transparency SR.Spec.TransparencyPasses SR.Spec.Table SR.Spec.Recfm SR.Spec.Encode.
Require Import SR.Gen.Cp037 SR.Gen.RecfmParams.
Require Import SR.Model.HeaderRow SR.Model.Workbook SR.Model.WorkbookPasses.
Require SR.Model.Recfm SR.Model.Estruct SR.Model.Registry.
Require Import SR.Proofs.HeaderRowP SR.Proofs.RecfmP SR.Proofs.EstructP SR.Proofs.WorkbookP.
Open Scope nat_scope.

(* ================================================================ lists *)
Lemma take_rows_map {X Y} (f : X -> Y) k (l : list X) : take_rows k (map f l) = map f (take_rows k l).
Proof. destruct k as [n|]; [apply firstn_map|reflexivity]. Qed.

Lemma take_rows_nil {X} k : take_rows k (@nil X) = [].
Proof. destruct k as [n|]; [apply firstn_nil|reflexivity]. Qed.

Lemma firstn_incl {X} n : forall (l : list X) x, In x (firstn n l) -> In x l.
Proof.
  induction n as [|n IH]; intros l x H; [destruct H|]. destruct l as [|y l]; [destruct H|].
  destruct H as [->|H]; [left; reflexivity|right; apply IH; exact H].
Qed.

Lemma take_rows_incl {X} k (l : list X) x : In x (take_rows k l) -> In x l.
Proof. destruct k as [n|]; [apply firstn_incl|exact (fun H => H)]. Qed.

Lemma skipn_incl {X} n : forall (l : list X) x, In x (skipn n l) -> In x l.
Proof.
  induction n as [|n IH]; intros l x H; [exact H|]. destruct l as [|y l]; [destruct H|]. right. apply IH. exact H.
Qed.

Lemma left_rows_incl {X} k (l : list X) x : In x (left_rows k l) -> In x l.
Proof. destruct k as [n|]; [apply skipn_incl|intros []]. Qed.

Lemma left_swallowed_incl {X} k (l : list X) x : In x (left_swallowed k l) -> In x l.
Proof. destruct k as [[|n]|]; cbn; try (intros []). exact (fun H => H). Qed.

(* every row a continuing reader delivers is a row of the table *)
Lemma continuation_incl {X} (left : option nat -> list X -> list X) :
  (forall k l x, In x (left k l) -> In x l) ->
  forall pat (l : list X) piece x, In piece (continuation left pat l) -> In x piece -> In x l.
Proof.
  intros Hleft. induction pat as [|k pat IH]; intros l piece x Hp Hx; [destruct Hp|].
  cbn [continuation] in Hp. destruct Hp as [<-|Hp]; [exact (take_rows_incl k l x Hx)|].
  apply (Hleft k). exact (IH _ _ _ Hp Hx).
Qed.

Lemma continuation_map {X Y} (f : X -> Y) (left : option nat -> list X -> list X) (left' : option nat -> list Y -> list Y) :
  (forall k l, left' k (map f l) = map f (left k l)) ->
  forall pat l, continuation left' pat (map f l) = map (map f) (continuation left pat l).
Proof.
  intros H. induction pat as [|k pat IH]; intros l; [reflexivity|].
  cbn [continuation map]. rewrite take_rows_map, H, IH. reflexivity.
Qed.

Lemma left_rows_map {X Y} (f : X -> Y) k (l : list X) : left_rows k (map f l) = map f (left_rows k l).
Proof. destruct k as [n|]; [apply skipn_map|reflexivity]. Qed.

Lemma left_swallowed_map {X Y} (f : X -> Y) k (l : list X) : left_swallowed k (map f l) = map f (left_swallowed k l).
Proof. destruct k as [[|n]|]; reflexivity. Qed.

Lemma take_kept_all {I} k : forall (l : list I), take_kept (fun _ => true) k l = (firstn k l, skipn k l).
Proof.
  induction k as [|k IH]; intros [|x l]; try reflexivity. cbn [take_kept firstn skipn]. rewrite IH. reflexivity.
Qed.

(* ================================================================ Part A: one pass, in closed form *)
(* what a filtering body() or row loop keeps: with the rules of the source, everything *)
Lemma rule_kept {I} (keep : body_pred -> I -> bool) l :
  (fun x : I => kind_keep keep (body_kind_of l) x && kind_keep keep ri_rows x) = (fun _ => true).
Proof. destruct l; reflexivity. Qed.

Lemma rule_kept_base {I} (keep : body_pred -> I -> bool) :
  (fun x : I => kind_keep keep body_base x && kind_keep keep ri_rows x) = (fun _ => true).
Proof. reflexivity. Qed.

(* the heading-row loader: the first physical row is consumed as heading row, whatever schema was bound before *)
Lemma header_pass_cons k ps h (body : sheet) :
  k <> Some 0 ->
  exists s, header_schema h = Ok s
    /\ row_iter_pass keep_row (header HeadingRow) (body_kind_of HeadingRow) k ps (h :: body)
       = (Ok (Some s, take_rows k body), Some s).
Proof.
  intros Hk. destruct (rows_schema h body ps) as (s & Hs & Hr). exists s. split; [exact Hs|].
  unfold row_iter_pass. unfold row_iter in Hr. rewrite Hr. cbn [fst snd].
  destruct k as [[|n]|]; [contradiction Hk; reflexivity|reflexivity|reflexivity].
Qed.

Lemma header_pass_nil k ps :
  row_iter_pass keep_row (header HeadingRow) (body_kind_of HeadingRow) k ps [] = (Ok (ps, []), ps).
Proof.
  unfold row_iter_pass. pose proof (rows_empty ps) as Hr. unfold row_iter in Hr. rewrite Hr. cbn [fst snd].
  rewrite take_rows_nil. destruct k as [[|n]|]; reflexivity.
Qed.

Lemma header_pass_zero ps (src : sheet) :
  row_iter_pass keep_row (header HeadingRow) (body_kind_of HeadingRow) (Some 0) ps src = (Ok (ps, []), ps).
Proof. reflexivity. Qed.

(* the source left by a pass under the heading-row loader: the heading row and the rows delivered are gone *)
Definition left_header {X} (k : option nat) (rem : list X) : list X :=
  match k with None => [] | Some O => rem | Some n => skipn (S n) rem end.

Lemma header_source_left k (src : sheet) :
  source_left keep_row (header HeadingRow) (body_kind_of HeadingRow) k src = left_header k src.
Proof.
  destruct k as [[|n]|]; try reflexivity. unfold source_left, left_header.
  rewrite (rule_kept keep_row HeadingRow). destruct src as [|h body].
  - cbn [header]. rewrite rule_heading_empty_sheet. reflexivity.
  - cbn [header]. rewrite header_schema_ok. cbn [bind snd]. rewrite take_kept_all. reflexivity.
Qed.

(* the do-nothing loader with a bound schema: every instance, nothing consumed by header() *)
Lemma preset_pass {S I} (keep : body_pred -> I -> bool) (s : S) k (src : list I) :
  row_iter_pass keep (fun it => Ok (None, it)) body_base k (Some s) src = (Ok (Some s, take_rows k src), Some s).
Proof.
  unfold row_iter_pass. rewrite rule_row_iter. cbn [bind fst snd]. rewrite rule_body_base.
  destruct k as [[|n]|]; [reflexivity| |]; destruct src; reflexivity.
Qed.

Lemma preset_source_left {S I} (keep : body_pred -> I -> bool) k (src : list I) :
  source_left keep (fun it => @Ok (option S * list I) (None, it)) body_base k src = left_rows k src.
Proof.
  destruct k as [[|n]|]; try reflexivity. unfold source_left, left_rows.
  rewrite (rule_kept_base keep). cbn [snd]. rewrite take_kept_all. reflexivity.
Qed.

Lemma preset_passes_eq {S I} (keep : body_pred -> I -> bool) (s : S) pat : forall (src : list I),
  preset_passes keep s src pat = map (fun rows => Ok rows) (continuation left_rows pat src).
Proof.
  unfold preset_passes. induction pat as [|k pat IH]; intros src; [reflexivity|].
  cbn [run_passes]. rewrite preset_pass. cbn [map continuation bind snd]. f_equal.
  rewrite (preset_source_left (S := S) keep k src). apply IH.
Qed.

(* ================================================================ Part B: in-memory formats *)
(* the rows of a table, read by the column names under the schema of its own heading row *)
Lemma view_rows_ok (T : table) (s : schema) (rows : list (list text)) :
  wf_table T -> header_schema (phys_row (t_header T)) = Ok s ->
  (forall r, In r rows -> In r (t_rows T)) ->
  map (fun r => map (fun k => nav_name s k r) (t_header T)) (map phys_row rows)
  = map (map (fun c => Ok (Some (Txt c)))) rows.
Proof.
  intros [Hnd Hrect] Hs Hin. rewrite map_map. apply map_ext_in. intros r Hr.
  pose proof (rect_row T r Hrect (Hin r Hr)) as Hlen.
  assert (Hnd' : NoDup (map str_of (phys_row (t_header T)))) by (rewrite str_of_phys_row; exact Hnd).
  rewrite (by_index_map (fun k => nav_name s k (phys_row r)) (fun o => Ok o) (t_header T) (phys_row r)).
  - unfold phys_row. rewrite map_map. reflexivity.
  - unfold phys_row. rewrite map_length. exact Hlen.
  - intros i k Hk.
    apply (by_name (phys_row (t_header T)) s (phys_row r) i (Txt k) Hs Hnd').
    unfold phys_row. apply nth_error_map_Some. exact Hk.
Qed.

Lemma expected_take k (T : table) :
  take_obs k (expected_rows T) = Ok (map (map (fun c => Ok (Some (Txt c)))) (take_rows k (t_rows T))).
Proof. unfold expected_rows, take_obs. rewrite take_rows_map. reflexivity. Qed.

(* one pass over the whole stored sheet *)
Lemma header_pass_table k ps (T : table) : wf_table T ->
  exists ps', fst (row_iter_pass keep_row (header HeadingRow) (body_kind_of HeadingRow) k ps (phys_sheet T)) = fst ps'
    /\ snd (row_iter_pass keep_row (header HeadingRow) (body_kind_of HeadingRow) k ps (phys_sheet T)) = snd ps'
    /\ view_header (t_header T) (fst ps') = take_obs k (expected_rows T).
Proof.
  intros Hwf. eexists (_, _). split; [reflexivity|]. split; [reflexivity|]. cbn [fst].
  rewrite expected_take. unfold phys_sheet.
  destruct k as [[|n]|].
  - rewrite header_pass_zero. cbn [fst view_header take_rows firstn map]. destruct ps; reflexivity.
  - destruct (header_pass_cons (Some (S n)) ps (phys_row (t_header T)) (map phys_row (t_rows T))) as (s & Hs & ->);
      [discriminate|].
    cbn [fst view_header]. rewrite take_rows_map. f_equal.
    apply view_rows_ok; [exact Hwf|exact Hs|]. intros r. apply take_rows_incl.
  - destruct (header_pass_cons None ps (phys_row (t_header T)) (map phys_row (t_rows T))) as (s & Hs & ->);
      [discriminate|].
    cbn [fst view_header]. rewrite take_rows_map. f_equal.
    apply view_rows_ok; [exact Hwf|exact Hs|]. intros r. apply take_rows_incl.
Qed.

(* every pass over a source that is read again from its first instance delivers the table *)
Lemma header_passes_reread (T : table) : wf_table T ->
  forall pat, header_passes true (phys_sheet T) (t_header T) pat = map (fun k => take_obs k (expected_rows T)) pat.
Proof.
  intros Hwf pat. unfold header_passes. generalize (@None schema) as ps.
  induction pat as [|k pat IH]; intros ps; [reflexivity|].
  cbn [run_passes].
  destruct (header_pass_table k ps T Hwf) as ([o ps'] & H1 & H2 & Hv). cbn [fst snd] in *.
  destruct (row_iter_pass keep_row (header HeadingRow) (body_kind_of HeadingRow) k ps (phys_sheet T)) as [o0 ps0].
  cbn [fst snd] in H1, H2. subst o0 ps0. cbn [map]. rewrite Hv. f_equal. apply IH.
Qed.

Lemma sheet_passes_ok c name (T : table) pat :
  wb_instances c name = Ok (phys_sheet T) -> reread_content c = true -> wf_table T ->
  sheet_passes_header c name (t_header T) pat = map (fun k => take_obs k (expected_rows T)) pat.
Proof.
  intros Hc Hr Hwf. unfold sheet_passes_header. rewrite Hc, Hr. apply header_passes_reread. exact Hwf.
Qed.

Lemma sheets_passes_ok c probes pat : reread_content c = true -> forall (W : workbook) i,
  (forall s, In s W -> wb_instances c (fst s) = Ok (phys_sheet (snd s)) /\ wf_table (snd s)) ->
  (forall j s, nth_error W j = Some s -> probes_at probes (i + j) = t_header (snd s)) ->
  sheets_passes_header c (map fst W) probes i pat = expected_passes W pat.
Proof.
  intros Hr. induction W as [|s W IH]; intros i H1 H2; [reflexivity|].
  cbn [map sheets_passes_header expected_passes]. f_equal.
  - f_equal. destruct (H1 s (or_introl eq_refl)) as [Hc Hwf].
    pose proof (H2 0 s eq_refl) as Hp. rewrite Nat.add_0_r in Hp. rewrite Hp.
    apply sheet_passes_ok; assumption.
  - apply IH.
    + intros s' Hs'. apply H1. right. exact Hs'.
    + intros j s' Hj. replace (S i + j) with (i + S j) by lia. apply H2. exact Hj.
Qed.

Lemma multi_passes_ok (b : book) (W : workbook) pat : wf_workbook W ->
  read_header_passes (C_multi b (map (fun s => (fst s, phys_sheet (snd s))) W)) (headers W) pat = expected_passes W pat.
Proof.
  intros [Hnd Hwf]. unfold read_header_passes. rewrite rule_names_book, map_map. cbn [fst].
  apply sheets_passes_ok; [reflexivity| |].
  - intros [n T] Hin. split; [|rewrite Forall_forall in Hwf; exact (Hwf _ Hin)].
    rewrite rule_instances_book. cbn [fst snd]. erewrite lookup_in_nodup; [reflexivity|exact Hnd|exact Hin].
  - intros j s Hj. cbn. apply probes_headers. exact Hj.
Qed.

Lemma numbers_passes_ok (d : numbers_doc) pat : wf_numbers d ->
  read_header_passes (phys_numbers d) (headers (flatten_numbers d)) pat = expected_passes (flatten_numbers d) pat.
Proof.
  intros (Hnd & Hsheets & Hsplit). unfold read_header_passes.
  assert (Hnames : sheet_names (phys_numbers d) = map fst (flatten_numbers d)).
  { unfold phys_numbers, flatten_numbers. rewrite rule_names_numbers, name_sep_eq. clear.
    induction d as [|s d IH]; [reflexivity|].
    cbn [map flat_map fst snd]. rewrite map_app, IH. f_equal.
    rewrite !map_map. reflexivity. }
  rewrite Hnames. apply sheets_passes_ok; [reflexivity| |].
  - intros [n T] Hin. unfold flatten_numbers in Hin. apply in_flat_map in Hin as (s & Hs & Hin).
    apply in_map_iff in Hin as (t & E & Ht). injection E as <- <-.
    rewrite Forall_forall in Hsheets. destruct (Hsheets s Hs) as [Hndt Hwft].
    rewrite Forall_forall in Hwft. split; [|exact (Hwft t Ht)].
    cbn [fst snd]. unfold phys_numbers. rewrite rule_instances_numbers.
    rewrite (Hsplit s t Hs Ht).
    destruct s as [sn tables]. cbn [fst snd] in *.
    erewrite (lookup_in_nodup (fun tbs => map (fun t => (fst t, phys_sheet (snd t))) tbs)); [|exact Hnd|exact Hs].
    destruct t as [tn T]. cbn [fst snd].
    erewrite (lookup_in_nodup phys_sheet); [reflexivity|exact Hndt|exact Ht].
  - intros j s Hj. cbn. apply probes_headers. exact Hj.
Qed.

(* the formats whose unpacker keeps the parsed book *)
Definition in_memory_book (f : fmt) : bool := match f with F_XLSX | F_ODS | F_XLS => true | _ => false end.

Lemma facade_passes_phys f W pat : in_memory_book f = true -> wf_workbook W ->
  facade_passes f (phys f W) (headers W) pat = expected_passes W pat.
Proof.
  intros Hf Hwf. destruct f; try discriminate Hf; cbn [facade_passes phys]; apply multi_passes_ok; exact Hwf.
Qed.

Section ThirdPartyPasses.
Variable image : Type.
Variable ext_write : fmt -> workbook -> image.
Variable ext_parse : fmt -> image -> content.
(* ASSUMED, not proved: the same premise as C03_facade *)
Hypothesis H_ext : forall f W, third_party f = true -> storable f W = true ->
  ext_parse f (ext_write f W) = phys f W.

Lemma in_memory_book_third_party f : in_memory_book f = true -> third_party f = true /\ forall W, storable f W = true.
Proof. destruct f; try discriminate; intros _; split; reflexivity. Qed.

Lemma passes_in_memory_books f W pat : in_memory_book f = true -> wf_workbook W ->
  open_passes ext_parse f (ext_write f W) (headers W) pat = Ok (expected_passes W pat).
Proof.
  intros Hf Hwf. destruct (in_memory_book_third_party f Hf) as [Htp Hst].
  unfold open_passes. rewrite reader_for_ok. cbn [bind].
  rewrite (H_ext f W Htp (Hst W)), (facade_passes_phys f W pat Hf Hwf). reflexivity.
Qed.

Variable num_write : numbers_doc -> image.
Hypothesis H_num : forall d, ext_parse F_NUMBERS (num_write d) = phys_numbers d.

Lemma passes_in_memory_numbers d pat : wf_numbers d ->
  open_passes ext_parse F_NUMBERS (num_write d) (headers (flatten_numbers d)) pat
  = Ok (expected_passes (flatten_numbers d) pat).
Proof.
  intros Hwf. unfold open_passes. rewrite reader_for_ok. cbn [bind facade_passes].
  rewrite H_num, (numbers_passes_ok d pat Hwf). reflexivity.
Qed.
End ThirdPartyPasses.

Lemma passes_in_memory :
  forall (image : Type) (ext_write : fmt -> workbook -> image) (ext_parse : fmt -> image -> content),
  (forall f W, third_party f = true -> storable f W = true -> ext_parse f (ext_write f W) = phys f W) ->
  (forall f W pat, in_memory_book f = true -> wf_workbook W ->
     open_passes ext_parse f (ext_write f W) (headers W) pat = Ok (expected_passes W pat))
  /\ (forall (num_write : numbers_doc -> image),
        (forall d, ext_parse F_NUMBERS (num_write d) = phys_numbers d) ->
        forall d pat, wf_numbers d ->
          open_passes ext_parse F_NUMBERS (num_write d) (headers (flatten_numbers d)) pat
          = Ok (expected_passes (flatten_numbers d) pat)).
Proof.
  intros image ext_write ext_parse H. split.
  - intros f W pat. apply (passes_in_memory_books image ext_write ext_parse H).
  - intros num_write Hn d pat. apply (passes_in_memory_numbers image ext_parse num_write Hn).
Qed.

(* what the property expects of the passes is [demanded] of Spec/TransparencyPasses.v, by name *)
Lemma expected_passes_demanded (T : table) pat :
  map (fun k => take_obs k (expected_rows T)) pat
  = map (fun rows => expected_rows (mk_table (t_header T) rows)) (demanded pat (t_rows T)).
Proof.
  unfold demanded. rewrite map_map. apply map_ext. intros k. rewrite expected_take. reflexivity.
Qed.

(* ================================================================ Part C: file-backed formats *)
(* ---- CSV, tab-delimited text: a later pass is a FIRST pass over the physical rows the passes before left unread ---- *)
Lemma header_pass_view probes k ps (src : sheet) :
  view_header probes (fst (row_iter_pass keep_row (header HeadingRow) (body_kind_of HeadingRow) k ps src))
  = take_obs k (read_sheet_header (C_single src) [] probes).
Proof.
  unfold read_sheet_header. cbn [wb_instances bind]. destruct src as [|h body].
  - rewrite header_pass_nil, rows_empty. cbn [fst bind view_header take_obs]. rewrite take_rows_nil.
    destruct ps; reflexivity.
  - destruct (rows_schema h body None) as (s' & Hs' & ->). cbn [bind fst snd take_obs].
    destruct k as [[|n]|].
    + rewrite header_pass_zero. cbn [fst view_header take_rows firstn]. destruct ps; reflexivity.
    + destruct (header_pass_cons (Some (S n)) ps h body) as (s & Hs & ->); [discriminate|].
      rewrite Hs' in Hs. injection Hs as <-. cbn [fst view_header]. rewrite take_rows_map. reflexivity.
    + destruct (header_pass_cons None ps h body) as (s & Hs & ->); [discriminate|].
      rewrite Hs' in Hs. injection Hs as <-. cbn [fst view_header]. rewrite take_rows_map. reflexivity.
Qed.

Lemma header_passes_continue probes : forall pat ps (src : sheet),
  map (view_header probes) (run_passes keep_row (header HeadingRow) (body_kind_of HeadingRow) false pat ps src)
  = map (fun kr => take_obs (fst kr) (read_sheet_header (C_single (snd kr)) [] probes))
        (combine pat (remainders left_header pat src)).
Proof.
  induction pat as [|k pat IH]; intros ps src; [reflexivity|].
  cbn [run_passes remainders combine map fst snd].
  pose proof (header_pass_view probes k ps src) as Hv.
  destruct (row_iter_pass keep_row (header HeadingRow) (body_kind_of HeadingRow) k ps src) as [o ps'].
  cbn [fst] in Hv. cbn [map]. rewrite Hv, header_source_left. f_equal. apply IH.
Qed.

Definition text_rows_format (f : fmt) : bool := match f with F_CSV | F_TAB => true | _ => false end.

Lemma passes_header_file f (rows : sheet) probes pat : text_rows_format f = true ->
  facade_passes f (C_single rows) [probes] pat
  = [([], map (fun kr => take_obs (fst kr) (read_sheet_header (C_single (snd kr)) [] probes))
              (combine pat (remainders left_header pat rows)))].
Proof.
  intros Hf.
  assert (E : facade_passes f (C_single rows) [probes] pat = read_header_passes (C_single rows) [probes] pat)
    by (destruct f; try discriminate Hf; reflexivity).
  rewrite E. unfold read_header_passes. cbn [sheet_names sheets_passes_header probes_at nth].
  unfold sheet_passes_header. cbn [wb_instances reread_content]. unfold header_passes.
  rewrite header_passes_continue. reflexivity.
Qed.

(* ---- NDJSON ---- *)
Lemma json_row_ok (T : table) (r : list text) : NoDup (t_header T) -> length r = length (t_header T) ->
  map (fun k => dnav_name (hand_schema (t_header T)) k (phys_doc T r)) (t_header T)
  = map (fun c => Ok (Some (Txt c))) r.
Proof.
  intros Hnd Hlen.
  rewrite (by_index_map (fun k => dnav_name (hand_schema (t_header T)) k (phys_doc T r))
             (fun o => match o with Some v => Ok (Some v) | None => Err KeyError end)
             (t_header T) (map Txt r)).
  - rewrite map_map. reflexivity.
  - rewrite map_length. exact Hlen.
  - intros i k Hk. unfold dnav_name. rewrite rule_dnav_missing.
    destruct (find_entry_hand _ i k Hnd Hk) as [e ->].
    unfold phys_doc. erewrite lookup_combine; [reflexivity|exact Hnd|exact Hk|].
    assert (Hi : i < length (t_header T)) by (apply nth_error_Some; unfold text, key in *; congruence).
    rewrite map_length. unfold text, key in *. lia.
Qed.

Definition expected_pieces (hs : list text) (pieces : list (list (list text))) : list rows_obs :=
  map (fun rows => expected_rows (mk_table hs rows)) pieces.

Lemma json_passes_ok (T : table) pat : wf_table T ->
  read_json_passes (C_json (map (phys_doc T) (t_rows T))) [t_header T] pat
  = [([], expected_pieces (t_header T) (continuation left_rows pat (t_rows T)))].
Proof.
  intros [Hnd Hrect]. unfold read_json_passes, expected_pieces.
  cbn [sheet_names map json_instances probes_at nth]. f_equal. f_equal.
  rewrite preset_passes_eq.
  rewrite (continuation_map (phys_doc T) left_rows left_rows (left_rows_map (phys_doc T))).
  rewrite !map_map. apply map_ext_in. intros piece Hp. cbn [bind]. unfold expected_rows. cbn [t_rows]. f_equal.
  rewrite map_map. apply map_ext_in. intros r Hr. apply json_row_ok; [exact Hnd|].
  apply (rect_row T r Hrect). exact (continuation_incl left_rows (@left_rows_incl _) pat _ piece r Hp Hr).
Qed.

(* ---- fixed-width text ---- *)
Lemma fixed_passes_ok (T : table) widths pat :
  NoDup (t_header T) -> fits widths T = true -> line_safe T = true ->
  read_fixed_passes (write_fixed_text T widths) (layout_of (t_header T) widths) (t_header T) pat
  = [([], expected_pieces (t_header T) (continuation left_rows pat (t_rows (pad_table widths T))))].
Proof.
  intros Hnd Hfit Hsafe. destruct (fits_inv widths T Hfit) as [Hlen Hrows].
  unfold read_fixed_passes, expected_pieces. f_equal. f_equal.
  unfold write_fixed_text, write_fixed_row.
  erewrite text_lines_map.
  - rewrite preset_passes_eq. cbn [pad_table t_rows].
    rewrite (continuation_map (fun r => concat (pad_row widths r) ++ [nl]) left_rows left_rows
               (left_rows_map (fun r => concat (pad_row widths r) ++ [nl]))).
    rewrite (continuation_map (pad_row widths) left_rows left_rows (left_rows_map (pad_row widths))).
    rewrite !map_map. apply map_ext_in. intros piece Hp.
    unfold fixed_view, expected_rows. cbn [bind t_rows]. f_equal. rewrite !map_map. apply map_ext_in. intros r Hr.
    assert (HrT : In r (t_rows T)) by exact (continuation_incl left_rows (@left_rows_incl _) pat _ piece r Hp Hr).
    destruct (Hrows r HrT) as [Hr1 Hr2].
    apply text_row_ok; [exact Hnd|exact Hlen|apply pad_row_lengths; assumption].
  - apply Forall_forall. intros r Hr.
    apply safe_concat. apply safe_pad_row.
    unfold line_safe in Hsafe. rewrite forallb_forall in Hsafe. apply Hsafe. exact Hr.
Qed.

(* ---- EBCDIC ---- *)
Definition prefixed (widths : list nat) (buf : list N) (row : list text) : Prop :=
  exists tail, buf = record_of widths row ++ tail.

(* a pass delivered [piece]: one buffer per row, each beginning with the row's record *)
Definition delivers (widths : list nat) (o : res (list (list N))) (piece : list (list text)) : Prop :=
  exists bufs, o = Ok bufs /\ Forall2 (prefixed widths) bufs piece.

Lemma ebcdic_view_ok (T : table) widths bufs (piece : list (list text)) :
  NoDup (t_header T) -> fits widths T = true -> repertoire_ok T = true ->
  (forall row, In row piece -> In row (t_rows T)) ->
  Forall2 (prefixed widths) bufs piece ->
  ebcdic_view (layout_of (t_header T) widths) (t_header T) (Ok bufs)
  = expected_rows (mk_table (t_header T) (map (pad_row widths) piece)).
Proof.
  intros Hnd Hfit Hrep Hin HF. destruct (fits_inv widths T Hfit) as [Hlen Hrows].
  unfold ebcdic_view, expected_rows. cbn [bind t_rows]. rewrite rows_plain_some. cbn [bind]. f_equal.
  rewrite map_map.
  assert (Hrep' : forall row, In row (t_rows T) -> forallb (forallb in_repertoire) row = true).
  { intros row Hrow. unfold repertoire_ok in Hrep. rewrite forallb_forall in Hrep. apply Hrep. exact Hrow. }
  induction HF as [|buf row bufs piece (tail & ->) HF IH]; [reflexivity|].
  cbn [map]. f_equal.
  - assert (HrT : In row (t_rows T)) by (apply Hin; left; reflexivity).
    destruct (Hrows row HrT) as [H1 H2]. unfold record_of.
    apply ebcdic_row_ok; [exact Hnd|exact Hlen|apply pad_row_lengths; assumption|].
    apply repertoire_pad_row. apply Hrep'. exact HrT.
  - apply IH. intros row' Hr'. apply Hin. right. exact Hr'.
Qed.

Lemma ebcdic_views_ok (T : table) widths : 
  NoDup (t_header T) -> fits widths T = true -> repertoire_ok T = true ->
  forall os pieces, (forall piece row, In piece pieces -> In row piece -> In row (t_rows T)) ->
  Forall2 (delivers widths) os pieces ->
  map (ebcdic_view (layout_of (t_header T) widths) (t_header T)) os
  = expected_pieces (t_header T) (map (map (pad_row widths)) pieces).
Proof.
  intros Hnd Hfit Hrep os pieces Hin HF. unfold expected_pieces.
  induction HF as [|o piece os pieces (bufs & -> & Hb) HF IH]; [reflexivity|].
  cbn [map]. f_equal.
  - apply ebcdic_view_ok; try assumption. intros row Hr. apply (Hin piece row); [left; reflexivity|exact Hr].
  - apply IH. intros piece' row Hp Hr. apply (Hin piece' row); [right; exact Hp|exact Hr].
Qed.

Definition recs_of (widths : list nat) (rows : list (list text)) : list (list N) := map (record_of widths) rows.

Lemma recs_legal (T : table) widths (rows : list (list text)) : fits widths T = true ->
  (forall row, In row rows -> In row (t_rows T)) ->
  forallb (fun r => length r =? list_sum widths) (recs_of widths rows) = true.
Proof.
  intros Hfit Hin. apply forallb_forall. intros rec Hr. apply in_map_iff in Hr as (row & <- & Hrow).
  apply Nat.eqb_eq. apply (record_length widths T row Hfit). apply Hin. exact Hrow.
Qed.

Lemma prefixed_exact widths (rows : list (list text)) : Forall2 (prefixed widths) (recs_of widths rows) rows.
Proof.
  induction rows as [|row rows IH]; constructor; [exists []; symmetry; apply app_nil_r|exact IH].
Qed.

Lemma total_positive (T : table) widths : fits widths T = true -> t_header T <> [] -> 1 <= list_sum widths.
Proof.
  intros Hfit Hne. destruct (fits_inv widths T Hfit) as [Hlen _].
  apply sum_positive; [|exact (fits_positive widths T Hfit)].
  intros ->. apply Hne. destruct (t_header T); [reflexivity|discriminate Hlen].
Qed.

Lemma sheet_lrecl_layout (T : table) widths wb_lrecl : fits widths T = true -> t_header T <> [] ->
  wb_lrecl = None \/ wb_lrecl = Some (list_sum widths) ->
  sheet_lrecl wb_lrecl (layout_of (t_header T) widths) = list_sum widths.
Proof.
  intros Hfit Hne Hl. destruct (fits_inv widths T Hfit) as [Hlen _].
  pose proof (total_positive T widths Hfit Hne) as Htot.
  destruct Hl as [->| ->]; cbn [sheet_lrecl]; [apply layout_end_sum; exact Hlen|].
  destruct (list_sum widths) as [|n] eqn:En; [lia|reflexivity].
Qed.

(* RECFM_F: the file stands after the last record delivered *)
Lemma F_passes_deliver (T : table) widths kind wb_lrecl :
  fits widths T = true -> t_header T <> [] -> wb_lrecl = None \/ wb_lrecl = Some (list_sum widths) ->
  forall pat (rows : list (list text)), (forall row, In row rows -> In row (t_rows T)) ->
  Forall2 (delivers widths)
          (ebcdic_passes RECFM_F kind wb_lrecl (layout_of (t_header T) widths) pat (concat (recs_of widths rows)))
          (continuation left_rows pat rows).
Proof.
  intros Hfit Hne Hl. pose proof (total_positive T widths Hfit Hne) as Htot.
  pose proof (sheet_lrecl_layout T widths wb_lrecl Hfit Hne Hl) as Hlr.
  induction pat as [|k pat IH]; intros rows Hin; [constructor|].
  pose proof (recs_legal T widths rows Hfit Hin) as Hleg.
  cbn [ebcdic_passes continuation].
  assert (Hstep : exists o, ebcdic_pass RECFM_F kind wb_lrecl (layout_of (t_header T) widths) k (concat (recs_of widths rows))
                            = (o, concat (recs_of widths (left_rows k rows))) /\ delivers widths o (take_rows k rows)).
  { destruct k as [[|n]|].
    - eexists. split; [reflexivity|]. exists []. split; [reflexivity|constructor].
    - unfold ebcdic_pass. rewrite Hlr. unfold Recfm.F_pass. cbn [N.eqb].
      destruct (Z.of_nat (list_sum widths) =? 0)%Z eqn:E0; [apply Z.eqb_eq in E0; lia|].
      rewrite F_take_ok; [|lia|exact Hleg|].
      + eexists. split.
        * unfold left_rows, recs_of. rewrite skipn_map. reflexivity.
        * exists (firstn (S n) (recs_of widths rows)). split; [unfold ended; destruct (_ <=? _); reflexivity|].
          unfold recs_of. rewrite firstn_map. apply prefixed_exact.
      + pose proof (legal_F_len (list_sum widths) (recs_of widths rows)) as Hle. specialize (Hle ltac:(lia) Hleg). lia.
    - unfold ebcdic_pass. rewrite Hlr. unfold Recfm.F_pass. cbn [N.eqb].
      change (concat (recs_of widths rows)) with (write_F (recs_of widths rows)).
      rewrite F_record_iter_ok.
      + eexists. split; [reflexivity|]. exists (recs_of widths rows). split; [reflexivity|apply prefixed_exact].
      + unfold legal_F. rewrite Hleg, andb_true_r. apply Nat.leb_le. exact Htot. }
  destruct Hstep as (o & -> & Hd). constructor; [exact Hd|].
  apply IH. intros row Hr. apply Hin. exact (left_rows_incl k rows row Hr).
Qed.

(* RECFM_N on a file no longer than the reader's buffer: the first reader created swallows the file *)
Lemma N_small_run kind B L : 1 <= L -> forall (recs : list (list N)) j,
  (forall r, In r recs -> length r = L) -> length (concat recs) <= B ->
  exists bufs s', Recfm.N_run 0%N kind B {| Recfm.buf := concat recs; Recfm.rest := [] |} (repeat L j)
                  = (bufs, (if j <? length recs then Recfm.More else Recfm.Done), s')
    /\ Recfm.rest s' = []
    /\ Forall2 (fun buf rec => exists tail, buf = rec ++ tail) bufs (firstn (S j) recs).
Proof.
  intros HL. induction recs as [|r recs IH]; intros j Hlen HB.
  - exists [], {| Recfm.buf := []; Recfm.rest := [] |}. cbn [concat]. destruct j; cbn; repeat split; constructor.
  - assert (Hr : length r = L) by (apply Hlen; left; reflexivity).
    cbn [concat] in *. rewrite app_length in HB.
    destruct j as [|j].
    + exists [r ++ concat recs], {| Recfm.buf := r ++ concat recs; Recfm.rest := [] |}.
      cbn [repeat Recfm.N_run Recfm.buf]. destruct (r ++ concat recs) as [|x t] eqn:E.
      { apply (f_equal (@length N)) in E. rewrite app_length in E. cbn in E. lia. }
      rewrite <- E. cbn [length Nat.ltb Nat.leb firstn]. repeat split.
      constructor; [exists (concat recs); reflexivity|constructor].
    + destruct (IH j) as (bufs & s' & Hrun & Hrest & HF); [intros r' Hr'; apply Hlen; right; exact Hr'|lia|].
      exists ((r ++ concat recs) :: bufs), s'.
      cbn [repeat Recfm.N_run Recfm.buf]. destruct (r ++ concat recs) as [|x t] eqn:E.
      { apply (f_equal (@length N)) in E. rewrite app_length in E. cbn in E. lia. }
      rewrite <- E.
      destruct (L =? 0) eqn:E0; [apply Nat.eqb_eq in E0; lia|].
      assert (Hstep : Recfm.N_step 0%N kind B {| Recfm.buf := r ++ concat recs; Recfm.rest := [] |} L
                      = Ok {| Recfm.buf := concat recs; Recfm.rest := [] |}).
      { unfold Recfm.N_step. cbn [N.eqb Recfm.buf Recfm.rest]. rewrite <- Hr, skipn_exact.
        replace (Z.of_nat B - Z.of_nat (length (concat recs)))%Z with (Z.of_nat (B - length (concat recs))) by lia.
        rewrite read_nonneg, firstn_nil, skipn_nil, app_nil_r. reflexivity. }
      rewrite Hstep, Hrun. cbn [length]. split; [|split; [exact Hrest|]].
      * change (S j <? S (length recs)) with (j <? length recs). reflexivity.
      * cbn [firstn]. constructor; [exists (concat recs); reflexivity|exact HF].
Qed.

Lemma N_read_small kind L (recs : list (list N)) j : 1 <= L ->
  (forall r, In r recs -> length r = L) -> length (concat recs) <= N.to_nat buffer_size ->
  exists bufs s', Recfm.N_read kind (concat recs) (repeat L j)
                  = (bufs, (if j <? length recs then Recfm.More else Recfm.Done), s')
    /\ Recfm.rest s' = []
    /\ Forall2 (fun buf rec => exists tail, buf = rec ++ tail) bufs (firstn (S j) recs).
Proof.
  intros HL Hlen HB. unfold Recfm.N_read, Recfm.N_init. rewrite refill_is_top_up.
  rewrite firstn_all2 by exact HB. rewrite skipn_all2 by exact HB.
  apply N_small_run; assumption.
Qed.

Lemma N_passes_deliver (T : table) widths kind wb_lrecl :
  fits widths T = true -> t_header T <> [] ->
  forall pat (rows : list (list text)), (forall row, In row rows -> In row (t_rows T)) ->
  length (concat (recs_of widths rows)) <= N.to_nat buffer_size ->
  Forall2 (delivers widths)
          (ebcdic_passes RECFM_N kind wb_lrecl (layout_of (t_header T) widths) pat (concat (recs_of widths rows)))
          (continuation left_swallowed pat rows).
Proof.
  intros Hfit Hne. pose proof (total_positive T widths Hfit Hne) as Htot.
  destruct (fits_inv widths T Hfit) as [Hlen _].
  pose proof (layout_end_sum (t_header T) widths Hlen) as Hend.
  induction pat as [|k pat IH]; intros rows Hin HB; [constructor|].
  cbn [ebcdic_passes continuation].
  assert (HrecL : forall r, In r (recs_of widths rows) -> length r = list_sum widths).
  { intros r Hr. pose proof (recs_legal T widths rows Hfit Hin) as Hleg. rewrite forallb_forall in Hleg.
    apply Nat.eqb_eq. apply Hleg. exact Hr. }
  assert (Hstep : exists o, ebcdic_pass RECFM_N kind wb_lrecl (layout_of (t_header T) widths) k (concat (recs_of widths rows))
                            = (o, concat (recs_of widths (left_swallowed k rows))) /\ delivers widths o (take_rows k rows)).
  { assert (Hpre : forall bufs n, Forall2 (fun buf rec => exists tail, buf = rec ++ tail) bufs (firstn n (recs_of widths rows)) ->
                     Forall2 (prefixed widths) bufs (firstn n rows)).
    { intros bufs n. unfold recs_of. rewrite firstn_map. generalize (firstn n rows). intros piece. revert bufs.
      induction piece as [|row piece IHp]; intros bufs HF; inversion HF; subst; constructor; [assumption|apply IHp; assumption]. }
    destruct k as [[|n]|].
    - eexists. split; [reflexivity|]. exists []. split; [reflexivity|constructor].
    - unfold ebcdic_pass. rewrite Hend. cbn [pred].
      destruct (N_read_small kind (list_sum widths) (recs_of widths rows) n Htot HrecL HB) as (bufs & s' & -> & Hrest & HF).
      rewrite Hrest. eexists. split; [reflexivity|].
      exists bufs. split; [destruct (n <? length (recs_of widths rows)); reflexivity|]. apply Hpre. exact HF.
    - unfold ebcdic_pass. rewrite Hend.
      destruct (N_read_small kind (list_sum widths) (recs_of widths rows) (S (length (concat (recs_of widths rows)))) Htot HrecL HB)
        as (bufs & s' & -> & Hrest & HF).
      rewrite Hrest.
      assert (Hle : length (recs_of widths rows) <= length (concat (recs_of widths rows))).
      { apply (legal_F_len (list_sum widths)); [lia|]. exact (recs_legal T widths rows Hfit Hin). }
      destruct (S (length (concat (recs_of widths rows))) <? length (recs_of widths rows)) eqn:E; [apply Nat.ltb_lt in E; lia|].
      eexists. split; [reflexivity|]. exists bufs. split; [reflexivity|].
      cbn [take_rows]. rewrite <- (firstn_all2 rows (n := S (S (length (concat (recs_of widths rows)))))).
      + apply Hpre. exact HF.
      + unfold recs_of in *. rewrite map_length in Hle. lia. }
  destruct Hstep as (o & -> & Hd). constructor; [exact Hd|].
  apply IH.
  - intros row Hr. apply Hin. exact (left_swallowed_incl k rows row Hr).
  - destruct k as [[|n]|]; cbn [left_swallowed recs_of map concat length]; [exact HB|lia|lia].
Qed.

Lemma recs_total_length {X} L (recs : list (list X)) :
  forallb (fun r => length r =? L) recs = true -> length (concat recs) = length recs * L.
Proof.
  induction recs as [|r recs IH]; intros H; [reflexivity|].
  cbn [forallb concat length] in *. apply andb_prop in H as [H1 H2]. apply Nat.eqb_eq in H1.
  rewrite app_length, H1, (IH H2). lia.
Qed.

Lemma ebcdic_passes_ok r kind wb_lrecl (T : table) widths pat :
  NoDup (t_header T) -> fits widths T = true -> repertoire_ok T = true -> t_header T <> [] ->
  (r = RECFM_N -> length (t_rows T) * list_sum widths <= N.to_nat buffer_size) ->
  (r = RECFM_F -> wb_lrecl = None \/ wb_lrecl = Some (list_sum widths)) ->
  read_ebcdic_passes r kind wb_lrecl (write_ebcdic T widths) (layout_of (t_header T) widths) (t_header T) pat
  = [([], expected_pieces (t_header T)
            (continuation (match r with RECFM_F => left_rows | RECFM_N => left_swallowed end) pat
                          (t_rows (pad_table widths T))))].
Proof.
  intros Hnd Hfit Hrep Hne HN HF. unfold read_ebcdic_passes. f_equal. f_equal.
  change (write_ebcdic T widths) with (concat (recs_of widths (t_rows T))).
  cbn [pad_table t_rows].
  destruct r.
  - rewrite (continuation_map (pad_row widths) left_swallowed left_swallowed (left_swallowed_map (pad_row widths))).
    apply ebcdic_views_ok; try assumption.
    + intros piece row. apply (continuation_incl left_swallowed (@left_swallowed_incl _)).
    + apply N_passes_deliver; try assumption; [exact (fun row H => H)|].
      specialize (HN eq_refl).
      rewrite (recs_total_length (list_sum widths) (recs_of widths (t_rows T)) (recs_legal T widths (t_rows T) Hfit (fun row H => H))).
      unfold recs_of. rewrite map_length. exact HN.
  - rewrite (continuation_map (pad_row widths) left_rows left_rows (left_rows_map (pad_row widths))).
    apply ebcdic_views_ok; try assumption.
    + intros piece row. apply (continuation_incl left_rows (@left_rows_incl _)).
    + apply F_passes_deliver; try assumption; [exact (HF eq_refl)|exact (fun row H => H)].
Qed.

(* ================================================================ Part D: the second pass differs - witnesses *)
Definition second_pass_full : Prop :=
  forall (f : fmt) (W : workbook), third_party f = true -> storable f W = true -> wf_workbook W ->
    facade_passes f (phys f W) (headers W) [None; None] = expected_passes W [None; None].

(* one column named a, one row holding x; and three rows x, y, z *)
Definition one_row : table := mk_table [[97]]%N [[[120]]]%N.
Definition three_rows : table := mk_table [[97]]%N [[[120]]; [[121]]; [[122]]]%N.

Lemma one_row_wf : wf_workbook [([], one_row)].
Proof.
  apply wf_single. split; [|reflexivity]. cbn. constructor; [intros []|constructor].
Qed.

Lemma second_pass_refuted :
  ~ second_pass_full
  /\ third_party F_CSV = true /\ storable F_CSV [([], one_row)] = true /\ wf_workbook [([], one_row)]
  /\ expected_passes [([], one_row)] [None; None]
     = [([], [Ok [[Ok (Some (Txt [120]%N))]]; Ok [[Ok (Some (Txt [120]%N))]]])]
  /\ facade_passes F_CSV (phys F_CSV [([], one_row)]) [[[97]%N]] [None; None]
     = [([], [Ok [[Ok (Some (Txt [120]%N))]]; Ok []])]
  /\ facade_passes F_TAB (phys F_TAB [([], one_row)]) [[[97]%N]] [None; None]
     = [([], [Ok [[Ok (Some (Txt [120]%N))]]; Ok []])]
  /\ facade_passes F_NDJSON (phys F_NDJSON [([], one_row)]) [[[97]%N]] [None; None]
     = [([], [Ok [[Ok (Some (Txt [120]%N))]]; Ok []])]
  /\ read_fixed_passes (write_fixed_text one_row [1]) (layout_of [[97]%N] [1]) [[97]%N] [None; None]
     = [([], [Ok [[Ok (Some (Txt [120]%N))]]; Ok []])]
  /\ read_ebcdic_passes RECFM_F 0 None (write_ebcdic one_row [1]) (layout_of [[97]%N] [1]) [[97]%N] [None; None]
     = [([], [Ok [[Ok (Some (Txt [120]%N))]]; Ok []])]
  /\ read_ebcdic_passes RECFM_N 0 None (write_ebcdic one_row [1]) (layout_of [[97]%N] [1]) [[97]%N] [None; None]
     = [([], [Ok [[Ok (Some (Txt [120]%N))]]; Ok []])]
  (* one row taken, the pass abandoned, then a complete pass: CSV takes the next row (y) for a NEW heading row, the name
     asked for is no longer a column; NDJSON and RECFM_F go on after the row taken; RECFM_N has nothing left *)
  /\ facade_passes F_CSV (phys F_CSV [([], three_rows)]) [[[97]%N]] [Some 1; None]
     = [([], [Ok [[Ok (Some (Txt [120]%N))]]; Ok [[Err KeyError]]])]
  /\ facade_passes F_NDJSON (phys F_NDJSON [([], three_rows)]) [[[97]%N]] [Some 1; None]
     = [([], [Ok [[Ok (Some (Txt [120]%N))]]; Ok [[Ok (Some (Txt [121]%N))]; [Ok (Some (Txt [122]%N))]]])]
  /\ read_ebcdic_passes RECFM_F 0 None (write_ebcdic three_rows [1]) (layout_of [[97]%N] [1]) [[97]%N] [Some 1; None]
     = [([], [Ok [[Ok (Some (Txt [120]%N))]]; Ok [[Ok (Some (Txt [121]%N))]; [Ok (Some (Txt [122]%N))]]])]
  /\ read_ebcdic_passes RECFM_N 0 None (write_ebcdic three_rows [1]) (layout_of [[97]%N] [1]) [[97]%N] [Some 1; None]
     = [([], [Ok [[Ok (Some (Txt [120]%N))]]; Ok []])]
  (* the in-memory formats deliver the table again *)
  /\ facade_passes F_XLSX (phys F_XLSX [([], three_rows)]) [[[97]%N]] [Some 1; None]
     = expected_passes [([], three_rows)] [Some 1; None].
Proof.
  split.
  { intros H. specialize (H F_CSV [([], one_row)] eq_refl eq_refl one_row_wf). vm_compute in H. discriminate H. }
  split; [reflexivity|]. split; [reflexivity|]. split; [exact one_row_wf|].
  repeat split; vm_compute; reflexivity.
Qed.

(* ================================================================ Part E: EBCDIC records longer than the layout *)
Lemma combine_prefixed widths : forall (rows : list (list text)) (fill : list (list N)),
  length fill = length rows ->
  Forall2 (prefixed widths) (map (fun p => record_of widths (fst p) ++ snd p) (combine rows fill)) rows.
Proof.
  induction rows as [|row rows IH]; intros [|f fill] Hlen; try discriminate Hlen; [constructor|].
  cbn [combine map fst snd]. constructor; [exists f; reflexivity|]. apply IH. cbn in Hlen. lia.
Qed.

Lemma padded_ok kind (T : table) widths pad fill :
  NoDup (t_header T) -> fits widths T = true -> repertoire_ok T = true -> t_header T <> [] ->
  fill_ok pad T fill = true ->
  read_ebcdic RECFM_F kind (Some (list_sum widths + pad)) (write_ebcdic_padded T widths fill)
              (layout_of (t_header T) widths) (t_header T)
  = expected [([], pad_table widths T)].
Proof.
  intros Hnd Hfit Hrep Hne Hfill. pose proof (total_positive T widths Hfit Hne) as Htot.
  unfold fill_ok in Hfill. apply andb_prop in Hfill as [Hfl Hfp]. apply Nat.eqb_eq in Hfl.
  set (recs := map (fun p => record_of widths (fst p) ++ snd p) (combine (t_rows T) fill)).
  assert (Hfile : write_ebcdic_padded T widths fill = write_F recs) by reflexivity.
  assert (Hlegal : legal_F (list_sum widths + pad) recs = true).
  { unfold legal_F. apply andb_true_intro. split; [apply Nat.leb_le; lia|].
    apply forallb_forall. intros rec Hin. apply in_map_iff in Hin as ([row f] & <- & Hp). cbn [fst snd].
    apply Nat.eqb_eq. rewrite app_length.
    rewrite (record_length widths T row Hfit (in_combine_l _ _ _ _ Hp)).
    rewrite forallb_forall in Hfp. specialize (Hfp f (in_combine_r _ _ _ _ Hp)). apply Nat.eqb_eq in Hfp. lia. }
  assert (Hrec : ebcdic_records RECFM_F kind (Some (list_sum widths + pad)) (layout_of (t_header T) widths)
                                (write_ebcdic_padded T widths fill) = Ok recs).
  { unfold ebcdic_records.
    assert (Hlr : sheet_lrecl (Some (list_sum widths + pad)) (layout_of (t_header T) widths) = list_sum widths + pad).
    { cbn [sheet_lrecl]. destruct (list_sum widths + pad) as [|n] eqn:En; [lia|reflexivity]. }
    rewrite Hlr, Hfile, (F_record_iter_ok kind (list_sum widths + pad) recs Hlegal). reflexivity. }
  change (read_ebcdic RECFM_F kind (Some (list_sum widths + pad)) (write_ebcdic_padded T widths fill)
                      (layout_of (t_header T) widths) (t_header T))
    with [(@nil N, ebcdic_view (layout_of (t_header T) widths) (t_header T)
                     (ebcdic_records RECFM_F kind (Some (list_sum widths + pad)) (layout_of (t_header T) widths)
                                     (write_ebcdic_padded T widths fill)))].
  rewrite Hrec.
  rewrite (ebcdic_view_ok T widths recs (t_rows T) Hnd Hfit Hrep (fun row H => H)); [reflexivity|].
  apply combine_prefixed. exact Hfl.
Qed.

(* the filler is not part of the table: the padded file reads like the file without the reserved area *)
Lemma padded_agrees kind kind' r wb_lrecl (T : table) widths pad fill :
  NoDup (t_header T) -> fits widths T = true -> repertoire_ok T = true -> t_header T <> [] ->
  fill_ok pad T fill = true ->
  (r = RECFM_N -> list_sum widths <= N.to_nat buffer_size) ->
  wb_lrecl = None \/ wb_lrecl = Some (list_sum widths) ->
  read_ebcdic RECFM_F kind (Some (list_sum widths + pad)) (write_ebcdic_padded T widths fill)
              (layout_of (t_header T) widths) (t_header T)
  = read_ebcdic r kind' wb_lrecl (write_ebcdic T widths) (layout_of (t_header T) widths) (t_header T).
Proof.
  intros. rewrite padded_ok by assumption. symmetry. apply ebcdic_ok; assumption.
Qed.

(* the judge's recognition of a padded image is sound: the fillers it finds are the writer's *)
Lemma chunks_concat {X} L : 1 <= L -> forall (recs : list (list X)) fuel,
  (forall r, In r recs -> length r = L) -> length (concat recs) <= fuel ->
  chunks fuel L (concat recs) = recs.
Proof.
  intros HL. induction recs as [|r recs IH]; intros fuel Hlen Hf.
  - destruct fuel; reflexivity.
  - assert (Hr : length r = L) by (apply Hlen; left; reflexivity).
    cbn [concat] in *. rewrite app_length in Hf. destruct fuel as [|fuel]; [lia|].
    cbn [chunks]. destruct (r ++ concat recs) as [|x t] eqn:E.
    { apply (f_equal (@length X)) in E. rewrite app_length in E. cbn in E. lia. }
    rewrite <- E.
    replace (firstn L (r ++ concat recs)) with r by (rewrite <- Hr; symmetry; apply firstn_exact).
    replace (skipn L (r ++ concat recs)) with (concat recs) by (rewrite <- Hr; symmetry; apply skipn_exact).
    f_equal. apply IH; [intros r' Hr'; apply Hlen; right; exact Hr'|lia].
Qed.

Lemma fillers_found (T : table) widths pad fill :
  fits widths T = true -> t_header T <> [] -> fill_ok pad T fill = true ->
  fillers_of (list_sum widths + pad) (list_sum widths) (write_ebcdic_padded T widths fill) = fill.
Proof.
  intros Hfit Hne Hfill. pose proof (total_positive T widths Hfit Hne) as Htot.
  unfold fill_ok in Hfill. apply andb_prop in Hfill as [Hfl Hfp]. apply Nat.eqb_eq in Hfl.
  unfold fillers_of, write_ebcdic_padded.
  rewrite (chunks_concat (list_sum widths + pad)); [|lia| |lia].
  - rewrite map_map. revert fill Hfl Hfp. generalize (fun row => record_length widths T row Hfit).
    generalize (t_rows T). induction l as [|row rows IH]; intros Hrl [|f fill] Hfl Hfp; try discriminate Hfl; [reflexivity|].
    cbn [combine map fst snd]. f_equal.
    + change (write_ebcdic_row widths row) with (record_of widths row).
      rewrite <- (Hrl row (or_introl eq_refl)). apply skipn_exact.
    + apply IH; [intros row' Hr'; apply Hrl; right; exact Hr'|cbn in Hfl; lia|].
      cbn [forallb] in Hfp. apply andb_prop in Hfp as [_ Hfp]. exact Hfp.
  - intros rec Hin. apply in_map_iff in Hin as ([row f] & <- & Hp). cbn [fst snd]. rewrite app_length.
    change (write_ebcdic_row widths row) with (record_of widths row).
    rewrite (record_length widths T row Hfit (in_combine_l _ _ _ _ Hp)).
    rewrite forallb_forall in Hfp. specialize (Hfp f (in_combine_r _ _ _ _ Hp)). apply Nat.eqb_eq in Hfp. lia.
Qed.

(* ================================================================ after a complete pass a continuing reader has nothing left *)
Lemma continuation_nil {X} (left : option nat -> list X -> list X) : (forall k, left k [] = []) ->
  forall pat, continuation left pat [] = map (fun _ => []) pat.
Proof.
  intros H. induction pat as [|k pat IH]; [reflexivity|]. cbn [continuation map]. rewrite take_rows_nil, H, IH. reflexivity.
Qed.

Lemma left_rows_nil {X} k : left_rows k (@nil X) = [].
Proof. destruct k as [n|]; [apply skipn_nil|reflexivity]. Qed.

Lemma left_swallowed_nil {X} k : left_swallowed k (@nil X) = [].
Proof. destruct k as [[|n]|]; reflexivity. Qed.

Lemma after_complete_pass {X} (rows : list X) pat :
  continuation left_rows (None :: pat) rows = rows :: map (fun _ => []) pat
  /\ continuation left_swallowed (None :: pat) rows = rows :: map (fun _ => []) pat
  /\ demanded (None :: pat) rows = rows :: map (fun k => take_rows k rows) pat.
Proof.
  split; [|split]; cbn [continuation take_rows left_rows left_swallowed demanded map]; f_equal.
  - apply continuation_nil. intros k. apply left_rows_nil.
  - apply continuation_nil. intros k. apply left_swallowed_nil.
Qed.

(* the judge's reading of the wire form: the NDJSON content of a one-table workbook *)
Lemma facade_passes_ndjson (T : table) pat : wf_table T ->
  facade_passes F_NDJSON (phys F_NDJSON [([], T)]) [t_header T] pat
  = [([], expected_pieces (t_header T) (continuation left_rows pat (t_rows T)))].
Proof. intros Hwf. cbn [facade_passes phys]. apply json_passes_ok. exact Hwf. Qed.
