(* The layout theorem with OCCURS DEPENDING ON (C06 in general form, extending C01's development).
   An ODO table may stand anywhere a non-repeated item may stand (in the record, in nested non-repeated
   groups, in sibling groups); its counter must be an elementary non-repeated item that is not part of a
   REDEFINES union, is not inside a table and comes earlier in the record.  Items inside tables and
   inside REDEFINES unions contain no ODO (for those the proofs of LayoutP.v are reused as they are). *)
From Coq Require Import List Arith NArith Bool Lia.
Import ListNotations.
Require Import SR.Base.Res SR.Spec.Layout SR.Model.Layout SR.Proofs.LayoutP.
(* The definitions of this development that occur in theorem statements (Props/) live in Spec/OdoWf.v (audit item G1).
   The abbreviations keep the qualified names LayoutOdoP.name of other files resolving; they are parsing-only aliases. *)
Require Export SR.Spec.OdoWf.
Notation no_targets := SR.Spec.OdoWf.no_targets (only parsing).
Notation member := SR.Spec.OdoWf.member (only parsing).
Notation new_counters := SR.Spec.OdoWf.new_counters (only parsing).
Notation kids_counters := SR.Spec.OdoWf.kids_counters (only parsing).
Notation wfo := SR.Spec.OdoWf.wfo (only parsing).
Notation wfo_kids := SR.Spec.OdoWf.wfo_kids (only parsing).
Notation Holds := SR.Spec.OdoWf.Holds (only parsing).
Notation HoldsKids := SR.Spec.OdoWf.HoldsKids (only parsing).

Lemma incl_nil_any {T} (l : list T) : incl [] l.
Proof. intros a []. Qed.

Lemma new_counters_incl :
  (forall x, incl (new_counters x) (ids x)) /\
  (forall ks, incl (kids_counters ks) (ids_kids ks)).
Proof.
  apply item_items_ind.
  - intros i sz oc rd. destruct oc as [|n|c]; cbn [new_counters ids]; try apply incl_nil_any.
    intros a [ <- |[]]. left. reflexivity.
  - intros i oc rd ks IH. destruct oc as [|n|c]; cbn [new_counters ids]; try apply incl_nil_any.
    intros a Ha. right. apply (IH a Ha).
  - apply incl_nil_any.
  - intros x IHx xs IHxs. cbn [kids_counters ids_kids]. intros a Ha. apply in_app_or in Ha. apply in_or_app.
    destruct Ha as [Ha|Ha]; [left|right; apply (IHxs a Ha)].
    destruct (member x xs); [destruct Ha|apply IHx, Ha].
Qed.

Lemma wfo_kids_member e : forall xs avail y,
  wfo_kids e avail xs = true -> in_kids y xs -> item_redef y <> None -> wf e y = true.
Proof.
  induction xs as [|x xs IH]; intros avail y Hw Hy Hr; [destruct Hy|].
  cbn [wfo_kids] in Hw. destruct Hy as [ -> |Hy].
  - unfold member in Hw. destruct (item_redef x) as [u|]; [|contradiction].
    apply andb_true_iff in Hw. tauto.
  - destruct (member x xs); apply andb_true_iff in Hw; destruct Hw as [_ Hw]; eapply IH; eassumption.
Qed.

(* keys registered by the schema of a wfo item lie in its own ids *)
Lemma keys_build_o e :
  (forall x avail, wfo e avail x = true -> NoDup (ids x) -> incl (keys_js (build_alt x)) (K (ids x))) /\
  (forall ks avail, wfo_kids e avail ks = true -> NoDup (ids_kids ks) ->
     forall y, in_kids y ks -> incl (keys_js (build_alt y)) (K (ids y))).
Proof.
  apply item_items_ind.
  - intros i sz oc rd avail _ _. destruct oc as [|n|c]; cbn [build_alt elem_items keys_js keys_props js_anchor opt_list ids app];
      intros k Hk; destruct Hk as [ <- |[]]; apply K_name; left; reflexivity.
  - intros i oc rd ks IH avail Hw Hnd. cbn [ids] in Hnd.
    assert (Hndk : NoDup (ids_kids ks)) by (inversion Hnd; assumption).
    destruct oc as [|n|c].
    + cbn [wfo] in Hw. apply andb_true_iff in Hw. destruct Hw as [Hk Hu].
      rewrite (build_group_once e) by assumption. cbn [keys_js js_anchor opt_list ids app].
      intros k [ <- |Hin]; [apply K_name; left; reflexivity|].
      apply (K_incl (ids_kids ks)); [apply incl_tl, incl_refl|]. apply keys_assemble_d; [|exact Hin].
      apply (IH avail Hk Hndk).
    + cbn [wfo] in Hw. apply andb_true_iff in Hw. destruct Hw as [Hk Hno].
      cbn [build_alt keys_js js_anchor opt_list ids app].
      intros k [ <- |Hin]; [apply K_name; left; reflexivity|].
      apply (K_incl (ids_kids ks)); [apply incl_tl, incl_refl|]. apply (keys_plain [] ks); [|exact Hin].
      apply (proj2 (keys_build e) ks Hk Hndk).
    + destruct rd as [u|]; [discriminate|]. cbn [wfo] in Hw. apply andb_true_iff in Hw. destruct Hw as [Hw Hno].
      apply andb_true_iff in Hw. destruct Hw as [_ Hk].
      cbn [build_alt keys_js js_anchor opt_list ids app].
      intros k [ <- |Hin]; [apply K_name; left; reflexivity|].
      apply (K_incl (ids_kids ks)); [apply incl_tl, incl_refl|]. apply (keys_plain [] ks); [|exact Hin].
      apply (proj2 (keys_build e) ks Hk Hndk).
  - intros avail _ _ y [].
  - intros x IHx xs IHxs avail Hw Hnd y Hy. cbn [wfo_kids] in Hw. cbn [ids_kids] in Hnd.
    assert (Hndx : NoDup (ids x)) by (apply NoDup_app_l in Hnd; exact Hnd).
    assert (Hndxs : NoDup (ids_kids xs)) by (apply NoDup_app_r in Hnd; exact Hnd).
    destruct (member x xs); apply andb_true_iff in Hw; destruct Hw as [Hwx Hwxs].
    + destruct Hy as [ -> |Hy]; [apply (proj1 (keys_build e) x Hwx Hndx)|eapply IHxs; eassumption].
    + destruct Hy as [ -> |Hy]; [eapply IHx; eassumption|eapply IHxs; eassumption].
Qed.

Section MainOdo.
  Variable B : Type.
  Variable dcount : list B -> nat.
  Variable r : list B.
  Variable e : env.
  Notation walk := (Layout.walk dcount r).
  Notation walk_props := (Layout.walk_props dcount r).
  Notation walk_alts := (Layout.walk_alts dcount r).
  Notation Good := (Good B dcount r e).
  Notation GoodKids := (GoodKids B dcount r e).
  Notation W := (W B dcount r e).
  Notation Holds := (Holds B dcount r e).
  Notation HoldsKids := (HoldsKids B dcount r e).

  Lemma HoldsKids_starts starts starts' ks :
    HoldsKids starts ks -> (forall x, in_kids x ks -> assoc (item_id x) starts' = assoc (item_id x) starts) ->
    HoldsKids starts' ks.
  Proof.
    induction ks as [|x xs IH]; cbn [HoldsKids]; intros H Hs; [exact I|].
    destruct H as [Hx Hrest]. split.
    - destruct (member x xs); [exact I|]. destruct Hx as (o & Ho & Hh). exists o. split; [|exact Hh].
      rewrite Hs; [exact Ho|left; reflexivity].
    - apply IH; [exact Hrest|]. intros y Hy. apply Hs. right. exact Hy.
  Qed.

  (* every available counter is registered as the atom that holds its value *)
  Definition CN (an : anchors) (avail : list id) : Prop :=
    forall c, In c avail -> exists cst csz,
      lookup (KName c) an = Some (LAtom cst csz) /\ dcount (slice r cst (cst + csz)) = e c.

  Lemma CN_same an an' avail :
    CN an avail -> (forall c, In c avail -> lookup (KName c) an' = lookup (KName c) an) -> CN an' avail.
  Proof.
    intros H Hl c Hc. destruct (H c Hc) as (cst & csz & Hk & Hv). exists cst, csz. split; [|exact Hv].
    rewrite (Hl c Hc). exact Hk.
  Qed.

  Lemma CN_extends an an' avail ks :
    CN an avail -> extends ks an an' -> (forall c, In c avail -> ~ In (KName c) ks) -> CN an' avail.
  Proof.
    intros H He Hd. apply (CN_same an); [exact H|]. intros c Hc. apply (extends_lookup _ _ _ _ He (Hd c Hc)).
  Qed.

  Definition WO (x : item) : Prop :=
    forall avail, wfo e avail x = true -> NoDup (ids x) -> (forall c, In c avail -> ~ In c (ids x)) ->
    forall st an, CN an avail -> Holds x st ->
    exists l an', walk (build_alt x) st an = Ok (l, an') /\ Good x st l an' /\ is_ref l = false
                  /\ (elem_table x = false -> lookup (KName (item_id x)) an' = Some l)
                  /\ extends (K (ids x)) an an'
                  /\ CN an' (avail ++ new_counters x).

  Lemma Wall x : W x.
  Proof. exact (proj1 (W_all B dcount r e) x). Qed.

  Lemma not_in_K c l : ~ In c l -> ~ In (KName c) (K l).
  Proof. intros H Hk. apply K_name in Hk. contradiction. Qed.

  (* items without ODO inside: everything comes from LayoutP *)
  Lemma WO_of_W x avail st an :
    wf e x = true -> NoDup (ids x) -> (forall c, In c avail -> ~ In c (ids x)) -> CN an avail ->
    exists l an', walk (build_alt x) st an = Ok (l, an') /\ Good x st l an' /\ is_ref l = false
                  /\ (elem_table x = false -> lookup (KName (item_id x)) an' = Some l)
                  /\ extends (K (ids x)) an an' /\ CN an' avail.
  Proof.
    intros Hw Hnd Hd Hcn. destruct (Wall x Hw Hnd st an) as (l & an' & Hwalk & Hg & Hr & Hl).
    pose proof (W_extends B dcount r e x st an l an' Hw Hnd Hwalk) as Hext.
    exists l, an'. repeat split; try assumption.
    eapply CN_extends; [exact Hcn|exact Hext|]. intros c Hc. apply not_in_K, Hd, Hc.
  Qed.

  Lemma KSO : forall rem,
    (forall y, in_kids y rem -> WO y) -> NoDup (ids_kids rem) ->
    forall avail bases off seen an,
      wfo_kids e avail rem = true -> unions_ok e bases rem = true ->
      (forall c, In c avail -> ~ In c (ids_kids rem)) -> CN an avail ->
      HoldsKids (kid_starts e rem off seen) rem ->
      (forall u ext, assoc u bases = Some ext -> exists su, assoc u seen = Some su) ->
      (forall i, In i (kid_ids rem) -> assoc i seen = None) ->
      (forall y u ext, in_kids y rem -> item_redef y = Some u -> assoc u bases = Some ext ->
         exists su ly, assoc u seen = Some su /\ lookup (KName (item_id y)) an = Some ly
                       /\ Good y su ly an /\ is_ref ly = false) ->
      exists pls an',
        walk_props (assemble_d rem) off an = Ok (pls, off + kids_extent e rem, an')
        /\ GoodKids (kid_starts e rem off seen) pls an' rem
        /\ extends (K (ids_kids rem)) an an'
        /\ CN an' (avail ++ kids_counters rem).
  Proof.
    induction rem as [|x xs IH]; intros HW Hnd avail bases off seen an Hwf Hu Hav Hcn Hh HB Hseen INV.
    - exists LPNil, an. cbn [assemble_d kids_extent kids_counters]. rewrite walk_props_nil, Nat.add_0_r, app_nil_r.
      split; [reflexivity|]. split; [exact I|]. split; [apply extends_refl|exact Hcn].
    - assert (Hndx : NoDup (ids x)) by (cbn [ids_kids] in Hnd; apply NoDup_app_l in Hnd; exact Hnd).
      assert (Hndxs : NoDup (ids_kids xs)) by (cbn [ids_kids] in Hnd; apply NoDup_app_r in Hnd; exact Hnd).
      assert (HWxs : forall y, in_kids y xs -> WO y) by (intros y Hy; apply HW; right; exact Hy).
      assert (Hkid : NoDup (kid_ids (ICons x xs))) by (apply NoDup_ids_kid_ids; exact Hnd).
      assert (Hxnot : ~ In (item_id x) (kid_ids xs)) by (cbn [kid_ids] in Hkid; inversion Hkid; assumption).
      assert (Hneq : forall y, in_kids y xs -> item_id x <> item_id y)
        by (intros y Hy E; apply Hxnot; rewrite E; apply in_kids_ids; exact Hy).
      assert (Hxseen : assoc (item_id x) seen = None) by (apply Hseen; left; reflexivity).
      assert (Hkx : ~ In (KName (item_id x)) (K (ids_kids xs)))
        by (apply (disjoint_ids x xs); [exact Hnd|apply item_id_in_ids]).
      assert (Hkeyx : ~ In (KName (item_id x)) (map KName (kid_ids xs))).
      { intros H. apply in_map_iff in H. destruct H as (j & Ej & Hj). injection Ej as ->. contradiction. }
      assert (Hstarts : forall v S y, in_kids y xs -> assoc (item_id y) ((item_id x, v) :: S) = assoc (item_id y) S)
        by (intros v S y Hy; apply assoc_cons_neq; apply Hneq; exact Hy).
      assert (Havx : forall c, In c avail -> ~ In c (ids x))
        by (intros c Hc H; apply (Hav c Hc); cbn [ids_kids]; apply in_or_app; left; exact H).
      assert (Havxs : forall c, In c avail -> ~ In c (ids_kids xs))
        by (intros c Hc H; apply (Hav c Hc); cbn [ids_kids]; apply in_or_app; right; exact H).
      cbn [unions_ok] in Hu. cbn [wfo_kids] in Hwf. cbn [assemble_d kid_starts kids_extent kids_counters] in *.
      cbn [HoldsKids] in Hh. destruct Hh as [Hhx Hhxs].
      assert (Hconv : forall v S, HoldsKids ((item_id x, v) :: S) xs -> HoldsKids S xs).
      { intros v S H. eapply HoldsKids_starts; [exact H|]. intros y Hy. symmetry. apply Hstarts. exact Hy. }
      unfold is_redefiner. unfold member in *. destruct (item_redef x) as [u|] eqn:Er.
      + (* ---- a redefiner ---- *)
        apply andb_true_iff in Hwf. destruct Hwf as [Hwx Hwfxs].
        apply andb_true_iff in Hu. destruct Hu as [Hu Huxs]. apply andb_true_iff in Hu. destruct Hu as [_ Hf].
        pose proof (assoc_find_pair u bases) as Hp.
        destruct (find (fun p => N.eqb (fst p) u) bases) as [[j extu]|]; [|discriminate]. symmetry in Hp.
        destruct (INV x u extu (or_introl eq_refl) Er Hp) as (su & lx & Hsu & Hlx & Hgx & Hrx).
        rewrite assoc_find, Hsu in *. rewrite walk_props_cons, walk_ref. cbn [js_anchor reg lsize]; rewrite ?ref_size_0.
        destruct (IH HWxs Hndxs avail bases (off + 0) ((item_id x, su) :: seen) an Hwfxs Huxs Havxs Hcn)
          as (pls & an' & Hwp & Hgk & Hext & Hcn').
        * rewrite Nat.add_0_r. eapply Hconv. exact Hhxs.
        * intros u' ext' Hb. destruct (N.eqb (item_id x) u') eqn:E.
          -- apply N.eqb_eq in E. subst u'. exists su. apply assoc_cons_eq.
          -- destruct (HB u' ext' Hb) as (su' & Hs'). exists su'. rewrite assoc_cons_neq; [exact Hs'|].
             intros E'. rewrite E', N.eqb_refl in E. discriminate.
        * intros i Hi. rewrite assoc_cons_neq; [apply Hseen; right; exact Hi|]. intros E. apply Hxnot. rewrite E. exact Hi.
        * intros y u2 ext2 Hy Ey Hb2. destruct (INV y u2 ext2 (or_intror Hy) Ey Hb2) as (su2 & ly & Hs2 & Hl2 & Hg2 & Hr2).
          exists su2, ly. split; [|tauto]. rewrite assoc_cons_neq; [exact Hs2|].
          intros E. rewrite <- E in Hs2. congruence.
        * exists (LPCons (KName (item_id x)) (LRef off (KName (item_id x))) pls), an'.
          rewrite Hwp. rewrite !Nat.add_0_r, Nat.add_0_l. cbn [app]. split; [reflexivity|]. split; [|split; [|exact Hcn']].
          { cbn [LayoutP.GoodKids]. split.
            - exists su, lx. split; [apply assoc_cons_eq|]. split.
              + split; [exact Hrx|]. right. exists off. split; [cbn [find_prop]; rewrite key_eqb_refl; reflexivity|].
                rewrite (extends_lookup _ _ _ _ Hext Hkx). exact Hlx.
              + eapply Good_extends; [exact Hgx|exact Hext|]. intros i Hi. apply (disjoint_ids x xs); assumption.
            - apply GoodKids_weaken; [|exact Hkeyx]. rewrite Nat.add_0_r in Hgk.
              eapply GoodKids_starts; [exact Hgk|]. intros y Hy. apply Hstarts. exact Hy. }
          eapply extends_mono; [exact Hext|]. apply K_incl. cbn [ids_kids]. apply incl_appr, incl_refl.
      + apply andb_true_iff in Hu. destruct Hu as [Het Huxs].
        assert (Hextx : count e (item_oc x) * ext1 e x = extent e x) by reflexivity. rewrite Hextx in *.
        destruct (existsb (N.eqb (item_id x)) (redef_targets xs)) eqn:Etg.
        * (* ---- the redefined item ---- *)
          apply andb_true_iff in Hwf. destruct Hwf as [Hwx Hwfxs].
          destruct (WO_of_W x avail off an Hwx Hndx Havx Hcn) as (lx & an1 & Hwalk & Hgx & Hrx & Hlx & Hext1 & Hcn1).
          pose proof (Good_size _ _ _ _ _ _ _ _ Hgx) as Hszx.
          cbn [negb] in Het. rewrite orb_false_r in Het. apply negb_true_iff in Het.
          assert (Hok : forall y, in_kids y xs -> item_redef y = Some (item_id x) -> elem_table y = false /\ extent e y <= extent e x).
          { apply (unions_ok_redefiner e (item_id x) (extent e x) xs _ Huxs); [apply assoc_cons_eq|exact Hxnot]. }
          assert (Hwred : forall y, in_kids y xs -> item_redef y = Some (item_id x) -> wf e y = true).
          { intros y Hy Ey. eapply wfo_kids_member; [exact Hwfxs|exact Hy|congruence]. }
          destruct (ALTS B dcount r e (item_id x) (extent e x) off xs (fun y _ => Wall y) Hwred Hndxs Hok an1)
            as (ls & an2 & Hwa & Hmax & Hext2 & Hall).
          set (l1 := LOne off (max_size (LACons lx ls)) (LACons lx ls)).
          assert (Hl1 : lsize l1 = extent e x) by (unfold l1; cbn [lsize max_size]; rewrite Hszx; lia).
          set (an4 := (KRedef (item_id x), l1) :: (KRedef (item_id x), l1) :: an2).
          assert (Hlk4 : forall i, lookup (KName i) an4 = lookup (KName i) an2) by (intros i; reflexivity).
          assert (Hcn4 : CN an4 avail).
          { apply (CN_same an2); [|intros c _; apply Hlk4]. eapply CN_extends; [exact Hcn1|exact Hext2|].
            intros c Hc. apply not_in_K. intros H. apply red_ids_incl in H. exact (Havxs c Hc H). }
          destruct (IH HWxs Hndxs avail ((item_id x, extent e x) :: bases) (off + extent e x + 0) ((item_id x, off) :: seen) an4
                      Hwfxs Huxs Havxs Hcn4) as (pls & an' & Hwp & Hgk & Hext & Hcn').
          -- rewrite Nat.add_0_r. eapply Hconv. exact Hhxs.
          -- intros u' ext' Hb. destruct (N.eqb (item_id x) u') eqn:E.
             ++ apply N.eqb_eq in E. subst u'. exists off. apply assoc_cons_eq.
             ++ assert (Hne : item_id x <> u') by (intros E'; rewrite E', N.eqb_refl in E; discriminate).
                rewrite assoc_cons_neq in Hb by exact Hne. destruct (HB u' ext' Hb) as (su' & Hs'). exists su'.
                rewrite assoc_cons_neq by exact Hne. exact Hs'.
          -- intros i Hi. rewrite assoc_cons_neq; [apply Hseen; right; exact Hi|]. intros E. apply Hxnot. rewrite E. exact Hi.
          -- intros y u2 ext2 Hy Ey Hb2. destruct (N.eqb (item_id x) u2) eqn:E.
             ++ apply N.eqb_eq in E. subst u2. destruct (Hall y Hy Ey) as (ly & Hl & Hg & Hr).
                exists off, ly. split; [apply assoc_cons_eq|]. split; [rewrite Hlk4; exact Hl|]. split; [|exact Hr].
                eapply (proj1 (Good_stable B dcount r e)); [exact Hg|]. intros i _. apply Hlk4.
             ++ assert (Hne : item_id x <> u2) by (intros E'; rewrite E', N.eqb_refl in E; discriminate).
                rewrite assoc_cons_neq in Hb2 by exact Hne.
                destruct (INV y u2 ext2 (or_intror Hy) Ey Hb2) as (su2 & ly & Hs2 & Hl2 & Hg2 & Hr2).
                exists su2, ly. split; [rewrite assoc_cons_neq by exact Hne; exact Hs2|].
                assert (Hpres : forall i, In i (ids y) -> lookup (KName i) an4 = lookup (KName i) an).
                { intros i Hi. rewrite Hlk4.
                  rewrite (extends_lookup _ _ _ _ Hext2).
                  - apply (extends_lookup _ _ _ _ Hext1). apply (disjoint_ids' x xs); [exact Hnd|].
                    eapply in_kids_ids_incl; eassumption.
                  - intros H. apply K_name in H. revert H. apply (red_ids_other (item_id x) xs y); try assumption.
                    intros E'. rewrite Ey in E'. injection E' as E'. congruence. }
                split; [rewrite Hpres; [exact Hl2|apply item_id_in_ids]|]. split; [|exact Hr2].
                eapply (proj1 (Good_stable B dcount r e)); [exact Hg2|exact Hpres].
          -- exists (LPCons (KRedef (item_id x)) l1 (LPCons (KName (item_id x)) (LRef (off + extent e x) (KName (item_id x))) pls)), an'.
             rewrite walk_props_cons, walk_one, walk_alts_cons, Hwalk, Hwa. fold l1. cbn [js_anchor reg]. fold an4.
             rewrite Hl1, walk_props_cons, walk_ref. cbn [js_anchor reg lsize]; rewrite ?ref_size_0. rewrite Hwp.
             rewrite !Nat.add_0_r, Nat.add_assoc. cbn [app]. split; [reflexivity|].
             assert (Hchain : forall i, In i (ids x) -> lookup (KName i) an' = lookup (KName i) an1).
             { intros i Hi. rewrite (extends_lookup _ _ _ _ Hext); [|apply (disjoint_ids x xs); assumption].
               rewrite Hlk4. apply (extends_lookup _ _ _ _ Hext2). intros H. apply K_name in H. apply red_ids_incl in H.
               exact (NoDup_app_disj _ _ _ Hnd Hi H). }
             split; [|split; [|exact Hcn']].
             { cbn [LayoutP.GoodKids]. split.
               - exists off, lx. split; [apply assoc_cons_eq|]. split.
                 + split; [exact Hrx|]. right. exists (off + extent e x). split.
                   * cbn [find_prop key_eqb]. rewrite N.eqb_refl. reflexivity.
                   * rewrite Hchain by apply item_id_in_ids. apply Hlx. exact Het.
                 + eapply (proj1 (Good_stable B dcount r e)); [exact Hgx|exact Hchain].
               - apply GoodKids_weaken; [apply GoodKids_weaken; [|exact Hkeyx]|].
                 + rewrite Nat.add_0_r in Hgk. eapply GoodKids_starts; [exact Hgk|]. intros y Hy. apply Hstarts. exact Hy.
                 + intros H. apply in_map_iff in H. destruct H as (j & Ej & _). discriminate. }
             assert (Hk4 : extends (K (ids x)) an2 an4).
             { exists [(KRedef (item_id x), l1); (KRedef (item_id x), l1)]. split; [reflexivity|].
               intros k Hk. cbn [map fst] in Hk. unfold K. apply in_or_app. right. apply in_map_iff. exists (item_id x).
               destruct Hk as [ <- |[ <- |[]]]; (split; [reflexivity|apply item_id_in_ids]). }
             cbn [ids_kids].
             assert (I1 : incl (K (ids x)) (K (ids x ++ ids_kids xs))) by (apply K_incl, incl_appl, incl_refl).
             assert (I2 : incl (K (ids_kids xs)) (K (ids x ++ ids_kids xs))) by (apply K_incl, incl_appr, incl_refl).
             assert (I3 : incl (K (red_ids (item_id x) xs)) (K (ids x ++ ids_kids xs)))
               by (apply K_incl; eapply incl_tran; [apply red_ids_incl|apply incl_appr, incl_refl]).
             eapply extends_chain; [eapply extends_mono; [exact Hext1|exact I1]|].
             eapply extends_chain; [eapply extends_mono; [exact Hext2|exact I3]|].
             eapply extends_chain; [eapply extends_mono; [exact Hk4|exact I1]|].
             eapply extends_mono; [exact Hext|exact I2].
        * (* ---- an ordinary child: may contain, or be, an ODO table; may supply counters ---- *)
          apply andb_true_iff in Hwf. destruct Hwf as [Hwx Hwfxs].
          destruct Hhx as (o & Ho & Hhold). rewrite assoc_cons_eq in Ho. injection Ho as <-.
          destruct (HW x (or_introl eq_refl) avail Hwx Hndx Havx off an Hcn Hhold)
            as (lx & an1 & Hwalk & Hgx & Hrx & Hlx & Hext1 & Hcn1).
          pose proof (Good_size _ _ _ _ _ _ _ _ Hgx) as Hszx.
          set (an2 := reg (js_anchor (build_alt x)) lx an1).
          assert (Hsame : forall i, lookup (KName i) an2 = lookup (KName i) an1).
          { intros i. unfold an2. destruct (js_anchor (build_alt x)) as [k|] eqn:Ek; [|reflexivity].
            cbn [reg lookup]. destruct (key_eqb (KName i) k) eqn:Ei; [|reflexivity].
            apply key_eqb_eq in Ei. subst k.
            assert (i = item_id x /\ elem_table x = false) as [-> Hetx].
            { destruct x as [j sz [|n|c] rd|j [|n|c] rd ks]; cbn [build_alt js_anchor elem_items] in Ek;
                try discriminate; injection Ek as ->; split; reflexivity. }
            symmetry. apply Hlx. exact Hetx. }
          assert (Hext2 : extends (K (ids x)) an1 an2).
          { unfold an2. apply extends_reg. intros k Hk. apply (proj1 (keys_build_o e) x avail Hwx Hndx).
            destruct (build_alt x); cbn [js_anchor opt_list keys_js] in *; try (apply in_or_app; left; exact Hk); destruct Hk. }
          assert (Hcn2 : CN an2 (avail ++ new_counters x)) by (apply (CN_same an1); [exact Hcn1|intros c _; apply Hsame]).
          assert (Hav2 : forall c, In c (avail ++ new_counters x) -> ~ In c (ids_kids xs)).
          { intros c Hc H. apply in_app_or in Hc. destruct Hc as [Hc|Hc]; [exact (Havxs c Hc H)|].
            apply (proj1 new_counters_incl) in Hc. exact (NoDup_app_disj _ _ _ Hnd Hc H). }
          destruct (IH HWxs Hndxs (avail ++ new_counters x) ((item_id x, extent e x) :: bases) (off + extent e x)
                      ((item_id x, off) :: seen) an2 Hwfxs Huxs Hav2 Hcn2 (Hconv _ _ Hhxs))
            as (pls & an' & Hwp & Hgk & Hext & Hcn').
          -- intros u' ext' Hb. destruct (N.eqb (item_id x) u') eqn:E.
             ++ apply N.eqb_eq in E. subst u'. exists off. apply assoc_cons_eq.
             ++ assert (Hne : item_id x <> u') by (intros E'; rewrite E', N.eqb_refl in E; discriminate).
                rewrite assoc_cons_neq in Hb by exact Hne. destruct (HB u' ext' Hb) as (su' & Hs'). exists su'.
                rewrite assoc_cons_neq by exact Hne. exact Hs'.
          -- intros i Hi. rewrite assoc_cons_neq; [apply Hseen; right; exact Hi|]. intros E. apply Hxnot. rewrite E. exact Hi.
          -- intros y u2 ext2 Hy Ey Hb2.
             assert (Hne : item_id x <> u2).
             { intros E'. subst u2. assert (In (item_id x) (redef_targets xs)) by (eapply redef_targets_spec; eassumption).
               apply existsb_eqb_In in H. congruence. }
             rewrite assoc_cons_neq in Hb2 by exact Hne.
             destruct (INV y u2 ext2 (or_intror Hy) Ey Hb2) as (su2 & ly & Hs2 & Hl2 & Hg2 & Hr2).
             exists su2, ly. split; [rewrite assoc_cons_neq by exact Hne; exact Hs2|].
             assert (Hpres : forall i, In i (ids y) -> lookup (KName i) an2 = lookup (KName i) an).
             { intros i Hi. assert (Hd : ~ In (KName i) (K (ids x))).
               { apply (disjoint_ids' x xs); [exact Hnd|]. eapply in_kids_ids_incl; eassumption. }
               rewrite (extends_lookup _ _ _ _ Hext2 Hd). apply (extends_lookup _ _ _ _ Hext1 Hd). }
             split; [rewrite Hpres; [exact Hl2|apply item_id_in_ids]|]. split; [|exact Hr2].
             eapply (proj1 (Good_stable B dcount r e)); [exact Hg2|exact Hpres].
          -- exists (LPCons (KName (item_id x)) lx pls), an'.
             rewrite walk_props_cons, Hwalk. fold an2. rewrite Hszx, Hwp, Nat.add_assoc. split; [reflexivity|].
             assert (Hchain : forall i, In i (ids x) -> lookup (KName i) an' = lookup (KName i) an1).
             { intros i Hi. rewrite (extends_lookup _ _ _ _ Hext); [|apply (disjoint_ids x xs); assumption]. apply Hsame. }
             split; [|split; [|rewrite <- app_assoc in Hcn'; exact Hcn']].
             { cbn [LayoutP.GoodKids]. split.
               - exists off, lx. split; [apply assoc_cons_eq|]. split.
                 + split; [exact Hrx|]. left. cbn [find_prop]. rewrite key_eqb_refl. reflexivity.
                 + eapply (proj1 (Good_stable B dcount r e)); [exact Hgx|exact Hchain].
               - apply GoodKids_weaken; [|exact Hkeyx].
                 eapply GoodKids_starts; [exact Hgk|]. intros y Hy. apply Hstarts. exact Hy. }
             cbn [ids_kids].
             assert (I1 : incl (K (ids x)) (K (ids x ++ ids_kids xs))) by (apply K_incl, incl_appl, incl_refl).
             assert (I2 : incl (K (ids_kids xs)) (K (ids x ++ ids_kids xs))) by (apply K_incl, incl_appr, incl_refl).
             eapply extends_chain; [eapply extends_mono; [exact Hext1|exact I1]|].
             eapply extends_chain; [eapply extends_mono; [exact Hext2|exact I1]|].
             eapply extends_mono; [exact Hext|exact I2].
  Qed.

  Lemma WO_ext x avail st an l an' :
    wfo e avail x = true -> NoDup (ids x) -> walk (build_alt x) st an = Ok (l, an') -> extends (K (ids x)) an an'.
  Proof.
    intros Hw Hnd H. destruct (proj1 (walk_extends B dcount r) _ _ _ _ _ H) as (d & -> & Hd).
    exists d. split; [reflexivity|]. intros k Hk. apply (proj1 (keys_build_o e) x avail Hw Hnd). apply Hd, Hk.
  Qed.

  Lemma CN_lookup an avail c : CN an avail -> existsb (N.eqb c) avail = true ->
    exists cst csz, lookup (KName c) an = Some (LAtom cst csz) /\ dcount (slice r cst (cst + csz)) = e c.
  Proof. intros H Hc. apply H. apply existsb_eqb_In. exact Hc. Qed.

  Theorem WO_all : (forall x, WO x) /\ (forall ks y, in_kids y ks -> WO y).
  Proof.
    apply item_items_ind.
    - (* elementary *)
      intros i sz oc rd avail Hw Hnd Hav st an Hcn Hh.
      assert (Hi : forall c, In c avail -> c <> i) by (intros c Hc E; apply (Hav c Hc); left; symmetry; exact E).
      destruct oc as [|n|c].
      + (* a fixed item: a potential counter *)
        exists (LAtom st sz), (reg (Some (KName i)) (LAtom st sz) an). cbn [build_alt]. rewrite walk_atom.
        split; [reflexivity|]. split; [|split; [reflexivity|split; [|split]]].
        * cbn [LayoutP.Good lstart lsize]. unfold extent. cbn [item_oc count ext1]. repeat split; lia.
        * intros _. cbn [item_id reg]. apply lookup_cons_same.
        * apply extends_reg. cbn [opt_list ids]. intros k [ <- |[]]. apply K_name. left. reflexivity.
        * cbn [new_counters reg]. intros c0 Hc0. apply in_app_or in Hc0. destruct Hc0 as [Hc0|[ <- |[]]].
          -- destruct (Hcn c0 Hc0) as (cst & csz & Hl & Hv). exists cst, csz. split; [|exact Hv].
             cbn [lookup]. rewrite key_eqb_neq; [exact Hl|]. intros E. injection E as E. exact (Hi c0 Hc0 E).
          -- exists st, sz. split; [apply lookup_cons_same|]. cbn [Holds] in Hh. exact Hh.
      + destruct (WO_of_W (Elem i sz (Times n) rd) avail st an eq_refl Hnd Hav Hcn) as (l & an' & H1 & H2 & H3 & H4 & H5 & H6).
        exists l, an'. cbn [new_counters]. rewrite app_nil_r. tauto.
      + destruct rd as [u|]; [discriminate|]. cbn [wfo] in Hw.
        destruct (CN_lookup an avail c Hcn Hw) as (cst & csz & Hl & Hv).
        cbn [build_alt]. unfold elem_items. rewrite walk_odo, Hl, walk_obj, walk_props_cons, walk_atom, walk_props_nil.
        cbn [js_anchor reg lsize]; rewrite ?ref_size_0. rewrite sub_add_cancel, Hv.
        eexists. eexists. split; [reflexivity|]. split; [|split; [reflexivity|split; [intros H; discriminate|split]]].
        * cbn [LayoutP.Good lstart lsize]. unfold extent. cbn [item_oc count ext1]. split; [reflexivity|]. split; [lia|].
          eexists. reflexivity.
        * exists [(KName i, LAtom st sz); (KName i, LAtom st sz)]. split; [reflexivity|].
          intros k Hk. cbn [map fst] in Hk. destruct Hk as [ <- |[ <- |[]]]; apply K_name; left; reflexivity.
        * cbn [new_counters]. rewrite app_nil_r. intros c0 Hc0. destruct (Hcn c0 Hc0) as (cst0 & csz0 & Hl0 & Hv0).
          exists cst0, csz0. split; [|exact Hv0]. cbn [lookup].
          rewrite !key_eqb_neq; try exact Hl0; intros E; injection E as E; exact (Hi c0 Hc0 E).
    - (* group *)
      intros i oc rd ks IH avail Hw Hnd Hav st an Hcn Hh.
      cbn [ids] in Hnd. assert (Hndk : NoDup (ids_kids ks)) by (inversion Hnd; assumption).
      assert (Hik : ~ In i (ids_kids ks)) by (inversion Hnd; assumption).
      assert (Havk : forall c, In c avail -> ~ In c (ids_kids ks)) by (intros c Hc H; apply (Hav c Hc); right; exact H).
      assert (Hi : forall c, In c avail -> c <> i) by (intros c Hc E; apply (Hav c Hc); left; symmetry; exact E).
      destruct oc as [|n|c].
      + cbn [wfo] in Hw. apply andb_true_iff in Hw. destruct Hw as [Hwk Hu].
        rewrite (build_group_once e) by assumption. rewrite walk_obj. cbn [Holds] in Hh.
        destruct (KSO ks IH Hndk avail [] st [] an Hwk Hu Havk Hcn Hh) as (pls & an1 & Hwp & Hgk & Hext & Hcn1).
        * intros u ext H. discriminate.
        * intros j _. reflexivity.
        * intros y u ext _ _ H. discriminate.
        * rewrite Hwp, sub_add_cancel. eexists. eexists. split; [reflexivity|].
          assert (Hsk : forall j, In j (ids_kids ks) -> lookup (KName j) (reg (Some (KName i)) (LObj st (kids_extent e ks) pls) an1) = lookup (KName j) an1).
          { intros j Hj. cbn [reg lookup]. rewrite key_eqb_neq; [reflexivity|]. intros E. injection E as ->. contradiction. }
          split; [|split; [reflexivity|split; [|split]]].
          -- cbn [LayoutP.Good lstart lsize]. unfold extent. cbn [item_oc count ext1]. split; [reflexivity|]. split; [lia|].
             exists pls. split; [reflexivity|]. eapply (proj2 (Good_stable B dcount r e)); [exact Hgk|exact Hsk].
          -- intros _. cbn [item_id reg]. apply lookup_cons_same.
          -- eapply extends_chain; [eapply extends_mono; [exact Hext|apply K_incl; cbn [ids]; apply incl_tl, incl_refl]|].
             apply extends_reg. cbn [opt_list ids]. intros k [ <- |[]]. apply K_name. left. reflexivity.
          -- cbn [new_counters]. apply (CN_same an1); [exact Hcn1|]. intros c0 Hc0. cbn [reg lookup].
             rewrite key_eqb_neq; [reflexivity|]. intros E. injection E as E. apply in_app_or in Hc0. destruct Hc0 as [Hc0|Hc0].
             ++ exact (Hi c0 Hc0 E).
             ++ apply (proj2 new_counters_incl) in Hc0. subst c0. contradiction.
      + cbn [wfo] in Hw. apply andb_true_iff in Hw. destruct Hw as [Hwk Hno].
        assert (Hold : wf e (Group i (Times n) rd ks) = true).
        { cbn [wf item_oc no_odo]. rewrite Hwk. unfold no_targets in Hno. cbn [andb]. destruct (redef_targets ks); [reflexivity|discriminate]. }
        assert (Hnd' : NoDup (ids (Group i (Times n) rd ks))) by (cbn [ids]; exact Hnd).
        destruct (WO_of_W _ avail st an Hold Hnd' Hav Hcn) as (l & an' & H1 & H2 & H3 & H4 & H5 & H6).
        exists l, an'. cbn [new_counters]. rewrite app_nil_r. tauto.
      + destruct rd as [u|]; [discriminate|]. cbn [wfo] in Hw. apply andb_true_iff in Hw. destruct Hw as [Hw Hno].
        apply andb_true_iff in Hw. destruct Hw as [Hc Hwk].
        assert (Hnot : redef_targets ks = []) by (unfold no_targets in Hno; destruct (redef_targets ks); [reflexivity|discriminate]).
        destruct (CN_lookup an avail c Hcn Hc) as (cst & csz & Hl & Hv).
        cbn [build_alt]. fold (occ_schema ks). rewrite walk_odo, Hl. unfold occ_schema at 1. rewrite walk_obj.
        destruct (KS_plain B dcount r e ks (fun y _ => Wall y) Hwk Hndk Hnot st an) as (pls & an1 & Hwp & Hgk & Hext).
        rewrite Hwp, sub_add_cancel, Hv. cbn [lsize]. eexists. eexists. split; [reflexivity|].
        split; [|split; [reflexivity|split; [|split]]].
        * cbn [LayoutP.Good lstart lsize]. unfold extent. cbn [item_oc count ext1]. split; [reflexivity|]. split; [lia|].
          eexists. split; [reflexivity|]. intros st'. unfold occ_schema. rewrite walk_obj.
          destruct (KS_plain B dcount r e ks (fun y _ => Wall y) Hwk Hndk Hnot st' []) as (pls' & an' & Hwp' & Hgk' & _).
          rewrite Hwp', sub_add_cancel. exists pls'. eexists. split; [reflexivity|].
          eapply (proj2 (Good_stable B dcount r e)); [exact Hgk'|]. intros j Hj. reflexivity.
        * intros _. cbn [item_id reg]. apply lookup_cons_same.
        * eapply extends_chain; [eapply extends_mono; [exact Hext|apply K_incl; cbn [ids]; apply incl_tl, incl_refl]|].
          apply extends_reg. cbn [opt_list ids]. intros k [ <- |[]]. apply K_name. left. reflexivity.
        * cbn [new_counters]. rewrite app_nil_r.
          eapply CN_extends; [eapply CN_extends; [exact Hcn|exact Hext|]|apply extends_reg; apply incl_refl|].
          -- intros c0 Hc0. apply not_in_K, Havk, Hc0.
          -- intros c0 Hc0 [E|[]]. injection E as E. exact (Hi c0 Hc0 (eq_sym E)).
    - intros y [].
    - intros x IHx xs IHxs y [ -> |Hy]; [exact IHx|apply IHxs; exact Hy].
  Qed.

  (* C06 in general form: ODO tables anywhere a non-repeated item may stand *)
  Theorem layout_correct_odo (t : item) :
    wfo e [] t = true -> NoDup (ids t) -> Holds t 0 ->
    exists v0, nav_of dcount r (build t) = Ok v0
      /\ lstart (n_loc v0) = 0 /\ lend (n_loc v0) = extent e t
      /\ forall p v st, spec_nav e (VItem t) 0 p = inl (v, st) ->
           exists nv, nav_path dcount r v0 p = Ok nv
             /\ lstart (n_loc nv) = st /\ lend (n_loc nv) = st + view_size e v
             /\ nav_raw r nv = slice r st (st + view_size e v)
             /\ (forall x, v = VItem x -> is_table x = true ->
                   forall i, count e (item_oc x) <= i -> nav_index dcount r nv i = Err IndexError).
  Proof.
    intros Hw Hnd Hh.
    destruct (proj1 WO_all t [] Hw Hnd (fun c H => match H with end) 0 [] (fun c H => match H with end) Hh)
      as (l & an & Hwalk & Hg & _).
    exists (mknav l an). rewrite nav_of_unf. unfold build. rewrite Hwalk. split; [reflexivity|].
    assert (HR : Rel B dcount r e (VItem t) 0 (mknav l an)) by exact Hg.
    destruct (Rel_place B dcount r e _ _ _ HR) as [H0 Hsz]. cbn [n_loc view_size] in *. unfold lend. rewrite H0, Hsz.
    split; [reflexivity|]. split; [reflexivity|].
    intros p v st Hs. destruct (nav_path_ok B dcount r e p _ _ _ _ _ HR Hs) as (nv & Hn & HRn).
    exists nv. destruct (Rel_place B dcount r e _ _ _ HRn) as [H1 H2]. rewrite nav_raw_unf. unfold lend. rewrite H1, H2.
    repeat split; try assumption.
    intros x -> Ht i Hi. eapply index_refused; eassumption.
  Qed.
End MainOdo.
