(* Lemmas for C08. *)
From Coq Require Import ZArith NArith List Bool Lia Arith ZifyBool ZifyN ZifyNat.
Import ListNotations.
Require Import SR.Base.Res SR.Base.Dec SR.Gen.JsonTypeParams SR.Gen.EstructParams SR.Spec.Encode SR.Spec.Fits SR.Spec.SizeCfg
  SR.Spec.Layout SR.Model.Layout SR.Model.Estruct SR.Model.Conversion SR.Spec.SchemaTruth SR.Model.JsonType
  SR.Proofs.EstructP.
Open Scope N_scope.

(* ================================================================== part 1: one elementary item *)

Definition field_eqb (r : res field) (t e c sz : N) : bool :=
  match r with
  | Ok f => (f_type f =? t) && (f_enc f =? e) && (f_conv f =? c) && (f_min f =? sz) && (f_max f =? sz)
  | Err _ => false
  end.

Lemma field_eqb_eq r t e c sz : field_eqb r t e c sz = true -> r = Ok (mkfield t e c sz sz).
Proof.
  destruct r as [[a b c' d e']|]; cbn; [|discriminate].
  rewrite !andb_true_iff, !N.eqb_eq. intros [[[[-> ->] ->] ->] ->]. reflexivity.
Qed.

Definition oz_eqb (a b : option Z) : bool :=
  match a, b with Some x, Some y => Z.eqb x y | None, None => true | _, _ => false end.
Lemma oz_eqb_eq a b : oz_eqb a b = true -> a = b.
Proof. destruct a, b; cbn; try discriminate; auto. intros H; apply Z.eqb_eq in H; subst; auto. Qed.

Definition is_noneZ (o : option Z) : bool := match o with None => true | Some _ => false end.

Definition rep_flags : list (bool * bool) := [(false, false); (false, true); (true, false); (true, true)].

(* both generators, every spelling, sign, digit counts and way of writing the digit runs *)
Definition num_check (c : cfg) (r : bool * bool) : bool :=
  let '(u, s, m, n) := c in
  let p := PNum s m n (fst r) (snd r) in
  negb (is_noneZ (known_bad_C08 u p))
  || match spec_field u p, spec_field_ext u p with
     | Some (t, e, cv, sz, py), Some (tx, szx) =>
         field_eqb (emit_field u p) t e cv sz && oz_eqb (declared_pytype t cv) (Some py)
         && field_eqb (emit_field_ext u p) tx 0 0 szx
     | _, _ => false
     end.

Lemma num_enumeration : forallb (fun c => forallb (num_check c) rep_flags) cfgs = true.
Proof. vm_compute. reflexivity. Qed.

Lemma In_rep_flags a b : In (a, b) rep_flags.
Proof. destruct a, b; cbn; auto. Qed.

Lemma mem_spelling_lt13 u l : forallb (fun x => x <? 13) l = true -> mem_spelling u l = true -> u < 13.
Proof.
  unfold mem_spelling. intros Hl H. apply existsb_exists in H as [x [Hin Hx]].
  apply N.eqb_eq in Hx; subst x. rewrite forallb_forall in Hl. apply Hl in Hin. lia.
Qed.

Lemma spec_size_lt13 u s m n sz : spec_size u s m n = Some sz -> u < 13.
Proof.
  unfold spec_size. destruct (u =? display_spelling) eqn:E.
  - apply N.eqb_eq in E; subst; intros _; reflexivity.
  - destruct (mem_spelling u packed_spellings) eqn:E1; [intros _; eapply mem_spelling_lt13; [|exact E1]; reflexivity|].
    destruct (mem_spelling u binary_spellings) eqn:E2; [intros _; eapply mem_spelling_lt13; [|exact E2]; reflexivity|].
    destruct (mem_spelling u float4_spellings) eqn:E3; [intros _; eapply mem_spelling_lt13; [|exact E3]; reflexivity|].
    destruct (mem_spelling u float8_spellings) eqn:E4; [intros _; eapply mem_spelling_lt13; [|exact E4]; reflexivity|].
    discriminate.
Qed.

Lemma num_facts u s m n ri rf t e c sz py :
  wf_pic (PNum s m n ri rf) = true ->
  spec_field u (PNum s m n ri rf) = Some (t, e, c, sz, py) ->
  known_bad_C08 u (PNum s m n ri rf) = None ->
  emit_field u (PNum s m n ri rf) = Ok (mkfield t e c sz sz)
  /\ declared_pytype t c = Some py
  /\ exists tx, spec_field_ext u (PNum s m n ri rf) = Some (tx, sz)
                /\ emit_field_ext u (PNum s m n ri rf) = Ok (mkfield tx 0 0 sz sz).
Proof.
  intros Hwf Hspec Hk.
  assert (Hu : u < 13).
  { cbn [spec_field] in Hspec. destruct (spec_size u s m n) eqn:E; [|discriminate]. eapply spec_size_lt13; eauto. }
  assert (Hmn : (1 <= m + n <= 18)%nat).
  { cbn [wf_pic] in Hwf. apply andb_true_iff in Hwf as [A B]. apply Nat.leb_le in A, B. lia. }
  pose proof (cfgs_complete u s m n Hu Hmn) as Hin.
  pose proof num_enumeration as H. rewrite forallb_forall in H. specialize (H _ Hin).
  rewrite forallb_forall in H. specialize (H _ (In_rep_flags ri rf)).
  unfold num_check in H. cbn [fst snd] in H. rewrite Hk in H. cbn [is_noneZ negb orb] in H.
  rewrite Hspec in H.
  destruct (spec_field_ext u (PNum s m n ri rf)) as [[tx szx]|] eqn:Ex; [|discriminate].
  apply andb_true_iff in H as [H H3]. apply andb_true_iff in H as [H1 H2].
  assert (szx = sz).
  { unfold spec_field_ext in Ex. rewrite Hspec in Ex. inversion Ex; reflexivity. }
  subst szx.
  split; [apply field_eqb_eq; exact H1|]. split; [apply oz_eqb_eq; exact H2|].
  exists tx. split; [reflexivity|apply field_eqb_eq; exact H3].
Qed.

(* ---- text pictures: any length ---- *)

Lemma run_head c rep k : (1 <= k)%nat -> exists rest, run c rep k = c :: rest.
Proof.
  destruct k as [|k]; [lia|]. intros _. unfold run. destruct rep; [eexists; reflexivity|].
  cbn [repeat]. eexists; reflexivity.
Qed.

Lemma text_not_numeric chars up alpha k rep :
  (1 <= k)%nat -> mem 88 chars = false -> mem 65 chars = false ->
  numeric_text chars up (pic_text (PText alpha k rep)) = false.
Proof.
  intros Hk HX HA. cbn [pic_text].
  destruct (run_head (if alpha then 65 else 88) rep k Hk) as [rest ->].
  unfold numeric_text, all_in. cbn [forallb].
  assert (mem (if up then upper (if alpha then 65 else 88) else (if alpha then 65 else 88)) chars = false) as ->.
  { destruct up, alpha; cbn; assumption. }
  reflexivity.
Qed.

Lemma text_calcsize k : (1 <= k)%nat -> calcsize display_spelling (mkpic false k 0) = Ok (N.of_nat k).
Proof.
  intros Hk. unfold calcsize, picture_size. cbn [p_signed p_int p_frac].
  replace (0 + N.of_nat k + N.of_nat 0) with (N.of_nat k) by lia.
  destruct (N.of_nat k =? 0) eqn:E; [lia|]. reflexivity.
Qed.

Lemma text_facts u alpha k rep t e c sz py :
  wf_pic (PText alpha k rep) = true ->
  spec_field u (PText alpha k rep) = Some (t, e, c, sz, py) ->
  emit_field u (PText alpha k rep) = Ok (mkfield t e c sz sz)
  /\ declared_pytype t c = Some py
  /\ exists tx, spec_field_ext u (PText alpha k rep) = Some (tx, sz)
                /\ emit_field_ext u (PText alpha k rep) = Ok (mkfield tx 0 0 sz sz).
Proof.
  intros Hwf Hspec. cbn [wf_pic] in Hwf. apply Nat.leb_le in Hwf.
  cbn [spec_field] in Hspec. destruct (u =? display_spelling) eqn:E; [|discriminate].
  apply N.eqb_eq in E. subst u. inversion Hspec; subst. clear Hspec.
  split; [|split].
  - unfold emit_field, emit_with, json_type.
    change (mem display_spelling jt_display) with true. cbv iota.
    rewrite (text_not_numeric jt_numeric_chars jt_upper alpha k rep Hwf eq_refl eq_refl).
    cbn [est_pic]. rewrite (text_calcsize k Hwf). reflexivity.
  - reflexivity.
  - exists ty_string. split.
    + unfold spec_field_ext. cbn [spec_field]. change (display_spelling =? display_spelling) with true. reflexivity.
    + unfold emit_field_ext, emit_with, json_type_ext.
      change (mem display_spelling xt_display) with true. cbv iota.
      rewrite (text_not_numeric xt_numeric_chars xt_upper alpha k rep Hwf eq_refl eq_refl).
      cbn [est_pic]. rewrite (text_calcsize k Hwf). reflexivity.
Qed.

(* ---- the keywords: both kinds of picture ---- *)

Lemma truthful_keywords u p t e c sz py :
  wf_pic p = true -> spec_field u p = Some (t, e, c, sz, py) -> known_bad_C08 u p = None ->
  emit_field u p = Ok (mkfield t e c sz sz) /\ declared_pytype t c = Some py.
Proof.
  destruct p as [s m n ri rf|alpha k rep]; intros Hwf Hs Hk.
  - destruct (num_facts _ _ _ _ _ _ _ _ _ _ _ Hwf Hs Hk) as [A [B _]]. split; assumption.
  - destruct (text_facts _ _ _ _ _ _ _ _ _ Hwf Hs) as [A [B _]]. split; assumption.
Qed.

Lemma extended_keywords u p tx sz :
  wf_pic p = true -> spec_field_ext u p = Some (tx, sz) -> known_bad_C08 u p = None ->
  emit_field_ext u p = Ok (mkfield tx 0 0 sz sz).
Proof.
  intros Hwf Hx Hk.
  assert (exists t e c py, spec_field u p = Some (t, e, c, sz, py)) as [t [e [c [py Hs]]]].
  { unfold spec_field_ext in Hx. destruct (spec_field u p) as [[[[[t e] c] sz'] py]|]; [|discriminate].
    inversion Hx; subst. eauto. }
  destruct p as [s m n ri rf|alpha k rep].
  - destruct (num_facts _ _ _ _ _ _ _ _ _ _ _ Hwf Hs Hk) as [_ [_ [tx' [A B]]]].
    rewrite A in Hx. inversion Hx; subst. exact B.
  - destruct (text_facts _ _ _ _ _ _ _ _ _ Hwf Hs) as [_ [_ [tx' [A B]]]].
    rewrite A in Hx. inversion Hx; subst. exact B.
Qed.

(* ---- delivered values ---- *)

Lemma in_packed_not_display u : In u packed_spellings -> u <> display_spelling.
Proof. cbn. intros [H|[H|[H|[]]]]; subst; discriminate. Qed.
Lemma in_binary_not_display u : In u binary_spellings -> u <> display_spelling.
Proof. cbn. intros [H|[H|[H|[H|[H|[]]]]]]; subst; discriminate. Qed.

(* the conversion keyword the standard generator emits is absent or decimal - whatever the picture text *)
Lemma display_conv txt : exists t e c, json_type display_spelling txt = Ok (t, e, c) /\ (c = 0 \/ c = 6).
Proof.
  unfold json_type. change (mem display_spelling jt_display) with true. cbv iota.
  destruct (numeric_text jt_numeric_chars jt_upper txt).
  - exists 1, 1, 6. split; [reflexivity|right; reflexivity].
  - exists 1, 1, 0. split; [reflexivity|left; reflexivity].
Qed.

Lemma delivered u p f buffer t e c sz py :
  wf_pic p = true -> spec_field u p = Some (t, e, c, sz, py) -> emit_field u p = Ok f ->
  valid_record u p buffer -> delivered_type u p (f_conv f) buffer = Ok py.
Proof.
  intros Hwf Hs He Hv.
  destruct p as [s m n ri rf|alpha k rep].
  - cbn [wf_pic] in Hwf. apply andb_true_iff in Hwf as [W1 W2]. apply Nat.leb_le in W1, W2.
    cbn [valid_record] in Hv. destruct Hv as [[Hu Hv]|[[Hu Hv]|[Hu Hv]]].
    + (* zoned *)
      subst u. destruct Hv as [ds [z [Hd [Hz [Hl Hb]]]]]. subst buffer.
      assert (Hne : ds <> []). { intro; subst ds. unfold spec_display_width in Hl. cbn in Hl. destruct s; lia. }
      assert (Hlen : (length ds <= 28)%nat). { unfold spec_display_width in Hl. destruct s; lia. }
      unfold delivered_type. cbn [decode].
      rewrite (C02_zoned (mkpic s m n) ds z Hne Hd Hz Hlen). cbn [pytype_of].
      cbn [spec_field] in Hs. destruct (spec_size display_spelling s m n); [|discriminate].
      change (display_spelling =? display_spelling) with true in Hs. cbv iota in Hs. inversion Hs; subst.
      unfold emit_field, emit_with in He.
      destruct (display_conv (pic_text (PNum s m n ri rf))) as [t' [e' [c' [Hj Hc]]]].
      rewrite Hj in He. destruct (calcsize display_spelling (est_pic (PNum s m n ri rf))); [|discriminate].
      inversion He; subst f. cbn [f_conv]. destruct Hc; subst c'; reflexivity.
    + (* packed *)
      destruct Hv as [ds [sg [Hd [Hz [Hl Hb]]]]]. subst buffer.
      assert (Hlen : (length ds <= 28)%nat) by lia.
      unfold delivered_type. cbn [decode].
      rewrite (C02_packed u (mkpic s m n) ds sg Hu Hd Hz Hlen). cbn [pytype_of].
      pose proof (in_packed_not_display u Hu) as Hnd.
      cbn in Hu. destruct Hu as [Hu|[Hu|[Hu|[]]]]; subst u;
        (cbn [spec_field] in Hs; destruct (spec_size _ s m n); [|discriminate]; cbn in Hs; inversion Hs; subst;
         unfold emit_field, emit_with in He; cbn in He;
         match type of He with context[calcsize ?a ?b] => destruct (calcsize a b) end; [|discriminate];
         inversion He; subst f; reflexivity).
    + (* binary *)
      destruct Hv as [w [v [Hw [Hr Hb]]]]. subst buffer.
      unfold delivered_type. cbn [decode].
      rewrite (C02_binary u (mkpic s m n) w v Hu Hw Hr). cbn [pytype_of].
      cbn in Hu. destruct Hu as [Hu|[Hu|[Hu|[Hu|[Hu|[]]]]]]; subst u;
        (cbn [spec_field] in Hs; destruct (spec_size _ s m n); [|discriminate]; cbn in Hs; inversion Hs; subst;
         unfold emit_field, emit_with in He; cbn in He;
         match type of He with context[calcsize ?a ?b] => destruct (calcsize a b) end; [|discriminate];
         inversion He; subst f; reflexivity).
  - cbn [valid_record] in Hv. destruct Hv as [Hu [Hl _]]. subst u.
    cbn [wf_pic] in Hwf. apply Nat.leb_le in Hwf.
    unfold delivered_type. cbn [decode]. rewrite (C02_text k buffer Hl). cbn [pytype_of].
    destruct (text_facts display_spelling alpha k rep t e c sz py) as [A _].
    { cbn [wf_pic]. apply Nat.leb_le. exact Hwf. }
    { exact Hs. }
    rewrite A in He. inversion He; subst f. cbn [f_conv].
    cbn [spec_field] in Hs. change (display_spelling =? display_spelling) with true in Hs. cbv iota in Hs.
    inversion Hs; subst. reflexivity.
Qed.

(* COMP-1 / COMP-2: no decoder branch at all *)
Lemma float_no_decoder u s m n ri rf conv buffer :
  is_float_spelling u = true -> delivered_type u (PNum s m n ri rf) conv buffer = Err RuntimeError.
Proof.
  unfold is_float_spelling, mem_spelling. cbn [existsb float4_spellings float8_spellings].
  intros H. unfold delivered_type. cbn [decode].
  assert (u = 1 \/ u = 6 \/ u = 2 \/ u = 7) as Hu.
  { repeat rewrite orb_false_r in H. apply orb_true_iff in H as [H|H]; apply orb_true_iff in H as [H|H];
      apply N.eqb_eq in H; auto. }
  destruct Hu as [Hu|[Hu|[Hu|Hu]]]; subst u; reflexivity.
Qed.

(* ================================================================== part 2: the schema tree *)

Lemma key_eqb_eq a b : key_eqb a b = true <-> a = b.
Proof.
  destruct a, b; cbn; split; intros H; try discriminate; try (apply N.eqb_eq in H; subst; reflexivity);
    inversion H; subst; apply N.eqb_refl.
Qed.

Lemma existsb_key_In k l : existsb (key_eqb k) l = true <-> In k l.
Proof.
  rewrite existsb_exists. split.
  - intros [x [Hin Hx]]. apply key_eqb_eq in Hx. subst. exact Hin.
  - intros H. exists k. split; [exact H|apply key_eqb_eq; reflexivity].
Qed.

Lemma NoDup_nodup_keys l : NoDup l -> nodup_keys l = true.
Proof.
  induction 1 as [|k l Hn Hd IH]; [reflexivity|]. cbn [nodup_keys]. rewrite IH, andb_true_r.
  destruct (existsb (key_eqb k) l) eqn:E; [|reflexivity]. apply existsb_key_In in E. contradiction.
Qed.

Lemma existsb_N_In u l : existsb (N.eqb u) l = true <-> In u l.
Proof.
  rewrite existsb_exists. split.
  - intros [x [Hin Hx]]. apply N.eqb_eq in Hx. subst. exact Hin.
  - intros H. exists u. split; [exact H|apply N.eqb_refl].
Qed.

Definition b_id (b : built) : id := fst (fst b).
Definition b_union (b : built) : option id := snd (fst b).
Definition b_js (b : built) : js := snd b.

(* ---- alternatives of a union ---- *)

Lemma alts_of_anchor u all : forall i s k,
  In (i, Some u, s) all -> In k (anchors_of s) -> In k (anchors_alts (alts_of u all)).
Proof.
  induction all as [|[[i0 ou0] s0] r IH]; intros i s k Hin Hk; [destruct Hin|].
  cbn [alts_of]. destruct Hin as [Heq|Hin].
  - inversion Heq; subst. rewrite N.eqb_refl. cbn [anchors_alts]. apply in_or_app. left. exact Hk.
  - destruct ou0 as [u'|]; [destruct (N.eqb u u')|]; try (cbn [anchors_alts]; apply in_or_app; right); eapply IH; eauto.
Qed.

Lemma alts_of_refs u all : forall k,
  In k (refs_alts (alts_of u all)) -> exists i s, In (i, Some u, s) all /\ In k (refs_of s).
Proof.
  induction all as [|[[i0 ou0] s0] r IH]; intros k Hk; [destruct Hk|].
  cbn [alts_of] in Hk. destruct ou0 as [u'|].
  - destruct (N.eqb u u') eqn:E.
    + apply N.eqb_eq in E. subst u'. cbn [refs_alts] in Hk. apply in_app_or in Hk as [Hk|Hk].
      * exists i0, s0. split; [left; reflexivity|exact Hk].
      * destruct (IH k Hk) as [i [s [A B]]]. exists i, s. split; [right; exact A|exact B].
    + destruct (IH k Hk) as [i [s [A B]]]. exists i, s. split; [right; exact A|exact B].
  - destruct (IH k Hk) as [i [s [A B]]]. exists i, s. split; [right; exact A|exact B].
Qed.

Lemma alts_of_shape u all :
  (forall b, In b all -> shape_ok (b_js b) = true) -> shape_alts (alts_of u all) = true.
Proof.
  induction all as [|[[i0 ou0] s0] r IH]; intros H; [reflexivity|].
  cbn [alts_of]. assert (Hr : forall b, In b r -> shape_ok (b_js b) = true) by (intros; apply H; right; assumption).
  destruct ou0 as [u'|]; [destruct (N.eqb u u')|]; try (apply IH; exact Hr).
  cbn [shape_alts]. rewrite (H (i0, Some u', s0) (or_introl eq_refl) : shape_ok s0 = true). cbn [andb]. apply IH; exact Hr.
Qed.

Lemma alts_of_nonempty u all i s : In (i, Some u, s) all -> alts_of u all <> ANil.
Proof.
  induction all as [|[[i0 ou0] s0] r IH]; intros Hin; [destruct Hin|].
  cbn [alts_of]. destruct Hin as [Heq|Hin].
  - inversion Heq; subst. rewrite N.eqb_refl. discriminate.
  - destruct ou0 as [u'|]; [destruct (N.eqb u u')|]; try discriminate; apply IH; exact Hin.
Qed.

(* ---- assemble: the ordered properties of a group ---- *)

Lemma assemble_anchor all : forall bs E i ou s k,
  incl bs all -> In (i, ou, s) bs -> In k (anchors_of s) ->
  match ou with None => True | Some u => existsb (N.eqb u) E = false end ->
  In k (anchors_props (assemble all E bs)).
Proof.
  induction bs as [|[[i0 ou0] s0] r IH]; intros E i ou s k Hincl Hin Hk Hc; [destruct Hin|].
  assert (Hr : incl r all) by (intros x Hx; apply Hincl; right; exact Hx).
  assert (Hall : In (i, ou, s) all) by (apply Hincl; exact Hin).
  cbn [assemble]. destruct ou0 as [u0|].
  - destruct (existsb (N.eqb u0) E) eqn:EE.
    + cbn [anchors_props anchors_of js_anchor app]. destruct Hin as [Heq|Hin].
      * inversion Heq; subst. rewrite EE in Hc. discriminate.
      * eapply IH; eauto.
    + cbn [anchors_props]. destruct ou as [u|].
      * destruct (N.eqb u u0) eqn:Eu.
        -- apply N.eqb_eq in Eu. subst u0. apply in_or_app. left.
           cbn [anchors_of js_anchor]. apply in_or_app. right. eapply alts_of_anchor; eauto.
        -- apply in_or_app. right. cbn [anchors_of js_anchor app]. destruct Hin as [Heq|Hin].
           ++ inversion Heq; subst. rewrite N.eqb_refl in Eu. discriminate.
           ++ eapply IH; eauto. cbn [existsb]. rewrite Eu, Hc. reflexivity.
      * apply in_or_app. right. cbn [anchors_of js_anchor app]. destruct Hin as [Heq|Hin]; [inversion Heq|].
        eapply IH; eauto.
  - cbn [anchors_props]. destruct Hin as [Heq|Hin].
    + inversion Heq; subst. apply in_or_app. left. exact Hk.
    + apply in_or_app. right. eapply IH; eauto.
Qed.

Lemma assemble_refs all : forall bs E k,
  incl bs all -> In k (refs_props (assemble all E bs)) ->
  exists i ou s, In (i, ou, s) all /\ (k = KName i \/ In k (refs_of s)).
Proof.
  induction bs as [|[[i0 ou0] s0] r IH]; intros E k Hincl Hk; [destruct Hk|].
  assert (Hr : incl r all) by (intros x Hx; apply Hincl; right; exact Hx).
  assert (H0 : In (i0, ou0, s0) all) by (apply Hincl; left; reflexivity).
  cbn [assemble] in Hk. destruct ou0 as [u0|].
  - destruct (existsb (N.eqb u0) E).
    + cbn [refs_props refs_of app] in Hk. destruct Hk as [Hk|Hk].
      * exists i0, (Some u0), s0. split; [exact H0|left; symmetry; exact Hk].
      * eapply IH; eauto.
    + cbn [refs_props refs_of] in Hk. apply in_app_or in Hk as [Hk|Hk].
      * destruct (alts_of_refs _ _ _ Hk) as [i [s [A B]]]. exists i, (Some u0), s. split; [exact A|right; exact B].
      * cbn [app] in Hk. destruct Hk as [Hk|Hk].
        -- exists i0, (Some u0), s0. split; [exact H0|left; symmetry; exact Hk].
        -- eapply IH; eauto.
  - cbn [refs_props] in Hk. apply in_app_or in Hk as [Hk|Hk].
    + exists i0, None, s0. split; [exact H0|right; exact Hk].
    + eapply IH; eauto.
Qed.

Lemma assemble_keys all : forall bs E k,
  In k (prop_keys (assemble all E bs)) ->
  (exists i, k = KName i /\ In i (map b_id bs)) \/ (exists u, k = KRedef u /\ existsb (N.eqb u) E = false).
Proof.
  induction bs as [|[[i0 ou0] s0] r IH]; intros E k Hk; [destruct Hk|].
  cbn [assemble] in Hk. cbn [map b_id fst].
  assert (Hlift : forall E', ((exists i, k = KName i /\ In i (map b_id r)) \/ (exists u, k = KRedef u /\ existsb (N.eqb u) E' = false)) ->
                  (forall u, existsb (N.eqb u) E' = false -> existsb (N.eqb u) E = false) ->
                  (exists i, k = KName i /\ (i0 = i \/ In i (map b_id r))) \/ (exists u, k = KRedef u /\ existsb (N.eqb u) E = false)).
  { intros E' [[i [A B]]|[u [A B]]] Hm; [left; exists i; split; [exact A|right; exact B]|right; exists u; split; [exact A|apply Hm; exact B]]. }
  destruct ou0 as [u0|].
  - destruct (existsb (N.eqb u0) E) eqn:EE.
    + cbn [prop_keys] in Hk. destruct Hk as [Hk|Hk].
      * left. exists i0. split; [symmetry; exact Hk|left; reflexivity].
      * apply (Hlift E); [apply IH; exact Hk|auto].
    + cbn [prop_keys] in Hk. destruct Hk as [Hk|[Hk|Hk]].
      * right. exists u0. split; [symmetry; exact Hk|exact EE].
      * left. exists i0. split; [symmetry; exact Hk|left; reflexivity].
      * apply (Hlift (u0 :: E)); [apply IH; exact Hk|].
        intros u Hu. cbn [existsb] in Hu. apply orb_false_iff in Hu as [_ Hu]. exact Hu.
  - cbn [prop_keys] in Hk. destruct Hk as [Hk|Hk].
    + left. exists i0. split; [symmetry; exact Hk|left; reflexivity].
    + apply (Hlift E); [apply IH; exact Hk|auto].
Qed.

Lemma assemble_keys_nodup all : forall bs E, NoDup (map b_id bs) -> NoDup (prop_keys (assemble all E bs)).
Proof.
  induction bs as [|[[i0 ou0] s0] r IH]; intros E Hnd; [constructor|].
  cbn [map b_id fst] in Hnd. inversion Hnd as [|? ? Hni Hnr]; subst.
  assert (Hname : forall E', ~ In (KName i0) (prop_keys (assemble all E' r))).
  { intros E' Hin. apply assemble_keys in Hin as [[i [A B]]|[u [A B]]]; [inversion A; subst; contradiction|discriminate]. }
  cbn [assemble]. destruct ou0 as [u0|].
  - destruct (existsb (N.eqb u0) E) eqn:EE.
    + cbn [prop_keys]. constructor; [apply Hname|apply IH; exact Hnr].
    + cbn [prop_keys]. constructor.
      * intros [Hin|Hin]; [discriminate|].
        apply assemble_keys in Hin as [[i [A B]]|[u [A B]]]; [discriminate|].
        inversion A; subst. cbn [existsb] in B. rewrite N.eqb_refl in B. discriminate.
      * constructor; [apply Hname|apply IH; exact Hnr].
  - cbn [prop_keys]. constructor; [apply Hname|apply IH; exact Hnr].
Qed.

Lemma assemble_shape all : forall bs E,
  incl bs all -> (forall b, In b all -> shape_ok (b_js b) = true) -> shape_props (assemble all E bs) = true.
Proof.
  induction bs as [|[[i0 ou0] s0] r IH]; intros E Hincl Hs; [reflexivity|].
  assert (Hr : incl r all) by (intros x Hx; apply Hincl; right; exact Hx).
  assert (H0 : In (i0, ou0, s0) all) by (apply Hincl; left; reflexivity).
  cbn [assemble]. destruct ou0 as [u0|].
  - destruct (existsb (N.eqb u0) E).
    + cbn [shape_props shape_ok]. apply IH; assumption.
    + cbn [shape_props shape_ok]. rewrite (alts_of_shape u0 all Hs), (IH (u0 :: E) Hr Hs).
      destruct (alts_of u0 all) eqn:EA; [exfalso; eapply alts_of_nonempty; eauto|reflexivity].
  - cbn [shape_props]. rewrite (Hs _ H0 : shape_ok s0 = true). apply IH; assumption.
Qed.

(* ---- plain: the properties of a repeated group ---- *)

Lemma plain_anchor : forall bs i ou s k, In (i, ou, s) bs -> In k (anchors_of s) -> In k (anchors_props (plain bs)).
Proof.
  induction bs as [|[[i0 ou0] s0] r IH]; intros i ou s k Hin Hk; [destruct Hin|].
  cbn [plain anchors_props]. apply in_or_app. destruct Hin as [Heq|Hin]; [inversion Heq; subst; left; exact Hk|right; eapply IH; eauto].
Qed.

Lemma plain_refs : forall bs k, In k (refs_props (plain bs)) -> exists i ou s, In (i, ou, s) bs /\ In k (refs_of s).
Proof.
  induction bs as [|[[i0 ou0] s0] r IH]; intros k Hk; [destruct Hk|].
  cbn [plain refs_props] in Hk. apply in_app_or in Hk as [Hk|Hk].
  - exists i0, ou0, s0. split; [left; reflexivity|exact Hk].
  - destruct (IH k Hk) as [i [ou [s [A B]]]]. exists i, ou, s. split; [right; exact A|exact B].
Qed.

Lemma plain_keys : forall bs, prop_keys (plain bs) = map (fun b => KName (b_id b)) bs.
Proof. induction bs as [|[[i0 ou0] s0] r IH]; [reflexivity|]. cbn [plain prop_keys map b_id fst]. rewrite IH. reflexivity. Qed.

Lemma plain_shape : forall bs, (forall b, In b bs -> shape_ok (b_js b) = true) -> shape_props (plain bs) = true.
Proof.
  induction bs as [|[[i0 ou0] s0] r IH]; intros H; [reflexivity|].
  cbn [plain shape_props]. rewrite (H (i0, ou0, s0) (or_introl eq_refl) : shape_ok s0 = true). apply IH. intros; apply H; right; assumption.
Qed.

(* ---- build ---- *)

Lemma kid_alts_cons targets x xs :
  kid_alts targets (ICons x xs) = (item_id x, union_of targets x, build_alt x) :: kid_alts targets xs.
Proof. reflexivity. Qed.

Fixpoint kid_ids (ks : items) : list id :=
  match ks with INil => [] | ICons x xs => item_id x :: kid_ids xs end.

Lemma kid_alts_bid targets ks : map b_id (kid_alts targets ks) = kid_ids ks.
Proof. induction ks as [|x xs IH]; [reflexivity|]. rewrite kid_alts_cons. cbn [map b_id fst kid_ids]. rewrite IH. reflexivity. Qed.

Lemma item_id_in x : In (item_id x) (ids_of x).
Proof. destruct x; cbn; auto. Qed.

Lemma kid_ids_incl ks : incl (kid_ids ks) (ids_kids ks).
Proof.
  induction ks as [|x xs IH]; intros z Hz; [destruct Hz|].
  cbn [kid_ids] in Hz. cbn [ids_kids]. apply in_or_app. destruct Hz as [Hz|Hz]; [left; subst; apply item_id_in|right; apply IH; exact Hz].
Qed.

Lemma NoDup_app_parts {T} (a b : list T) : NoDup (a ++ b) -> NoDup a /\ NoDup b /\ (forall x, In x a -> ~ In x b).
Proof.
  induction a as [|h a IH]; cbn [app]; intros H.
  - split; [constructor|]. split; [exact H|]. intros x [].
  - inversion H as [|? ? Hn Hd]; subst. destruct (IH Hd) as [A [B C]]. split; [|split].
    + constructor; [|exact A]. intros Hin. apply Hn. apply in_or_app. left. exact Hin.
    + exact B.
    + intros x [Hx|Hx]; [subst; intros Hb; apply Hn; apply in_or_app; right; exact Hb|apply C; exact Hx].
Qed.

Lemma NoDup_kid_ids ks : NoDup (ids_kids ks) -> NoDup (kid_ids ks).
Proof.
  induction ks as [|x xs IH]; intros H; [constructor|].
  cbn [ids_kids] in H. destruct (NoDup_app_parts _ _ H) as [A [B C]]. cbn [kid_ids]. constructor; [|apply IH; exact B].
  intros Hin. apply (C (item_id x) (item_id_in x)). apply kid_ids_incl. exact Hin.
Qed.

Lemma NoDup_map_KName l : NoDup l -> NoDup (map KName l).
Proof.
  induction 1 as [|x l Hn Hd IH]; [constructor|]. cbn [map]. constructor; [|exact IH].
  intros Hin. apply in_map_iff in Hin as [y [Hy Hin]]. inversion Hy; subst. contradiction.
Qed.

(* every name of the record description is an anchor of the generated schema *)
Lemma ids_are_anchors :
  (forall x k, In k (map KName (ids_of x)) -> In k (anchors_of (build_alt x)))
  /\ (forall ks targets k, In k (map KName (ids_kids ks)) ->
        exists i ou s, In (i, ou, s) (kid_alts targets ks) /\ In k (anchors_of s)).
Proof.
  apply item_items_ind.
  - intros i sz oc redef k Hk. cbn [ids_of map In] in Hk. destruct Hk as [Hk|[]]. subst k.
    destruct oc; cbn; auto.
  - intros i oc redef ks IH k Hk. cbn [ids_of map In] in Hk. destruct Hk as [Hk|Hk].
    + subst k. destruct oc; cbn; auto.
    + destruct oc as [|n|c]; cbn [build_alt].
      * destruct (IH (redef_targets ks) k Hk) as [i' [ou [s [A B]]]].
        cbn [anchors_of js_anchor]. apply in_or_app. right.
        eapply assemble_anchor; [apply incl_refl|exact A|exact B|destruct ou; [reflexivity|exact I]].
      * destruct (IH [] k Hk) as [i' [ou [s [A B]]]].
        cbn [anchors_of js_anchor app]. right. cbn [anchors_of js_anchor app]. eapply plain_anchor; eauto.
      * destruct (IH [] k Hk) as [i' [ou [s [A B]]]].
        cbn [anchors_of js_anchor app]. right. cbn [anchors_of js_anchor app]. eapply plain_anchor; eauto.
  - intros targets k [].
  - intros x IHx xs IHxs targets k Hk. cbn [ids_kids] in Hk. rewrite map_app in Hk. rewrite kid_alts_cons.
    apply in_app_or in Hk as [Hk|Hk].
    + exists (item_id x), (union_of targets x), (build_alt x). split; [left; reflexivity|apply IHx; exact Hk].
    + destruct (IHxs targets k Hk) as [i [ou [s [A B]]]]. exists i, ou, s. split; [right; exact A|exact B].
Qed.

Ltac incl_apps := intros ? ?; repeat (rewrite in_app_iff in * || cbn [In] in * ); tauto.

(* every $ref and every maxItemsDependsOn names an entry or a DEPENDING ON counter of the description *)
Lemma refs_are_names :
  (forall x k, In k (refs_of (build_alt x)) -> In k (map KName (ids_of x ++ counters_of x)))
  /\ (forall ks targets i ou s, In (i, ou, s) (kid_alts targets ks) ->
        In i (ids_kids ks) /\ forall k, In k (refs_of s) -> In k (map KName (ids_kids ks ++ counters_kids ks))).
Proof.
  apply item_items_ind.
  - intros i sz oc redef k Hk. destruct oc; cbn in Hk |- *; tauto.
  - intros i oc redef ks IH k Hk.
    assert (Hkid : forall targets i' ou s, In (i', ou, s) (kid_alts targets ks) -> (k = KName i' \/ In k (refs_of s)) ->
                   In k (map KName (ids_kids ks ++ counters_kids ks))).
    { intros targets i' ou s A [B|B]; destruct (IH targets i' ou s A) as [C D].
      - subst k. apply in_map. apply in_or_app. left. exact C.
      - apply D. exact B. }
    destruct oc as [|n|c]; cbn [build_alt refs_of] in Hk; cbn [ids_of counters_of item_oc occ_counter app].
    + apply assemble_refs in Hk; [|apply incl_refl]. destruct Hk as [i' [ou [s [A B]]]].
      eapply incl_map; [|eapply Hkid; eauto]. incl_apps.
    + apply plain_refs in Hk. destruct Hk as [i' [ou [s [A B]]]].
      eapply incl_map; [|eapply Hkid; eauto]. incl_apps.
    + destruct Hk as [Hk|Hk].
      * subst k. apply in_map. cbn [app In]. right. apply in_or_app. right. left. reflexivity.
      * apply plain_refs in Hk. destruct Hk as [i' [ou [s [A B]]]].
        eapply incl_map; [|eapply Hkid; eauto]. incl_apps.
  - intros targets i ou s [].
  - intros x IHx xs IHxs targets i ou s Hin. rewrite kid_alts_cons in Hin. cbn [ids_kids counters_kids].
    destruct Hin as [Heq|Hin].
    + inversion Heq; subst. split; [apply in_or_app; left; apply item_id_in|].
      intros k Hk. eapply incl_map; [|apply IHx; exact Hk]. incl_apps.
    + destruct (IHxs targets i ou s Hin) as [A B]. split; [apply in_or_app; right; exact A|].
      intros k Hk. eapply incl_map; [|apply B; exact Hk]. incl_apps.
Qed.

Lemma refs_resolve t :
  build_raises t = false -> incl (counters_of t) (ids_of t) ->
  incl (refs_of (build t)) (anchors_of (build t)).
Proof.
  intros _ Hc k Hk. unfold build in *.
  apply (proj1 refs_are_names) in Hk. apply (proj1 ids_are_anchors).
  eapply incl_map; [|exact Hk]. intros z Hz. apply in_app_or in Hz as [Hz|Hz]; [exact Hz|apply Hc; exact Hz].
Qed.

(* oneOf never empty, member names of every properties object distinct *)
Lemma build_shape :
  (forall x, NoDup (ids_of x) -> shape_ok (build_alt x) = true)
  /\ (forall ks, NoDup (ids_kids ks) -> forall targets b, In b (kid_alts targets ks) -> shape_ok (b_js b) = true).
Proof.
  apply item_items_ind.
  - intros i sz oc redef _. destruct oc; reflexivity.
  - intros i oc redef ks IH Hnd. cbn [ids_of] in Hnd. inversion Hnd as [|? ? _ Hk]; subst.
    pose proof (NoDup_kid_ids ks Hk) as Hids.
    destruct oc as [|n|c]; cbn [build_alt shape_ok].
    + rewrite NoDup_nodup_keys by (apply assemble_keys_nodup; rewrite kid_alts_bid; exact Hids).
      cbn [andb]. apply assemble_shape; [apply incl_refl|apply IH; exact Hk].
    + rewrite plain_keys, <- map_map, kid_alts_bid.
      rewrite NoDup_nodup_keys by (apply NoDup_map_KName; exact Hids).
      cbn [andb]. apply plain_shape. apply IH; exact Hk.
    + rewrite plain_keys, <- map_map, kid_alts_bid.
      rewrite NoDup_nodup_keys by (apply NoDup_map_KName; exact Hids).
      cbn [andb]. apply plain_shape. apply IH; exact Hk.
  - intros _ targets b [].
  - intros x IHx xs IHxs Hnd targets b Hin. cbn [ids_kids] in Hnd. destruct (NoDup_app_parts _ _ Hnd) as [A [B _]].
    rewrite kid_alts_cons in Hin. destruct Hin as [Heq|Hin].
    + subst b. cbn [b_js snd]. apply IHx; exact A.
    + eapply IHxs; eauto.
Qed.

Lemma names_anchored (t : item) (i : id) : In i (ids_of t) -> In (KName i) (anchors_of (build t)).
Proof. intros H. apply (proj1 ids_are_anchors). apply in_map. exact H. Qed.

Lemma valid_shape_partial (t : item) : NoDup (ids_of t) -> build_raises t = false -> shape_ok (build t) = true.
Proof. intros H _. apply (proj1 build_shape). exact H. Qed.

(* ================================================================== part 3: no anchor declared twice *)
(* C01's development (Proofs/LayoutP.v) is used qualified: assemble_d is the children loop of
   build_json_schema without the accumulator, unions_ok the well-formedness of REDEFINES among siblings. *)
Require SR.Proofs.LayoutP.
Module L := SR.Proofs.LayoutP.

(* well-formed record descriptions for this property: REDEFINES among the children of a non-repeated group
   name an earlier sibling that is not itself a redefiner (L.unions_ok, as in C01), no REDEFINES inside a
   repeated group (there build_json_schema raises); OCCURS DEPENDING ON allowed anywhere *)
Fixpoint wf8 (e : env) (x : item) : bool :=
  match x with
  | Elem _ _ _ _ => true
  | Group _ oc _ ks =>
      wf8_kids e ks && L.unions_ok e [] ks
      && match oc with Once => true | _ => match redef_targets ks with [] => true | _ => false end end
  end
with wf8_kids (e : env) (ks : items) : bool :=
  match ks with INil => true | ICons x xs => wf8 e x && wf8_kids e xs end.

Lemma ids_bridge : (forall x, L.ids x = ids_of x) /\ (forall ks, L.ids_kids ks = ids_kids ks).
Proof.
  apply item_items_ind.
  - reflexivity.
  - intros i oc rd ks IH. simpl. f_equal. exact IH.
  - reflexivity.
  - intros x IHx xs IHxs. simpl. f_equal; [exact IHx|exact IHxs].
Qed.

Lemma keys_bridge :
  (forall s, L.keys_js s = anchors_of s) /\ (forall ps, L.keys_props ps = anchors_props ps)
  /\ (forall al, L.keys_alts al = anchors_alts al).
Proof.
  apply js_props_alts_ind; intros; cbn [L.keys_js L.keys_props L.keys_alts anchors_of anchors_props anchors_alts js_anchor L.opt_list];
    try match goal with |- context[match ?a with Some _ => _ | None => _ end] => destruct a end;
    cbn [L.opt_list app]; try reflexivity; try congruence.
Qed.

Lemma group_anchors e i oc rd ks :
  NoDup (L.ids_kids ks) -> wf8 e (Group i oc rd ks) = true ->
  anchors_of (build_alt (Group i oc rd ks)) = KName i :: anchors_props (L.assemble_d ks).
Proof.
  intros Hnd Hw. cbn [wf8] in Hw. apply andb_true_iff in Hw as [Hw Hoc]. apply andb_true_iff in Hw as [_ Hu].
  destruct oc as [|n|c].
  - rewrite (L.build_group_once e) by assumption. reflexivity.
  - destruct (redef_targets ks) eqn:Er; [|discriminate]. rewrite (L.no_redef_assemble ks Er). reflexivity.
  - destruct (redef_targets ks) eqn:Er; [|discriminate]. rewrite (L.no_redef_assemble ks Er). reflexivity.
Qed.

(* ---- counting occurrences ---- *)
Definition key_dec (a b : key) : {a = b} + {a <> b}.
Proof. decide equality; apply N.eq_dec. Defined.
Definition cnt (k : key) (l : list key) : nat := count_occ key_dec l k.

Lemma cnt_app k a b : cnt k (a ++ b) = (cnt k a + cnt k b)%nat.
Proof. apply count_occ_app. Qed.
Lemma cnt_cons k a l : cnt k (a :: l) = ((if key_dec a k then 1 else 0) + cnt k l)%nat.
Proof. unfold cnt. cbn [count_occ]. destruct (key_dec a k); reflexivity. Qed.
Lemma cnt_nil k : cnt k [] = 0%nat.
Proof. reflexivity. Qed.
Lemma cnt_notin k l : ~ In k l -> cnt k l = 0%nat.
Proof. apply count_occ_not_In. Qed.
Lemma cnt_pos_in k l : (0 < cnt k l)%nat -> In k l.
Proof. intros H. apply (count_occ_In key_dec). exact H. Qed.
Lemma cnt_nodup l : (forall k, (cnt k l <= 1)%nat) -> NoDup l.
Proof. intros H. apply (NoDup_count_occ key_dec). exact H. Qed.
Lemma nodup_cnt l k : NoDup l -> (cnt k l <= 1)%nat.
Proof. intros H. apply (NoDup_count_occ key_dec). exact H. Qed.

(* anchors of all children, each built on its own *)
Fixpoint F (ks : items) : list key :=
  match ks with INil => [] | ICons x xs => anchors_of (build_alt x) ++ F xs end.

(* anchors of the redefiners among xs whose target is one of B (items before xs) *)
Fixpoint Fout (B : list id) (xs : items) : list key :=
  match xs with
  | INil => []
  | ICons y ys =>
      match item_redef y with
      | Some u => if existsb (N.eqb u) B then anchors_of (build_alt y) ++ Fout B ys else Fout B ys
      | None => Fout B ys
      end
  end.

(* the REDEFINES-x anchors of one group *)
Fixpoint KR (xs : items) : list key :=
  match xs with
  | INil => []
  | ICons x ys =>
      match item_redef x with
      | Some _ => KR ys
      | None => if existsb (N.eqb (item_id x)) (redef_targets ys) then KRedef (item_id x) :: KR ys else KR ys
      end
  end.

Lemma Fout_nil xs : Fout [] xs = [].
Proof. induction xs as [|y ys IH]; [reflexivity|]. cbn [Fout existsb]. destruct (item_redef y); exact IH. Qed.

Lemma Fout_split k u B xs :
  ~ In u B ->
  cnt k (Fout (u :: B) xs) = (cnt k (anchors_alts (L.alts_red u xs)) + cnt k (Fout B xs))%nat.
Proof.
  intros Hu. induction xs as [|y ys IH]; [reflexivity|].
  cbn [Fout L.alts_red existsb]. destruct (item_redef y) as [u'|]; [|exact IH].
  destruct (N.eqb u u') eqn:E.
  - apply N.eqb_eq in E. subst u'. rewrite N.eqb_refl. cbn [orb].
    assert (existsb (N.eqb u) B = false) as ->.
    { destruct (existsb (N.eqb u) B) eqn:EB; [|reflexivity]. apply existsb_N_In in EB. contradiction. }
    cbn [anchors_alts]. rewrite !cnt_app, IH. lia.
  - assert (N.eqb u' u = false) as -> by (rewrite N.eqb_sym; exact E). cbn [orb].
    destruct (existsb (N.eqb u') B); [rewrite !cnt_app, IH; lia|exact IH].
Qed.

Lemma alts_red_none u xs : ~ In u (redef_targets xs) -> L.alts_red u xs = ANil.
Proof.
  induction xs as [|y ys IH]; intros H; [reflexivity|].
  cbn [L.alts_red redef_targets] in *. destruct (item_redef y) as [u'|].
  - destruct (N.eqb u u') eqn:E; [apply N.eqb_eq in E; subst; exfalso; apply H; left; reflexivity|].
    apply IH. intros Hin. apply H. right. exact Hin.
  - apply IH. exact H.
Qed.

(* the anchors of the children loop = the anchors of every child once + one REDEFINES-x per union *)
Lemma assemble_d_count k : forall xs B,
  L.sib_ok B xs = true -> NoDup (L.kid_ids xs) -> (forall u, In u B -> ~ In u (L.kid_ids xs)) ->
  (cnt k (anchors_props (L.assemble_d xs)) + cnt k (Fout B xs) = cnt k (F xs) + cnt k (KR xs))%nat.
Proof.
  induction xs as [|x xs IH]; intros B Hs Hnd HB; [reflexivity|].
  cbn [L.kid_ids] in Hnd. inversion Hnd as [|? ? Hx Hnd']; subst.
  cbn [L.sib_ok] in Hs. cbn [L.assemble_d Fout F KR].
  destruct (item_redef x) as [u|] eqn:Er.
  - apply andb_true_iff in Hs as [HuB Hs]. rewrite HuB.
    cbn [anchors_props anchors_of js_anchor app]. rewrite !cnt_app.
    specialize (IH B Hs Hnd' (fun u' Hu' Hin => HB u' Hu' (or_intror Hin))). lia.
  - assert (HxB : ~ In (item_id x) B) by (intros Hin; apply (HB _ Hin); left; reflexivity).
    assert (HB' : forall u, In u (item_id x :: B) -> ~ In u (L.kid_ids xs)).
    { intros u [<-|Hu]; [exact Hx|]. intros Hin. apply (HB u Hu). right. exact Hin. }
    specialize (IH (item_id x :: B) Hs Hnd' HB'). rewrite (Fout_split k (item_id x) B xs HxB) in IH.
    destruct (existsb (N.eqb (item_id x)) (redef_targets xs)) eqn:Et.
    + cbn [anchors_props anchors_of js_anchor anchors_alts app].
      repeat (rewrite cnt_cons || rewrite cnt_app || rewrite cnt_nil).
      destruct (key_dec (KRedef (item_id x)) k); lia.
    + assert (L.alts_red (item_id x) xs = ANil) as Ha.
      { apply alts_red_none. intros Hin. apply existsb_N_In in Hin. rewrite Hin in Et. discriminate. }
      rewrite Ha in IH. cbn [anchors_alts] in IH. rewrite cnt_nil in IH.
      cbn [anchors_props]. rewrite !cnt_app. lia.
Qed.

Lemma K_inv k l : In k (L.K l) -> exists j, In j l /\ (k = KName j \/ k = KRedef j).
Proof.
  unfold L.K. rewrite in_app_iff, !in_map_iff.
  intros [[j [E H]]|[j [E H]]]; exists j; split; auto.
Qed.
Lemma K_redef l i : In (KRedef i) (L.K l) <-> In i l.
Proof.
  split.
  - intros H. apply K_inv in H as [j [Hj [E|E]]]; [discriminate|inversion E; subst; exact Hj].
  - intros H. unfold L.K. apply in_or_app. right. apply in_map. exact H.
Qed.
Lemma K_disj a b k : NoDup (a ++ b) -> In k (L.K a) -> In k (L.K b) -> False.
Proof.
  intros Hnd Ha Hb. apply K_inv in Ha as [j [Hj Ej]]. apply K_inv in Hb as [j' [Hj' Ej']].
  assert (j = j') by (destruct Ej as [->| ->], Ej' as [E|E]; inversion E; reflexivity).
  subst j'. exact (L.NoDup_app_disj a b j Hnd Hj Hj').
Qed.

Definition triple (y : item) : Prop :=
  NoDup (anchors_of (build_alt y)) /\ incl (anchors_of (build_alt y)) (L.K (L.ids y))
  /\ ~ In (KRedef (item_id y)) (anchors_of (build_alt y)).

Lemma FK_count k : forall ks,
  NoDup (L.ids_kids ks) -> (forall y, L.in_kids y ks -> triple y) ->
  (cnt k (F ks) + cnt k (KR ks) <= 1)%nat
  /\ ((0 < cnt k (F ks) + cnt k (KR ks))%nat -> In k (L.K (L.ids_kids ks))).
Proof.
  induction ks as [|x xs IH]; intros Hnd Hk; [cbn; split; [lia|intros H; lia]|].
  cbn [L.ids_kids] in Hnd.
  destruct (Hk x (or_introl eq_refl)) as [Tn [Ti Tr]].
  destruct (IH (L.NoDup_app_r _ _ Hnd) (fun y Hy => Hk y (or_intror Hy))) as [B1 B2].
  pose proof (nodup_cnt _ k Tn) as Ha.
  assert (Hx0 : In k (L.K (L.ids x)) -> (cnt k (F xs) + cnt k (KR xs) = 0)%nat).
  { intros Hin. destruct (Nat.eq_dec (cnt k (F xs) + cnt k (KR xs)) 0) as [E|E]; [exact E|].
    exfalso. apply (K_disj _ _ k Hnd Hin). apply B2. lia. }
  assert (Hax : (0 < cnt k (anchors_of (build_alt x)))%nat -> In k (L.K (L.ids x))).
  { intros H. apply Ti. apply cnt_pos_in. exact H. }
  assert (Hroot : In (KRedef (item_id x)) (L.K (L.ids x))) by (apply K_redef; apply L.item_id_in_ids).
  assert (Hsup : In k (L.K (L.ids x)) \/ In k (L.K (L.ids_kids xs)) -> In k (L.K (L.ids x ++ L.ids_kids xs)))
    by (intros H; apply L.K_app; exact H).
  cbn [F KR L.ids_kids]. rewrite cnt_app.
  destruct (item_redef x) as [u|].
  - split.
    + destruct (Nat.eq_dec (cnt k (anchors_of (build_alt x))) 0) as [E|E]; [lia|].
      specialize (Hx0 (Hax ltac:(lia))). lia.
    + intros H. apply Hsup.
      destruct (Nat.eq_dec (cnt k (anchors_of (build_alt x))) 0) as [E|E]; [right; apply B2; lia|left; apply Hax; lia].
  - destruct (existsb (N.eqb (item_id x)) (redef_targets xs)).
    + rewrite cnt_cons. destruct (key_dec (KRedef (item_id x)) k) as [Ek|Ek].
      * subst k. rewrite (cnt_notin _ _ Tr). specialize (Hx0 Hroot). split; [lia|]. intros _. apply Hsup. left. exact Hroot.
      * split.
        -- destruct (Nat.eq_dec (cnt k (anchors_of (build_alt x))) 0) as [E|E]; [lia|].
           specialize (Hx0 (Hax ltac:(lia))). lia.
        -- intros H. apply Hsup.
           destruct (Nat.eq_dec (cnt k (anchors_of (build_alt x))) 0) as [E|E]; [right; apply B2; lia|left; apply Hax; lia].
    + split.
      * destruct (Nat.eq_dec (cnt k (anchors_of (build_alt x))) 0) as [E|E]; [lia|].
        specialize (Hx0 (Hax ltac:(lia))). lia.
      * intros H. apply Hsup.
        destruct (Nat.eq_dec (cnt k (anchors_of (build_alt x))) 0) as [E|E]; [right; apply B2; lia|left; apply Hax; lia].
Qed.

Lemma anchors_triple e :
  (forall x, wf8 e x = true -> NoDup (L.ids x) -> triple x)
  /\ (forall ks, wf8_kids e ks = true -> NoDup (L.ids_kids ks) -> forall y, L.in_kids y ks -> triple y).
Proof.
  apply item_items_ind.
  - intros i sz oc rd _ _. unfold triple.
    assert (anchors_of (build_alt (Elem i sz oc rd)) = [KName i]) as -> by (destruct oc; reflexivity).
    split; [repeat constructor; intros []|]. split.
    + intros k [<-|[]]. apply L.K_name. left. reflexivity.
    + intros [H|[]]. discriminate.
  - intros i oc rd ks IH Hw Hnd.
    assert (Hw' := Hw). cbn [wf8] in Hw'. apply andb_true_iff in Hw' as [Hw' _]. apply andb_true_iff in Hw' as [Hwk Hu].
    cbn [L.ids item_id] in Hnd. inversion Hnd as [|? ? Hi Hndk]; subst.
    specialize (IH Hwk Hndk).
    unfold triple. rewrite (group_anchors e i oc rd ks Hndk Hw). cbn [item_id L.ids].
    assert (Hincl : incl (anchors_props (L.assemble_d ks)) (L.K (L.ids_kids ks))).
    { rewrite <- (proj1 (proj2 keys_bridge)). apply L.keys_assemble_d.
      intros y Hy. rewrite (proj1 keys_bridge). apply (IH y Hy). }
    assert (Hcnt : forall k, (cnt k (anchors_props (L.assemble_d ks)) <= 1)%nat).
    { intros k.
      pose proof (assemble_d_count k ks [] (L.unions_sib_ok e [] ks Hu) (L.NoDup_ids_kid_ids ks Hndk) (fun u Hf => match Hf with end)) as Hc.
      rewrite Fout_nil, cnt_nil in Hc. destruct (FK_count k ks Hndk IH) as [B1 _]. lia. }
    split; [|split].
    + constructor; [|apply cnt_nodup; exact Hcnt].
      intros Hin. apply Hincl in Hin. apply L.K_name in Hin. contradiction.
    + intros k [<-|Hk]; [apply L.K_name; left; reflexivity|].
      apply (L.K_incl (L.ids_kids ks)); [apply incl_tl, incl_refl|apply Hincl; exact Hk].
    + intros [H|H]; [discriminate|]. apply Hincl in H. apply K_redef in H. contradiction.
  - intros _ _ y [].
  - intros x IHx xs IHxs Hw Hnd y Hy. cbn [wf8_kids] in Hw. apply andb_true_iff in Hw as [Hwx Hwxs].
    cbn [L.ids_kids] in Hnd. destruct Hy as [->|Hy].
    + apply IHx; [exact Hwx|exact (L.NoDup_app_l _ _ Hnd)].
    + apply IHxs; [exact Hwxs|exact (L.NoDup_app_r _ _ Hnd)|exact Hy].
Qed.

Lemma wf8_not_raises e :
  (forall x, wf8 e x = true -> build_raises x = false) /\ (forall ks, wf8_kids e ks = true -> kids_raise ks = false).
Proof.
  apply item_items_ind.
  - reflexivity.
  - intros i oc rd ks IH Hw. cbn [wf8] in Hw. apply andb_true_iff in Hw as [Hw Hoc]. apply andb_true_iff in Hw as [Hk _].
    cbn [build_raises]. rewrite (IH Hk), orb_false_r. destruct oc; [reflexivity| |]; destruct (redef_targets ks); try reflexivity; discriminate.
  - reflexivity.
  - intros x IHx xs IHxs Hw. cbn [wf8_kids] in Hw. apply andb_true_iff in Hw as [A B]. cbn [kids_raise]. rewrite (IHx A), (IHxs B). reflexivity.
Qed.

Lemma anchors_distinct e t : NoDup (ids_of t) -> wf8 e t = true -> NoDup (anchors_of (build t)).
Proof.
  intros Hnd Hw. rewrite <- (proj1 ids_bridge) in Hnd. exact (proj1 (proj1 (anchors_triple e) t Hw Hnd)).
Qed.

Lemma valid_shape_full e t : NoDup (ids_of t) -> wf8 e t = true -> valid_2020_12_shape (build t) = true.
Proof.
  intros Hnd Hw. unfold valid_2020_12_shape.
  rewrite (valid_shape_partial t Hnd (proj1 (wf8_not_raises e) t Hw)).
  rewrite (NoDup_nodup_keys _ (anchors_distinct e t Hnd Hw)). reflexivity.
Qed.
