(* Lemmas for C08. *)
From Coq Require Import ZArith NArith List Bool Lia Arith ZifyBool ZifyN ZifyNat.
Import ListNotations.
Require Import SR.Base.Res SR.Base.Dec SR.Gen.JsonTypeParams SR.Gen.EstructParams SR.Spec.Encode SR.Spec.Fits SR.Spec.SizeCfg
  SR.Spec.Layout SR.Model.Layout SR.Model.Estruct SR.Model.Conversion SR.Spec.SchemaTruth SR.Model.JsonType
  SR.Proofs.EstructP.
(* The definitions of this development that occur in theorem statements (Props/) live in Spec/JsonTypeWf.v (audit item G1).
   The abbreviations keep the qualified names JsonTypeP.name of other files resolving; they are parsing-only aliases. *)
Require Export SR.Spec.JsonTypeWf.
Notation wf8 := SR.Spec.JsonTypeWf.wf8 (only parsing).
Notation wf8_kids := SR.Spec.JsonTypeWf.wf8_kids (only parsing).
Open Scope N_scope.

(* ================================================================== part 1: one elementary item *)

Definition field_eqb (r : res field) (t e c sz : N) : bool :=
  match r with
  | Ok f => (f_type f =? t) && (f_enc f =? e) && (f_conv f =? c) && (f_min f =? sz) && (f_max f =? sz)
  | Err _ => false
  end.

Lemma field_eqb_eq r t e c sz : field_eqb r t e c sz = true -> r = Ok (mkfield t e c sz sz).
Proof.
  destruct r as [[a b c' d e']|]; cbn; [|discriminate].
  rewrite !andb_true_iff, !N.eqb_eq. intros [[[[-> ->] ->] ->] ->]. reflexivity.
Qed.

Definition oz_eqb (a b : option Z) : bool :=
  match a, b with Some x, Some y => Z.eqb x y | None, None => true | _, _ => false end.
Lemma oz_eqb_eq a b : oz_eqb a b = true -> a = b.
Proof. destruct a, b; cbn; try discriminate; auto. intros H; apply Z.eqb_eq in H; subst; auto. Qed.

Definition is_noneZ (o : option Z) : bool := match o with None => true | Some _ => false end.

Definition rep_flags : list (bool * bool) := [(false, false); (false, true); (true, false); (true, true)].

(* both generators, every spelling, sign, digit counts and way of writing the digit runs *)
Definition num_check (c : cfg) (r : bool * bool) : bool :=
  let '(u, s, m, n) := c in
  let p := PNum s m n (fst r) (snd r) in
  negb (is_noneZ (known_bad_C08 u p))
  || match spec_field u p, spec_field_ext u p with
     | Some (t, e, cv, sz, py), Some (tx, szx) =>
         field_eqb (emit_field u p) t e cv sz && oz_eqb (declared_pytype t cv) (Some py)
         && field_eqb (emit_field_ext u p) tx 0 0 szx
     | _, _ => false
     end.

Lemma num_enumeration : forallb (fun c => forallb (num_check c) rep_flags) cfgs = true.
Proof. vm_compute. reflexivity. Qed.

Lemma In_rep_flags a b : In (a, b) rep_flags.
Proof. destruct a, b; cbn; auto. Qed.

Lemma mem_spelling_lt13 u l : forallb (fun x => x <? 13) l = true -> mem_spelling u l = true -> u < 13.
Proof.
  unfold mem_spelling. intros Hl H. apply existsb_exists in H as [x [Hin Hx]].
  apply N.eqb_eq in Hx; subst x. rewrite forallb_forall in Hl. apply Hl in Hin. lia.
Qed.

Lemma spec_size_lt13 u s m n sz : spec_size u s m n = Some sz -> u < 13.
Proof.
  unfold spec_size. destruct (u =? display_spelling) eqn:E.
  - apply N.eqb_eq in E; subst; intros _; reflexivity.
  - destruct (mem_spelling u packed_spellings) eqn:E1; [intros _; eapply mem_spelling_lt13; [|exact E1]; reflexivity|].
    destruct (mem_spelling u binary_spellings) eqn:E2; [intros _; eapply mem_spelling_lt13; [|exact E2]; reflexivity|].
    destruct (mem_spelling u float4_spellings) eqn:E3; [intros _; eapply mem_spelling_lt13; [|exact E3]; reflexivity|].
    destruct (mem_spelling u float8_spellings) eqn:E4; [intros _; eapply mem_spelling_lt13; [|exact E4]; reflexivity|].
    discriminate.
Qed.

Lemma num_facts u s m n ri rf t e c sz py :
  wf_pic (PNum s m n ri rf) = true ->
  spec_field u (PNum s m n ri rf) = Some (t, e, c, sz, py) ->
  known_bad_C08 u (PNum s m n ri rf) = None ->
  emit_field u (PNum s m n ri rf) = Ok (mkfield t e c sz sz)
  /\ declared_pytype t c = Some py
  /\ exists tx, spec_field_ext u (PNum s m n ri rf) = Some (tx, sz)
                /\ emit_field_ext u (PNum s m n ri rf) = Ok (mkfield tx 0 0 sz sz).
Proof.
  intros Hwf Hspec Hk.
  assert (Hu : u < 13).
  { cbn [spec_field] in Hspec. destruct (spec_size u s m n) eqn:E; [|discriminate]. eapply spec_size_lt13; eauto. }
  assert (Hmn : (1 <= m + n <= 18)%nat).
  { cbn [wf_pic] in Hwf. apply andb_true_iff in Hwf as [A B]. apply Nat.leb_le in A, B. lia. }
  pose proof (cfgs_complete u s m n Hu Hmn) as Hin.
  pose proof num_enumeration as H. rewrite forallb_forall in H. specialize (H _ Hin).
  rewrite forallb_forall in H. specialize (H _ (In_rep_flags ri rf)).
  unfold num_check in H. cbn [fst snd] in H. rewrite Hk in H. cbn [is_noneZ negb orb] in H.
  rewrite Hspec in H.
  destruct (spec_field_ext u (PNum s m n ri rf)) as [[tx szx]|] eqn:Ex; [|discriminate].
  apply andb_true_iff in H as [H H3]. apply andb_true_iff in H as [H1 H2].
  assert (szx = sz).
  { unfold spec_field_ext in Ex. rewrite Hspec in Ex. inversion Ex; reflexivity. }
  subst szx.
  split; [apply field_eqb_eq; exact H1|]. split; [apply oz_eqb_eq; exact H2|].
  exists tx. split; [reflexivity|apply field_eqb_eq; exact H3].
Qed.

(* ---- text pictures: any length ---- *)

Lemma run_head c rep k : (1 <= k)%nat -> exists rest, run c rep k = c :: rest.
Proof.
  destruct k as [|k]; [lia|]. intros _. unfold run. destruct rep; [eexists; reflexivity|].
  cbn [repeat]. eexists; reflexivity.
Qed.

Lemma text_not_numeric chars up alpha k rep :
  (1 <= k)%nat -> mem 88 chars = false -> mem 65 chars = false ->
  numeric_text chars up (pic_text (PText alpha k rep)) = false.
Proof.
  intros Hk HX HA. cbn [pic_text].
  destruct (run_head (if alpha then 65 else 88) rep k Hk) as [rest ->].
  unfold numeric_text, all_in. cbn [forallb].
  assert (mem (if up then upper (if alpha then 65 else 88) else (if alpha then 65 else 88)) chars = false) as ->.
  { destruct up, alpha; cbn; assumption. }
  reflexivity.
Qed.

Lemma text_calcsize k : (1 <= k)%nat -> calcsize display_spelling (mkpic false k 0) = Ok (N.of_nat k).
Proof.
  intros Hk. unfold calcsize, picture_size. cbn [p_signed p_int p_frac].
  replace (0 + N.of_nat k + N.of_nat 0) with (N.of_nat k) by lia.
  destruct (N.of_nat k =? 0) eqn:E; [lia|]. reflexivity.
Qed.

Lemma text_facts u alpha k rep t e c sz py :
  wf_pic (PText alpha k rep) = true ->
  spec_field u (PText alpha k rep) = Some (t, e, c, sz, py) ->
  emit_field u (PText alpha k rep) = Ok (mkfield t e c sz sz)
  /\ declared_pytype t c = Some py
  /\ exists tx, spec_field_ext u (PText alpha k rep) = Some (tx, sz)
                /\ emit_field_ext u (PText alpha k rep) = Ok (mkfield tx 0 0 sz sz).
Proof.
  intros Hwf Hspec. cbn [wf_pic] in Hwf. apply Nat.leb_le in Hwf.
  cbn [spec_field] in Hspec. destruct (u =? display_spelling) eqn:E; [|discriminate].
  apply N.eqb_eq in E. subst u. inversion Hspec; subst. clear Hspec.
  split; [|split].
  - unfold emit_field, emit_with, json_type.
    change (mem display_spelling jt_display) with true. cbv iota.
    rewrite (text_not_numeric jt_numeric_chars jt_upper alpha k rep Hwf eq_refl eq_refl).
    cbn [est_pic]. rewrite (text_calcsize k Hwf). reflexivity.
  - reflexivity.
  - exists ty_string. split.
    + unfold spec_field_ext. cbn [spec_field]. change (display_spelling =? display_spelling) with true. reflexivity.
    + unfold emit_field_ext, emit_with, json_type_ext.
      change (mem display_spelling xt_display) with true. cbv iota.
      rewrite (text_not_numeric xt_numeric_chars xt_upper alpha k rep Hwf eq_refl eq_refl).
      cbn [est_pic]. rewrite (text_calcsize k Hwf). reflexivity.
Qed.

(* ---- the keywords: both kinds of picture ---- *)

Lemma truthful_keywords u p t e c sz py :
  wf_pic p = true -> spec_field u p = Some (t, e, c, sz, py) -> known_bad_C08 u p = None ->
  emit_field u p = Ok (mkfield t e c sz sz) /\ declared_pytype t c = Some py.
Proof.
  destruct p as [s m n ri rf|alpha k rep]; intros Hwf Hs Hk.
  - destruct (num_facts _ _ _ _ _ _ _ _ _ _ _ Hwf Hs Hk) as [A [B _]]. split; assumption.
  - destruct (text_facts _ _ _ _ _ _ _ _ _ Hwf Hs) as [A [B _]]. split; assumption.
Qed.

Lemma extended_keywords u p tx sz :
  wf_pic p = true -> spec_field_ext u p = Some (tx, sz) -> known_bad_C08 u p = None ->
  emit_field_ext u p = Ok (mkfield tx 0 0 sz sz).
Proof.
  intros Hwf Hx Hk.
  assert (exists t e c py, spec_field u p = Some (t, e, c, sz, py)) as [t [e [c [py Hs]]]].
  { unfold spec_field_ext in Hx. destruct (spec_field u p) as [[[[[t e] c] sz'] py]|]; [|discriminate].
    inversion Hx; subst. eauto. }
  destruct p as [s m n ri rf|alpha k rep].
  - destruct (num_facts _ _ _ _ _ _ _ _ _ _ _ Hwf Hs Hk) as [_ [_ [tx' [A B]]]].
    rewrite A in Hx. inversion Hx; subst. exact B.
  - destruct (text_facts _ _ _ _ _ _ _ _ _ Hwf Hs) as [_ [_ [tx' [A B]]]].
    rewrite A in Hx. inversion Hx; subst. exact B.
Qed.

(* ---- delivered values ---- *)

Lemma in_packed_not_display u : In u packed_spellings -> u <> display_spelling.
Proof. cbn. intros [H|[H|[H|[]]]]; subst; discriminate. Qed.
Lemma in_binary_not_display u : In u binary_spellings -> u <> display_spelling.
Proof. cbn. intros [H|[H|[H|[H|[H|[]]]]]]; subst; discriminate. Qed.

(* the conversion keyword the standard generator emits is absent or decimal - whatever the picture text *)
Lemma display_conv txt : exists t e c, json_type display_spelling txt = Ok (t, e, c) /\ (c = 0 \/ c = 6).
Proof.
  unfold json_type. change (mem display_spelling jt_display) with true. cbv iota.
  destruct (numeric_text jt_numeric_chars jt_upper txt).
  - exists 1, 1, 6. split; [reflexivity|right; reflexivity].
  - exists 1, 1, 0. split; [reflexivity|left; reflexivity].
Qed.

Lemma delivered u p f buffer t e c sz py :
  wf_pic p = true -> spec_field u p = Some (t, e, c, sz, py) -> emit_field u p = Ok f ->
  valid_record u p buffer -> delivered_type u p (f_conv f) buffer = Ok py.
Proof.
  intros Hwf Hs He Hv.
  destruct p as [s m n ri rf|alpha k rep].
  - cbn [wf_pic] in Hwf. apply andb_true_iff in Hwf as [W1 W2]. apply Nat.leb_le in W1, W2.
    cbn [valid_record] in Hv. destruct Hv as [[Hu Hv]|[[Hu Hv]|[Hu Hv]]].
    + (* zoned *)
      subst u. destruct Hv as [ds [z [Hd [Hz [Hl Hb]]]]]. subst buffer.
      assert (Hne : ds <> []). { intro; subst ds. unfold spec_display_width in Hl. cbn in Hl. destruct s; lia. }
      assert (Hlen : (length ds <= 28)%nat). { unfold spec_display_width in Hl. destruct s; lia. }
      unfold delivered_type. cbn [decode].
      rewrite (C02_zoned (mkpic s m n) ds z Hne Hd Hz Hlen). cbn [pytype_of].
      cbn [spec_field] in Hs. destruct (spec_size display_spelling s m n); [|discriminate].
      change (display_spelling =? display_spelling) with true in Hs. cbv iota in Hs. inversion Hs; subst.
      unfold emit_field, emit_with in He.
      destruct (display_conv (pic_text (PNum s m n ri rf))) as [t' [e' [c' [Hj Hc]]]].
      rewrite Hj in He. destruct (calcsize display_spelling (est_pic (PNum s m n ri rf))); [|discriminate].
      inversion He; subst f. cbn [f_conv]. destruct Hc; subst c'; reflexivity.
    + (* packed *)
      destruct Hv as [ds [sg [Hd [Hz [Hl Hb]]]]]. subst buffer.
      assert (Hlen : (length ds <= 28)%nat) by lia.
      unfold delivered_type. cbn [decode].
      rewrite (C02_packed u (mkpic s m n) ds sg Hu Hd Hz Hlen). cbn [pytype_of].
      pose proof (in_packed_not_display u Hu) as Hnd.
      cbn in Hu. destruct Hu as [Hu|[Hu|[Hu|[]]]]; subst u;
        (cbn [spec_field] in Hs; destruct (spec_size _ s m n); [|discriminate]; cbn in Hs; inversion Hs; subst;
         unfold emit_field, emit_with in He; cbn in He;
         match type of He with context[calcsize ?a ?b] => destruct (calcsize a b) end; [|discriminate];
         inversion He; subst f; reflexivity).
    + (* binary *)
      destruct Hv as [w [v [Hw [Hr Hb]]]]. subst buffer.
      unfold delivered_type. cbn [decode].
      rewrite (C02_binary u (mkpic s m n) w v Hu Hw Hr). cbn [pytype_of].
      cbn in Hu. destruct Hu as [Hu|[Hu|[Hu|[Hu|[Hu|[]]]]]]; subst u;
        (cbn [spec_field] in Hs; destruct (spec_size _ s m n); [|discriminate]; cbn in Hs; inversion Hs; subst;
         unfold emit_field, emit_with in He; cbn in He;
         match type of He with context[calcsize ?a ?b] => destruct (calcsize a b) end; [|discriminate];
         inversion He; subst f; reflexivity).
  - cbn [valid_record] in Hv. destruct Hv as [Hu [Hl _]]. subst u.
    cbn [wf_pic] in Hwf. apply Nat.leb_le in Hwf.
    unfold delivered_type. cbn [decode]. rewrite (C02_text k buffer Hl). cbn [pytype_of].
    destruct (text_facts display_spelling alpha k rep t e c sz py) as [A _].
    { cbn [wf_pic]. apply Nat.leb_le. exact Hwf. }
    { exact Hs. }
    rewrite A in He. inversion He; subst f. cbn [f_conv].
    cbn [spec_field] in Hs. change (display_spelling =? display_spelling) with true in Hs. cbv iota in Hs.
    inversion Hs; subst. reflexivity.
Qed.

(* COMP-1 / COMP-2: no decoder branch at all *)
Lemma float_no_decoder u s m n ri rf conv buffer :
  is_float_spelling u = true -> delivered_type u (PNum s m n ri rf) conv buffer = Err RuntimeError.
Proof.
  unfold is_float_spelling, mem_spelling. cbn [existsb float4_spellings float8_spellings].
  intros H. unfold delivered_type. cbn [decode].
  assert (u = 1 \/ u = 6 \/ u = 2 \/ u = 7) as Hu.
  { repeat rewrite orb_false_r in H. apply orb_true_iff in H as [H|H]; apply orb_true_iff in H as [H|H];
      apply N.eqb_eq in H; auto. }
  destruct Hu as [Hu|[Hu|[Hu|Hu]]]; subst u; reflexivity.
Qed.

(* ================================================================== part 2: the schema tree *)

Lemma key_eqb_eq a b : key_eqb a b = true <-> a = b.
Proof.
  destruct a, b; cbn; split; intros H; try discriminate; try (apply N.eqb_eq in H; subst; reflexivity);
    inversion H; subst; apply N.eqb_refl.
Qed.

Lemma existsb_key_In k l : existsb (key_eqb k) l = true <-> In k l.
Proof.
  rewrite existsb_exists. split.
  - intros [x [Hin Hx]]. apply key_eqb_eq in Hx. subst. exact Hin.
  - intros H. exists k. split; [exact H|apply key_eqb_eq; reflexivity].
Qed.

Lemma NoDup_nodup_keys l : NoDup l -> nodup_keys l = true.
Proof.
  induction 1 as [|k l Hn Hd IH]; [reflexivity|]. cbn [nodup_keys]. rewrite IH, andb_true_r.
  destruct (existsb (key_eqb k) l) eqn:E; [|reflexivity]. apply existsb_key_In in E. contradiction.
Qed.

Lemma existsb_N_In u l : existsb (N.eqb u) l = true <-> In u l.
Proof.
  rewrite existsb_exists. split.
  - intros [x [Hin Hx]]. apply N.eqb_eq in Hx. subst. exact Hin.
  - intros H. exists u. split; [exact H|apply N.eqb_refl].
Qed.

Definition b_id (b : built) : id := fst (fst b).
Definition b_union (b : built) : option id := snd (fst b).
Definition b_js (b : built) : js := snd b.

(* ---- alternatives of a union ---- *)

Lemma alts_of_anchor u all : forall i s k,
  In (i, Some u, s) all -> In k (anchors_of s) -> In k (anchors_alts (alts_of u all)).
Proof.
  induction all as [|[[i0 ou0] s0] r IH]; intros i s k Hin Hk; [destruct Hin|].
  cbn [alts_of]. destruct Hin as [Heq|Hin].
  - inversion Heq; subst. rewrite N.eqb_refl. cbn [anchors_alts]. apply in_or_app. left. exact Hk.
  - destruct ou0 as [u'|]; [destruct (N.eqb u u')|]; try (cbn [anchors_alts]; apply in_or_app; right); eapply IH; eauto.
Qed.

Lemma alts_of_refs u all : forall k,
  In k (refs_alts (alts_of u all)) -> exists i s, In (i, Some u, s) all /\ In k (refs_of s).
Proof.
  induction all as [|[[i0 ou0] s0] r IH]; intros k Hk; [destruct Hk|].
  cbn [alts_of] in Hk. destruct ou0 as [u'|].
  - destruct (N.eqb u u') eqn:E.
    + apply N.eqb_eq in E. subst u'. cbn [refs_alts] in Hk. apply in_app_or in Hk as [Hk|Hk].
      * exists i0, s0. split; [left; reflexivity|exact Hk].
      * destruct (IH k Hk) as [i [s [A B]]]. exists i, s. split; [right; exact A|exact B].
    + destruct (IH k Hk) as [i [s [A B]]]. exists i, s. split; [right; exact A|exact B].
  - destruct (IH k Hk) as [i [s [A B]]]. exists i, s. split; [right; exact A|exact B].
Qed.

Lemma alts_of_shape u all :
  (forall b, In b all -> shape_ok (b_js b) = true) -> shape_alts (alts_of u all) = true.
Proof.
  induction all as [|[[i0 ou0] s0] r IH]; intros H; [reflexivity|].
  cbn [alts_of]. assert (Hr : forall b, In b r -> shape_ok (b_js b) = true) by (intros; apply H; right; assumption).
  destruct ou0 as [u'|]; [destruct (N.eqb u u')|]; try (apply IH; exact Hr).
  cbn [shape_alts]. rewrite (H (i0, Some u', s0) (or_introl eq_refl) : shape_ok s0 = true). cbn [andb]. apply IH; exact Hr.
Qed.

Lemma alts_of_nonempty u all i s : In (i, Some u, s) all -> alts_of u all <> ANil.
Proof.
  induction all as [|[[i0 ou0] s0] r IH]; intros Hin; [destruct Hin|].
  cbn [alts_of]. destruct Hin as [Heq|Hin].
  - inversion Heq; subst. rewrite N.eqb_refl. discriminate.
  - destruct ou0 as [u'|]; [destruct (N.eqb u u')|]; try discriminate; apply IH; exact Hin.
Qed.

(* ---- assemble: the ordered properties of a group ---- *)

Lemma assemble_anchor all : forall bs E i ou s k,
  incl bs all -> In (i, ou, s) bs -> In k (anchors_of s) ->
  match ou with None => True | Some u => existsb (N.eqb u) E = false end ->
  In k (anchors_props (assemble all E bs)).
Proof.
  induction bs as [|[[i0 ou0] s0] r IH]; intros E i ou s k Hincl Hin Hk Hc; [destruct Hin|].
  assert (Hr : incl r all) by (intros x Hx; apply Hincl; right; exact Hx).
  assert (Hall : In (i, ou, s) all) by (apply Hincl; exact Hin).
  cbn [assemble]. destruct ou0 as [u0|].
  - destruct (existsb (N.eqb u0) E) eqn:EE.
    + cbn [anchors_props anchors_of js_anchor app]. destruct Hin as [Heq|Hin].
      * inversion Heq; subst. rewrite EE in Hc. discriminate.
      * eapply IH; eauto.
    + cbn [anchors_props]. destruct ou as [u|].
      * destruct (N.eqb u u0) eqn:Eu.
        -- apply N.eqb_eq in Eu. subst u0. apply in_or_app. left.
           cbn [anchors_of js_anchor]. apply in_or_app. right. eapply alts_of_anchor; eauto.
        -- apply in_or_app. right. cbn [anchors_of js_anchor app]. destruct Hin as [Heq|Hin].
           ++ inversion Heq; subst. rewrite N.eqb_refl in Eu. discriminate.
           ++ eapply IH; eauto. cbn [existsb]. rewrite Eu, Hc. reflexivity.
      * apply in_or_app. right. cbn [anchors_of js_anchor app]. destruct Hin as [Heq|Hin]; [inversion Heq|].
        eapply IH; eauto.
  - cbn [anchors_props]. destruct Hin as [Heq|Hin].
    + inversion Heq; subst. apply in_or_app. left. exact Hk.
    + apply in_or_app. right. eapply IH; eauto.
Qed.

Lemma assemble_refs all : forall bs E k,
  incl bs all -> In k (refs_props (assemble all E bs)) ->
  exists i ou s, In (i, ou, s) all /\ (k = KName i \/ In k (refs_of s)).
Proof.
  induction bs as [|[[i0 ou0] s0] r IH]; intros E k Hincl Hk; [destruct Hk|].
  assert (Hr : incl r all) by (intros x Hx; apply Hincl; right; exact Hx).
  assert (H0 : In (i0, ou0, s0) all) by (apply Hincl; left; reflexivity).
  cbn [assemble] in Hk. destruct ou0 as [u0|].
  - destruct (existsb (N.eqb u0) E).
    + cbn [refs_props refs_of app] in Hk. destruct Hk as [Hk|Hk].
      * exists i0, (Some u0), s0. split; [exact H0|left; symmetry; exact Hk].
      * eapply IH; eauto.
    + cbn [refs_props refs_of] in Hk. apply in_app_or in Hk as [Hk|Hk].
      * destruct (alts_of_refs _ _ _ Hk) as [i [s [A B]]]. exists i, (Some u0), s. split; [exact A|right; exact B].
      * cbn [app] in Hk. destruct Hk as [Hk|Hk].
        -- exists i0, (Some u0), s0. split; [exact H0|left; symmetry; exact Hk].
        -- eapply IH; eauto.
  - cbn [refs_props] in Hk. apply in_app_or in Hk as [Hk|Hk].
    + exists i0, None, s0. split; [exact H0|right; exact Hk].
    + eapply IH; eauto.
Qed.

Lemma assemble_keys all : forall bs E k,
  In k (prop_keys (assemble all E bs)) ->
  (exists i, k = KName i /\ In i (map b_id bs)) \/ (exists u, k = KRedef u /\ existsb (N.eqb u) E = false).
Proof.
  induction bs as [|[[i0 ou0] s0] r IH]; intros E k Hk; [destruct Hk|].
  cbn [assemble] in Hk. cbn [map b_id fst].
  assert (Hlift : forall E', ((exists i, k = KName i /\ In i (map b_id r)) \/ (exists u, k = KRedef u /\ existsb (N.eqb u) E' = false)) ->
                  (forall u, existsb (N.eqb u) E' = false -> existsb (N.eqb u) E = false) ->
                  (exists i, k = KName i /\ (i0 = i \/ In i (map b_id r))) \/ (exists u, k = KRedef u /\ existsb (N.eqb u) E = false)).
  { intros E' [[i [A B]]|[u [A B]]] Hm; [left; exists i; split; [exact A|right; exact B]|right; exists u; split; [exact A|apply Hm; exact B]]. }
  destruct ou0 as [u0|].
  - destruct (existsb (N.eqb u0) E) eqn:EE.
    + cbn [prop_keys] in Hk. destruct Hk as [Hk|Hk].
      * left. exists i0. split; [symmetry; exact Hk|left; reflexivity].
      * apply (Hlift E); [apply IH; exact Hk|auto].
    + cbn [prop_keys] in Hk. destruct Hk as [Hk|[Hk|Hk]].
      * right. exists u0. split; [symmetry; exact Hk|exact EE].
      * left. exists i0. split; [symmetry; exact Hk|left; reflexivity].
      * apply (Hlift (u0 :: E)); [apply IH; exact Hk|].
        intros u Hu. cbn [existsb] in Hu. apply orb_false_iff in Hu as [_ Hu]. exact Hu.
  - cbn [prop_keys] in Hk. destruct Hk as [Hk|Hk].
    + left. exists i0. split; [symmetry; exact Hk|left; reflexivity].
    + apply (Hlift E); [apply IH; exact Hk|auto].
Qed.

Lemma assemble_keys_nodup all : forall bs E, NoDup (map b_id bs) -> NoDup (prop_keys (assemble all E bs)).
Proof.
  induction bs as [|[[i0 ou0] s0] r IH]; intros E Hnd; [constructor|].
  cbn [map b_id fst] in Hnd. inversion Hnd as [|? ? Hni Hnr]; subst.
  assert (Hname : forall E', ~ In (KName i0) (prop_keys (assemble all E' r))).
  { intros E' Hin. apply assemble_keys in Hin as [[i [A B]]|[u [A B]]]; [inversion A; subst; contradiction|discriminate]. }
  cbn [assemble]. destruct ou0 as [u0|].
  - destruct (existsb (N.eqb u0) E) eqn:EE.
    + cbn [prop_keys]. constructor; [apply Hname|apply IH; exact Hnr].
    + cbn [prop_keys]. constructor.
      * intros [Hin|Hin]; [discriminate|].
        apply assemble_keys in Hin as [[i [A B]]|[u [A B]]]; [discriminate|].
        inversion A; subst. cbn [existsb] in B. rewrite N.eqb_refl in B. discriminate.
      * constructor; [apply Hname|apply IH; exact Hnr].
  - cbn [prop_keys]. constructor; [apply Hname|apply IH; exact Hnr].
Qed.

Lemma assemble_shape all : forall bs E,
  incl bs all -> (forall b, In b all -> shape_ok (b_js b) = true) -> shape_props (assemble all E bs) = true.
Proof.
  induction bs as [|[[i0 ou0] s0] r IH]; intros E Hincl Hs; [reflexivity|].
  assert (Hr : incl r all) by (intros x Hx; apply Hincl; right; exact Hx).
  assert (H0 : In (i0, ou0, s0) all) by (apply Hincl; left; reflexivity).
  cbn [assemble]. destruct ou0 as [u0|].
  - destruct (existsb (N.eqb u0) E).
    + cbn [shape_props shape_ok]. apply IH; assumption.
    + cbn [shape_props shape_ok]. rewrite (alts_of_shape u0 all Hs), (IH (u0 :: E) Hr Hs).
      destruct (alts_of u0 all) eqn:EA; [exfalso; eapply alts_of_nonempty; eauto|reflexivity].
  - cbn [shape_props]. rewrite (Hs _ H0 : shape_ok s0 = true). apply IH; assumption.
Qed.

(* ---- plain: the properties of a repeated group ---- *)

Lemma plain_anchor : forall bs i ou s k, In (i, ou, s) bs -> In k (anchors_of s) -> In k (anchors_props (plain bs)).
Proof.
  induction bs as [|[[i0 ou0] s0] r IH]; intros i ou s k Hin Hk; [destruct Hin|].
  cbn [plain anchors_props]. apply in_or_app. destruct Hin as [Heq|Hin]; [inversion Heq; subst; left; exact Hk|right; eapply IH; eauto].
Qed.

Lemma plain_refs : forall bs k, In k (refs_props (plain bs)) -> exists i ou s, In (i, ou, s) bs /\ In k (refs_of s).
Proof.
  induction bs as [|[[i0 ou0] s0] r IH]; intros k Hk; [destruct Hk|].
  cbn [plain refs_props] in Hk. apply in_app_or in Hk as [Hk|Hk].
  - exists i0, ou0, s0. split; [left; reflexivity|exact Hk].
  - destruct (IH k Hk) as [i [ou [s [A B]]]]. exists i, ou, s. split; [right; exact A|exact B].
Qed.

Lemma plain_keys : forall bs, prop_keys (plain bs) = map (fun b => KName (b_id b)) bs.
Proof. induction bs as [|[[i0 ou0] s0] r IH]; [reflexivity|]. cbn [plain prop_keys map b_id fst]. rewrite IH. reflexivity. Qed.

Lemma plain_shape : forall bs, (forall b, In b bs -> shape_ok (b_js b) = true) -> shape_props (plain bs) = true.
Proof.
  induction bs as [|[[i0 ou0] s0] r IH]; intros H; [reflexivity|].
  cbn [plain shape_props]. rewrite (H (i0, ou0, s0) (or_introl eq_refl) : shape_ok s0 = true). apply IH. intros; apply H; right; assumption.
Qed.

(* ---- build ---- *)

Lemma kid_alts_cons targets x xs :
  kid_alts targets (ICons x xs) = (item_id x, union_of targets x, build_alt x) :: kid_alts targets xs.
Proof. reflexivity. Qed.

Fixpoint kid_ids (ks : items) : list id :=
  match ks with INil => [] | ICons x xs => item_id x :: kid_ids xs end.

Lemma kid_alts_bid targets ks : map b_id (kid_alts targets ks) = kid_ids ks.
Proof. induction ks as [|x xs IH]; [reflexivity|]. rewrite kid_alts_cons. cbn [map b_id fst kid_ids]. rewrite IH. reflexivity. Qed.

Lemma item_id_in x : In (item_id x) (ids_of x).
Proof. destruct x; cbn; auto. Qed.

Lemma kid_ids_incl ks : incl (kid_ids ks) (ids_kids ks).
Proof.
  induction ks as [|x xs IH]; intros z Hz; [destruct Hz|].
  cbn [kid_ids] in Hz. cbn [ids_kids]. apply in_or_app. destruct Hz as [Hz|Hz]; [left; subst; apply item_id_in|right; apply IH; exact Hz].
Qed.

Lemma NoDup_app_parts {T} (a b : list T) : NoDup (a ++ b) -> NoDup a /\ NoDup b /\ (forall x, In x a -> ~ In x b).
Proof.
  induction a as [|h a IH]; cbn [app]; intros H.
  - split; [constructor|]. split; [exact H|]. intros x [].
  - inversion H as [|? ? Hn Hd]; subst. destruct (IH Hd) as [A [B C]]. split; [|split].
    + constructor; [|exact A]. intros Hin. apply Hn. apply in_or_app. left. exact Hin.
    + exact B.
    + intros x [Hx|Hx]; [subst; intros Hb; apply Hn; apply in_or_app; right; exact Hb|apply C; exact Hx].
Qed.

Lemma NoDup_kid_ids ks : NoDup (ids_kids ks) -> NoDup (kid_ids ks).
Proof.
  induction ks as [|x xs IH]; intros H; [constructor|].
  cbn [ids_kids] in H. destruct (NoDup_app_parts _ _ H) as [A [B C]]. cbn [kid_ids]. constructor; [|apply IH; exact B].
  intros Hin. apply (C (item_id x) (item_id_in x)). apply kid_ids_incl. exact Hin.
Qed.

Lemma NoDup_map_KName l : NoDup l -> NoDup (map KName l).
Proof.
  induction 1 as [|x l Hn Hd IH]; [constructor|]. cbn [map]. constructor; [|exact IH].
  intros Hin. apply in_map_iff in Hin as [y [Hy Hin]]. inversion Hy; subst. contradiction.
Qed.

(* every name of the record description is an anchor of the generated schema *)
Lemma ids_are_anchors :
  (forall x k, In k (map KName (ids_of x)) -> In k (anchors_of (build_alt x)))
  /\ (forall ks targets k, In k (map KName (ids_kids ks)) ->
        exists i ou s, In (i, ou, s) (kid_alts targets ks) /\ In k (anchors_of s)).
Proof.
  apply item_items_ind.
  - intros i sz oc redef k Hk. cbn [ids_of map In] in Hk. destruct Hk as [Hk|[]]. subst k.
    destruct oc; cbn; auto.
  - intros i oc redef ks IH k Hk. cbn [ids_of map In] in Hk. destruct Hk as [Hk|Hk].
    + subst k. destruct oc; cbn; auto.
    + destruct oc as [|n|c]; cbn [build_alt].
      * destruct (IH (redef_targets ks) k Hk) as [i' [ou [s [A B]]]].
        cbn [anchors_of js_anchor]. apply in_or_app. right.
        eapply assemble_anchor; [apply incl_refl|exact A|exact B|destruct ou; [reflexivity|exact I]].
      * destruct (IH [] k Hk) as [i' [ou [s [A B]]]].
        cbn [anchors_of js_anchor app]. right. cbn [anchors_of js_anchor app]. eapply plain_anchor; eauto.
      * destruct (IH [] k Hk) as [i' [ou [s [A B]]]].
        cbn [anchors_of js_anchor app]. right. cbn [anchors_of js_anchor app]. eapply plain_anchor; eauto.
  - intros targets k [].
  - intros x IHx xs IHxs targets k Hk. cbn [ids_kids] in Hk. rewrite map_app in Hk. rewrite kid_alts_cons.
    apply in_app_or in Hk as [Hk|Hk].
    + exists (item_id x), (union_of targets x), (build_alt x). split; [left; reflexivity|apply IHx; exact Hk].
    + destruct (IHxs targets k Hk) as [i [ou [s [A B]]]]. exists i, ou, s. split; [right; exact A|exact B].
Qed.

Ltac incl_apps := intros ? ?; repeat (rewrite in_app_iff in * || cbn [In] in * ); tauto.

(* every $ref and every maxItemsDependsOn names an entry or a DEPENDING ON counter of the description *)
Lemma refs_are_names :
  (forall x k, In k (refs_of (build_alt x)) -> In k (map KName (ids_of x ++ counters_of x)))
  /\ (forall ks targets i ou s, In (i, ou, s) (kid_alts targets ks) ->
        In i (ids_kids ks) /\ forall k, In k (refs_of s) -> In k (map KName (ids_kids ks ++ counters_kids ks))).
Proof.
  apply item_items_ind.
  - intros i sz oc redef k Hk. destruct oc; cbn in Hk |- *; tauto.
  - intros i oc redef ks IH k Hk.
    assert (Hkid : forall targets i' ou s, In (i', ou, s) (kid_alts targets ks) -> (k = KName i' \/ In k (refs_of s)) ->
                   In k (map KName (ids_kids ks ++ counters_kids ks))).
    { intros targets i' ou s A [B|B]; destruct (IH targets i' ou s A) as [C D].
      - subst k. apply in_map. apply in_or_app. left. exact C.
      - apply D. exact B. }
    destruct oc as [|n|c]; cbn [build_alt refs_of] in Hk; cbn [ids_of counters_of item_oc occ_counter app].
    + apply assemble_refs in Hk; [|apply incl_refl]. destruct Hk as [i' [ou [s [A B]]]].
      eapply incl_map; [|eapply Hkid; eauto]. incl_apps.
    + apply plain_refs in Hk. destruct Hk as [i' [ou [s [A B]]]].
      eapply incl_map; [|eapply Hkid; eauto]. incl_apps.
    + destruct Hk as [Hk|Hk].
      * subst k. apply in_map. cbn [app In]. right. apply in_or_app. right. left. reflexivity.
      * apply plain_refs in Hk. destruct Hk as [i' [ou [s [A B]]]].
        eapply incl_map; [|eapply Hkid; eauto]. incl_apps.
  - intros targets i ou s [].
  - intros x IHx xs IHxs targets i ou s Hin. rewrite kid_alts_cons in Hin. cbn [ids_kids counters_kids].
    destruct Hin as [Heq|Hin].
    + inversion Heq; subst. split; [apply in_or_app; left; apply item_id_in|].
      intros k Hk. eapply incl_map; [|apply IHx; exact Hk]. incl_apps.
    + destruct (IHxs targets i ou s Hin) as [A B]. split; [apply in_or_app; right; exact A|].
      intros k Hk. eapply incl_map; [|apply B; exact Hk]. incl_apps.
Qed.

Lemma refs_resolve t :
  build_raises t = false -> incl (counters_of t) (ids_of t) ->
  incl (refs_of (build t)) (anchors_of (build t)).
Proof.
  intros _ Hc k Hk. unfold build in *.
  apply (proj1 refs_are_names) in Hk. apply (proj1 ids_are_anchors).
  eapply incl_map; [|exact Hk]. intros z Hz. apply in_app_or in Hz as [Hz|Hz]; [exact Hz|apply Hc; exact Hz].
Qed.

(* oneOf never empty, member names of every properties object distinct *)
Lemma build_shape :
  (forall x, NoDup (ids_of x) -> shape_ok (build_alt x) = true)
  /\ (forall ks, NoDup (ids_kids ks) -> forall targets b, In b (kid_alts targets ks) -> shape_ok (b_js b) = true).
Proof.
  apply item_items_ind.
  - intros i sz oc redef _. destruct oc; reflexivity.
  - intros i oc redef ks IH Hnd. cbn [ids_of] in Hnd. inversion Hnd as [|? ? _ Hk]; subst.
    pose proof (NoDup_kid_ids ks Hk) as Hids.
    destruct oc as [|n|c]; cbn [build_alt shape_ok].
    + rewrite NoDup_nodup_keys by (apply assemble_keys_nodup; rewrite kid_alts_bid; exact Hids).
      cbn [andb]. apply assemble_shape; [apply incl_refl|apply IH; exact Hk].
    + rewrite plain_keys, <- map_map, kid_alts_bid.
      rewrite NoDup_nodup_keys by (apply NoDup_map_KName; exact Hids).
      cbn [andb]. apply plain_shape. apply IH; exact Hk.
    + rewrite plain_keys, <- map_map, kid_alts_bid.
      rewrite NoDup_nodup_keys by (apply NoDup_map_KName; exact Hids).
      cbn [andb]. apply plain_shape. apply IH; exact Hk.
  - intros _ targets b [].
  - intros x IHx xs IHxs Hnd targets b Hin. cbn [ids_kids] in Hnd. destruct (NoDup_app_parts _ _ Hnd) as [A [B _]].
    rewrite kid_alts_cons in Hin. destruct Hin as [Heq|Hin].
    + subst b. cbn [b_js snd]. apply IHx; exact A.
    + eapply IHxs; eauto.
Qed.

Lemma names_anchored (t : item) (i : id) : In i (ids_of t) -> In (KName i) (anchors_of (build t)).
Proof. intros H. apply (proj1 ids_are_anchors). apply in_map. exact H. Qed.

Lemma valid_shape_partial (t : item) : NoDup (ids_of t) -> build_raises t = false -> shape_ok (build t) = true.
Proof. intros H _. apply (proj1 build_shape). exact H. Qed.

(* ================================================================== part 3: no anchor declared twice *)
(* C01's development (Proofs/LayoutP.v) is used qualified: assemble_d is the children loop of
   build_json_schema without the accumulator, unions_ok the well-formedness of REDEFINES among siblings. *)
Require SR.Proofs.LayoutP.
Module L := SR.Proofs.LayoutP.

Lemma ids_bridge : (forall x, L.ids x = ids_of x) /\ (forall ks, L.ids_kids ks = ids_kids ks).
Proof.
  apply item_items_ind.
  - reflexivity.
  - intros i oc rd ks IH. simpl. f_equal. exact IH.
  - reflexivity.
  - intros x IHx xs IHxs. simpl. f_equal; [exact IHx|exact IHxs].
Qed.

Lemma keys_bridge :
  (forall s, L.keys_js s = anchors_of s) /\ (forall ps, L.keys_props ps = anchors_props ps)
  /\ (forall al, L.keys_alts al = anchors_alts al).
Proof.
  apply js_props_alts_ind; intros; cbn [L.keys_js L.keys_props L.keys_alts anchors_of anchors_props anchors_alts js_anchor L.opt_list];
    try match goal with |- context[match ?a with Some _ => _ | None => _ end] => destruct a end;
    cbn [L.opt_list app]; try reflexivity; try congruence.
Qed.

Lemma group_anchors e i oc rd ks :
  NoDup (L.ids_kids ks) -> wf8 e (Group i oc rd ks) = true ->
  anchors_of (build_alt (Group i oc rd ks)) = KName i :: anchors_props (L.assemble_d ks).
Proof.
  intros Hnd Hw. cbn [wf8] in Hw. apply andb_true_iff in Hw as [Hw Hoc]. apply andb_true_iff in Hw as [_ Hu].
  destruct oc as [|n|c].
  - rewrite (L.build_group_once e) by assumption. reflexivity.
  - destruct (redef_targets ks) eqn:Er; [|discriminate]. rewrite (L.no_redef_assemble ks Er). reflexivity.
  - destruct (redef_targets ks) eqn:Er; [|discriminate]. rewrite (L.no_redef_assemble ks Er). reflexivity.
Qed.

(* ---- counting occurrences ---- *)
Definition key_dec (a b : key) : {a = b} + {a <> b}.
Proof. decide equality; apply N.eq_dec. Defined.
Definition cnt (k : key) (l : list key) : nat := count_occ key_dec l k.

Lemma cnt_app k a b : cnt k (a ++ b) = (cnt k a + cnt k b)%nat.
Proof. apply count_occ_app. Qed.
Lemma cnt_cons k a l : cnt k (a :: l) = ((if key_dec a k then 1 else 0) + cnt k l)%nat.
Proof. unfold cnt. cbn [count_occ]. destruct (key_dec a k); reflexivity. Qed.
Lemma cnt_nil k : cnt k [] = 0%nat.
Proof. reflexivity. Qed.
Lemma cnt_notin k l : ~ In k l -> cnt k l = 0%nat.
Proof. apply count_occ_not_In. Qed.
Lemma cnt_pos_in k l : (0 < cnt k l)%nat -> In k l.
Proof. intros H. apply (count_occ_In key_dec). exact H. Qed.
Lemma cnt_nodup l : (forall k, (cnt k l <= 1)%nat) -> NoDup l.
Proof. intros H. apply (NoDup_count_occ key_dec). exact H. Qed.
Lemma nodup_cnt l k : NoDup l -> (cnt k l <= 1)%nat.
Proof. intros H. apply (NoDup_count_occ key_dec). exact H. Qed.

(* anchors of all children, each built on its own *)
Fixpoint F (ks : items) : list key :=
  match ks with INil => [] | ICons x xs => anchors_of (build_alt x) ++ F xs end.

(* anchors of the redefiners among xs whose target is one of B (items before xs) *)
Fixpoint Fout (B : list id) (xs : items) : list key :=
  match xs with
  | INil => []
  | ICons y ys =>
      match item_redef y with
      | Some u => if existsb (N.eqb u) B then anchors_of (build_alt y) ++ Fout B ys else Fout B ys
      | None => Fout B ys
      end
  end.

(* the REDEFINES-x anchors of one group *)
Fixpoint KR (xs : items) : list key :=
  match xs with
  | INil => []
  | ICons x ys =>
      match item_redef x with
      | Some _ => KR ys
      | None => if existsb (N.eqb (item_id x)) (redef_targets ys) then KRedef (item_id x) :: KR ys else KR ys
      end
  end.

Lemma Fout_nil xs : Fout [] xs = [].
Proof. induction xs as [|y ys IH]; [reflexivity|]. cbn [Fout existsb]. destruct (item_redef y); exact IH. Qed.

Lemma Fout_split k u B xs :
  ~ In u B ->
  cnt k (Fout (u :: B) xs) = (cnt k (anchors_alts (L.alts_red u xs)) + cnt k (Fout B xs))%nat.
Proof.
  intros Hu. induction xs as [|y ys IH]; [reflexivity|].
  cbn [Fout L.alts_red existsb]. destruct (item_redef y) as [u'|]; [|exact IH].
  destruct (N.eqb u u') eqn:E.
  - apply N.eqb_eq in E. subst u'. rewrite N.eqb_refl. cbn [orb].
    assert (existsb (N.eqb u) B = false) as ->.
    { destruct (existsb (N.eqb u) B) eqn:EB; [|reflexivity]. apply existsb_N_In in EB. contradiction. }
    cbn [anchors_alts]. rewrite !cnt_app, IH. lia.
  - assert (N.eqb u' u = false) as -> by (rewrite N.eqb_sym; exact E). cbn [orb].
    destruct (existsb (N.eqb u') B); [rewrite !cnt_app, IH; lia|exact IH].
Qed.

Lemma alts_red_none u xs : ~ In u (redef_targets xs) -> L.alts_red u xs = ANil.
Proof.
  induction xs as [|y ys IH]; intros H; [reflexivity|].
  cbn [L.alts_red redef_targets] in *. destruct (item_redef y) as [u'|].
  - destruct (N.eqb u u') eqn:E; [apply N.eqb_eq in E; subst; exfalso; apply H; left; reflexivity|].
    apply IH. intros Hin. apply H. right. exact Hin.
  - apply IH. exact H.
Qed.

(* the anchors of the children loop = the anchors of every child once + one REDEFINES-x per union *)
Lemma assemble_d_count k : forall xs B,
  L.sib_ok B xs = true -> NoDup (L.kid_ids xs) -> (forall u, In u B -> ~ In u (L.kid_ids xs)) ->
  (cnt k (anchors_props (L.assemble_d xs)) + cnt k (Fout B xs) = cnt k (F xs) + cnt k (KR xs))%nat.
Proof.
  induction xs as [|x xs IH]; intros B Hs Hnd HB; [reflexivity|].
  cbn [L.kid_ids] in Hnd. inversion Hnd as [|? ? Hx Hnd']; subst.
  cbn [L.sib_ok] in Hs. cbn [L.assemble_d Fout F KR].
  destruct (item_redef x) as [u|] eqn:Er.
  - apply andb_true_iff in Hs as [HuB Hs]. rewrite HuB.
    cbn [anchors_props anchors_of js_anchor app]. rewrite !cnt_app.
    specialize (IH B Hs Hnd' (fun u' Hu' Hin => HB u' Hu' (or_intror Hin))). lia.
  - assert (HxB : ~ In (item_id x) B) by (intros Hin; apply (HB _ Hin); left; reflexivity).
    assert (HB' : forall u, In u (item_id x :: B) -> ~ In u (L.kid_ids xs)).
    { intros u [<-|Hu]; [exact Hx|]. intros Hin. apply (HB u Hu). right. exact Hin. }
    specialize (IH (item_id x :: B) Hs Hnd' HB'). rewrite (Fout_split k (item_id x) B xs HxB) in IH.
    destruct (existsb (N.eqb (item_id x)) (redef_targets xs)) eqn:Et.
    + cbn [anchors_props anchors_of js_anchor anchors_alts app].
      repeat (rewrite cnt_cons || rewrite cnt_app || rewrite cnt_nil).
      destruct (key_dec (KRedef (item_id x)) k); lia.
    + assert (L.alts_red (item_id x) xs = ANil) as Ha.
      { apply alts_red_none. intros Hin. apply existsb_N_In in Hin. rewrite Hin in Et. discriminate. }
      rewrite Ha in IH. cbn [anchors_alts] in IH. rewrite cnt_nil in IH.
      cbn [anchors_props]. rewrite !cnt_app. lia.
Qed.

Lemma K_inv k l : In k (L.K l) -> exists j, In j l /\ (k = KName j \/ k = KRedef j).
Proof.
  unfold L.K. rewrite in_app_iff, !in_map_iff.
  intros [[j [E H]]|[j [E H]]]; exists j; split; auto.
Qed.
Lemma K_redef l i : In (KRedef i) (L.K l) <-> In i l.
Proof.
  split.
  - intros H. apply K_inv in H as [j [Hj [E|E]]]; [discriminate|inversion E; subst; exact Hj].
  - intros H. unfold L.K. apply in_or_app. right. apply in_map. exact H.
Qed.
Lemma K_disj a b k : NoDup (a ++ b) -> In k (L.K a) -> In k (L.K b) -> False.
Proof.
  intros Hnd Ha Hb. apply K_inv in Ha as [j [Hj Ej]]. apply K_inv in Hb as [j' [Hj' Ej']].
  assert (j = j') by (destruct Ej as [->| ->], Ej' as [E|E]; inversion E; reflexivity).
  subst j'. exact (L.NoDup_app_disj a b j Hnd Hj Hj').
Qed.

Definition triple (y : item) : Prop :=
  NoDup (anchors_of (build_alt y)) /\ incl (anchors_of (build_alt y)) (L.K (L.ids y))
  /\ ~ In (KRedef (item_id y)) (anchors_of (build_alt y)).

Lemma FK_count k : forall ks,
  NoDup (L.ids_kids ks) -> (forall y, L.in_kids y ks -> triple y) ->
  (cnt k (F ks) + cnt k (KR ks) <= 1)%nat
  /\ ((0 < cnt k (F ks) + cnt k (KR ks))%nat -> In k (L.K (L.ids_kids ks))).
Proof.
  induction ks as [|x xs IH]; intros Hnd Hk; [cbn; split; [lia|intros H; lia]|].
  cbn [L.ids_kids] in Hnd.
  destruct (Hk x (or_introl eq_refl)) as [Tn [Ti Tr]].
  destruct (IH (L.NoDup_app_r _ _ Hnd) (fun y Hy => Hk y (or_intror Hy))) as [B1 B2].
  pose proof (nodup_cnt _ k Tn) as Ha.
  assert (Hx0 : In k (L.K (L.ids x)) -> (cnt k (F xs) + cnt k (KR xs) = 0)%nat).
  { intros Hin. destruct (Nat.eq_dec (cnt k (F xs) + cnt k (KR xs)) 0) as [E|E]; [exact E|].
    exfalso. apply (K_disj _ _ k Hnd Hin). apply B2. lia. }
  assert (Hax : (0 < cnt k (anchors_of (build_alt x)))%nat -> In k (L.K (L.ids x))).
  { intros H. apply Ti. apply cnt_pos_in. exact H. }
  assert (Hroot : In (KRedef (item_id x)) (L.K (L.ids x))) by (apply K_redef; apply L.item_id_in_ids).
  assert (Hsup : In k (L.K (L.ids x)) \/ In k (L.K (L.ids_kids xs)) -> In k (L.K (L.ids x ++ L.ids_kids xs)))
    by (intros H; apply L.K_app; exact H).
  cbn [F KR L.ids_kids]. rewrite cnt_app.
  destruct (item_redef x) as [u|].
  - split.
    + destruct (Nat.eq_dec (cnt k (anchors_of (build_alt x))) 0) as [E|E]; [lia|].
      specialize (Hx0 (Hax ltac:(lia))). lia.
    + intros H. apply Hsup.
      destruct (Nat.eq_dec (cnt k (anchors_of (build_alt x))) 0) as [E|E]; [right; apply B2; lia|left; apply Hax; lia].
  - destruct (existsb (N.eqb (item_id x)) (redef_targets xs)).
    + rewrite cnt_cons. destruct (key_dec (KRedef (item_id x)) k) as [Ek|Ek].
      * subst k. rewrite (cnt_notin _ _ Tr). specialize (Hx0 Hroot). split; [lia|]. intros _. apply Hsup. left. exact Hroot.
      * split.
        -- destruct (Nat.eq_dec (cnt k (anchors_of (build_alt x))) 0) as [E|E]; [lia|].
           specialize (Hx0 (Hax ltac:(lia))). lia.
        -- intros H. apply Hsup.
           destruct (Nat.eq_dec (cnt k (anchors_of (build_alt x))) 0) as [E|E]; [right; apply B2; lia|left; apply Hax; lia].
    + split.
      * destruct (Nat.eq_dec (cnt k (anchors_of (build_alt x))) 0) as [E|E]; [lia|].
        specialize (Hx0 (Hax ltac:(lia))). lia.
      * intros H. apply Hsup.
        destruct (Nat.eq_dec (cnt k (anchors_of (build_alt x))) 0) as [E|E]; [right; apply B2; lia|left; apply Hax; lia].
Qed.

Lemma anchors_triple e :
  (forall x, wf8 e x = true -> NoDup (L.ids x) -> triple x)
  /\ (forall ks, wf8_kids e ks = true -> NoDup (L.ids_kids ks) -> forall y, L.in_kids y ks -> triple y).
Proof.
  apply item_items_ind.
  - intros i sz oc rd _ _. unfold triple.
    assert (anchors_of (build_alt (Elem i sz oc rd)) = [KName i]) as -> by (destruct oc; reflexivity).
    split; [repeat constructor; intros []|]. split.
    + intros k [<-|[]]. apply L.K_name. left. reflexivity.
    + intros [H|[]]. discriminate.
  - intros i oc rd ks IH Hw Hnd.
    assert (Hw' := Hw). cbn [wf8] in Hw'. apply andb_true_iff in Hw' as [Hw' _]. apply andb_true_iff in Hw' as [Hwk Hu].
    cbn [L.ids item_id] in Hnd. inversion Hnd as [|? ? Hi Hndk]; subst.
    specialize (IH Hwk Hndk).
    unfold triple. rewrite (group_anchors e i oc rd ks Hndk Hw). cbn [item_id L.ids].
    assert (Hincl : incl (anchors_props (L.assemble_d ks)) (L.K (L.ids_kids ks))).
    { rewrite <- (proj1 (proj2 keys_bridge)). apply L.keys_assemble_d.
      intros y Hy. rewrite (proj1 keys_bridge). apply (IH y Hy). }
    assert (Hcnt : forall k, (cnt k (anchors_props (L.assemble_d ks)) <= 1)%nat).
    { intros k.
      pose proof (assemble_d_count k ks [] (L.unions_sib_ok e [] ks Hu) (L.NoDup_ids_kid_ids ks Hndk) (fun u Hf => match Hf with end)) as Hc.
      rewrite Fout_nil, cnt_nil in Hc. destruct (FK_count k ks Hndk IH) as [B1 _]. lia. }
    split; [|split].
    + constructor; [|apply cnt_nodup; exact Hcnt].
      intros Hin. apply Hincl in Hin. apply L.K_name in Hin. contradiction.
    + intros k [<-|Hk]; [apply L.K_name; left; reflexivity|].
      apply (L.K_incl (L.ids_kids ks)); [apply incl_tl, incl_refl|apply Hincl; exact Hk].
    + intros [H|H]; [discriminate|]. apply Hincl in H. apply K_redef in H. contradiction.
  - intros _ _ y [].
  - intros x IHx xs IHxs Hw Hnd y Hy. cbn [wf8_kids] in Hw. apply andb_true_iff in Hw as [Hwx Hwxs].
    cbn [L.ids_kids] in Hnd. destruct Hy as [->|Hy].
    + apply IHx; [exact Hwx|exact (L.NoDup_app_l _ _ Hnd)].
    + apply IHxs; [exact Hwxs|exact (L.NoDup_app_r _ _ Hnd)|exact Hy].
Qed.

Lemma wf8_not_raises e :
  (forall x, wf8 e x = true -> build_raises x = false) /\ (forall ks, wf8_kids e ks = true -> kids_raise ks = false).
Proof.
  apply item_items_ind.
  - reflexivity.
  - intros i oc rd ks IH Hw. cbn [wf8] in Hw. apply andb_true_iff in Hw as [Hw Hoc]. apply andb_true_iff in Hw as [Hk _].
    cbn [build_raises]. rewrite (IH Hk), orb_false_r. destruct oc; [reflexivity| |]; destruct (redef_targets ks); try reflexivity; discriminate.
  - reflexivity.
  - intros x IHx xs IHxs Hw. cbn [wf8_kids] in Hw. apply andb_true_iff in Hw as [A B]. cbn [kids_raise]. rewrite (IHx A), (IHxs B). reflexivity.
Qed.

Lemma anchors_distinct e t : NoDup (ids_of t) -> wf8 e t = true -> NoDup (anchors_of (build t)).
Proof.
  intros Hnd Hw. rewrite <- (proj1 ids_bridge) in Hnd. exact (proj1 (proj1 (anchors_triple e) t Hw Hnd)).
Qed.

Lemma valid_shape_full e t : NoDup (ids_of t) -> wf8 e t = true -> valid_2020_12_shape (build t) = true.
Proof.
  intros Hnd Hw. unfold valid_2020_12_shape.
  rewrite (valid_shape_partial t Hnd (proj1 (wf8_not_raises e) t Hw)).
  rewrite (NoDup_nodup_keys _ (anchors_distinct e t Hnd Hw)). reflexivity.
Qed.

(* ================================================================== part 4: from_json on the generated schema *)
Section LoadP.
  Variable filler : id -> bool.

  Definition keys (c : cache) : list key := map fst c.
  Definition entry_ok (p : key * desc) : Prop := snd (snd p) = Some (fst p) \/ snd (snd p) = None.
  Definition titled (c : cache) (k : key) : Prop := exists cl, In (k, (cl, None)) c.
  Definition usable (c : cache) (k : key) : Prop := In k (keys c) /\ ~ titled c k.

  Lemma titled_app r c k : titled (r ++ c) k <-> titled r k \/ titled c k.
  Proof.
    unfold titled. split.
    - intros [cl H]. apply in_app_or in H as [H|H]; [left|right]; exists cl; exact H.
    - intros [[cl H]|[cl H]]; exists cl; apply in_or_app; [left|right]; exact H.
  Qed.

  Lemma usable_lookup c k : Forall entry_ok c -> usable c k -> exists cl, clookup k c = Some (cl, Some k).
  Proof.
    induction c as [|[k' [cl a]] c IH]; intros Hok [Hin Hnt]; [destruct Hin|].
    inversion Hok as [|? ? Hh Ht]; subst. cbn [clookup].
    destruct (key_eqb k k') eqn:E.
    - apply key_eqb_eq in E. subst k'. destruct Hh as [Hh|Hh]; cbn [fst snd] in Hh; subst a.
      + exists cl. reflexivity.
      + exfalso. apply Hnt. exists cl. left. reflexivity.
    - apply IH; [exact Ht|]. split.
      + destruct Hin as [Hin|Hin]; [cbn [fst] in Hin; subst k'; rewrite (proj2 (key_eqb_eq k k) eq_refl) in E; discriminate|exact Hin].
      + intros [cl' H]. apply Hnt. exists cl'. right. exact H.
  Qed.

  Lemma usable_ext r c k : usable c k -> ~ titled r k -> usable (r ++ c) k.
  Proof.
    intros [Hin Hnt] Hr. split.
    - unfold keys. rewrite map_app. apply in_or_app. right. exact Hin.
    - intros H. apply titled_app in H as [H|H]; contradiction.
  Qed.

  (* titles: the names under which nodes WITHOUT $anchor are cached *)
  Definition own_title (s : js) : list key :=
    match js_anchor s with
    | Some _ => []
    | None => match cache_key filler s with Some k => [k] | None => [] end
    end.

  Fixpoint titles_of (s : js) : list key :=
    own_title s ++
    match s with
    | JAtom _ _ => []
    | JArr _ _ its => titles_of its
    | JOdo _ _ its => titles_of its
    | JObj _ ps => titles_props ps
    | JOne _ alts => titles_alts alts
    | JRef _ => []
    end
  with titles_props (ps : props) : list key :=
    match ps with PNil => [] | PCons _ s r => titles_of s ++ titles_props r end
  with titles_alts (alts : jalts) : list key :=
    match alts with ANil => [] | ACons s r => titles_of s ++ titles_alts r end.

  (* what a walk adds to the cache *)
  Definition adds (r : cache) (anchors titles : list key) : Prop :=
    Forall entry_ok r /\ incl anchors (keys r) /\ (forall k, titled r k -> In k titles).

  Lemma adds_nil : adds [] [] [].
  Proof. split; [constructor|]. split; [intros k []|intros k [cl []]]. Qed.

  Lemma adds_app r2 r1 a1 a2 t1 t2 : adds r1 a1 t1 -> adds r2 a2 t2 -> adds (r2 ++ r1) (a1 ++ a2) (t1 ++ t2).
  Proof.
    intros [A1 [B1 C1]] [A2 [B2 C2]]. split; [apply Forall_app; split; assumption|]. split.
    - intros k Hk. unfold keys. rewrite map_app. apply in_or_app. apply in_app_or in Hk as [Hk|Hk]; [right; apply B1|left; apply B2]; exact Hk.
    - intros k Hk. apply titled_app in Hk as [Hk|Hk]; apply in_or_app; [right; apply C2|left; apply C1]; exact Hk.
  Qed.

  Lemma register_adds s cl c :
    exists r, register filler s (cl, js_anchor s) c = r ++ c
              /\ adds r (match js_anchor s with Some k => [k] | None => [] end) (own_title s).
  Proof.
    unfold register, own_title. destruct (js_anchor s) as [k|] eqn:Ea.
    - assert (cache_key filler s = Some k) as -> by (unfold cache_key; rewrite Ea; reflexivity).
      exists [(k, (cl, Some k))]. split; [reflexivity|]. split; [constructor; [left; reflexivity|constructor]|].
      split; [intros x [<-|[]]; left; reflexivity|]. intros x [cl' [H|[]]]. inversion H.
    - destruct (cache_key filler s) as [k|].
      + exists [(k, (cl, None))]. split; [reflexivity|]. split; [constructor; [right; reflexivity|constructor]|].
        split; [intros x []|]. intros x [cl' [H|[]]]. inversion H; subst. left. reflexivity.
      + exists []. split; [reflexivity|]. apply adds_nil.
  Qed.

  Lemma adds_weaken r a t a' t' : adds r a t -> incl a' a -> incl t t' -> adds r a' t'.
  Proof. intros [A [B C]] Ha Ht. split; [exact A|]. split; [intros k Hk; apply B, Ha, Hk|intros k Hk; apply Ht, C, Hk]. Qed.

  (* unfolding equations of the loader model *)
  Lemma lwalk_JAtom a sz c : lwalk filler (JAtom a sz) c = Ok (register filler (JAtom a sz) (CAtomic, a) c, []).
  Proof. reflexivity. Qed.
  Lemma lwalk_JArr a n its c : lwalk filler (JArr a n its) c =
    match lwalk filler its c with Err e => Err e | Ok (c1, l1) => Ok (register filler (JArr a n its) (CArray, a) c1, l1) end.
  Proof. reflexivity. Qed.
  Lemma lwalk_JOdo a cn its c : lwalk filler (JOdo a cn its) c =
    match lwalk filler its c with
    | Err e => Err e
    | Ok (c1, l1) => match clookup (KName cn) c1 with
                     | None => Err ValueError
                     | Some d => Ok (register filler (JOdo a cn its) (CDepends, a) c1, l1 ++ [(KName cn, Some d)])
                     end
    end.
  Proof. reflexivity. Qed.
  Lemma lwalk_JObj a ps c : lwalk filler (JObj a ps) c =
    match lwalk_props filler ps c with Err e => Err e | Ok (c1, l1) => Ok (register filler (JObj a ps) (CObject, a) c1, l1) end.
  Proof. reflexivity. Qed.
  Lemma lwalk_JOne a s0 r0 c : lwalk filler (JOne a (ACons s0 r0)) c =
    match lwalk_alts filler (ACons s0 r0) c with
    | Err e => Err e
    | Ok (c1, l1) => Ok (register filler (JOne a (ACons s0 r0)) (COneOf, a) c1, l1)
    end.
  Proof. reflexivity. Qed.
  Lemma lwalk_JRef k c : lwalk filler (JRef k) c = Ok (register filler (JRef k) (CRef, None) c, [(k, clookup k c)]).
  Proof. reflexivity. Qed.
  Lemma lwalk_props_cons k s r c : lwalk_props filler (PCons k s r) c =
    match lwalk filler s c with
    | Err e => Err e
    | Ok (c1, l1) => match lwalk_props filler r c1 with Err e => Err e | Ok (c2, l2) => Ok (c2, l1 ++ l2) end
    end.
  Proof. reflexivity. Qed.
  Lemma lwalk_alts_cons s r c : lwalk_alts filler (ACons s r) c =
    match lwalk filler s c with
    | Err e => Err e
    | Ok (c1, l1) => match lwalk_alts filler r c1 with Err e => Err e | Ok (c2, l2) => Ok (c2, l1 ++ l2) end
    end.
  Proof. reflexivity. Qed.

  Lemma lwalk_adds :
    (forall s c c' l, lwalk filler s c = Ok (c', l) -> exists r, c' = r ++ c /\ adds r (anchors_of s) (titles_of s))
    /\ (forall ps c c' l, lwalk_props filler ps c = Ok (c', l) -> exists r, c' = r ++ c /\ adds r (anchors_props ps) (titles_props ps))
    /\ (forall al c c' l, lwalk_alts filler al c = Ok (c', l) -> exists r, c' = r ++ c /\ adds r (anchors_alts al) (titles_alts al)).
  Proof.
    apply js_props_alts_ind.
    - intros a sz c c' l H. rewrite lwalk_JAtom in H. inversion H; subst.
      destruct (register_adds (JAtom a sz) CAtomic c) as [r [E A]]. cbn [js_anchor] in E. exists r. split; [exact E|].
      eapply adds_weaken; [exact A| |]; cbn [anchors_of titles_of js_anchor]; rewrite ?app_nil_r; apply incl_refl.
    - intros a n its IH c c' l H. rewrite lwalk_JArr in H.
      destruct (lwalk filler its c) as [[c1 l1]|] eqn:E1; [|discriminate]. inversion H; subst.
      destruct (IH _ _ _ E1) as [r1 [-> A1]].
      destruct (register_adds (JArr a n its) CArray (r1 ++ c)) as [r [E A]]. cbn [js_anchor] in E. rewrite E.
      exists (r ++ r1). split; [apply app_assoc|].
      eapply adds_weaken; [exact (adds_app _ _ _ _ _ _ A1 A)| |]; cbn [anchors_of titles_of js_anchor];
        intros k Hk; repeat (rewrite in_app_iff in * ); tauto.
    - intros a cn its IH c c' l H. rewrite lwalk_JOdo in H.
      destruct (lwalk filler its c) as [[c1 l1]|] eqn:E1; [|discriminate].
      destruct (clookup (KName cn) c1); [|discriminate]. inversion H; subst.
      destruct (IH _ _ _ E1) as [r1 [-> A1]].
      destruct (register_adds (JOdo a cn its) CDepends (r1 ++ c)) as [r [E A]]. cbn [js_anchor] in E. rewrite E.
      exists (r ++ r1). split; [apply app_assoc|].
      eapply adds_weaken; [exact (adds_app _ _ _ _ _ _ A1 A)| |]; cbn [anchors_of titles_of js_anchor];
        intros k Hk; repeat (rewrite in_app_iff in * ); tauto.
    - intros a ps IH c c' l H. rewrite lwalk_JObj in H.
      destruct (lwalk_props filler ps c) as [[c1 l1]|] eqn:E1; [|discriminate]. inversion H; subst.
      destruct (IH _ _ _ E1) as [r1 [-> A1]].
      destruct (register_adds (JObj a ps) CObject (r1 ++ c)) as [r [E A]]. cbn [js_anchor] in E. rewrite E.
      exists (r ++ r1). split; [apply app_assoc|].
      eapply adds_weaken; [exact (adds_app _ _ _ _ _ _ A1 A)| |]; cbn [anchors_of titles_of js_anchor];
        intros k Hk; repeat (rewrite in_app_iff in * ); tauto.
    - intros a al IH c c' l H. destruct al as [|s0 r0]; [discriminate|]. rewrite lwalk_JOne in H.
      destruct (lwalk_alts filler (ACons s0 r0) c) as [[c1 l1]|] eqn:E1; [|discriminate]. inversion H; subst.
      destruct (IH _ _ _ E1) as [r1 [-> A1]].
      destruct (register_adds (JOne a (ACons s0 r0)) COneOf (r1 ++ c)) as [r [E A]]. cbn [js_anchor] in E. rewrite E.
      exists (r ++ r1). split; [apply app_assoc|].
      eapply adds_weaken; [exact (adds_app _ _ _ _ _ _ A1 A)| |]; cbn [anchors_of titles_of js_anchor];
        intros k Hk; repeat (rewrite in_app_iff in * ); tauto.
    - intros k c c' l H. rewrite lwalk_JRef in H. inversion H; subst.
      destruct (register_adds (JRef k) CRef c) as [r [E A]]. cbn [js_anchor] in E. exists r. split; [exact E|].
      eapply adds_weaken; [exact A| |]; cbn [anchors_of titles_of js_anchor]; rewrite ?app_nil_r; apply incl_refl.
    - intros c c' l H. cbn in H. inversion H; subst. exists []. split; [reflexivity|apply adds_nil].
    - intros k s IHs r IHr c c' l H. rewrite lwalk_props_cons in H.
      destruct (lwalk filler s c) as [[c1 l1]|] eqn:E1; [|discriminate].
      destruct (lwalk_props filler r c1) as [[c2 l2]|] eqn:E2; [|discriminate]. inversion H; subst.
      destruct (IHs _ _ _ E1) as [r1 [-> A1]]. destruct (IHr _ _ _ E2) as [r2 [-> A2]].
      exists (r2 ++ r1). split; [apply app_assoc|]. exact (adds_app _ _ _ _ _ _ A1 A2).
    - intros c c' l H. cbn in H. inversion H; subst. exists []. split; [reflexivity|apply adds_nil].
    - intros s IHs r IHr c c' l H. rewrite lwalk_alts_cons in H.
      destruct (lwalk filler s c) as [[c1 l1]|] eqn:E1; [|discriminate].
      destruct (lwalk_alts filler r c1) as [[c2 l2]|] eqn:E2; [|discriminate]. inversion H; subst.
      destruct (IHs _ _ _ E1) as [r1 [-> A1]]. destruct (IHr _ _ _ E2) as [r2 [-> A2]].
      exists (r2 ++ r1). split; [apply app_assoc|]. exact (adds_app _ _ _ _ _ _ A1 A2).
  Qed.

  (* ---- the titles of a built schema ---- *)
  Variable e : env.

  Definition tk (i : id) : list key := if filler i then [] else [KName i].

  Lemma own_title_ref i : own_title (JRef (KName i)) = tk i.
  Proof. unfold own_title, tk. cbn. destruct (filler i); reflexivity. Qed.

  Lemma elem_titles i sz oc rd :
    titles_of (build_alt (Elem i sz oc rd)) = match oc with Once => [] | _ => tk i end.
  Proof. destruct oc; cbn; unfold tk; destruct (filler i); reflexivity. Qed.

  Lemma group_titles i oc rd ks :
    NoDup (L.ids_kids ks) -> wf8 e (Group i oc rd ks) = true ->
    titles_of (build_alt (Group i oc rd ks)) = titles_props (L.assemble_d ks).
  Proof.
    intros Hnd Hw. cbn [wf8] in Hw. apply andb_true_iff in Hw as [Hw Hoc]. apply andb_true_iff in Hw as [_ Hu].
    destruct oc as [|n|c].
    - rewrite (L.build_group_once e) by assumption. reflexivity.
    - destruct (redef_targets ks) eqn:Er; [|discriminate]. rewrite (L.no_redef_assemble ks Er). reflexivity.
    - destruct (redef_targets ks) eqn:Er; [|discriminate]. rewrite (L.no_redef_assemble ks Er). reflexivity.
  Qed.

  Lemma titles_alts_red u xs k :
    In k (titles_alts (L.alts_red u xs)) ->
    exists y, L.in_kids y xs /\ item_redef y = Some u /\ In k (titles_of (build_alt y)).
  Proof.
    induction xs as [|y ys IH]; intros H; [destruct H|].
    cbn [L.alts_red] in H. destruct (item_redef y) as [u'|] eqn:Er.
    - destruct (N.eqb u u') eqn:E.
      + apply N.eqb_eq in E. subst u'. cbn [titles_alts] in H. apply in_app_or in H as [H|H].
        * exists y. split; [left; reflexivity|split; assumption].
        * destruct (IH H) as [z [A B]]. exists z. split; [right; exact A|exact B].
      + destruct (IH H) as [z [A B]]. exists z. split; [right; exact A|exact B].
    - destruct (IH H) as [z [A B]]. exists z. split; [right; exact A|exact B].
  Qed.

  Lemma anchors_alts_red u xs y k :
    L.in_kids y xs -> item_redef y = Some u -> In k (anchors_of (build_alt y)) -> In k (anchors_alts (L.alts_red u xs)).
  Proof.
    induction xs as [|z zs IH]; intros Hin Er Hk; [destruct Hin|].
    cbn [L.alts_red]. destruct Hin as [->|Hin].
    - rewrite Er, N.eqb_refl. cbn [anchors_alts]. apply in_or_app. left. exact Hk.
    - destruct (item_redef z) as [u'|]; [destruct (N.eqb u u')|]; try (cbn [anchors_alts]; apply in_or_app; right); apply IH; assumption.
  Qed.

  Lemma kids_disjoint ks : forall y z j,
    L.in_kids y ks -> L.in_kids z ks -> NoDup (L.ids_kids ks) -> In j (L.ids y) -> In j (L.ids z) -> y = z.
  Proof.
    induction ks as [|x xs IH]; intros y z j Hy Hz Hnd Jy Jz; [destruct Hy|].
    cbn [L.ids_kids] in Hnd. destruct Hy as [->|Hy], Hz as [->|Hz].
    - reflexivity.
    - exfalso. apply (L.NoDup_app_disj _ _ j Hnd Jy). apply (L.in_kids_ids_incl z xs Hz). exact Jz.
    - exfalso. apply (L.NoDup_app_disj _ _ j Hnd Jz). apply (L.in_kids_ids_incl y xs Hy). exact Jy.
    - apply (IH y z j Hy Hz (L.NoDup_app_r _ _ Hnd) Jy Jz).
  Qed.

  Lemma decl_where :
    (forall x j, In j (decl x) -> match x with Elem _ _ _ _ => False | Group _ _ _ ks => In j (L.ids_kids ks) end)
    /\ (forall ks j, In j (decl_kids ks) -> exists z, L.in_kids z ks /\ item_redef z = None /\ In j (L.ids z)).
  Proof.
    apply item_items_ind.
    - intros i sz oc rd j [].
    - intros i oc rd ks IH j Hj. cbn [decl] in Hj. destruct (IH j Hj) as [z [A [_ B]]].
      apply (L.in_kids_ids_incl z ks A). exact B.
    - intros j [].
    - intros x IHx xs IHxs j Hj. cbn [decl_kids] in Hj. apply in_app_or in Hj as [Hj|Hj].
      + destruct (item_redef x) eqn:Er; [destruct Hj|]. exists x. split; [left; reflexivity|]. split; [exact Er|].
        apply in_app_or in Hj as [Hj|Hj].
        * destruct (eligible x xs); [|destruct Hj]. destruct Hj as [<-|[]]. apply L.item_id_in_ids.
        * specialize (IHx j Hj). destruct x as [|i oc rd ks]; [destruct IHx|]. cbn [L.ids]. right. exact IHx.
      + destruct (IHxs j Hj) as [z [A B]]. exists z. split; [right; exact A|exact B].
  Qed.

  Lemma decl_strict x j : NoDup (L.ids x) -> In j (decl x) -> In j (L.ids x) /\ j <> item_id x.
  Proof.
    intros Hnd Hj. pose proof (proj1 decl_where x j Hj) as H. destruct x as [|i oc rd ks]; [destruct H|].
    cbn [L.ids item_id] in *. inversion Hnd as [|? ? Hi _]; subst. split; [right; exact H|]. intros ->. contradiction.
  Qed.

  Definition T1 (x : item) : Prop :=
    forall k, In k (titles_of (build_alt x)) -> exists j, k = KName j /\ In j (L.ids x).
  Definition T3 (x : item) : Prop :=
    forall j, In j (decl x) -> ~ In (KName j) (titles_of (build_alt x)).

  Lemma tk_in k i : In k (tk i) -> k = KName i.
  Proof. unfold tk. destruct (filler i); [intros []|intros [<-|[]]; reflexivity]. Qed.

  Lemma titles_props_cons k s r : titles_props (PCons k s r) = titles_of s ++ titles_props r.
  Proof. reflexivity. Qed.
  Lemma titles_ref k : titles_of (JRef k) = own_title (JRef k) ++ [].
  Proof. reflexivity. Qed.
  Lemma titles_one a s r : titles_of (JOne (Some a) (ACons s r)) = titles_of s ++ titles_alts r.
  Proof. reflexivity. Qed.

  Lemma titles_assemble_cons x xs :
    titles_props (L.assemble_d (ICons x xs)) =
    match item_redef x with
    | Some _ => tk (item_id x) ++ titles_props (L.assemble_d xs)
    | None =>
        if existsb (N.eqb (item_id x)) (redef_targets xs)
        then (titles_of (build_alt x) ++ titles_alts (L.alts_red (item_id x) xs)) ++ tk (item_id x) ++ titles_props (L.assemble_d xs)
        else titles_of (build_alt x) ++ titles_props (L.assemble_d xs)
    end.
  Proof.
    cbn [L.assemble_d]. destruct (item_redef x) as [u|].
    - rewrite titles_props_cons, titles_ref, own_title_ref, app_nil_r. reflexivity.
    - destruct (existsb (N.eqb (item_id x)) (redef_targets xs)).
      + rewrite titles_props_cons, titles_one, titles_props_cons, titles_ref, own_title_ref, app_nil_r. reflexivity.
      + rewrite titles_props_cons. reflexivity.
  Qed.

  Lemma T1_kids ks :
    (forall y, L.in_kids y ks -> T1 y) ->
    forall k, In k (titles_props (L.assemble_d ks)) -> exists j, k = KName j /\ In j (L.ids_kids ks).
  Proof.
    induction ks as [|x xs IH]; intros Hk k Hin; [destruct Hin|].
    assert (Hx : T1 x) by (apply Hk; left; reflexivity).
    assert (Hxs : forall y, L.in_kids y xs -> T1 y) by (intros y Hy; apply Hk; right; exact Hy).
    assert (Hrest : In k (titles_props (L.assemble_d xs)) -> exists j, k = KName j /\ In j (L.ids_kids (ICons x xs))).
    { intros H. destruct (IH Hxs k H) as [j [A B]]. exists j. split; [exact A|]. cbn [L.ids_kids]. apply in_or_app. right. exact B. }
    assert (Hhead : In k (titles_of (build_alt x)) -> exists j, k = KName j /\ In j (L.ids_kids (ICons x xs))).
    { intros H. destruct (Hx k H) as [j [A B]]. exists j. split; [exact A|]. cbn [L.ids_kids]. apply in_or_app. left. exact B. }
    assert (Hown : In k (tk (item_id x)) -> exists j, k = KName j /\ In j (L.ids_kids (ICons x xs))).
    { intros H. exists (item_id x). split; [apply tk_in; exact H|]. cbn [L.ids_kids]. apply in_or_app. left. apply L.item_id_in_ids. }
    rewrite titles_assemble_cons in Hin. destruct (item_redef x) as [u|].
    - apply in_app_or in Hin as [H|H]; [apply Hown; exact H|apply Hrest; exact H].
    - destruct (existsb (N.eqb (item_id x)) (redef_targets xs)).
      + apply in_app_or in Hin as [H|H].
        * apply in_app_or in H as [H|H]; [apply Hhead; exact H|].
          destruct (titles_alts_red _ _ _ H) as [y [A [_ B]]].
          destruct (Hxs y A k B) as [j [C D]]. exists j. split; [exact C|]. cbn [L.ids_kids]. apply in_or_app. right.
          apply (L.in_kids_ids_incl y xs A). exact D.
        * apply in_app_or in H as [H|H]; [apply Hown; exact H|apply Hrest; exact H].
      + apply in_app_or in Hin as [H|H]; [apply Hhead; exact H|apply Hrest; exact H].
  Qed.

  Lemma T3_kids ks :
    NoDup (L.ids_kids ks) -> (forall y, L.in_kids y ks -> NoDup (L.ids y) -> T1 y /\ T3 y) ->
    forall j, In j (decl_kids ks) -> ~ In (KName j) (titles_props (L.assemble_d ks)).
  Proof.
    induction ks as [|x xs IH]; intros Hnd Hk j Hj; [destruct Hj|].
    cbn [L.ids_kids] in Hnd.
    pose proof (L.NoDup_app_l _ _ Hnd) as Hndx. pose proof (L.NoDup_app_r _ _ Hnd) as Hndxs.
    destruct (Hk x (or_introl eq_refl) Hndx) as [T1x T3x].
    assert (Hxs : forall y, L.in_kids y xs -> NoDup (L.ids y) -> T1 y /\ T3 y) by (intros y Hy; apply Hk; right; exact Hy).
    assert (HT1xs : forall y, L.in_kids y xs -> T1 y).
    { intros y Hy. apply (Hxs y Hy). apply (L.NoDup_ids_kid y xs Hy Hndxs). }
    (* a key titled in the rest names something in the rest *)
    assert (Hrest : forall i, In (KName i) (titles_props (L.assemble_d xs)) -> In i (L.ids_kids xs)).
    { intros i H. destruct (T1_kids xs HT1xs _ H) as [i' [A B]]. inversion A; subst. exact B. }
    assert (Hheadx : forall i, In (KName i) (titles_of (build_alt x)) -> In i (L.ids x)).
    { intros i H. destruct (T1x _ H) as [i' [A B]]. inversion A; subst. exact B. }
    assert (Halts : forall i, In (KName i) (titles_alts (L.alts_red (item_id x) xs)) ->
                    exists y, L.in_kids y xs /\ item_redef y = Some (item_id x) /\ In i (L.ids y)).
    { intros i H. destruct (titles_alts_red _ _ _ H) as [y [A [B C]]]. exists y. split; [exact A|]. split; [exact B|].
      destruct (HT1xs y A _ C) as [i' [D E]]. inversion D; subst. exact E. }
    assert (Hown : forall i, In (KName i) (tk (item_id x)) -> i = item_id x).
    { intros i H. apply tk_in in H. inversion H. reflexivity. }
    cbn [decl_kids] in Hj. apply in_app_or in Hj as [Hj|Hj].
    - (* declared at or inside x: x is not a redefiner *)
      destruct (item_redef x) eqn:Er; [destruct Hj|].
      assert (Jx : In j (L.ids x)).
      { apply in_app_or in Hj as [Hj|Hj].
        - destruct (eligible x xs); [|destruct Hj]. destruct Hj as [<-|[]]. apply L.item_id_in_ids.
        - apply (decl_strict x j Hndx Hj). }
      assert (Hnotrest : ~ In (KName j) (titles_props (L.assemble_d xs))).
      { intros H. apply (L.NoDup_app_disj _ _ j Hnd Jx). apply Hrest. exact H. }
      assert (Hnothead : ~ In (KName j) (titles_of (build_alt x))).
      { apply in_app_or in Hj as [Hj|Hj].
        - destruct x as [i sz oc rd|]; [|cbn [eligible] in Hj; destruct Hj]. cbn [eligible] in Hj. destruct oc; try destruct Hj.
          destruct rd; [destruct Hj|]. rewrite elem_titles. intros [].
        - apply T3x. exact Hj. }
      rewrite titles_assemble_cons, Er.
      destruct (existsb (N.eqb (item_id x)) (redef_targets xs)) eqn:Et.
      + intros H. apply in_app_or in H as [H|H].
        * apply in_app_or in H as [H|H]; [contradiction|].
          destruct (Halts j H) as [y [A [_ B]]]. apply (L.NoDup_app_disj _ _ j Hnd Jx). apply (L.in_kids_ids_incl y xs A). exact B.
        * apply in_app_or in H as [H|H]; [|contradiction].
          apply Hown in H. subst j. apply in_app_or in Hj as [Hj|Hj].
          -- destruct x as [i sz oc rd|]; [|cbn [eligible] in Hj; destruct Hj]. cbn [eligible item_id] in *. destruct oc; try destruct Hj.
             destruct rd; [destruct Hj|]. rewrite Et in Hj. destruct Hj.
          -- apply (proj2 (decl_strict x _ Hndx Hj)). reflexivity.
      + intros H. apply in_app_or in H as [H|H]; contradiction.
    - (* declared in the rest *)
      destruct (proj2 decl_where xs j Hj) as [z [Zin [Zr Jz]]].
      assert (Jxs : In j (L.ids_kids xs)) by (apply (L.in_kids_ids_incl z xs Zin); exact Jz).
      assert (Hnotx : ~ In j (L.ids x)) by (intros H; apply (L.NoDup_app_disj _ _ j Hnd H Jxs)).
      specialize (IH Hndxs Hxs j Hj).
      rewrite titles_assemble_cons. destruct (item_redef x) as [u|].
      + intros H. apply in_app_or in H as [H|H]; [|contradiction].
        apply Hown in H. subst j. apply Hnotx. apply L.item_id_in_ids.
      + destruct (existsb (N.eqb (item_id x)) (redef_targets xs)).
        * intros H. apply in_app_or in H as [H|H].
          -- apply in_app_or in H as [H|H]; [apply Hnotx, Hheadx, H|].
             destruct (Halts j H) as [y [A [B C]]].
             assert (y = z) by (apply (kids_disjoint xs y z j A Zin Hndxs C Jz)). subst y. rewrite Zr in B. discriminate.
          -- apply in_app_or in H as [H|H]; [|contradiction]. apply Hown in H. subst j. apply Hnotx. apply L.item_id_in_ids.
        * intros H. apply in_app_or in H as [H|H]; [apply Hnotx, Hheadx, H|contradiction].
  Qed.

  Lemma titles_facts :
    (forall x, wf8 e x = true -> NoDup (L.ids x) -> T1 x /\ T3 x)
    /\ (forall ks, wf8_kids e ks = true -> forall y, L.in_kids y ks -> NoDup (L.ids y) -> T1 y /\ T3 y).
  Proof.
    apply item_items_ind.
    - intros i sz oc rd _ _. split.
      + intros k Hk. rewrite elem_titles in Hk. destruct oc; [destruct Hk| |]; apply tk_in in Hk; exists i; (split; [exact Hk|left; reflexivity]).
      + intros j [].
    - intros i oc rd ks IH Hw Hnd.
      assert (Hw' := Hw). cbn [wf8] in Hw'. apply andb_true_iff in Hw' as [Hw' _]. apply andb_true_iff in Hw' as [Hwk _].
      cbn [L.ids item_id] in Hnd. inversion Hnd as [|? ? Hi Hndk]; subst. specialize (IH Hwk).
      assert (HT1 : forall y, L.in_kids y ks -> T1 y).
      { intros y Hy. apply (IH y Hy). apply (L.NoDup_ids_kid y ks Hy Hndk). }
      split.
      + intros k Hk. rewrite (group_titles i oc rd ks Hndk Hw) in Hk.
        destruct (T1_kids ks HT1 k Hk) as [j [A B]]. exists j. split; [exact A|]. cbn [L.ids]. right. exact B.
      + intros j Hj. rewrite (group_titles i oc rd ks Hndk Hw). cbn [decl] in Hj. apply (T3_kids ks Hndk IH j Hj).
    - intros _ y [].
    - intros x IHx xs IHxs Hw y Hy Hnd. cbn [wf8_kids] in Hw. apply andb_true_iff in Hw as [Hwx Hwxs].
      destruct Hy as [->|Hy]; [apply IHx; assumption|apply IHxs; assumption].
  Qed.

  (* the name of an item is a title inside its own schema only for an elementary OCCURS item *)
  Lemma T2 x : wf8 e x = true -> NoDup (L.ids x) ->
    In (KName (item_id x)) (titles_of (build_alt x)) -> L.elem_table x = true.
  Proof.
    intros Hw Hnd H. destruct x as [i sz oc rd|i oc rd ks].
    - rewrite elem_titles in H. destruct oc; [destruct H|reflexivity|reflexivity].
    - exfalso. assert (Hw' := Hw). cbn [wf8] in Hw'. apply andb_true_iff in Hw' as [Hw' _]. apply andb_true_iff in Hw' as [Hwk _].
      cbn [L.ids item_id] in *. inversion Hnd as [|? ? Hi Hndk]; subst.
      rewrite (group_titles i oc rd ks Hndk Hw) in H.
      assert (HT1 : forall y, L.in_kids y ks -> T1 y).
      { intros y Hy. apply (proj2 titles_facts ks Hwk y Hy). apply (L.NoDup_ids_kid y ks Hy Hndk). }
      destruct (T1_kids ks HT1 _ H) as [j [A B]]. inversion A; subst. contradiction.
  Qed.

  (* ---- walking a built schema ---- *)
  Definition good_site (p : site) : Prop := exists cl, snd p = Some (cl, Some (fst p)).

  Definition Pre (c : cache) (x : item) (seen : list id) : Prop :=
    Forall entry_ok c
    /\ (forall i, In i (L.ids x) -> ~ titled c (KName i))
    /\ (forall j, In j seen -> usable c (KName j) /\ ~ In j (L.ids x)).

  Definition Main (x : item) : Prop := forall c seen,
    wf8 e x = true -> NoDup (L.ids x) -> Pre c x seen -> odo_ok seen x = true ->
    exists c' l, lwalk filler (build_alt x) c = Ok (c', l) /\ Forall good_site l.

  Definition Inv (c : cache) (B : list id) (xs : items) (seen : list id) : Prop :=
    Forall entry_ok c
    /\ (forall y, L.in_kids y xs -> (match item_redef y with Some u => ~ In u B | None => True end) ->
                  forall i, In i (L.ids y) -> ~ titled c (KName i))
    /\ (forall y u, L.in_kids y xs -> item_redef y = Some u -> In u B -> usable c (KName (item_id y)))
    /\ (forall j, In j seen -> usable c (KName j) /\ ~ In j (L.ids_kids xs)).

  Lemma name_anchored x j : In j (L.ids x) -> In (KName j) (anchors_of (build_alt x)).
  Proof. intros H. apply (proj1 ids_are_anchors). apply in_map. rewrite <- (proj1 ids_bridge). exact H. Qed.

  Lemma adds_titled r a t k : adds r a t -> titled r k -> In k t.
  Proof. intros [_ [_ H]]. apply H. Qed.
  Lemma adds_keys r a t k : adds r a t -> In k a -> In k (keys r).
  Proof. intros [_ [H _]]. apply H. Qed.
  Lemma adds_ok r a t : adds r a t -> Forall entry_ok r.
  Proof. intros [H _]. exact H. Qed.
  Lemma keys_app_l r c k : In k (keys r) -> In k (keys (r ++ c)).
  Proof. intros H. unfold keys. rewrite map_app. apply in_or_app. left. exact H. Qed.

  Lemma odo_kids_redef seen xs y : odo_kids seen xs = true -> L.in_kids y xs -> item_redef y <> None -> odo_ok [] y = true.
  Proof.
    revert seen. induction xs as [|x xs IH]; intros seen H Hy Hr; [destruct Hy|].
    cbn [odo_kids] in H. destruct Hy as [->|Hy].
    - destruct (item_redef x); [|contradiction]. apply andb_true_iff in H as [H _]. exact H.
    - destruct (item_redef x); apply andb_true_iff in H as [_ H]; eapply IH; eauto.
  Qed.

  Lemma unions_redef_not_table bases xs y :
    L.unions_ok e bases xs = true -> L.in_kids y xs -> item_redef y <> None -> L.elem_table y = false.
  Proof.
    revert bases. induction xs as [|x xs IH]; intros bases H Hy Hr; [destruct Hy|].
    cbn [L.unions_ok] in H. destruct Hy as [->|Hy].
    - destruct (item_redef x); [|contradiction]. apply andb_true_iff in H as [H _]. apply andb_true_iff in H as [H _].
      destruct (L.elem_table x); [discriminate|reflexivity].
    - destruct (item_redef x); apply andb_true_iff in H as [_ H]; eapply IH; eauto.
  Qed.

  Lemma eligible_not_target x xs : eligible x xs = true -> existsb (N.eqb (item_id x)) (redef_targets xs) = false.
  Proof.
    destruct x as [i sz oc rd|]; [|discriminate]. cbn [eligible item_id]. destruct oc; try discriminate. destruct rd; [discriminate|].
    intros H. apply negb_true_iff in H. exact H.
  Qed.

  Lemma walk_alts_red u : forall xs c,
    (forall y, L.in_kids y xs -> Main y) -> wf8_kids e xs = true -> NoDup (L.ids_kids xs) ->
    Forall entry_ok c ->
    (forall y, L.in_kids y xs -> item_redef y = Some u -> forall i, In i (L.ids y) -> ~ titled c (KName i)) ->
    (forall y, L.in_kids y xs -> item_redef y = Some u -> odo_ok [] y = true) ->
    exists c' l, lwalk_alts filler (L.alts_red u xs) c = Ok (c', l) /\ Forall good_site l.
  Proof.
    induction xs as [|y ys IH]; intros c HM Hw Hnd Hok Hnt Hodo; [exists c, []; split; [reflexivity|constructor]|].
    cbn [wf8_kids] in Hw. apply andb_true_iff in Hw as [Hwy Hwys]. cbn [L.ids_kids] in Hnd.
    pose proof (L.NoDup_app_l _ _ Hnd) as Hndy. pose proof (L.NoDup_app_r _ _ Hnd) as Hndys.
    assert (HMys : forall z, L.in_kids z ys -> Main z) by (intros z Hz; apply HM; right; exact Hz).
    assert (Hskip : exists c' l, lwalk_alts filler (L.alts_red u ys) c = Ok (c', l) /\ Forall good_site l).
    { apply IH; try assumption; intros z Hz; [apply Hnt|apply Hodo]; right; exact Hz. }
    cbn [L.alts_red]. destruct (item_redef y) as [u'|] eqn:Er; [|exact Hskip].
    destruct (N.eqb u u') eqn:E; [|exact Hskip]. apply N.eqb_eq in E. subst u'.
    destruct (HM y (or_introl eq_refl) c [] Hwy Hndy) as [c1 [l1 [E1 G1]]].
    { split; [exact Hok|]. split; [apply (Hnt y (or_introl eq_refl) Er)|intros j []]. }
    { apply (Hodo y (or_introl eq_refl) Er). }
    destruct (proj1 (lwalk_adds) _ _ _ _ E1) as [r1 [-> A1]].
    destruct (proj1 titles_facts y Hwy Hndy) as [T1y _].
    destruct (IH (r1 ++ c) HMys Hwys Hndys) as [c2 [l2 [E2 G2]]].
    { apply Forall_app. split; [exact (adds_ok _ _ _ A1)|exact Hok]. }
    { intros z Hz Ez i Hi Ht. apply titled_app in Ht as [Ht|Ht].
      - apply (adds_titled _ _ _ _ A1) in Ht. destruct (T1y _ Ht) as [i' [Ei Hi']]. inversion Ei; subst.
        apply (L.NoDup_app_disj _ _ i' Hnd Hi'). apply (L.in_kids_ids_incl z ys Hz). exact Hi.
      - apply (Hnt z (or_intror Hz) Ez i Hi Ht). }
    { intros z Hz. apply Hodo. right. exact Hz. }
    exists c2, (l1 ++ l2). rewrite lwalk_alts_cons, E1, E2. split; [reflexivity|apply Forall_app; split; assumption].
  Qed.

  Lemma wf8_kids_in y ks : L.in_kids y ks -> wf8_kids e ks = true -> wf8 e y = true.
  Proof.
    induction ks as [|x xs IH]; intros Hy Hw; [destruct Hy|]. cbn [wf8_kids] in Hw. apply andb_true_iff in Hw as [A B].
    destruct Hy as [->|Hy]; [exact A|apply IH; assumption].
  Qed.

  Lemma anchors_one k s r : anchors_of (JOne (Some k) (ACons s r)) = k :: anchors_of s ++ anchors_alts r.
  Proof. reflexivity. Qed.

  Lemma loop : forall xs bases c seen,
    (forall y, L.in_kids y xs -> Main y) ->
    wf8_kids e xs = true -> NoDup (L.ids_kids xs) -> L.unions_ok e bases xs = true ->
    (forall u, In u (map fst bases) -> ~ In u (L.kid_ids xs)) ->
    Inv c (map fst bases) xs seen -> odo_kids seen xs = true ->
    exists c' l, lwalk_props filler (L.assemble_d xs) c = Ok (c', l) /\ Forall good_site l.
  Proof.
    induction xs as [|x xs IH]; intros bases c seen HM Hw Hnd Hu HB HI Hodo;
      [exists c, []; split; [reflexivity|constructor]|].
    pose proof (L.unions_sib_ok e bases _ Hu) as Hsib.
    cbn [wf8_kids] in Hw. apply andb_true_iff in Hw as [Hwx Hwxs]. cbn [L.ids_kids] in Hnd.
    pose proof (L.NoDup_app_l _ _ Hnd) as Hndx. pose proof (L.NoDup_app_r _ _ Hnd) as Hndxs.
    destruct HI as [I1 [I2 [I2' I3]]].
    assert (Mx : Main x) by (apply HM; left; reflexivity).
    assert (HMxs : forall y, L.in_kids y xs -> Main y) by (intros y Hy; apply HM; right; exact Hy).
    destruct (proj1 titles_facts x Hwx Hndx) as [T1x T3x].
    assert (HT1xs : forall y, L.in_kids y xs -> T1 y).
    { intros y Hy. apply (proj2 titles_facts xs Hwxs y Hy). apply (L.NoDup_ids_kid y xs Hy Hndxs). }
    assert (Hidx : ~ In (item_id x) (L.ids_kids xs)).
    { intros H. apply (L.NoDup_app_disj _ _ (item_id x) Hnd (L.item_id_in_ids x) H). }
    assert (Hkid : forall y, L.in_kids y xs -> incl (L.ids y) (L.ids_kids xs)) by (intros y Hy; apply L.in_kids_ids_incl; exact Hy).
    assert (Hdisj : forall i, In i (L.ids x) -> In i (L.ids_kids xs) -> False) by (intros i A B; exact (L.NoDup_app_disj _ _ i Hnd A B)).
    (* a title of x's own schema names something of x *)
    assert (Htx : forall i, In (KName i) (titles_of (build_alt x)) -> In i (L.ids x)).
    { intros i H. destruct (T1x _ H) as [i' [A B]]. inversion A; subst. exact B. }
    assert (Htk : forall i, In (KName i) (tk (item_id x)) -> i = item_id x).
    { intros i H. apply tk_in in H. inversion H. reflexivity. }
    cbn [L.unions_ok] in Hu. cbn [L.sib_ok] in Hsib. cbn [odo_kids] in Hodo. cbn [L.assemble_d].
    destruct (item_redef x) as [u|] eqn:Er.
    - (* a redefiner: its placeholder *)
      apply andb_true_iff in Hu as [_ Hux]. apply andb_true_iff in Hsib as [HuB _]. apply L.existsb_eqb_In in HuB.
      apply andb_true_iff in Hodo as [_ Hodoxs].
      pose proof (I2' x u (or_introl eq_refl) Er HuB) as Hus.
      destruct (usable_lookup c _ I1 Hus) as [cl Hl].
      destruct (register_adds (JRef (KName (item_id x))) CRef c) as [r [Er' Ar]]. cbn [js_anchor] in Er'.
      assert (Hr : forall i, titled r (KName i) -> i = item_id x).
      { intros i H. apply (adds_titled _ _ _ _ Ar) in H. rewrite own_title_ref in H. apply Htk. exact H. }
      destruct (IH bases (r ++ c) seen HMxs Hwxs Hndxs Hux) as [c2 [l2 [E2 G2]]].
      + intros v Hv Hin. apply (HB v Hv). right. exact Hin.
      + split; [apply Forall_app; split; [exact (adds_ok _ _ _ Ar)|exact I1]|]. split; [|split].
        * intros y Hy Hc i Hi Ht. apply titled_app in Ht as [Ht|Ht].
          -- apply Hr in Ht. subst i. apply Hidx. apply (Hkid y Hy). exact Hi.
          -- apply (I2 y (or_intror Hy) Hc i Hi Ht).
        * intros y u' Hy Ey Hu'. apply usable_ext; [apply (I2' y u' (or_intror Hy) Ey Hu')|].
          intros Ht. apply Hr in Ht. apply Hidx. rewrite <- Ht. apply (Hkid y Hy). apply L.item_id_in_ids.
        * intros j Hj. destruct (I3 j Hj) as [A Bn]. split.
          -- apply usable_ext; [exact A|]. intros Ht. apply Hr in Ht. subst j. apply Bn. cbn [L.ids_kids]. apply in_or_app. left. apply L.item_id_in_ids.
          -- intros H. apply Bn. cbn [L.ids_kids]. apply in_or_app. right. exact H.
      + exact Hodoxs.
      + exists c2, ([(KName (item_id x), clookup (KName (item_id x)) c)] ++ l2).
        rewrite lwalk_props_cons, lwalk_JRef, Er', E2. split; [reflexivity|].
        apply Forall_app. split; [|exact G2]. constructor; [|constructor]. exists cl. cbn [fst snd]. exact Hl.
    - (* not a redefiner: x is built in place *)
      apply andb_true_iff in Hu as [Hux Huxs]. apply andb_true_iff in Hodo as [Hodox Hodoxs].
      assert (HxB : ~ In (item_id x) (map fst bases)) by (intros H; apply (HB _ H); left; reflexivity).
      assert (Hnd_kid : ~ In (item_id x) (L.kid_ids xs)).
      { pose proof (L.NoDup_ids_kid_ids (ICons x xs) Hnd) as H. cbn [L.kid_ids] in H. inversion H; assumption. }
      assert (HB' : forall v, In v (map fst ((item_id x, extent e x) :: bases)) -> ~ In v (L.kid_ids xs)).
      { intros v [<-|Hv]; [exact Hnd_kid|]. intros Hin. apply (HB v Hv). right. exact Hin. }
      assert (I2x : forall i, In i (L.ids x) -> ~ titled c (KName i)).
      { apply (I2 x (or_introl eq_refl)). rewrite Er. exact I. }
      destruct (Mx c seen Hwx Hndx) as [c1 [l1 [E1 G1]]].
      { split; [exact I1|]. split; [exact I2x|]. intros j Hj. destruct (I3 j Hj) as [A Bn]. split; [exact A|].
        intros H. apply Bn. cbn [L.ids_kids]. apply in_or_app. left. exact H. }
      { exact Hodox. }
      destruct (proj1 lwalk_adds _ _ _ _ E1) as [r1 [Ec1 A1]].
      destruct (existsb (N.eqb (item_id x)) (redef_targets xs)) eqn:Et.
      + (* x is redefined: REDEFINES-x oneOf [x, its redefiners], then the placeholder of x *)
        assert (Hnt : L.elem_table x = false).
        { cbn in Hux. rewrite orb_false_r in Hux. destruct (L.elem_table x); [discriminate|reflexivity]. }
        assert (Helig : eligible x xs = false).
        { destruct (eligible x xs) eqn:El; [|reflexivity]. apply eligible_not_target in El. rewrite El in Et. discriminate. }
        rewrite Helig in Hodoxs. cbn [app] in Hodoxs.
        destruct (walk_alts_red (item_id x) xs c1 HMxs Hwxs Hndxs) as [c2 [l2 [E2 G2]]].
        { subst c1. apply Forall_app. split; [exact (adds_ok _ _ _ A1)|exact I1]. }
        { subst c1. intros y Hy Ey i Hi Ht. apply titled_app in Ht as [Ht|Ht].
          - apply (adds_titled _ _ _ _ A1) in Ht. apply (Hdisj i (Htx i Ht)). apply (Hkid y Hy). exact Hi.
          - apply (I2 y (or_intror Hy)) in Ht; [exact Ht| |exact Hi]. rewrite Ey. exact HxB. }
        { intros y Hy Ey. apply (odo_kids_redef _ xs y Hodoxs Hy). rewrite Ey. discriminate. }
        set (one := JOne (Some (KRedef (item_id x))) (ACons (build_alt x) (L.alts_red (item_id x) xs))).
        assert (EJ : lwalk filler one c = Ok (register filler one (COneOf, Some (KRedef (item_id x))) c2, l1 ++ l2)).
        { unfold one. rewrite lwalk_JOne, lwalk_alts_cons, E1, E2. reflexivity. }
        destruct (proj1 lwalk_adds _ _ _ _ EJ) as [r3 [Ec3 A3]].
        unfold one in A3. rewrite anchors_one, titles_one in A3. fold one in A3.
        (* titles added so far name things of x or of a redefiner of x *)
        assert (Ht3 : forall i, titled r3 (KName i) ->
                      In i (L.ids x) \/ exists y, L.in_kids y xs /\ item_redef y = Some (item_id x) /\ In (KName i) (titles_of (build_alt y))).
        { intros i H. apply (adds_titled _ _ _ _ A3) in H. apply in_app_or in H as [H|H]; [left; apply Htx; exact H|].
          right. destruct (titles_alts_red _ _ _ H) as [y [A [B C]]]. exists y. auto. }
        assert (Ht3' : forall i, titled r3 (KName i) -> In i (L.ids x) \/ In i (L.ids_kids xs)).
        { intros i H. destruct (Ht3 i H) as [H'|[y [A [_ C]]]]; [left; exact H'|right].
          destruct (HT1xs y A _ C) as [i' [D E]]. inversion D; subst. apply (Hkid y A). exact E. }
        assert (Hk3 : forall j, In j (L.ids x) -> In (KName j) (keys r3)).
        { intros j Hj. apply (adds_keys _ _ _ _ A3). right. apply in_or_app. left. apply name_anchored. exact Hj. }
        assert (Hus : usable (r3 ++ c) (KName (item_id x))).
        { split; [apply keys_app_l, Hk3, L.item_id_in_ids|]. intros Ht. apply titled_app in Ht as [Ht|Ht].
          - destruct (Ht3 _ Ht) as [_|[y [A [_ C]]]].
            + apply (adds_titled _ _ _ _ A3) in Ht. apply in_app_or in Ht as [Ht|Ht].
              * pose proof (T2 x Hwx Hndx Ht) as Hc. rewrite Hnt in Hc. discriminate.
              * destruct (titles_alts_red _ _ _ Ht) as [y [A [_ C]]].
                destruct (HT1xs y A _ C) as [i' [D E']]. inversion D; subst. apply Hidx. apply (Hkid y A). exact E'.
            + destruct (HT1xs y A _ C) as [i' [D E']]. inversion D; subst. apply Hidx. apply (Hkid y A). exact E'.
          - apply (I2x _ (L.item_id_in_ids x) Ht). }
        assert (I13 : Forall entry_ok (r3 ++ c)) by (apply Forall_app; split; [exact (adds_ok _ _ _ A3)|exact I1]).
        destruct (usable_lookup _ _ I13 Hus) as [cl Hl].
        destruct (register_adds (JRef (KName (item_id x))) CRef (r3 ++ c)) as [r4 [Er4 A4]]. cbn [js_anchor] in Er4.
        assert (Hr4 : forall i, titled r4 (KName i) -> i = item_id x).
        { intros i H. apply (adds_titled _ _ _ _ A4) in H. rewrite own_title_ref in H. apply Htk. exact H. }
        destruct (IH ((item_id x, extent e x) :: bases) (r4 ++ r3 ++ c) (decl x ++ seen) HMxs Hwxs Hndxs Huxs HB') as [c5 [l5 [E5 G5]]].
        * split; [apply Forall_app; split; [exact (adds_ok _ _ _ A4)|exact I13]|]. split; [|split].
          -- intros y Hy Hc i Hi Ht. apply titled_app in Ht as [Ht|Ht]; [apply Hr4 in Ht; subst i; apply Hidx, (Hkid y Hy), Hi|].
             apply titled_app in Ht as [Ht|Ht].
             ++ destruct (Ht3 i Ht) as [H'|[y' [A [B C]]]]; [apply (Hdisj i H'), (Hkid y Hy), Hi|].
                destruct (HT1xs y' A _ C) as [i' [D E']]. inversion D; subst i'.
                assert (y' = y) by (apply (kids_disjoint xs y' y i A Hy Hndxs E' Hi)). subst y'.
                rewrite B in Hc. apply Hc. left. reflexivity.
             ++ apply (I2 y (or_intror Hy)) in Ht; [exact Ht| |exact Hi].
                destruct (item_redef y); [|exact I]. intros H. apply Hc. right. exact H.
          -- intros y u' Hy Ey Hu'. 
             assert (Hidy : In (item_id y) (L.ids_kids xs)) by (apply (Hkid y Hy), L.item_id_in_ids).
             assert (Hnew : ~ titled r4 (KName (item_id y))) by (intros Ht; apply Hr4 in Ht; apply Hidx; rewrite <- Ht; exact Hidy).
             destruct Hu' as [<-|Hu'].
             ++ split.
                ** rewrite app_assoc. apply keys_app_l. unfold keys. rewrite map_app. apply in_or_app. right.
                   apply (adds_keys _ _ _ _ A3). right. apply in_or_app. right.
                   apply (anchors_alts_red _ xs y _ Hy Ey). apply name_anchored. apply L.item_id_in_ids.
                ** intros Ht. apply titled_app in Ht as [Ht|Ht]; [exact (Hnew Ht)|]. apply titled_app in Ht as [Ht|Ht].
                   --- destruct (Ht3 _ Ht) as [H'|[y' [A [B C]]]]; [exact (Hdisj _ H' Hidy)|].
                       destruct (HT1xs y' A _ C) as [i' [D E']]. inversion D; subst i'.
                       assert (y' = y) by (apply (kids_disjoint xs y' y _ A Hy Hndxs E' (L.item_id_in_ids y))). subst y'.
                       pose proof (T2 y (wf8_kids_in y xs Hy Hwxs) (L.NoDup_ids_kid y xs Hy Hndxs) C) as Hc.
                       rewrite (unions_redef_not_table _ xs y Huxs Hy) in Hc; [discriminate|rewrite Ey; discriminate].
                   --- apply (I2 y (or_intror Hy)) in Ht; [exact Ht| |apply L.item_id_in_ids]. rewrite Ey. exact HxB.
             ++ rewrite app_assoc. apply usable_ext; [apply (I2' y u' (or_intror Hy) Ey Hu')|].
                intros Ht. apply titled_app in Ht as [Ht|Ht]; [exact (Hnew Ht)|].
                destruct (Ht3 _ Ht) as [H'|[y' [A [B C]]]]; [exact (Hdisj _ H' Hidy)|].
                destruct (HT1xs y' A _ C) as [i' [D E']]. inversion D; subst i'.
                assert (y' = y) by (apply (kids_disjoint xs y' y _ A Hy Hndxs E' (L.item_id_in_ids y))). subst y'.
                rewrite Ey in B. inversion B; subst u'. exact (HxB Hu').
          -- intros j Hj. apply in_app_or in Hj as [Hj|Hj].
             ++ destruct (decl_strict x j Hndx Hj) as [Jx Jne]. split; [|intros H; exact (Hdisj j Jx H)].
                split.
                ** rewrite app_assoc. apply keys_app_l. unfold keys. rewrite map_app. apply in_or_app. right. apply Hk3. exact Jx.
                ** intros Ht. apply titled_app in Ht as [Ht|Ht]; [apply Hr4 in Ht; exact (Jne Ht)|]. apply titled_app in Ht as [Ht|Ht].
                   --- apply (adds_titled _ _ _ _ A3) in Ht. apply in_app_or in Ht as [Ht|Ht]; [exact (T3x j Hj Ht)|].
                       destruct (titles_alts_red _ _ _ Ht) as [y [A [_ C]]].
                       destruct (HT1xs y A _ C) as [i' [D E']]. inversion D; subst i'. apply (Hdisj j Jx). apply (Hkid y A). exact E'.
                   --- exact (I2x j Jx Ht).
             ++ destruct (I3 j Hj) as [A Bn]. 
                assert (Jnx : ~ In j (L.ids x)) by (intros H; apply Bn; cbn [L.ids_kids]; apply in_or_app; left; exact H).
                assert (Jnxs : ~ In j (L.ids_kids xs)) by (intros H; apply Bn; cbn [L.ids_kids]; apply in_or_app; right; exact H).
                split; [|exact Jnxs]. rewrite app_assoc. apply usable_ext; [exact A|].
                intros Ht. apply titled_app in Ht as [Ht|Ht]; [apply Hr4 in Ht; subst j; apply Jnx, L.item_id_in_ids|].
                destruct (Ht3' j Ht) as [H|H]; contradiction.
        * exact Hodoxs.
        * exists c5, ((l1 ++ l2) ++ [(KName (item_id x), clookup (KName (item_id x)) (r3 ++ c))] ++ l5).
          fold one. rewrite lwalk_props_cons, EJ, lwalk_props_cons, lwalk_JRef, Ec3, Er4, E5. split; [reflexivity|].
          apply Forall_app. split; [apply Forall_app; split; assumption|]. apply Forall_app. split; [|exact G5].
          constructor; [|constructor]. exists cl. cbn [fst snd]. exact Hl.
      + (* plain child *)
        subst c1.
        assert (Ht1 : forall i, titled r1 (KName i) -> In i (L.ids x)).
        { intros i H. apply Htx. apply (adds_titled _ _ _ _ A1). exact H. }
        assert (Hk1 : forall j, In j (L.ids x) -> In (KName j) (keys r1)).
        { intros j Hj. apply (adds_keys _ _ _ _ A1). apply name_anchored. exact Hj. }
        destruct (IH ((item_id x, extent e x) :: bases) (r1 ++ c)
                    ((if eligible x xs then [item_id x] else []) ++ decl x ++ seen) HMxs Hwxs Hndxs Huxs HB') as [c5 [l5 [E5 G5]]].
        * split; [apply Forall_app; split; [exact (adds_ok _ _ _ A1)|exact I1]|]. split; [|split].
          -- intros y Hy Hc i Hi Ht. apply titled_app in Ht as [Ht|Ht]; [exact (Hdisj i (Ht1 i Ht) (Hkid y Hy i Hi))|].
             apply (I2 y (or_intror Hy)) in Ht; [exact Ht| |exact Hi].
             destruct (item_redef y); [|exact I]. intros H. apply Hc. right. exact H.
          -- intros y u' Hy Ey Hu'. cbn [map fst] in Hu'. destruct Hu' as [<-|Hu'].
             ++ exfalso. pose proof (L.redef_targets_spec xs y _ Hy Ey) as H. apply existsb_N_In in H. rewrite H in Et. discriminate.
             ++ apply usable_ext; [apply (I2' y u' (or_intror Hy) Ey Hu')|]. intros Ht.
                apply (Hdisj _ (Ht1 _ Ht)). apply (Hkid y Hy), L.item_id_in_ids.
          -- intros j Hj. apply in_app_or in Hj as [Hj|Hj]; [|apply in_app_or in Hj as [Hj|Hj]].
             ++ destruct (eligible x xs) eqn:El; [|destruct Hj]. destruct Hj as [<-|[]]. split; [|exact Hidx].
                split; [apply keys_app_l, Hk1, L.item_id_in_ids|]. intros Ht. apply titled_app in Ht as [Ht|Ht].
                ** apply (adds_titled _ _ _ _ A1) in Ht. destruct x as [i sz oc rd|]; [|discriminate].
                   cbn [eligible] in El. destruct oc; try discriminate. rewrite elem_titles in Ht. destruct Ht.
                ** exact (I2x _ (L.item_id_in_ids x) Ht).
             ++ destruct (decl_strict x j Hndx Hj) as [Jx Jne]. split; [|intros H; exact (Hdisj j Jx H)].
                split; [apply keys_app_l, Hk1, Jx|]. intros Ht. apply titled_app in Ht as [Ht|Ht].
                ** apply (adds_titled _ _ _ _ A1) in Ht. exact (T3x j Hj Ht).
                ** exact (I2x j Jx Ht).
             ++ destruct (I3 j Hj) as [A Bn].
                assert (Jnx : ~ In j (L.ids x)) by (intros H; apply Bn; cbn [L.ids_kids]; apply in_or_app; left; exact H).
                split; [|intros H; apply Bn; cbn [L.ids_kids]; apply in_or_app; right; exact H].
                apply usable_ext; [exact A|]. intros Ht. exact (Jnx (Ht1 j Ht)).
        * exact Hodoxs.
        * exists c5, (l1 ++ l5). rewrite lwalk_props_cons, E1, E5. split; [reflexivity|apply Forall_app; split; assumption].
  Qed.

  Lemma register_obj_none ps d c : register filler (JObj None ps) d c = c.
  Proof. reflexivity. Qed.

  Lemma main_all : (forall x, Main x) /\ (forall ks y, L.in_kids y ks -> Main y).
  Proof.
    apply item_items_ind.
    - intros i sz oc rd c seen Hw Hnd [P1 [P2 P3]] Hodo. destruct oc as [|n|cn].
      + eexists; eexists; split; [reflexivity|constructor].
      + eexists; eexists; split; [reflexivity|constructor].
      + cbn [build_alt]. rewrite lwalk_JOdo.
        assert (exists c1, lwalk filler (elem_items i sz) c = Ok (c1, [])) as [c1 E1] by (eexists; reflexivity).
        rewrite E1. destruct (proj1 lwalk_adds _ _ _ _ E1) as [r1 [-> A1]].
        cbn [odo_ok item_oc counter_in] in Hodo. rewrite andb_true_r in Hodo. apply existsb_N_In in Hodo.
        destruct (P3 cn Hodo) as [Hus _].
        assert (Hus' : usable (r1 ++ c) (KName cn)).
        { apply usable_ext; [exact Hus|]. intros Ht. apply (adds_titled _ _ _ _ A1) in Ht. destruct Ht. }
        destruct (usable_lookup _ _ (proj2 (Forall_app _ _ _) (conj (adds_ok _ _ _ A1) P1)) Hus') as [cl Hl].
        rewrite Hl. eexists; eexists; split; [reflexivity|]. constructor; [|constructor]. exists cl. reflexivity.
    - intros i oc rd ks IH c seen Hw Hnd [P1 [P2 P3]] Hodo.
      assert (Hw' := Hw). cbn [wf8] in Hw'. apply andb_true_iff in Hw' as [Hw' Hoc]. apply andb_true_iff in Hw' as [Hwk Hu].
      cbn [L.ids item_id] in Hnd. inversion Hnd as [|? ? Hi Hndk]; subst.
      cbn [odo_ok item_oc] in Hodo. apply andb_true_iff in Hodo as [Hcnt Hok].
      destruct (loop ks [] c seen IH Hwk Hndk Hu) as [c1 [l1 [E1 G1]]].
      { intros u []. }
      { split; [exact P1|]. split; [|split].
        - intros y Hy _ j Hj. apply P2. cbn [L.ids]. right. apply (L.in_kids_ids_incl y ks Hy). exact Hj.
        - intros y u _ _ [].
        - intros j Hj. destruct (P3 j Hj) as [A Bn]. split; [exact A|]. intros H. apply Bn. cbn [L.ids]. right. exact H. }
      { exact Hok. }
      destruct oc as [|n|cn].
      + rewrite (L.build_group_once e) by assumption. rewrite lwalk_JObj, E1. eexists; eexists; split; [reflexivity|exact G1].
      + destruct (redef_targets ks) eqn:Er; [|discriminate]. cbn [build_alt]. rewrite <- (L.no_redef_assemble ks Er).
        rewrite lwalk_JArr, lwalk_JObj, E1. eexists; eexists; split; [reflexivity|exact G1].
      + destruct (redef_targets ks) eqn:Er; [|discriminate]. cbn [build_alt]. rewrite <- (L.no_redef_assemble ks Er).
        rewrite lwalk_JOdo, lwalk_JObj, E1, register_obj_none.
        destruct (proj1 (proj2 lwalk_adds) _ _ _ _ E1) as [r1 [-> A1]].
        cbn [counter_in] in Hcnt. apply existsb_N_In in Hcnt. destruct (P3 cn Hcnt) as [Hus Hn].
        assert (HT1 : forall y, L.in_kids y ks -> T1 y).
        { intros y Hy. apply (proj2 titles_facts ks Hwk y Hy). apply (L.NoDup_ids_kid y ks Hy Hndk). }
        assert (Hus' : usable (r1 ++ c) (KName cn)).
        { apply usable_ext; [exact Hus|]. intros Ht. apply (adds_titled _ _ _ _ A1) in Ht.
          destruct (T1_kids ks HT1 _ Ht) as [j [A B]]. inversion A; subst. apply Hn. cbn [L.ids]. right. exact B. }
        destruct (usable_lookup _ _ (proj2 (Forall_app _ _ _) (conj (adds_ok _ _ _ A1) P1)) Hus') as [cl Hl].
        rewrite Hl. eexists; eexists; split; [reflexivity|]. apply Forall_app. split; [exact G1|].
        constructor; [|constructor]. exists cl. reflexivity.
    - intros y [].
    - intros x IHx xs IHxs y [->|Hy]; [exact IHx|apply IHxs; exact Hy].
  Qed.

  Lemma lwalk_sites :
    (forall s c c' l, lwalk filler s c = Ok (c', l) -> map fst l = site_keys s)
    /\ (forall ps c c' l, lwalk_props filler ps c = Ok (c', l) -> map fst l = site_keys_props ps)
    /\ (forall al c c' l, lwalk_alts filler al c = Ok (c', l) -> map fst l = site_keys_alts al).
  Proof.
    apply js_props_alts_ind.
    - intros a sz c c' l H. rewrite lwalk_JAtom in H. inversion H; reflexivity.
    - intros a n its IH c c' l H. rewrite lwalk_JArr in H.
      destruct (lwalk filler its c) as [[c1 l1]|] eqn:E1; [|discriminate]. inversion H; subst. apply (IH _ _ _ E1).
    - intros a cn its IH c c' l H. rewrite lwalk_JOdo in H.
      destruct (lwalk filler its c) as [[c1 l1]|] eqn:E1; [|discriminate].
      destruct (clookup (KName cn) c1); [|discriminate]. inversion H; subst.
      rewrite map_app. change (site_keys (JOdo a cn its)) with (site_keys its ++ [KName cn]). f_equal. exact (IH _ _ _ E1).
    - intros a ps IH c c' l H. rewrite lwalk_JObj in H.
      destruct (lwalk_props filler ps c) as [[c1 l1]|] eqn:E1; [|discriminate]. inversion H; subst. apply (IH _ _ _ E1).
    - intros a al IH c c' l H. destruct al as [|s0 r0]; [discriminate|]. rewrite lwalk_JOne in H.
      destruct (lwalk_alts filler (ACons s0 r0) c) as [[c1 l1]|] eqn:E1; [|discriminate]. inversion H; subst. apply (IH _ _ _ E1).
    - intros k c c' l H. rewrite lwalk_JRef in H. inversion H; reflexivity.
    - intros c c' l H. cbn in H. inversion H; reflexivity.
    - intros k s IHs r IHr c c' l H. rewrite lwalk_props_cons in H.
      destruct (lwalk filler s c) as [[c1 l1]|] eqn:E1; [|discriminate].
      destruct (lwalk_props filler r c1) as [[c2 l2]|] eqn:E2; [|discriminate]. inversion H; subst.
      rewrite map_app. change (site_keys_props (PCons k s r)) with (site_keys s ++ site_keys_props r). f_equal; [exact (IHs _ _ _ E1)|exact (IHr _ _ _ E2)].
    - intros c c' l H. cbn in H. inversion H; reflexivity.
    - intros s IHs r IHr c c' l H. rewrite lwalk_alts_cons in H.
      destruct (lwalk filler s c) as [[c1 l1]|] eqn:E1; [|discriminate].
      destruct (lwalk_alts filler r c1) as [[c2 l2]|] eqn:E2; [|discriminate]. inversion H; subst.
      rewrite map_app. change (site_keys_alts (ACons s r)) with (site_keys s ++ site_keys_alts r). f_equal; [exact (IHs _ _ _ E1)|exact (IHr _ _ _ E2)].
  Qed.

  Lemma resolve_good c : forall l, Forall good_site l ->
    exists l', resolve c l = Ok l' /\ map fst l' = map fst l /\ forall k d, In (k, d) l' -> snd d = Some k.
  Proof.
    induction l as [|[k o] l IH]; intros H; [exists []; split; [reflexivity|split; [reflexivity|intros k d []]]|].
    inversion H as [|? ? [cl Hg] Hr]; subst. cbn [fst snd] in Hg. subst o.
    destruct (IH Hr) as [l' [E [M G]]]. exists ((k, (cl, Some k)) :: l'). cbn [resolve]. rewrite E.
    split; [reflexivity|]. split; [cbn [map fst]; rewrite M; reflexivity|].
    intros k' d [Heq|Hin]; [inversion Heq; reflexivity|apply (G k' d Hin)].
  Qed.

  Lemma load_build t :
    NoDup (ids_of t) -> wf8 e t = true -> odo_ok [] t = true ->
    exists l, load filler (build t) = Ok l /\ map fst l = site_keys (build t)
              /\ forall k d, In (k, d) l -> snd d = Some k.
  Proof.
    intros Hnd Hw Hodo. rewrite <- (proj1 ids_bridge) in Hnd.
    destruct (proj1 main_all t [] [] Hw Hnd) as [c' [l [E G]]].
    { split; [constructor|]. split; [intros i _ [cl []]|intros j []]. }
    { exact Hodo. }
    destruct (resolve_good c' l G) as [l' [Er [M Gl]]].
    exists l'. unfold load, build. rewrite E, Er. split; [reflexivity|]. split; [|exact Gl].
    rewrite M. apply (proj1 lwalk_sites _ _ _ _ E).
  Qed.
End LoadP.
