(* Proofs for the heap model of C11's first half (Model/Heap.v): the FRAME property.

   Invariant carried through a history (keeps n0 h h'): the heap only grows, and every object that existed when the history
   began (oid < n0) keeps its region and kind; a document object (RDoc) is literally the same; a Schema node (RNode) has the
   same value in every slot other than ref_to.  A clean write preserves it because its target is the root object itself
   (depth 0) and that object is either younger than the history (FRESH: mark <= base, and n0 <= mark), or lies in RLib / RClass
   (OWN / CLASSLEVEL: not a document object, not a Schema node), or is a Schema node of which only ref_to is written (REFSLOT). *)
From Coq Require Import String List Bool Arith ZArith Lia.
Import ListNotations.
Require Import SR.Model.HeapRule SR.Model.Heap.
Open Scope string_scope.
Open Scope list_scope.
Open Scope nat_scope.

(* ------------------------------------------------------------------ lists *)

Lemma hget_hupd : forall h t f o,
  hget o (hupd t f h) = if Nat.eqb o t then option_map f (hget o h) else hget o h.
Proof.
  unfold hget. induction h as [|x r IH]; intros t f o.
  - cbn. destruct (Nat.eqb o t); destruct o; reflexivity.
  - destruct t as [|t]; destruct o as [|o]; cbn; try reflexivity. apply IH.
Qed.

Lemma length_hupd : forall h t f, length (hupd t f h) = length h.
Proof. induction h as [|x r IH]; intros [|t] f; cbn; auto. Qed.

Lemma hget_app : forall h l o ob, hget o h = Some ob -> hget o (h ++ l) = Some ob.
Proof.
  unfold hget. intros h l o ob H. rewrite nth_error_app1; auto. apply nth_error_Some. congruence.
Qed.

Lemma hget_lt : forall h o ob, hget o h = Some ob -> o < length h.
Proof. unfold hget. intros h o ob H. apply nth_error_Some. congruence. Qed.

Lemma dget_dset_other : forall d k k' v, k' <> k -> dget k' (dset k v d) = dget k' d.
Proof.
  induction d as [|[k0 v0] r IH]; intros k k' v Hne; cbn.
  - destruct (String.eqb k' k) eqn:E; auto. apply String.eqb_eq in E. contradiction.
  - destruct (String.eqb k k0) eqn:E; cbn.
    + apply String.eqb_eq in E. subst k0. destruct (String.eqb k' k) eqn:E2; auto.
      apply String.eqb_eq in E2. contradiction.
    + destruct (String.eqb k' k0); auto.
Qed.

Lemma dget_ddel_other : forall d k k', k' <> k -> dget k' (ddel k d) = dget k' d.
Proof.
  induction d as [|[k0 v0] r IH]; intros k k' Hne; cbn; auto.
  destruct (String.eqb k k0) eqn:E; cbn.
  - apply String.eqb_eq in E. subst k0. rewrite IH by auto.
    destruct (String.eqb k' k) eqn:E2; auto. apply String.eqb_eq in E2. contradiction.
  - destruct (String.eqb k' k0); auto.
Qed.

Lemma dget_wr_other : forall ob k v k', k' <> k -> dget k' (o_slots (wr k v ob)) = dget k' (o_slots ob).
Proof. intros ob k [x|] k' H; cbn; [apply dget_dset_other | apply dget_ddel_other]; auto. Qed.

Lemma region_eqb_eq : forall a b, region_eqb a b = true <-> a = b.
Proof. intros [] []; cbn; split; intros H; try reflexivity; try discriminate. Qed.

(* ------------------------------------------------------------------ summaries *)

Lemma site_eqb_clean : forall a b, site_eqb a b = true -> site_clean a = site_clean b.
Proof.
  intros [ra da na] [rb db nb]. unfold site_eqb, site_clean. cbn. intros H.
  apply andb_true_iff in H. destruct H as [H _]. apply andb_true_iff in H. destruct H as [Hr Hd].
  apply Nat.eqb_eq in Hd. subst db.
  destruct ra, rb; cbn in Hr; try discriminate; reflexivity.
Qed.

Lemma performed_site_clean : forall T f si,
  fn_clean T f = true -> existsb (site_eqb si) (sites T f) = true -> site_clean si = true.
Proof.
  intros T f si Hc Hex. apply existsb_exists in Hex. destruct Hex as [s' [Hin Heq]].
  unfold fn_clean in Hc. rewrite forallb_forall in Hc. rewrite (site_eqb_clean _ _ Heq). auto.
Qed.

Lemma sites_clean_of_table : forall T f, table_clean T = true -> fn_clean T f = true.
Proof.
  unfold fn_clean. induction T as [|[g l] r IH]; intros f H; cbn; auto.
  cbn in H. apply andb_true_iff in H. destruct H as [Hl Hr].
  destruct (String.eqb f g); auto.
Qed.

Lemma call_clean_of_table : forall T c, table_clean T = true -> call_clean T c = true.
Proof.
  intros T c H. unfold call_clean. rewrite sites_clean_of_table by auto. cbn.
  apply forallb_forall. intros a _. destruct a; cbn; auto. apply sites_clean_of_table; auto.
Qed.

(* ------------------------------------------------------------------ the invariant *)

Definition same_but_ref_to (ob ob' : obj) : Prop :=
  forall k, k <> k_ref_to -> dget k (o_slots ob') = dget k (o_slots ob).

Definition keeps (n0 : nat) (h h' : heap) : Prop :=
  length h <= length h' /\
  forall o ob, o < n0 -> hget o h = Some ob ->
    exists ob', hget o h' = Some ob' /\ o_reg ob' = o_reg ob /\ o_kind ob' = o_kind ob
                /\ (o_reg ob = RDoc -> ob' = ob)
                /\ (o_reg ob = RNode -> same_but_ref_to ob ob').

Lemma keeps_refl : forall n0 h, keeps n0 h h.
Proof.
  intros n0 h. split; [lia|]. intros o ob _ H. exists ob. repeat split; auto; try (intros _ ? _; reflexivity).
Qed.

Lemma keeps_trans : forall n0 h1 h2 h3, keeps n0 h1 h2 -> keeps n0 h2 h3 -> keeps n0 h1 h3.
Proof.
  intros n0 h1 h2 h3 [L1 K1] [L2 K2]. split; [lia|].
  intros o ob Ho H1. destruct (K1 o ob Ho H1) as [ob2 [H2 [R2 [Kd2 [D2 N2]]]]].
  destruct (K2 o ob2 Ho H2) as [ob3 [H3 [R3 [Kd3 [D3 N3]]]]].
  exists ob3. split; [auto|]. split; [congruence|]. split; [congruence|]. split.
  - intros Hd. rewrite D3 by congruence. auto.
  - intros Hn k Hk. rewrite (N3 ltac:(congruence) k Hk). apply N2; auto.
Qed.

(* a write that stays away from the old objects *)
Lemma keeps_young : forall n0 h t f, n0 <= t -> keeps n0 h (hupd t f h).
Proof.
  intros n0 h t f Hle. split; [rewrite length_hupd; lia|].
  intros o ob Ho H. exists ob. rewrite hget_hupd. destruct (Nat.eqb o t) eqn:E.
  - apply Nat.eqb_eq in E. lia.
  - repeat split; auto; try (intros _ ? _; reflexivity).
Qed.

(* a write to an object that is neither a document object nor a Schema node *)
Lemma keeps_lib : forall n0 h t ob0 k v,
  hget t h = Some ob0 -> o_reg ob0 <> RDoc -> o_reg ob0 <> RNode -> keeps n0 h (hupd t (wr k v) h).
Proof.
  intros n0 h t ob0 k v Ht Hd Hn. split; [rewrite length_hupd; lia|].
  intros o ob Ho H. rewrite hget_hupd. destruct (Nat.eqb o t) eqn:E.
  - apply Nat.eqb_eq in E. subst o. rewrite H. cbn. exists (wr k v ob).
    assert (ob = ob0) by congruence. subst ob0.
    repeat split; auto; intros; contradiction.
  - exists ob. repeat split; auto; try (intros _ ? _; reflexivity).
Qed.

(* a write to the slot ref_to of a Schema node *)
Lemma keeps_refslot : forall n0 h t ob0 v,
  hget t h = Some ob0 -> o_reg ob0 = RNode -> keeps n0 h (hupd t (wr k_ref_to v) h).
Proof.
  intros n0 h t ob0 v Ht Hn. split; [rewrite length_hupd; lia|].
  intros o ob Ho H. rewrite hget_hupd. destruct (Nat.eqb o t) eqn:E.
  - apply Nat.eqb_eq in E. subst o. rewrite H. cbn. exists (wr k_ref_to v ob).
    assert (ob = ob0) by congruence. subst ob0.
    split; [reflexivity|]. split; [reflexivity|]. split; [reflexivity|]. split.
    + intros Hd. congruence.
    + intros _ k Hk. apply dget_wr_other; auto.
  - exists ob. repeat split; auto; try (intros _ ? _; reflexivity).
Qed.

Lemma keeps_alloc : forall n0 h x, keeps n0 h (h ++ [x]).
Proof.
  intros n0 h x. split; [rewrite app_length; cbn; lia|].
  intros o ob _ H. exists ob. split; [apply hget_app; auto|]. repeat split; auto; try (intros _ ? _; reflexivity).
Qed.

Lemma keeps_release : forall n0 h o r, n0 <= o -> keeps n0 h (hupd o (set_reg r) h).
Proof. intros. apply keeps_young; auto. Qed.

(* ------------------------------------------------------------------ one action, one call, a history *)

Lemma follow_nil : forall h o t, follow h o [] = Some t -> t = o.
Proof. intros h o t H. cbn in H. destruct (hget o h); congruence. Qed.

Lemma exec_act_keeps : forall T n0 s a s',
  n0 <= mark s -> act_clean T a = true -> exec_act T s a = Some s' ->
  keeps n0 (hp s) (hp s') /\ mark s' = mark s.
Proof.
  intros T n0 s a s' Hm Hc H. destruct a as [o | k sl | f si base path k v | o r]; cbn in H.
  - destruct (hget o (hp s)); inversion H; subst. split; [apply keeps_refl | auto].
  - inversion H; subst; cbn. split; [apply keeps_alloc | auto].
  - cbn in Hc.
    destruct (existsb (site_eqb si) (sites T f)) eqn:Hex; cbn in H; [|discriminate].
    destruct (Nat.eqb (length path) (s_depth si)) eqn:Hlen; [|discriminate].
    destruct (hget base (hp s)) as [ob|] eqn:Hb; [|discriminate].
    destruct (root_ok (s_root si) s base ob k) eqn:Hok; [|discriminate].
    destruct (follow (hp s) base path) as [tgt|] eqn:Hf; [|discriminate].
    inversion H; subst; cbn. split; [|reflexivity].
    pose proof (performed_site_clean T f si Hc Hex) as Hcl.
    unfold site_clean in Hcl. apply Nat.eqb_eq in Hlen.
    assert (Hd : s_depth si = 0) by (destruct (s_root si); try discriminate; apply Nat.eqb_eq; auto).
    rewrite Hd in Hlen. destruct path; [|discriminate]. apply follow_nil in Hf. subst tgt.
    destruct (s_root si) eqn:Hr; try discriminate; cbn in Hok.
    + (* FRESH *) apply Nat.leb_le in Hok. apply keeps_young. lia.
    + (* OWN *) apply region_eqb_eq in Hok. eapply keeps_lib; eauto; congruence.
    + (* CLASSLEVEL *) apply region_eqb_eq in Hok. eapply keeps_lib; eauto; congruence.
    + (* REFSLOT *) apply andb_true_iff in Hok. destruct Hok as [Hw Hk]. apply String.eqb_eq in Hk. subst k.
      apply orb_true_iff in Hw. destruct Hw as [Hn | Hy].
      * apply region_eqb_eq in Hn. eapply keeps_refslot; eauto.
      * apply Nat.leb_le in Hy. apply keeps_young. lia.
  - destruct (Nat.leb (mark s) o && releasable r) eqn:E; [|discriminate].
    destruct (hget o (hp s)); [|discriminate]. inversion H; subst; cbn.
    apply andb_true_iff in E. destruct E as [E _]. apply Nat.leb_le in E.
    split; [apply keeps_release; lia | auto].
Qed.

Lemma exec_acts_keeps : forall T n0 l s s',
  n0 <= mark s -> forallb (act_clean T) l = true -> exec_acts T s l = Some s' -> keeps n0 (hp s) (hp s').
Proof.
  intros T n0. induction l as [|a r IH]; intros s s' Hm Hc H; cbn in H.
  - inversion H; subst. apply keeps_refl.
  - cbn in Hc. apply andb_true_iff in Hc. destruct Hc as [Ha Hr].
    destruct (exec_act T s a) as [s1|] eqn:E; [|discriminate].
    destruct (exec_act_keeps T n0 s a s1 Hm Ha E) as [K1 M1].
    eapply keeps_trans; [exact K1|]. apply IH; auto. lia.
Qed.

Lemma run_keeps_gen : forall T n0 h s s',
  n0 <= length (hp s) -> forallb (call_clean T) h = true -> run T s h = Some s' -> keeps n0 (hp s) (hp s').
Proof.
  intros T n0. induction h as [|c r IH]; intros s s' Hn Hc H; cbn in H.
  - inversion H; subst. apply keeps_refl.
  - cbn in Hc. apply andb_true_iff in Hc. destruct Hc as [Ha Hr].
    destruct (exec_call T s c) as [s1|] eqn:E; [|discriminate].
    unfold exec_call in E. unfold call_clean in Ha. apply andb_true_iff in Ha. destruct Ha as [_ Ha].
    assert (K1 : keeps n0 (hp s) (hp s1)) by (apply (exec_acts_keeps T n0 _ _ _ (Hn : n0 <= mark (St (hp s) (length (hp s)))) Ha E)).
    eapply keeps_trans; [exact K1|]. apply IH; auto. destruct K1 as [L _]. lia.
Qed.

Theorem run_keeps : forall T h s0 s1,
  forallb (call_clean T) h = true -> run T s0 h = Some s1 -> keeps (length (hp s0)) (hp s0) (hp s1).
Proof. intros. eapply run_keeps_gen; eauto. Qed.

(* ------------------------------------------------------------------ the frame theorems *)

Theorem document_unchanged : forall (T : table) (h : list call) (s0 s1 : st),
  forallb (call_clean T) h = true -> run T s0 h = Some s1 ->
  forall o ob, hget o (hp s0) = Some ob -> o_reg ob = RDoc -> hget o (hp s1) = Some ob.
Proof.
  intros T h s0 s1 Hc Hr o ob Ho Hd. destruct (run_keeps T h s0 s1 Hc Hr) as [_ K].
  destruct (K o ob (hget_lt _ _ _ Ho) Ho) as [ob' [H1 [_ [_ [D _]]]]]. rewrite (D Hd) in H1. exact H1.
Qed.

Theorem loaded_schema_unchanged : forall (T : table) (h : list call) (s0 s1 : st),
  forallb (call_clean T) h = true -> run T s0 h = Some s1 ->
  forall o ob, hget o (hp s0) = Some ob -> o_reg ob = RNode ->
  exists ob', hget o (hp s1) = Some ob' /\ o_reg ob' = RNode /\ o_kind ob' = o_kind ob
              /\ forall k, k <> k_ref_to -> dget k (o_slots ob') = dget k (o_slots ob).
Proof.
  intros T h s0 s1 Hc Hr o ob Ho Hn. destruct (run_keeps T h s0 s1 Hc Hr) as [_ K].
  destruct (K o ob (hget_lt _ _ _ Ho) Ho) as [ob' [H1 [R [Kd [_ N]]]]].
  exists ob'. split; [auto|]. split; [congruence|]. split; [auto|]. apply N; auto.
Qed.

(* the document as a value *)
Lemma render_nonref : forall n h h' v, (forall o, v <> VRef o) -> render n h v = render n h' v.
Proof. intros n h h' v H. destruct v; destruct n; try reflexivity; exfalso; eapply H; reflexivity. Qed.

Lemma render_doc_same : forall h h',
  doc_closed h ->
  (forall o ob, hget o h = Some ob -> o_reg ob = RDoc -> hget o h' = Some ob) ->
  forall n o ob, hget o h = Some ob -> o_reg ob = RDoc -> render n h' (VRef o) = render n h (VRef o).
Proof.
  intros h h' Hcl Hsame. induction n as [|n IH]; intros o ob Ho Hd; [reflexivity|].
  cbn. rewrite (Hsame o ob Ho Hd). rewrite Ho. f_equal.
  apply map_ext_in. intros [k v] Hin. cbn. f_equal.
  destruct v as [| b | z | s | o']; try (destruct n; reflexivity).
  destruct (Hcl o ob Ho Hd k o' Hin) as [ob' [Ho' Hd']]. eapply IH; eauto.
Qed.

Theorem document_value_unchanged : forall (T : table) (h : list call) (s0 s1 : st),
  forallb (call_clean T) h = true -> run T s0 h = Some s1 -> doc_closed (hp s0) ->
  forall n o ob, hget o (hp s0) = Some ob -> o_reg ob = RDoc ->
  render n (hp s1) (VRef o) = render n (hp s0) (VRef o).
Proof.
  intros T h s0 s1 Hc Hr Hcl n o ob Ho Hd.
  eapply render_doc_same; eauto. intros; eapply document_unchanged; eauto.
Qed.

(* ... with a clean TABLE every history qualifies *)
Lemma all_calls_clean : forall T h, table_clean T = true -> forallb (call_clean T) h = true.
Proof. intros T h H. apply forallb_forall. intros c _. apply call_clean_of_table; auto. Qed.

Theorem clean_table_frame : forall (T : table), table_clean T = true ->
  forall (h : list call) (s0 s1 : st), run T s0 h = Some s1 ->
  (forall o ob, hget o (hp s0) = Some ob -> o_reg ob = RDoc -> hget o (hp s1) = Some ob)
  /\ (forall o ob, hget o (hp s0) = Some ob -> o_reg ob = RNode ->
      exists ob', hget o (hp s1) = Some ob' /\ o_reg ob' = RNode /\ o_kind ob' = o_kind ob
                  /\ forall k, k <> k_ref_to -> dget k (o_slots ob') = dget k (o_slots ob))
  /\ (doc_closed (hp s0) -> forall n o ob, hget o (hp s0) = Some ob -> o_reg ob = RDoc ->
      render n (hp s1) (VRef o) = render n (hp s0) (VRef o)).
Proof.
  intros T HT h s0 s1 Hr. pose proof (all_calls_clean T h HT) as Hc. split; [|split].
  - intros; eapply document_unchanged; eauto.
  - intros; eapply loaded_schema_unchanged; eauto.
  - intros; eapply document_value_unchanged; eauto.
Qed.

(* ------------------------------------------------------------------ sets of class-level sites *)

Lemma pair_eqb_eq : forall a b, pair_eqb a b = true <-> a = b.
Proof.
  intros [a1 a2] [b1 b2]. unfold pair_eqb. cbn. rewrite andb_true_iff, !String.eqb_eq. split.
  - intros [-> ->]. reflexivity.
  - intros H. inversion H. auto.
Qed.

Lemma incl_b_In : forall l1 l2, incl_b l1 l2 = true -> forall x, In x l1 -> In x l2.
Proof.
  intros l1 l2 H x Hin. unfold incl_b in H. rewrite forallb_forall in H. specialize (H x Hin).
  apply existsb_exists in H. destruct H as [y [Hy E]]. apply pair_eqb_eq in E. subst. auto.
Qed.

Lemma same_sites_iff : forall l1 l2, same_sites l1 l2 = true -> forall x, In x l1 <-> In x l2.
Proof.
  intros l1 l2 H x. unfold same_sites in H. apply andb_true_iff in H. destruct H as [H1 H2].
  split; apply incl_b_In; auto.
Qed.

(* doc_closedb reflects doc_closed *)
Lemma doc_closedb_sound : forall h, doc_closedb h = true -> doc_closed h.
Proof.
  intros h H o ob Ho Hd k o' Hin. unfold doc_closedb in H. rewrite forallb_forall in H.
  assert (Hin0 : In ob h) by (eapply nth_error_In; exact Ho).
  specialize (H ob Hin0). rewrite Hd in H. cbn in H.
  unfold refs_inb in H. rewrite forallb_forall in H. specialize (H (k, VRef o') Hin). cbn in H.
  destruct (hget o' h) as [ob'|]; [|discriminate]. exists ob'. split; auto. apply region_eqb_eq; auto.
Qed.
