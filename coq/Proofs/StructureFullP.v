(* Property C07: when structure() raises.  The full-strength REDEFINES statement:
   on a non-empty entry list with two-digit levels, structure returns exactly when every REDEFINES
   clause of a non-root entry names exactly one EARLIER SIBLING in the sense of the specification
   (Spec/Dde.v redefines_ok: same nearest preceding entry with a strictly smaller level number), and
   raises ValueError otherwise.

   Route.  Proofs/StructureP.v shows that the state of the stack walk, flattened, is the list P of
   the kept entries read so far and that its parent pointers are those of the specification
   (Inv: stflat s = P, stpars s = msp P).  Here:
     1. in a forest laid out in preorder from index i, every parent pointer other than the one
        handed in lies in [i, i + size) (filt_out_f), so the entries whose pointer is q, for a node q
        whose children start at i, are exactly the roots of its child list (filt_kids);
     2. hence the children so far of the node under which the next entry lands (the frame b left by
        pop) are exactly the entries of P whose specification parent is b (state_children);
     3. the specification's count of earlier siblings carrying the target name, a filter over
        positions, is the same count over the list of (pointer, entry) pairs (spec_at);
     4. so one step succeeds iff redefines_ok_at holds at that position (step_ok_iff), and the run
        succeeds iff it holds at all positions, failing with ValueError at the first one where it
        does not (run_char, redefines_error_full). *)
From Coq Require Import ZArith NArith List Bool Lia Arith ZifyBool ZifyN ZifyNat.
Import ListNotations.
Require Import SR.Base.Res SR.Spec.Dde SR.Model.Structure SR.Proofs.StructureP.
Open Scope nat_scope.

(* ================================================================= induction over trees *)

Section TreeInd.
  Variable Q : tree -> Prop.
  Hypothesis HQ : forall d b kids, Forall Q kids -> Q (TNode d b kids).
  Fixpoint tree_ind2 (t : tree) : Q t :=
    match t with
    | TNode d b kids =>
        HQ d b kids ((fix go (ks : list tree) : Forall Q ks :=
                        match ks with
                        | [] => Forall_nil Q
                        | k :: r => Forall_cons k (tree_ind2 k) (go r)
                        end) kids)
    end.
End TreeInd.

(* ================================================================= small list facts *)

Lemma combine_app_eq : forall {A B} (a a' : list A) (b b' : list B), length a = length b ->
  combine (a ++ a') (b ++ b') = combine a b ++ combine a' b'.
Proof.
  induction a as [|x a IH]; intros a' b b' H; destruct b as [|y b]; cbn [length] in H; try discriminate.
  - reflexivity.
  - cbn [app combine]. rewrite IH by lia. reflexivity.
Qed.

Lemma nth_error_combine : forall {A B} (a : list A) (b : list B) j x y,
  nth_error (combine a b) j = Some (x, y) -> nth_error a j = Some x /\ nth_error b j = Some y.
Proof.
  induction a as [|x0 a IH]; intros b j x y H.
  - destruct j; discriminate.
  - destruct b as [|y0 b]; [destruct j; discriminate|]. destruct j as [|j].
    + cbn in H. inversion H; subst. split; reflexivity.
    + cbn [combine nth_error] in *. apply IH. exact H.
Qed.

Lemma filter_andb : forall {A} (f g : A -> bool) l, filter (fun x => f x && g x) l = filter g (filter f l).
Proof.
  induction l as [|x l IH]; [reflexivity|]. cbn [filter]. destruct (f x); cbn [andb filter].
  - destruct (g x); rewrite IH; reflexivity.
  - exact IH.
Qed.

(* counting over positions = counting over the list *)
Lemma count_seq : forall {X} (g : X -> bool) (C : list X) (f : nat -> bool) base,
  (forall j x, nth_error C j = Some x -> f (base + j) = g x) ->
  length (filter f (seq base (length C))) = length (filter g C).
Proof.
  intros X g. induction C as [|x C IH]; intros f base H; [reflexivity|].
  cbn [length seq filter]. pose proof (H 0 x eq_refl) as H0. rewrite Nat.add_0_r in H0. rewrite H0.
  assert (IH' : length (filter f (seq (S base) (length C))) = length (filter g C)).
  { apply IH. intros j y Hj. specialize (H (S j) y Hj). rewrite Nat.add_succ_r in H. exact H. }
  destruct (g x); cbn [length]; rewrite IH'; reflexivity.
Qed.

Lemma name_eqb_str : forall a b, name_eqb a b = str_eqb a b.
Proof.
  induction a as [|x a IH]; destruct b as [|y b]; cbn [name_eqb str_eqb]; try reflexivity.
Qed.

(* ================================================================= parent pointers of a forest in preorder *)

(* the pair (pointer, entry) selects parent q *)
Definition pm (q : nat) (x : option nat * dde) : bool := opt_nat_eqb (fst x) (Some q).

Lemma pm_neq : forall q p d, p <> Some q -> pm q (p, d) = false.
Proof.
  intros q p d H. unfold pm. cbn [fst]. destruct p as [j|]; cbn [opt_nat_eqb]; [|reflexivity].
  destruct (Nat.eqb j q) eqn:E; [|reflexivity]. apply Nat.eqb_eq in E. subst. congruence.
Qed.

Lemma pm_eq : forall q d, pm q (Some q, d) = true.
Proof. intros. unfold pm. cbn [fst opt_nat_eqb]. apply Nat.eqb_refl. Qed.

Lemma parents_f_len_aux : forall f,
  Forall (fun t => forall p i, length (parents_t p i t) = length (preorder t)) f ->
  forall p i, length (parents_f p i f) = length (preorder_f f).
Proof.
  induction 1 as [|t f Ht Hf IH]; intros p i; [reflexivity|].
  rewrite parents_f_cons, preorder_f_cons, !app_length, Ht, IH. reflexivity.
Qed.

Lemma parents_t_length : forall t p i, length (parents_t p i t) = length (preorder t).
Proof.
  induction t as [d b kids IH] using tree_ind2. intros p i.
  rewrite parents_t_eq, preorder_node. cbn [length]. f_equal. apply parents_f_len_aux. exact IH.
Qed.

Lemma parents_f_length : forall f p i, length (parents_f p i f) = length (preorder_f f).
Proof.
  intro f. apply parents_f_len_aux. apply Forall_forall. intros t _. apply parents_t_length.
Qed.

Definition out_of (i n q : nat) : Prop := q < i \/ i + n <= q.

(* no pointer inside a forest laid out from index i names a position outside [i, i + size) *)
Lemma filt_out_aux : forall f,
  Forall (fun t => forall p i q, out_of i (length (preorder t)) q -> p <> Some q ->
                   filter (pm q) (combine (parents_t p i t) (preorder t)) = []) f ->
  forall p i q, out_of i (length (preorder_f f)) q -> p <> Some q ->
  filter (pm q) (combine (parents_f p i f) (preorder_f f)) = [].
Proof.
  induction 1 as [|t f Ht Hf IH]; intros p i q Hr Hp; [reflexivity|].
  rewrite parents_f_cons, preorder_f_cons, combine_app_eq by apply parents_t_length.
  rewrite preorder_f_cons, app_length in Hr. unfold out_of in *.
  rewrite filter_app, Ht, IH; [reflexivity | | | | ]; try assumption; unfold out_of; lia.
Qed.

Lemma filt_out_t : forall t p i q, out_of i (length (preorder t)) q -> p <> Some q ->
  filter (pm q) (combine (parents_t p i t) (preorder t)) = [].
Proof.
  induction t as [d b kids IH] using tree_ind2. intros p i q Hr Hp.
  rewrite parents_t_eq, preorder_node. cbn [combine filter]. rewrite pm_neq by exact Hp.
  rewrite preorder_node in Hr. cbn [length] in Hr. unfold out_of in Hr.
  apply filt_out_aux; [exact IH | unfold out_of; lia | intro E; inversion E; lia].
Qed.

Lemma filt_out_f : forall f p i q, out_of i (length (preorder_f f)) q -> p <> Some q ->
  filter (pm q) (combine (parents_f p i f) (preorder_f f)) = [].
Proof.
  intro f. apply filt_out_aux. apply Forall_forall. intros t _. apply filt_out_t.
Qed.

(* the entries whose pointer is q, in the child list of q: the roots of that list *)
Lemma filt_kids : forall f i q, q < i ->
  filter (pm q) (combine (parents_f (Some q) i f) (preorder_f f)) = map (fun t => (Some q, troot t)) f.
Proof.
  induction f as [|t f IH]; intros i q Hq; [reflexivity|].
  rewrite parents_f_cons, preorder_f_cons, combine_app_eq by apply parents_t_length.
  rewrite filter_app, IH by lia. cbn [map]. destruct t as [d b kids].
  rewrite parents_t_eq, preorder_node. cbn [combine filter troot]. rewrite pm_eq.
  rewrite filt_out_f; [reflexivity | unfold out_of; lia | intro E; inversion E; lia].
Qed.

(* ================================================================= the same for a state *)

Lemma fflat_length : forall f, length (fflat f) = S (length (preorder_f (fkids f))).
Proof. reflexivity. Qed.

Lemma sflat_cons_length : forall f o, length (sflat (f :: o)) = length (sflat o) + S (length (preorder_f (fkids f))).
Proof. intros. cbn [sflat]. rewrite app_length, fflat_length. reflexivity. Qed.

Lemma spars_length : forall st n0, length (spars n0 st) = length (sflat st).
Proof.
  induction st as [|f o IH]; intro n0; [reflexivity|].
  cbn [spars sflat]. rewrite !app_length, IH. unfold fpars, fflat. cbn [length].
  rewrite parents_f_length. reflexivity.
Qed.

(* the pointer of a frame names an earlier position *)
Definition frame_par (n0 : nat) (outer : list frame) : option nat :=
  match outer with [] => None | _ :: o' => Some (n0 + length (sflat o')) end.

Lemma frame_par_neq : forall n0 outer q, n0 + length (sflat outer) <= q -> frame_par n0 outer <> Some q.
Proof.
  intros n0 [|p o'] q H; cbn [frame_par]; [discriminate|].
  rewrite sflat_cons_length in H. intro E. inversion E. lia.
Qed.

Lemma spars_cons : forall n0 f outer,
  spars n0 (f :: outer) = spars n0 outer ++ fpars (frame_par n0 outer) (n0 + length (sflat outer)) f.
Proof. reflexivity. Qed.

Lemma spars_out : forall st n0 q, n0 + length (sflat st) <= q ->
  filter (pm q) (combine (spars n0 st) (sflat st)) = [].
Proof.
  induction st as [|f o IH]; intros n0 q H; [reflexivity|].
  rewrite sflat_cons_length in H.
  rewrite spars_cons. cbn [sflat]. rewrite combine_app_eq by apply spars_length.
  rewrite filter_app, IH by lia. unfold fpars, fflat. cbn [combine filter app].
  rewrite pm_neq by (apply frame_par_neq; lia).
  apply filt_out_f; [unfold out_of; lia | intro E; inversion E; lia].
Qed.

(* children so far of the innermost frame of a stack = the entries pointing at its position *)
Lemma frame_children : forall b r' n0,
  filter (pm (n0 + length (sflat r'))) (combine (spars n0 (b :: r')) (sflat (b :: r')))
  = map (fun t => (Some (n0 + length (sflat r')), troot t)) (fkids b).
Proof.
  intros b r' n0. rewrite spars_cons. cbn [sflat]. rewrite combine_app_eq by apply spars_length.
  rewrite filter_app, spars_out by lia. unfold fpars, fflat. cbn [combine filter app].
  rewrite pm_neq by (apply frame_par_neq; lia).
  apply filt_kids. lia.
Qed.

Lemma state_children : forall s b r',
  sflat (b :: r') = sflat (cur s :: rest s) ->
  spars (length (preorder_f (roots s))) (b :: r') = spars (length (preorder_f (roots s))) (cur s :: rest s) ->
  filter (pm (length (preorder_f (roots s)) + length (sflat r'))) (combine (stpars s) (stflat s))
  = map (fun t => (Some (length (preorder_f (roots s)) + length (sflat r')), troot t)) (fkids b).
Proof.
  intros s b r' Hsf Hsp. unfold stpars, stflat. rewrite <- Hsf, <- Hsp.
  rewrite combine_app_eq by apply parents_f_length.
  rewrite filter_app, filt_out_f; [apply frame_children | unfold out_of; lia | discriminate].
Qed.

(* ================================================================= the specification's side *)

(* the copybook as the specification sees it *)
Definition Eof (K : list dde) : list (N * list N * option (list N)) :=
  map (fun d => (lvl_num (dlv d), dde_name (de d), eredef (de d))) K.

Lemma Eof_levels : forall K, map (fun e : N * list N * option (list N) => fst (fst e)) (Eof K) = levels_of K.
Proof. intro K. unfold Eof, levels_of. rewrite map_map. reflexivity. Qed.

Lemma Eof_nth : forall K j d, nth_error K j = Some d ->
  nth_error (Eof K) j = Some (lvl_num (dlv d), dde_name (de d), eredef (de d)).
Proof. intros K j d H. unfold Eof. exact (map_nth_error _ j K H). Qed.

Lemma msp_length : forall P, length (msp P) = length P.
Proof. intro P. unfold msp. apply msp_from_length. Qed.

(* every pointer of the specification, read off the model-order list *)
Lemma spec_parent_msp : forall K j, Forall digits_ok K -> j < length K ->
  nth_error (msp K) j = Some (spec_parent (levels_of K) j).
Proof.
  intros K j HK Hj. rewrite (msp_spec K HK). unfold spec_parents.
  assert (Hl : length (levels_of K) = length K) by (unfold levels_of; apply map_length).
  apply map_nth_error. rewrite (nth_error_nth' _ 0) by (rewrite seq_length; lia).
  rewrite seq_nth by lia. reflexivity.
Qed.

Lemma msp_app_cons : forall P d tl,
  msp (P ++ d :: tl) = msp P ++ ns (rev P) (dlv d) :: msp_from (d :: rev P) tl.
Proof. intros. unfold msp. rewrite msp_from_app, app_nil_r. reflexivity. Qed.

(* what redefines_ok_at says at the position of d, in terms of the pairs (pointer, entry) of P *)
Lemma spec_at : forall P d tl, Forall digits_ok (P ++ d :: tl) ->
  redefines_ok_at (Eof (P ++ d :: tl)) (length P) =
  match eredef (de d) with
  | None => true
  | Some tgt =>
      match ns (rev P) (dlv d) with
      | None => true
      | Some p => Nat.eqb (length (filter (fun x : option nat * dde => str_eqb (dde_name (de (snd x))) tgt)
                                          (filter (pm p) (combine (msp P) P)))) 1
      end
  end.
Proof.
  intros P d tl HK. set (full := P ++ d :: tl) in *.
  assert (Hlen : length full = length P + S (length tl)) by (unfold full; rewrite app_length; reflexivity).
  assert (Hd : nth_error full (length P) = Some d).
  { unfold full. rewrite nth_error_app2, Nat.sub_diag by lia. reflexivity. }
  unfold redefines_ok_at. rewrite (Eof_nth _ _ _ Hd), Eof_levels.
  destruct (eredef (de d)) as [tgt|]; [|reflexivity].
  assert (Hp : spec_parent (levels_of full) (length P) = ns (rev P) (dlv d)).
  { pose proof (spec_parent_msp full (length P) HK ltac:(lia)) as H1.
    unfold full in H1 at 1. rewrite msp_app_cons in H1.
    rewrite nth_error_app2, msp_length, Nat.sub_diag in H1 by (rewrite msp_length; lia).
    cbn [nth_error] in H1. inversion H1. reflexivity. }
  unfold spec_siblings. rewrite Hp. destruct (ns (rev P) (dlv d)) as [p|]; [|reflexivity].
  f_equal. rewrite <- filter_andb.
  rewrite <- filter_andb.
  assert (Hc : length (combine (msp P) P) = length P).
  { rewrite combine_length, msp_length. lia. }
  rewrite <- Hc at 1. apply count_seq.
  intros j [a dj] Hj. cbn [Nat.add]. apply nth_error_combine in Hj. destruct Hj as [Ha Hdj].
  assert (Hjl : j < length P) by (apply nth_error_Some; congruence).
  assert (Hfj : nth_error full j = Some dj) by (unfold full; rewrite nth_error_app1 by lia; exact Hdj).
  rewrite (Eof_nth _ _ _ Hfj).
  pose proof (spec_parent_msp full j HK ltac:(lia)) as H1.
  unfold full in H1 at 1. rewrite msp_app_cons, nth_error_app1 in H1 by (rewrite msp_length; lia).
  rewrite Ha in H1. inversion H1 as [H2]. unfold pm. cbn [fst snd].
  rewrite name_eqb_str. reflexivity.
Qed.

Lemma count_kids : forall tgt q kids,
  length (filter (fun x : option nat * dde => str_eqb (dde_name (de (snd x))) tgt)
                 (map (fun t => (Some q, troot t)) kids))
  = length (filter (name_is tgt) kids).
Proof.
  intros tgt q. induction kids as [|t kids IH]; [reflexivity|].
  cbn [map filter snd]. unfold name_is at 1.
  destruct (str_eqb (dde_name (de (troot t))) tgt); cbn [length]; rewrite IH; reflexivity.
Qed.

(* ================================================================= one step *)

Lemma step_ok_iff : forall s P d tl, Inv s P -> keep d = true -> Forall digits_ok (P ++ d :: tl) ->
  ((exists s', step s d = Ok s') <-> redefines_ok_at (Eof (P ++ d :: tl)) (length P) = true).
Proof.
  intros s P d tl [Hf [Hp [Hk Hc]]] Hkeep HK. rewrite (spec_at P d tl HK).
  unfold keep in Hkeep. unfold step. destruct (skipped d); [discriminate|].
  assert (Hk0 : lv_ge (dlv d) (preorder_f (fkids (cur s)))) by (rewrite Hk; constructor).
  pose proof (pop_ns (dlv d) _ _ _ Hk0 Hc) as Hn.
  pose proof (pop_flat (dlv d) (rest s) (cur s) (length (preorder_f (roots s)))) as Hfl.
  pose proof (state_children s) as Hch.
  unfold stflat in Hf. rewrite Hf in Hn.
  destruct (pop (dlv d) (cur s) (rest s)) as [[b r'] | t].
  - destruct Hn as [Hns _]. destruct Hfl as [Hsf Hsp]. specialize (Hch b r' Hsf Hsp).
    rewrite Hp in Hch. unfold stflat in Hch. rewrite Hf in Hch.
    rewrite Hns, app_length.
    destruct (eredef (de d)) as [tgt|]; [|split; [reflexivity | eexists; reflexivity]].
    rewrite Hch, count_kids.
    pose proof (mark_unique_some tgt (fkids b)) as Hm.
    destruct (mark_unique tgt (fkids b)) as [kids'|].
    + split; [|eexists; reflexivity]. intros _. apply Nat.eqb_eq. apply Hm. eexists; reflexivity.
    + split.
      * intros [s' Hs]. discriminate.
      * intro H. apply Nat.eqb_eq in H. apply Hm in H. destruct H as [k H]. discriminate.
  - destruct Hn as [Hns _]. rewrite Hns.
    split; [|eexists; reflexivity]. intros _. destruct (eredef (de d)); reflexivity.
Qed.

Lemma step_not_ok : forall s d, (forall s', step s d <> Ok s') -> step s d = Err ValueError.
Proof.
  intros s d H. destruct (step s d) as [s'|e] eqn:E.
  - exfalso. exact (H s' eq_refl).
  - apply step_err in E. destruct E as [E _]. subst. reflexivity.
Qed.

(* ================================================================= the run *)

Lemma run_char : forall r s P, Inv s P -> Forall digits_ok (P ++ filter keep r) ->
  let okb := forallb (redefines_ok_at (Eof (P ++ filter keep r))) (seq (length P) (length (filter keep r))) in
  (okb = true -> exists s', run s r = Ok s') /\ (okb = false -> run s r = Err ValueError).
Proof.
  induction r as [|d r IH]; intros s P HI HK.
  - cbn. split; [intros _; eexists; reflexivity | discriminate].
  - cbn [filter] in *. destruct (keep d) eqn:Ek.
    + cbn [length seq forallb]. pose proof (step_ok_iff s P d (filter keep r) HI Ek HK) as Hs.
      destruct (redefines_ok_at (Eof (P ++ d :: filter keep r)) (length P)) eqn:Eo; cbn [andb].
      * destruct Hs as [_ Hs]. destruct (Hs eq_refl) as [s1 Hs1]. cbn [run]. rewrite Hs1.
        pose proof (step_inv _ _ _ _ HI Hs1) as HI1. rewrite Ek in HI1.
        specialize (IH s1 (P ++ [d]) HI1).
        rewrite <- app_assoc in IH. cbn [app] in IH. specialize (IH HK).
        rewrite app_length in IH. cbn [length] in IH. rewrite Nat.add_1_r in IH. exact IH.
      * split; [discriminate|]. intros _. cbn [run].
        rewrite (step_not_ok s d); [reflexivity|].
        intros s' Hs'. destruct Hs as [Hs _]. specialize (Hs (ex_intro _ s' Hs')). discriminate.
    + assert (Hst : step s d = Ok s).
      { unfold step. unfold keep in Ek. destruct (skipped d); [reflexivity | discriminate]. }
      cbn [run]. rewrite Hst. apply IH; assumption.
Qed.

Lemma ok_at_0 : forall E, redefines_ok_at E 0 = true.
Proof.
  intro E. unfold redefines_ok_at. destruct (nth_error E 0) as [[[lv nm] [tgt|]]|]; try reflexivity.
  unfold spec_parent. destruct (nth_error _ 0); reflexivity.
Qed.

(* ================================================================= the full statement *)

Lemma redefines_error_full : forall l : list entry, l <> [] ->
  Forall (fun e => two_digits (elv e) = true) l ->
  let E := map (fun d => (lvl_num (dlv d), dde_name (de d), eredef (de d))) (kept_of l) in
  (redefines_ok E = true -> exists f, structure l = Ok f)
  /\ (redefines_ok E = false -> structure l = Err ValueError).
Proof.
  intros l Hne Hd. pose proof (mk_ddes_digits l 0%N Hd) as Hdd.
  unfold structure, kept_of.
  destruct (mk_ddes 0 l) as [|d r] eqn:Em.
  - exfalso. destruct l as [|e l']; [congruence|]. cbn [mk_ddes] in Em. destruct (is_filler e); discriminate.
  - cbn zeta. change (map _ (d :: filter keep r)) with (Eof (d :: filter keep r)).
    assert (HK : Forall digits_ok ([d] ++ filter keep r)).
    { inversion Hdd; subst. cbn [app]. constructor; [assumption|]. apply filter_digits. assumption. }
    pose proof (run_char r _ [d] (inv_init d) HK) as Hr. cbn zeta in Hr. cbn [app length] in Hr.
    unfold redefines_ok. unfold Eof at 2 4. rewrite map_length. cbn [length seq forallb].
    rewrite ok_at_0. cbn [andb]. cbn [structure_ddes].
    destruct Hr as [H1 H2]. split; intro H.
    + destruct (H1 H) as [s' Hs]. rewrite Hs. eexists; reflexivity.
    + rewrite (H2 H). reflexivity.
Qed.
