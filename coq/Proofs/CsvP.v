(* Proofs about Model/Csv.v: what csv.reader delivers for the file csv.writer wrote.

   Part A  the reader as ONE machine over a list of events (a character, or None = the EOL that ends a line):
           [read_records_run].
   Part B  single steps of parse_process_char.
   Part C  (Section Generic) the machine on the events of a written table, for ANY way [E] of cutting a text into
           lines that (1) keeps the characters, (2) puts a line end only directly after a CR or LF, (3) cuts
           a concatenation where its parts are cut unless the first part ends in CR and the second starts with LF,
           (4) ends a line after the row terminator: [run_table].
   Part D  the two text layers: mode r (universal newlines, terminator LF after translation) and newline=''
           (terminator CR LF), and the round trips [csv_roundtrip], [csv_roundtrip_raw].
   Part E  what is lost: a carriage return in a cell read in mode r, a cell longer than the field size limit. *)
From Coq Require Import NArith List Bool Lia Arith ZifyBool ZifyN ZifyNat.
Import ListNotations.
Require Import SR.Base.Res SR.Model.Csv.
Require SR.Model.Workbook SR.Proofs.WorkbookP.
(* The definitions of this development that occur in theorem statements (Props/) live in Spec/CsvEvents.v (audit item G1).
   The abbreviations keep the qualified names CsvP.name of other files resolving; they are parsing-only aliases. *)
Require Export SR.Spec.CsvEvents.
Notation ev := SR.Spec.CsvEvents.ev (only parsing).
Notation emit := SR.Spec.CsvEvents.emit (only parsing).
Notation finish := SR.Spec.CsvEvents.finish (only parsing).
Notation run := SR.Spec.CsvEvents.run (only parsing).
Notation line_events := SR.Spec.CsvEvents.line_events (only parsing).
Open Scope N_scope.

Notation St := mk_reader.

Lemma frev_rev {A} (l : list A) : frev l = rev l.
Proof. unfold frev. rewrite rev_append_rev. apply app_nil_r. Qed.

(* ================================================================ Part A: one machine over events *)

Lemma run_line d : forall (l : text) r rest,
  run d r (map Some l ++ None :: rest)
  = match feed d r l with
    | Err e => ([], Some e)
    | Ok r' => match r_state r' with
               | START_RECORD => emit (frev (r_fields r')) (run d reset rest)
               | _ => run d r' rest
               end
    end.
Proof.
  induction l as [|c l IH]; intros r rest.
  - cbn [map app run feed]. destruct (process_char d r None) as [r'|e]; reflexivity.
  - cbn [map app run feed]. destruct (process_char d r (Some c)) as [r'|e]; cbn [bind]; [|reflexivity].
    apply IH.
Qed.

Lemma read_records_run d : forall lines r,
  read_records d r lines = run d r (flat_map line_events lines).
Proof.
  induction lines as [|l ls IH]; intros r; [reflexivity|].
  cbn [read_records flat_map]. unfold line_events at 1. rewrite <- app_assoc. cbn [app].
  rewrite run_line. destruct (feed d r l) as [r'|e]; [|reflexivity].
  destruct (r_state r'); try apply IH.
  rewrite IH. unfold emit. destruct (run d reset (flat_map line_events ls)); reflexivity.
Qed.

(* ================================================================ Part B: single steps *)
Lemma delim_ok_inv d : delim_ok d = true ->
  (d =? QUOTE) = false /\ (d =? CR) = false /\ (d =? LF) = false
  /\ (QUOTE =? d) = false /\ (CR =? d) = false /\ (LF =? d) = false.
Proof.
  unfold delim_ok. intros H. apply andb_prop in H as [H H3]. apply andb_prop in H as [H1 H2].
  apply negb_true_iff in H1, H2, H3. rewrite (N.eqb_sym QUOTE), (N.eqb_sym CR), (N.eqb_sym LF). tauto.
Qed.

Lemma special_inv d c : special d c = false ->
  (c =? d) = false /\ (c =? QUOTE) = false /\ (c =? CR) = false /\ (c =? LF) = false.
Proof.
  unfold special. intros H. apply orb_false_elim in H as [H H4]. apply orb_false_elim in H as [H H3].
  apply orb_false_elim in H as [H1 H2]. tauto.
Qed.

Lemma special_not_nl d c : special d c = false -> is_nl c = false.
Proof. intros H. destruct (special_inv d c H) as (_ & _ & H3 & H4). unfold is_nl. rewrite H3, H4. reflexivity. Qed.

Lemma add_char_ok s f n fs c : n < field_limit ->
  add_char (St s f n fs) c = Ok (St s (c :: f) (n + 1) fs).
Proof.
  intros H. unfold add_char. cbn [r_len r_state r_field r_fields].
  destruct (field_limit <=? n) eqn:E; [apply N.leb_le in E; lia|reflexivity].
Qed.

Section Steps.
Variable d : N.
Hypothesis Hd : delim_ok d = true.

Lemma pc_sr_other f n fs c : is_nl c = false ->
  process_char d (St START_RECORD f n fs) (Some c) = process_char d (St START_FIELD f n fs) (Some c).
Proof. intros H. unfold process_char. cbn [r_state set_state r_field r_len r_fields]. rewrite H. reflexivity. Qed.

Lemma pc_sr_nl f n fs c : is_nl c = true ->
  process_char d (St START_RECORD f n fs) (Some c) = Ok (St EAT_CRNL f n fs).
Proof. intros H. unfold process_char. cbn [r_state set_state r_field r_len r_fields]. rewrite H. reflexivity. Qed.

Lemma pc_sf_quote f n fs :
  process_char d (St START_FIELD f n fs) (Some QUOTE) = Ok (St IN_QUOTED_FIELD f n fs).
Proof. reflexivity. Qed.

Lemma pc_sf_delim f n fs :
  process_char d (St START_FIELD f n fs) (Some d) = Ok (St START_FIELD [] 0 (rev f :: fs)).
Proof.
  destruct (delim_ok_inv d Hd) as (H1 & H2 & H3 & _).
  unfold process_char, is_nl. cbn [r_state]. rewrite H1, H2, H3, N.eqb_refl, <- (frev_rev f). reflexivity.
Qed.

Lemma pc_sf_nl f n fs c : is_nl c = true ->
  process_char d (St START_FIELD f n fs) (Some c) = Ok (St EAT_CRNL [] 0 (rev f :: fs)).
Proof. intros H. unfold process_char. cbn [r_state]. rewrite H, <- (frev_rev f). reflexivity. Qed.

Lemma pc_sf_plain f n fs c : special d c = false -> n < field_limit ->
  process_char d (St START_FIELD f n fs) (Some c) = Ok (St IN_FIELD (c :: f) (n + 1) fs).
Proof.
  intros H Hn. destruct (special_inv d c H) as (H1 & H2 & _).
  unfold process_char. cbn [r_state]. rewrite (special_not_nl d c H), H1, H2, add_char_ok by exact Hn. reflexivity.
Qed.

Lemma pc_if_plain f n fs c : special d c = false -> n < field_limit ->
  process_char d (St IN_FIELD f n fs) (Some c) = Ok (St IN_FIELD (c :: f) (n + 1) fs).
Proof.
  intros H Hn. destruct (special_inv d c H) as (H1 & H2 & _).
  unfold process_char. cbn [r_state]. rewrite (special_not_nl d c H), H1, add_char_ok by exact Hn. reflexivity.
Qed.

Lemma pc_if_delim f n fs :
  process_char d (St IN_FIELD f n fs) (Some d) = Ok (St START_FIELD [] 0 (rev f :: fs)).
Proof.
  destruct (delim_ok_inv d Hd) as (H1 & H2 & H3 & _).
  unfold process_char, is_nl. cbn [r_state]. rewrite H2, H3, N.eqb_refl, <- (frev_rev f). reflexivity.
Qed.

Lemma pc_if_nl f n fs c : is_nl c = true ->
  process_char d (St IN_FIELD f n fs) (Some c) = Ok (St EAT_CRNL [] 0 (rev f :: fs)).
Proof. intros H. unfold process_char. cbn [r_state]. rewrite H, <- (frev_rev f). reflexivity. Qed.

Lemma pc_iq_quote f n fs :
  process_char d (St IN_QUOTED_FIELD f n fs) (Some QUOTE) = Ok (St QUOTE_IN_QUOTED_FIELD f n fs).
Proof. reflexivity. Qed.

Lemma pc_iq_char f n fs c : (c =? QUOTE) = false -> n < field_limit ->
  process_char d (St IN_QUOTED_FIELD f n fs) (Some c) = Ok (St IN_QUOTED_FIELD (c :: f) (n + 1) fs).
Proof. intros H Hn. unfold process_char. cbn [r_state]. rewrite H, add_char_ok by exact Hn. reflexivity. Qed.

Lemma pc_iq_eol f n fs :
  process_char d (St IN_QUOTED_FIELD f n fs) None = Ok (St IN_QUOTED_FIELD f n fs).
Proof. reflexivity. Qed.

Lemma pc_qq_quote f n fs : n < field_limit ->
  process_char d (St QUOTE_IN_QUOTED_FIELD f n fs) (Some QUOTE) = Ok (St IN_QUOTED_FIELD (QUOTE :: f) (n + 1) fs).
Proof. intros Hn. unfold process_char. cbn [r_state]. rewrite N.eqb_refl, add_char_ok by exact Hn. reflexivity. Qed.

Lemma pc_qq_delim f n fs :
  process_char d (St QUOTE_IN_QUOTED_FIELD f n fs) (Some d) = Ok (St START_FIELD [] 0 (rev f :: fs)).
Proof.
  destruct (delim_ok_inv d Hd) as (H1 & _).
  unfold process_char. cbn [r_state]. rewrite H1, N.eqb_refl, <- (frev_rev f). reflexivity.
Qed.

Lemma pc_qq_nl f n fs c : is_nl c = true ->
  process_char d (St QUOTE_IN_QUOTED_FIELD f n fs) (Some c) = Ok (St EAT_CRNL [] 0 (rev f :: fs)).
Proof.
  intros H. destruct (delim_ok_inv d Hd) as (_ & H2 & H3 & _).
  assert (Hq : (c =? QUOTE) = false).
  { unfold is_nl in H. apply orb_prop in H as [H|H]; apply N.eqb_eq in H; subst c; reflexivity. }
  assert (Hcd : (c =? d) = false).
  { unfold is_nl in H. apply orb_prop in H as [H|H]; apply N.eqb_eq in H; subst c; rewrite N.eqb_sym; assumption. }
  unfold process_char. cbn [r_state]. rewrite Hq, Hcd, H, <- (frev_rev f). reflexivity.
Qed.

Lemma pc_eat_nl f n fs c : is_nl c = true ->
  process_char d (St EAT_CRNL f n fs) (Some c) = Ok (St EAT_CRNL f n fs).
Proof. intros H. unfold process_char. cbn [r_state]. rewrite H. reflexivity. Qed.

Lemma pc_eat_eol f n fs :
  process_char d (St EAT_CRNL f n fs) None = Ok (St START_RECORD f n fs).
Proof. reflexivity. Qed.

End Steps.

(* ================================================================ Part C: the machine on a written table *)
Lemma run_some d r c r' t : process_char d r (Some c) = Ok r' -> run d r (Some c :: t) = run d r' t.
Proof. intros H. cbn [run]. rewrite H. reflexivity. Qed.

Lemma run_none_cont d r r' t : process_char d r None = Ok r' -> r_state r' <> START_RECORD ->
  run d r (None :: t) = run d r' t.
Proof. intros H Hs. cbn [run]. rewrite H. destruct (r_state r'); try reflexivity. congruence. Qed.

Lemma run_none_emit d r r' t : process_char d r None = Ok r' -> r_state r' = START_RECORD ->
  run d r (None :: t) = emit (frev (r_fields r')) (run d reset t).
Proof. intros H Hs. cbn [run]. rewrite H, Hs. reflexivity. Qed.

(* the characters of an event list; line ends only directly after a CR or LF (never two in a row) *)
Definition strip (es : list ev) : text := flat_map (fun e => match e with Some c => [c] | None => [] end) es.

Fixpoint nones_ok (prev_nl : bool) (es : list ev) : bool :=
  match es with
  | [] => true
  | Some c :: t => nones_ok (is_nl c) t
  | None :: t => prev_nl && nones_ok false t
  end.

Definition ends_cr (a : text) : bool := last a 0 =? CR.
Definition starts_lf (b : text) : bool := match b with c :: _ => c =? LF | [] => false end.

Lemma strip_nil es : strip es = [] -> nones_ok false es = true -> es = [].
Proof. destruct es as [|[c|] t]; [reflexivity|discriminate|]. intros _ H. discriminate H. Qed.

Lemma strip_cons es x xs : strip es = x :: xs -> nones_ok false es = true ->
  exists es', es = Some x :: es' /\ strip es' = xs /\ nones_ok (is_nl x) es' = true.
Proof.
  destruct es as [|[c|] t]; [discriminate| |intros _ H; discriminate H].
  cbn [strip flat_map app nones_ok]. intros H Hn. injection H as -> H. exists t. auto.
Qed.

Lemma nones_after b es : nones_ok b es = true ->
  nones_ok false es = true \/ (exists es', es = None :: es' /\ nones_ok false es' = true).
Proof.
  destruct es as [|[c|] t]; intros H; [left; reflexivity|left; exact H|].
  right. cbn [nones_ok] in H. apply andb_prop in H as [_ H]. exists t. auto.
Qed.

Definition no_nl (s : text) : bool := forallb (fun c => negb (is_nl c)) s.

Lemma plain_events : forall s es, no_nl s = true -> strip es = s -> nones_ok false es = true -> es = map Some s.
Proof.
  induction s as [|x xs IH]; intros es Hs He Hn.
  - apply strip_nil; assumption.
  - destruct (strip_cons es x xs He Hn) as (es' & -> & He' & Hn').
    cbn [no_nl forallb] in Hs. apply andb_prop in Hs as [Hx Hxs]. apply negb_true_iff in Hx.
    rewrite Hx in Hn'. cbn [map]. f_equal. apply IH; assumption.
Qed.

Lemma of_nat_succ (k : nat) : N.of_nat (S k) = N.of_nat k + 1.
Proof. lia. Qed.

(* ---- inside an unquoted field ---- *)
Lemma run_infield d : forall cs f n fs rest,
  existsb (special d) cs = false -> n + N.of_nat (length cs) <= field_limit ->
  run d (St IN_FIELD f n fs) (map Some cs ++ rest)
  = run d (St IN_FIELD (rev cs ++ f) (n + N.of_nat (length cs)) fs) rest.
Proof.
  induction cs as [|c cs IH]; intros f n fs rest Hs Hl.
  - cbn [map app rev length N.of_nat]. rewrite N.add_0_r. reflexivity.
  - cbn [existsb] in Hs. apply orb_false_elim in Hs as [Hc Hcs].
    cbn [length] in Hl. rewrite of_nat_succ in Hl. assert (Hlt : n < field_limit) by lia.
    cbn [map app]. rewrite (run_some d _ _ _ _ (pc_if_plain d f n fs c Hc Hlt)).
    rewrite IH by (assumption || lia). cbn [rev length]. rewrite <- app_assoc. cbn [app].
    f_equal. f_equal. lia.
Qed.

Section Generic.
Variable d : N.
Hypothesis Hd : delim_ok d = true.
(* how a text is cut into lines: the events of a text, without an EOL for an unterminated last line *)
Variable E : text -> list ev.
(* the row terminator as the reader's text layer presents it *)
Variable term : text.
Hypothesis H_strip : forall s, strip (E s) = s.
Hypothesis H_nones : forall s, nones_ok false (E s) = true.
Hypothesis H_app : forall a b, ends_cr a && starts_lf b = false -> E (a ++ b) = E a ++ E b.
Hypothesis H_term : forall a b, E (a ++ term ++ b) = E a ++ map Some term ++ None :: E b.
Hypothesis Hterm : term = [LF] \/ term = [CR; LF].

Lemma E_nil : E [] = [].
Proof. apply strip_nil; [apply H_strip|apply H_nones]. Qed.

Lemma E_plain s : no_nl s = true -> E s = map Some s.
Proof. intros H. apply plain_events; [exact H|apply H_strip|apply H_nones]. Qed.

Lemma E_cons c s : (c =? CR) = false -> is_nl c = false -> E (c :: s) = Some c :: E s.
Proof.
  intros Hc Hn. change (c :: s) with ([c] ++ s). rewrite H_app.
  - rewrite (E_plain [c]); [reflexivity|]. cbn [no_nl forallb]. rewrite Hn. reflexivity.
  - unfold ends_cr. cbn [last]. rewrite Hc. reflexivity.
Qed.

Lemma is_nl_delim : is_nl d = false /\ (d =? CR) = false.
Proof. destruct (delim_ok_inv d Hd) as (_ & H2 & H3 & _). unfold is_nl. rewrite H2, H3. auto. Qed.

(* ---- inside a quoted field ---- *)
Lemma run_quoted : forall cs es f n fs rest,
  strip es = double_quotes cs -> nones_ok false es = true -> n + N.of_nat (length cs) <= field_limit ->
  run d (St IN_QUOTED_FIELD f n fs) (es ++ rest)
  = run d (St IN_QUOTED_FIELD (rev cs ++ f) (n + N.of_nat (length cs)) fs) rest.
Proof.
  induction cs as [|c cs IH]; intros es f n fs rest Hs Hn Hl.
  - cbn [double_quotes] in Hs. rewrite (strip_nil es Hs Hn). cbn [app rev length N.of_nat]. rewrite N.add_0_r. reflexivity.
  - cbn [double_quotes] in Hs. cbn [length] in Hl. rewrite of_nat_succ in Hl.
    assert (Hlt : n < field_limit) by lia.
    replace (n + N.of_nat (length (c :: cs))) with (n + 1 + N.of_nat (length cs)) by (cbn [length]; lia).
    cbn [rev]. rewrite <- app_assoc. cbn [app].
    destruct (c =? QUOTE) eqn:Ec.
    + apply N.eqb_eq in Ec. subst c.
      destruct (strip_cons es _ _ Hs Hn) as (es1 & -> & Hs1 & Hn1).
      change (is_nl QUOTE) with false in Hn1.
      destruct (strip_cons es1 _ _ Hs1 Hn1) as (es2 & -> & Hs2 & Hn2).
      change (is_nl QUOTE) with false in Hn2.
      cbn [app]. rewrite (run_some d _ _ _ _ (pc_iq_quote d f n fs)).
      rewrite (run_some d _ _ _ _ (pc_qq_quote d f n fs Hlt)).
      apply IH; [exact Hs2|exact Hn2|lia].
    + destruct (strip_cons es _ _ Hs Hn) as (es1 & -> & Hs1 & Hn1).
      cbn [app]. rewrite (run_some d _ _ _ _ (pc_iq_char d f n fs c Ec Hlt)).
      destruct (nones_after _ _ Hn1) as [Hn2|(es2 & -> & Hn2)].
      * apply IH; [exact Hs1|exact Hn2|lia].
      * cbn [app]. rewrite (run_none_cont d _ _ _ (pc_iq_eol d _ _ _)) by (cbn [r_state]; discriminate).
        apply IH; [exact Hs1|exact Hn2|lia].
Qed.

(* ---- the states in which a field has just been read ---- *)
Definition after_field (s : state) : Prop := s = START_FIELD \/ s = IN_FIELD \/ s = QUOTE_IN_QUOTED_FIELD.

Lemma run_delim_after s f n fs rest : after_field s ->
  run d (St s f n fs) (Some d :: rest) = run d (St START_FIELD [] 0 (rev f :: fs)) rest.
Proof.
  intros [-> | [-> | ->]]; apply run_some; [apply pc_sf_delim|apply pc_if_delim|apply pc_qq_delim]; exact Hd.
Qed.

Lemma nl_after s f n fs c : after_field s -> is_nl c = true ->
  process_char d (St s f n fs) (Some c) = Ok (St EAT_CRNL [] 0 (rev f :: fs)).
Proof.
  intros [-> | [-> | ->]] H; [apply pc_sf_nl|apply pc_if_nl|apply pc_qq_nl]; assumption.
Qed.

Lemma run_term_after s f n fs rest : after_field s ->
  run d (St s f n fs) (map Some term ++ None :: rest) = emit (rev (rev f :: fs)) (run d reset rest).
Proof.
  intros Hs. destruct Hterm as [Ht|Ht]; rewrite Ht; cbn [map app].
  - rewrite (run_some d _ _ _ _ (nl_after s f n fs LF Hs eq_refl)).
    rewrite (run_none_emit d _ _ _ (pc_eat_eol d _ _ _) eq_refl). cbn [r_fields]. rewrite ?frev_rev. reflexivity.
  - rewrite (run_some d _ _ _ _ (nl_after s f n fs CR Hs eq_refl)).
    rewrite (run_some d _ _ _ _ (pc_eat_nl d _ _ _ LF eq_refl)).
    rewrite (run_none_emit d _ _ _ (pc_eat_eol d _ _ _) eq_refl). cbn [r_fields]. rewrite ?frev_rev. reflexivity.
Qed.

(* ---- one field ---- *)
Lemma E_quoted f : E (QUOTE :: double_quotes f ++ [QUOTE]) = Some QUOTE :: E (double_quotes f) ++ [Some QUOTE].
Proof.
  rewrite E_cons by reflexivity. f_equal. rewrite H_app.
  - rewrite (E_plain [QUOTE]) by reflexivity. reflexivity.
  - cbn [starts_lf]. change (QUOTE =? LF) with false. apply andb_false_r.
Qed.

Lemma unquoted_no_nl f : needs_quotes d f = false -> no_nl f = true.
Proof.
  unfold needs_quotes, no_nl. induction f as [|c f IH]; [reflexivity|].
  cbn [existsb forallb]. intros H. apply orb_false_elim in H as [Hc Hf].
  rewrite (special_not_nl d c Hc), IH by exact Hf. reflexivity.
Qed.

Lemma run_field f fs : within_limit f = true ->
  exists s, after_field s /\ forall cont,
    run d (St START_FIELD [] 0 fs) (E (write_field d f) ++ cont)
    = run d (St s (rev f) (N.of_nat (length f)) fs) cont.
Proof.
  intros Hl. unfold within_limit in Hl. apply N.leb_le in Hl.
  unfold write_field. destruct (needs_quotes d f) eqn:Eq.
  - exists QUOTE_IN_QUOTED_FIELD. split; [right; right; reflexivity|]. intros cont.
    rewrite E_quoted. cbn [app]. rewrite (run_some d _ _ _ _ (pc_sf_quote d [] 0 fs)).
    rewrite <- app_assoc.
    rewrite (run_quoted f (E (double_quotes f)) [] 0 fs _ (H_strip _) (H_nones _)) by lia.
    cbn [app]. rewrite app_nil_r, N.add_0_l.
    apply (run_some d _ _ _ _ (pc_iq_quote d _ _ _)).
  - rewrite (E_plain f (unquoted_no_nl f Eq)). destruct f as [|c cs].
    + exists START_FIELD. split; [left; reflexivity|]. intros cont. reflexivity.
    + exists IN_FIELD. split; [right; left; reflexivity|]. intros cont.
      unfold needs_quotes in Eq. cbn [existsb] in Eq. apply orb_false_elim in Eq as [Hc Hcs].
      cbn [length] in Hl. rewrite of_nat_succ in Hl.
      cbn [map app]. rewrite (run_some d _ _ _ _ (pc_sf_plain d [] 0 fs c Hc ltac:(unfold field_limit; lia))).
      rewrite run_infield by (assumption || lia). cbn [rev length]. f_equal. f_equal. lia.
Qed.

(* ---- the fields of a record that has text ---- *)
Lemma join_cons2 (a b : text) (t : list text) : join d (a :: b :: t) = a ++ d :: join d (b :: t).
Proof. reflexivity. Qed.

Lemma E_field_delim (a x : text) : E (a ++ d :: x) = E a ++ Some d :: E x.
Proof.
  destruct is_nl_delim as [Hn Hc]. destruct (delim_ok_inv d Hd) as (_ & _ & H3 & _).
  rewrite H_app by (cbn [starts_lf]; rewrite H3; apply andb_false_r).
  rewrite E_cons by assumption. reflexivity.
Qed.

Definition row_limit (r : list text) : bool := forallb within_limit r.

Lemma run_fields : forall r fs rest, r <> [] -> row_limit r = true ->
  run d (St START_FIELD [] 0 fs) (E (join d (map (write_field d) r)) ++ map Some term ++ None :: rest)
  = emit (rev fs ++ r) (run d reset rest).
Proof.
  induction r as [|f r IH]; intros fs rest Hne Hl; [congruence|].
  cbn [row_limit forallb] in Hl. apply andb_prop in Hl as [Hf Hr].
  destruct (run_field f fs Hf) as (s & Hs & Hrun).
  destruct r as [|g t].
  - cbn [map join]. rewrite Hrun, run_term_after by exact Hs.
    rewrite rev_involutive. reflexivity.
  - cbn [map]. rewrite join_cons2, E_field_delim, <- app_assoc. cbn [app].
    rewrite Hrun, run_delim_after by exact Hs. rewrite rev_involutive.
    change (write_field d g :: map (write_field d) t) with (map (write_field d) (g :: t)).
    rewrite IH by (discriminate || exact Hr). cbn [rev]. rewrite <- app_assoc. reflexivity.
Qed.

(* ---- one record ---- *)
Definition row_body (r : list text) : text :=
  let body := join d (map (write_field d) r) in
  match r, body with
  | _ :: _, [] => [QUOTE; QUOTE]
  | _, _ => body
  end.

Lemma write_row_body r : write_row d r = row_body r ++ [CR; LF].
Proof. unfold write_row, row_body. destruct r; [reflexivity|]. destruct (join d _); reflexivity. Qed.

Lemma write_field_nil f : write_field d f = [] -> f = [].
Proof. unfold write_field. destruct (needs_quotes d f); [discriminate|auto]. Qed.

Lemma body_nil f t : join d (map (write_field d) (f :: t)) = [] -> f = [] /\ t = [].
Proof.
  destruct t as [|g t].
  - cbn [map join]. intros H. split; [apply write_field_nil; exact H|reflexivity].
  - cbn [map]. rewrite join_cons2. intros H. apply app_eq_nil in H as [_ H]. discriminate H.
Qed.

Lemma body_head f t c b : join d (map (write_field d) (f :: t)) = c :: b -> is_nl c = false /\ (c =? CR) = false.
Proof.
  assert (Hw : forall x, write_field d f = c :: x -> is_nl c = false /\ (c =? CR) = false).
  { unfold write_field. destruct (needs_quotes d f) eqn:Eq; intros x Hx.
    - injection Hx as <- _. split; reflexivity.
    - subst f. unfold needs_quotes in Eq. cbn [existsb] in Eq. apply orb_false_elim in Eq as [Hc _].
      split; [exact (special_not_nl d c Hc)|]. destruct (special_inv d c Hc) as (_ & _ & H3 & _). exact H3. }
  destruct t as [|g t].
  - cbn [map join]. apply Hw.
  - cbn [map]. rewrite join_cons2. destruct (write_field d f) as [|c' w] eqn:Ew.
    + cbn [app]. intros H. injection H as <- _. exact is_nl_delim.
    + cbn [app]. intros H. injection H as -> _. apply (Hw w). reflexivity.
Qed.

Lemma run_sr_other f n fs c rest : is_nl c = false ->
  run d (St START_RECORD f n fs) (Some c :: rest) = run d (St START_FIELD f n fs) (Some c :: rest).
Proof. intros H. cbn [run]. rewrite (pc_sr_other d f n fs c H). reflexivity. Qed.

Lemma run_row r rest : row_limit r = true ->
  run d reset (E (row_body r) ++ map Some term ++ None :: rest) = emit r (run d reset rest).
Proof.
  intros Hl. unfold row_body. destruct r as [|f t].
  - cbn [map join]. rewrite E_nil. cbn [app]. unfold reset at 1.
    destruct Hterm as [Ht|Ht]; rewrite Ht; cbn [map app].
    + rewrite (run_some d _ _ _ _ (pc_sr_nl d [] 0 [] LF eq_refl)).
      rewrite (run_none_emit d _ _ _ (pc_eat_eol d _ _ _) eq_refl). cbn [r_fields]. rewrite ?frev_rev. reflexivity.
    + rewrite (run_some d _ _ _ _ (pc_sr_nl d [] 0 [] CR eq_refl)).
      rewrite (run_some d _ _ _ _ (pc_eat_nl d _ _ _ LF eq_refl)).
      rewrite (run_none_emit d _ _ _ (pc_eat_eol d _ _ _) eq_refl). cbn [r_fields]. rewrite ?frev_rev. reflexivity.
  - destruct (join d (map (write_field d) (f :: t))) as [|c b] eqn:Eb.
    + destruct (body_nil f t Eb) as [-> ->].
      rewrite (E_plain [QUOTE; QUOTE]) by reflexivity. cbn [map app]. unfold reset at 1.
      rewrite run_sr_other by reflexivity.
      rewrite (run_some d _ _ _ _ (pc_sf_quote d [] 0 [])).
      rewrite (run_some d _ _ _ _ (pc_iq_quote d [] 0 [])).
      rewrite run_term_after by (right; right; reflexivity). reflexivity.
    + destruct (body_head f t c b Eb) as [Hn Hc].
      pose proof (run_fields (f :: t) [] rest ltac:(discriminate) Hl) as H.
      rewrite Eb in H. rewrite E_cons in H |- * by assumption. cbn [app] in H |- *.
      unfold reset at 1. rewrite run_sr_other by exact Hn. exact H.
Qed.

(* ---- the whole table ---- *)
Definition table_limit (T : list (list text)) : bool := forallb row_limit T.

Lemma E_table : forall T,
  E (concat (map (fun r => row_body r ++ term) T))
  = concat (map (fun r => E (row_body r) ++ map Some term ++ [None]) T).
Proof.
  induction T as [|r T IH]; [apply E_nil|].
  cbn [map concat]. rewrite <- !app_assoc, H_term, IH. cbn [app]. reflexivity.
Qed.

Lemma run_table : forall T, table_limit T = true ->
  run d reset (E (concat (map (fun r => row_body r ++ term) T))) = (T, None).
Proof.
  intros T. rewrite E_table. induction T as [|r T IH]; intros Hl; [reflexivity|].
  cbn [table_limit forallb] in Hl. apply andb_prop in Hl as [Hr HT].
  cbn [map concat]. rewrite <- !app_assoc. cbn [app]. rewrite run_row by exact Hr.
  rewrite IH by exact HT. reflexivity.
Qed.

End Generic.

(* ================================================================ Part D: the two text layers *)
Lemma row_limit_of (r : list text) : forallb cell_ok r = true -> row_limit r = true.
Proof.
  unfold row_limit. rewrite !forallb_forall. intros H c Hc. specialize (H c Hc).
  unfold cell_ok in H. apply andb_prop in H as [_ H]. exact H.
Qed.

Lemma table_limit_of (T : list (list text)) : table_ok T = true -> table_limit T = true.
Proof.
  unfold table_ok, table_limit. rewrite !forallb_forall. intros H r Hr. apply row_limit_of, H, Hr.
Qed.

Lemma csv_write_rows d T : csv_write d T = concat (map (fun r => row_body d r ++ [CR; LF]) T).
Proof. unfold csv_write. f_equal. apply map_ext. intros r. apply write_row_body. Qed.

(* ---------------------------------------------------------------- mode r: universal newlines *)
Definition evs (s : text) : list ev := flat_map (fun c => if c =? LF then [Some c; None] else [Some c]) s.

Lemma evs_cons c s : evs (c :: s) = (if c =? LF then [Some c; None] else [Some c]) ++ evs s.
Proof. reflexivity. Qed.

Lemma evs_app a b : evs (a ++ b) = evs a ++ evs b.
Proof. apply flat_map_app. Qed.

Lemma evs_strip s : strip (evs s) = s.
Proof.
  induction s as [|c s IH]; [reflexivity|]. rewrite evs_cons. unfold strip in *. rewrite flat_map_app, IH.
  destruct (c =? LF); reflexivity.
Qed.

Lemma evs_nones s : forall b, nones_ok b (evs s) = true.
Proof.
  induction s as [|c s IH]; intros b; [reflexivity|]. rewrite evs_cons.
  destruct (c =? LF) eqn:Ec; cbn [app nones_ok].
  - apply N.eqb_eq in Ec. subst c. change (is_nl LF) with true. cbn [andb]. apply IH.
  - apply IH.
Qed.

(* the end of the text: an unterminated last line is a line *)
Fixpoint ev_end (p : bool) (s : text) : list ev :=
  match s with
  | [] => if p then [None] else []
  | c :: t => if c =? LF then Some c :: None :: ev_end false t else Some c :: ev_end true t
  end.

Definition nonempty {A} (l : list A) : bool := match l with [] => false | _ => true end.

Lemma lines_events : forall s cur,
  flat_map line_events (lines_from cur s) = map Some (rev cur) ++ ev_end (nonempty cur) s.
Proof.
  induction s as [|c s IH]; intros cur.
  - cbn [lines_from ev_end]. destruct cur as [|x cur]; [reflexivity|].
    cbn [flat_map nonempty]. rewrite app_nil_r, frev_rev. reflexivity.
  - cbn [lines_from ev_end]. destruct (c =? LF) eqn:Ec.
    + cbn [flat_map]. rewrite (IH []), frev_rev. cbn [rev map app nonempty]. unfold line_events.
      cbn [rev]. rewrite map_app, <- !app_assoc. reflexivity.
    + rewrite (IH (c :: cur)). cbn [rev nonempty]. rewrite map_app, <- app_assoc. reflexivity.
Qed.

Lemma ev_end_line : forall a p rest, ev_end p (a ++ LF :: rest) = evs a ++ Some LF :: None :: ev_end false rest.
Proof.
  induction a as [|c a IH]; intros p rest; [reflexivity|].
  cbn [app ev_end]. rewrite evs_cons. destruct (c =? LF); cbn [app]; rewrite IH; reflexivity.
Qed.

Lemma ev_end_rows : forall xs : list text,
  ev_end false (concat (map (fun x => x ++ [LF]) xs)) = evs (concat (map (fun x => x ++ [LF]) xs)).
Proof.
  induction xs as [|x xs IH]; [reflexivity|].
  cbn [map concat]. rewrite <- app_assoc. cbn [app]. rewrite ev_end_line, IH, evs_app, evs_cons. reflexivity.
Qed.

(* CR LF arrives as LF *)
Lemma universal_row : forall a b, no_cr a = true ->
  Workbook.universal_newlines (a ++ CR :: LF :: b) = a ++ LF :: Workbook.universal_newlines b.
Proof.
  induction a as [|c a IH]; intros b H; [reflexivity|].
  cbn [no_cr forallb] in H. apply andb_prop in H as [Hc Ha]. apply negb_true_iff in Hc.
  cbn [app Workbook.universal_newlines]. change 13 with CR. rewrite Hc. f_equal. apply IH. exact Ha.
Qed.

Lemma no_cr_app a b : no_cr (a ++ b) = no_cr a && no_cr b.
Proof. apply forallb_app. Qed.

Lemma no_cr_double f : no_cr f = true -> no_cr (double_quotes f) = true.
Proof.
  induction f as [|c f IH]; [reflexivity|]. cbn [no_cr forallb double_quotes]. intros H.
  apply andb_prop in H as [Hc Hf]. destruct (c =? QUOTE) eqn:E.
  - apply N.eqb_eq in E. subst c. cbn [forallb]. change (negb (QUOTE =? CR)) with true. cbn [andb]. apply IH, Hf.
  - cbn [forallb]. rewrite Hc. apply IH, Hf.
Qed.

Lemma no_cr_field d f : no_cr f = true -> no_cr (write_field d f) = true.
Proof.
  intros H. unfold write_field. destruct (needs_quotes d f); [|exact H].
  change (QUOTE :: double_quotes f ++ [QUOTE]) with ([QUOTE] ++ double_quotes f ++ [QUOTE]).
  rewrite !no_cr_app, no_cr_double by exact H. reflexivity.
Qed.

Lemma no_cr_join d : delim_ok d = true -> forall fs, forallb no_cr fs = true -> no_cr (join d fs) = true.
Proof.
  intros Hd. destruct (delim_ok_inv d Hd) as (_ & H2 & _).
  induction fs as [|f fs IH]; [reflexivity|]. cbn [forallb]. intros H. apply andb_prop in H as [Hf Hfs].
  destruct fs as [|g t]; [exact Hf|]. rewrite join_cons2.
  change (f ++ d :: join d (g :: t)) with (f ++ [d] ++ join d (g :: t)).
  rewrite !no_cr_app, Hf, IH by exact Hfs. cbn [no_cr forallb]. rewrite H2. reflexivity.
Qed.

Lemma no_cr_body d r : delim_ok d = true -> forallb no_cr r = true -> no_cr (row_body d r) = true.
Proof.
  intros Hd H. assert (Hj : no_cr (join d (map (write_field d) r)) = true).
  { apply no_cr_join; [exact Hd|]. rewrite forallb_forall in *. intros x Hx.
    apply in_map_iff in Hx as (f & <- & Hf). apply no_cr_field, H, Hf. }
  unfold row_body. destruct r; [reflexivity|]. destruct (join d _); [reflexivity|exact Hj].
Qed.

Lemma universal_written d : delim_ok d = true -> forall T, forallb (forallb no_cr) T = true ->
  Workbook.universal_newlines (csv_write d T) = concat (map (fun x => x ++ [LF]) (map (row_body d) T)).
Proof.
  intros Hd T. rewrite csv_write_rows. induction T as [|r T IH]; [reflexivity|].
  cbn [forallb]. intros H. apply andb_prop in H as [Hr HT].
  cbn [map concat]. rewrite <- !app_assoc. cbn [app].
  rewrite universal_row by (apply no_cr_body; assumption). rewrite IH by exact HT. reflexivity.
Qed.

Lemma table_no_cr T : table_ok T = true -> forallb (forallb no_cr) T = true.
Proof.
  unfold table_ok. rewrite !forallb_forall. intros H r Hr. specialize (H r Hr). rewrite forallb_forall in *.
  intros c Hc. specialize (H c Hc). unfold cell_ok in H. apply andb_prop in H as [H _]. exact H.
Qed.

Lemma csv_reader_written d T : delim_ok d = true -> table_ok T = true ->
  csv_reader d (csv_write d T) = (T, None).
Proof.
  intros Hd HT. unfold csv_reader, text_lines. rewrite read_records_run, lines_events.
  cbn [rev map app nonempty]. rewrite (universal_written d Hd T (table_no_cr T HT)), ev_end_rows.
  rewrite map_map.
  apply (run_table d Hd evs [LF]); try (apply table_limit_of; exact HT).
  - exact evs_strip.
  - intros s. apply evs_nones.
  - intros a b _. apply evs_app.
  - intros a b. rewrite !evs_app. reflexivity.
  - left. reflexivity.
Qed.

(* csv.reader over the file as the library opens it gives back exactly the rows csv.writer was given *)
Lemma csv_roundtrip d T : delim_ok d = true -> table_ok T = true -> csv_read d (csv_write d T) = Ok T.
Proof. intros Hd HT. unfold csv_read. rewrite csv_reader_written by assumption. reflexivity. Qed.

(* ---------------------------------------------------------------- newline='': nothing translated *)
Lemma two_step (P : text -> Prop) :
  P [] -> (forall c, P [c]) -> (forall c c2 t, P t -> P (c2 :: t) -> P (c :: c2 :: t)) -> forall s, P s.
Proof.
  intros H0 H1 H2 s. enough (H : P s /\ forall c, P (c :: s)) by apply H.
  induction s as [|a s [IHs IHc]]; [split; [exact H0|exact H1]|].
  split; [apply IHc|]. intros c. apply H2; [exact IHs|apply IHc].
Qed.

(* the events of a text cut at CR LF, CR, LF; no EOL for an unterminated last line *)
Fixpoint evr (s : text) : list ev :=
  match s with
  | [] => []
  | c :: t =>
      if c =? LF then Some c :: None :: evr t
      else if c =? CR then
        match t with
        | c2 :: t2 => if c2 =? LF then Some c :: Some c2 :: None :: evr t2 else Some c :: None :: evr t
        | [] => [Some c; None]
        end
      else Some c :: evr t
  end.

Fixpoint evr_end (p : bool) (s : text) : list ev :=
  match s with
  | [] => if p then [None] else []
  | c :: t =>
      if c =? LF then Some c :: None :: evr_end false t
      else if c =? CR then
        match t with
        | c2 :: t2 => if c2 =? LF then Some c :: Some c2 :: None :: evr_end false t2 else Some c :: None :: evr_end false t
        | [] => [Some c; None]
        end
      else Some c :: evr_end true t
  end.

Lemma evr_strip : forall s, strip (evr s) = s.
Proof.
  apply two_step; [reflexivity| |].
  - intros c. cbn [evr]. destruct (c =? LF); [reflexivity|]. destruct (c =? CR); reflexivity.
  - intros c c2 t IH1 IH2. cbn [evr] in *. destruct (c =? LF).
    + unfold strip in *. cbn [flat_map app]. f_equal. exact IH2.
    + destruct (c =? CR).
      * destruct (c2 =? LF); unfold strip in *; cbn [flat_map app]; f_equal; [f_equal; exact IH1|exact IH2].
      * unfold strip in *. cbn [flat_map app]. f_equal. exact IH2.
Qed.

Lemma is_nl_of c : (c =? LF) = true \/ (c =? CR) = true -> is_nl c = true.
Proof. unfold is_nl. intros [-> | ->]; [reflexivity|apply orb_true_r]. Qed.

Lemma evr_nones : forall s b, nones_ok b (evr s) = true.
Proof.
  apply (two_step (fun s => forall b, nones_ok b (evr s) = true)); [reflexivity| |].
  - intros c b. cbn [evr]. destruct (c =? LF) eqn:E1; [cbn [nones_ok]; rewrite is_nl_of by auto; reflexivity|].
    destruct (c =? CR) eqn:E2; [cbn [nones_ok]; rewrite is_nl_of by auto; reflexivity|reflexivity].
  - intros c c2 t IH1 IH2 b. cbn [evr] in *. destruct (c =? LF) eqn:E1.
    + cbn [nones_ok]. rewrite is_nl_of by auto. cbn [andb]. apply IH2.
    + destruct (c =? CR) eqn:E2.
      * destruct (c2 =? LF) eqn:E3; cbn [nones_ok].
        -- rewrite (is_nl_of c2) by auto. cbn [andb]. apply IH1.
        -- rewrite is_nl_of by auto. cbn [andb]. apply IH2.
      * cbn [nones_ok]. apply IH2.
Qed.

Lemma last_cons2 (c c2 : N) t : last (c :: c2 :: t) 0 = last (c2 :: t) 0.
Proof. reflexivity. Qed.

Lemma evr_eq2 c c2 t : evr (c :: c2 :: t) =
  if c =? LF then Some c :: None :: evr (c2 :: t)
  else if c =? CR then (if c2 =? LF then Some c :: Some c2 :: None :: evr t else Some c :: None :: evr (c2 :: t))
  else Some c :: evr (c2 :: t).
Proof. reflexivity. Qed.

Lemma evr_end_eq2 p c c2 t : evr_end p (c :: c2 :: t) =
  if c =? LF then Some c :: None :: evr_end false (c2 :: t)
  else if c =? CR then (if c2 =? LF then Some c :: Some c2 :: None :: evr_end false t
                        else Some c :: None :: evr_end false (c2 :: t))
  else Some c :: evr_end true (c2 :: t).
Proof. reflexivity. Qed.

Lemma raw_lines_eq2 cur c c2 t : raw_lines_from cur (c :: c2 :: t) =
  if c =? LF then frev (c :: cur) :: raw_lines_from [] (c2 :: t)
  else if c =? CR then (if c2 =? LF then frev (c2 :: c :: cur) :: raw_lines_from [] t
                        else frev (c :: cur) :: raw_lines_from [] (c2 :: t))
  else raw_lines_from (c :: cur) (c2 :: t).
Proof. reflexivity. Qed.

Lemma evr_app : forall a b, ends_cr a && starts_lf b = false -> evr (a ++ b) = evr a ++ evr b.
Proof.
  apply (two_step (fun a => forall b, ends_cr a && starts_lf b = false -> evr (a ++ b) = evr a ++ evr b)).
  - reflexivity.
  - intros c b H. unfold ends_cr in H. cbn [last] in H. cbn [app evr].
    destruct (c =? LF); [reflexivity|]. destruct (c =? CR); [|reflexivity].
    cbn [andb] in H. destruct b as [|c2 t2]; [reflexivity|]. cbn [starts_lf] in H. rewrite H. reflexivity.
  - intros c c2 t IH1 IH2 b H. unfold ends_cr in H. rewrite last_cons2 in H.
    change ((c :: c2 :: t) ++ b) with (c :: c2 :: (t ++ b)). rewrite !evr_eq2.
    change (c2 :: t ++ b) with ((c2 :: t) ++ b).
    destruct (c =? LF).
    + cbn [app]. f_equal. f_equal. apply (IH2 b). exact H.
    + destruct (c =? CR).
      * destruct (c2 =? LF).
        -- cbn [app]. f_equal. f_equal. f_equal. apply IH1. unfold ends_cr.
           destruct t as [|x t]; [reflexivity|exact H].
        -- cbn [app]. f_equal. f_equal. apply (IH2 b). exact H.
      * cbn [app]. f_equal. apply (IH2 b). exact H.
Qed.

Lemma evr_term a b : evr (a ++ [CR; LF] ++ b) = evr a ++ map Some [CR; LF] ++ None :: evr b.
Proof. rewrite evr_app by (cbn [starts_lf app]; apply andb_false_r). reflexivity. Qed.

Lemma raw_lines_events : forall s cur,
  flat_map line_events (raw_lines_from cur s) = map Some (rev cur) ++ evr_end (nonempty cur) s.
Proof.
  apply (two_step (fun s => forall cur,
    flat_map line_events (raw_lines_from cur s) = map Some (rev cur) ++ evr_end (nonempty cur) s)).
  - intros cur. cbn [raw_lines_from evr_end]. destruct cur as [|x cur]; [reflexivity|].
    cbn [flat_map nonempty]. rewrite app_nil_r, frev_rev. reflexivity.
  - intros c cur. cbn [raw_lines_from evr_end]. destruct (c =? LF).
    + cbn [flat_map]. rewrite app_nil_r, frev_rev. unfold line_events. cbn [rev]. rewrite map_app, <- !app_assoc. reflexivity.
    + destruct (c =? CR).
      * cbn [flat_map]. rewrite app_nil_r, frev_rev. unfold line_events. cbn [rev]. rewrite map_app, <- !app_assoc. reflexivity.
      * cbn [flat_map nonempty]. rewrite app_nil_r, frev_rev. cbn [rev]. unfold line_events. rewrite map_app, <- app_assoc. reflexivity.
  - intros c c2 t IH1 IH2 cur. rewrite raw_lines_eq2, evr_end_eq2. destruct (c =? LF).
    + cbn [flat_map]. rewrite (IH2 []), frev_rev. unfold line_events. cbn [rev nonempty map app].
      rewrite map_app, <- !app_assoc. reflexivity.
    + destruct (c =? CR).
      * destruct (c2 =? LF).
        -- cbn [flat_map]. rewrite (IH1 []), frev_rev. unfold line_events. cbn [rev nonempty map app].
           rewrite !map_app, <- !app_assoc. reflexivity.
        -- cbn [flat_map]. rewrite (IH2 []), frev_rev. unfold line_events. cbn [rev nonempty map app].
           rewrite map_app, <- !app_assoc. reflexivity.
      * rewrite (IH2 (c :: cur)). cbn [rev nonempty]. rewrite map_app, <- app_assoc. reflexivity.
Qed.

Lemma evr_end_row : forall a p rest,
  evr_end p (a ++ CR :: LF :: rest) = evr a ++ Some CR :: Some LF :: None :: evr_end false rest.
Proof.
  apply (two_step (fun a => forall p rest,
    evr_end p (a ++ CR :: LF :: rest) = evr a ++ Some CR :: Some LF :: None :: evr_end false rest)).
  - reflexivity.
  - intros c p rest. cbn [app evr_end evr]. destruct (c =? LF); [reflexivity|]. destruct (c =? CR); reflexivity.
  - intros c c2 t IH1 IH2 p rest. change ((c :: c2 :: t) ++ CR :: LF :: rest) with (c :: c2 :: (t ++ CR :: LF :: rest)).
    rewrite evr_end_eq2, evr_eq2. change (c2 :: t ++ CR :: LF :: rest) with ((c2 :: t) ++ CR :: LF :: rest).
    destruct (c =? LF).
    + rewrite IH2. reflexivity.
    + destruct (c =? CR).
      * destruct (c2 =? LF); [rewrite IH1|rewrite IH2]; reflexivity.
      * rewrite IH2. reflexivity.
Qed.

Lemma evr_end_rows : forall xs : list text,
  evr_end false (concat (map (fun x => x ++ [CR; LF]) xs)) = evr (concat (map (fun x => x ++ [CR; LF]) xs)).
Proof.
  induction xs as [|x xs IH]; [reflexivity|].
  cbn [map concat]. rewrite <- app_assoc. cbn [app]. rewrite evr_end_row, IH.
  change (x ++ CR :: LF :: concat (map (fun x0 => x0 ++ [CR; LF]) xs))
    with (x ++ [CR; LF] ++ concat (map (fun x0 => x0 ++ [CR; LF]) xs)).
  rewrite evr_term. reflexivity.
Qed.

Lemma csv_reader_raw_written d T : delim_ok d = true -> table_ok_raw T = true ->
  csv_reader_raw d (csv_write d T) = (T, None).
Proof.
  intros Hd HT. unfold csv_reader_raw, raw_lines. rewrite read_records_run, raw_lines_events.
  cbn [rev map app nonempty]. rewrite csv_write_rows, <- (map_map (row_body d) (fun x => x ++ [CR; LF])).
  rewrite evr_end_rows, map_map.
  apply (run_table d Hd evr [CR; LF]); try exact HT.
  - exact evr_strip.
  - intros s. apply evr_nones.
  - exact evr_app.
  - exact evr_term.
  - right. reflexivity.
Qed.

(* with newline='' every cell comes back, carriage returns included *)
Lemma csv_roundtrip_raw d T : delim_ok d = true -> table_ok_raw T = true -> csv_read_raw d (csv_write d T) = Ok T.
Proof. intros Hd HT. unfold csv_read_raw. rewrite csv_reader_raw_written by assumption. reflexivity. Qed.

(* ================================================================ Part E: what is lost *)
(* mode r: a carriage return in a cell arrives as a line feed, CR LF as one line feed *)
Lemma csv_cr_lost :
  csv_read COMMA (csv_write COMMA [[[97; CR; 98]]]) = Ok [[[97; LF; 98]]]
  /\ csv_read COMMA (csv_write COMMA [[[97; CR; LF; 98]]]) = Ok [[[97; LF; 98]]]
  /\ csv_read_raw COMMA (csv_write COMMA [[[97; CR; 98]]]) = Ok [[[97; CR; 98]]].
Proof. repeat split; vm_compute; reflexivity. Qed.

(* the domain predicates are exact on the delimiter: each excluded delimiter loses a table *)
Lemma csv_delim_refuted :
  csv_read_raw QUOTE (csv_write QUOTE [[[97; QUOTE]; [98]]]) <> Ok [[[97; QUOTE]; [98]]]
  /\ csv_read_raw CR (csv_write CR [[[97]; [98]]]) <> Ok [[[97]; [98]]]
  /\ csv_read_raw LF (csv_write LF [[[97]; [98]]]) <> Ok [[[97]; [98]]].
Proof. repeat split; vm_compute; discriminate. Qed.

(* ================================================================ the text layer is Model/Workbook.v's *)
Lemma lines_from_same : forall s cur, lines_from cur s = Workbook.lines_from cur s.
Proof.
  induction s as [|c s IH]; intros cur.
  - cbn [lines_from Workbook.lines_from]. destruct cur; [reflexivity|]. rewrite frev_rev. reflexivity.
  - cbn [lines_from Workbook.lines_from]. change 10 with LF. destruct (c =? LF); [rewrite frev_rev, IH; reflexivity|apply IH].
Qed.

Lemma text_lines_same s : text_lines s = Workbook.text_lines s.
Proof. apply lines_from_same. Qed.

(* ================================================================ the size limit is exact *)
Lemma evs_plain : forall s, forallb (fun c => negb (c =? LF)) s = true -> evs s = map Some s.
Proof.
  induction s as [|c s IH]; [reflexivity|]. cbn [forallb]. intros H. apply andb_prop in H as [Hc Hs].
  apply negb_true_iff in Hc. rewrite evs_cons, Hc, IH by exact Hs. reflexivity.
Qed.

Lemma plain_no_cr_lf d s : existsb (special d) s = false ->
  no_cr s = true /\ forallb (fun c => negb (c =? LF)) s = true.
Proof.
  induction s as [|c s IH]; [split; reflexivity|]. cbn [existsb]. intros H. apply orb_false_elim in H as [Hc Hs].
  destruct (special_inv d c Hc) as (_ & _ & H3 & H4). destruct (IH Hs) as [I1 I2].
  cbn [no_cr forallb]. unfold no_cr in I1. rewrite H3, H4, I1, I2. split; reflexivity.
Qed.

Lemma existsb_app_false {A} (p : A -> bool) a b : existsb p (a ++ b) = false -> existsb p a = false /\ existsb p b = false.
Proof. rewrite existsb_app. apply orb_false_elim. Qed.

(* an unquoted cell one character longer than the limit (or more): the reader raises csv.Error *)
Lemma csv_over_limit d cs : delim_ok d = true -> existsb (special d) cs = false ->
  field_limit < N.of_nat (length cs) -> csv_read d (csv_write d [[cs]]) = Err OtherError.
Proof.
  intros Hd Hp Hlen.
  destruct cs as [|c cs]; [cbn [length N.of_nat] in Hlen; lia|].
  pose proof Hp as Hp0. cbn [existsb] in Hp. apply orb_false_elim in Hp as [Hc Hcs].
  cbn [length] in Hlen. rewrite of_nat_succ in Hlen.
  set (k := N.to_nat (field_limit - 1)).
  assert (Hk : N.of_nat k = field_limit - 1) by apply N2Nat.id.
  assert (Hlim : 1 <= field_limit) by (unfold field_limit; lia).
  assert (Hkl : (k <= length cs)%nat) by lia.
  rewrite <- (firstn_skipn k cs) in Hcs |- *.
  destruct (skipn k cs) as [|x post] eqn:Es.
  { pose proof (skipn_length k cs) as Hsl. rewrite Es in Hsl. cbn [length] in Hsl. lia. }
  pose proof (firstn_length_le cs Hkl) as Hpre. set (pre := firstn k cs) in *.
  destruct (existsb_app_false _ _ _ Hcs) as [Hpre_p Hx]. cbn [existsb] in Hx. apply orb_false_elim in Hx as [Hx _].
  unfold csv_read, csv_reader, text_lines, csv_write. cbn [map concat]. rewrite app_nil_r.
  assert (Hw : write_row d [c :: pre ++ x :: post] = (c :: pre ++ x :: post) ++ [CR; LF]).
  { unfold write_row. cbn [map join]. unfold write_field, needs_quotes.
    replace (existsb (special d) (c :: pre ++ x :: post)) with false; [reflexivity|].
    symmetry. cbn [existsb]. rewrite Hc, existsb_app, Hpre_p. cbn [existsb orb]. rewrite Hx.
    destruct (existsb_app_false _ _ _ Hcs) as [_ H2]. cbn [existsb] in H2. apply orb_false_elim in H2 as [_ H2]. exact H2. }
  rewrite Hw.
  assert (Hall : existsb (special d) (c :: pre ++ x :: post) = false).
  { cbn [existsb]. rewrite Hc. exact Hcs. }
  destruct (plain_no_cr_lf d _ Hall) as [Hnocr Hnolf].
  change ((c :: pre ++ x :: post) ++ [CR; LF]) with ((c :: pre ++ x :: post) ++ CR :: LF :: []).
  rewrite universal_row by exact Hnocr. cbn [Workbook.universal_newlines].
  rewrite read_records_run, lines_events. cbn [rev map app nonempty].
  change (c :: (pre ++ x :: post) ++ [LF]) with ((c :: pre ++ x :: post) ++ LF :: []).
  rewrite (ev_end_line (c :: pre ++ x :: post) false []), (evs_plain _ Hnolf).
  cbn [map app]. unfold reset. rewrite run_sr_other by exact (special_not_nl d c Hc).
  rewrite (run_some d _ _ _ _ (pc_sf_plain d [] 0 [] c Hc ltac:(unfold field_limit; lia))).
  rewrite map_app, <- app_assoc.
  rewrite (run_infield d pre [c] (0 + 1) [] _ Hpre_p) by lia.
  cbn [map app run]. unfold process_char. cbn [r_state].
  rewrite (special_not_nl d x Hx). destruct (special_inv d x Hx) as (Hxd & _). rewrite Hxd.
  unfold add_char. cbn [r_len].
  replace (field_limit <=? 0 + 1 + N.of_nat (length pre)) with true by (symmetry; apply N.leb_le; lia).
  reflexivity.
Qed.

(* ================================================================ the characters of a written file *)
Section Chars.
Variable P : N -> bool.
Variable d : N.
Hypothesis Pd : P d = true.
Hypothesis Pq : P QUOTE = true.
Hypothesis Pcr : P CR = true.
Hypothesis Plf : P LF = true.

Lemma all_double_quotes f : forallb P f = true -> forallb P (double_quotes f) = true.
Proof.
  induction f as [|c f IH]; [reflexivity|]. cbn [forallb double_quotes]. intros H. apply andb_prop in H as [Hc Hf].
  destruct (c =? QUOTE); cbn [forallb]; rewrite ?Pq, ?Hc, IH by exact Hf; reflexivity.
Qed.

Lemma all_write_field f : forallb P f = true -> forallb P (write_field d f) = true.
Proof.
  intros H. unfold write_field. destruct (needs_quotes d f); [|exact H].
  cbn [forallb]. rewrite Pq, forallb_app, all_double_quotes by exact H. cbn [forallb]. rewrite Pq. reflexivity.
Qed.

Lemma all_join : forall fs, forallb (forallb P) fs = true -> forallb P (join d fs) = true.
Proof.
  induction fs as [|f fs IH]; [reflexivity|]. cbn [forallb]. intros H. apply andb_prop in H as [Hf Hfs].
  destruct fs as [|g t]; [exact Hf|]. rewrite join_cons2, forallb_app, Hf. cbn [forallb andb].
  rewrite Pd. apply IH. exact Hfs.
Qed.

Lemma all_write_row r : forallb (forallb P) r = true -> forallb P (write_row d r) = true.
Proof.
  intros H. rewrite write_row_body, forallb_app. cbn [forallb]. rewrite Pcr, Plf, !andb_true_r.
  assert (Hj : forallb P (join d (map (write_field d) r)) = true).
  { apply all_join. rewrite forallb_forall in *. intros x Hx. apply in_map_iff in Hx as (f & <- & Hf).
    apply all_write_field, H, Hf. }
  unfold row_body. destruct r; [reflexivity|]. destruct (join d _); [cbn [forallb]; rewrite Pq; reflexivity|exact Hj].
Qed.

Lemma all_csv_write T : forallb (forallb (forallb P)) T = true -> forallb P (csv_write d T) = true.
Proof.
  unfold csv_write. induction T as [|r T IH]; [reflexivity|]. cbn [forallb map concat]. intros H.
  apply andb_prop in H as [Hr HT]. rewrite forallb_app, all_write_row, IH by assumption. reflexivity.
Qed.
End Chars.

(* ================================================================ the reader as the library opens the file *)
(* Gen/CsvOpenParams.csv_newline_raw is read from CSVUnpacker.open on every run.  The two lemmas below need it to be
   true (the file is opened with newline=''): with the text-mode open of the tree before commit aa3b8fc the parameter
   is false, [change] fails and this file no longer compiles - a cell with a carriage return is then not read back
   ([csv_cr_lost]). *)
Lemma lib_reader_written d T : delim_ok d = true -> table_ok_raw T = true ->
  lib_reader d (csv_write d T) = (T, None).
Proof.
  intros Hd HT. unfold lib_reader. change SR.Gen.CsvOpenParams.csv_newline_raw with true. cbn iota.
  apply csv_reader_raw_written; assumption.
Qed.

Lemma lib_roundtrip d T : delim_ok d = true -> table_ok_raw T = true -> lib_read d (csv_write d T) = Ok T.
Proof. intros Hd HT. unfold lib_read. rewrite lib_reader_written by assumption. reflexivity. Qed.

(* a text without carriage return is cut into the same lines by both text layers *)
Lemma raw_lines_no_cr : forall s cur, no_cr s = true -> raw_lines_from cur s = lines_from cur s.
Proof.
  induction s as [|c s IH]; intros cur H; [reflexivity|].
  cbn [no_cr forallb] in H. apply andb_prop in H as [Hc Hs]. apply negb_true_iff in Hc.
  cbn [raw_lines_from lines_from]. rewrite Hc. destruct (c =? LF); rewrite IH by exact Hs; reflexivity.
Qed.

Lemma raw_lines_text_lines s : no_cr s = true -> raw_lines s = Workbook.text_lines s.
Proof.
  intros H. rewrite <- text_lines_same. unfold raw_lines, text_lines.
  rewrite SR.Proofs.WorkbookP.universal_newlines_id by exact H. apply raw_lines_no_cr. exact H.
Qed.
