(* Proofs/DupHeadingsP.v - the heading-row schema for ANY heading row, repeated names included
   (known finding K-duplicate-heading-last-wins of property C09).

   HeadingRowSchemaLoader.header builds its properties with a dict comprehension keyed by str(name):
   a repeated key keeps its FIRST place in the dict and takes the LAST value (Model/HeaderRow.v
   dict_set / dict_of).  Hence, with no hypothesis on the heading row:
     - asking for a name reads the cell under the LAST column headed by that name (dup_nav),
     - the value list has one value per DISTINCT name, in order of first occurrence (dup_values),
     - so a row's value list is shorter than the heading row as soon as a name is repeated
       (dup_values_shorter), and the cells under the earlier columns of that name cannot be
       reached by name at all.
   The specification-side functions are those of Spec/DupHeadings.v; their meaning is pinned
   down by last_index_spec / last_index_none / first_names_* below. *)
From Coq Require Import NArith List Bool Arith Lia.
Import ListNotations.
Require Import SR.Base.Res SR.Spec.Table SR.Spec.DupHeadings SR.Model.HeaderRow SR.Proofs.HeaderRowP.
Require Export SR.Spec.DupHeadingsWf.

(* ---------------------------------------------------------------- key equality *)
Lemma key_eqb_sym a b : key_eqb a b = key_eqb b a.
Proof.
  destruct (key_eqb a b) eqn:E1, (key_eqb b a) eqn:E2; try reflexivity.
  - apply key_eqb_eq in E1. subst. rewrite key_eqb_refl in E2. discriminate.
  - apply key_eqb_eq in E2. subst. rewrite key_eqb_refl in E1. discriminate.
Qed.

Lemma existsb_key_in k l : existsb (key_eqb k) l = true <-> In k l.
Proof.
  rewrite existsb_exists. split.
  - intros (x & Hx & E). apply key_eqb_eq in E. subst. exact Hx.
  - intros H. exists k. split; [exact H|apply key_eqb_refl].
Qed.

Lemma existsb_key_notin k l : existsb (key_eqb k) l = false <-> ~ In k l.
Proof.
  split.
  - intros H Hin. apply existsb_key_in in Hin. rewrite Hin in H. discriminate.
  - intros H. destruct (existsb (key_eqb k) l) eqn:E; [|reflexivity].
    apply existsb_key_in in E. contradiction.
Qed.

(* ---------------------------------------------------------------- what the specification's functions mean *)
Lemma last_index_some k hs : forall i,
  last_index key_eqb k hs = Some i ->
  nth_error hs i = Some k /\ forall j, i < j -> nth_error hs j <> Some k.
Proof.
  induction hs as [|h t IH]; intros i H; cbn [last_index] in H; [discriminate|].
  destruct (last_index key_eqb k t) as [i'|] eqn:E.
  - injection H as <-. destruct (IH i' eq_refl) as [H1 H2]. split; [exact H1|].
    intros [|j] Hj; [lia|]. cbn [nth_error]. apply H2. lia.
  - destruct (key_eqb h k) eqn:Eh; [|discriminate]. injection H as <-.
    apply key_eqb_eq in Eh. subst h. split; [reflexivity|].
    intros [|j] Hj; [lia|]. cbn [nth_error]. intros Hn.
    (* no later occurrence: last_index of the tail is None *)
    assert (forall l, last_index key_eqb k l = None -> ~ In k l) as Hnone.
    { induction l as [|a l IHl]; intros Hl; [intros []|]. cbn [last_index] in Hl.
      destruct (last_index key_eqb k l); [discriminate|].
      destruct (key_eqb a k) eqn:Ea; [discriminate|].
      intros [->|Hin]; [rewrite key_eqb_refl in Ea; discriminate|]. exact (IHl eq_refl Hin). }
    apply (Hnone t E). eapply nth_error_In. exact Hn.
Qed.

Lemma last_index_none k hs : last_index key_eqb k hs = None <-> ~ In k hs.
Proof.
  induction hs as [|a l IH]; cbn [last_index]; [split; [intros _ []|reflexivity]|].
  destruct (last_index key_eqb k l) as [i|] eqn:E.
  - split; [discriminate|]. intros H. exfalso. apply H. right.
    destruct (last_index_some k l i E) as [H1 _]. eapply nth_error_In. exact H1.
  - destruct (key_eqb a k) eqn:Ea.
    + split; [discriminate|]. intros H. exfalso. apply H. left. apply key_eqb_eq. exact Ea.
    + split; [|reflexivity]. intros _ [->|Hin]; [rewrite key_eqb_refl in Ea; discriminate|].
      apply (proj1 IH eq_refl). exact Hin.
Qed.

(* last_index k hs = Some i exactly when column i is headed k and no later column is *)
Lemma last_index_spec k hs i :
  last_index key_eqb k hs = Some i <->
  (nth_error hs i = Some k /\ forall j, i < j -> nth_error hs j <> Some k).
Proof.
  split; [apply last_index_some|].
  intros [H1 H2]. destruct (last_index key_eqb k hs) as [i'|] eqn:E.
  - destruct (last_index_some k hs i' E) as [H3 H4].
    destruct (Nat.lt_trichotomy i i') as [Hlt|[->|Hlt]]; [|reflexivity|].
    + exfalso. exact (H2 i' Hlt H3).
    + exfalso. exact (H4 i Hlt H1).
  - exfalso. apply (proj1 (last_index_none k hs) E). eapply nth_error_In. exact H1.
Qed.

Lemma dedup_ext (s1 s2 : list key) hs :
  (forall x, existsb (key_eqb x) s1 = existsb (key_eqb x) s2) ->
  dedup key_eqb s1 hs = dedup key_eqb s2 hs.
Proof.
  revert s1 s2. induction hs as [|h t IH]; intros s1 s2 H; cbn [dedup]; [reflexivity|].
  rewrite (H h). destruct (existsb (key_eqb h) s2); [apply IH; exact H|].
  f_equal. apply IH. intros x. cbn [existsb]. rewrite H. reflexivity.
Qed.

Lemma dedup_in seen hs k : In k (dedup key_eqb seen hs) <-> In k hs /\ ~ In k seen.
Proof.
  revert seen. induction hs as [|h t IH]; intros seen; cbn [dedup]; [split; [intros []|intros [[] _]]|].
  destruct (existsb (key_eqb h) seen) eqn:E.
  - rewrite IH. apply existsb_key_in in E. split.
    + intros [H1 H2]. split; [right; exact H1|exact H2].
    + intros [[->|H1] H2]; [contradiction|]. split; assumption.
  - apply existsb_key_notin in E. split.
    + intros [<-|H]; [split; [left; reflexivity|exact E]|].
      apply IH in H. destruct H as [H1 H2]. split; [right; exact H1|].
      intros Hin. apply H2. right. exact Hin.
    + intros [[->|H1] H2]; [left; reflexivity|].
      destruct (list_eq_dec N.eq_dec h k) as [->|Hne]; [left; reflexivity|].
      right. apply IH. split; [exact H1|]. intros [Hh|Hs]; [exact (Hne Hh)|exact (H2 Hs)].
Qed.

Lemma dedup_nodup seen hs : NoDup (dedup key_eqb seen hs).
Proof.
  revert seen. induction hs as [|h t IH]; intros seen; cbn [dedup]; [constructor|].
  destruct (existsb (key_eqb h) seen); [apply IH|].
  constructor; [|apply IH]. intros Hin. apply dedup_in in Hin. destruct Hin as [_ Hn].
  apply Hn. left. reflexivity.
Qed.

(* the distinct names: no name twice, exactly the names of the heading row ... *)
Lemma first_names_nodup (hs : list key) : NoDup (first_names key_eqb hs).
Proof. apply dedup_nodup. Qed.

Lemma first_names_in (hs : list key) k : In k (first_names key_eqb hs) <-> In k hs.
Proof.
  unfold first_names. rewrite dedup_in. split; [intros [H _]; exact H|intros H; split; [exact H|intros []]].
Qed.

(* ... in order of first occurrence: a further column adds its name at the end unless the name
   was there already *)
Lemma dedup_snoc seen hs k :
  dedup key_eqb seen (hs ++ [k])
  = dedup key_eqb seen hs ++ (if existsb (key_eqb k) seen || existsb (key_eqb k) hs then [] else [k]).
Proof.
  revert seen. induction hs as [|h t IH]; intros seen; cbn [app dedup existsb].
  - rewrite orb_false_r. destruct (existsb (key_eqb k) seen); reflexivity.
  - destruct (existsb (key_eqb h) seen) eqn:E.
    + rewrite IH. f_equal. destruct (key_eqb k h) eqn:Ek; [|reflexivity].
      apply key_eqb_eq in Ek. subst k. rewrite E. reflexivity.
    + rewrite IH. cbn [app existsb]. f_equal. f_equal.
      rewrite (orb_comm (key_eqb k h)), orb_assoc. reflexivity.
Qed.

Lemma first_names_snoc (hs : list key) k :
  first_names key_eqb (hs ++ [k])
  = first_names key_eqb hs ++ (if existsb (key_eqb k) hs then [] else [k]).
Proof. unfold first_names. rewrite dedup_snoc. reflexivity. Qed.

Lemma first_names_distinct (hs : list key) : NoDup hs -> first_names key_eqb hs = hs.
Proof.
  assert (forall hs seen, NoDup hs -> (forall x, In x hs -> ~ In x seen) -> dedup key_eqb seen hs = hs) as G.
  { clear hs. induction hs as [|h t IH]; intros seen Hnd Hs; cbn [dedup]; [reflexivity|].
    inversion Hnd as [|x l Hnotin Hnd']; subst.
    rewrite (proj2 (existsb_key_notin h seen)); [|apply Hs; left; reflexivity].
    f_equal. apply IH; [exact Hnd'|].
    intros x Hx [<-|Hin]; [exact (Hnotin Hx)|]. exact (Hs x (or_intror Hx) Hin). }
  intros Hnd. unfold first_names. apply G; [exact Hnd|intros x _ []].
Qed.

Lemma dedup_length_le (hs : list key) : forall seen, length (dedup key_eqb seen hs) <= length hs.
Proof.
  induction hs as [|h t IH]; intros seen; cbn [dedup length]; [lia|].
  destruct (existsb (key_eqb h) seen); cbn [length].
  - specialize (IH seen). lia.
  - specialize (IH (h :: seen)). lia.
Qed.

Lemma dedup_length_lt (hs : list key) : forall seen,
  (exists x, In x hs /\ In x seen) -> length (dedup key_eqb seen hs) < length hs.
Proof.
  induction hs as [|h t IH]; intros seen (x & Hx & Hs); [destruct Hx|]. cbn [dedup length].
  destruct (existsb (key_eqb h) seen) eqn:E; cbn [length].
  - pose proof (dedup_length_le t seen). lia.
  - destruct Hx as [->|Hx]; [apply existsb_key_notin in E; contradiction|].
    assert (length (dedup key_eqb (h :: seen) t) < length t); [|lia].
    apply IH. exists x. split; [exact Hx|right; exact Hs].
Qed.

Lemma repeated_spec (hs : list key) : repeated key_eqb hs = true <-> ~ NoDup hs.
Proof.
  induction hs as [|h t IH]; cbn [repeated]; [split; [discriminate|intros H; exfalso; apply H; constructor]|].
  rewrite orb_true_iff, IH, existsb_key_in. split.
  - intros [H|H] Hnd; inversion Hnd; subst; contradiction.
  - intros H. destruct (in_dec (list_eq_dec N.eq_dec) h t) as [Hin|Hnin]; [left; exact Hin|].
    right. intros Hnd. apply H. constructor; assumption.
Qed.

Lemma repeated_shorter (hs : list key) : forall seen,
  repeated key_eqb hs = true -> length (dedup key_eqb seen hs) < length hs.
Proof.
  induction hs as [|h t IH]; intros seen H; cbn [repeated] in H; [discriminate|]. cbn [dedup length].
  destruct (existsb (key_eqb h) seen) eqn:E; cbn [length].
  - pose proof (dedup_length_le t seen). lia.
  - apply orb_true_iff in H. destruct H as [H|H].
    + apply existsb_key_in in H.
      assert (length (dedup key_eqb (h :: seen) t) < length t); [|lia].
      apply dedup_length_lt. exists h. split; [exact H|left; reflexivity].
    + specialize (IH (h :: seen) H). lia.
Qed.

(* ---------------------------------------------------------------- the dict built from ANY entry list *)
Lemma has_key_keys s k : has_key s k = existsb (key_eqb k) (keys s).
Proof.
  induction s as [|e s IH]; cbn [has_key keys map existsb]; [reflexivity|].
  unfold has_key in IH. unfold keys in IH. rewrite IH. rewrite key_eqb_sym. reflexivity.
Qed.

Lemma keys_replace s e :
  keys (map (fun x => if key_eqb (e_key x) (e_key e) then e else x) s) = keys s.
Proof.
  unfold keys. induction s as [|a s IH]; [reflexivity|]. cbn [map]. rewrite IH. f_equal.
  destruct (key_eqb (e_key a) (e_key e)) eqn:E; [|reflexivity].
  apply key_eqb_eq in E. symmetry. exact E.
Qed.

Lemma keys_dict_set s e :
  keys (dict_set s e) = if has_key s (e_key e) then keys s else keys s ++ [e_key e].
Proof.
  unfold dict_set. destruct (has_key s (e_key e)); [apply keys_replace|].
  unfold keys. rewrite map_app. reflexivity.
Qed.

(* the keys of a dict comprehension: every key at its FIRST place *)
Lemma keys_fold es : forall acc,
  keys (fold_left dict_set es acc) = keys acc ++ dedup key_eqb (keys acc) (keys es).
Proof.
  induction es as [|e es IH]; intros acc; cbn [fold_left keys map dedup]; [rewrite app_nil_r; reflexivity|].
  rewrite IH, keys_dict_set, has_key_keys. fold (keys es).
  destruct (existsb (key_eqb (e_key e)) (keys acc)) eqn:E; [reflexivity|].
  rewrite <- app_assoc. cbn [app]. f_equal. f_equal. apply dedup_ext.
  intros x. rewrite existsb_app. cbn [existsb]. rewrite orb_false_r. apply orb_comm.
Qed.

Lemma keys_dict_of es : keys (dict_of es) = first_names key_eqb (keys es).
Proof. unfold dict_of. rewrite keys_fold. reflexivity. Qed.

Lemma find_entry_no_key s k : has_key s k = false -> find_entry s k = None.
Proof.
  unfold has_key, find_entry. induction s as [|a s IH]; cbn [existsb find]; [reflexivity|].
  intros H. apply orb_false_iff in H. destruct H as [H1 H2]. rewrite H1. apply IH. exact H2.
Qed.

Lemma find_replace s e k : has_key s (e_key e) = true ->
  find_entry (map (fun x => if key_eqb (e_key x) (e_key e) then e else x) s) k
  = if key_eqb (e_key e) k then Some e else find_entry s k.
Proof.
  unfold has_key, find_entry. induction s as [|a s IH]; cbn [existsb map find]; [discriminate|].
  intros H. destruct (key_eqb (e_key a) (e_key e)) eqn:Ea.
  - apply key_eqb_eq in Ea. rewrite Ea.
    destruct (key_eqb (e_key e) k) eqn:Ek; [reflexivity|].
    (* the rest holds no other value for k either way *)
    clear IH H. induction s as [|b s IH]; cbn [map find]; [reflexivity|].
    destruct (key_eqb (e_key b) (e_key e)) eqn:Eb.
    + apply key_eqb_eq in Eb. rewrite Eb, Ek. exact IH.
    + destruct (key_eqb (e_key b) k); [reflexivity|exact IH].
  - cbn [orb] in H. rewrite (IH H).
    destruct (key_eqb (e_key e) k) eqn:Ek; [|reflexivity].
    apply key_eqb_eq in Ek. rewrite <- Ek, Ea. reflexivity.
Qed.

Lemma find_snoc s e k :
  find_entry (s ++ [e]) k
  = match find_entry s k with Some x => Some x | None => if key_eqb (e_key e) k then Some e else None end.
Proof.
  unfold find_entry. induction s as [|a s IH]; cbn [app find]; [reflexivity|].
  destruct (key_eqb (e_key a) k); [reflexivity|exact IH].
Qed.

(* d[k] = v, then d.get(k') *)
Lemma find_dict_set s e k :
  find_entry (dict_set s e) k = if key_eqb (e_key e) k then Some e else find_entry s k.
Proof.
  unfold dict_set. destruct (has_key s (e_key e)) eqn:H; [apply find_replace; exact H|].
  rewrite find_snoc. destruct (key_eqb (e_key e) k) eqn:Ek.
  - apply key_eqb_eq in Ek. rewrite <- Ek, (find_entry_no_key s _ H). reflexivity.
  - destruct (find_entry s k); reflexivity.
Qed.

(* the last entry with key k *)
Fixpoint last_entry (k : key) (es : list entry) : option entry :=
  match es with
  | [] => None
  | e :: t => match last_entry k t with
              | Some x => Some x
              | None => if key_eqb (e_key e) k then Some e else None
              end
  end.

(* the values of a dict comprehension: every key holds its LAST value *)
Lemma find_fold es : forall acc k,
  find_entry (fold_left dict_set es acc) k
  = match last_entry k es with Some x => Some x | None => find_entry acc k end.
Proof.
  induction es as [|e es IH]; intros acc k; cbn [fold_left last_entry]; [reflexivity|].
  rewrite IH. destruct (last_entry k es); [reflexivity|].
  rewrite find_dict_set. destruct (key_eqb (e_key e) k); reflexivity.
Qed.

Lemma last_entry_positioned ks : forall n k,
  last_entry k (positioned n ks)
  = option_map (fun i => mk_entry k (Some (n + i))) (last_index key_eqb k ks).
Proof.
  induction ks as [|a t IH]; intros n k; cbn [positioned last_entry last_index]; [reflexivity|].
  rewrite IH. destruct (last_index key_eqb k t) as [i|]; cbn [option_map e_key].
  - rewrite Nat.add_succ_r. reflexivity.
  - destruct (key_eqb a k) eqn:E; [|reflexivity].
    apply key_eqb_eq in E. subst a. cbn [option_map]. rewrite Nat.add_0_r. reflexivity.
Qed.

(* ---------------------------------------------------------------- the heading-row schema, no hypothesis *)
Lemma dup_find first s k :
  header_schema first = Ok s ->
  find_entry s k = option_map (fun i => mk_entry k (Some i)) (last_index key_eqb k (map str_of first)).
Proof.
  intros Hs. rewrite header_schema_ok in Hs. injection Hs as <-.
  unfold dict_of. rewrite find_fold, last_entry_positioned.
  destruct (last_index key_eqb k (map str_of first)); reflexivity.
Qed.

(* asking for a name: the cell under the LAST column headed by it; KeyError for any other name *)
Lemma dup_nav first s r k :
  header_schema first = Ok s ->
  nav_name s k r = match last_wins_value key_eqb (map str_of first) k r with
                   | Some v => Ok v
                   | None => Err KeyError
                   end.
Proof.
  intros Hs. rewrite nav_name_unfold, (dup_find first s k Hs). unfold last_wins_value.
  destruct (last_index key_eqb k (map str_of first)) as [i|]; cbn [option_map e_pos]; [|reflexivity].
  destruct (nth_error r i); reflexivity.
Qed.

Lemma dup_keys first s :
  header_schema first = Ok s -> keys s = first_names key_eqb (map str_of first).
Proof.
  intros Hs. rewrite header_schema_ok in Hs. injection Hs as <-.
  rewrite keys_dict_of, keys_positioned. reflexivity.
Qed.

(* the value list: one value per DISTINCT name, in order of first occurrence, read from the last column *)
Lemma dup_values first s r :
  header_schema first = Ok s ->
  values s r = Ok (last_wins_values key_eqb (map str_of first) r).
Proof.
  intros Hs. rewrite rule_values, (dup_keys first s Hs). unfold last_wins_values.
  apply collect_map_ok. intros k Hk. rewrite (dup_nav first s r k Hs). unfold last_wins_value.
  destruct (last_index key_eqb k (map str_of first)) as [i|] eqn:E; [reflexivity|].
  exfalso. apply (proj1 (last_index_none _ _) E). apply first_names_in. exact Hk.
Qed.

(* ---------------------------------------------------------------- end-to-end form used by Props/C09c.v *)
Lemma duplicate_headings (h : row) (body : sheet) pre os rows :
  row_iter HeadingRow pre (h :: body) = Ok (os, rows) ->
  exists s, os = Some s /\ rows = body
    /\ (forall (k : key) (i : nat) (r : row),
          nth_error (map str_of h) i = Some k ->
          (forall j, i < j -> nth_error (map str_of h) j <> Some k) ->
          nav_name s k r = Ok (nth_error r i))
    /\ (forall (k : key) (r : row), ~ In k (map str_of h) -> nav_name s k r = Err KeyError)
    /\ (forall r : row, values s r = Ok (last_wins_values key_eqb (map str_of h) r))
    /\ (forall r v, values s r = Ok v -> length v = length (first_names key_eqb (map str_of h))).
Proof.
  intros H. destruct (row_iter_inv _ _ _ _ _ H) as (s & Hs & -> & ->).
  exists s. split; [reflexivity|]. split; [reflexivity|]. split; [|split; [|split]].
  - intros k i r H1 H2. rewrite (dup_nav h s r k Hs). unfold last_wins_value.
    rewrite (proj2 (last_index_spec k (map str_of h) i) (conj H1 H2)). reflexivity.
  - intros k r Hk. rewrite (dup_nav h s r k Hs). unfold last_wins_value.
    rewrite (proj2 (last_index_none k (map str_of h)) Hk). reflexivity.
  - intros r. exact (dup_values h s r Hs).
  - intros r v Hv. rewrite (dup_values h s r Hs) in Hv. injection Hv as <-.
    unfold last_wins_values. apply map_length.
Qed.

(* a repeated name: the value list is shorter than the heading row, and the cell under an earlier
   column of a repeated name is returned for NO name unless another column happens to hold it *)
Lemma dup_values_shorter (h : row) :
  repeated key_eqb (map str_of h) = true ->
  length (first_names key_eqb (map str_of h)) < length h.
Proof.
  intros H. pose proof (repeated_shorter (map str_of h) [] H) as L.
  rewrite map_length in L. exact L.
Qed.

Lemma distinct_values_full (h : row) :
  NoDup (map str_of h) -> length (first_names key_eqb (map str_of h)) = length h.
Proof. intros H. rewrite (first_names_distinct _ H). apply map_length. Qed.

(* with distinct names the last-wins reading IS the property's reading (C09_by_name / C09_values) *)
Lemma last_wins_values_distinct {C} (hs : list key) (r : list C) :
  NoDup hs -> last_wins_values key_eqb hs r = cells_in_header_order (length hs) r.
Proof.
  intros Hnd. unfold last_wins_values. rewrite (first_names_distinct _ Hnd).
  assert (forall k i, nth_error hs i = Some k -> last_index key_eqb k hs = Some i) as Hl.
  { intros k i Hi. apply last_index_spec. split; [exact Hi|].
    intros j Hj Hn. assert (i = j) as Hij; [|lia].
    apply (proj1 (NoDup_nth_error hs) Hnd i j); [|rewrite Hi, Hn; reflexivity].
    apply nth_error_Some. rewrite Hi. discriminate. }
  transitivity (map (nth_error r) (seq 0 (length hs))).
  - assert (forall (l : list key) n, (forall k i, nth_error l i = Some k -> last_index key_eqb k hs = Some (n + i)) ->
              map (fun k => match last_index key_eqb k hs with Some i => nth_error r i | None => None end) l
              = map (nth_error r) (seq n (length l))) as G.
    { induction l as [|a l IH]; intros n Hl'; [reflexivity|]. cbn [map length seq].
      rewrite (Hl' a 0 eq_refl), Nat.add_0_r. f_equal. apply IH.
      intros k i Hi. rewrite (Hl' k (S i) Hi). f_equal. lia. }
    apply (G hs 0). exact Hl.
  - apply cells_by_seq.
Qed.

(* ---------------------------------------------------------------- the statements without the hypothesis, refuted *)
Lemma witness_reads :
  exists s, row_iter HeadingRow None [w_head; w_row] = Ok (Some s, [w_row])
    /\ nav_name s (str_of w_id) w_row = Ok (Some w_7)
    /\ values s w_row = Ok [Some w_7; Some w_Ann]
    /\ nav_name s (str_of w_id) [w_1; w_Ann] = Ok None.
Proof. eexists. split; [vm_compute; reflexivity|]. repeat split; vm_compute; reflexivity. Qed.

Lemma by_name_refuted : ~ by_name_unguarded.
Proof.
  intros H. destruct (H w_head [w_row] None _ _ eq_refl) as (s & Hs & Hn).
  injection Hs as <-. specialize (Hn w_row 0 w_id eq_refl). vm_compute in Hn. discriminate.
Qed.

Lemma values_refuted : ~ values_unguarded.
Proof.
  intros H. destruct (H w_head [w_row] None _ _ eq_refl) as (s & Hs & Hn).
  injection Hs as <-. specialize (Hn w_row). vm_compute in Hn. discriminate.
Qed.

(* the hypothesis is exactly what is needed: a heading row whose every header reads its own column
   has pairwise distinct names *)
Lemma by_name_needs_distinct (h : row) (s : schema) :
  (forall (r : row) (i : nat) (c : cell), nth_error h i = Some c -> nav_name s (str_of c) r = Ok (nth_error r i)) ->
  NoDup (map str_of h).
Proof.
  intros H. apply NoDup_nth_error. intros i j Hi E.
  rewrite map_length in Hi.
  destruct (nth_error h i) as [ci|] eqn:Ei; [|apply nth_error_None in Ei; lia].
  rewrite (map_nth_error str_of i h Ei) in E.
  destruct (nth_error h j) as [cj|] eqn:Ej.
  2:{ rewrite (proj2 (nth_error_None (map str_of h) j)) in E; [discriminate|].
      rewrite map_length. apply nth_error_None. exact Ej. }
  rewrite (map_nth_error str_of j h Ej) in E. injection E as E.
  set (r := map (fun n => Txt [N.of_nat n]) (seq 0 (length h))).
  pose proof (H r i ci Ei) as Hi'. pose proof (H r j cj Ej) as Hj'.
  rewrite E, Hj' in Hi'. injection Hi' as Hij.
  assert (forall n, n < length h -> nth_error r n = Some (Txt [N.of_nat n])) as Hr.
  { intros n Hn. unfold r. rewrite (map_nth_error _ n (seq 0 (length h)) (d := n)); [reflexivity|].
    rewrite nth_error_nth' with (d := 0); [|rewrite seq_length; exact Hn].
    rewrite seq_nth; [reflexivity|exact Hn]. }
  assert (j < length h) as Hj by (apply nth_error_Some; rewrite Ej; discriminate).
  rewrite (Hr i Hi), (Hr j Hj) in Hij. injection Hij as Hij. apply Nat2N.inj in Hij. symmetry. exact Hij.
Qed.

(* an external schema sheet that lists a name twice: the property keeps its first place and takes the
   last position, so the loaded schema reads another column than the hand-written schema of the same names *)
Lemma external_repeated_name :
  exists s, ext_load_meta [[w_id]; [w_name]; [w_id]] = Ok s
    /\ map (fun e => (e_key e, e_pos e)) s = [(str_of w_id, Some 2); (str_of w_name, Some 1)]
    /\ nav_name s (str_of w_id) w_row = Ok (Some w_7)
    /\ nav_name (hand_schema [str_of w_id; str_of w_name; str_of w_id]) (str_of w_id) w_row = Ok (Some w_1)
    /\ values s w_row = Ok [Some w_7; Some w_Ann].
Proof. eexists. split; [vm_compute; reflexivity|]. repeat split; vm_compute; reflexivity. Qed.

(* ---------------------------------------------------------------- combined forms used by Props/C09c.v *)
Lemma refuted_1 :
  ~ by_name_unguarded /\ ~ values_unguarded
  /\ exists s, row_iter HeadingRow None [w_head; w_row] = Ok (Some s, [w_row])
       /\ nav_name s (str_of w_id) w_row = Ok (Some w_7)
       /\ values s w_row = Ok [Some w_7; Some w_Ann]
       /\ nav_name s (str_of w_id) [w_1; w_Ann] = Ok None.
Proof. exact (conj by_name_refuted (conj values_refuted witness_reads)). Qed.

Lemma first_names_spec (hs : list key) :
  NoDup (first_names key_eqb hs)
  /\ (forall k, In k (first_names key_eqb hs) <-> In k hs)
  /\ (forall k, first_names key_eqb (hs ++ [k])
                = first_names key_eqb hs ++ (if existsb (key_eqb k) hs then [] else [k])).
Proof. exact (conj (first_names_nodup hs) (conj (first_names_in hs) (first_names_snoc hs))). Qed.

Lemma values_shorter (h : row) :
  (repeated key_eqb (map str_of h) = true <-> ~ NoDup (map str_of h))
  /\ (repeated key_eqb (map str_of h) = true -> length (first_names key_eqb (map str_of h)) < length h)
  /\ (NoDup (map str_of h) -> length (first_names key_eqb (map str_of h)) = length h).
Proof. exact (conj (repeated_spec (map str_of h)) (conj (dup_values_shorter h) (distinct_values_full h))). Qed.

Lemma last_wins_values_distinct_cell (hs : list key) (r : row) :
  NoDup hs -> last_wins_values key_eqb hs r = cells_in_header_order (length hs) r.
Proof. exact (last_wins_values_distinct hs r). Qed.
