(* Lemmas behind Props/C02c.v, Props/C04c.v and the counter decoder of Props/C06c.v:
   the width of the specification's images, the size function on each usage family (symbolic, every
   digit count), the split of C04's enumeration, the signed-DISPLAY extra byte, binary items with an
   implied point, and the zoned counter decoder. *)
From Coq Require Import ZArith NArith List Bool Lia Arith ZifyBool ZifyN ZifyNat.
Import ListNotations.
Require Import SR.Base.Res SR.Base.Dec SR.Gen.EstructParams SR.Spec.Encode SR.Spec.Fits SR.Spec.SizeCfg SR.Spec.SizeSplit.
Require Import SR.Model.Estruct SR.Model.ZonedCounter SR.Proofs.EstructP.
Open Scope N_scope.
Ltac Zify.zify_post_hook ::= Z.to_euclidean_division_equations.

(* =================== 1. the width of the images =================== *)

Lemma length_pack_pairs_aux k : forall l, (length l <= k)%nat -> length (pack_pairs l) = (length l / 2)%nat.
Proof.
  induction k as [|k IH]; intros l Hk.
  - destruct l; [reflexivity|cbn [length] in Hk; lia].
  - destruct l as [|a [|b t]]; [reflexivity|reflexivity|].
    cbn [pack_pairs length] in *. rewrite IH by lia. lia.
Qed.

Lemma length_pack_pairs l : length (pack_pairs l) = (length l / 2)%nat.
Proof. apply (length_pack_pairs_aux (length l)). lia. Qed.

(* packed decimal: digits plus a sign nibble, two per byte, whatever the digits and the sign nibble are *)
Lemma length_enc_packed ds s : length (enc_packed ds s) = spec_packed_width (length ds).
Proof.
  unfold enc_packed, spec_packed_width.
  destruct (Nat.even (length (ds ++ [s]))) eqn:He; rewrite length_pack_pairs.
  - apply Nat.even_spec in He. destruct He as [k Hk].
    rewrite app_length in *. cbn [length] in *. lia.
  - assert (Ho : Nat.odd (length (ds ++ [s])) = true) by (rewrite <- Nat.negb_even, He; reflexivity).
    apply Nat.odd_spec in Ho. destruct Ho as [k Hk].
    cbn [length]. rewrite app_length in *. cbn [length] in *. lia.
Qed.

(* zoned decimal: one byte per digit, the sign costs nothing *)
Lemma length_enc_zoned ds z : length (enc_zoned ds z) = length ds.
Proof.
  induction ds as [|d t IH]; [reflexivity|].
  destruct t as [|e t']; [reflexivity|]. rewrite enc_zoned_cons2. cbn [length] in *. rewrite IH. reflexivity.
Qed.

(* binary: w bytes, whatever the value *)
Lemma length_enc_be w v : length (enc_be w v) = w.
Proof. unfold enc_be. apply length_to_be. Qed.

(* =================== 2. the size function, family by family, every digit count =================== *)

Lemma usage_calc_packed u : In u packed_spellings -> mem u calc_display = false /\ mem u calc_packed = true.
Proof. unfold packed_spellings. cbn [In]. intros [<-|[<-|[<-|[]]]]; split; reflexivity. Qed.

Lemma usage_calc_binary u : In u binary_spellings ->
  mem u calc_display = false /\ mem u calc_packed = false /\ mem u calc_float4 = false
  /\ mem u calc_float8 = false /\ mem u calc_binary = true.
Proof. unfold binary_spellings. cbn [In]. intros [<-|[<-|[<-|[<-|[<-|[]]]]]]; repeat split; reflexivity. Qed.

Lemma calcsize_packed u s m n : In u packed_spellings -> (1 <= m + n)%nat ->
  calcsize u (mkpic s m n) = Ok (N.of_nat (spec_packed_width (m + n))).
Proof.
  intros Hu Hmn. destruct (usage_calc_packed u Hu) as [H1 H2].
  unfold calcsize, picture_size, sign_positions. cbn [p_signed p_int p_frac]. rewrite H1, H2.
  replace (calc_packed_mode =? 0) with true by reflexivity.
  destruct (_ =? 0) eqn:E0; [destruct s; lia|].
  f_equal. unfold spec_packed_width. destruct s; lia.
Qed.

Lemma calcsize_display s m n : (1 <= m + n)%nat ->
  calcsize display_spelling (mkpic s m n) = Ok (N.of_nat (spec_display_width s (m + n))).
Proof.
  intros Hmn. unfold calcsize, picture_size. cbn [p_signed p_int p_frac].
  replace (mem display_spelling calc_display) with true by reflexivity.
  destruct (_ =? 0) eqn:E0; [destruct s; lia|].
  f_equal. unfold spec_display_width. destruct s; lia.
Qed.

Lemma calcsize_binary u s m n w : In u binary_spellings -> spec_binary_width (m + n) = Some w ->
  s && ((m + n =? 4)%nat || (m + n =? 9)%nat) = false ->
  calcsize u (mkpic s m n) = Ok (N.of_nat w).
Proof.
  intros Hu Hw Hk. destruct (usage_calc_binary u Hu) as (H1 & H2 & H3 & H4 & H5).
  unfold calcsize, picture_size. cbn [p_signed p_int p_frac]. rewrite H1, H2, H3, H4, H5.
  unfold calc_bin_t1, calc_bin_t2. unfold spec_binary_width in Hw.
  destruct (m + n <? 1)%nat eqn:E1; [discriminate|].
  destruct (_ =? 0) eqn:E0; [destruct s; lia|].
  destruct (m + n <=? 4)%nat eqn:E2.
  { injection Hw as <-. destruct s; cbn [andb] in Hk;
      destruct (_ <? 5) eqn:Ea; try reflexivity; lia. }
  destruct (m + n <=? 9)%nat eqn:E3.
  { injection Hw as <-. destruct s; cbn [andb] in Hk;
      destruct (_ <? 5) eqn:Ea; try lia; destruct (_ && _) eqn:Eb; try reflexivity; lia. }
  destruct (m + n <=? 18)%nat eqn:E4; [|discriminate].
  injection Hw as <-. destruct s; cbn [andb] in Hk;
    destruct (_ <? 5) eqn:Ea; try lia; destruct (_ && _) eqn:Eb; try reflexivity; lia.
Qed.

(* the finding K-signed-binary-size, symbolically: the S is counted as a digit, which moves a signed item
   of 4 or 9 digits into the next size class - twice the width of the image *)
Lemma calcsize_binary_signed_4_9 u m n w : In u binary_spellings -> spec_binary_width (m + n) = Some w ->
  ((m + n =? 4)%nat || (m + n =? 9)%nat) = true ->
  calcsize u (mkpic true m n) = Ok (N.of_nat (2 * w)).
Proof.
  intros Hu Hw Hk. destruct (usage_calc_binary u Hu) as (H1 & H2 & H3 & H4 & H5).
  unfold calcsize, picture_size. cbn [p_signed p_int p_frac]. rewrite H1, H2, H3, H4, H5.
  unfold calc_bin_t1, calc_bin_t2. unfold spec_binary_width in Hw.
  destruct (_ =? 0) eqn:E0; [lia|].
  destruct (m + n =? 4)%nat eqn:E4.
  - replace (m + n <? 1)%nat with false in Hw by lia. replace (m + n <=? 4)%nat with true in Hw by lia.
    injection Hw as <-. destruct (_ <? 5) eqn:Ea; [lia|]. destruct (_ && _) eqn:Eb; [reflexivity|lia].
  - cbn [orb] in Hk.
    replace (m + n <? 1)%nat with false in Hw by lia. replace (m + n <=? 4)%nat with false in Hw by lia.
    replace (m + n <=? 9)%nat with true in Hw by lia.
    injection Hw as <-. destruct (_ <? 5) eqn:Ea; [lia|]. destruct (_ && _) eqn:Eb; [lia|reflexivity].
Qed.

(* =================== 3. the field has the width of the image =================== *)

Lemma packed_field u s m n ds sg : In u packed_spellings -> (1 <= m + n)%nat -> length ds = (m + n)%nat ->
  calcsize u (mkpic s m n) = Ok (N.of_nat (length (enc_packed ds sg))).
Proof. intros Hu Hmn Hl. rewrite length_enc_packed, Hl. apply calcsize_packed; assumption. Qed.

Lemma display_unsigned_field m n ds z : (1 <= m + n)%nat -> length ds = (m + n)%nat ->
  calcsize display_spelling (mkpic false m n) = Ok (N.of_nat (length (enc_zoned ds z))).
Proof. intros Hmn Hl. rewrite length_enc_zoned, Hl, calcsize_display by assumption. reflexivity. Qed.

(* signed DISPLAY: the S counts as a position, so the field is ONE BYTE WIDER than the image *)
Lemma display_signed_field m n ds z : (1 <= m + n)%nat -> length ds = (m + n)%nat ->
  calcsize display_spelling (mkpic true m n) = Ok (N.of_nat (1 + length (enc_zoned ds z))).
Proof. intros Hmn Hl. rewrite length_enc_zoned, Hl, calcsize_display by assumption. reflexivity. Qed.

Lemma binary_field u s m n w v : In u binary_spellings -> spec_binary_width (m + n) = Some w ->
  s && ((m + n =? 4)%nat || (m + n =? 9)%nat) = false ->
  calcsize u (mkpic s m n) = Ok (N.of_nat (length (enc_be w v))).
Proof. intros. rewrite length_enc_be. apply calcsize_binary; assumption. Qed.

Lemma binary_field_signed_4_9 u m n w v : In u binary_spellings -> spec_binary_width (m + n) = Some w ->
  ((m + n =? 4)%nat || (m + n =? 9)%nat) = true ->
  calcsize u (mkpic true m n) = Ok (N.of_nat (2 * length (enc_be w v))).
Proof. intros. rewrite length_enc_be. apply calcsize_binary_signed_4_9; assumption. Qed.

(* field width and round trip together: C02's round trips speak about buffers of exactly the width the layout uses *)
Lemma packed_field_roundtrip u s m n ds sg :
  In u packed_spellings -> (1 <= m + n <= 28)%nat -> length ds = (m + n)%nat ->
  forallb is_digit ds = true -> valid_sign sg = true ->
  calcsize u (mkpic s m n) = Ok (N.of_nat (length (enc_packed ds sg)))
  /\ unpack u (mkpic s m n) (enc_packed ds sg) = Ok (VDec (mkdec (is_neg_sign sg) (val ds) (- Z.of_nat n))).
Proof.
  intros Hu Hmn Hl Hd Hs. split; [apply packed_field; [assumption|lia|assumption]|].
  apply (C02_packed u (mkpic s m n) ds sg); [assumption|assumption|assumption|lia].
Qed.

Lemma display_unsigned_field_roundtrip m n ds z :
  (1 <= m + n <= 28)%nat -> length ds = (m + n)%nat -> forallb is_digit ds = true -> valid_sign z = true ->
  calcsize display_spelling (mkpic false m n) = Ok (N.of_nat (length (enc_zoned ds z)))
  /\ unpack display_spelling (mkpic false m n) (enc_zoned ds z)
     = Ok (VDec (mkdec (is_neg_sign z) (val ds) (- Z.of_nat n))).
Proof.
  intros Hmn Hl Hd Hs. split; [apply display_unsigned_field; [lia|assumption]|].
  apply (C02_zoned (mkpic false m n) ds z); [|assumption|assumption|lia].
  intros ->. cbn [length] in Hl. lia.
Qed.

Lemma binary_field_roundtrip u s m n w v :
  In u binary_spellings -> spec_binary_width (m + n) = Some w ->
  s && ((m + n =? 4)%nat || (m + n =? 9)%nat) = false ->
  (- 2 ^ (8 * Z.of_nat w - 1) <= v < 2 ^ (8 * Z.of_nat w - 1))%Z ->
  calcsize u (mkpic s m n) = Ok (N.of_nat (length (enc_be w v)))
  /\ unpack u (mkpic s m n) (enc_be w v) = Ok (VInt v).
Proof.
  intros Hu Hw Hk Hv. split; [apply binary_field; assumption|].
  apply (C02_binary u (mkpic s m n) w v); assumption.
Qed.

(* =================== 4. signed DISPLAY: what the decoder does with the extra byte =================== *)

(* The field of a signed DISPLAY item is one byte b followed by (or preceded by - the layout does not say) the
   image.  The decoder takes the LOW NIBBLE OF EVERY BYTE of the buffer as a digit and the sign from the zone of
   the LAST byte.  With the image at the end of the field, the FIRST byte of the field - the position the S was
   counted for - is read as one more, most significant, digit: *)
Lemma display_signed_extra_byte p ds z b :
  ds <> [] -> forallb is_digit ds = true -> valid_sign z = true -> (length ds <= 27)%nat ->
  is_digit (lo b) = true ->
  unpack display_spelling p (b :: enc_zoned ds z)
  = Ok (VDec (mkdec (is_neg_sign z) (lo b * 10 ^ N.of_nat (length ds) + val ds) (- Z.of_nat (p_frac p)))).
Proof.
  intros Hne Hd Hs Hl Hb. pose proof (valid_sign_lt z Hs) as Hz.
  unfold unpack. rewrite usage_display. unfold unpack_zoned.
  replace zoned_check_digits with true by reflexivity. cbn [andb existsb].
  rewrite no_bad_zoned by (rewrite zoned_lo; assumption).
  unfold is_digit in Hb. replace (9 <? lo b) with false by lia. cbn [orb].
  cbn [rev]. destruct (zoned_last ds z Hne Hd Hz) as (rest & Hrest & Hhi). rewrite Hrest.
  destruct rest as [|l r]; [contradiction|]. cbn [app map].
  rewrite zoned_lo by assumption.
  assert (Hd' : forallb is_digit (lo b :: ds) = true).
  { cbn [forallb]. rewrite Hd. unfold is_digit. replace (lo b <? 10) with true by lia. reflexivity. }
  rewrite text_of_digits by exact Hd'. rewrite Hhi, zoned_neg_spec.
  rewrite number_exact.
  - rewrite val_cons. reflexivity.
  - pose proof (val_bound _ Hd') as Hbd. unfold limit, prec.
    eapply N.lt_le_trans; [exact Hbd|]. apply N.pow_le_mono_r; [lia|]. cbn [length]. lia.
Qed.

(* so the stored value comes back only when that byte has a zero low nibble (F0, 40 space, 60 minus sign, 00) *)
Lemma display_signed_extra_byte_zero p ds z b :
  ds <> [] -> forallb is_digit ds = true -> valid_sign z = true -> (length ds <= 27)%nat ->
  lo b = 0 ->
  unpack display_spelling p (b :: enc_zoned ds z)
  = Ok (VDec (mkdec (is_neg_sign z) (val ds) (- Z.of_nat (p_frac p)))).
Proof.
  intros Hne Hd Hs Hl Hb.
  rewrite display_signed_extra_byte by (try assumption; rewrite Hb; reflexivity).
  rewrite Hb. do 3 f_equal.
Qed.

(* and a low nibble above 9 there (4E, the plus sign of SIGN LEADING SEPARATE) is refused *)
Lemma display_signed_extra_byte_bad p ds z b :
  is_digit (lo b) = false -> unpack display_spelling p (b :: enc_zoned ds z) = Err ValueError.
Proof.
  intros Hb. unfold unpack. rewrite usage_display. unfold unpack_zoned.
  replace zoned_check_digits with true by reflexivity. cbn [andb existsb].
  unfold is_digit in Hb. replace (9 <? lo b) with true by lia. reflexivity.
Qed.

(* =================== 5. binary items with an implied decimal point =================== *)

Lemma binary_ignores_scale u p w v :
  In u binary_spellings -> (0 < p_frac p)%nat -> spec_binary_width (p_int p + p_frac p) = Some w ->
  (- 2 ^ (8 * Z.of_nat w - 1) <= v < 2 ^ (8 * Z.of_nat w - 1))%Z ->
  unpack u p (enc_be w v) = Ok (VInt v).
Proof. intros Hu _ Hw Hv. apply C02_binary; assumption. Qed.

(* the fraction digits only take part in choosing the width: two pictures with the same digit total decode alike *)
Lemma binary_scale_blind u p q buffer :
  In u binary_spellings -> (p_int p + p_frac p = p_int q + p_frac q)%nat ->
  unpack u p buffer = unpack u q buffer.
Proof.
  intros Hu Hpq. destruct (usage_binary u Hu) as (H1 & H2 & H3). unfold unpack. rewrite H1, H2, H3.
  unfold unpack_binary_int, bin_width. replace bin_counts_fraction with true by reflexivity.
  replace (N.of_nat (p_int p) + N.of_nat (p_frac p)) with (N.of_nat (p_int q) + N.of_nat (p_frac q)) by lia.
  reflexivity.
Qed.

(* =================== 6. C04: the enumeration, conjunct by conjunct =================== *)

Lemma size_okb_iff c : size_okb c = true <-> size_is_listed c.
Proof.
  destruct c as [[[u s] m] n]. unfold size_okb, size_is_listed. split.
  - destruct (spec_size u s m n) as [sz|]; [|discriminate]. destruct (calcsize u (mkpic s m n)) as [x|e]; [|discriminate].
    cbn [res_N_eqb]. intros H. apply N.eqb_eq in H. subst. exists sz. split; reflexivity.
  - intros (sz & -> & ->). cbn [res_N_eqb]. apply N.eqb_refl.
Qed.

Lemma decoder_okb_iff c : decoder_okb c = true <-> decoder_takes_listed c.
Proof.
  destruct c as [[[u s] m] n]. unfold decoder_okb, decoder_takes_listed. split.
  - destruct (spec_size u s m n) as [sz|]; [|discriminate]. intros H. exists sz. split; [reflexivity|exact H].
  - intros (sz & -> & H). exact H.
Qed.

Lemma size_decoder_iff c : size_okb c && decoder_okb c = true <-> size_and_decoder c.
Proof.
  rewrite andb_true_iff, size_okb_iff, decoder_okb_iff.
  destruct c as [[[u s] m] n]. unfold size_is_listed, decoder_takes_listed, size_and_decoder. split.
  - intros [(sz & H1 & H2) (sz' & H1' & H3)]. rewrite H1 in H1'. injection H1' as <-. exists sz. auto.
  - intros (sz & H1 & H2 & H3). split; exists sz; auto.
Qed.

Lemma struct_okb_iff c : struct_okb c = true <-> struct_is_listed c.
Proof.
  destruct c as [[[u s] m] n]. unfold struct_okb, struct_is_listed. split.
  - destruct (spec_size u s m n) as [sz|]; [|discriminate]. destruct (struct_calcsize u (mkpic s m n)) as [x|e]; [|discriminate].
    cbn [res_N_eqb]. intros H. apply N.eqb_eq in H. subst. exists sz. split; reflexivity.
  - intros (sz & -> & ->). cbn [res_N_eqb]. apply N.eqb_refl.
Qed.

Lemma struct_same_okb_iff c : struct_same_okb c = true <-> struct_same_as_size c.
Proof.
  destruct c as [[[u s] m] n]. unfold struct_same_okb, struct_same_as_size. split.
  - destruct (calcsize u (mkpic s m n)) as [sz|]; [|discriminate]. destruct (struct_calcsize u (mkpic s m n)) as [x|e]; [|discriminate].
    cbn [res_N_eqb]. intros H. apply N.eqb_eq in H. subst. exists sz. split; reflexivity.
  - intros (sz & -> & ->). cbn [res_N_eqb]. apply N.eqb_refl.
Qed.

Lemma text_okb_iff c : text_okb c = true <-> text_is_listed c.
Proof.
  destruct c as [[[u s] m] n]. unfold text_okb, text_is_listed. split.
  - intros H Hu. subst u. rewrite N.eqb_refl in H. cbn [negb orb] in H.
    destruct (spec_size display_spelling s m n) as [sz|]; [|discriminate]. apply N.eqb_eq in H. rewrite H. reflexivity.
  - intros H. destruct (u =? display_spelling) eqn:E; [|reflexivity]. apply N.eqb_eq in E. rewrite (H E).
    cbn [negb orb]. apply N.eqb_refl.
Qed.

(* one pass over the 4914 configurations for all five statements *)
Lemma C04c_enumeration :
  forallb (fun c =>
       Bool.eqb (is_none (known_bad_size c)) (size_okb c && decoder_okb c)
    && Bool.eqb (is_none (known_bad_calcsize c)) (size_okb c)
    && Bool.eqb (is_none (known_bad_decoder c)) (decoder_okb c)
    && Bool.eqb (is_none (known_bad_struct c)) (struct_okb c)
    && Bool.eqb (is_none (known_bad_struct_same c)) (struct_same_okb c)
    && text_okb c) cfgs = true.
Proof. vm_compute. reflexivity. Qed.

Lemma C04c_row c : In c cfgs ->
  is_none (known_bad_size c) = size_okb c && decoder_okb c
  /\ is_none (known_bad_calcsize c) = size_okb c
  /\ is_none (known_bad_decoder c) = decoder_okb c
  /\ is_none (known_bad_struct c) = struct_okb c
  /\ is_none (known_bad_struct_same c) = struct_same_okb c
  /\ text_okb c = true.
Proof.
  intros Hin. pose proof C04c_enumeration as H. rewrite forallb_forall in H. specialize (H c Hin).
  repeat (apply andb_true_iff in H; destruct H as [H ?]).
  repeat split; try (apply eqb_prop; assumption); assumption.
Qed.

Lemma is_none_None {T} (o : option T) : o = None -> is_none o = true.
Proof. intros ->. reflexivity. Qed.
Lemma is_none_Some {T} (o : option T) k : o = Some k -> is_none o = false.
Proof. intros ->. reflexivity. Qed.

Lemma C04c_size_and_decoder_lemma c : In c cfgs -> known_bad_size c = None -> size_and_decoder c.
Proof.
  intros Hin Hk. destruct (C04c_row c Hin) as (H & _). apply size_decoder_iff. rewrite <- H. apply is_none_None, Hk.
Qed.

Lemma C04c_size_and_decoder_exact_lemma c k : In c cfgs -> known_bad_size c = Some k -> ~ size_and_decoder c.
Proof.
  intros Hin Hk Hs. destruct (C04c_row c Hin) as (H & _). apply size_decoder_iff in Hs.
  rewrite <- H, (is_none_Some _ k Hk) in Hs. discriminate.
Qed.

Lemma C04c_size_lemma c : In c cfgs -> known_bad_calcsize c = None -> size_is_listed c.
Proof.
  intros Hin Hk. destruct (C04c_row c Hin) as (_ & H & _). apply size_okb_iff. rewrite <- H. apply is_none_None, Hk.
Qed.

Lemma C04c_size_exact_lemma c k : In c cfgs -> known_bad_calcsize c = Some k -> ~ size_is_listed c.
Proof.
  intros Hin Hk Hs. destruct (C04c_row c Hin) as (_ & H & _). apply size_okb_iff in Hs.
  rewrite <- H, (is_none_Some _ k Hk) in Hs. discriminate.
Qed.

Lemma C04c_decoder_lemma c : In c cfgs -> known_bad_decoder c = None -> decoder_takes_listed c.
Proof.
  intros Hin Hk. destruct (C04c_row c Hin) as (_ & _ & H & _). apply decoder_okb_iff. rewrite <- H. apply is_none_None, Hk.
Qed.

Lemma C04c_decoder_exact_lemma c k : In c cfgs -> known_bad_decoder c = Some k -> ~ decoder_takes_listed c.
Proof.
  intros Hin Hk Hs. destruct (C04c_row c Hin) as (_ & _ & H & _). apply decoder_okb_iff in Hs.
  rewrite <- H, (is_none_Some _ k Hk) in Hs. discriminate.
Qed.

Lemma C04c_struct_lemma c : In c cfgs -> known_bad_struct c = None -> struct_is_listed c.
Proof.
  intros Hin Hk. destruct (C04c_row c Hin) as (_ & _ & _ & H & _). apply struct_okb_iff. rewrite <- H. apply is_none_None, Hk.
Qed.

Lemma C04c_struct_exact_lemma c k : In c cfgs -> known_bad_struct c = Some k -> ~ struct_is_listed c.
Proof.
  intros Hin Hk Hs. destruct (C04c_row c Hin) as (_ & _ & _ & H & _). apply struct_okb_iff in Hs.
  rewrite <- H, (is_none_Some _ k Hk) in Hs. discriminate.
Qed.

Lemma C04c_struct_same_lemma c : In c cfgs -> known_bad_struct_same c = None -> struct_same_as_size c.
Proof.
  intros Hin Hk. destruct (C04c_row c Hin) as (_ & _ & _ & _ & H & _). apply struct_same_okb_iff. rewrite <- H. apply is_none_None, Hk.
Qed.

Lemma C04c_struct_same_exact_lemma c k : In c cfgs -> known_bad_struct_same c = Some k -> ~ struct_same_as_size c.
Proof.
  intros Hin Hk Hs. destruct (C04c_row c Hin) as (_ & _ & _ & _ & H & _). apply struct_same_okb_iff in Hs.
  rewrite <- H, (is_none_Some _ k Hk) in Hs. discriminate.
Qed.

Lemma C04c_text_lemma c : In c cfgs -> text_is_listed c.
Proof. intros Hin. destruct (C04c_row c Hin) as (_ & _ & _ & _ & _ & H). apply text_okb_iff. exact H. Qed.

(* the text reader reports the DISPLAY width whatever the USAGE is (every picture, not only the enumeration) *)
Lemma text_reports_display_width s m n :
  text_calcsize (mkpic s m n) = N.of_nat (spec_display_width s (m + n)).
Proof. unfold text_calcsize, picture_size, spec_display_width. cbn [p_signed p_int p_frac]. destruct s; lia. Qed.

(* the split loses nothing: the four conjuncts together are [cfg_ok] *)
Lemma cfg_ok_split c : cfg_ok c = size_okb c && decoder_okb c && struct_okb c && text_okb c.
Proof.
  destruct c as [[[u s] m] n]. unfold cfg_ok, size_okb, decoder_okb, struct_okb, text_okb.
  destruct (spec_size u s m n) as [sz|]; reflexivity.
Qed.

(* members of the enumeration used in the non-vacuity examples of Props/C04c.v *)
Lemma cfgs_examples :
  In (8, true, 5%nat, 2%nat) cfgs /\ In (10, true, 4%nat, 0%nat) cfgs
  /\ In (6, false, 7%nat, 0%nat) cfgs /\ In (11, true, 3%nat, 2%nat) cfgs.
Proof. repeat split; apply cfgs_complete; lia. Qed.

(* =================== 7. the zoned counter decoder =================== *)

Lemma pos_sign_valid z : In z pos_signs -> valid_sign z = true /\ is_neg_sign z = false.
Proof. unfold pos_signs. cbn [In]. intros [<-|[<-|[<-|[<-|[]]]]]; split; reflexivity. Qed.

Lemma dcount_zoned_enc ds z :
  ds <> [] -> forallb is_digit ds = true -> (length ds <= 28)%nat -> In z pos_signs ->
  dcount_zoned (enc_zoned ds z) = N.to_nat (val ds).
Proof.
  intros Hne Hd Hl Hz. destruct (pos_sign_valid z Hz) as [Hv Hn].
  unfold dcount_zoned. change 11 with display_spelling.
  rewrite (C02_zoned (counter_pic (enc_zoned ds z)) ds z Hne Hd Hv Hl). rewrite Hn.
  unfold int_of_decimal, counter_pic. cbn [neg coef dexp p_frac Z.of_nat Z.opp Z.leb Z.compare].
  rewrite Z.pow_0_r. lia.
Qed.

Lemma dcount_zoned_unsigned ds :
  ds <> [] -> forallb is_digit ds = true -> (length ds <= 28)%nat ->
  dcount_zoned (enc_zoned ds 15) = N.to_nat (val ds).
Proof. intros. apply dcount_zoned_enc; try assumption. unfold pos_signs. cbn [In]. auto. Qed.
