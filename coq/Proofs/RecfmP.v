(* Lemmas for C05: the RECFM readers read back what the Spec writers wrote. *)
From Coq Require Import ZArith NArith List Bool Lia Arith ZifyBool ZifyN ZifyNat.
Import ListNotations.
Require Import SR.Base.Res SR.Gen.RecfmParams SR.Spec.Recfm SR.Model.Recfm.
Require Export SR.Spec.RecfmWf.   (* items_of, calm: statement-level definitions (G1) *)
Ltac Zify.zify_post_hook ::= Z.to_euclidean_division_equations.
Open Scope nat_scope.

(* ------------------------------------------------------------------ what the generated parameters must be *)

Lemma refill_is_top_up : refill_mode = 0%N.
Proof. reflexivity. Qed.

Lemma hdr_is_big_endian : hdr_fmt = 0%N.
Proof. reflexivity. Qed.

Lemma buffer_positive : 0 < N.to_nat buffer_size.
Proof. unfold buffer_size. lia. Qed.

(* the corruption check of RECFM_VB accepts a descriptor word that ends exactly at the end of the block
   (offset + 4 <= len(block), fix eee0fb2); with the strict comparison this file stops compiling here *)
Lemma rdw_fits_is_le : vb_rdw_fits_strict = false.
Proof. reflexivity. Qed.

Lemma rule_rdw_fits off L : rdw_fits vb_rdw_fits_strict off L = (off + 4 <=? L)%N.
Proof. rewrite rdw_fits_is_le. reflexivity. Qed.

(* ------------------------------------------------------------------ lists *)

Lemma firstn_exact {A} (a b : list A) : firstn (length a) (a ++ b) = a.
Proof. rewrite firstn_app, Nat.sub_diag, firstn_all. cbn. apply app_nil_r. Qed.

Lemma skipn_exact {A} (a b : list A) : skipn (length a) (a ++ b) = b.
Proof. rewrite skipn_app, Nat.sub_diag, skipn_all. reflexivity. Qed.

Lemma firstn_app_le {A} (l1 l2 : list A) n : n <= length l1 -> firstn n (l1 ++ l2) = firstn n l1.
Proof. intros H. rewrite firstn_app. replace (n - length l1) with 0 by lia. cbn. apply app_nil_r. Qed.

Lemma read_nonneg {A} kind n (s : list A) : read kind (Z.of_nat n) s = Ok (firstn n s, skipn n s).
Proof.
  unfold read. destruct (0 <=? Z.of_nat n)%Z eqn:E; [|lia]. rewrite Nat2Z.id. reflexivity.
Qed.

Lemma length_concat_ge {A} (rs : list (list A)) :
  forallb (fun r => 1 <=? length r) rs = true -> length rs <= length (concat rs).
Proof.
  induction rs as [|r rs IH]; intros H; cbn [concat length]; [lia|].
  cbn [forallb] in H. apply andb_prop in H as [Hr Hrs]. apply Nat.leb_le in Hr.
  rewrite app_length. specialize (IH Hrs). lia.
Qed.

(* ------------------------------------------------------------------ headers *)

Lemma unpack_rdw n : unpack_H2x (rdw n) = Ok n.
Proof.
  unfold unpack_H2x, rdw. rewrite hdr_is_big_endian. cbn [N.eqb]. f_equal. lia.
Qed.

Lemma pack_rdw n : (n <= max_hdr)%N -> pack_H2x n = Ok (rdw n).
Proof.
  intros H. unfold pack_H2x, rdw. rewrite hdr_is_big_endian. cbn [N.eqb].
  unfold max_hdr in H. destruct (n <=? 65535)%N eqn:E; [reflexivity|lia].
Qed.

Lemma rdw_length n : length (rdw n) = 4.
Proof. reflexivity. Qed.

Lemma firstn4_rdw n t : firstn 4 (rdw n ++ t) = rdw n.
Proof. reflexivity. Qed.

Lemma skipn4_rdw n t : skipn 4 (rdw n ++ t) = t.
Proof. reflexivity. Qed.

Lemma rdw_not_nil n : rdw n <> [].
Proof. discriminate. Qed.

(* read(size - 4) after the header of a record of length k *)
Lemma read_payload kind (r t : list N) :
  read kind (Z.of_N (len4 r) - 4) (r ++ t) = Ok (r, t).
Proof.
  unfold len4. replace (Z.of_N (N.of_nat (length r + 4)) - 4)%Z with (Z.of_nat (length r)) by lia.
  rewrite read_nonneg, firstn_exact, skipn_exact. reflexivity.
Qed.

(* ------------------------------------------------------------------ RECFM_F *)

Lemma legal_F_pos {A} lrecl (rs : list (list A)) :
  legal_F lrecl rs = true -> 0 < lrecl /\ forallb (fun r => length r =? lrecl) rs = true.
Proof. unfold legal_F. intros H. apply andb_prop in H as [H1 H2]. apply Nat.leb_le in H1. split; [lia|exact H2]. Qed.

Lemma legal_F_len {A} lrecl (rs : list (list A)) :
  0 < lrecl -> forallb (fun r => length r =? lrecl) rs = true -> length rs <= length (concat rs).
Proof.
  intros Hl H. apply length_concat_ge. clear -Hl H.
  induction rs as [|r rs IH]; [reflexivity|]. cbn [forallb] in *. apply andb_prop in H as [Hr Hrs].
  apply Nat.eqb_eq in Hr. rewrite (IH Hrs), andb_true_r. apply Nat.leb_le. lia.
Qed.

Lemma F_loop_ok {A} kind lrecl : 0 < lrecl -> forall (rs : list (list A)) fuel,
  forallb (fun r => length r =? lrecl) rs = true -> length rs < fuel ->
  F_loop fuel kind (Z.of_nat lrecl) (concat rs) = (rs, Done, []).
Proof.
  intros Hl. induction rs as [|r rs IH]; intros fuel H Hf; (destruct fuel as [|f]; [cbn in Hf; lia|]).
  - cbn [concat F_loop]. rewrite read_nonneg, firstn_nil, skipn_nil. reflexivity.
  - cbn [forallb] in H. apply andb_prop in H as [Hr Hrs]. apply Nat.eqb_eq in Hr.
    cbn [concat F_loop]. rewrite read_nonneg.
    replace (firstn lrecl (r ++ concat rs)) with r by (rewrite <- Hr; symmetry; apply firstn_exact).
    replace (skipn lrecl (r ++ concat rs)) with (concat rs) by (rewrite <- Hr; symmetry; apply skipn_exact).
    destruct r as [|x r']; [cbn in Hr; lia|].
    rewrite IH by (try assumption; cbn in Hf; lia). reflexivity.
Qed.

Lemma F_record_iter_ok {A} kind lrecl (rs : list (list A)) :
  legal_F lrecl rs = true -> F_record_iter kind (Z.of_nat lrecl) (write_F rs) = (rs, Done, []).
Proof.
  intros H. apply legal_F_pos in H as [Hl H]. unfold F_record_iter, write_F.
  destruct (Z.of_nat lrecl =? 0)%Z eqn:E; [lia|].
  apply F_loop_ok; try assumption. pose proof (legal_F_len lrecl rs Hl H). lia.
Qed.

Lemma F_rdw_loop_ok kind lrecl : 0 < lrecl -> (N.of_nat lrecl + 4 <= max_hdr)%N -> forall (rs : list (list N)) fuel,
  forallb (fun r => length r =? lrecl) rs = true -> length rs < fuel ->
  F_rdw_loop fuel kind (Z.of_nat lrecl) (concat rs) = (map rdw_rec rs, Done, []).
Proof.
  intros Hl Hh. induction rs as [|r rs IH]; intros fuel H Hf; (destruct fuel as [|f]; [cbn in Hf; lia|]).
  - cbn [concat F_rdw_loop]. rewrite read_nonneg, firstn_nil, skipn_nil. reflexivity.
  - cbn [forallb] in H. apply andb_prop in H as [Hr Hrs]. apply Nat.eqb_eq in Hr.
    cbn [concat F_rdw_loop]. rewrite read_nonneg.
    replace (firstn lrecl (r ++ concat rs)) with r by (rewrite <- Hr; symmetry; apply firstn_exact).
    replace (skipn lrecl (r ++ concat rs)) with (concat rs) by (rewrite <- Hr; symmetry; apply skipn_exact).
    assert (Hp : pack_H2x (N.of_nat (length r + 4)) = Ok (rdw (len4 r))).
    { unfold len4. apply pack_rdw. lia. }
    destruct r as [|x r']; [cbn in Hr; lia|].
    rewrite Hp. rewrite IH by (try assumption; cbn in Hf; lia). reflexivity.
Qed.

Lemma F_rdw_iter_ok kind lrecl (rs : list (list N)) :
  legal_F lrecl rs = true -> (N.of_nat lrecl + 4 <= max_hdr)%N ->
  F_rdw_iter kind (Z.of_nat lrecl) (write_F rs) = (map rdw_rec rs, Done, []).
Proof.
  intros H Hh. apply legal_F_pos in H as [Hl H]. unfold F_rdw_iter, write_F.
  destruct (Z.of_nat lrecl =? 0)%Z eqn:E; [lia|].
  apply F_rdw_loop_ok; try assumption. pose proof (legal_F_len lrecl rs Hl H). lia.
Qed.

(* ------------------------------------------------------------------ RECFM_V *)

Definition hdr_pair (r : list N) : list N * list N := (rdw (len4 r), r).

Lemma write_V_cons r rs : write_V (r :: rs) = rdw (len4 r) ++ r ++ write_V rs.
Proof. unfold write_V, rdw_rec. cbn [map concat]. rewrite <- app_assoc. reflexivity. Qed.

Lemma write_V_length rs : 4 * length rs <= length (write_V rs).
Proof.
  induction rs as [|r rs IH]; [cbn; lia|]. rewrite write_V_cons, !app_length, rdw_length. cbn [length]. lia.
Qed.

Lemma V_loop_ok kind : forall rs fuel, length rs < fuel ->
  V_loop fuel kind (write_V rs) = (map hdr_pair rs, Done, []).
Proof.
  induction rs as [|r rs IH]; intros fuel Hf; (destruct fuel as [|f]; [cbn in Hf; lia|]).
  - reflexivity.
  - rewrite write_V_cons. cbn [V_loop]. rewrite firstn4_rdw, skipn4_rdw.
    destruct (rdw (len4 r)) as [|h0 hs] eqn:Eh; [exfalso; eapply rdw_not_nil; eassumption|]. rewrite <- Eh.
    rewrite unpack_rdw, read_payload. rewrite IH by (cbn in Hf; lia). reflexivity.
Qed.

Lemma map_snd_hdr rs : map snd (map hdr_pair rs) = rs.
Proof. rewrite map_map. cbn. apply map_id. Qed.

Lemma map_cat_hdr rs : map (fun p : list N * list N => fst p ++ snd p) (map hdr_pair rs) = map rdw_rec rs.
Proof. rewrite map_map. reflexivity. Qed.

Lemma V_data_iter_ok kind rs : V_data_iter kind (write_V rs) = (map hdr_pair rs, Done, []).
Proof. unfold V_data_iter. apply V_loop_ok. pose proof (write_V_length rs). lia. Qed.

Lemma V_record_iter_ok kind rs : V_record_iter kind (write_V rs) = (rs, Done, []).
Proof. unfold V_record_iter. rewrite V_data_iter_ok. unfold payloads. rewrite map_snd_hdr. reflexivity. Qed.

Lemma V_rdw_iter_ok kind rs : V_rdw_iter kind (write_V rs) = (map rdw_rec rs, Done, []).
Proof. unfold V_rdw_iter. rewrite V_data_iter_ok. unfold with_rdw. rewrite map_cat_hdr. reflexivity. Qed.

(* ------------------------------------------------------------------ RECFM_VB *)

Lemma block_body_cons r b : block_body (r :: b) = rdw (len4 r) ++ r ++ block_body b.
Proof. unfold block_body, rdw_rec. cbn [map concat]. rewrite <- app_assoc. reflexivity. Qed.

Lemma block_body_length b : length (block_body b) = list_sum (map (fun r => length r + 4) b).
Proof.
  induction b as [|r b IH]; [reflexivity|]. rewrite block_body_cons, !app_length, rdw_length, IH.
  unfold list_sum. cbn [map fold_right]. lia.
Qed.

Lemma block_body_ge b : 4 * length b <= length (block_body b).
Proof.
  induction b as [|r b IH]; [cbn; lia|]. rewrite block_body_cons, !app_length, rdw_length. cbn [length]. lia.
Qed.

(* One proof for both comparisons of the corruption check.  Under the comparison of the current tree
   ([strict] = false) there is no condition on the records: a record without data bytes (length word 4) is walked
   like any other, also when its descriptor word ends the block (off + 4 = L).  Under the strict comparison of the
   tree before eee0fb2 every record must be non-empty - the rule the old [legal_block] had built in. *)
Definition nonempty_recs (b : list (list N)) : bool := forallb (fun r => 1 <=? length r) b.
Definition walkable (strict : bool) (b : list (list N)) : bool := negb strict || nonempty_recs b.

Lemma walkable_cons strict r b : walkable strict (r :: b) = true ->
  (strict = true -> 1 <= length r) /\ walkable strict b = true.
Proof.
  unfold walkable, nonempty_recs. destruct strict; cbn [negb orb forallb]; intros H.
  - apply andb_prop in H as [Hr Hb]. apply Nat.leb_le in Hr. split; [intros _; exact Hr|exact Hb].
  - split; [discriminate|reflexivity].
Qed.

Lemma walk_gen_ok strict : forall b fuel off, walkable strict b = true -> length b < fuel ->
  walk_with strict fuel (off + N.of_nat (length (block_body b)))%N off (block_body b) = (map hdr_pair b, Done).
Proof.
  induction b as [|r b IH]; intros fuel off H Hf; (destruct fuel as [|f]; [cbn in Hf; lia|]).
  - cbn [block_body map concat length walk_with]. replace (off + N.of_nat 0)%N with off by lia.
    rewrite N.eqb_refl. reflexivity.
  - apply walkable_cons in H as [Hr Hb].
    rewrite block_body_cons. cbn [walk_with].
    rewrite !app_length, rdw_length.
    set (L := (off + N.of_nat (4 + (length r + length (block_body b))))%N).
    destruct (off =? L)%N eqn:E1; [unfold L in E1; lia|].
    assert (E2 : rdw_fits strict off L = true).
    { unfold rdw_fits. destruct strict.
      - specialize (Hr eq_refl). apply N.ltb_lt. unfold L. lia.
      - apply N.leb_le. unfold L. lia. }
    rewrite E2.
    rewrite firstn4_rdw, skipn4_rdw, unpack_rdw.
    destruct (len4 r =? 0)%N eqn:E3; [unfold len4 in E3; lia|].
    assert (Hsz : N.to_nat (len4 r) = length (rdw (len4 r) ++ r)).
    { rewrite app_length, rdw_length. unfold len4. lia. }
    rewrite Hsz, app_assoc, skipn_exact.
    replace (length (rdw (len4 r) ++ r) - 4) with (length r) by (rewrite app_length, rdw_length; lia).
    rewrite firstn_exact.
    replace L with ((off + len4 r) + N.of_nat (length (block_body b)))%N by (unfold L, len4; lia).
    rewrite IH by (try assumption; cbn in Hf; lia). reflexivity.
Qed.

Lemma walk_block_gen_ok strict b : walkable strict b = true ->
  walk_block_with strict (block_body b) = (map hdr_pair b, Done).
Proof.
  intros H. unfold walk_block_with. pose proof (block_body_ge b).
  replace (N.of_nat (length (block_body b))) with (0 + N.of_nat (length (block_body b)))%N by lia.
  apply walk_gen_ok; [assumption|lia].
Qed.

Lemma walk_block_ok b : walk_block_with false (block_body b) = (map hdr_pair b, Done).
Proof. apply walk_block_gen_ok. reflexivity. Qed.

Lemma write_VB_cons b bs : write_VB (b :: bs) = rdw (N.of_nat (block_len b)) ++ block_body b ++ write_VB bs.
Proof. unfold write_VB, write_block. cbn [map concat]. rewrite <- app_assoc. reflexivity. Qed.

Lemma write_VB_length bs : 4 * length bs <= length (write_VB bs).
Proof.
  induction bs as [|b bs IH]; [cbn; lia|]. rewrite write_VB_cons, !app_length, rdw_length. cbn [length]. lia.
Qed.

Lemma read_block kind b t :
  read kind (Z.of_N (N.of_nat (block_len b)) - 4) (block_body b ++ t) = Ok (block_body b, t).
Proof.
  unfold block_len. rewrite <- block_body_length.
  replace (Z.of_N (N.of_nat (4 + length (block_body b))) - 4)%Z with (Z.of_nat (length (block_body b))) by lia.
  rewrite read_nonneg, firstn_exact, skipn_exact. reflexivity.
Qed.

Lemma VB_loop_gen_ok strict kind : forall bs fuel, forallb (walkable strict) bs = true -> length bs < fuel ->
  VB_loop_with strict fuel kind (write_VB bs) = (concat (map (map hdr_pair) bs), Done, []).
Proof.
  induction bs as [|b bs IH]; intros fuel H Hf; (destruct fuel as [|f]; [cbn in Hf; lia|]).
  - reflexivity.
  - cbn [forallb] in H. apply andb_prop in H as [Hb Hbs].
    rewrite write_VB_cons. cbn [VB_loop_with]. rewrite firstn4_rdw, skipn4_rdw.
    destruct (rdw (N.of_nat (block_len b))) as [|h0 hs] eqn:Eh; [exfalso; eapply rdw_not_nil; eassumption|]. rewrite <- Eh.
    rewrite unpack_rdw, read_block, walk_block_gen_ok by assumption.
    rewrite IH by (try assumption; cbn in Hf; lia). reflexivity.
Qed.

Lemma walkable_false bs : forallb (walkable false) bs = true.
Proof. induction bs as [|b bs IH]; [reflexivity|]. cbn [forallb]. rewrite IH. reflexivity. Qed.

Lemma VB_loop_ok kind bs fuel : length bs < fuel ->
  VB_loop_with false fuel kind (write_VB bs) = (concat (map (map hdr_pair) bs), Done, []).
Proof. apply VB_loop_gen_ok. apply walkable_false. Qed.

(* either comparison: the record-level iterators read back every list of blocks the comparison can walk *)
Lemma VB_iters_gen_ok strict kind bs : forallb (walkable strict) bs = true ->
  VB_record_iter_with strict kind (write_VB bs) = (concat bs, Done, [])
  /\ VB_rdw_iter_with strict kind (write_VB bs) = (map rdw_rec (concat bs), Done, []).
Proof.
  intros H. unfold VB_record_iter_with, VB_rdw_iter_with, VB_data_iter_with.
  rewrite VB_loop_gen_ok; [|assumption|pose proof (write_VB_length bs); lia].
  rewrite <- concat_map. unfold payloads, with_rdw. rewrite map_snd_hdr, map_cat_hdr. split; reflexivity.
Qed.

(* the rule of the tree before eee0fb2: the round trip held for blocks of non-empty records only *)
Lemma VB_old_rule kind bs : forallb nonempty_recs bs = true ->
  VB_record_iter_with true kind (write_VB bs) = (concat bs, Done, [])
  /\ VB_rdw_iter_with true kind (write_VB bs) = (map rdw_rec (concat bs), Done, []).
Proof. intros H. apply VB_iters_gen_ok. exact H. Qed.

(* the round trip of the record-level iterators holds for EVERY list of blocks (as for V); [legal_VB] is what makes
   the image a file (write_VB_bytes) and is kept as the hypothesis of the property theorems *)
Lemma VB_data_iter_any kind bs :
  VB_data_iter kind (write_VB bs) = (map hdr_pair (concat bs), Done, []).
Proof.
  unfold VB_data_iter. rewrite rdw_fits_is_le. unfold VB_data_iter_with.
  rewrite VB_loop_ok; [|pose proof (write_VB_length bs); lia].
  rewrite concat_map. reflexivity.
Qed.

Lemma VB_record_iter_any kind bs : VB_record_iter kind (write_VB bs) = (concat bs, Done, []).
Proof.
  unfold VB_record_iter, VB_record_iter_with. fold (VB_data_iter kind (write_VB bs)).
  rewrite VB_data_iter_any. unfold payloads. rewrite map_snd_hdr. reflexivity.
Qed.

Lemma VB_rdw_iter_any kind bs : VB_rdw_iter kind (write_VB bs) = (map rdw_rec (concat bs), Done, []).
Proof.
  unfold VB_rdw_iter, VB_rdw_iter_with. fold (VB_data_iter kind (write_VB bs)).
  rewrite VB_data_iter_any. unfold with_rdw. rewrite map_cat_hdr. reflexivity.
Qed.

Lemma VB_data_iter_ok kind bs : legal_VB bs = true ->
  VB_data_iter kind (write_VB bs) = (map hdr_pair (concat bs), Done, []).
Proof. intros _. apply VB_data_iter_any. Qed.

Lemma VB_record_iter_ok kind bs : legal_VB bs = true ->
  VB_record_iter kind (write_VB bs) = (concat bs, Done, []).
Proof. intros _. apply VB_record_iter_any. Qed.

Lemma VB_rdw_iter_ok kind bs : legal_VB bs = true ->
  VB_rdw_iter kind (write_VB bs) = (map rdw_rec (concat bs), Done, []).
Proof. intros _. apply VB_rdw_iter_any. Qed.

(* What fix eee0fb2 repaired: with the strict comparison of the tree before it (offset + 4 < len(block)) a record
   without data bytes standing last in its block stops the reader with AssertionError after the records before it;
   the same record first in the block, and the same file read with the comparison of the current tree, come back whole. *)
Lemma VB_empty_last_old_refuted :
  legal_VB [[[1; 2]; []]]%N = true
  /\ VB_record_iter_with true 0 (write_VB [[[1; 2]; []]]%N) = ([[1; 2]]%N, Raised AssertionError, [])
  /\ VB_rdw_iter_with true 0 (write_VB [[[1; 2]; []]]%N) = ([[0; 6; 0; 0; 1; 2]]%N, Raised AssertionError, [])
  /\ VB_record_iter_with true 0 (write_VB [[[1; 2]; []]]%N) <> (concat [[[1; 2]; []]]%N, Done, [])
  /\ VB_record_iter_with true 0 (write_VB [[[]; [1; 2]]]%N) = ([[]; [1; 2]]%N, Done, [])
  /\ VB_record_iter_with false 0 (write_VB [[[1; 2]; []]]%N) = ([[1; 2]; []]%N, Done, []).
Proof. repeat split; vm_compute; try reflexivity. intros H; discriminate H. Qed.

Lemma B_loop_ok kind : forall bs fuel, length bs < fuel ->
  B_loop fuel kind (write_VB bs) = (map write_block bs, Done, []).
Proof.
  induction bs as [|b bs IH]; intros fuel Hf; (destruct fuel as [|f]; [cbn in Hf; lia|]).
  - reflexivity.
  - rewrite write_VB_cons. cbn [B_loop]. rewrite firstn4_rdw, skipn4_rdw.
    destruct (rdw (N.of_nat (block_len b))) as [|h0 hs] eqn:Eh; [exfalso; eapply rdw_not_nil; eassumption|]. rewrite <- Eh.
    rewrite unpack_rdw, read_block. rewrite IH by (cbn in Hf; lia). reflexivity.
Qed.

Lemma VB_bdw_iter_ok kind bs : VB_bdw_iter kind (write_VB bs) = (map write_block bs, Done, []).
Proof. unfold VB_bdw_iter. apply B_loop_ok. pose proof (write_VB_length bs). lia. Qed.

Lemma VB_iters_ok kind bs : legal_VB bs = true ->
  VB_record_iter kind (write_VB bs) = (concat bs, Done, [])
  /\ VB_rdw_iter kind (write_VB bs) = (map rdw_rec (concat bs), Done, [])
  /\ VB_bdw_iter kind (write_VB bs) = (map write_block bs, Done, []).
Proof. intros _. split; [apply VB_record_iter_any|]. split; [apply VB_rdw_iter_any|apply VB_bdw_iter_ok]. Qed.

(* ------------------------------------------------------------------ RECFM_N, any element type, any buffer size *)

Section N.
Context {A : Type}.
Variable B : nat.
Hypothesis Bpos : 0 < B.
Variable kind : N.

Notation st := (st A).

Definition stream (s : st) : list A := buf s ++ rest s.
Definition Inv (s : st) : Prop := buf s = firstn B (stream s).

(* the refill of mode 0 without the detour through Python integers *)
Definition step (s : st) (used : nat) : st :=
  let remaining := skipn used (buf s) in
  let want := B - length remaining in
  {| buf := remaining ++ firstn want (rest s); rest := skipn want (rest s) |}.

Lemma inv_init file : Inv (N_init B file) /\ stream (N_init B file) = file.
Proof. unfold Inv, stream, N_init; cbn. rewrite firstn_skipn. split; reflexivity. Qed.

Lemma inv_len s : Inv s -> length (buf s) = Nat.min B (length (stream s)).
Proof. unfold Inv. intros H. rewrite H at 1. apply firstn_length. Qed.

Lemma step_eq s n : Inv s -> N_step 0 kind B s n = Ok (step s n).
Proof.
  intros HI. unfold N_step, step. cbn [N.eqb].
  pose proof (inv_len s HI) as HL.
  assert (Hrem : length (skipn n (buf s)) <= B) by (rewrite skipn_length; lia).
  replace (Z.of_nat B - Z.of_nat (length (skipn n (buf s))))%Z
    with (Z.of_nat (B - length (skipn n (buf s)))) by lia.
  rewrite read_nonneg. reflexivity.
Qed.

Lemma step_stream s n : n <= length (buf s) -> stream (step s n) = skipn n (stream s).
Proof.
  intros Hn. unfold stream, step; cbn. rewrite <- app_assoc, firstn_skipn.
  rewrite skipn_app. replace (n - length (buf s)) with 0 by lia. reflexivity.
Qed.

Lemma step_inv s n : Inv s -> n <= length (buf s) -> Inv (step s n).
Proof.
  intros HI Hn. unfold Inv. rewrite step_stream by assumption.
  unfold step; cbn.
  pose proof (inv_len s HI) as HL. unfold stream in *.
  set (rem := skipn n (buf s)).
  assert (Hrem : length rem = length (buf s) - n) by (unfold rem; apply skipn_length).
  rewrite skipn_app. replace (n - length (buf s)) with 0 by lia. cbn [skipn]. fold rem.
  rewrite firstn_app. f_equal.
  rewrite firstn_all2; [reflexivity|]. rewrite app_length in HL. lia.
Qed.

Lemma run_ok : forall (recs : list (list A)) (s : st),
  Inv s -> stream s = concat recs -> legal_N B recs = true ->
  exists bufs s', N_run 0 kind B s (map (@length A) recs) = (bufs, Done, s')
    /\ length bufs = length recs
    /\ heads (map (@length A) recs) bufs = recs
    /\ buf s' = [] /\ rest s' = [].
Proof.
  induction recs as [|r recs IH]; intros s HI HS HL.
  - cbn [concat] in HS. unfold stream in HS. apply app_eq_nil in HS as [Hb Hr].
    exists [], s. destruct s as [b r0]; cbn in *; subst. repeat split; reflexivity.
  - unfold legal_N in HL. cbn [forallb] in HL. apply andb_prop in HL as [Hr HL']. fold (legal_N B recs) in HL'.
    apply andb_prop in Hr as [Hr1 Hr2]. apply Nat.leb_le in Hr1. apply Nat.leb_le in Hr2.
    cbn [concat] in HS.
    pose proof (inv_len s HI) as Hlen. rewrite HS, app_length in Hlen.
    assert (Hn : length r <= length (buf s)) by lia.
    assert (HI' : Inv (step s (length r))) by (apply step_inv; assumption).
    assert (HS' : stream (step s (length r)) = concat recs).
    { rewrite step_stream by assumption. rewrite HS. apply skipn_exact. }
    destruct (IH _ HI' HS' HL') as (bufs & s' & Hrun & Hlenb & Hheads & Hb & Hrest).
    exists (buf s :: bufs), s'.
    cbn [map N_run].
    destruct (buf s) as [|b0 bs] eqn:Eb; [cbn in Hn; lia|]. rewrite <- Eb in *.
    destruct (length r =? 0) eqn:E0; [apply Nat.eqb_eq in E0; lia|].
    rewrite step_eq by assumption. rewrite Hrun.
    repeat split; try assumption.
    + cbn [length]. lia.
    + unfold heads in *. cbn [combine map fst snd]. rewrite Hheads. f_equal.
      rewrite HI, HS. rewrite firstn_firstn. replace (Nat.min (length r) B) with (length r) by lia.
      apply firstn_exact.
Qed.

Lemma N_roundtrip (recs : list (list A)) :
  legal_N B recs = true ->
  exists bufs s', N_run 0 kind B (N_init B (write_N recs)) (map (@length A) recs) = (bufs, Done, s')
    /\ length bufs = length recs
    /\ heads (map (@length A) recs) bufs = recs
    /\ buf s' = [] /\ rest s' = [].
Proof.
  intros H. destruct (inv_init (write_N recs)) as [HI HS]. apply run_ok; assumption.
Qed.

End N.

(* instantiated at the buffer size and refill expression of the source *)
Lemma N_read_roundtrip {A} kind (recs : list (list A)) :
  legal_N (N.to_nat buffer_size) recs = true ->
  exists bufs s', N_read kind (write_N recs) (map (@length A) recs) = (bufs, Done, s')
    /\ length bufs = length recs
    /\ heads (map (@length A) recs) bufs = recs
    /\ buf s' = [] /\ rest s' = [].
Proof.
  intros H. unfold N_read. rewrite refill_is_top_up. apply N_roundtrip; [apply buffer_positive|assumption].
Qed.

(* the refill the original tree used (mode 1: read(K - used)) loses data: K = 8, three records of 5 *)
Lemma N_old_refuted :
  exists (B : nat) (recs : list (list nat)),
    legal_N B recs = true /\
    heads (map (@length nat) recs) (fst (fst (N_run 1 0 B (N_init B (write_N recs)) (map (@length nat) recs)))) <> recs.
Proof.
  exists 8, [[1;1;1;1;1];[2;2;2;2;2];[3;3;3;3;3]]. split; [reflexivity|].
  vm_compute. intros H; discriminate H.
Qed.

(* ------------------------------------------------------------------ the images are files: every element is a byte *)

Lemma rdw_bytes n : (n <= max_hdr)%N -> bytes_ok (rdw n) = true.
Proof.
  unfold max_hdr, bytes_ok, rdw. intros H. cbn [forallb].
  rewrite !andb_true_r. apply andb_true_intro. split; apply N.ltb_lt; lia.
Qed.

Lemma bytes_ok_app a b : bytes_ok (a ++ b) = bytes_ok a && bytes_ok b.
Proof. apply forallb_app. Qed.

Lemma write_V_bytes rs :
  legal_V rs = true -> forallb bytes_ok rs = true -> bytes_ok (write_V rs) = true.
Proof.
  induction rs as [|r rs IH]; intros HL HB; [reflexivity|].
  unfold legal_V in HL. cbn [forallb] in HL, HB. apply andb_prop in HL as [Hr HL]. apply andb_prop in HB as [Br HB].
  rewrite write_V_cons, !bytes_ok_app. unfold fits_hdr in Hr. apply N.leb_le in Hr.
  rewrite (rdw_bytes _ Hr), Br. apply IH; assumption.
Qed.

Lemma block_len_cons r b : block_len (r :: b) = length r + 4 + block_len b.
Proof. unfold block_len, list_sum. cbn [map fold_right]. lia. Qed.

Lemma block_body_bytes b :
  (N.of_nat (block_len b) <= max_hdr)%N -> forallb bytes_ok b = true -> bytes_ok (block_body b) = true.
Proof.
  induction b as [|r b IH]; intros HL HB; [reflexivity|].
  cbn [forallb] in HB. apply andb_prop in HB as [Br HB]. rewrite block_len_cons in HL.
  rewrite block_body_cons, !bytes_ok_app.
  rewrite rdw_bytes by (unfold len4; unfold block_len in HL; lia). rewrite Br. apply IH; [lia|assumption].
Qed.

Lemma write_VB_bytes bs :
  legal_VB bs = true -> forallb (forallb bytes_ok) bs = true -> bytes_ok (write_VB bs) = true.
Proof.
  induction bs as [|b bs IH]; intros HL HB; [reflexivity|].
  unfold legal_VB in HL. cbn [forallb] in HL, HB. apply andb_prop in HL as [Hb HL]. apply andb_prop in HB as [Bb HB].
  unfold legal_block in Hb. apply N.leb_le in Hb. rename Hb into Hlen.
  rewrite write_VB_cons, !bytes_ok_app. rewrite (rdw_bytes _ Hlen), (block_body_bytes b Hlen Bb). apply IH; assumption.
Qed.

(* ====================================================================================================
   Resumed reading: an iterator that delivered k items leaves the source at the start of item k+1,
   so any sequence of passes on one reader delivers the records, pass by pass. *)

Definition ended (k n : nat) : fin := if k <=? n then More else Done.

Lemma ended_S k n : ended (S k) (S n) = ended k n.
Proof. reflexivity. Qed.

Lemma F_take_ok {A} kind lrecl : 0 < lrecl -> forall (rs : list (list A)) fuel k,
  forallb (fun r => length r =? lrecl) rs = true -> length rs < fuel ->
  F_take fuel k kind (Z.of_nat lrecl) (concat rs) = (firstn k rs, ended k (length rs), concat (skipn k rs)).
Proof.
  intros Hl. induction rs as [|r rs IH]; intros fuel k H Hf; (destruct fuel as [|f]; [cbn in Hf; lia|]).
  - destruct k as [|k]; [reflexivity|]. cbn [concat F_take]. rewrite read_nonneg, firstn_nil, skipn_nil. reflexivity.
  - destruct k as [|k]; [reflexivity|].
    cbn [forallb] in H. apply andb_prop in H as [Hr Hrs]. apply Nat.eqb_eq in Hr.
    cbn [concat F_take firstn skipn length]. rewrite read_nonneg.
    replace (firstn lrecl (r ++ concat rs)) with r by (rewrite <- Hr; symmetry; apply firstn_exact).
    replace (skipn lrecl (r ++ concat rs)) with (concat rs) by (rewrite <- Hr; symmetry; apply skipn_exact).
    destruct r as [|x r']; [cbn in Hr; lia|].
    rewrite IH by (try assumption; cbn in Hf; lia). rewrite ended_S. reflexivity.
Qed.

Lemma F_rdw_take_ok kind lrecl : 0 < lrecl -> (N.of_nat lrecl + 4 <= max_hdr)%N -> forall (rs : list (list N)) fuel k,
  forallb (fun r => length r =? lrecl) rs = true -> length rs < fuel ->
  F_rdw_take fuel k kind (Z.of_nat lrecl) (concat rs)
  = (map rdw_rec (firstn k rs), ended k (length rs), concat (skipn k rs)).
Proof.
  intros Hl Hh. induction rs as [|r rs IH]; intros fuel k H Hf; (destruct fuel as [|f]; [cbn in Hf; lia|]).
  - destruct k as [|k]; [reflexivity|]. cbn [concat F_rdw_take]. rewrite read_nonneg, firstn_nil, skipn_nil. reflexivity.
  - destruct k as [|k]; [reflexivity|].
    cbn [forallb] in H. apply andb_prop in H as [Hr Hrs]. apply Nat.eqb_eq in Hr.
    cbn [concat F_rdw_take firstn skipn length map]. rewrite read_nonneg.
    replace (firstn lrecl (r ++ concat rs)) with r by (rewrite <- Hr; symmetry; apply firstn_exact).
    replace (skipn lrecl (r ++ concat rs)) with (concat rs) by (rewrite <- Hr; symmetry; apply skipn_exact).
    assert (Hp : pack_H2x (N.of_nat (length r + 4)) = Ok (rdw (len4 r))).
    { unfold len4. apply pack_rdw. lia. }
    destruct r as [|x r']; [cbn in Hr; lia|].
    rewrite Hp. rewrite IH by (try assumption; cbn in Hf; lia). rewrite ended_S. reflexivity.
Qed.

Lemma V_take_ok kind : forall rs fuel k, length rs < fuel ->
  V_take fuel k kind (write_V rs) = (map hdr_pair (firstn k rs), ended k (length rs), write_V (skipn k rs)).
Proof.
  induction rs as [|r rs IH]; intros fuel k Hf; (destruct fuel as [|f]; [cbn in Hf; lia|]).
  - destruct k; reflexivity.
  - destruct k as [|k]; [reflexivity|].
    rewrite write_V_cons. cbn [V_take]. rewrite firstn4_rdw, skipn4_rdw.
    destruct (rdw (len4 r)) as [|h0 hs] eqn:Eh; [exfalso; eapply rdw_not_nil; eassumption|]. rewrite <- Eh.
    rewrite unpack_rdw, read_payload. rewrite IH by (cbn in Hf; lia).
    cbn [firstn skipn length map]. rewrite ended_S. reflexivity.
Qed.

Lemma B_take_ok kind : forall bs fuel k, length bs < fuel ->
  B_take fuel k kind (write_VB bs) = (map write_block (firstn k bs), ended k (length bs), write_VB (skipn k bs)).
Proof.
  induction bs as [|b bs IH]; intros fuel k Hf; (destruct fuel as [|f]; [cbn in Hf; lia|]).
  - destruct k; reflexivity.
  - destruct k as [|k]; [reflexivity|].
    rewrite write_VB_cons. cbn [B_take]. rewrite firstn4_rdw, skipn4_rdw.
    destruct (rdw (N.of_nat (block_len b))) as [|h0 hs] eqn:Eh; [exfalso; eapply rdw_not_nil; eassumption|]. rewrite <- Eh.
    rewrite unpack_rdw, read_block. rewrite IH by (cbn in Hf; lia).
    cbn [firstn skipn length map]. rewrite ended_S. reflexivity.
Qed.

Lemma walk_take_ok : forall b fuel k off, length b < fuel ->
  walk_take_with false fuel k (off + N.of_nat (length (block_body b)))%N off (block_body b)
  = (map hdr_pair (firstn k b), ended k (length b), k - length b).
Proof.
  induction b as [|r b IH]; intros fuel k off Hf; (destruct fuel as [|f]; [cbn in Hf; lia|]).
  - destruct k as [|k]; [reflexivity|].
    cbn [block_body map concat length walk_take_with]. replace (off + N.of_nat 0)%N with off by lia.
    rewrite N.eqb_refl. reflexivity.
  - destruct k as [|k]; [reflexivity|].
    rewrite block_body_cons. cbn [walk_take_with].
    rewrite !app_length, rdw_length.
    set (L := (off + N.of_nat (4 + (length r + length (block_body b))))%N).
    destruct (off =? L)%N eqn:E1; [unfold L in E1; lia|].
    unfold rdw_fits. destruct (off + 4 <=? L)%N eqn:E2; [|unfold L in E2; lia].
    rewrite firstn4_rdw, skipn4_rdw, unpack_rdw.
    destruct (len4 r =? 0)%N eqn:E3; [unfold len4 in E3; lia|].
    assert (Hsz : N.to_nat (len4 r) = length (rdw (len4 r) ++ r)).
    { rewrite app_length, rdw_length. unfold len4. lia. }
    rewrite Hsz, app_assoc, skipn_exact.
    replace (length (rdw (len4 r) ++ r) - 4) with (length r) by (rewrite app_length, rdw_length; lia).
    rewrite firstn_exact.
    replace L with ((off + len4 r) + N.of_nat (length (block_body b)))%N by (unfold L, len4; lia).
    rewrite IH by (cbn in Hf; lia). reflexivity.
Qed.

Lemma walk_take_block b k :
  walk_take_with false (S (length (block_body b))) k (N.of_nat (length (block_body b))) 0%N (block_body b)
  = (map hdr_pair (firstn k b), ended k (length b), k - length b).
Proof.
  pose proof (block_body_ge b).
  replace (N.of_nat (length (block_body b))) with (0 + N.of_nat (length (block_body b)))%N at 1 by lia.
  apply walk_take_ok. lia.
Qed.

(* record-level pass over VB stopped at a block boundary: split_blocks says which blocks it covers *)
Lemma VB_take_with_ok kind : forall bs fuel k now later,
  length bs < fuel -> split_blocks k bs = Some (now, later) ->
  VB_take_with false fuel k kind (write_VB bs)
  = (map hdr_pair (concat now), ended k (length (concat bs)), write_VB later).
Proof.
  induction bs as [|b bs IH]; intros fuel k now later Hf Hs; (destruct fuel as [|f]; [cbn in Hf; lia|]).
  - cbn in Hs. injection Hs as <- <-. destruct k; reflexivity.
  - destruct k as [|k].
    + cbn in Hs. injection Hs as <- <-. reflexivity.
    + cbn [split_blocks Nat.eqb] in Hs.
      destruct (length b <=? S k) eqn:Ek; [|discriminate]. apply Nat.leb_le in Ek.
      destruct (split_blocks (S k - length b) bs) as [[x y]|] eqn:Es; [|discriminate].
      cbn in Hs. injection Hs as <- <-.
      rewrite write_VB_cons. cbn [VB_take_with]. rewrite firstn4_rdw, skipn4_rdw.
      destruct (rdw (N.of_nat (block_len b))) as [|h0 hs] eqn:Eh; [exfalso; eapply rdw_not_nil; eassumption|]. rewrite <- Eh.
      rewrite unpack_rdw, read_block, walk_take_block.
      rewrite firstn_all2 by lia.
      cbn [concat]. rewrite app_length, map_app.
      unfold ended. destruct (S k <=? length b) eqn:Ek2.
      * apply Nat.leb_le in Ek2. assert (Hk : S k - length b = 0) by lia. rewrite Hk in Es.
        assert (Hxy : x = [] /\ y = bs) by (destruct bs; cbn in Es; injection Es as <- <-; split; reflexivity).
        destruct Hxy as [-> ->]. cbn [concat map]. rewrite app_nil_r.
        destruct (S k <=? length b + length (concat bs)) eqn:E3; [reflexivity|].
        apply Nat.leb_gt in E3. lia.
      * apply Nat.leb_gt in Ek2.
        rewrite (IH f (S k - length b) x y) by (try assumption; cbn in Hf; lia).
        f_equal. f_equal. unfold ended.
        destruct (S k - length b <=? length (concat bs)) eqn:E3, (S k <=? length b + length (concat bs)) eqn:E4;
          try reflexivity; [apply Nat.leb_le in E3; apply Nat.leb_gt in E4; lia | apply Nat.leb_gt in E3; apply Nat.leb_le in E4; lia].
Qed.

Lemma VB_take_ok kind bs fuel k now later :
  length bs < fuel -> split_blocks k bs = Some (now, later) ->
  VB_take fuel k kind (write_VB bs)
  = (map hdr_pair (concat now), ended k (length (concat bs)), write_VB later).
Proof. unfold VB_take. rewrite rdw_fits_is_le. apply VB_take_with_ok. Qed.

(* ------------------------------------------------------------------ one pass, then any sequence of passes *)


Lemma render0 l : map (render 0) l = l.
Proof. apply map_id. Qed.

Lemma render1 l : map (render 1) l = map rdw_rec l.
Proof. reflexivity. Qed.

Lemma ended_calm k n : ended k n = Done \/ ended k n = More.
Proof. unfold ended. destruct (k <=? n); [right|left]; reflexivity. Qed.

Lemma w01 w : (w <=? 1)%N = true -> w = 0%N \/ w = 1%N.
Proof. intros H. apply N.leb_le in H. lia. Qed.

Definition wanted {X} (k : option nat) (l : list X) : nat := match k with Some n => n | None => length l end.

Lemma V_pass_ok kind w k rs : (w <=? 1)%N = true ->
  exists f, V_pass kind (w, k) (write_V rs)
            = (map (render w) (firstn (wanted k rs) rs), f, write_V (skipn (wanted k rs) rs))
            /\ (f = Done \/ f = More).
Proof.
  intros Hw. pose proof (write_V_length rs) as HL.
  destruct (w01 w Hw) as [-> | ->]; destruct k as [n|]; unfold V_pass, wanted; cbn [N.eqb Pos.eqb].
  - rewrite V_take_ok by lia. unfold payloads. rewrite map_snd_hdr, render0. eexists; split; [reflexivity|apply ended_calm].
  - rewrite V_record_iter_ok, firstn_all, skipn_all, render0. eexists; split; [reflexivity|left; reflexivity].
  - rewrite V_take_ok by lia. unfold with_rdw. rewrite map_cat_hdr. eexists; split; [reflexivity|apply ended_calm].
  - rewrite V_rdw_iter_ok, firstn_all, skipn_all. eexists; split; [reflexivity|left; reflexivity].
Qed.

Lemma V_passes_ok kind : forall ps rs e, expect_passes ps rs = Some e ->
  map items_of (run_passes (V_pass kind) ps (write_V rs)) = e
  /\ forallb calm (run_passes (V_pass kind) ps (write_V rs)) = true.
Proof.
  induction ps as [|[w k] ps IH]; intros rs e He.
  - cbn in He. injection He as <-. split; reflexivity.
  - cbn [expect_passes] in He. destruct (w <=? 1)%N eqn:Hw; [|discriminate].
    fold (wanted k rs) in He.
    destruct (expect_passes ps (skipn (wanted k rs) rs)) as [e'|] eqn:He'; [|discriminate].
    cbn in He. injection He as <-.
    destruct (V_pass_ok kind w k rs Hw) as (f & Hp & Hf).
    cbn [run_passes]. rewrite Hp. cbn [snd map forallb].
    destruct (IH _ _ He') as [H1 H2]. rewrite H1, H2.
    split; [reflexivity|]. unfold calm. cbn [fst snd]. destruct Hf as [-> | ->]; reflexivity.
Qed.

Lemma F_pass_ok kind lrecl w k (rs : list (list N)) :
  legal_F lrecl rs = true -> (N.of_nat lrecl + 4 <= max_hdr)%N -> (w <=? 1)%N = true ->
  exists f, F_pass kind (Z.of_nat lrecl) (w, k) (write_F rs)
            = (map (render w) (firstn (wanted k rs) rs), f, write_F (skipn (wanted k rs) rs))
            /\ (f = Done \/ f = More).
Proof.
  intros HL Hh Hw. pose proof (legal_F_pos _ _ HL) as [Hl Hrs]. pose proof (legal_F_len lrecl rs Hl Hrs) as Hlen.
  assert (E : (Z.of_nat lrecl =? 0)%Z = false) by lia.
  destruct (w01 w Hw) as [-> | ->]; destruct k as [[|n]|]; unfold F_pass, wanted, write_F in *; cbn [N.eqb Pos.eqb]; try rewrite E.
  - eexists; split; [reflexivity|right; reflexivity].
  - rewrite F_take_ok by (try assumption; lia). rewrite render0. eexists; split; [reflexivity|apply ended_calm].
  - fold (write_F rs). rewrite (F_record_iter_ok kind lrecl rs HL), firstn_all, skipn_all, render0.
    eexists; split; [reflexivity|left; reflexivity].
  - eexists; split; [reflexivity|right; reflexivity].
  - rewrite F_rdw_take_ok by (try assumption; lia). eexists; split; [reflexivity|apply ended_calm].
  - fold (write_F rs). rewrite (F_rdw_iter_ok kind lrecl rs HL Hh), firstn_all, skipn_all.
    eexists; split; [reflexivity|left; reflexivity].
Qed.

Lemma legal_F_skipn lrecl n (rs : list (list N)) : legal_F lrecl rs = true -> legal_F lrecl (skipn n rs) = true.
Proof.
  unfold legal_F. intros H. apply andb_prop in H as [H1 H2]. rewrite H1. cbn [andb].
  rewrite <- (firstn_skipn n rs), forallb_app in H2. apply andb_prop in H2 as [_ H2]. exact H2.
Qed.

Lemma F_passes_ok kind lrecl : (N.of_nat lrecl + 4 <= max_hdr)%N -> forall ps (rs : list (list N)) e,
  legal_F lrecl rs = true -> expect_passes ps rs = Some e ->
  map items_of (run_passes (F_pass kind (Z.of_nat lrecl)) ps (write_F rs)) = e
  /\ forallb calm (run_passes (F_pass kind (Z.of_nat lrecl)) ps (write_F rs)) = true.
Proof.
  intros Hh. induction ps as [|[w k] ps IH]; intros rs e HL He.
  - cbn in He. injection He as <-. split; reflexivity.
  - cbn [expect_passes] in He. destruct (w <=? 1)%N eqn:Hw; [|discriminate].
    fold (wanted k rs) in He.
    destruct (expect_passes ps (skipn (wanted k rs) rs)) as [e'|] eqn:He'; [|discriminate].
    cbn in He. injection He as <-.
    destruct (F_pass_ok kind lrecl w k rs HL Hh Hw) as (f & Hp & Hf).
    cbn [run_passes]. rewrite Hp. cbn [snd map forallb].
    destruct (IH _ _ (legal_F_skipn lrecl (wanted k rs) rs HL) He') as [H1 H2]. rewrite H1, H2.
    split; [reflexivity|]. unfold calm. cbn [fst snd]. destruct Hf as [-> | ->]; reflexivity.
Qed.

Lemma split_blocks_app : forall bs k now later, split_blocks k bs = Some (now, later) -> bs = now ++ later.
Proof.
  induction bs as [|b bs IH]; intros k now later H.
  - cbn in H. injection H as <- <-. reflexivity.
  - cbn [split_blocks] in H. destruct (k =? 0); [injection H as <- <-; reflexivity|].
    destruct (length b <=? k); [|discriminate].
    destruct (split_blocks (k - length b) bs) as [[x y]|] eqn:E; [|discriminate].
    cbn in H. injection H as <- <-. cbn [app]. f_equal. eapply IH; eassumption.
Qed.

Lemma legal_VB_app_r a b : legal_VB (a ++ b) = true -> legal_VB b = true.
Proof. unfold legal_VB. rewrite forallb_app. intros H. apply andb_prop in H as [_ H]. exact H. Qed.

Lemma VB_pass_ok kind w k bs :
  if (w <=? 1)%N then
    forall now later, match k with Some n => split_blocks n bs | None => Some (bs, []) end = Some (now, later) ->
    exists f, VB_pass kind (w, k) (write_VB bs) = (map (render w) (concat now), f, write_VB later) /\ (f = Done \/ f = More)
  else
    exists f, VB_pass kind (w, k) (write_VB bs)
              = (map write_block (firstn (wanted k bs) bs), f, write_VB (skipn (wanted k bs) bs))
              /\ (f = Done \/ f = More).
Proof.
  pose proof (write_VB_length bs) as Hlen.
  destruct (w <=? 1)%N eqn:Hw.
  - intros now later Hs.
    destruct (w01 w Hw) as [-> | ->]; destruct k as [n|]; unfold VB_pass; cbn [N.eqb Pos.eqb].
    + rewrite (VB_take_ok kind bs _ n now later) by (try assumption; lia).
      unfold payloads. rewrite map_snd_hdr, render0. eexists; split; [reflexivity|apply ended_calm].
    + injection Hs as <- <-. rewrite VB_record_iter_any. rewrite render0.
      eexists; split; [reflexivity|left; reflexivity].
    + rewrite (VB_take_ok kind bs _ n now later) by (try assumption; lia).
      unfold with_rdw. rewrite map_cat_hdr. eexists; split; [reflexivity|apply ended_calm].
    + injection Hs as <- <-. rewrite VB_rdw_iter_any.
      eexists; split; [reflexivity|left; reflexivity].
  - assert (H0 : (w =? 0)%N = false) by (apply N.leb_gt in Hw; lia).
    assert (H1 : (w =? 1)%N = false) by (apply N.leb_gt in Hw; lia).
    unfold VB_pass, wanted. rewrite H0, H1. destruct k as [n|].
    + rewrite B_take_ok by lia. eexists; split; [reflexivity|apply ended_calm].
    + rewrite VB_bdw_iter_ok, firstn_all, skipn_all. eexists; split; [reflexivity|left; reflexivity].
Qed.

Lemma VB_passes_any kind : forall ps bs e, expect_passes_VB ps bs = Some e ->
  map items_of (run_passes (VB_pass kind) ps (write_VB bs)) = e
  /\ forallb calm (run_passes (VB_pass kind) ps (write_VB bs)) = true.
Proof.
  induction ps as [|[w k] ps IH]; intros bs e He.
  - cbn in He. injection He as <-. split; reflexivity.
  - cbn [expect_passes_VB] in He. pose proof (VB_pass_ok kind w k bs) as HP.
    destruct (w <=? 1)%N eqn:Hw.
    + destruct k as [n|].
      * destruct (split_blocks n bs) as [[now later]|] eqn:Es; [|discriminate].
        destruct (expect_passes_VB ps later) as [e'|] eqn:He'; [|discriminate].
        cbn in He. injection He as <-.
        destruct (HP now later eq_refl) as (f & Hp & Hf).
        cbn [run_passes]. rewrite Hp. cbn [snd map forallb].
        destruct (IH _ _ He') as [H1 H2]. rewrite H1, H2.
        split; [reflexivity|]. unfold calm. cbn [fst snd]. destruct Hf as [-> | ->]; reflexivity.
      * destruct (expect_passes_VB ps []) as [e'|] eqn:He'; [|discriminate].
        cbn in He. injection He as <-.
        destruct (HP bs [] eq_refl) as (f & Hp & Hf).
        cbn [run_passes]. rewrite Hp. cbn [snd map forallb].
        destruct (IH _ _ He') as [H1 H2]. rewrite H1, H2.
        split; [reflexivity|]. unfold calm. cbn [fst snd]. destruct Hf as [-> | ->]; reflexivity.
    + fold (wanted k bs) in He.
      destruct (expect_passes_VB ps (skipn (wanted k bs) bs)) as [e'|] eqn:He'; [|discriminate].
      cbn in He. injection He as <-.
      destruct HP as (f & Hp & Hf).
      cbn [run_passes]. rewrite Hp. cbn [snd map forallb].
      destruct (IH _ _ He') as [H1 H2]. rewrite H1, H2.
      split; [reflexivity|]. unfold calm. cbn [fst snd]. destruct Hf as [-> | ->]; reflexivity.
Qed.

Lemma VB_passes_ok kind ps bs e : legal_VB bs = true -> expect_passes_VB ps bs = Some e ->
  map items_of (run_passes (VB_pass kind) ps (write_VB bs)) = e
  /\ forallb calm (run_passes (VB_pass kind) ps (write_VB bs)) = true.
Proof. intros _. apply VB_passes_any. Qed.

(* the resume statements in their plainest form: k = the number of records (blocks) of the first part *)
Lemma V_resume kind rs1 rs2 :
  V_take (S (length (write_V (rs1 ++ rs2)))) (length rs1) kind (write_V (rs1 ++ rs2))
  = (map hdr_pair rs1, More, write_V rs2).
Proof.
  pose proof (write_V_length (rs1 ++ rs2)). rewrite V_take_ok by lia.
  rewrite firstn_exact, skipn_exact. unfold ended. rewrite app_length.
  destruct (length rs1 <=? length rs1 + length rs2) eqn:E; [reflexivity|apply Nat.leb_gt in E; lia].
Qed.

Lemma F_resume {A} kind lrecl (rs1 rs2 : list (list A)) : legal_F lrecl (rs1 ++ rs2) = true ->
  F_take (S (length (write_F (rs1 ++ rs2)))) (length rs1) kind (Z.of_nat lrecl) (write_F (rs1 ++ rs2))
  = (rs1, More, write_F rs2).
Proof.
  intros HL. apply legal_F_pos in HL as [Hl H]. pose proof (legal_F_len lrecl _ Hl H). unfold write_F in *.
  rewrite F_take_ok by (try assumption; lia).
  rewrite firstn_exact, skipn_exact. unfold ended. rewrite app_length.
  destruct (length rs1 <=? length rs1 + length rs2) eqn:E; [reflexivity|apply Nat.leb_gt in E; lia].
Qed.

Lemma VB_bdw_resume kind bs1 bs2 :
  B_take (S (length (write_VB (bs1 ++ bs2)))) (length bs1) kind (write_VB (bs1 ++ bs2))
  = (map write_block bs1, More, write_VB bs2).
Proof.
  pose proof (write_VB_length (bs1 ++ bs2)). rewrite B_take_ok by lia.
  rewrite firstn_exact, skipn_exact. unfold ended. rewrite app_length.
  destruct (length bs1 <=? length bs1 + length bs2) eqn:E; [reflexivity|apply Nat.leb_gt in E; lia].
Qed.
