(* The heading-row schema of a sheet with non-empty headings: every property's $anchor is a legal JSON Schema anchor.
   Composition of the heading-row loader model (Model/HeaderRow.v, rules regenerated from the source) with the
   name_cleaner theorems (Proofs/NameCleanerP.v). *)
From Coq Require Import NArith List Bool.
Import ListNotations.
Require Import SR.Base.Res SR.Spec.Anchor SR.Model.NameCleaner SR.Proofs.NameCleanerP SR.Model.HeaderRow SR.Proofs.HeaderRowP.

Lemma anchor_of_legal : forall t : key, t <> [] -> exists a, anchor_of t = Ok a /\ legal a = true.
Proof.
  intros t Ht. destruct (clean_total t) as [r [Hr _]]. exists r. split.
  - unfold anchor_of. rewrite Hr. reflexivity.
  - eapply clean_nonempty_legal; eassumption.
Qed.

Lemma anchor_of_empty : anchor_of [] = Ok [].
Proof. reflexivity. Qed.

(* the keywords the loader gives the property of a text heading t at column n: the heading itself as title, the cleaned
   heading as $anchor, the type string and the column number - and the anchor is legal as soon as the heading is not empty *)
Lemma heading_keywords (n : nat) (t : key) (f : key -> res (option cell)) :
  t <> [] ->
  exists a,
    eval_props (mk_env (Some (Txt t)) n f) hdr_props
      = Ok [(k_title, V_cell (Some (Txt t))); (k_anchor, V_text a); (k_type, V_text k_string); (k_position, V_int n)]
    /\ anchor_of t = Ok a /\ legal a = true.
Proof.
  intros Ht. destruct (anchor_of_legal t Ht) as [a [Ha Hl]]. exists a. split; [|split; assumption].
  destruct rule_heading_property as [_ Hp]. rewrite Hp.
  cbn [eval_props eval en_item en_count bind str_val str_of]. rewrite Ha. reflexivity.
Qed.

(* an empty heading cell gets the empty - illegal - anchor: the non-emptiness hypothesis is needed *)
Lemma heading_keywords_empty (n : nat) (f : key -> res (option cell)) :
  eval_props (mk_env (Some (Txt [])) n f) hdr_props
    = Ok [(k_title, V_cell (Some (Txt []))); (k_anchor, V_text []); (k_type, V_text k_string); (k_position, V_int n)]
  /\ legal [] = false.
Proof.
  split; [|reflexivity]. destruct rule_heading_property as [_ Hp]. rewrite Hp. reflexivity.
Qed.
