(* Proofs/FirstEntryP.v - the first entry of a copybook is a node whatever its level
   (known finding C07-K8-first-entry-66-77-88 of property C07).

   structure() takes its first node with next(node_iter) before the loop that skips level 66, 77 and 88
   entries, so a copybook (fragment) that BEGINS with such an entry gets a tree for it; every later
   66/77/88 entry contributes nothing.  Exactly: on every entry list with two-digit levels on which
   structure() returns, the forest holds the first entry followed by the later entries of another level
   (first_entry_kept), its first tree is rooted at the first entry, and the statement "the forest holds
   exactly the entries of level other than 66/77/88" holds precisely when the first entry is none of them
   (unguarded_iff). *)
From Coq Require Import NArith List Bool Arith Lia.
Import ListNotations.
Require Import SR.Base.Res SR.Spec.Dde SR.Model.Structure SR.Proofs.StructureP.
Require Export SR.Spec.FirstEntryWf.

Lemma first_entry_kept (e : entry) (r : list entry) (f : list tree) :
  Forall (fun x => two_digits (elv x) = true) (e :: r) ->
  structure (e :: r) = Ok f ->
  map de (preorder_f f) = e :: wanted r
  /\ exists t f', f = t :: f' /\ de (troot t) = e.
Proof.
  intros Hd H. destruct (structure_main (e :: r) f Hd H) as [Hp _].
  pose proof (mk_ddes_digits (e :: r) 0%N Hd) as Hdd.
  pose proof (mk_ddes_de (e :: r) 0%N) as Hde.
  unfold StructureWf.kept_of in Hp.
  destruct (mk_ddes 0 (e :: r)) as [|d r'] eqn:E; [discriminate|].
  cbn [map] in Hde. injection Hde as Hd0 Hr0.
  inversion Hdd as [|? ? _ Hr']; subst.
  split.
  - rewrite Hp. cbn [map]. f_equal. rewrite filter_keep_num by exact Hr'. reflexivity.
  - destruct f as [|t f']; [discriminate|]. exists t, f'. split; [reflexivity|].
    destruct t as [d' b kids]. cbn [preorder_f flat_map preorder app] in Hp.
    injection Hp as -> _. reflexivity.
Qed.

(* the unguarded statement holds for a copybook exactly when its first entry is not a 66/77/88 level *)
Lemma unguarded_iff (l : list entry) (f : list tree) :
  Forall (fun x => two_digits (elv x) = true) l ->
  structure l = Ok f ->
  (map de (preorder_f f) = wanted l <-> first_entry_special l = false).
Proof.
  intros Hd H. destruct l as [|e r]; [discriminate|].
  destruct (first_entry_kept e r f Hd H) as [Hp _]. rewrite Hp.
  unfold wanted, first_entry_special. cbn [filter].
  destruct (kept_level (lvl_num (elv e))); cbn [negb].
  - split; reflexivity.
  - split; [|discriminate]. intros E. exfalso. apply (f_equal (@length entry)) in E. cbn [length] in E.
    fold (wanted r) in E. lia.
Qed.

(* after the first entry every 66/77/88 entry contributes nothing, whatever the first entry is *)
Lemma after_first_nothing (e : entry) (r : list entry) (f : list tree) :
  Forall (fun x => two_digits (elv x) = true) (e :: r) ->
  structure (e :: r) = Ok f ->
  tl (map de (preorder_f f)) = wanted r.
Proof. intros Hd H. destruct (first_entry_kept e r f Hd H) as [Hp _]. rewrite Hp. reflexivity. Qed.

(* ---------------------------------------------------------------- witnesses *)
Lemma refuted_8 : ~ entries_unguarded.
Proof.
  intros H. assert (Forall (fun x => two_digits (elv x) = true) [e77]) as Hd by (repeat constructor).
  destruct (structure [e77]) as [f|] eqn:E; [|vm_compute in E; discriminate].
  specialize (H [e77] f Hd E). vm_compute in E. injection E as <-. vm_compute in H. discriminate.
Qed.

(* what comes out for each of the three levels in first position, followed by nothing, by an 01 record,
   by 05-level items: the names of the trees' nodes in preorder, each node's parent, and the schemas *)
Lemma first_77 :
  shape [e77] = Ok ([nW], [None]) /\ titles [e77] = Ok [Some nW]
  /\ shape (e77 :: rec01) = Ok ([nW; nREC; nA; nB], [None; None; Some 1; Some 1])
  /\ titles (e77 :: rec01) = Ok [Some nW; Some nREC]
  /\ shape (e77 :: items05) = Ok ([nW; nA; nB], [None; None; None])
  /\ titles (e77 :: items05) = Ok [Some nW; Some nA; Some nB].
Proof. repeat split; vm_compute; reflexivity. Qed.

(* an 88 (or 66) entry has no picture: the tree made of it makes the schema maker raise ValueError, and since
   it is the FIRST tree no schema at all is produced - the record that follows included *)
Lemma first_88 :
  shape [e88] = Ok ([nFLAG], [None]) /\ titles [e88] = Err ValueError
  /\ shape (e88 :: rec01) = Ok ([nFLAG; nREC; nA; nB], [None; None; Some 1; Some 1])
  /\ titles (e88 :: rec01) = Err ValueError /\ titles rec01 = Ok [Some nREC]
  /\ shape (e88 :: items05) = Ok ([nFLAG; nA; nB], [None; None; None])
  /\ titles (e88 :: items05) = Err ValueError.
Proof. repeat split; vm_compute; reflexivity. Qed.

Lemma first_66 :
  shape [e66] = Ok ([nR], [None]) /\ titles [e66] = Err ValueError
  /\ shape (e66 :: rec01) = Ok ([nR; nREC; nA; nB], [None; None; Some 1; Some 1])
  /\ titles (e66 :: rec01) = Err ValueError
  /\ shape (e66 :: items05) = Ok ([nR; nA; nB], [None; None; None])
  /\ titles (e66 :: items05) = Err ValueError.
Proof. repeat split; vm_compute; reflexivity. Qed.

(* a later entry with a larger level (as a string) is attached BELOW the 88 entry: 88 FLAG. 99 X PIC. *)
Lemma first_88_parent :
  shape [e88; fe 57 57 nX true] = Ok ([nFLAG; nX], [None; Some 0]).
Proof. vm_compute. reflexivity. Qed.

(* the same entries after a first entry of a kept level: nothing of them is left *)
Lemma later_special_nothing :
  shape (fe 48 49 nREC false :: e77 :: e88 :: e66 :: items05) = Ok ([nREC; nA; nB], [None; Some 0; Some 0]).
Proof. vm_compute. reflexivity. Qed.
