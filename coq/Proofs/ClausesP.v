(* Lemmas about Model/Clauses.v (the clause recogniser as it is) against Spec/Clauses.v (entries, spellings, printer).

   Layers:
     1  characters: what the model's classes and IGNORECASE folding do on the printer's alphabet;
     2  tokens: a reserved word in any letter case is matched by its literal and by no other ([lit_cased]);
        separators, names, numbers, picture strings are matched by the greedy runs;
     3  clauses: for every clause kind and every spelling, [token_at] on the printed clause returns that clause's groups
        and stops exactly at its end (every earlier alternative fails);
     4  entries: induction over the clause list. *)
From Coq Require Import NArith List Bool Lia Arith ZifyBool ZifyN ZifyNat.
Import ListNotations.
Require Import SR.Base.Res SR.Gen.ClausesParams SR.Spec.Clauses SR.Model.Clauses.
Open Scope N_scope.

(* ================================================================ 1. characters *)

(* the characters of the pattern's literals *)
Definition kwc (c : N) : bool := is_upper_letter c || is_digit c || (c =? 45).
(* the characters of the printer's separators *)
Definition sepc (c : N) : bool := is_blank c || s_mem c [44; 59].

Lemma sepc_cases c : sepc c = true -> c = 32 \/ c = 9 \/ c = 10 \/ c = 13 \/ c = 44 \/ c = 59.
Proof. unfold sepc, is_blank, s_mem, existsb. lia. Qed.

Lemma blank_cases c : is_blank c = true -> c = 32 \/ c = 9 \/ c = 10 \/ c = 13.
Proof. unfold is_blank, s_mem, existsb. lia. Qed.

Lemma blank_sepc c : is_blank c = true -> sepc c = true.
Proof. unfold sepc. intros ->. reflexivity. Qed.

Lemma sepc_is_sp c : sepc c = true -> is_sp c = true.
Proof. intros H. destruct (sepc_cases c H) as [->|[->|[->|[->|[->| ->]]]]]; vm_compute; reflexivity. Qed.

Lemma sepc_not_name c : sepc c = true -> is_name c = false.
Proof. intros H. destruct (sepc_cases c H) as [->|[->|[->|[->|[->| ->]]]]]; vm_compute; reflexivity. Qed.

Lemma sepc_not_nd c : sepc c = true -> is_nd c = false.
Proof. intros H. destruct (sepc_cases c H) as [->|[->|[->|[->|[->| ->]]]]]; vm_compute; reflexivity. Qed.

Lemma sepc_up c : sepc c = true -> up c = c.
Proof. intros H. destruct (sepc_cases c H) as [->|[->|[->|[->|[->| ->]]]]]; vm_compute; reflexivity. Qed.

Lemma sepc_not_kwc c : sepc c = true -> kwc c = false.
Proof. intros H. destruct (sepc_cases c H) as [->|[->|[->|[->|[->| ->]]]]]; vm_compute; reflexivity. Qed.

Lemma blank_is_ws c : is_blank c = true -> is_ws c = true.
Proof. intros H. destruct (blank_cases c H) as [->|[->|[->| ->]]]; vm_compute; reflexivity. Qed.

(* printable ASCII *)
Definition printable_char (c : N) : bool := (33 <=? c) && (c <=? 126).

Lemma printable_not_ws c : printable_char c = true -> is_ws c = false.
Proof. unfold printable_char, is_ws, mem, ws_points, existsb. lia. Qed.

Lemma printable_sp c : printable_char c = true -> is_sp c = s_mem c [124; 44; 59].
Proof.
  intros H. unfold is_sp. rewrite (printable_not_ws c H), andb_false_r. reflexivity.
Qed.

Lemma ascii_word c : c <? 128 = true -> is_word c = in_ranges word_lo c.
Proof. unfold is_word. intros ->. reflexivity. Qed.

Lemma name_char_is_name c : name_char c = true -> is_name c = true.
Proof.
  intros H. unfold is_name.
  assert (L : c <? 128 = true) by (unfold name_char, is_upper_letter, is_lower_letter, is_digit in H; lia).
  rewrite (ascii_word c L). unfold name_word, name_extra, word_lo, in_ranges, mem, existsb, fst, snd.
  unfold name_char, is_upper_letter, is_lower_letter, is_digit in H. lia.
Qed.

Lemma name_char_printable c : name_char c = true -> printable_char c = true.
Proof. unfold name_char, is_upper_letter, is_lower_letter, is_digit, printable_char. lia. Qed.

Lemma name_char_not_sp c : name_char c = true -> is_sp c = false.
Proof.
  intros H. rewrite (printable_sp c (name_char_printable c H)).
  unfold name_char, is_upper_letter, is_lower_letter, is_digit in H. unfold s_mem, existsb. lia.
Qed.

Lemma assoc_small c : c <? 128 = true -> assoc c fold_extra = None.
Proof.
  intros H. unfold fold_extra.
  repeat (cbn [assoc]; match goal with |- context [?a =? c] => destruct (N.eqb_spec a c); [lia|] end).
  reflexivity.
Qed.

Lemma up_ascii c : c <? 128 = true -> up c = upper c.
Proof.
  intros H. unfold up, upper. change ignorecase with true. cbv iota.
  destruct ((97 <=? c) && (c <=? 122)); [reflexivity|]. rewrite (assoc_small c H). reflexivity.
Qed.

Lemma name_char_up c : name_char c = true -> up c = upper c.
Proof.
  intros H. apply up_ascii. unfold name_char, is_upper_letter, is_lower_letter, is_digit in H. lia.
Qed.

Lemma kwc_up x : kwc x = true -> up x = x.
Proof.
  intros H. rewrite up_ascii; unfold kwc, is_upper_letter, is_digit in H; [|lia]. unfold upper.
  destruct ((97 <=? x) && (x <=? 122)) eqn:E; [lia|reflexivity].
Qed.

Lemma kwc_up_lower x : kwc x = true -> up (lower x) = x.
Proof.
  intros H. unfold kwc, is_upper_letter, is_digit in H. unfold lower.
  destruct ((65 <=? x) && (x <=? 90)) eqn:E.
  - rewrite up_ascii by lia. unfold upper. destruct ((97 <=? x + 32) && (x + 32 <=? 122)) eqn:F; lia.
  - apply kwc_up. unfold kwc, is_upper_letter, is_digit. lia.
Qed.

Lemma kwc_cased_up (b : bool) x : kwc x = true -> up (if b then lower x else x) = x.
Proof. destruct b; [apply kwc_up_lower|apply kwc_up]. Qed.

Lemma kwc_cased_printable (b : bool) x : kwc x = true -> printable_char (if b then lower x else x) = true.
Proof.
  unfold kwc, is_upper_letter, is_digit, printable_char, lower. intros H.
  destruct b; [destruct ((65 <=? x) && (x <=? 90)) eqn:E|]; lia.
Qed.

Lemma kwc_cased_name (b : bool) x : kwc x = true -> name_char (if b then lower x else x) = true.
Proof.
  unfold kwc, name_char, is_upper_letter, is_lower_letter, is_digit, lower. intros H.
  destruct b; [destruct ((65 <=? x) && (x <=? 90)) eqn:E|]; lia.
Qed.

(* ================================================================ 2. tokens *)

Definition kword (w : str) : bool := forallb kwc w.

(* what follows a token: nothing, or a separator character *)
Definition follow (rest : list N) : Prop := rest = [] \/ exists c t, rest = c :: t /\ sepc c = true.
(* what follows a separator: nothing, or a character that is not of the SPACE class *)
Definition nsp (rest : list N) : Prop := rest = [] \/ exists c t, rest = c :: t /\ is_sp c = false.

Lemma lit_nil_rest w : w <> [] -> lit w [] = None.
Proof. destruct w; [congruence|reflexivity]. Qed.

Lemma lit_follow w rest : kword w = true -> w <> [] -> follow rest -> lit w rest = None.
Proof.
  intros K N [->|(c & t & -> & S)]; [apply lit_nil_rest; exact N|].
  destruct w as [|x w]; [congruence|]. cbn [lit]. rewrite (sepc_up c S).
  cbn [kword forallb] in K. apply andb_true_iff in K as [K _].
  destruct (N.eqb_spec c x); [subst; rewrite (sepc_not_kwc x S) in K; discriminate|reflexivity].
Qed.

(* the literal W on the printed word W' (any letter case) followed by rest *)
Fixpoint match_kw (w w' : str) (m : list bool) (rest : list N) : option (list N) :=
  match w with
  | [] => Some (cased m w' ++ rest)
  | x :: wt =>
      match w' with
      | [] => lit w rest
      | y :: wt' => if y =? x then match_kw wt wt' (tl m) rest else None
      end
  end.

Lemma lit_cased_gen : forall w w' m rest, kword w' = true -> lit w (cased m w' ++ rest) = match_kw w w' m rest.
Proof.
  induction w as [|x wt IH]; intros w' m rest K; [reflexivity|].
  destruct w' as [|y wt']; [reflexivity|].
  cbn [kword forallb] in K. apply andb_true_iff in K as [Ky K].
  cbn [cased app lit match_kw]. rewrite (kwc_cased_up _ y Ky). destruct (y =? x); [apply IH; exact K|reflexivity].
Qed.

Lemma lit_cased w m rest : kword w = true -> lit w (cased m w ++ rest) = Some rest.
Proof.
  revert m. induction w as [|x wt IH]; intros m K; [reflexivity|].
  cbn [kword forallb] in K. apply andb_true_iff in K as [Kx K].
  cbn [cased app lit]. rewrite (kwc_cased_up _ x Kx), N.eqb_refl. apply IH. exact K.
Qed.

Lemma lit_first_ne x w c t : up c <> x -> lit (x :: w) (c :: t) = None.
Proof. intros H. cbn [lit]. destruct (N.eqb_spec (up c) x); [contradiction|reflexivity]. Qed.

Lemma cased_length m w : length (cased m w) = length w.
Proof. revert m. induction w; intros; cbn [cased length]; [reflexivity|f_equal; apply IHw]. Qed.

Lemma cased_all_name m w : kword w = true -> forallb name_char (cased m w) = true.
Proof.
  revert m. induction w as [|x w IH]; intros m K; [reflexivity|].
  cbn [kword forallb] in K. apply andb_true_iff in K as [Kx K].
  cbn [cased forallb]. rewrite (kwc_cased_name _ x Kx). apply IH. exact K.
Qed.

(* greedy runs *)
Lemma span_app p a r : forallb p a = true -> (r = [] \/ exists c t, r = c :: t /\ p c = false) -> span p (a ++ r) = (a, r).
Proof.
  intros A R. induction a as [|x a IH]; cbn [app].
  - destruct R as [->|(c & t & -> & F)]; [reflexivity|]. cbn [span]. rewrite F. reflexivity.
  - cbn [forallb] in A. apply andb_true_iff in A as [Ax A]. cbn [span]. rewrite Ax, (IH A). reflexivity.
Qed.

Lemma plus1_app p a r : a <> [] -> forallb p a = true -> (r = [] \/ exists c t, r = c :: t /\ p c = false) ->
  plus1 p (a ++ r) = Some (a, r).
Proof. intros N A R. unfold plus1. rewrite (span_app p a r A R). destruct a; [congruence|reflexivity]. Qed.

Lemma plus1_fail p c t : p c = false -> plus1 p (c :: t) = None.
Proof. intros F. unfold plus1. cbn [span]. rewrite F. reflexivity. Qed.

Lemma plus_bt_app {R} p a r (k : list N -> option R) x :
  a <> [] -> forallb p a = true -> (r = [] \/ exists c t, r = c :: t /\ p c = false) -> k r = Some x ->
  plus_bt p (a ++ r) k = Some x.
Proof.
  intros N A Rr K. induction a as [|c a IH]; [congruence|].
  cbn [forallb] in A. apply andb_true_iff in A as [Ac A]. cbn [app plus_bt]. rewrite Ac.
  destruct a as [|c' a'].
  - cbn [app]. destruct Rr as [->|(d & t & -> & F)]; cbn [plus_bt]; [|rewrite F]; exact K.
  - rewrite IH; [reflexivity|congruence|exact A].
Qed.

Lemma plus_bt_fail {R} p c t (k : list N -> option R) : p c = false -> plus_bt p (c :: t) k = None.
Proof. intros F. cbn [plus_bt]. rewrite F. reflexivity. Qed.

(* separators *)
Definition sepstr (s : str) : Prop := s <> [] /\ forallb sepc s = true.

Lemma all_blank_sepc s : all_blank s = true -> forallb sepc s = true.
Proof.
  unfold all_blank. induction s as [|c s IH]; [reflexivity|]. cbn [forallb]. intros H.
  apply andb_true_iff in H as [H1 H2]. rewrite (blank_sepc c H1), (IH H2). reflexivity.
Qed.

Lemma sep_ok_sepstr s : sep_ok s = true -> sepstr s.
Proof.
  destruct s as [|c t]; [discriminate|]. cbn [sep_ok]. intros H. split; [congruence|]. cbn [forallb].
  destruct (is_blank c) eqn:B.
  - apply andb_true_iff. split; [apply blank_sepc; exact B|apply all_blank_sepc; exact H].
  - apply andb_true_iff in H as [H _]. apply andb_true_iff in H as [H1 H2].
    apply andb_true_iff. split; [unfold sepc; rewrite H1; apply orb_true_r|apply all_blank_sepc; exact H2].
Qed.

Lemma sepstr_sp s : sepstr s -> forallb is_sp s = true.
Proof.
  intros [_ H]. induction s as [|c s IH]; [reflexivity|]. cbn [forallb] in *.
  apply andb_true_iff in H as [H1 H2]. rewrite (sepc_is_sp c H1), (IH H2). reflexivity.
Qed.

Lemma sepstr_follow s r : sepstr s -> follow (s ++ r).
Proof.
  intros [N H]. destruct s as [|c t]; [congruence|]. right. exists c, (t ++ r). split; [reflexivity|].
  cbn [forallb] in H. apply andb_true_iff in H as [H _]. exact H.
Qed.

Lemma sp1_sep s r : sepstr s -> nsp r -> sp1 (s ++ r) = Some r.
Proof.
  intros S R. unfold sp1. rewrite (plus1_app is_sp s r); [reflexivity|apply S|apply sepstr_sp; exact S|exact R].
Qed.

Lemma sp1_nsp r : nsp r -> sp1 r = None.
Proof.
  intros [->|(c & t & -> & F)]; [reflexivity|]. unfold sp1. rewrite (plus1_fail is_sp c t F). reflexivity.
Qed.

Lemma plus_bt_sep {R} s r (k : list N -> option R) x : sepstr s -> nsp r -> k r = Some x -> plus_bt is_sp (s ++ r) k = Some x.
Proof. intros S Rr K. apply plus_bt_app; [apply S|apply sepstr_sp; exact S|exact Rr|exact K]. Qed.

Lemma follow_not_name r : follow r -> r = [] \/ exists c t, r = c :: t /\ is_name c = false.
Proof. intros [->|(c & t & -> & S)]; [left; reflexivity|right; exists c, t; split; [reflexivity|apply sepc_not_name; exact S]]. Qed.

Lemma follow_not_nd r : follow r -> r = [] \/ exists c t, r = c :: t /\ is_nd c = false.
Proof. intros [->|(c & t & -> & S)]; [left; reflexivity|right; exists c, t; split; [reflexivity|apply sepc_not_nd; exact S]]. Qed.

Lemma all_name n : forallb name_char n = true -> forallb is_name n = true.
Proof.
  induction n as [|c n IH]; [reflexivity|]. cbn [forallb]. intros H. apply andb_true_iff in H as [H1 H2].
  rewrite (name_char_is_name c H1), (IH H2). reflexivity.
Qed.

Lemma name1_app n r : n <> [] -> forallb name_char n = true -> follow r -> name1 (n ++ r) = Some (n, r).
Proof. intros N A F. unfold name1. apply plus1_app; [exact N|apply all_name; exact A|apply follow_not_name; exact F]. Qed.

(* a cons cell whose head is a keyword character in some case is not a separator start *)
Lemma nsp_cons c t : is_sp c = false -> nsp (c :: t).
Proof. intros H. right. exists c, t. split; [reflexivity|exact H]. Qed.

Lemma nsp_name n r : n <> [] -> forallb name_char n = true -> nsp (n ++ r).
Proof.
  intros N A. destruct n as [|c n]; [congruence|]. cbn [forallb] in A. apply andb_true_iff in A as [A _].
  apply nsp_cons. apply name_char_not_sp. exact A.
Qed.

Lemma nsp_cased m w r : w <> [] -> kword w = true -> nsp (cased m w ++ r).
Proof.
  intros N K. apply nsp_name; [destruct w; [congruence|discriminate]|apply cased_all_name; exact K].
Qed.
