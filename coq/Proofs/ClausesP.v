(* Lemmas about Model/Clauses.v (the clause recogniser as it is) against Spec/Clauses.v (entries, spellings, printer).

   Layers:
     1  characters: what the model's classes and IGNORECASE folding do on the printer's alphabet;
     2  tokens: a reserved word in any letter case is matched by its literal and by no other ([lit_cased]);
        separators, names, numbers, picture strings are matched by the greedy runs;
     3  clauses: for every clause kind and every spelling, [token_at] on the printed clause returns that clause's groups
        and stops exactly at its end (every earlier alternative fails);
     4  entries: induction over the clause list. *)
From Coq Require Import NArith List Bool Lia Arith ZifyBool ZifyN ZifyNat Permutation.
Import ListNotations.
Require Import SR.Base.Res SR.Gen.ClausesParams SR.Spec.Clauses SR.Model.Clauses.
(* The definitions of this development that occur in theorem statements (Props/) live in Spec/ClausesWf.v (audit item G1).
   The abbreviations keep the qualified names ClausesP.name of other files resolving; they are parsing-only aliases. *)
Require Export SR.Spec.ClausesWf.
Notation kwc := SR.Spec.ClausesWf.kwc (only parsing).
Notation sepc := SR.Spec.ClausesWf.sepc (only parsing).
Notation kword := SR.Spec.ClausesWf.kword (only parsing).
Notation follow := SR.Spec.ClausesWf.follow (only parsing).
Notation nsp := SR.Spec.ClausesWf.nsp (only parsing).
Notation sepstr := SR.Spec.ClausesWf.sepstr (only parsing).
Notation lookahead_words := SR.Spec.ClausesWf.lookahead_words (only parsing).
Notation clean_next := SR.Spec.ClausesWf.clean_next (only parsing).
Notation tail_ok := SR.Spec.ClausesWf.tail_ok (only parsing).
Notation keyword_alts := SR.Spec.ClausesWf.keyword_alts (only parsing).
Notation code_key := SR.Spec.ClausesWf.code_key (only parsing).
Notation gmap := SR.Spec.ClausesWf.gmap (only parsing).
Notation record_of := SR.Spec.ClausesWf.record_of (only parsing).
Notation result_for := SR.Spec.ClausesWf.result_for (only parsing).
Notation codes := SR.Spec.ClausesWf.codes (only parsing).
Open Scope N_scope.

(* ================================================================ 1. characters *)

Lemma sepc_cases c : sepc c = true -> c = 32 \/ c = 9 \/ c = 10 \/ c = 13 \/ c = 44 \/ c = 59.
Proof. unfold sepc, is_blank, s_mem, existsb. lia. Qed.

Lemma blank_cases c : is_blank c = true -> c = 32 \/ c = 9 \/ c = 10 \/ c = 13.
Proof. unfold is_blank, s_mem, existsb. lia. Qed.

Lemma blank_sepc c : is_blank c = true -> sepc c = true.
Proof. unfold sepc. intros ->. reflexivity. Qed.

Lemma sepc_is_sp c : sepc c = true -> is_sp c = true.
Proof. intros H. destruct (sepc_cases c H) as [->|[->|[->|[->|[->| ->]]]]]; vm_compute; reflexivity. Qed.

Lemma sepc_not_name c : sepc c = true -> is_name c = false.
Proof. intros H. destruct (sepc_cases c H) as [->|[->|[->|[->|[->| ->]]]]]; vm_compute; reflexivity. Qed.

Lemma sepc_not_nd c : sepc c = true -> is_nd c = false.
Proof. intros H. destruct (sepc_cases c H) as [->|[->|[->|[->|[->| ->]]]]]; vm_compute; reflexivity. Qed.

Lemma sepc_up c : sepc c = true -> up c = c.
Proof. intros H. destruct (sepc_cases c H) as [->|[->|[->|[->|[->| ->]]]]]; vm_compute; reflexivity. Qed.

Lemma sepc_not_kwc c : sepc c = true -> kwc c = false.
Proof. intros H. destruct (sepc_cases c H) as [->|[->|[->|[->|[->| ->]]]]]; vm_compute; reflexivity. Qed.

Lemma blank_is_ws c : is_blank c = true -> is_ws c = true.
Proof. intros H. destruct (blank_cases c H) as [->|[->|[->| ->]]]; vm_compute; reflexivity. Qed.

(* printable ASCII *)
Definition printable_char (c : N) : bool := (33 <=? c) && (c <=? 126).

Lemma printable_not_ws c : printable_char c = true -> is_ws c = false.
Proof. unfold printable_char, is_ws, mem, ws_points, existsb. lia. Qed.

Lemma printable_sp c : printable_char c = true -> is_sp c = s_mem c [124; 44; 59].
Proof.
  intros H. unfold is_sp. rewrite (printable_not_ws c H), andb_false_r. reflexivity.
Qed.

Lemma ascii_word c : c <? 128 = true -> is_word c = in_ranges word_lo c.
Proof. unfold is_word. intros ->. reflexivity. Qed.

Lemma name_char_is_name c : name_char c = true -> is_name c = true.
Proof.
  intros H. unfold is_name.
  assert (L : c <? 128 = true) by (unfold name_char, is_upper_letter, is_lower_letter, is_digit in H; lia).
  rewrite (ascii_word c L). unfold name_word, name_extra, word_lo, in_ranges, mem, existsb, fst, snd.
  unfold name_char, is_upper_letter, is_lower_letter, is_digit in H. lia.
Qed.

Lemma name_char_printable c : name_char c = true -> printable_char c = true.
Proof. unfold name_char, is_upper_letter, is_lower_letter, is_digit, printable_char. lia. Qed.

Lemma name_char_not_sp c : name_char c = true -> is_sp c = false.
Proof.
  intros H. rewrite (printable_sp c (name_char_printable c H)).
  unfold name_char, is_upper_letter, is_lower_letter, is_digit in H. unfold s_mem, existsb. lia.
Qed.

Lemma assoc_small c : c <? 128 = true -> assoc c fold_extra = None.
Proof.
  intros H. unfold fold_extra.
  repeat (cbn [assoc]; match goal with |- context [?a =? c] => destruct (N.eqb_spec a c); [lia|] end).
  reflexivity.
Qed.

Lemma up_ascii c : c <? 128 = true -> up c = upper c.
Proof.
  intros H. unfold up, upper. change ignorecase with true. cbv iota.
  destruct ((97 <=? c) && (c <=? 122)); [reflexivity|]. rewrite (assoc_small c H). reflexivity.
Qed.

Lemma name_char_up c : name_char c = true -> up c = upper c.
Proof.
  intros H. apply up_ascii. unfold name_char, is_upper_letter, is_lower_letter, is_digit in H. lia.
Qed.

Lemma kwc_up x : kwc x = true -> up x = x.
Proof.
  intros H. rewrite up_ascii; unfold kwc, is_upper_letter, is_digit in H; [|lia]. unfold upper.
  destruct ((97 <=? x) && (x <=? 122)) eqn:E; [lia|reflexivity].
Qed.

Lemma kwc_up_lower x : kwc x = true -> up (lower x) = x.
Proof.
  intros H. unfold kwc, is_upper_letter, is_digit in H. unfold lower.
  destruct ((65 <=? x) && (x <=? 90)) eqn:E.
  - rewrite up_ascii by lia. unfold upper. destruct ((97 <=? x + 32) && (x + 32 <=? 122)) eqn:F; lia.
  - apply kwc_up. unfold kwc, is_upper_letter, is_digit. lia.
Qed.

Lemma kwc_cased_up (b : bool) x : kwc x = true -> up (if b then lower x else x) = x.
Proof. destruct b; [apply kwc_up_lower|apply kwc_up]. Qed.

Lemma kwc_cased_printable (b : bool) x : kwc x = true -> printable_char (if b then lower x else x) = true.
Proof.
  unfold kwc, is_upper_letter, is_digit, printable_char, lower. intros H.
  destruct b; [destruct ((65 <=? x) && (x <=? 90)) eqn:E|]; lia.
Qed.

Lemma kwc_cased_name (b : bool) x : kwc x = true -> name_char (if b then lower x else x) = true.
Proof.
  unfold kwc, name_char, is_upper_letter, is_lower_letter, is_digit, lower. intros H.
  destruct b; [destruct ((65 <=? x) && (x <=? 90)) eqn:E|]; lia.
Qed.

(* ================================================================ 2. tokens *)

Lemma lit_nil_rest w : w <> [] -> lit w [] = None.
Proof. destruct w; [congruence|reflexivity]. Qed.

Lemma lit_follow w rest : kword w = true -> w <> [] -> follow rest -> lit w rest = None.
Proof.
  intros K N [->|(c & t & -> & S)]; [apply lit_nil_rest; exact N|].
  destruct w as [|x w]; [congruence|]. cbn [lit]. rewrite (sepc_up c S).
  cbn [kword forallb] in K. apply andb_true_iff in K as [K _].
  destruct (N.eqb_spec c x); [subst; rewrite (sepc_not_kwc x S) in K; discriminate|reflexivity].
Qed.

(* the literal W on the printed word W' (any letter case) followed by rest *)
Fixpoint match_kw (w w' : str) (m : list bool) (rest : list N) : option (list N) :=
  match w with
  | [] => Some (cased m w' ++ rest)
  | x :: wt =>
      match w' with
      | [] => lit w rest
      | y :: wt' => if y =? x then match_kw wt wt' (tl m) rest else None
      end
  end.

Lemma lit_cased_gen : forall w w' m rest, kword w' = true -> lit w (cased m w' ++ rest) = match_kw w w' m rest.
Proof.
  induction w as [|x wt IH]; intros w' m rest K; [reflexivity|].
  destruct w' as [|y wt']; [reflexivity|].
  cbn [kword forallb] in K. apply andb_true_iff in K as [Ky K].
  cbn [cased app lit match_kw]. rewrite (kwc_cased_up _ y Ky). destruct (y =? x); [apply IH; exact K|reflexivity].
Qed.

Lemma lit_cased w m rest : kword w = true -> lit w (cased m w ++ rest) = Some rest.
Proof.
  revert m. induction w as [|x wt IH]; intros m K; [reflexivity|].
  cbn [kword forallb] in K. apply andb_true_iff in K as [Kx K].
  cbn [cased app lit]. rewrite (kwc_cased_up _ x Kx), N.eqb_refl. apply IH. exact K.
Qed.

Lemma lit_first_ne x w c t : up c <> x -> lit (x :: w) (c :: t) = None.
Proof. intros H. cbn [lit]. destruct (N.eqb_spec (up c) x); [contradiction|reflexivity]. Qed.

Lemma cased_length m w : length (cased m w) = length w.
Proof. revert m. induction w; intros; cbn [cased length]; [reflexivity|f_equal; apply IHw]. Qed.

Lemma cased_all_name m w : kword w = true -> forallb name_char (cased m w) = true.
Proof.
  revert m. induction w as [|x w IH]; intros m K; [reflexivity|].
  cbn [kword forallb] in K. apply andb_true_iff in K as [Kx K].
  cbn [cased forallb]. rewrite (kwc_cased_name _ x Kx). apply IH. exact K.
Qed.

(* greedy runs *)
Lemma span_app p a r : forallb p a = true -> (r = [] \/ exists c t, r = c :: t /\ p c = false) -> span p (a ++ r) = (a, r).
Proof.
  intros A R. induction a as [|x a IH]; cbn [app].
  - destruct R as [->|(c & t & -> & F)]; [reflexivity|]. cbn [span]. rewrite F. reflexivity.
  - cbn [forallb] in A. apply andb_true_iff in A as [Ax A]. cbn [span]. rewrite Ax, (IH A). reflexivity.
Qed.

Lemma plus1_app p a r : a <> [] -> forallb p a = true -> (r = [] \/ exists c t, r = c :: t /\ p c = false) ->
  plus1 p (a ++ r) = Some (a, r).
Proof. intros N A R. unfold plus1. rewrite (span_app p a r A R). destruct a; [congruence|reflexivity]. Qed.

Lemma plus1_fail p c t : p c = false -> plus1 p (c :: t) = None.
Proof. intros F. unfold plus1. cbn [span]. rewrite F. reflexivity. Qed.

Lemma plus_bt_app {R} p a r (k : list N -> option R) x :
  a <> [] -> forallb p a = true -> (r = [] \/ exists c t, r = c :: t /\ p c = false) -> k r = Some x ->
  plus_bt p (a ++ r) k = Some x.
Proof.
  intros N A Rr K. induction a as [|c a IH]; [congruence|].
  cbn [forallb] in A. apply andb_true_iff in A as [Ac A]. cbn [app plus_bt]. rewrite Ac.
  destruct a as [|c' a'].
  - cbn [app]. destruct Rr as [->|(d & t & -> & F)]; cbn [plus_bt]; [|rewrite F]; exact K.
  - rewrite IH; [reflexivity|congruence|exact A].
Qed.

Lemma plus_bt_fail {R} p c t (k : list N -> option R) : p c = false -> plus_bt p (c :: t) k = None.
Proof. intros F. cbn [plus_bt]. rewrite F. reflexivity. Qed.

Lemma all_blank_sepc s : all_blank s = true -> forallb sepc s = true.
Proof.
  unfold all_blank. induction s as [|c s IH]; [reflexivity|]. cbn [forallb]. intros H.
  apply andb_true_iff in H as [H1 H2]. rewrite (blank_sepc c H1), (IH H2). reflexivity.
Qed.

Lemma sep_ok_sepstr s : sep_ok s = true -> sepstr s.
Proof.
  destruct s as [|c t]; [discriminate|]. cbn [sep_ok]. intros H. split; [congruence|]. cbn [forallb].
  destruct (is_blank c) eqn:B.
  - apply andb_true_iff. split; [apply blank_sepc; exact B|apply all_blank_sepc; exact H].
  - apply andb_true_iff in H as [H _]. apply andb_true_iff in H as [H1 H2].
    apply andb_true_iff. split; [unfold sepc; rewrite H1; apply orb_true_r|apply all_blank_sepc; exact H2].
Qed.

Lemma sepstr_sp s : sepstr s -> forallb is_sp s = true.
Proof.
  intros [_ H]. induction s as [|c s IH]; [reflexivity|]. cbn [forallb] in *.
  apply andb_true_iff in H as [H1 H2]. rewrite (sepc_is_sp c H1), (IH H2). reflexivity.
Qed.

Lemma sepstr_follow s r : sepstr s -> follow (s ++ r).
Proof.
  intros [N H]. destruct s as [|c t]; [congruence|]. right. exists c, (t ++ r). split; [reflexivity|].
  cbn [forallb] in H. apply andb_true_iff in H as [H _]. exact H.
Qed.

Lemma sp1_sep s r : sepstr s -> nsp r -> sp1 (s ++ r) = Some r.
Proof.
  intros S R. unfold sp1. rewrite (plus1_app is_sp s r); [reflexivity|apply S|apply sepstr_sp; exact S|exact R].
Qed.

Lemma sp1_nsp r : nsp r -> sp1 r = None.
Proof.
  intros [->|(c & t & -> & F)]; [reflexivity|]. unfold sp1. rewrite (plus1_fail is_sp c t F). reflexivity.
Qed.

Lemma plus_bt_sep {R} s r (k : list N -> option R) x : sepstr s -> nsp r -> k r = Some x -> plus_bt is_sp (s ++ r) k = Some x.
Proof. intros S Rr K. apply plus_bt_app; [apply S|apply sepstr_sp; exact S|exact Rr|exact K]. Qed.

Lemma follow_not_name r : follow r -> r = [] \/ exists c t, r = c :: t /\ is_name c = false.
Proof. intros [->|(c & t & -> & S)]; [left; reflexivity|right; exists c, t; split; [reflexivity|apply sepc_not_name; exact S]]. Qed.

Lemma follow_not_nd r : follow r -> r = [] \/ exists c t, r = c :: t /\ is_nd c = false.
Proof. intros [->|(c & t & -> & S)]; [left; reflexivity|right; exists c, t; split; [reflexivity|apply sepc_not_nd; exact S]]. Qed.

Lemma all_name n : forallb name_char n = true -> forallb is_name n = true.
Proof.
  induction n as [|c n IH]; [reflexivity|]. cbn [forallb]. intros H. apply andb_true_iff in H as [H1 H2].
  rewrite (name_char_is_name c H1), (IH H2). reflexivity.
Qed.

Lemma name1_app n r : n <> [] -> forallb name_char n = true -> follow r -> name1 (n ++ r) = Some (n, r).
Proof. intros N A F. unfold name1. apply plus1_app; [exact N|apply all_name; exact A|apply follow_not_name; exact F]. Qed.

(* a cons cell whose head is a keyword character in some case is not a separator start *)
Lemma nsp_cons c t : is_sp c = false -> nsp (c :: t).
Proof. intros H. right. exists c, t. split; [reflexivity|exact H]. Qed.

Lemma nsp_name n r : n <> [] -> forallb name_char n = true -> nsp (n ++ r).
Proof.
  intros N A. destruct n as [|c n]; [congruence|]. cbn [forallb] in A. apply andb_true_iff in A as [A _].
  apply nsp_cons. apply name_char_not_sp. exact A.
Qed.

Lemma nsp_cased m w r : w <> [] -> kword w = true -> nsp (cased m w ++ r).
Proof.
  intros N K. apply nsp_name; [destruct w; [congruence|discriminate]|apply cased_all_name; exact K].
Qed.

(* ---- reserved words against literals ---- *)
Fixpoint prefixb (w w' : str) : bool :=
  match w with
  | [] => true
  | x :: wt => match w' with [] => false | y :: wt' => (y =? x) && prefixb wt wt' end
  end.

(* w and w' differ at a position both have *)
Fixpoint mismatch (w w' : str) : bool :=
  match w, w' with
  | x :: wt, y :: wt' => if y =? x then mismatch wt wt' else true
  | _, _ => false
  end.

Lemma lit_mismatch : forall w w' m rest, kword w' = true -> mismatch w w' = true -> lit w (cased m w' ++ rest) = None.
Proof.
  induction w as [|x wt IH]; intros w' m rest K M; [discriminate|].
  destruct w' as [|y wt']; [discriminate|].
  cbn [kword forallb] in K. apply andb_true_iff in K as [Ky K].
  cbn [cased app lit mismatch] in *. rewrite (kwc_cased_up _ y Ky). destruct (y =? x); [apply IH; assumption|reflexivity].
Qed.

(* the printed word is a proper prefix of the literal: the literal runs into what follows *)
Lemma lit_longer : forall w' w m rest, kword w' = true -> kword w = true -> prefixb w' w = true -> (length w' < length w)%nat ->
  follow rest -> lit w (cased m w' ++ rest) = None.
Proof.
  induction w' as [|y wt' IH]; intros w m rest K' K P L F.
  - cbn [cased app]. apply lit_follow; [exact K|destruct w; [cbn in L; lia|congruence]|exact F].
  - destruct w as [|x wt]; [discriminate|]. cbn [prefixb] in P. apply andb_true_iff in P as [E P]. apply N.eqb_eq in E. subst x.
    cbn [kword forallb] in K, K'. apply andb_true_iff in K as [_ K]. apply andb_true_iff in K' as [Ky K'].
    cbn [cased app lit]. rewrite (kwc_cased_up _ y Ky), N.eqb_refl. apply IH; [assumption..|cbn [length] in L; lia|assumption].
Qed.

(* the literal is a prefix of the printed word *)
Lemma lit_shorter : forall w w' m rest, kword w' = true -> prefixb w w' = true ->
  lit w (cased m w' ++ rest) = Some (cased (skipn (length w) m) (skipn (length w) w') ++ rest).
Proof.
  induction w as [|x wt IH]; intros w' m rest K P; [reflexivity|].
  destruct w' as [|y wt']; [discriminate|]. cbn [prefixb] in P. apply andb_true_iff in P as [E P]. apply N.eqb_eq in E. subst x.
  cbn [kword forallb] in K. apply andb_true_iff in K as [Ky K].
  cbn [cased app lit]. rewrite (kwc_cased_up _ y Ky), N.eqb_refl. rewrite (IH wt' (tl m) rest K P).
  cbn [length]. destruct m; cbn [tl skipn]; [rewrite skipn_nil|]; reflexivity.
Qed.

Lemma lit_sep_then w a r : kword w = true -> w <> [] -> forallb sepc a = true -> lit w r = None -> lit w (a ++ r) = None.
Proof.
  intros K N A H. destruct a as [|c a]; [exact H|]. cbn [forallb] in A. apply andb_true_iff in A as [A _].
  apply lit_follow; [exact K|exact N|]. right. exists c, (a ++ r). split; [reflexivity|exact A].
Qed.

Lemma firstn_cased m w rest : firstn (length w) (cased m w ++ rest) = cased m w.
Proof. rewrite <- (cased_length m w). rewrite firstn_app, Nat.sub_diag, firstn_all. cbn [firstn]. apply app_nil_r. Qed.

Lemma consumed_app t e : consumed (t ++ e) e = t.
Proof.
  unfold consumed. rewrite app_length. replace (length t + length e - length e)%nat with (length t) by lia.
  rewrite firstn_app, Nat.sub_diag, firstn_all. cbn [firstn]. apply app_nil_r.
Qed.

(* ---- what may follow a clause ---- *)

Lemma clean_next_nil : clean_next [].
Proof. intros w H. apply lit_nil_rest. unfold lookahead_words in H. cbn [In] in H. intuition (subst; discriminate). Qed.

Lemma tail_ok_follow rest : tail_ok rest -> follow rest.
Proof. intros [->|(s & r & -> & S & _)]; [left; reflexivity|apply sepstr_follow; exact S]. Qed.

Lemma clean_next_kw m w' x : kword w' = true -> forallb (fun w => mismatch w w') lookahead_words = true -> clean_next (cased m w' ++ x).
Proof.
  intros K A w H. apply lit_mismatch; [exact K|]. rewrite forallb_forall in A. apply A. exact H.
Qed.

Lemma lookahead_kword : forall w, In w lookahead_words -> kword w = true /\ w <> [].
Proof. intros w H. unfold lookahead_words in H. cbn [In] in H. intuition (subst; try reflexivity; discriminate). Qed.

(* a literal of the lookahead list after any run of separator characters *)
Lemma lit_tail w a r : In w lookahead_words -> forallb sepc a = true -> clean_next r -> lit w (a ++ r) = None.
Proof. intros I A C. destruct (lookahead_kword w I). apply lit_sep_then; [assumption..|apply C; exact I]. Qed.

(* ---- the KEY tail fails on a clean tail ---- *)
Lemma plus_bt_sp_none {R} a r (k : list N -> option R) :
  forallb sepc a = true -> nsp r -> (forall a', forallb sepc a' = true -> k (a' ++ r) = None) -> plus_bt is_sp (a ++ r) k = None.
Proof.
  intros A Rr K. induction a as [|c a IH].
  - cbn [app]. destruct Rr as [->|(d & t & -> & F)]; [reflexivity|apply plus_bt_fail; exact F].
  - cbn [forallb] in A. apply andb_true_iff in A as [Ac A]. cbn [app plus_bt]. rewrite (sepc_is_sp c Ac), (IH A). apply K. exact A.
Qed.

Lemma key_tail_clean rest : tail_ok rest -> key_tail rest = Some rest.
Proof.
  intros [->|(s & r & -> & S & Rn & C)]; [reflexivity|].
  unfold key_tail. rewrite plus_bt_sp_none; [reflexivity|apply S|exact Rn|].
  intros a' A'. cbn [star_A]. unfold key_A.
  rewrite (lit_tail W_ASCENDING a' r), (lit_tail W_DESCENDING a' r); try assumption; try (unfold lookahead_words; cbn [In]; tauto).
  unfold key_B. apply plus_bt_sp_none; [exact A'|exact Rn|].
  intros a'' A''. rewrite (lit_tail W_INDEXED a'' r); try assumption; [reflexivity|unfold lookahead_words; cbn [In]; tauto].
Qed.

Lemma with_key_tail_clean g rest : tail_ok rest -> with_key_tail g rest = AYes g rest.
Proof. intros T. unfold with_key_tail. rewrite (key_tail_clean rest T). reflexivity. Qed.

(* ---- spellings ---- *)
Definition spell_ok (sp : cspell) : Prop := forallb sep_ok (seps sp) = true.

Lemma sep_sepstr sp i : spell_ok sp -> sepstr (sep sp i).
Proof.
  intros H. apply sep_ok_sepstr. unfold sep. unfold spell_ok in H. rewrite forallb_forall in H.
  destruct (nth_in_or_default i (seps sp) [32]) as [I| ->]; [apply H; exact I|reflexivity].
Qed.

Lemma kw_unfold sp i w : kw sp i w = cased (nth i (masks sp) []) w.
Proof. reflexivity. Qed.

Lemma digit_is_nd c : is_digit c = true -> is_nd c = true.
Proof.
  unfold is_digit, is_nd, SR.Model.Picture.is_nd, SR.Model.Picture.ascii_digit. intros ->. reflexivity.
Qed.

Lemma digits1_app n r : digits_ok n = true -> follow r -> digits1 (n ++ r) = Some (n, r).
Proof.
  unfold digits_ok. intros H F. apply andb_true_iff in H as [N A]. unfold digits1. apply plus1_app.
  - destruct n; [discriminate|congruence].
  - clear N. induction n as [|c n IH]; [reflexivity|]. cbn [forallb] in *. apply andb_true_iff in A as [A1 A2].
    rewrite (digit_is_nd c A1), (IH A2). reflexivity.
  - apply follow_not_nd. exact F.
Qed.

Lemma times_part_printed sp i j rest : spell_ok sp -> times_part true (sep sp i ++ kw sp j K_TIMES ++ rest) = Some rest.
Proof.
  intros S. unfold times_part. rewrite (sp1_sep _ _ (sep_sepstr sp i S)); [|apply nsp_cased; [discriminate|reflexivity]].
  unfold kw. change K_TIMES with W_TIMES. rewrite lit_cased by reflexivity. reflexivity.
Qed.

Lemma times_part_omitted rest : tail_ok rest -> times_part true rest = Some rest.
Proof.
  intros [->|(s & r & -> & S & Rn & C)]; [reflexivity|].
  unfold times_part. rewrite (sp1_sep s r S Rn). rewrite (C W_TIMES); [reflexivity|unfold lookahead_words; cbn [In]; tauto].
Qed.

(* ================================================================ 3. alternatives *)
Lemma token_at_unfold s : token_at s = try_alts [0; 1; 2; 3; 4; 5; 6; 7; 8; 9; 10; 11; 12; 13; 14] s.
Proof. reflexivity. Qed.

Lemma try_alts_no id ids s : alt id s = ANo -> try_alts (id :: ids) s = try_alts ids s.
Proof. intros H. cbn [try_alts]. rewrite H. reflexivity. Qed.

Lemma try_alts_yes id ids s g r : alt id s = AYes g r -> try_alts (id :: ids) s = Some (Tok id g, r).
Proof. intros H. cbn [try_alts]. rewrite H. reflexivity. Qed.

(* first letters (upper case) with which alternative id can start; alternative 0 starts with a SPACE character *)
Definition firsts (id x : N) : bool :=
  match id with
  | 0 => false
  | 1 => x =? 82 | 2 => x =? 66 | 3 => x =? 69 | 4 => x =? 71 | 5 => x =? 74 | 6 | 7 => x =? 79 | 8 => x =? 80
  | 9 => s_mem x [83; 73; 76; 84] | 10 => x =? 83 | 11 => s_mem x [85; 73; 66; 67; 68; 80] | 12 => x =? 86 | 13 => x =? 70
  | _ => true
  end.

Ltac lit_ne :=
  repeat match goal with
         | |- context [lit (?x :: ?w) (?c :: ?t)] => rewrite (lit_first_ne x w c t) by lia
         end.

Lemma word_sp_first_ne x w c t : up c <> x -> word_sp (x :: w) (c :: t) = None.
Proof. intros H. unfold word_sp. rewrite lit_first_ne by exact H. reflexivity. Qed.

Lemma prefix2_first_ne x1 w1 x2 w2 c t : up c <> x1 -> up c <> x2 -> prefix2 true (x1 :: w1) true (x2 :: w2) (c :: t) = [c :: t].
Proof.
  intros H1 H2. unfold prefix2, opt_word_sp. rewrite (word_sp_first_ne x1 w1 c t H1). cbn [flat_map app].
  rewrite (word_sp_first_ne x2 w2 c t H2). reflexivity.
Qed.

Lemma alt_first id c t : In id keyword_alts -> is_sp c = false -> firsts id (up c) = false -> alt id (c :: t) = ANo.
Proof.
  intros C S F. unfold keyword_alts in C. cbn [In] in C.
  repeat destruct C as [C|C]; try contradiction; subst id; cbn [firsts s_mem existsb] in F.
  - cbn [alt]. unfold alt_space, sp1. rewrite (plus1_fail is_sp c t S). reflexivity.
  - cbn [alt]. unfold alt_redefines, word_sp, W_REDEFINES. lit_ne. reflexivity.
  - cbn [alt]. unfold alt_blank, word_sp, W_BLANK. lit_ne. reflexivity.
  - cbn [alt]. unfold alt_word, W_EXTERNAL. lit_ne. reflexivity.
  - cbn [alt]. unfold alt_word, W_GLOBAL. lit_ne. reflexivity.
  - cbn [alt]. unfold alt_justified, just_words, word_sp. cbn [first_some]. lit_ne. reflexivity.
  - cbn [alt]. unfold alt_odo, word_sp, W_OCCURS. lit_ne. reflexivity.
  - cbn [alt]. unfold alt_occurs, word_sp, W_OCCURS. lit_ne. reflexivity.
  - cbn [alt]. unfold alt_picture, pic_words. cbn [first_some]. lit_ne. reflexivity.
  - cbn [alt]. unfold alt_sign, sign_word_opt, sign_is_opt, W_SIGN, W_IS. rewrite prefix2_first_ne by lia.
    cbn [first_some]. unfold sign_at, W_LEADING, W_TRAILING. cbn [first_some]. lit_ne. reflexivity.
  - cbn [alt]. unfold alt_sync, sync_words. cbn [first_some]. lit_ne. reflexivity.
  - cbn [alt]. unfold alt_usage, usage_word_opt, usage_is_opt, W_USAGE, W_IS. rewrite prefix2_first_ne by lia.
    cbn [first_some]. unfold usage_at, usage_words. cbn [first_some]. lit_ne. reflexivity.
  - cbn [alt]. unfold alt_value, W_VALUE. lit_ne. reflexivity.
  - cbn [alt]. unfold alt_filler, W_FILLER. lit_ne. reflexivity.
Qed.

Lemma cased_cons m x w : cased m (x :: w) = (if hd false m then lower x else x) :: cased (tl m) w.
Proof. reflexivity. Qed.

Lemma alt_first_kw id m x w r : In id keyword_alts -> kwc x = true -> firsts id x = false -> alt id (cased m (x :: w) ++ r) = ANo.
Proof.
  intros I K F. rewrite cased_cons. cbn [app]. apply alt_first.
  - exact I.
  - apply name_char_not_sp. apply kwc_cased_name. exact K.
  - rewrite (kwc_cased_up _ x K). exact F.
Qed.

(* skip the alternatives that cannot start with the first letter of the printed word *)
Ltac skip_alts :=
  repeat (rewrite try_alts_no by (apply alt_first_kw; [unfold keyword_alts; cbn [In]; tauto|reflexivity|reflexivity])).

Ltac kwlit := rewrite lit_cased by reflexivity.
Ltac assoc := rewrite <- ?app_assoc.

Lemma tok_external sp rest : token_at (print_clause CExternal sp ++ rest) = Some (Tok 3 (gmap (bindings CExternal sp)), rest).
Proof.
  cbn [print_clause bindings gmap map]. rewrite token_at_unfold. unfold kw, K_EXTERNAL. skip_alts. apply try_alts_yes.
  cbn [alt]. unfold alt_word. kwlit. reflexivity.
Qed.

Lemma tok_global sp rest : token_at (print_clause CGlobal sp ++ rest) = Some (Tok 4 (gmap (bindings CGlobal sp)), rest).
Proof.
  cbn [print_clause bindings gmap map]. rewrite token_at_unfold. unfold kw, K_GLOBAL. skip_alts. apply try_alts_yes.
  cbn [alt]. unfold alt_word. kwlit. reflexivity.
Qed.

Lemma tok_filler sp rest : token_at (print_clause CFiller sp ++ rest) = Some (Tok 13 (gmap (bindings CFiller sp)), rest).
Proof.
  cbn [print_clause bindings gmap map]. rewrite token_at_unfold. unfold kw, K_FILLER. skip_alts. apply try_alts_yes.
  cbn [alt]. unfold alt_filler. kwlit. change 6%nat with (length [70; 73; 76; 76; 69; 82]). rewrite firstn_cased. reflexivity.
Qed.

Lemma tok_redefines sp t rest : spell_ok sp -> name_ok t = true -> follow rest ->
  token_at (print_clause (CRedefines t) sp ++ rest) = Some (Tok 1 (gmap (bindings (CRedefines t) sp)), rest).
Proof.
  intros S N F. unfold name_ok in N. apply andb_true_iff in N as [N _]. apply andb_true_iff in N as [N _].
  apply andb_true_iff in N as [N0 N1]. assert (t <> []) by (destruct t; [discriminate|congruence]).
  cbn [print_clause bindings gmap map]. assoc. rewrite token_at_unfold. unfold kw, K_REDEFINES. skip_alts. apply try_alts_yes.
  cbn [alt]. unfold alt_redefines, word_sp. kwlit. rewrite (sp1_sep _ _ (sep_sepstr sp 0 S)) by (apply nsp_name; assumption).
  rewrite name1_app by assumption. reflexivity.
Qed.

Lemma in_lookahead w : existsb (SR.Model.Clauses.str_eqb w) lookahead_words = true -> In w lookahead_words.
Proof.
  intros H. apply existsb_exists in H as (x & I & E). assert (w = x); [|subst; exact I].
  clear I. revert x E. induction w as [|a w IH]; intros [|b x] E; try discriminate; [reflexivity|].
  cbn [SR.Model.Clauses.str_eqb] in E. apply andb_true_iff in E as [E1 E2]. apply N.eqb_eq in E1. subst. f_equal. apply IH. exact E2.
Qed.

Ltac look := apply in_lookahead; reflexivity.

(* what sp_word does at the end of a clause when the optional word is not written *)
Lemma sp_word_tail w rest : In w lookahead_words -> tail_ok rest -> sp_word w rest = None.
Proof.
  intros I [->|(s & r & -> & S & Rn & C)]; [reflexivity|]. unfold sp_word. rewrite (sp1_sep s r S Rn). apply C. exact I.
Qed.

Lemma sp_word_printed sp i j w rest : spell_ok sp -> kword w = true -> w <> [] ->
  sp_word w (sep sp i ++ kw sp j w ++ rest) = Some rest.
Proof.
  intros S K N. unfold sp_word. rewrite (sp1_sep _ _ (sep_sepstr sp i S)) by (apply nsp_cased; assumption).
  unfold kw. rewrite lit_cased by exact K. reflexivity.
Qed.

Lemma word_sp_printed sp i j w x : spell_ok sp -> kword w = true -> nsp x ->
  word_sp w (kw sp j w ++ sep sp i ++ x) = Some x.
Proof.
  intros S K N. unfold word_sp, kw. rewrite lit_cased by exact K. apply sp1_sep; [apply sep_sepstr; exact S|exact N].
Qed.

Lemma tok_blank sp rest : spell_ok sp -> (chN sp 1 =? 0) = true ->
  token_at (print_clause CBlank sp ++ rest) = Some (Tok 2 (gmap (bindings CBlank sp)), rest).
Proof.
  intros S Z. apply N.eqb_eq in Z. cbn [print_clause bindings gmap map]. rewrite Z. change (zero_word 0) with K_ZERO.
  assoc. rewrite token_at_unfold. unfold kw at 1, K_BLANK. skip_alts. apply try_alts_yes. cbn [alt]. unfold alt_blank.
  change (cased (nth 0 (masks sp) []) [66; 76; 65; 78; 75]) with (kw sp 0 W_BLANK).
  assert (Z4 : forall m r, zero_at (cased m K_ZERO ++ r) = Some ([(KBlank, cased m K_ZERO)], r)).
  { intros m r. unfold zero_at, zero_words. cbn [first_some]. unfold K_ZERO. kwlit. rewrite firstn_cased. reflexivity. }
  destruct (chb sp 0); cbn [opt app]; assoc.
  - rewrite word_sp_printed; [|exact S|reflexivity|apply nsp_cased; [discriminate|reflexivity]].
    unfold opt_word_sp, when_opt. change K_WHEN with W_WHEN.
    rewrite word_sp_printed; [|exact S|reflexivity|apply nsp_cased; [discriminate|reflexivity]].
    cbn [first_some]. unfold kw. rewrite Z4. reflexivity.
  - rewrite word_sp_printed; [|exact S|reflexivity|apply nsp_cased; [discriminate|reflexivity]].
    unfold opt_word_sp, when_opt, word_sp, kw. rewrite (lit_mismatch W_WHEN K_ZERO) by reflexivity.
    cbn [first_some]. rewrite Z4. reflexivity.
Qed.

Lemma just_word_cases i : just_word i = K_JUSTIFIED \/ just_word i = K_JUST.
Proof. unfold just_word. destruct (N.to_nat i) as [|[|n]]; cbn [nth]; [tauto|tauto|]. destruct n; tauto. Qed.

Lemma sync_word_cases i : sync_word i = K_SYNCHRONIZED \/ sync_word i = K_SYNC.
Proof. unfold sync_word. destruct (N.to_nat i) as [|[|n]]; cbn [nth]; [tauto|tauto|]. destruct n; tauto. Qed.

Lemma pic_word_cases i : pic_word i = K_PIC \/ pic_word i = K_PICTURE.
Proof. unfold pic_word. destruct (N.to_nat i) as [|[|n]]; cbn [nth]; [tauto|tauto|]. destruct n; tauto. Qed.

(* JUSTIFIED RIGHT stops at its end; JUSTIFIED alone also takes the separator that follows it *)
Lemma tok_just_right sp rest : spell_ok sp ->
  token_at (print_clause (CJust true) sp ++ rest) = Some (Tok 5 (gmap (bindings (CJust true) sp)), rest).
Proof.
  intros S. cbn [print_clause bindings gmap map opt]. assoc. rewrite token_at_unfold.
  assert (R5 : forall x, lit W_RIGHT (kw sp 1 K_RIGHT ++ x) = Some x) by (intros; unfold kw; kwlit; reflexivity).
  assert (N5 : nsp (kw sp 1 K_RIGHT ++ rest)) by (apply nsp_cased; [discriminate|reflexivity]).
  destruct (just_word_cases (chN sp 0)) as [-> | ->]; unfold kw at 1.
  - unfold K_JUSTIFIED. skip_alts. apply try_alts_yes. cbn [alt]. unfold alt_justified, just_words. cbn [first_some].
    change (cased (nth 0 (masks sp) []) [74; 85; 83; 84; 73; 70; 73; 69; 68]) with (kw sp 0 [74; 85; 83; 84; 73; 70; 73; 69; 68]).
    rewrite word_sp_printed; [|exact S|reflexivity|exact N5]. rewrite R5.
    change 5%nat with (length K_RIGHT). unfold kw. rewrite firstn_cased. reflexivity.
  - unfold K_JUST. skip_alts. apply try_alts_yes. cbn [alt]. unfold alt_justified, just_words. cbn [first_some].
    unfold word_sp at 1. rewrite (lit_longer [74; 85; 83; 84]); [|reflexivity|reflexivity|reflexivity|cbn; lia|apply sepstr_follow; apply sep_sepstr; exact S].
    change (cased (nth 0 (masks sp) []) [74; 85; 83; 84]) with (kw sp 0 [74; 85; 83; 84]).
    rewrite word_sp_printed; [|exact S|reflexivity|exact N5]. rewrite R5.
    change 5%nat with (length K_RIGHT). unfold kw. rewrite firstn_cased. reflexivity.
Qed.

Lemma tok_just_plain sp s r : sepstr s -> nsp r -> clean_next r ->
  token_at (print_clause (CJust false) sp ++ s ++ r) = Some (Tok 5 (gmap (bindings (CJust false) sp)), r).
Proof.
  intros S Rn C. cbn [print_clause bindings gmap map opt]. rewrite app_nil_r. rewrite token_at_unfold.
  assert (R5 : lit W_RIGHT r = None) by (apply C; look).
  destruct (just_word_cases (chN sp 0)) as [-> | ->]; unfold kw.
  - unfold K_JUSTIFIED. skip_alts. apply try_alts_yes. cbn [alt]. unfold alt_justified, just_words. cbn [first_some].
    unfold word_sp. kwlit. rewrite (sp1_sep s r S Rn), R5. reflexivity.
  - unfold K_JUST. skip_alts. apply try_alts_yes. cbn [alt]. unfold alt_justified, just_words. cbn [first_some].
    unfold word_sp. rewrite (lit_longer [74; 85; 83; 84]); [|reflexivity|reflexivity|reflexivity|cbn; lia|apply sepstr_follow; exact S].
    kwlit. rewrite (sp1_sep s r S Rn), R5. reflexivity.
Qed.

Lemma word_sp_mismatch w w' m r : kword w' = true -> mismatch w w' = true -> word_sp w (cased m w' ++ r) = None.
Proof. intros K M. unfold word_sp. rewrite (lit_mismatch w w' m r K M). reflexivity. Qed.

(* the SIGN alternative on a word that is neither SIGN, IS, LEADING nor TRAILING *)
Lemma alt_sign_other m x w r : kwc x = true -> kword w = true -> mismatch W_SIGN (x :: w) = true ->
  s_mem x [73; 76; 84] = false -> alt 9 (cased m (x :: w) ++ r) = ANo.
Proof.
  intros Kx K M F. cbn [alt]. unfold alt_sign, prefix2, opt_word_sp, sign_word_opt, sign_is_opt.
  rewrite (word_sp_mismatch W_SIGN (x :: w)); [|cbn [kword forallb]; rewrite Kx; exact K|exact M].
  cbn [flat_map app]. rewrite cased_cons. cbn [app]. unfold W_IS. rewrite word_sp_first_ne.
  2:{ rewrite (kwc_cased_up _ x Kx). unfold s_mem, existsb in F. lia. }
  cbn [app first_some]. unfold sign_at, W_LEADING, W_TRAILING. cbn [first_some].
  rewrite !lit_first_ne; [reflexivity|..]; rewrite (kwc_cased_up _ x Kx); unfold s_mem, existsb in F; lia.
Qed.

Lemma tok_sync sp side rest : spell_ok sp -> tail_ok rest ->
  token_at (print_clause (CSync side) sp ++ rest) = Some (Tok 10 (gmap (bindings (CSync side) sp)), rest).
Proof.
  intros S T. cbn [print_clause bindings]. assoc. rewrite token_at_unfold.
  assert (F : follow (opt (negb (side =? 0)) (side_text sp side) ++ rest)).
  { destruct (side =? 0); cbn [negb opt app]; [apply tail_ok_follow; exact T|]. unfold side_text. assoc. apply sepstr_follow. apply sep_sepstr. exact S. }
  assert (A : match first_some (fun w => sp_word w (opt (negb (side =? 0)) (side_text sp side) ++ rest)) [W_LEFT; W_RIGHT] with
                | Some b => AYes [(KSynch, consumed (opt (negb (side =? 0)) (side_text sp side) ++ rest) b)] b
                | None => AYes [] (opt (negb (side =? 0)) (side_text sp side) ++ rest)
                end = AYes (gmap (if side =? 0 then [] else [(10, side_text sp side)])) rest).
  { destruct (side =? 0) eqn:E0; cbn [negb opt app first_some].
    - rewrite (sp_word_tail W_LEFT rest) by (look || exact T). rewrite (sp_word_tail W_RIGHT rest) by (look || exact T). reflexivity.
    - unfold side_text, side_word. assoc. destruct (side =? 1).
      + change K_LEFT with W_LEFT. rewrite sp_word_printed by (exact S || reflexivity || discriminate).
        rewrite (app_assoc (sep sp 0)), consumed_app. reflexivity.
      + unfold sp_word at 1. rewrite (sp1_sep _ _ (sep_sepstr sp 0 S)) by (apply nsp_cased; [discriminate|reflexivity]).
        unfold kw at 1. rewrite (lit_mismatch W_LEFT K_RIGHT) by reflexivity.
        change K_RIGHT with W_RIGHT. rewrite sp_word_printed by (exact S || reflexivity || discriminate).
        rewrite (app_assoc (sep sp 0)), consumed_app. reflexivity. }
  destruct (sync_word_cases (chN sp 0)) as [-> | ->]; unfold kw at 1.
  - unfold K_SYNCHRONIZED. skip_alts. rewrite try_alts_no by (apply alt_sign_other; reflexivity). apply try_alts_yes.
    cbn [alt]. unfold alt_sync, sync_words. cbn [first_some]. kwlit. exact A.
  - unfold K_SYNC. skip_alts. rewrite try_alts_no by (apply alt_sign_other; reflexivity). apply try_alts_yes.
    cbn [alt]. unfold alt_sync, sync_words. cbn [first_some].
    rewrite (lit_longer [83; 89; 78; 67]); [|reflexivity|reflexivity|reflexivity|cbn; lia|exact F].
    kwlit. exact A.
Qed.

Lemma opt_word_sp_first_ne x w c t : up c <> x -> opt_word_sp true (x :: w) (c :: t) = [c :: t].
Proof. intros H. unfold opt_word_sp. rewrite (word_sp_first_ne x w c t H). reflexivity. Qed.

Lemma opt_word_sp_kw_ne m x w y v r : kwc y = true -> y <> x -> opt_word_sp true (x :: w) (cased m (y :: v) ++ r) = [cased m (y :: v) ++ r].
Proof. intros K N. rewrite cased_cons. cbn [app]. apply opt_word_sp_first_ne. rewrite (kwc_cased_up _ y K). exact N. Qed.

(* LEADING / TRAILING SEPARATE [CHARACTER] from the sign word on *)
Lemma sign_at_printed sp leading rest : spell_ok sp -> tail_ok rest ->
  sign_at (kw sp 2 (sign_word leading) ++ separate_text sp ++ rest)
  = Some ([(KSign, kw sp 2 (sign_word leading)); (KSignSep, separate_text sp)], rest).
Proof.
  intros S T. unfold sign_at.
  assert (E : forall w, kword w = true -> w <> [] ->
     match lit w (kw sp 2 w ++ separate_text sp ++ rest) with
     | None => None
     | Some r1 => match sign_sep_end r1 with
                  | None => None
                  | Some e => Some ([(KSign, firstn (length w) (kw sp 2 w ++ separate_text sp ++ rest)); (KSignSep, consumed r1 e)], e)
                  end
     end = Some ([(KSign, kw sp 2 w); (KSignSep, separate_text sp)], rest)).
  { intros w K N. unfold kw at 1. rewrite lit_cased by exact K. unfold kw. rewrite firstn_cased.
    unfold separate_text, sign_sep_end. assoc. change K_SEPARATE with W_SEPARATE.
    rewrite sp_word_printed by (exact S || reflexivity || discriminate).
    destruct (chb sp 1); cbn [opt app]; assoc.
    - change K_CHARACTER with W_CHARACTER. rewrite sp_word_printed by (exact S || reflexivity || discriminate).
      rewrite !app_assoc, consumed_app. reflexivity.
    - rewrite (sp_word_tail W_CHARACTER rest) by (look || exact T).
      rewrite !app_assoc, consumed_app. rewrite ?app_nil_r. reflexivity. }
  destruct leading; cbn [sign_word first_some].
  - change K_LEADING with W_LEADING. rewrite (E W_LEADING) by (reflexivity || discriminate). reflexivity.
  - unfold kw at 1. rewrite (lit_mismatch W_LEADING K_TRAILING) by reflexivity.
    change K_TRAILING with W_TRAILING. rewrite (E W_TRAILING) by (reflexivity || discriminate). reflexivity.
Qed.

Lemma tok_sign sp leading rest : spell_ok sp -> tail_ok rest ->
  token_at (print_clause (CSign leading true) sp ++ rest) = Some (Tok 9 (gmap (bindings (CSign leading true) sp)), rest).
Proof.
  intros S T. cbn [print_clause bindings opt gmap map fst snd]. assoc. rewrite token_at_unfold.
  pose proof (sign_at_printed sp leading rest S T) as A.
  assert (NS : nsp (kw sp 2 (sign_word leading) ++ separate_text sp ++ rest)) by (apply nsp_cased; destruct leading; (discriminate || reflexivity)).
  assert (I1 : opt_word_sp true W_IS (kw sp 2 (sign_word leading) ++ separate_text sp ++ rest) = [kw sp 2 (sign_word leading) ++ separate_text sp ++ rest]).
  { unfold kw, W_IS. destruct leading; cbn [sign_word]; [unfold K_LEADING|unfold K_TRAILING]; apply opt_word_sp_kw_ne; (reflexivity || lia). }
  unfold intro. destruct (chN sp 0) as [|[p|p|]]; cbn [app]; assoc.
  - (* bare LEADING / TRAILING *)
    assert (P : prefix2 true W_SIGN true W_IS (kw sp 2 (sign_word leading) ++ separate_text sp ++ rest) = [kw sp 2 (sign_word leading) ++ separate_text sp ++ rest]).
    { unfold prefix2. assert (O : opt_word_sp true W_SIGN (kw sp 2 (sign_word leading) ++ separate_text sp ++ rest) = [kw sp 2 (sign_word leading) ++ separate_text sp ++ rest]).
      { unfold kw, W_SIGN. destruct leading; cbn [sign_word]; [unfold K_LEADING|unfold K_TRAILING]; apply opt_word_sp_kw_ne; (reflexivity || lia). }
      rewrite O. cbn [flat_map]. rewrite I1. reflexivity. }
    destruct leading; cbn [sign_word] in *; unfold kw at 1; [unfold K_LEADING|unfold K_TRAILING]; skip_alts; apply try_alts_yes;
      [change (cased (nth 2 (masks sp) []) [76; 69; 65; 68; 73; 78; 71]) with (kw sp 2 K_LEADING)
      |change (cased (nth 2 (masks sp) []) [84; 82; 65; 73; 76; 73; 78; 71]) with (kw sp 2 K_TRAILING)];
      cbn [alt]; unfold alt_sign, sign_word_opt, sign_is_opt; rewrite P; cbn [first_some]; rewrite A; reflexivity.
  - (* SIGN IS *)
    unfold kw at 1, K_SIGN. skip_alts. apply try_alts_yes. cbn [alt]. unfold alt_sign, sign_word_opt, sign_is_opt, prefix2.
    change (cased (nth 0 (masks sp) []) [83; 73; 71; 78]) with (kw sp 0 W_SIGN).
    unfold opt_word_sp at 2. rewrite word_sp_printed; [|exact S|reflexivity|apply nsp_cased; [discriminate|reflexivity]].
    cbn [flat_map]. unfold opt_word_sp at 1. change K_IS with W_IS. rewrite word_sp_printed; [|exact S|reflexivity|exact NS].
    cbn [app first_some]. rewrite A. reflexivity.
  - unfold kw at 1, K_SIGN. skip_alts. apply try_alts_yes. cbn [alt]. unfold alt_sign, sign_word_opt, sign_is_opt, prefix2.
    change (cased (nth 0 (masks sp) []) [83; 73; 71; 78]) with (kw sp 0 W_SIGN).
    unfold opt_word_sp at 2. rewrite word_sp_printed; [|exact S|reflexivity|apply nsp_cased; [discriminate|reflexivity]].
    cbn [flat_map]. unfold opt_word_sp at 1. change K_IS with W_IS. rewrite word_sp_printed; [|exact S|reflexivity|exact NS].
    cbn [app first_some]. rewrite A. reflexivity.
  - (* SIGN *)
    unfold kw at 1, K_SIGN. skip_alts. apply try_alts_yes. cbn [alt]. unfold alt_sign, sign_word_opt, sign_is_opt, prefix2.
    change (cased (nth 0 (masks sp) []) [83; 73; 71; 78]) with (kw sp 0 W_SIGN).
    unfold opt_word_sp at 2. rewrite word_sp_printed; [|exact S|reflexivity|exact NS].
    cbn [flat_map]. rewrite I1. cbn [app first_some]. rewrite A. reflexivity.
Qed.

Lemma word_sp_tail w rest : In w lookahead_words -> tail_ok rest ->
  match sp1 rest with Some r => word_sp w r | None => None end = None.
Proof.
  intros I [->|(s & r & -> & S & Rn & C)]; [reflexivity|]. rewrite (sp1_sep s r S Rn). unfold word_sp. rewrite (C w I). reflexivity.
Qed.

Lemma digits_name n : digits_ok n = true -> n <> [] /\ forallb name_char n = true.
Proof.
  unfold digits_ok. intros D. apply andb_true_iff in D as [D0 D1]. split; [destruct n; [discriminate|congruence]|].
  clear D0. induction n as [|c n IH]; [reflexivity|]. cbn [forallb] in *. apply andb_true_iff in D1 as [D1 D2].
  rewrite (IH D2), andb_true_r. unfold name_char. rewrite D1. rewrite orb_true_r. reflexivity.
Qed.

(* the text after the number of a plain OCCURS clause: [separator TIMES] then a clean tail *)
Definition occ_tail (sp : cspell) (i j : nat) (b : bool) (rest : list N) : list N := opt b (sep sp i ++ kw sp j K_TIMES) ++ rest.

Lemma occ_tail_follow sp i j b rest : spell_ok sp -> tail_ok rest -> follow (occ_tail sp i j b rest).
Proof.
  intros S T. unfold occ_tail. destruct b; cbn [opt app]; [assoc; apply sepstr_follow; apply sep_sepstr; exact S|apply tail_ok_follow; exact T].
Qed.

Lemma occ_tail_times sp i j b rest : spell_ok sp -> tail_ok rest -> times_part true (occ_tail sp i j b rest) = Some rest.
Proof.
  intros S T. unfold occ_tail. destruct b; cbn [opt app]; [assoc; apply times_part_printed; exact S|apply times_part_omitted; exact T].
Qed.

Lemma occ_tail_no_word sp i j b rest w : spell_ok sp -> tail_ok rest -> In w lookahead_words -> mismatch w K_TIMES = true ->
  match sp1 (occ_tail sp i j b rest) with Some r => word_sp w r | None => None end = None.
Proof.
  intros S T I M. unfold occ_tail. destruct b; cbn [opt app].
  - assoc. rewrite (sp1_sep _ _ (sep_sepstr sp i S)) by (apply nsp_cased; [discriminate|reflexivity]).
    unfold kw. apply word_sp_mismatch; [reflexivity|exact M].
  - apply word_sp_tail; assumption.
Qed.

Lemma odo_with_min_plain sp i j b n rest : spell_ok sp -> digits_ok n = true -> tail_ok rest ->
  odo_with_min (n ++ occ_tail sp i j b rest) = None.
Proof.
  intros S D T. unfold odo_with_min. rewrite (digits1_app n _ D (occ_tail_follow sp i j b rest S T)). cbv beta iota.
  pose proof (occ_tail_no_word sp i j b rest W_TO S T ltac:(look) eq_refl) as Q.
  destruct (sp1 (occ_tail sp i j b rest)); [rewrite Q|]; reflexivity.
Qed.

Lemma odo_from_max_plain sp i j b g n rest : spell_ok sp -> digits_ok n = true -> tail_ok rest ->
  odo_from_max g (n ++ occ_tail sp i j b rest) = None.
Proof.
  intros S D T. unfold odo_from_max. rewrite (digits1_app n _ D (occ_tail_follow sp i j b rest S T)). cbv beta iota.
  unfold times_odo_opt. rewrite (occ_tail_times sp i j b rest S T).
  pose proof (word_sp_tail W_DEPENDING rest ltac:(look) T) as Q. destruct (sp1 rest); [rewrite Q|]; reflexivity.
Qed.

Lemma tok_occurs sp n rest : spell_ok sp -> digits_ok n = true -> tail_ok rest ->
  token_at (print_clause (COccurs n None) sp ++ rest) = Some (Tok 7 (gmap (bindings (COccurs n None) sp)), rest).
Proof.
  intros S D T. cbn [print_clause print_ix bindings gmap map fst snd]. rewrite app_nil_r. assoc. rewrite token_at_unfold.
  change (opt (chb sp 0) (sep sp 1 ++ kw sp 1 K_TIMES) ++ rest) with (occ_tail sp 1 1 (chb sp 0) rest).
  pose proof (occ_tail_follow sp 1 1 (chb sp 0) rest S T) as FX.
  destruct (digits_name n D) as [N0 N1].
  assert (NX : nsp (n ++ occ_tail sp 1 1 (chb sp 0) rest)) by (apply nsp_name; assumption).
  unfold kw at 1, K_OCCURS. skip_alts.
  change (cased (nth 0 (masks sp) []) [79; 67; 67; 85; 82; 83]) with (kw sp 0 W_OCCURS).
  rewrite try_alts_no.
  2:{ cbn [alt]. unfold alt_odo. rewrite word_sp_printed; [|exact S|reflexivity|exact NX].
      rewrite (odo_with_min_plain sp 1 1 _ n rest S D T), (odo_from_max_plain sp 1 1 _ [] n rest S D T). reflexivity. }
  apply try_alts_yes. cbn [alt]. unfold alt_occurs. rewrite word_sp_printed; [|exact S|reflexivity|exact NX].
  rewrite (digits1_app n _ D FX). cbv beta iota. unfold times_occ_opt. rewrite (occ_tail_times sp 1 1 _ rest S T).
  apply with_key_tail_clean. exact T.
Qed.

(* ---- data names against literals ---- *)
Lemma lit_name_split : forall w n rest r, kword w = true -> forallb name_char n = true -> follow rest ->
  lit w (n ++ rest) = Some r -> ci_prefix w n = true /\ r = skipn (length w) n ++ rest /\ (length w <= length n)%nat.
Proof.
  induction w as [|x w IH]; intros n rest r K A F L.
  - cbn [lit] in L. injection L as <-. repeat split. cbn [length]. lia.
  - destruct n as [|c n].
    + cbn [app] in L. rewrite lit_follow in L; [discriminate|exact K|discriminate|exact F].
    + cbn [kword forallb] in K, A. apply andb_true_iff in K as [_ K]. apply andb_true_iff in A as [Ac A].
      cbn [app lit] in L. rewrite (name_char_up c Ac) in L. destruct (upper c =? x) eqn:E; [|discriminate].
      destruct (IH n rest r K A F L) as (P & R & Ln). cbn [ci_prefix skipn length]. rewrite E, P. repeat split; [exact R|lia].
Qed.

Lemma ci_equal_reserved w n : In w reserved_words -> ci_prefix w n = true -> length w = length n -> is_reserved n = true.
Proof.
  intros I P L. unfold is_reserved. apply existsb_exists. exists w. split; [exact I|]. unfold ci_equal. rewrite P, L. apply Nat.eqb_refl.
Qed.

Lemma name_ok_parts n : name_ok n = true -> n <> [] /\ forallb name_char n = true /\ is_reserved n = false /\ keyword_prefixed n = false.
Proof.
  unfold name_ok. intros H. apply andb_true_iff in H as [H H4]. apply andb_true_iff in H as [H H3]. apply andb_true_iff in H as [H1 H2].
  repeat split; [destruct n; [discriminate|congruence]|exact H2|destruct (is_reserved n); [discriminate|reflexivity]|
                 destruct (keyword_prefixed n); [discriminate|reflexivity]].
Qed.

Lemma forallb_skipn {A} (p : A -> bool) k l : forallb p l = true -> forallb p (skipn k l) = true.
Proof.
  revert l. induction k as [|k IH]; intros l H; [exact H|]. destruct l as [|a l]; [reflexivity|].
  cbn [skipn]. cbn [forallb] in H. apply andb_true_iff in H as [_ H]. apply IH. exact H.
Qed.

(* after a reserved word matched at the start of a data name, the name goes on *)
Lemma lit_name_goes_on w n rest r : kword w = true -> In w reserved_words -> name_ok n = true -> follow rest ->
  lit w (n ++ rest) = Some r -> exists c t, r = c :: t /\ name_char c = true.
Proof.
  intros K I N F L. destruct (name_ok_parts n N) as (N0 & A & R & _).
  destruct (lit_name_split w n rest r K A F L) as (P & E & Ln).
  destruct (skipn (length w) n) as [|c t] eqn:Sk.
  - assert (length n <= length w)%nat. { destruct (Nat.le_gt_cases (length n) (length w)) as [|G]; [assumption|].
      assert (length (skipn (length w) n) = (length n - length w)%nat) by apply skipn_length. rewrite Sk in H. cbn in H. lia. }
    rewrite (ci_equal_reserved w n I P) in R; [discriminate|lia].
  - exists c, (t ++ rest). split; [subst r; reflexivity|].
    pose proof (forallb_skipn name_char (length w) n A) as Q. rewrite Sk in Q. cbn [forallb] in Q. apply andb_true_iff in Q as [Q _]. exact Q.
Qed.

Lemma word_sp_name_none w n rest : kword w = true -> In w reserved_words -> name_ok n = true -> follow rest -> word_sp w (n ++ rest) = None.
Proof.
  intros K I N F. unfold word_sp. destruct (lit w (n ++ rest)) as [r|] eqn:L; [|reflexivity].
  destruct (lit_name_goes_on w n rest r K I N F L) as (c & t & -> & C).
  unfold sp1. rewrite (plus1_fail is_sp c t (name_char_not_sp c C)). reflexivity.
Qed.

Ltac reserved := unfold reserved_words; cbn [In]; tauto.

Lemma dep_name_printed sp dep rest : spell_ok sp -> name_ok dep = true -> follow rest ->
  dep_name (opt (chb sp 1) (kw sp 4 K_ON ++ sep sp 6) ++ dep ++ rest) = Some (dep, rest).
Proof.
  intros S N F. destruct (name_ok_parts dep N) as (N0 & A & _ & _). unfold dep_name.
  destruct (chb sp 1); cbn [opt app]; assoc.
  - change K_ON with W_ON. rewrite word_sp_printed; [|exact S|reflexivity|apply nsp_name; assumption].
    rewrite name1_app by assumption. reflexivity.
  - rewrite (word_sp_name_none W_ON dep rest) by (reflexivity || reserved || assumption).
    unfold on_opt. apply name1_app; assumption.
Qed.

Lemma odo_from_max_printed sp g mx dep rest : spell_ok sp -> digits_ok mx = true -> name_ok dep = true -> follow rest ->
  odo_from_max g (mx ++ opt (chb sp 0) (sep sp 3 ++ kw sp 2 K_TIMES) ++ sep sp 4 ++ kw sp 3 K_DEPENDING ++ sep sp 5
                    ++ opt (chb sp 1) (kw sp 4 K_ON ++ sep sp 6) ++ dep ++ rest)
  = Some (g ++ [(KOdoMax, mx); (KDepending, dep)], rest).
Proof.
  intros S D N F. destruct (name_ok_parts dep N) as (N0 & A & _ & _).
  set (Z := opt (chb sp 1) (kw sp 4 K_ON ++ sep sp 6) ++ dep ++ rest).
  assert (NZ : nsp Z).
  { unfold Z. destruct (chb sp 1); cbn [opt app]; assoc; [apply nsp_cased; [discriminate|reflexivity]|apply nsp_name; assumption]. }
  set (Y := sep sp 4 ++ kw sp 3 K_DEPENDING ++ sep sp 5 ++ Z).
  assert (ND : nsp (kw sp 3 K_DEPENDING ++ sep sp 5 ++ Z)) by (apply nsp_cased; [discriminate|reflexivity]).
  assert (TP : times_part true (opt (chb sp 0) (sep sp 3 ++ kw sp 2 K_TIMES) ++ Y) = Some Y).
  { destruct (chb sp 0); cbn [opt app]; [assoc; apply times_part_printed; exact S|].
    unfold times_part, Y. rewrite (sp1_sep _ _ (sep_sepstr sp 4 S) ND). unfold kw. rewrite (lit_mismatch W_TIMES K_DEPENDING) by reflexivity. reflexivity. }
  assert (FY : follow (opt (chb sp 0) (sep sp 3 ++ kw sp 2 K_TIMES) ++ Y)).
  { destruct (chb sp 0); cbn [opt app]; [assoc|unfold Y]; apply sepstr_follow; apply sep_sepstr; exact S. }
  unfold odo_from_max. rewrite (digits1_app mx _ D FY). cbv beta iota. unfold times_odo_opt. rewrite TP.
  unfold Y at 1. rewrite (sp1_sep _ _ (sep_sepstr sp 4 S) ND). change K_DEPENDING with W_DEPENDING.
  rewrite word_sp_printed; [|exact S|reflexivity|exact NZ]. unfold Z. rewrite (dep_name_printed sp dep rest S N F). reflexivity.
Qed.

Lemma tok_odo sp mn mx dep rest : spell_ok sp -> (match mn with Some m => digits_ok m | None => true end) = true ->
  digits_ok mx = true -> name_ok dep = true -> tail_ok rest ->
  token_at (print_clause (COdo mn mx dep None) sp ++ rest) = Some (Tok 6 (gmap (bindings (COdo mn mx dep None) sp)), rest).
Proof.
  intros S Dm D N T. pose proof (tail_ok_follow rest T) as F.
  cbn [print_clause print_ix bindings]. rewrite app_nil_r. assoc. rewrite token_at_unfold.
  set (M := mx ++ opt (chb sp 0) (sep sp 3 ++ kw sp 2 K_TIMES) ++ sep sp 4 ++ kw sp 3 K_DEPENDING ++ sep sp 5
                    ++ opt (chb sp 1) (kw sp 4 K_ON ++ sep sp 6) ++ dep ++ rest).
  assert (PM : forall g, odo_from_max g M = Some (g ++ [(KOdoMax, mx); (KDepending, dep)], rest)).
  { intros g. apply odo_from_max_printed; assumption. }
  destruct (digits_name mx D) as [X0 X1].
  assert (NM : nsp M) by (apply nsp_name; assumption).
  unfold kw at 1, K_OCCURS. skip_alts. apply try_alts_yes.
  change (cased (nth 0 (masks sp) []) [79; 67; 67; 85; 82; 83]) with (kw sp 0 W_OCCURS).
  cbn [alt]. unfold alt_odo. destruct mn as [m|]; assoc.
  - destruct (digits_name m Dm) as [M0 M1].
    rewrite word_sp_printed; [|exact S|reflexivity|apply nsp_name; assumption].
    unfold odo_with_min. rewrite (digits1_app m) by (assumption || (apply sepstr_follow; apply sep_sepstr; exact S)). cbv beta iota.
    rewrite (sp1_sep _ _ (sep_sepstr sp 1 S)) by (apply nsp_cased; [discriminate|reflexivity]).
    change K_TO with W_TO. rewrite word_sp_printed; [|exact S|reflexivity|exact NM].
    fold M. rewrite PM. cbn [gmap map app fst snd]. apply with_key_tail_clean. exact T.
  - cbn [app]. rewrite word_sp_printed; [|exact S|reflexivity|exact NM].
    assert (W : odo_with_min M = None).
    { unfold odo_with_min, M.
      assert (FY : follow (opt (chb sp 0) (sep sp 3 ++ kw sp 2 K_TIMES) ++ sep sp 4 ++ kw sp 3 K_DEPENDING ++ sep sp 5
                    ++ opt (chb sp 1) (kw sp 4 K_ON ++ sep sp 6) ++ dep ++ rest)).
      { destruct (chb sp 0); cbn [opt app]; assoc; apply sepstr_follow; apply sep_sepstr; exact S. }
      rewrite (digits1_app mx _ D FY). cbv beta iota.
      destruct (chb sp 0); cbn [opt app]; assoc.
      - rewrite (sp1_sep _ _ (sep_sepstr sp 3 S)) by (apply nsp_cased; [discriminate|reflexivity]).
        unfold kw at 1. rewrite (word_sp_mismatch W_TO K_TIMES) by reflexivity. reflexivity.
      - rewrite (sp1_sep _ _ (sep_sepstr sp 4 S)) by (apply nsp_cased; [discriminate|reflexivity]).
        unfold kw at 1. rewrite (word_sp_mismatch W_TO K_DEPENDING) by reflexivity. reflexivity. }
    rewrite W, PM. cbn [gmap map app fst snd]. apply with_key_tail_clean. exact T.
Qed.

(* ---- picture strings and VALUE words ---- *)
Definition blank_tail (rest : list N) : Prop := rest = [] \/ exists c t, rest = c :: t /\ is_blank c = true.

Lemma nonws1_word p rest : p <> [] -> forallb printable_char p = true -> blank_tail rest -> nonws1 (p ++ rest) = Some (p, rest).
Proof.
  intros N A B. unfold nonws1. apply plus1_app; [exact N| |].
  - clear N. induction p as [|c p IH]; [reflexivity|]. cbn [forallb] in *. apply andb_true_iff in A as [A1 A2].
    unfold non_ws at 1. rewrite (printable_not_ws c A1), (IH A2). reflexivity.
  - destruct B as [->|(c & t & -> & B)]; [left; reflexivity|right]. exists c, t. split; [reflexivity|].
    unfold non_ws. rewrite (blank_is_ws c B). reflexivity.
Qed.

Lemma printable_lt c : printable_char c = true -> c <? 128 = true.
Proof. unfold printable_char. lia. Qed.

(* a word that starts with a printable character other than I, comma, semicolon, bar *)
Lemma word_start c t x : printable_char c = true -> upper c <> 73 -> s_mem c [124; 44; 59] = false ->
  nsp ((c :: t) ++ x) /\ lit W_IS ((c :: t) ++ x) = None.
Proof.
  intros P U M. split.
  - cbn [app]. apply nsp_cons. rewrite (printable_sp c P). exact M.
  - cbn [app]. unfold W_IS. apply lit_first_ne. rewrite (up_ascii c (printable_lt c P)). exact U.
Qed.

Lemma is_then_printed {sp} (b : bool) body v rest x : spell_ok sp -> nsp (v ++ rest) -> lit W_IS (v ++ rest) = None ->
  body (v ++ rest) = Some x -> is_then true body (opt b (kw sp 1 K_IS ++ sep sp 1) ++ v ++ rest) = Some x.
Proof.
  intros S Nv L B. unfold is_then. destruct b; cbn [opt app]; assoc.
  - unfold kw. change K_IS with W_IS. kwlit. rewrite (plus_bt_sep _ _ body x (sep_sepstr sp 1 S) Nv B). reflexivity.
  - rewrite L. exact B.
Qed.

Lemma is_then_nsp sp (b : bool) v rest : nsp (v ++ rest) -> nsp (opt b (kw sp 1 K_IS ++ sep sp 1) ++ v ++ rest).
Proof. intros H. destruct b; cbn [opt app]; [assoc; apply nsp_cased; [discriminate|reflexivity]|exact H]. Qed.

Lemma pic_ok_parts p : pic_ok p = true ->
  p <> [] /\ forallb printable_char p = true /\ forall x, nsp (p ++ x) /\ lit W_IS (p ++ x) = None.
Proof.
  destruct p as [|c t]; [discriminate|]. cbn [pic_ok]. intros H. apply andb_true_iff in H as [H A]. apply andb_true_iff in H as [H1 H2].
  assert (AP : forallb printable_char (c :: t) = true).
  { clear H1 H2. induction (c :: t) as [|d l IH]; [reflexivity|]. cbn [forallb] in *. apply andb_true_iff in A as [A1 A2].
    rewrite (IH A2), andb_true_r. unfold pic_char in A1. unfold printable_char. lia. }
  split; [congruence|]. split; [exact AP|]. intros x. cbn [forallb] in A, AP. apply andb_true_iff in A as [A1 _]. apply andb_true_iff in AP as [P1 _].
  apply word_start; [exact P1|destruct (N.eqb_spec (upper c) 73); [discriminate|assumption]|].
  unfold pic_char in A1. unfold s_mem, existsb in *. lia.
Qed.

Lemma tok_picture sp p rest : spell_ok sp -> pic_ok p = true -> blank_tail rest ->
  token_at (print_clause (CPicture p) sp ++ rest) = Some (Tok 8 (gmap (bindings (CPicture p) sp)), rest).
Proof.
  intros S P B. destruct (pic_ok_parts p P) as (P0 & PA & PW). destruct (PW rest) as [Np Lp].
  cbn [print_clause bindings gmap map fst snd]. assoc. rewrite token_at_unfold.
  pose proof (@is_then_printed sp (chb sp 1) nonws1 p rest (p, rest) S Np Lp (nonws1_word p rest P0 PA B)) as IT.
  pose proof (is_then_nsp sp (chb sp 1) p rest Np) as NI.
  pose proof (plus_bt_sep (sep sp 0) _ (is_then true nonws1) (p, rest) (sep_sepstr sp 0 S) NI IT) as PB.
  destruct (pic_word_cases (chN sp 0)) as [-> | ->]; unfold kw at 1.
  - unfold K_PIC. skip_alts. apply try_alts_yes. cbn [alt]. unfold alt_picture, pic_words, pic_is_opt. cbn [first_some].
    kwlit. rewrite PB. reflexivity.
  - unfold K_PICTURE. skip_alts. apply try_alts_yes. cbn [alt]. unfold alt_picture, pic_words, pic_is_opt. cbn [first_some].
    rewrite (lit_shorter [80; 73; 67] [80; 73; 67; 84; 85; 82; 69]) by reflexivity. cbn [length skipn].
    rewrite cased_cons. cbn [app]. rewrite plus_bt_fail by (apply name_char_not_sp; apply kwc_cased_name; reflexivity).
    kwlit. rewrite PB. reflexivity.
Qed.

(* quoted literals *)
Definition noq (s : list N) : Prop := forallb (fun c => negb (s_mem c [39; 34])) s = true.

Lemma last_q_none q l : forallb (fun c => negb (c =? q)) l = true -> last_q q l = None.
Proof.
  induction l as [|c l IH]; [reflexivity|]. cbn [forallb last_q]. intros H. apply andb_true_iff in H as [H1 H2].
  rewrite (IH H2). destruct (c =? q); [discriminate|reflexivity].
Qed.

Lemma last_q_app q body l : last_q q l = None -> last_q q (body ++ q :: l) = Some (S (length body)).
Proof.
  intros H. induction body as [|c body IH]; cbn [app last_q length].
  - rewrite H, N.eqb_refl. reflexivity.
  - rewrite IH. reflexivity.
Qed.

Lemma span_app_all p a r : forallb p a = true -> span p (a ++ r) = (a ++ fst (span p r), snd (span p r)).
Proof.
  intros A. induction a as [|c a IH]; cbn [app]; [destruct (span p r); reflexivity|].
  cbn [forallb] in A. apply andb_true_iff in A as [A1 A2]. cbn [span]. rewrite A1, (IH A2). reflexivity.
Qed.

Lemma forallb_span_fst {p q : N -> bool} l : forallb q l = true -> forallb q (fst (span p l)) = true.
Proof.
  induction l as [|c l IH]; [reflexivity|]. cbn [forallb span]. intros H. apply andb_true_iff in H as [H1 H2].
  destruct (p c); [|reflexivity]. destruct (span p l) eqn:E. cbn [fst forallb] in *. rewrite H1, (IH H2). reflexivity.
Qed.

Lemma quoted_printed q body rest : s_mem q [39; 34] = true -> forallb (fun c => negb (c =? 10)) body = true -> noq rest ->
  quoted q ((q :: body ++ [q]) ++ rest) = Some (q :: body ++ [q], rest).
Proof.
  intros Q B NQ. cbn [app]. assoc. cbn [app quoted]. rewrite N.eqb_refl.
  assert (Qn : not_nl q = true) by (unfold not_nl, s_mem, existsb in *; lia).
  rewrite (span_app_all not_nl body (q :: rest)) by exact B. cbn [fst span]. rewrite Qn.
  destruct (span not_nl rest) as [l1 l2] eqn:E. cbn [fst].
  assert (L1 : last_q q l1 = None).
  { apply last_q_none. pose proof (@forallb_span_fst not_nl (fun c => negb (s_mem c [39; 34])) rest NQ) as F. rewrite E in F. cbn [fst] in F.
    clear E. induction l1 as [|c l IH]; [reflexivity|]. cbn [forallb] in *. apply andb_true_iff in F as [F1 F2]. rewrite (IH F2), andb_true_r.
    unfold s_mem, existsb in *. lia. }
  rewrite (last_q_app q body l1 L1).
  assert (E1 : firstn (S (length body)) (body ++ q :: rest) = body ++ [q]).
  { change (q :: rest) with ([q] ++ rest). rewrite app_assoc. replace (S (length body)) with (length (body ++ [q])) by (rewrite app_length; cbn; lia).
    rewrite firstn_app, Nat.sub_diag, firstn_all. cbn [firstn]. apply app_nil_r. }
  assert (E2 : skipn (S (length body)) (body ++ q :: rest) = rest).
  { change (q :: rest) with ([q] ++ rest). rewrite app_assoc. replace (S (length body)) with (length (body ++ [q])) by (rewrite app_length; cbn; lia).
    rewrite skipn_app, Nat.sub_diag, skipn_all. reflexivity. }
  rewrite E1, E2. reflexivity.
Qed.

Lemma quoted_ok_shape v : quoted_ok v = true ->
  exists q body, v = q :: body ++ [q] /\ s_mem q [39; 34] = true /\ forallb (fun c => negb (c =? 10)) body = true.
Proof.
  destruct v as [|q t]; [discriminate|]. cbn [quoted_ok]. intros H. apply andb_true_iff in H as [Q H].
  destruct (rev t) as [|q' rb] eqn:E; [discriminate|]. apply andb_true_iff in H as [H1 H2]. apply N.eqb_eq in H1. subst q'.
  exists q, (rev rb). split; [|split; [exact Q|]].
  - f_equal. rewrite <- (rev_involutive t), E. reflexivity.
  - rewrite forallb_forall in *. intros x I. apply H2. apply in_rev. exact I.
Qed.

Lemma value_body_printed v rest : value_ok v = true -> (if is_quoted v then noq rest else blank_tail rest) ->
  value_body (v ++ rest) = Some (v, rest) /\ nsp (v ++ rest) /\ lit W_IS (v ++ rest) = None.
Proof.
  unfold value_ok. destruct (is_quoted v) eqn:IQ; intros V T.
  - destruct (quoted_ok_shape v V) as (q & body & -> & Q & B).
    assert (q = 39 \/ q = 34) as [-> | ->] by (unfold s_mem, existsb in Q; lia).
    + split; [unfold value_body; rewrite quoted_printed by assumption; reflexivity|].
      split; [cbn [app]; apply nsp_cons; vm_compute; reflexivity|cbn [app]; apply lit_first_ne; vm_compute; discriminate].
    + split; [unfold value_body; rewrite quoted_printed by assumption; reflexivity|].
      split; [cbn [app]; apply nsp_cons; vm_compute; reflexivity|cbn [app]; apply lit_first_ne; vm_compute; discriminate].
  - destruct v as [|c t]; [discriminate|]. cbn [word_ok] in V. apply andb_true_iff in V as [U A].
    assert (AP : forallb printable_char (c :: t) = true).
    { clear U IQ. induction (c :: t) as [|d l IH]; [reflexivity|]. cbn [forallb] in *. apply andb_true_iff in A as [A1 A2].
      rewrite (IH A2), andb_true_r. unfold word_char in A1. unfold printable_char. lia. }
    cbn [forallb] in A, AP. apply andb_true_iff in A as [A1 _]. pose proof AP as AP'. apply andb_true_iff in AP as [P1 _].
    assert (NQ : s_mem c [39; 34] = false) by exact IQ.
    split.
    + unfold value_body, quoted. cbn [app]. unfold s_mem, existsb in NQ.
      destruct (N.eqb_spec c 39); [lia|]. destruct (N.eqb_spec c 34); [lia|]. apply (nonws1_word (c :: t) rest); [congruence|exact AP'|exact T].
    + apply word_start; [exact P1|destruct (N.eqb_spec (upper c) 73); [discriminate|assumption]|].
      unfold word_char in A1. unfold s_mem, existsb in *. lia.
Qed.

Lemma tok_value sp v rest : spell_ok sp -> value_ok v = true -> (if is_quoted v then noq rest else blank_tail rest) ->
  token_at (print_clause (CValue v) sp ++ rest) = Some (Tok 12 (gmap (bindings (CValue v) sp)), rest).
Proof.
  intros S V T. destruct (value_body_printed v rest V T) as (VB & Nv & Lv).
  cbn [print_clause bindings gmap map fst snd]. assoc. rewrite token_at_unfold.
  pose proof (@is_then_printed sp (chb sp 0) value_body v rest (v, rest) S Nv Lv VB) as IT.
  pose proof (is_then_nsp sp (chb sp 0) v rest Nv) as NI.
  pose proof (plus_bt_sep (sep sp 0) _ (is_then true value_body) (v, rest) (sep_sepstr sp 0 S) NI IT) as PB.
  unfold kw at 1, K_VALUE. skip_alts. apply try_alts_yes. cbn [alt]. unfold alt_value, value_is_opt. kwlit. rewrite PB. reflexivity.
Qed.

(* ---- usage words: the ordered alternation with the lookahead ---- *)
Fixpoint sim (ws : list str) (w : str) : bool :=
  match ws with
  | [] => false
  | u :: r => if SR.Spec.Clauses.str_eqb u w then true
              else if prefixb u w && negb (nth (length u) w 0 =? 45) then false
              else sim r w
  end.

Lemma spec_str_eqb_eq a b : SR.Spec.Clauses.str_eqb a b = true -> a = b.
Proof.
  revert b. induction a as [|x a IH]; intros [|y b] H; try discriminate; [reflexivity|].
  cbn [SR.Spec.Clauses.str_eqb] in H. apply andb_true_iff in H as [H1 H2]. apply N.eqb_eq in H1. subst. f_equal. apply IH. exact H2.
Qed.

Lemma spec_str_eqb_refl a : SR.Spec.Clauses.str_eqb a a = true.
Proof. induction a as [|x a IH]; [reflexivity|]. cbn [SR.Spec.Clauses.str_eqb]. rewrite N.eqb_refl, IH. reflexivity. Qed.

Lemma prefixb_split : forall u w, prefixb u w = true -> (u = w) \/ exists y t, skipn (length u) w = y :: t /\ nth (length u) w 0 = y.
Proof.
  induction u as [|x u IH]; intros w P.
  - destruct w as [|y t]; [left; reflexivity|right; exists y, t; split; reflexivity].
  - destruct w as [|y t]; [discriminate|]. cbn [prefixb] in P. apply andb_true_iff in P as [E P]. apply N.eqb_eq in E. subst y.
    destruct (IH t P) as [->|(y & t' & E1 & E2)]; [left; reflexivity|right; exists y, t'; split; assumption].
Qed.

Lemma not_prefix : forall u w, prefixb u w = false -> mismatch u w = true \/ (prefixb w u = true /\ (length w < length u)%nat).
Proof.
  induction u as [|x u IH]; intros w P; [discriminate|].
  destruct w as [|y t]; [right; split; [reflexivity|cbn; lia]|].
  cbn [prefixb mismatch] in *. destruct (y =? x) eqn:E; [|left; reflexivity].
  cbn [andb] in P. destruct (IH t P) as [M|[Q L]]; [left; exact M|right].
  apply N.eqb_eq in E. subst. rewrite N.eqb_refl. cbn [andb length]. split; [exact Q|lia].
Qed.

Lemma lit_not_prefix u w m rest : kword u = true -> kword w = true -> follow rest -> prefixb u w = false -> lit u (cased m w ++ rest) = None.
Proof.
  intros Ku Kw F P. destruct (not_prefix u w P) as [M|[Q L]]; [apply lit_mismatch; assumption|apply lit_longer; assumption].
Qed.

Lemma guard_follow rest : follow rest -> guard_ok rest = true.
Proof.
  intros [->|(c & t & -> & S)]; [reflexivity|]. unfold guard_ok, usage_guard. destruct (sepc_cases c S) as [->|[->|[->|[->|[->| ->]]]]]; reflexivity.
Qed.

Lemma usage_first : forall ws m w rest, kword w = true -> forallb kword ws = true -> follow rest -> sim ws w = true ->
  first_some (fun u => match lit u (cased m w ++ rest) with
                       | Some r1 => if guard_ok r1 then Some ([(KUsage, firstn (length u) (cased m w ++ rest))], r1) else None
                       | None => None
                       end) ws = Some ([(KUsage, cased m w)], rest).
Proof.
  induction ws as [|u ws IH]; intros m w rest K A F Sm; [discriminate|].
  cbn [forallb] in A. apply andb_true_iff in A as [Ku A]. cbn [sim first_some] in *.
  destruct (SR.Spec.Clauses.str_eqb u w) eqn:E.
  - apply spec_str_eqb_eq in E. subst u. rewrite lit_cased by exact K. rewrite (guard_follow rest F), firstn_cased. reflexivity.
  - destruct (prefixb u w) eqn:P.
    + destruct (prefixb_split u w P) as [->|(y & t & E1 & E2)]; [rewrite spec_str_eqb_refl in E; discriminate|].
      rewrite E2 in Sm. cbn [andb] in Sm. destruct (y =? 45) eqn:Y; [|discriminate]. apply N.eqb_eq in Y. subst y.
      rewrite (lit_shorter u w m rest K P), E1. rewrite cased_cons. cbn [app].
      replace (if hd false (skipn (length u) m) then lower 45 else 45) with 45 by (destruct (hd false (skipn (length u) m)); reflexivity).
      unfold guard_ok at 1, usage_guard. cbn [N.eqb Pos.eqb negb]. apply IH; assumption.
    + rewrite (lit_not_prefix u w m rest Ku K F P). cbn [andb] in Sm. apply IH; assumption.
Qed.

Definition all_usage_words : list str := concat usage_table.

Lemma usage_word_in fam i : In (usage_word fam i) all_usage_words.
Proof.
  unfold usage_word, usage_rep, all_usage_words.
  assert (I : In (usage_family fam) usage_table).
  { unfold usage_family. destruct (nth_in_or_default (N.to_nat fam) usage_table [K_DISPLAY]) as [I|E]; [exact I|rewrite E; left; reflexivity]. }
  apply in_concat. exists (usage_family fam). split; [exact I|].
  destruct (nth_in_or_default (N.to_nat i) (usage_family fam) (hd K_DISPLAY (usage_family fam))) as [J|E]; [exact J|rewrite E].
  unfold usage_table in I. cbn [In] in I. repeat destruct I as [I|I]; try contradiction; rewrite <- I; left; reflexivity.
Qed.

Lemma usage_words_checked :
  forallb (fun w => kword w && sim usage_words w && mismatch W_USAGE w && mismatch W_IS w && negb (match w with [] => true | _ => false end))
          all_usage_words = true.
Proof. vm_compute. reflexivity. Qed.

Lemma usage_word_facts w : In w all_usage_words ->
  kword w = true /\ sim usage_words w = true /\ mismatch W_USAGE w = true /\ mismatch W_IS w = true /\ w <> [].
Proof.
  intros I. pose proof usage_words_checked as C. rewrite forallb_forall in C. specialize (C w I).
  repeat (apply andb_true_iff in C as [C ?]). repeat split; try assumption. destruct w; [discriminate|congruence].
Qed.

Lemma usage_at_printed m w rest : In w all_usage_words -> follow rest -> usage_at (cased m w ++ rest) = Some ([(KUsage, cased m w)], rest).
Proof.
  intros I F. destruct (usage_word_facts w I) as (K & Sm & _). unfold usage_at. apply usage_first; [exact K| |exact F|exact Sm].
  vm_compute. reflexivity.
Qed.

Lemma alt_blank_mismatch m w r : kword w = true -> mismatch W_BLANK w = true -> alt 2 (cased m w ++ r) = ANo.
Proof. intros K M. cbn [alt]. unfold alt_blank. rewrite (word_sp_mismatch W_BLANK w m r K M). reflexivity. Qed.

Lemma alt_picture_mismatch m w r : kword w = true -> forallb (fun u => mismatch u w) pic_words = true -> alt 8 (cased m w ++ r) = ANo.
Proof.
  intros K M. cbn [alt]. unfold alt_picture. unfold pic_words in *. cbn [forallb first_some] in *.
  apply andb_true_iff in M as [M1 M]. apply andb_true_iff in M as [M2 _].
  rewrite (lit_mismatch _ w m r K M1), (lit_mismatch _ w m r K M2). reflexivity.
Qed.

Lemma usage_bare_alts m w rest : In w all_usage_words ->
  try_alts [0; 1; 2; 3; 4; 5; 6; 7; 8; 9; 10; 11; 12; 13; 14] (cased m w ++ rest) = try_alts [11; 12; 13; 14] (cased m w ++ rest).
Proof.
  intros I. unfold all_usage_words, usage_table in I. cbn [concat app In] in I.
  repeat destruct I as [I|I]; try contradiction; subst w;
    match goal with |- context [cased m ?W] => let W' := eval cbv in W in change W with W' end;
    skip_alts; try (rewrite try_alts_no by (apply alt_blank_mismatch; reflexivity)); skip_alts;
    try (rewrite try_alts_no by (apply alt_picture_mismatch; reflexivity)); skip_alts; reflexivity.
Qed.

Lemma tok_usage sp fam rest : spell_ok sp -> follow rest ->
  token_at (print_clause (CUsage fam) sp ++ rest) = Some (Tok 11 (gmap (bindings (CUsage fam) sp)), rest).
Proof.
  intros S F. cbn [print_clause bindings gmap map fst snd]. assoc. rewrite token_at_unfold.
  set (w := usage_word fam (chN sp 1)). pose proof (usage_word_in fam (chN sp 1)) as I. fold w in I.
  destruct (usage_word_facts w I) as (K & _ & MU & MI & N0).
  pose proof (usage_at_printed (nth 2 (masks sp) []) w rest I F) as U. fold (kw sp 2 w) in U.
  assert (NW : nsp (kw sp 2 w ++ rest)) by (apply nsp_cased; assumption).
  assert (I1 : opt_word_sp true W_IS (kw sp 2 w ++ rest) = [kw sp 2 w ++ rest]).
  { unfold opt_word_sp, kw. rewrite (word_sp_mismatch W_IS w _ rest K MI). reflexivity. }
  unfold intro. destruct (chN sp 0) as [|[p|p|]]; cbn [app]; assoc.
  - unfold kw at 1. rewrite usage_bare_alts by exact I. apply try_alts_yes. fold (kw sp 2 w).
    cbn [alt]. unfold alt_usage, usage_word_opt, usage_is_opt, prefix2.
    unfold opt_word_sp at 2. unfold kw at 1. rewrite (word_sp_mismatch W_USAGE w _ rest K MU). fold (kw sp 2 w).
    cbn [flat_map]. rewrite I1. cbn [app first_some]. rewrite U. reflexivity.
  - unfold kw at 1, K_USAGE. skip_alts. apply try_alts_yes. cbn [alt]. unfold alt_usage, usage_word_opt, usage_is_opt, prefix2.
    change (cased (nth 0 (masks sp) []) [85; 83; 65; 71; 69]) with (kw sp 0 W_USAGE).
    unfold opt_word_sp at 2. rewrite word_sp_printed; [|exact S|reflexivity|apply nsp_cased; [discriminate|reflexivity]].
    cbn [flat_map]. unfold opt_word_sp at 1. change K_IS with W_IS. rewrite word_sp_printed; [|exact S|reflexivity|exact NW].
    cbn [app first_some]. rewrite U. reflexivity.
  - unfold kw at 1, K_USAGE. skip_alts. apply try_alts_yes. cbn [alt]. unfold alt_usage, usage_word_opt, usage_is_opt, prefix2.
    change (cased (nth 0 (masks sp) []) [85; 83; 65; 71; 69]) with (kw sp 0 W_USAGE).
    unfold opt_word_sp at 2. rewrite word_sp_printed; [|exact S|reflexivity|apply nsp_cased; [discriminate|reflexivity]].
    cbn [flat_map]. unfold opt_word_sp at 1. change K_IS with W_IS. rewrite word_sp_printed; [|exact S|reflexivity|exact NW].
    cbn [app first_some]. rewrite U. reflexivity.
  - unfold kw at 1, K_USAGE. skip_alts. apply try_alts_yes. cbn [alt]. unfold alt_usage, usage_word_opt, usage_is_opt, prefix2.
    change (cased (nth 0 (masks sp) []) [85; 83; 65; 71; 69]) with (kw sp 0 W_USAGE).
    unfold opt_word_sp at 2. rewrite word_sp_printed; [|exact S|reflexivity|exact NW].
    cbn [flat_map]. rewrite I1. cbn [app first_some]. rewrite U. reflexivity.
Qed.

(* ---- the data name: every keyword alternative fails on it ---- *)
Lemma ci_prefix_prefixb : forall g u n, prefixb g u = true -> ci_prefix u n = true -> ci_prefix g n = true.
Proof.
  induction g as [|x g IH]; intros u n P C; [reflexivity|].
  destruct u as [|y u]; [discriminate|]. cbn [prefixb] in P. apply andb_true_iff in P as [E P]. apply N.eqb_eq in E. subst y.
  destruct n as [|c n]; [discriminate|]. cbn [ci_prefix] in *. apply andb_true_iff in C as [C1 C2]. rewrite C1. apply (IH u n P C2).
Qed.

Lemma lit_glued_none u n rest : kword u = true -> existsb (fun g => prefixb g u) glued_words = true -> name_ok n = true -> follow rest ->
  lit u (n ++ rest) = None.
Proof.
  intros K G N F. destruct (name_ok_parts n N) as (_ & A & _ & KP).
  destruct (lit u (n ++ rest)) as [r|] eqn:L; [|reflexivity].
  destruct (lit_name_split u n rest r K A F L) as (P & _ & _).
  apply existsb_exists in G as (g & I & Pg).
  assert (keyword_prefixed n = true); [|congruence].
  unfold keyword_prefixed. apply existsb_exists. exists g. split; [exact I|apply (ci_prefix_prefixb g u n Pg P)].
Qed.

Lemma first_some_none {A B} (f : A -> option B) l : (forall x, In x l -> f x = None) -> first_some f l = None.
Proof.
  induction l as [|x l IH]; intros H; [reflexivity|]. cbn [first_some]. rewrite (H x (or_introl eq_refl)).
  apply IH. intros y I. apply H. right. exact I.
Qed.

Lemma lit_name_then_bt {R} w n rest (k : list N -> option R) : kword w = true -> In w reserved_words -> name_ok n = true -> follow rest ->
  match lit w (n ++ rest) with Some r => plus_bt is_sp r k | None => None end = None.
Proof.
  intros K I N F. destruct (lit w (n ++ rest)) as [r|] eqn:L; [|reflexivity].
  destruct (lit_name_goes_on w n rest r K I N F L) as (c & t & -> & C). apply plus_bt_fail. apply name_char_not_sp. exact C.
Qed.

Lemma usage_words_glued : forallb (fun u => kword u && existsb (fun g => prefixb g u) glued_words) usage_words = true.
Proof. vm_compute. reflexivity. Qed.

Lemma name_alts n rest : name_ok n = true -> follow rest -> forall id, In id keyword_alts -> alt id (n ++ rest) = ANo.
Proof.
  intros N F id C. destruct (name_ok_parts n N) as (N0 & A & _ & _).
  assert (WS : forall w, kword w = true -> In w reserved_words -> word_sp w (n ++ rest) = None)
    by (intros; apply word_sp_name_none; assumption).
  assert (P2 : forall w1 w2, kword w1 = true -> In w1 reserved_words -> kword w2 = true -> In w2 reserved_words ->
               prefix2 true w1 true w2 (n ++ rest) = [n ++ rest]).
  { intros w1 w2 K1 I1 K2 I2. unfold prefix2, opt_word_sp. rewrite (WS w1 K1 I1). cbn [flat_map app]. rewrite (WS w2 K2 I2). reflexivity. }
  unfold keyword_alts in C. cbn [In] in C.
  repeat destruct C as [C|C]; try contradiction; subst id; cbn [alt].
  - unfold alt_space, sp1. destruct n as [|c n]; [congruence|]. cbn [forallb] in A. apply andb_true_iff in A as [A _].
    cbn [app]. rewrite (plus1_fail is_sp c _ (name_char_not_sp c A)). reflexivity.
  - unfold alt_redefines. rewrite WS by (reflexivity || reserved). reflexivity.
  - unfold alt_blank. rewrite WS by (reflexivity || reserved). reflexivity.
  - unfold alt_word. rewrite lit_glued_none by (reflexivity || assumption). reflexivity.
  - unfold alt_word. rewrite lit_glued_none by (reflexivity || assumption). reflexivity.
  - unfold alt_justified, just_words. cbn [first_some]. rewrite !WS by (reflexivity || reserved). reflexivity.
  - unfold alt_odo. rewrite WS by (reflexivity || reserved). reflexivity.
  - unfold alt_occurs. rewrite WS by (reflexivity || reserved). reflexivity.
  - unfold alt_picture, pic_words. cbn [first_some].
    rewrite !lit_name_then_bt by (reflexivity || reserved || assumption). reflexivity.
  - unfold alt_sign, sign_word_opt, sign_is_opt. rewrite P2 by (reflexivity || reserved). cbn [first_some].
    unfold sign_at. rewrite first_some_none; [reflexivity|]. intros w I. cbn [In] in I.
    assert (K : kword w = true /\ In w reserved_words) by (destruct I as [<-|[<-|[]]]; (split; [reflexivity|reserved])).
    destruct K as [K Ir]. destruct (lit w (n ++ rest)) as [r|] eqn:L; [|reflexivity].
    destruct (lit_name_goes_on w n rest r K Ir N F L) as (c & t & -> & Cc).
    unfold sign_sep_end, sp_word, sp1. rewrite (plus1_fail is_sp c t (name_char_not_sp c Cc)). reflexivity.
  - unfold alt_sync. rewrite first_some_none; [reflexivity|]. intros w I. unfold sync_words in I. cbn [In] in I.
    destruct I as [<-|[<-|[]]]; apply lit_glued_none; (reflexivity || assumption).
  - unfold alt_usage, usage_word_opt, usage_is_opt. rewrite P2 by (reflexivity || reserved). cbn [first_some].
    unfold usage_at. rewrite first_some_none; [reflexivity|]. intros u I.
    pose proof usage_words_glued as G. rewrite forallb_forall in G. specialize (G u I). apply andb_true_iff in G as [Ku G].
    rewrite (lit_glued_none u n rest Ku G N F). reflexivity.
  - unfold alt_value. destruct (lit W_VALUE (n ++ rest)) as [r|] eqn:L; [|reflexivity].
    destruct (lit_name_goes_on W_VALUE n rest r eq_refl ltac:(reserved) N F L) as (c & t & -> & Cc).
    rewrite plus_bt_fail by (apply name_char_not_sp; exact Cc). reflexivity.
  - unfold alt_filler. rewrite lit_glued_none by (reflexivity || assumption). reflexivity.
Qed.

Lemma tok_name sp n rest : name_ok n = true -> follow rest ->
  token_at (print_clause (CName n) sp ++ rest) = Some (Tok 14 (gmap (bindings (CName n) sp)), rest).
Proof.
  intros N F. destruct (name_ok_parts n N) as (N0 & A & _ & _). cbn [print_clause bindings gmap map fst snd]. rewrite token_at_unfold.
  pose proof (name_alts n rest N F) as H.
  repeat (rewrite try_alts_no by (apply H; unfold keyword_alts; cbn [In]; tauto)).
  apply try_alts_yes. cbn [alt]. unfold alt_name. rewrite name1_app by assumption. reflexivity.
Qed.

(* ================================================================ 4. entries *)
Lemma scan_skip : forall w r, scan (length w) (w ++ r) = scan 0 r.
Proof. induction w as [|c w IH]; intros r; [reflexivity|]. cbn [length app scan]. apply IH. Qed.

Lemma scan_tok w rest i : w <> [] -> token_at (w ++ rest) = Some (i, rest) -> scan 0 (w ++ rest) = i :: scan 0 rest.
Proof.
  intros N T. destruct w as [|c w]; [congruence|]. cbn [app] in *. cbn [scan]. rewrite T. f_equal.
  rewrite app_length. replace (length w + length rest - length rest)%nat with (length w) by lia. apply scan_skip.
Qed.

Lemma scan_sep s r : sepstr s -> nsp r -> scan 0 (s ++ r) = Tok 0 [] :: scan 0 r.
Proof.
  intros S Rn. apply scan_tok; [apply S|]. rewrite token_at_unfold. apply try_alts_yes. cbn [alt]. unfold alt_space.
  rewrite (sp1_sep s r S Rn). reflexivity.
Qed.

(* ---- no quote characters in what is printed outside a VALUE clause ---- *)
Definition plainc (c : N) : bool := negb (s_mem c [39; 34]).

Lemma noq_app a b : noq a -> noq b -> noq (a ++ b).
Proof. unfold noq. intros A B. rewrite forallb_app, A, B. reflexivity. Qed.

Lemma noq_of (p : N -> bool) s : (forall c, p c = true -> plainc c = true) -> forallb p s = true -> noq s.
Proof.
  intros H A. unfold noq. induction s as [|c s IH]; [reflexivity|]. cbn [forallb] in *. apply andb_true_iff in A as [A1 A2].
  fold (plainc c). rewrite (H c A1), (IH A2). reflexivity.
Qed.

Lemma name_char_plain c : name_char c = true -> plainc c = true.
Proof. unfold name_char, is_upper_letter, is_lower_letter, is_digit, plainc, s_mem, existsb. lia. Qed.

Lemma sepc_plain c : sepc c = true -> plainc c = true.
Proof. intros H. destruct (sepc_cases c H) as [->|[->|[->|[->|[->| ->]]]]]; reflexivity. Qed.

Lemma noq_name n : forallb name_char n = true -> noq n.
Proof. apply noq_of. apply name_char_plain. Qed.

Lemma noq_kw sp i w : kword w = true -> noq (kw sp i w).
Proof. intros K. apply noq_name. apply cased_all_name. exact K. Qed.

Lemma noq_sepstr s : forallb sepc s = true -> noq s.
Proof. apply noq_of. apply sepc_plain. Qed.

Lemma noq_sep sp i : spell_ok sp -> noq (sep sp i).
Proof. intros S. apply noq_sepstr. apply (sep_sepstr sp i S). Qed.

Lemma noq_nil : noq [].
Proof. reflexivity. Qed.

Lemma noq_opt b s : noq s -> noq (opt b s).
Proof. destruct b; [trivial|intros; apply noq_nil]. Qed.

Lemma noq_pic p : pic_ok p = true -> noq p.
Proof.
  destruct p as [|c t]; [discriminate|]. cbn [pic_ok]. intros H. apply andb_true_iff in H as [_ A].
  revert A. apply noq_of. intros d. unfold pic_char, plainc, s_mem, existsb. lia.
Qed.

Lemma usage_word_kword fam i : kword (usage_word fam i) = true.
Proof. apply (usage_word_facts _ (usage_word_in fam i)). Qed.

Ltac noq_tac S :=
  repeat first
    [ apply noq_nil
    | apply noq_app
    | apply noq_opt
    | apply (noq_sep _ _ S)
    | apply noq_kw; first [reflexivity | apply usage_word_kword]
    | match goal with |- noq (kw _ _ (just_word ?i)) => destruct (just_word_cases i) as [-> | ->] end
    | match goal with |- noq (kw _ _ (sync_word ?i)) => destruct (sync_word_cases i) as [-> | ->] end
    | match goal with |- noq (kw _ _ (pic_word ?i)) => destruct (pic_word_cases i) as [-> | ->] end
    | match goal with |- noq (kw _ _ (sign_word ?b)) => destruct b; cbn [sign_word] end
    | match goal with |- noq (kw _ _ (side_word ?b)) => unfold side_word; destruct (b =? 1) end ].

Lemma clause_ok_spell c sp : clause_ok c sp = true -> spell_ok sp.
Proof. unfold clause_ok, spell_ok. intros H. apply andb_true_iff in H as [H _]. exact H. Qed.

Lemma noq_clause c sp : clause_ok c sp = true -> kind c <> 5 -> noq (print_clause c sp).
Proof.
  intros C K. pose proof (clause_ok_spell c sp C) as S. unfold clause_ok in C. apply andb_true_iff in C as [_ C].
  destruct c; cbn [print_clause kind] in *; try congruence.
  - apply noq_name. apply (name_ok_parts _ C).
  - noq_tac S.
  - noq_tac S. apply noq_name. apply (name_ok_parts _ C).
  - apply andb_true_iff in C as [D I]. destruct ix; [discriminate|]. cbn [print_ix]. noq_tac S. apply noq_name. apply (digits_name _ D).
  - apply andb_true_iff in C as [C I]. apply andb_true_iff in C as [C Nd]. apply andb_true_iff in C as [Dm Dx].
    destruct ix; [discriminate|]. cbn [print_ix]. noq_tac S.
    + destruct mn as [m|]; noq_tac S. apply noq_name. apply (digits_name _ Dm).
    + apply noq_name. apply (digits_name _ Dx).
    + apply noq_name. apply (name_ok_parts _ Nd).
  - noq_tac S. apply noq_pic. exact C.
  - unfold intro. destruct (chN sp 0) as [|[?|?|]]; noq_tac S.
  - noq_tac S. unfold zero_word. destruct (N.to_nat (chN sp 1)) as [|[|[|?]]]; cbn [nth]; noq_tac S; destruct n; noq_tac S.
  - noq_tac S.
  - unfold side_text. noq_tac S.
  - unfold intro, separate_text. destruct (chN sp 0) as [|[?|?|]]; noq_tac S.
  - noq_tac S.
  - noq_tac S.
Qed.

(* ---- the first word of a clause that is not the data name: not a separator, none of the lookahead words ---- *)
Definition head_ok (w : str) : bool :=
  kword w && negb (match w with [] => true | _ => false end) && forallb (fun u => mismatch u w) lookahead_words.

Lemma head_kw sp i w x : head_ok w = true -> nsp (kw sp i w ++ x) /\ clean_next (kw sp i w ++ x) /\ kw sp i w ++ x <> [].
Proof.
  unfold head_ok. intros H. apply andb_true_iff in H as [H M]. apply andb_true_iff in H as [K N].
  assert (w <> []) by (destruct w; [discriminate|congruence]).
  split; [apply nsp_cased; assumption|]. split; [apply clean_next_kw; assumption|].
  unfold kw. destruct w; [congruence|]. rewrite cased_cons. discriminate.
Qed.

Lemma usage_heads : forallb head_ok all_usage_words = true.
Proof. vm_compute. reflexivity. Qed.

Definition starts_ok (t : list N) : Prop := nsp t /\ clean_next t /\ t <> [].

Lemma clause_head c sp x : is_name_clause c = false -> starts_ok (print_clause c sp ++ x).
Proof.
  intros Nn. unfold starts_ok. destruct c; cbn [is_name_clause print_clause] in *; try discriminate; assoc.
  - apply head_kw. reflexivity.
  - apply head_kw. reflexivity.
  - apply head_kw. reflexivity.
  - destruct (pic_word_cases (chN sp 0)) as [-> | ->]; apply head_kw; reflexivity.
  - unfold intro. destruct (chN sp 0) as [|[?|?|]]; cbn [app]; assoc; try (apply head_kw; reflexivity).
    apply head_kw. pose proof usage_heads as H. rewrite forallb_forall in H. apply H. apply usage_word_in.
  - apply head_kw. reflexivity.
  - apply head_kw. reflexivity.
  - destruct (just_word_cases (chN sp 0)) as [-> | ->]; apply head_kw; reflexivity.
  - destruct (sync_word_cases (chN sp 0)) as [-> | ->]; apply head_kw; reflexivity.
  - unfold intro. destruct (chN sp 0) as [|[?|?|]]; cbn [app]; assoc; try (apply head_kw; reflexivity).
    destruct leading; apply head_kw; reflexivity.
  - apply head_kw. reflexivity.
  - apply head_kw. reflexivity.
Qed.

Lemma items_head c cs sps x : existsb is_name_clause (c :: cs) = false -> starts_ok (print_items (c :: cs) sps ++ x).
Proof.
  intros H. cbn [existsb] in H. apply orb_false_iff in H as [H _]. cbn [print_items]. assoc. apply clause_head. exact H.
Qed.

(* the model's groups of a whole printed entry *)
Lemma gmap_app a b : gmap (a ++ b) = gmap a ++ gmap b.
Proof. apply map_app. Qed.

Lemma all_blank_cases a : all_blank a = true -> a = [] \/ (sepstr a /\ blank_tail a).
Proof.
  intros H. destruct a as [|c t]; [left; reflexivity|right]. split.
  - split; [congruence|apply all_blank_sepc; exact H].
  - right. exists c, t. split; [reflexivity|]. unfold all_blank in H. cbn [forallb] in H. apply andb_true_iff in H as [H _]. exact H.
Qed.

Lemma noq_items : forall cs sps, items_ok cs sps = true -> s_mem 5 (map kind cs) = false -> noq (print_items cs sps).
Proof.
  induction cs as [|c cs IH]; intros sps I K; [apply noq_nil|].
  cbn [items_ok] in I. apply andb_true_iff in I as [I I4]. apply andb_true_iff in I as [I I3]. apply andb_true_iff in I as [I1 I2].
  cbn [map s_mem existsb] in K. apply orb_false_iff in K as [K1 K2].
  cbn [print_items]. apply noq_app; [apply noq_clause; [exact I1|intros E; rewrite E in K1; discriminate]|].
  apply noq_app; [|apply IH; assumption].
  unfold after_ok in I2. apply andb_true_iff in I2 as [I2 _]. apply noq_sepstr.
  destruct cs; [apply all_blank_sepc; exact I2|apply (sep_ok_sepstr _ I2)].
Qed.

Lemma blank_tail_app a r : all_blank a = true -> (a = [] -> r = []) -> blank_tail (a ++ r).
Proof.
  intros A H. destruct a as [|c t]; [rewrite (H eq_refl); left; reflexivity|right]. exists c, (t ++ r). split; [reflexivity|].
  unfold all_blank in A. cbn [forallb] in A. apply andb_true_iff in A as [A _]. exact A.
Qed.

Definition fuel_free (l : list item) : Prop := existsb is_fuel l = false.

Lemma items_nonempty c cs sps : existsb is_name_clause (c :: cs) = false -> print_items (c :: cs) sps <> [].
Proof.
  intros H E. destruct (items_head c cs sps [] H) as (_ & _ & N). rewrite app_nil_r in N. apply N. exact E.
Qed.

Lemma items_scan : forall cs sps, nodup_N (map kind cs) = true -> items_ok cs sps = true ->
  merged (scan 0 (print_items cs sps)) = gmap (all_bindings cs sps) /\ fuel_free (scan 0 (print_items cs sps)).
Proof.
  induction cs as [|c cs IH]; intros sps ND I; [split; reflexivity|].
  cbn [items_ok] in I. apply andb_true_iff in I as [I I4]. apply andb_true_iff in I as [I I3]. apply andb_true_iff in I as [I1 I2].
  cbn [map nodup_N] in ND. apply andb_true_iff in ND as [ND1 ND2]. apply negb_true_iff in ND1. apply negb_true_iff in I3.
  destruct (IH (tl sps) ND2 I4) as [IHm IHf].
  cbn [print_items all_bindings]. rewrite gmap_app.
  remember (fst (hd sp_default sps)) as sp eqn:Hsp. remember (snd (hd sp_default sps)) as a eqn:Ha.
  remember (print_items cs (tl sps)) as R eqn:HR.
  pose proof (clause_ok_spell c sp I1) as S.
  unfold after_ok in I2. apply andb_true_iff in I2 as [A1 A2].
  (* what follows the clause *)
  assert (RS : (cs = [] /\ R = []) \/ (cs <> [] /\ starts_ok R)).
  { destruct cs as [|c' cs']; [left; split; [reflexivity|exact HR]|right]. split; [discriminate|].
    rewrite HR, <- (app_nil_r (print_items _ _)). apply items_head. exact I3. }
  assert (AR : (a = [] /\ R = []) \/ (sepstr a /\ nsp R /\ clean_next R)).
  { destruct RS as [[Ec Er]|[Nc (H1 & H2 & _)]].
    - subst cs. destruct (all_blank_cases a A1) as [Ea|[Sa _]]; [left; split; assumption|right].
      split; [exact Sa|]. rewrite Er. split; [left; reflexivity|apply clean_next_nil].
    - right. destruct cs; [congruence|]. split; [apply sep_ok_sepstr; exact A1|split; assumption]. }
  assert (T : tail_ok (a ++ R)).
  { destruct AR as [[Ea Er]|(Sa & Rn & Cn)]; [rewrite Ea, Er; left; reflexivity|].
    right. exists a, R. split; [reflexivity|split; [exact Sa|split; [exact Rn|exact Cn]]]. }
  (* the scan of separator and rest *)
  assert (SC : merged (scan 0 (a ++ R)) = gmap (all_bindings cs (tl sps)) /\ fuel_free (scan 0 (a ++ R))).
  { destruct AR as [[Ea Er]|(Sa & Rn & Cn)].
    - rewrite Ea. cbn [app]. split; [exact IHm|exact IHf].
    - rewrite (scan_sep a R Sa Rn). split; [exact IHm|exact IHf]. }
  destruct SC as [SCm SCf].
  (* the common case: the clause's token stops at its end *)
  assert (COMMON : forall id, token_at (print_clause c sp ++ a ++ R) = Some (Tok id (gmap (bindings c sp)), a ++ R) ->
            print_clause c sp <> [] ->
            merged (scan 0 (print_clause c sp ++ a ++ R)) = gmap (bindings c sp) ++ gmap (all_bindings cs (tl sps))
            /\ fuel_free (scan 0 (print_clause c sp ++ a ++ R))).
  { intros id Tk Ne. rewrite (scan_tok _ _ _ Ne Tk). unfold merged in *. cbn [flat_map]. rewrite SCm. split; [reflexivity|].
    unfold fuel_free in *. cbn [existsb is_fuel]. exact SCf. }
  assert (KWNE : forall i w x, w <> [] -> kw sp i w ++ x <> []).
  { intros i w x Nw. unfold kw. destruct w; [congruence|]. rewrite cased_cons. discriminate. }
  unfold clause_ok in I1. apply andb_true_iff in I1 as [_ I1].
  destruct c; cbn [kind] in *.
  - (* data name *) apply (COMMON 14); [apply tok_name; [exact I1|apply tail_ok_follow; exact T]|].
    cbn [print_clause]. apply (name_ok_parts _ I1).
  - apply (COMMON 13); [apply tok_filler|cbn [print_clause]; rewrite <- (app_nil_r (kw _ _ _)); apply KWNE; discriminate].
  - apply (COMMON 1); [apply tok_redefines; [exact S|exact I1|apply tail_ok_follow; exact T]|cbn [print_clause]; apply KWNE; discriminate].
  - apply andb_true_iff in I1 as [D Ix]. destruct ix; [discriminate|].
    apply (COMMON 7); [apply tok_occurs; assumption|cbn [print_clause]; apply KWNE; discriminate].
  - apply andb_true_iff in I1 as [I1 Ix]. apply andb_true_iff in I1 as [I1 Nd]. apply andb_true_iff in I1 as [Dm Dx]. destruct ix; [discriminate|].
    apply (COMMON 6); [apply tok_odo; assumption|cbn [print_clause]; apply KWNE; discriminate].
  - (* picture: blanks follow *)
    apply (COMMON 8); [apply tok_picture; [exact S|exact I1|]|cbn [print_clause]; destruct (pic_word_cases (chN sp 0)) as [-> | ->]; apply KWNE; discriminate].
    apply blank_tail_app; [exact A2|]. intros Ea. destruct AR as [[_ Er]|(Sa & _)]; [exact Er|destruct Sa; congruence].
  - apply (COMMON 11); [apply tok_usage; [exact S|apply tail_ok_follow; exact T]|].
    cbn [print_clause]. unfold intro. destruct (chN sp 0) as [|[?|?|]]; cbn [app]; assoc; try (apply KWNE; discriminate).
    rewrite <- (app_nil_r (kw _ _ _)). apply KWNE. apply (usage_word_facts _ (usage_word_in fam (chN sp 1))).
  - (* value *)
    apply (COMMON 12); [apply tok_value; [exact S|exact I1|]|cbn [print_clause]; apply KWNE; discriminate].
    destruct (is_quoted v) eqn:Q.
    + apply noq_app; [|rewrite HR; apply noq_items; [exact I4|exact ND1]].
      apply noq_sepstr. destruct cs; [apply all_blank_sepc; exact A1|apply (sep_ok_sepstr _ A1)].
    + cbn [orb] in A2. apply blank_tail_app; [exact A2|]. intros Ea. destruct AR as [[_ Er]|(Sa & _)]; [exact Er|destruct Sa; congruence].
  - apply (COMMON 2); [apply tok_blank; assumption|cbn [print_clause]; apply KWNE; discriminate].
  - (* justified *)
    destruct rt.
    + apply (COMMON 5); [apply tok_just_right; exact S|cbn [print_clause]; destruct (just_word_cases (chN sp 0)) as [-> | ->]; apply KWNE; discriminate].
    + destruct AR as [[Ea _]|(Sa & Rn & Cn)]; [rewrite Ea in A2; discriminate|].
      assert (Ne : print_clause (CJust false) sp <> []).
      { cbn [print_clause opt]. rewrite app_nil_r. rewrite <- (app_nil_r (kw _ _ _)). destruct (just_word_cases (chN sp 0)) as [-> | ->]; apply KWNE; discriminate. }
      pose proof (tok_just_plain sp a R Sa Rn Cn) as Tk.
      assert (E : print_clause (CJust false) sp ++ a ++ R = (print_clause (CJust false) sp ++ a) ++ R) by apply app_assoc.
      rewrite E in *. assert (Ne2 : print_clause (CJust false) sp ++ a <> []) by (intros Q; apply app_eq_nil in Q as [Q _]; exact (Ne Q)).
      rewrite (scan_tok _ R _ Ne2 Tk).
      unfold merged in *. cbn [flat_map bindings gmap map app]. split; [exact IHm|exact IHf].
  - apply (COMMON 10); [apply tok_sync; assumption|cbn [print_clause]; destruct (sync_word_cases (chN sp 0)) as [-> | ->]; apply KWNE; discriminate].
  - destruct separate; [|discriminate].
    apply (COMMON 9); [apply tok_sign; assumption|].
    cbn [print_clause]. unfold intro. destruct (chN sp 0) as [|[?|?|]]; cbn [app]; assoc; try (apply KWNE; discriminate). destruct leading; apply KWNE; discriminate.
  - apply (COMMON 3); [apply tok_external|cbn [print_clause]; rewrite <- (app_nil_r (kw _ _ _)); apply KWNE; discriminate].
  - apply (COMMON 4); [apply tok_global|cbn [print_clause]; rewrite <- (app_nil_r (kw _ _ _)); apply KWNE; discriminate].
Qed.

(* ---- from the merged groups to the dictionary ---- *)
Definition codes_ok (d : dict) : Prop := forall kv, In kv d -> fst kv <= 14.

Lemma code_key_code k : code_key (key_code k) = k.
Proof. destruct k; reflexivity. Qed.

Lemma key_code_key c : c <= 14 -> key_code (code_key c) = c.
Proof.
  intros H.
  assert (C : c = 0 \/ c = 1 \/ c = 2 \/ c = 3 \/ c = 4 \/ c = 5 \/ c = 6 \/ c = 7 \/ c = 8 \/ c = 9 \/ c = 10 \/ c = 11 \/ c = 12 \/ c = 13 \/ c = 14) by lia.
  repeat destruct C as [C|C]; subst c; reflexivity.
Qed.

Lemma get_gmap k d : codes_ok d -> get k (gmap d) = lookup (key_code k) d.
Proof.
  unfold get, lookup, gmap. intros C.
  assert (G : forall acc, fold_left (fun acc kv => if key_eqb (fst kv) k then Some (snd kv) else acc) (map (fun kv => (code_key (fst kv), snd kv)) d) acc
                        = fold_left (fun acc kv => if fst kv =? key_code k then Some (snd kv) else acc) d acc).
  { induction d as [|kv d IH]; intros acc; [reflexivity|]. cbn [map fold_left fst snd].
    assert (E : key_eqb (code_key (fst kv)) k = (fst kv =? key_code k)).
    { unfold key_eqb. rewrite key_code_key by (apply C; left; reflexivity). reflexivity. }
    rewrite E. apply IH. intros x I. apply C. right. exact I. }
  apply G.
Qed.

Lemma canon_gmap d : codes_ok d -> canon (gmap d) = gmap (sorted d).
Proof.
  intros C. unfold canon, sorted, gmap. change key_codes with (map key_code all_keys).
  rewrite flat_map_concat_map, flat_map_concat_map, concat_map, map_map, map_map. f_equal. apply map_ext_in.
  intros k _. fold (gmap d). rewrite (get_gmap k d C). destruct (lookup (key_code k) d); [|reflexivity].
  cbn [map fst snd]. rewrite code_key_code. reflexivity.
Qed.

Lemma bindings_codes c sp : codes_ok (bindings c sp).
Proof.
  intros kv I. destruct c; cbn [bindings] in I;
    repeat match goal with
           | H : In _ (_ ++ _) |- _ => apply in_app_or in H as [H|H]
           | H : In _ (match ?x with Some _ => _ | None => _ end) |- _ => destruct x
           | H : In _ (if ?x then _ else _) |- _ => destruct x
           | H : In _ (_ :: _) |- _ => destruct H as [H|H]; [subst kv; cbn [fst]; lia|]
           | H : In _ [] |- _ => destruct H
           end.
Qed.

Lemma all_bindings_codes : forall cs sps, codes_ok (all_bindings cs sps).
Proof.
  induction cs as [|c cs IH]; intros sps kv I; [destruct I|]. cbn [all_bindings] in I. apply in_app_or in I as [I|I];
    [apply (bindings_codes c _ kv I)|apply (IH _ kv I)].
Qed.

Lemma lookup_app k a b : lookup k (a ++ b) = match lookup k b with Some v => Some v | None => lookup k a end.
Proof.
  unfold lookup. rewrite fold_left_app. generalize (fold_left (fun acc kv => if fst kv =? k then Some (snd kv) else acc) a None).
  induction b as [|kv b IH]; intros acc; cbn [fold_left].
  - destruct acc; reflexivity.
  - rewrite IH. rewrite (IH (if fst kv =? k then Some (snd kv) else None)). destruct (fold_left _ b None); [reflexivity|].
    destruct (fst kv =? k); [reflexivity|]. destruct acc; reflexivity.
Qed.

Lemma lookup_piece k i d :
  lookup k (match lookup i d with Some v => [(i, v)] | None => [] end) = if i =? k then lookup i d else None.
Proof. destruct (lookup i d); unfold lookup; cbn [fold_left fst snd]; destruct (i =? k); reflexivity. Qed.

Lemma lookup_sorted_7 d : lookup 7 (sorted d) = lookup 7 d.
Proof.
  unfold sorted, key_codes. cbn [flat_map]. rewrite !lookup_app, !lookup_piece. cbn [N.eqb Pos.eqb]. rewrite app_nil_r || idtac.
  unfold lookup at 1. cbn [fold_left]. destruct (lookup 7 d); reflexivity.
Qed.

(* ================================================================ the theorems *)

Theorem clause_dict_printer : forall cs sps, printable cs sps = true ->
  clause_dict (print_items cs sps) = result_for (expected cs sps).
Proof.
  intros cs sps P. unfold printable in P. apply andb_true_iff in P as [ND I].
  destruct (items_scan cs sps ND I) as [M F]. unfold fuel_free in F.
  unfold clause_dict, items. rewrite F, M.
  pose proof (all_bindings_codes cs sps) as C.
  rewrite (get_gmap KPicture _ C). change (key_code KPicture) with 7.
  unfold result_for, expected. rewrite lookup_sorted_7, (canon_gmap _ C). reflexivity.
Qed.

(* ================================================================ respelling: the content of the expected dictionary *)
Definition letters (w : str) : bool := forallb is_upper_letter w.

Lemma upper_cased m w : kword w = true -> map upper (cased m w) = w.
Proof.
  revert m. induction w as [|x w IH]; intros m K; [reflexivity|]. cbn [kword forallb] in K. apply andb_true_iff in K as [Kx K].
  cbn [cased map]. rewrite (IH (tl m) K). f_equal. unfold kwc, is_upper_letter, is_digit in Kx. unfold upper, lower.
  destruct (hd false m); [destruct ((65 <=? x) && (x <=? 90)) eqn:E|];
    match goal with |- (if ?c then _ else _) = _ => destruct c eqn:Q end; lia.
Qed.

Lemma letters_kword w : letters w = true -> kword w = true.
Proof.
  unfold letters, kword. induction w as [|x w IH]; [reflexivity|]. cbn [forallb]. intros H. apply andb_true_iff in H as [H1 H2].
  rewrite (IH H2), andb_true_r. unfold kwc. rewrite H1. reflexivity.
Qed.

Lemma letters_of_app a b : letters_of (a ++ b) = letters_of a ++ letters_of b.
Proof. unfold letters_of. rewrite map_app, filter_app. reflexivity. Qed.

Lemma letters_of_sep s : forallb sepc s = true -> letters_of s = [].
Proof.
  unfold letters_of. induction s as [|c s IH]; [reflexivity|]. cbn [forallb map filter]. intros H. apply andb_true_iff in H as [H1 H2].
  rewrite (IH H2). destruct (sepc_cases c H1) as [->|[->|[->|[->|[->| ->]]]]]; reflexivity.
Qed.

Lemma letters_of_cased m w : letters w = true -> letters_of (cased m w) = w.
Proof.
  intros L. unfold letters_of. rewrite (upper_cased m w (letters_kword w L)). unfold letters in L.
  induction w as [|x w IH]; [reflexivity|]. cbn [forallb filter] in *. apply andb_true_iff in L as [L1 L2]. rewrite L1, (IH L2). reflexivity.
Qed.

Lemma usage_norm fam i m :
  match family_of (map upper (cased m (usage_word fam i))) with Some f => usage_rep f | None => map upper (cased m (usage_word fam i)) end
  = usage_rep fam.
Proof.
  rewrite upper_cased by apply usage_word_kword. unfold usage_word, usage_rep, usage_family.
  generalize (N.to_nat fam) as a. generalize (N.to_nat i) as b. intros b a.
  destruct a as [|[|[|[|[|a]]]]]; destruct b as [|[|[|[|[|b]]]]]; try reflexivity;
    try (destruct a); try (destruct b); reflexivity.
Qed.

Lemma zero_norm i m : norm_zero (map upper (cased m (zero_word i))) = K_ZERO.
Proof.
  unfold zero_word. destruct (N.to_nat i) as [|[|[|j]]]; cbn [nth]; try (rewrite upper_cased by reflexivity; reflexivity).
  destruct j; rewrite upper_cased by reflexivity; reflexivity.
Qed.

Lemma normal_bindings c sp : spell_ok sp -> normal (bindings c sp) = abs_bindings c.
Proof.
  intros S. destruct c; cbn [bindings abs_bindings normal map fst snd norm_value]; try reflexivity.
  - unfold kw. rewrite upper_cased by reflexivity. reflexivity.
  - destruct mn; reflexivity.
  - unfold kw. rewrite usage_norm. reflexivity.
  - unfold kw. rewrite zero_norm. reflexivity.
  - destruct rt; cbn [map fst snd norm_value]; [|reflexivity]. unfold kw. rewrite upper_cased by reflexivity. reflexivity.
  - destruct (side =? 0); cbn [map fst snd norm_value]; [reflexivity|]. unfold side_text. rewrite letters_of_app.
    rewrite (letters_of_sep _ (proj2 (sep_sepstr sp 0 S))). unfold kw, side_word. destruct (side =? 1); rewrite letters_of_cased by reflexivity; reflexivity.
  - unfold kw at 1. rewrite upper_cased by (destruct leading; reflexivity). destruct separate; cbn [map fst snd norm_value]; [|reflexivity].
    unfold separate_text. rewrite !letters_of_app, (letters_of_sep _ (proj2 (sep_sepstr sp 2 S))). unfold kw at 1.
    rewrite letters_of_cased by reflexivity. cbn [app]. destruct (chb sp 1); reflexivity.
Qed.

Lemma normal_app a b : normal (a ++ b) = normal a ++ normal b.
Proof. apply map_app. Qed.

Lemma normal_all : forall cs sps, items_ok cs sps = true -> normal (all_bindings cs sps) = flat_map abs_bindings cs.
Proof.
  induction cs as [|c cs IH]; intros sps I; [reflexivity|]. cbn [items_ok] in I.
  apply andb_true_iff in I as [I I4]. apply andb_true_iff in I as [I _]. apply andb_true_iff in I as [I1 _].
  cbn [all_bindings flat_map]. rewrite normal_app, (normal_bindings c _ (clause_ok_spell c _ I1)), (IH _ I4). reflexivity.
Qed.

Lemma lookup_normal k d : lookup k (normal d) = option_map (norm_value k) (lookup k d).
Proof.
  unfold lookup, normal. change (@None str) with (option_map (norm_value k) (@None str)) at 1.
  generalize (@None str). induction d as [|kv d IH]; intros acc; [reflexivity|].
  cbn [map fold_left fst snd]. destruct (fst kv =? k) eqn:E.
  - apply N.eqb_eq in E. rewrite <- IH. rewrite E. reflexivity.
  - apply IH.
Qed.

Lemma normal_sorted d : normal (sorted d) = sorted (normal d).
Proof.
  unfold sorted. unfold normal at 1. rewrite flat_map_concat_map, flat_map_concat_map, concat_map, map_map. f_equal. apply map_ext.
  intros k. rewrite lookup_normal. destruct (lookup k d); reflexivity.
Qed.

Theorem expected_content : forall cs sps, items_ok cs sps = true -> normal (expected cs sps) = abstract cs.
Proof. intros cs sps I. unfold expected, abstract. rewrite normal_sorted, (normal_all cs sps I). reflexivity. Qed.

Lemma codes_gmap d : codes_ok d -> codes (gmap d) = d.
Proof.
  intros C. induction d as [|kv d IH]; [reflexivity|]. unfold codes, gmap in *. cbn [map fst snd].
  rewrite key_code_key by (apply C; left; reflexivity). rewrite IH by (intros x I; apply C; right; exact I). destruct kv; reflexivity.
Qed.

Lemma sorted_codes d : codes_ok (sorted d).
Proof.
  intros kv I. unfold sorted in I. apply in_flat_map in I as (k & Ik & I). destruct (lookup k d); [|destruct I].
  destruct I as [<-|[]]. cbn [fst]. unfold key_codes in Ik. cbn [In] in Ik. lia.
Qed.

Lemma result_for_ok d r : result_for d = Some (Ok r) ->
  cr_dict r = gmap d /\ cr_parsed r = match lookup 7 d with Some p => match SR.Model.Picture.gen_normalize p with Some (Ok es) => Some es | _ => None end | None => None end.
Proof.
  unfold result_for. destruct (lookup 7 d) as [p|].
  - destruct (SR.Model.Picture.gen_normalize p) as [[es|e]|]; try discriminate. intros H. injection H as <-. split; reflexivity.
  - intros H. injection H as <-. split; reflexivity.
Qed.

Theorem respelling_same_order : forall cs sps sps' r r', printable cs sps = true -> printable cs sps' = true ->
  clause_dict (print_items cs sps) = Some (Ok r) -> clause_dict (print_items cs sps') = Some (Ok r') ->
  normal (codes (cr_dict r)) = abstract cs /\ normal (codes (cr_dict r')) = abstract cs /\ cr_parsed r = cr_parsed r'.
Proof.
  intros cs sps sps' r r' P P' H H'. rewrite (clause_dict_printer cs sps P) in H. rewrite (clause_dict_printer cs sps' P') in H'.
  destruct (result_for_ok _ _ H) as [D Q]. destruct (result_for_ok _ _ H') as [D' Q'].
  unfold printable in P, P'. apply andb_true_iff in P as [_ I]. apply andb_true_iff in P' as [_ I'].
  rewrite D, D', !codes_gmap by apply sorted_codes. rewrite (expected_content cs sps I), (expected_content cs sps' I').
  split; [reflexivity|split; [reflexivity|]]. rewrite Q, Q'.
  assert (E : forall s, items_ok cs s = true -> lookup 7 (expected cs s) = lookup 7 (abstract cs)).
  { intros s Is. rewrite <- (expected_content cs s Is), lookup_normal. destruct (lookup 7 (expected cs s)); reflexivity. }
  rewrite (E sps I), (E sps' I'). reflexivity.
Qed.

(* ================================================================ respelling with the clauses in another order *)
Lemma lookup_notin k d : ~ In k (map fst d) -> lookup k d = None.
Proof.
  induction d as [|kv d IH]; intros H; [reflexivity|]. change (kv :: d) with ([kv] ++ d). rewrite lookup_app.
  cbn [map In] in H. rewrite IH by tauto. unfold lookup. cbn [fold_left].
  destruct (N.eqb_spec (fst kv) k); [exfalso; apply H; left; assumption|reflexivity].
Qed.

Lemma lookup_in_nodup k v d : NoDup (map fst d) -> In (k, v) d -> lookup k d = Some v.
Proof.
  induction d as [|kv d IH]; intros ND I; [destruct I|]. change (kv :: d) with ([kv] ++ d). rewrite lookup_app.
  cbn [map] in ND. inversion ND as [|x l Nx ND']. subst. destruct I as [->|I].
  - cbn [fst] in Nx. rewrite (lookup_notin k d Nx). unfold lookup. cbn [fold_left fst snd]. rewrite N.eqb_refl. reflexivity.
  - rewrite (IH ND' I). reflexivity.
Qed.

Lemma lookup_some_in k v d : lookup k d = Some v -> In (k, v) d.
Proof.
  induction d as [|kv d IH]; [discriminate|]. change (kv :: d) with ([kv] ++ d). rewrite lookup_app.
  destruct (lookup k d) as [v'|] eqn:E.
  - intros H. injection H as ->. right. apply IH. reflexivity.
  - unfold lookup. cbn [fold_left]. destruct (N.eqb_spec (fst kv) k); [|discriminate]. intros H. injection H as <-. left. destruct kv. cbn [fst snd] in *. subst. reflexivity.
Qed.

Lemma lookup_perm k d d' : Permutation d d' -> NoDup (map fst d) -> lookup k d = lookup k d'.
Proof.
  intros P ND. assert (ND' : NoDup (map fst d')) by (apply (Permutation_NoDup (Permutation_map fst P)); exact ND).
  destruct (lookup k d) as [v|] eqn:E.
  - symmetry. apply lookup_in_nodup; [exact ND'|]. apply (Permutation_in _ P). apply lookup_some_in. exact E.
  - destruct (lookup k d') as [v'|] eqn:E'; [|reflexivity].
    apply lookup_some_in in E'. apply (Permutation_in _ (Permutation_sym P)) in E'. rewrite (lookup_in_nodup k v' d ND E') in E. discriminate.
Qed.

Definition kind_of_key (k : N) : N :=
  match k with
  | 13 | 14 => 0 | 0 => 1 | 3 | 4 | 5 | 6 => 2 | 7 => 3 | 11 => 4 | 12 => 5 | 1 => 6 | 2 => 7 | 10 => 8 | 8 | 9 => 9
  | _ => 99
  end.

Lemma abs_bindings_kind c kv : In kv (abs_bindings c) -> kind_of_key (fst kv) = kind c.
Proof.
  intros I. destruct c; cbn [abs_bindings] in I;
    repeat match goal with
           | H : In _ (_ ++ _) |- _ => apply in_app_or in H as [H|H]
           | H : In _ (match ?x with Some _ => _ | None => _ end) |- _ => destruct x
           | H : In _ (if ?x then _ else _) |- _ => destruct x
           | H : In _ (_ :: _) |- _ => destruct H as [H|H]; [subst kv; reflexivity|]
           | H : In _ [] |- _ => destruct H
           end.
Qed.

Lemma abs_bindings_nodup c : NoDup (map fst (abs_bindings c)).
Proof.
  destruct c; cbn [abs_bindings];
    repeat match goal with
           | |- context [match ?x with Some _ => _ | None => _ end] => destruct x
           | |- context [if ?x then _ else _] => destruct x
           end; cbn [map fst app];
    repeat (constructor; [cbn [In]; intros Q; repeat destruct Q as [Q|Q]; try discriminate; try contradiction|]); constructor.
Qed.

Lemma nodup_app {A} (a b : list A) : NoDup a -> NoDup b -> (forall x, In x a -> ~ In x b) -> NoDup (a ++ b).
Proof.
  intros Na Nb D. induction a as [|x a IH]; [exact Nb|]. inversion Na as [|y l Nx Na']. subst. cbn [app]. constructor.
  - intros I. apply in_app_or in I as [I|I]; [contradiction|]. apply (D x (or_introl eq_refl) I).
  - apply IH; [exact Na'|]. intros y Iy. apply D. right. exact Iy.
Qed.

Lemma s_mem_in x l : In x l -> s_mem x l = true.
Proof. intros I. unfold s_mem. apply existsb_exists. exists x. split; [exact I|apply N.eqb_refl]. Qed.

Lemma abs_keys_nodup : forall cs, nodup_N (map kind cs) = true -> NoDup (map fst (flat_map abs_bindings cs)).
Proof.
  induction cs as [|c cs IH]; intros ND; [constructor|]. cbn [map nodup_N] in ND. apply andb_true_iff in ND as [N1 N2].
  cbn [flat_map]. rewrite map_app. apply nodup_app; [apply abs_bindings_nodup|apply IH; exact N2|].
  intros k Ia Ib. apply in_map_iff in Ia as (kv & <- & Ia). apply in_map_iff in Ib as (kv' & E & Ib).
  apply in_flat_map in Ib as (c' & Ic & Ib).
  pose proof (abs_bindings_kind c kv Ia) as K1. pose proof (abs_bindings_kind c' kv' Ib) as K2. rewrite E, K1 in K2.
  apply negb_true_iff in N1. rewrite s_mem_in in N1; [discriminate|]. rewrite K2. apply in_map. exact Ic.
Qed.

Theorem abstract_perm : forall cs cs', Permutation cs cs' -> nodup_N (map kind cs) = true -> abstract cs = abstract cs'.
Proof.
  intros cs cs' P ND. unfold abstract, sorted. apply flat_map_ext. intros k.
  rewrite (lookup_perm k _ _ (Permutation_flat_map abs_bindings P) (abs_keys_nodup cs ND)). reflexivity.
Qed.

Theorem respelling : forall cs cs' sps sps' r r', Permutation cs cs' -> printable cs sps = true -> printable cs' sps' = true ->
  clause_dict (print_items cs sps) = Some (Ok r) -> clause_dict (print_items cs' sps') = Some (Ok r') ->
  normal (codes (cr_dict r)) = normal (codes (cr_dict r')) /\ cr_parsed r = cr_parsed r'.
Proof.
  intros cs cs' sps sps' r r' Pm P P' H H'. rewrite (clause_dict_printer cs sps P) in H. rewrite (clause_dict_printer cs' sps' P') in H'.
  destruct (result_for_ok _ _ H) as [D Q]. destruct (result_for_ok _ _ H') as [D' Q'].
  unfold printable in P, P'. apply andb_true_iff in P as [ND I]. apply andb_true_iff in P' as [_ I'].
  rewrite D, D', !codes_gmap by apply sorted_codes. rewrite (expected_content cs sps I), (expected_content cs' sps' I').
  pose proof (abstract_perm cs cs' Pm ND) as E. split; [exact E|]. rewrite Q, Q'.
  assert (L : forall c s, items_ok c s = true -> lookup 7 (expected c s) = lookup 7 (abstract c)).
  { intros c s Is. rewrite <- (expected_content c s Is), lookup_normal. destruct (lookup 7 (expected c s)); reflexivity. }
  rewrite (L cs sps I), (L cs' sps' I'), E. reflexivity.
Qed.

(* ================================================================ DDE naming on a recognised entry *)
Lemma lookup_sorted_13 d : lookup 13 (sorted d) = lookup 13 d.
Proof.
  unfold sorted, key_codes. cbn [flat_map]. rewrite !lookup_app, !lookup_piece. cbn [N.eqb Pos.eqb]. rewrite app_nil_r || idtac.
  unfold lookup at 1. cbn [fold_left]. destruct (lookup 13 d); reflexivity.
Qed.

Lemma lookup_sorted_14 d : lookup 14 (sorted d) = lookup 14 d.
Proof.
  unfold sorted, key_codes. cbn [flat_map]. rewrite !lookup_app, !lookup_piece. cbn [N.eqb Pos.eqb]. rewrite app_nil_r || idtac.
  unfold lookup at 1. cbn [fold_left]. destruct (lookup 14 d); reflexivity.
Qed.

Lemma bindings_no_name c sp kv : is_name_clause c = false -> In kv (bindings c sp) -> fst kv <> 13 /\ fst kv <> 14.
Proof.
  intros Nn I. destruct c; cbn [is_name_clause bindings] in *; try discriminate;
    repeat match goal with
           | H : In _ (_ ++ _) |- _ => apply in_app_or in H as [H|H]
           | H : In _ (match ?x with Some _ => _ | None => _ end) |- _ => destruct x
           | H : In _ (if ?x then _ else _) |- _ => destruct x
           | H : In _ (_ :: _) |- _ => destruct H as [H|H]; [subst kv; cbn [fst]; split; discriminate|]
           | H : In _ [] |- _ => destruct H
           end.
Qed.

Lemma all_bindings_no_name : forall cs sps k, existsb is_name_clause cs = false -> (k = 13 \/ k = 14) -> lookup k (all_bindings cs sps) = None.
Proof.
  intros cs sps k E K. apply lookup_notin. intros I. apply in_map_iff in I as (kv & Ek & I).
  revert sps I. induction cs as [|c cs IH]; intros sps I; [destruct I|]. cbn [existsb] in E. apply orb_false_iff in E as [E1 E2].
  cbn [all_bindings] in I. apply in_app_or in I as [I|I]; [|apply (IH E2 _ I)].
  destruct (bindings_no_name c _ kv E1 I). destruct K; congruence.
Qed.

Lemma model_str_eqb_eq a b : SR.Model.Clauses.str_eqb a b = true -> a = b.
Proof.
  revert b. induction a as [|x a IH]; intros [|y b] H; try discriminate; [reflexivity|].
  cbn [SR.Model.Clauses.str_eqb] in H. apply andb_true_iff in H as [H1 H2]. apply N.eqb_eq in H1. subst. f_equal. apply IH. exact H2.
Qed.

Lemma cased_upper : forall w m, existsb (fun b : bool => b) (firstn (length w) m) = false -> cased m w = w.
Proof.
  induction w as [|x w IH]; intros m H; [reflexivity|]. destruct m as [|b m]; cbn [cased hd tl].
  - f_equal. apply IH. destruct (length w); reflexivity.
  - cbn [length firstn existsb] in H. apply orb_false_iff in H as [-> H]. f_equal. apply IH. exact H.
Qed.

Theorem naming : forall cs sps r, in_domain cs sps = true -> clause_dict (print_items cs sps) = Some (Ok r) ->
  dde_unique (cr_dict r) = spec_unique_name cs.
Proof.
  intros cs sps r Dm H. unfold in_domain in Dm. apply andb_true_iff in Dm as [P FU].
  rewrite (clause_dict_printer cs sps P) in H. destruct (result_for_ok _ _ H) as [D _]. rewrite D.
  unfold printable in P. apply andb_true_iff in P as [_ I].
  unfold dde_unique, dde_name. rewrite !get_gmap by apply sorted_codes.
  change (key_code KName) with 14. change (key_code KFiller) with 13. unfold expected. rewrite lookup_sorted_14, lookup_sorted_13.
  destruct cs as [|c cs]; [reflexivity|].
  cbn [items_ok] in I. apply andb_true_iff in I as [I _]. apply andb_true_iff in I as [I I3]. apply andb_true_iff in I as [I1 _].
  apply negb_true_iff in I3. cbn [all_bindings]. rewrite !lookup_app.
  rewrite (all_bindings_no_name cs (tl sps) 14 I3) by tauto. rewrite (all_bindings_no_name cs (tl sps) 13 I3) by tauto.
  destruct (is_name_clause c) eqn:Nc.
  - destruct c; try discriminate; cbn [bindings spec_unique_name].
    + unfold lookup at 1. cbn [fold_left fst snd N.eqb Pos.eqb].
      unfold clause_ok in I1. apply andb_true_iff in I1 as [_ I1]. destruct (name_ok_parts n I1) as (_ & _ & Rn & _).
      destruct (SR.Model.Clauses.str_eqb n W_FILLER) eqn:E; [|reflexivity].
      apply model_str_eqb_eq in E. subst n. vm_compute in Rn. discriminate.
    + unfold lookup. cbn [fold_left fst snd N.eqb Pos.eqb]. cbn [filler_upper] in FU. apply negb_true_iff in FU.
      unfold kw. rewrite (cased_upper K_FILLER _ FU). reflexivity.
  - assert (L : forall k, k = 13 \/ k = 14 -> lookup k (bindings c (fst (hd sp_default sps))) = None).
    { intros k K. apply lookup_notin. intros Q. apply in_map_iff in Q as (kv & Ek & Q). destruct (bindings_no_name c _ kv Nc Q). destruct K; congruence. }
    rewrite (L 14) by tauto. rewrite (L 13) by tauto. destruct c; try discriminate; reflexivity.
Qed.
