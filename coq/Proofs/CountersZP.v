(* Lemmas for Props/C06e.v, part C: the walk over Python's integers (Model/Counters.zwalk).
   C1  what Location.__init__ and the cases of LocationMaker.walk amount to under the rules read from the source
       (Gen/LayoutParams.v), proved by computation from the generated file: a source edit that changes a rule makes
       these equations fail, while Model/Counters.v and the judge still build and follow the edited source.
   C2  the flat family of Props/C06.v: for EVERY count vector over Z the walk is the closed form Spec/CountersWf.zflat_nav
       (port of Part 1 of Proofs/OdoStreamP.v; the record enters only through the counter fields).
   C3  the item after a table; negative counters; the refutation witness; non-negative count vectors.
   Everything is proved for the walk WITH A FLAG negref (is a negative item count refused): negref = false is the walk before
   the fix of finding K-negative-counter (the _old statements), negref = true the repaired one; negref_now says which one the
   source has now - it is proved by computation from Gen/LayoutParams.v and is the lemma that breaks when the guard goes. *)
From Coq Require Import ZArith NArith List Bool Lia Arith.
Import ListNotations.
Require Import SR.Base.Res SR.Spec.Layout SR.Model.LayoutRule SR.Gen.LayoutParams SR.Model.Layout SR.Spec.OdoStream.
Require Import SR.Model.Counters SR.Spec.CountersWf.
Require SR.Proofs.LayoutP SR.Proofs.OdoStreamP.
Open Scope Z_scope.

(* ================================================================== C1: the rules as they are now *)

Lemma zinit_start_eq s e : zinit_start s e = s.
Proof. reflexivity. Qed.

Lemma zinit_end_eq s e : zinit_end s e = zmk_end s e.
Proof.
  unfold zinit_end, zinit_given, zmk_end.
  change (evalZ (zenv_init s e) init_test) with e. change (evalZ (zenv_init s e) init_end_then) with e.
  change (evalZ (zenv_init s e) init_end_else) with s. destruct (e =? 0); reflexivity.
Qed.

Lemma zinit_size_eq s e : zinit_size s e = zmk_size s e.
Proof.
  unfold zinit_size, zinit_given, zmk_size.
  change (evalZ (zenv_init s e) init_test) with e. change (evalZ (zenv_init s e) init_size_then) with (e - s).
  change (evalZ (zenv_init s e) init_size_else) with 0. destruct (e =? 0); reflexivity.
Qed.

(* the size a constructor called with (s, s + z) stores: z, unless s + z = 0 *)
Lemma zmk_size_plus s z : s + z <> 0 -> zmk_size s (s + z) = z.
Proof. intros H. unfold zmk_size. destruct (s + z =? 0) eqn:E; [apply Z.eqb_eq in E; contradiction|lia]. Qed.
Lemma zmk_size_zero s z : s + z = 0 -> zmk_size s (s + z) = 0.
Proof. intros H. unfold zmk_size. rewrite H. reflexivity. Qed.
Lemma zmk_end_plus s z : s + z <> 0 -> zmk_end s (s + z) = s + z.
Proof. intros H. unfold zmk_end. destruct (s + z =? 0) eqn:E; [apply Z.eqb_eq in E; contradiction|reflexivity]. Qed.
(* from a non-negative start the test on the value of end is harmless *)
Lemma zmk_size_nonneg s z : 0 <= s -> 0 <= z -> zmk_size s (s + z) = z.
Proof. intros Hs Hz. unfold zmk_size. destruct (s + z =? 0) eqn:E; [apply Z.eqb_eq in E|]; lia. Qed.
Lemma zmk_end_nonneg s z : 0 <= s -> 0 <= z -> zmk_end s (s + z) = s + z.
Proof. intros Hs Hz. unfold zmk_end. destruct (s + z =? 0) eqn:E; [apply Z.eqb_eq in E|]; lia. Qed.

(* the source as it is now refuses a negative item count *)
Lemma negref_now : odo_negative_refused = true.
Proof. reflexivity. Qed.

Section ZW.
  Variable B : Type.
  Variable negref : bool.
  Variable zdec : list B -> res Z.
  Variable r : list B.
  Notation zwalk := (Counters.zwalk_with negref zdec r).
  Notation zwalk_props := (Counters.zwalk_props_with negref zdec r).

  Lemma zwalk_atom a sz st an : zwalk (JAtom a sz) st an = Ok (zatom st sz, zreg a (zatom st sz) an).
  Proof.
    change (zwalk (JAtom a sz) st an)
      with (Ok (ZAtom (zinit_start st (st + Z.of_nat sz)) (zinit_end st (st + Z.of_nat sz)) (zinit_size st (st + Z.of_nat sz)),
                zreg a (ZAtom (zinit_start st (st + Z.of_nat sz)) (zinit_end st (st + Z.of_nat sz)) (zinit_size st (st + Z.of_nat sz))) an)
            : res (zloc * zanchors)).
    rewrite zinit_start_eq, zinit_end_eq, zinit_size_eq. reflexivity.
  Qed.

  Lemma zwalk_arr a n its st an :
    zwalk (JArr a n its) st an =
    match zwalk its st an with
    | Err e => Err e
    | Ok (sub, an1) => Ok (ztab st (zsize sub) (Z.of_nat n) sub its, zreg a (ztab st (zsize sub) (Z.of_nat n) sub its) an1)
    end.
  Proof.
    change (zwalk (JArr a n its) st an)
      with (match zwalk its st an with
            | Err e => Err e
            | Ok (sub, an1) =>
                let en := st + zsize sub * Z.of_nat n in
                Ok (ZArr (zinit_start st en) (zinit_end st en) (zinit_size st en) (zsize sub) (Z.of_nat n) sub its,
                    zreg a (ZArr (zinit_start st en) (zinit_end st en) (zinit_size st en) (zsize sub) (Z.of_nat n) sub its) an1)
            end).
    destruct (zwalk its st an) as [[sub an1]|ex]; [|reflexivity]. cbv zeta.
    rewrite zinit_start_eq, zinit_end_eq, zinit_size_eq. reflexivity.
  Qed.

  (* the counter: AtomicLocation.value slices instance[start + 0 : end + 0] *)
  Lemma zodo_count_unf c an :
    zodo_count zdec r c an =
    match zlookup (KName c) an with
    | None => Err KeyError
    | Some (ZAtom cst cen _) => zdec (pyslice r cst cen)
    | Some _ => Err TypeError
    end.
  Proof.
    change (zodo_count zdec r c an)
      with (match zlookup (KName c) an with
            | None => Err KeyError
            | Some (ZAtom cst cen _) => zdec (pyslice r (cst + 0) (cen + 0))
            | Some _ => Err TypeError
            end).
    destruct (zlookup (KName c) an) as [[cst cen csz| | | |]|]; try reflexivity. rewrite !Z.add_0_r. reflexivity.
  Qed.

  Lemma zwalk_odo a c its st an :
    zwalk (JOdo a c its) st an =
    match zodo_count zdec r c an with
    | Err e => Err e
    | Ok cnt =>
        if negref && (cnt <? 0) then Err ValueError else
        match zwalk its st an with
        | Err e => Err e
        | Ok (sub, an1) => Ok (ztab st (zsize sub) cnt sub its, zreg a (ztab st (zsize sub) cnt sub its) an1)
        end
    end.
  Proof.
    change (zwalk (JOdo a c its) st an)
      with (match zodo_count zdec r c an with
            | Err e => Err e
            | Ok cnt =>
                if negref && (cnt <? 0) then Err ValueError else
                match zwalk its st an with
                | Err e => Err e
                | Ok (sub, an1) =>
                    let en := st + zsize sub * cnt in
                    Ok (ZArr (zinit_start st en) (zinit_end st en) (zinit_size st en) (zsize sub) cnt sub its,
                        zreg a (ZArr (zinit_start st en) (zinit_end st en) (zinit_size st en) (zsize sub) cnt sub its) an1)
                end
            end).
    destruct (zodo_count zdec r c an) as [cnt|ex]; [|reflexivity].
    destruct (negref && (cnt <? 0)); [reflexivity|].
    destruct (zwalk its st an) as [[sub an1]|ex]; [|reflexivity]. cbv zeta.
    rewrite zinit_start_eq, zinit_end_eq, zinit_size_eq. reflexivity.
  Qed.

  Lemma zwalk_obj a ps st an :
    zwalk (JObj a ps) st an =
    match zwalk_props ps st an with
    | Err e => Err e
    | Ok (pls, off, an1) => Ok (zobj st off pls, zreg a (zobj st off pls) an1)
    end.
  Proof.
    change (zwalk (JObj a ps) st an)
      with (match zwalk_props ps st an with
            | Err e => Err e
            | Ok (pls, off, an1) =>
                Ok (ZObj (zinit_start st off) (zinit_end st off) (zsum (zsizes_props pls)) pls,
                    zreg a (ZObj (zinit_start st off) (zinit_end st off) (zsum (zsizes_props pls)) pls) an1)
            end).
    destruct (zwalk_props ps st an) as [[[pls off] an1]|ex]; [|reflexivity].
    rewrite zinit_start_eq, zinit_end_eq. reflexivity.
  Qed.

  Lemma zwalk_props_nil off an : zwalk_props PNil off an = Ok (ZPNil, off, an).
  Proof. reflexivity. Qed.

  Lemma zwalk_props_cons k p rest off an :
    zwalk_props (PCons k p rest) off an =
    match zwalk p off an with
    | Err e => Err e
    | Ok (pl, an1) =>
        match zwalk_props rest (off + zsize pl) (zreg (js_anchor p) pl an1) with
        | Err e => Err e
        | Ok (rl, off', an2) => Ok (ZPCons k pl rl, off', an2)
        end
    end.
  Proof. reflexivity. Qed.

  Lemma znav_of_unf s :
    znav_of_with negref zdec r s = match zwalk s 0 [] with Ok (l, an) => Ok (mkznav l an) | Err e => Err e end.
  Proof. reflexivity. Qed.

  Lemma znav_name_unf v k :
    znav_name v k =
    match zn_loc v with
    | ZObj _ _ _ ps =>
        match zfind_prop k ps with
        | None => Err KeyError
        | Some (ZRef _ _ _ t) => match zlookup t (zn_an v) with Some l => Ok (mkznav l (zn_an v)) | None => Err KeyError end
        | Some l => Ok (mkznav l (zn_an v))
        end
    | _ => Err TypeError
    end.
  Proof. reflexivity. Qed.

  (* NDNav.index: if index < 0 or index >= item_count: raise IndexError *)
  Lemma znav_index_unf v i :
    znav_index_with negref zdec r v i =
    match zn_loc v with
    | ZArr st _ _ isz cnt _ sch =>
        if (i <? 0) || (cnt <=? i) then Err IndexError
        else match zwalk sch (st + isz * i) [] with Ok (l, an) => Ok (mkznav l an) | Err e => Err e end
    | _ => Err TypeError
    end.
  Proof. reflexivity. Qed.

  Lemma znav_raw_unf v : znav_raw r v = pyslice r (zstart (zn_loc v)) (zend (zn_loc v)).
  Proof. reflexivity. Qed.
End ZW.

(* ================================================================== C2: the flat family, any count vector over Z *)

Lemma key_eqb_name a b : key_eqb (KName a) (KName b) = N.eqb a b.
Proof. reflexivity. Qed.

Section Flat.
  Variable negref : bool.
  Variable zdec : list N -> res Z.
  Variable r : list N.
  Notation zwalk := (Counters.zwalk_with negref zdec r).
  Notation zwalk_props := (Counters.zwalk_props_with negref zdec r).

  Lemma kid_alts_cons tg x xs : kid_alts tg (ICons x xs) = (item_id x, union_of tg x, build_alt x) :: kid_alts tg xs.
  Proof. reflexivity. Qed.
  Lemma plain_cons i u s bs : plain ((i, u, s) :: bs) = PCons (KName i) s (plain bs).
  Proof. reflexivity. Qed.

  Lemma plain_elem_inv x : plain_elem x = true -> exists i sz, x = Elem i sz Once None.
  Proof.
    destruct x as [i sz oc rd|i oc rd ks]; cbn; [|discriminate].
    destruct oc; try discriminate. destruct rd; try discriminate. intros _. eauto.
  Qed.

  Lemma zwalk_plain : forall ks off an, all_plain ks = true ->
    zwalk_props (plain (kid_alts [] ks)) off an = Ok (zpprops ks off, zpend ks off, zpanch ks off an).
  Proof.
    induction ks as [|x xs IH]; intros off an H; [reflexivity|].
    cbn [all_plain] in H. apply andb_prop in H as [Hx Hxs].
    destruct (plain_elem_inv x Hx) as (i & sz & ->).
    rewrite kid_alts_cons, plain_cons. cbn [build_alt item_id].
    rewrite zwalk_props_cons, zwalk_atom. cbn [js_anchor zreg].
    rewrite IH by exact Hxs. reflexivity.
  Qed.

  Definition table_shape (x : item) : bool :=
    match x with Elem _ _ _ _ => true | Group _ _ _ gks => all_plain gks end.

  Lemma zwalk_items x st an : table_shape x = true ->
    zwalk (table_items_js x) st an = Ok (zocc_loc x st, zocc_anch x st an).
  Proof.
    destruct x as [i sz oc rd|g oc rd gks]; cbn [table_shape table_items_js zocc_loc zocc_anch]; intros H.
    - unfold elem_items. rewrite zwalk_obj, zwalk_props_cons, zwalk_atom. cbn [js_anchor zreg].
      rewrite zwalk_props_nil. reflexivity.
    - rewrite zwalk_obj, zwalk_plain by exact H. reflexivity.
  Qed.

  (* ---- anchors *)
  Lemma zlookup_reg2 c i l an : c <> i -> zlookup (KName c) (zreg2 i l an) = zlookup (KName c) an.
  Proof.
    intros H. unfold zreg2. cbn [zlookup]. rewrite key_eqb_name.
    destruct (N.eqb c i) eqn:E; [apply N.eqb_eq in E; contradiction|reflexivity].
  Qed.
  Lemma zlookup_reg2_same c l an : zlookup (KName c) (zreg2 c l an) = Some l.
  Proof. unfold zreg2. cbn [zlookup]. rewrite key_eqb_name, N.eqb_refl. reflexivity. Qed.

  Lemma zlookup_panch c : forall ks off an, ~ In c (kid_ids ks) ->
    zlookup (KName c) (zpanch ks off an) = zlookup (KName c) an.
  Proof.
    induction ks as [|x xs IH]; intros off an H; [reflexivity|].
    cbn [kid_ids] in H. cbn [zpanch]. rewrite IH by (intros Hin; apply H; right; exact Hin).
    apply zlookup_reg2. intros ->. apply H. left. reflexivity.
  Qed.

  Variable ze : id -> Z.
  Notation zfloc := (zfloc ze).
  Notation zfsz := (zfsz ze).
  Notation zfanch1 := (zfanch1 ze).
  Notation zfprops := (zfprops ze).
  Notation zfend := (zfend ze).
  Notation zfanch := (zfanch ze).
  Notation zcount := (zcount ze).

  Lemma zlookup_fanch1 c x o an : ~ In c (own_ids x) ->
    zlookup (KName c) (zfanch1 x o an) = zlookup (KName c) an.
  Proof.
    intros H. unfold CountersWf.zfanch1. destruct (plain_elem x) eqn:Ep.
    - apply zlookup_reg2. intros ->. apply H. destruct x; left; reflexivity.
    - destruct x as [i sz oc rd|g oc rd gks]; cbn [own_ids] in H.
      + cbn [zocc_anch]. apply zlookup_reg2. intros ->. apply H. left. reflexivity.
      + rewrite zlookup_reg2 by (intros ->; apply H; left; reflexivity).
        cbn [zocc_anch]. apply zlookup_panch. intros Hin. apply H. right. exact Hin.
  Qed.

  Variable P : id -> Prop.
  Notation zholds := (zholds ze zdec r P).

  (* every earlier fixed elementary item is registered as the atom the code built for it, and its bytes - as the
     code slices them - decode to ze(name) when it is a counter *)
  Definition zan_ok (earlier : list id) (an : zanchors) : Prop :=
    forall c, In c earlier ->
      exists o en sz, zlookup (KName c) an = Some (ZAtom o en sz) /\ (P c -> zdec (pyslice r o en) = Ok (ze c)).

  Definition neg_oc (oc : occ) : bool := match oc with Odo c => ze c <? 0 | _ => false end.

  Lemma zoc_ok_count earlier an oc : oc_ok earlier oc = true -> zan_ok earlier an ->
    (match oc with Odo c => P c | _ => True end) ->
    forall a its st sub an1, zwalk its st an = Ok (sub, an1) ->
    zwalk (match oc with Odo c => JOdo a c its | Times n => JArr a n its | Once => its end) st an
    = if negref && neg_oc oc then Err ValueError
      else Ok (ztab st (zsize sub) (zcount oc) sub its, zreg a (ztab st (zsize sub) (zcount oc) sub its) an1).
  Proof.
    intros Hoc Han HP a its st sub an1 Hw. destruct oc as [|n|c]; cbn [oc_ok] in Hoc; [discriminate| |].
    - rewrite zwalk_arr, Hw. cbn [neg_oc]. rewrite andb_false_r. reflexivity.
    - apply SR.Proofs.OdoStreamP.mem_In in Hoc. destruct (Han c Hoc) as (o & en & sz & Hl & Hd).
      rewrite zwalk_odo, zodo_count_unf, Hl, (Hd HP). cbn [neg_oc zcount].
      destruct (negref && (ze c <? 0)); [reflexivity|]. rewrite Hw. reflexivity.
  Qed.

  Lemma build_table_elem i sz oc : oc <> Once ->
    build_alt (Elem i sz oc None) =
    match oc with Odo c => JOdo None c (elem_items i sz) | Times n => JArr None n (elem_items i sz) | Once => elem_items i sz end.
  Proof. destruct oc; [congruence|reflexivity|reflexivity]. Qed.

  Lemma build_table_group g oc gks : oc <> Once ->
    build_alt (Group g oc None gks) =
    match oc with
    | Odo c => JOdo (Some (KName g)) c (JObj None (plain (kid_alts [] gks)))
    | Times n => JArr (Some (KName g)) n (JObj None (plain (kid_alts [] gks)))
    | Once => JObj None (plain (kid_alts [] gks))
    end.
  Proof. destruct oc; [congruence|reflexivity|reflexivity]. Qed.

  Lemma zwalk_flat_kid earlier x off an :
    flat_kid earlier x = true -> zan_ok earlier an ->
    (match item_oc x with Odo c => P c | _ => True end) ->
    zwalk (build_alt x) off an =
    if negref && neg_count ze x then Err ValueError
    else Ok (zfloc x off, match x with
                          | Elem _ _ Once _ => zreg (Some (KName (item_id x))) (zfloc x off) an
                          | Elem _ _ _ _ => zocc_anch x off an
                          | Group g _ _ _ => zreg (Some (KName g)) (zfloc x off) (zocc_anch x off an)
                          end).
  Proof.
    intros Hf Han HP. unfold neg_count. fold (neg_oc (item_oc x)).
    destruct x as [i sz oc rd|g oc rd gks]; cbn [flat_kid] in Hf.
    - destruct rd as [t|]; [destruct oc; discriminate|].
      destruct oc as [|n|c] eqn:Eoc.
      + cbn [build_alt item_oc neg_oc]. rewrite zwalk_atom, andb_false_r. reflexivity.
      + rewrite build_table_elem by discriminate.
        pose proof (zoc_ok_count earlier an (Times n) Hf Han I None _ off _ _
                      (zwalk_items (Elem i sz (Times n) None) off an eq_refl)) as Hw.
        cbn [table_items_js] in Hw. rewrite Hw. reflexivity.
      + rewrite build_table_elem by discriminate. cbn [item_oc] in HP.
        pose proof (zoc_ok_count earlier an (Odo c) Hf Han HP None _ off _ _
                      (zwalk_items (Elem i sz (Odo c) None) off an eq_refl)) as Hw.
        cbn [table_items_js] in Hw. rewrite Hw. reflexivity.
    - destruct rd as [t|]; [discriminate|]. apply andb_prop in Hf as [Hoc Hpl].
      assert (Hne : oc <> Once) by (intros ->; discriminate).
      rewrite build_table_group by exact Hne. cbn [item_oc] in HP.
      pose proof (zoc_ok_count earlier an oc Hoc Han HP (Some (KName g)) _ off _ _
                    (zwalk_items (Group g oc None gks) off an Hpl)) as Hw.
      cbn [table_items_js] in Hw. rewrite Hw.
      unfold CountersWf.zfloc. cbn [plain_elem item_oc table_items_js]. reflexivity.
  Qed.

  Lemma zanch_step earlier x off an : flat_kid earlier x = true ->
    zreg (js_anchor (build_alt x)) (zfloc x off)
      (match x with
       | Elem _ _ Once _ => zreg (Some (KName (item_id x))) (zfloc x off) an
       | Elem _ _ _ _ => zocc_anch x off an
       | Group g _ _ _ => zreg (Some (KName g)) (zfloc x off) (zocc_anch x off an)
       end) = zfanch1 x off an.
  Proof.
    intros Hf. destruct x as [i sz oc rd|g oc rd gks]; cbn [flat_kid] in Hf.
    - destruct rd as [t|]; [destruct oc; discriminate|]. destruct oc; reflexivity.
    - destruct rd as [t|]; [discriminate|]. destruct oc; [discriminate| |]; reflexivity.
  Qed.

  Lemma zwalk_flat_kids : forall ks earlier off an,
    flat_kids earlier ks = true ->
    (forall c, In c earlier -> ~ In c (all_ids ks)) ->
    NoDup (all_ids ks) ->
    zan_ok earlier an ->
    zholds ks off ->
    (forall c, In c (counters_of ks) -> P c) ->
    zwalk_props (plain (kid_alts [] ks)) off an =
    if negref && has_neg ze ks then Err ValueError else Ok (zfprops ks off, zfend ks off, zfanch ks off an).
  Proof.
    induction ks as [|x xs IH]; intros earlier off an Hf Hdis Hnd Han Hh HP; [cbn [has_neg]; rewrite andb_false_r; reflexivity|].
    cbn [flat_kids] in Hf. apply andb_prop in Hf as [Hx Hxs].
    cbn [CountersWf.zholds] in Hh. destruct Hh as [Hhx Hhxs].
    cbn [all_ids] in Hnd, Hdis.
    rewrite kid_alts_cons, plain_cons, zwalk_props_cons.
    rewrite (zwalk_flat_kid earlier x off an Hx Han).
    2:{ destruct (item_oc x) as [|n|c] eqn:Eoc; [exact I|exact I|]. apply HP. cbn [counters_of]. rewrite Eoc. left. reflexivity. }
    cbn [has_neg].
    destruct (negref && neg_count ze x) eqn:Eneg.
    { apply andb_prop in Eneg as [-> ->]. reflexivity. }
    assert (Erest : negref && (neg_count ze x || has_neg ze xs) = negref && has_neg ze xs)
      by (destruct negref, (neg_count ze x); try discriminate; reflexivity).
    rewrite Erest.
    rewrite (zanch_step earlier x off an Hx). fold (zfsz x off).
    rewrite (IH (if plain_elem x then item_id x :: earlier else earlier) (off + zfsz x off) (zfanch1 x off an)).
    + destruct (negref && has_neg ze xs); reflexivity.
    + exact Hxs.
    + intros c Hc Hin.
      assert (Hc' : In c earlier \/ (plain_elem x = true /\ c = item_id x)).
      { destruct (plain_elem x); [destruct Hc as [<-|Hc]; [right; split; reflexivity|left; exact Hc]|left; exact Hc]. }
      destruct Hc' as [Hc'|[_ ->]].
      * apply (Hdis c Hc'). apply in_or_app. right. exact Hin.
      * apply (SR.Proofs.OdoStreamP.NoDup_app_disj _ _ _ Hnd (SR.Proofs.OdoStreamP.own_ids_head x)). exact Hin.
    + apply SR.Proofs.OdoStreamP.NoDup_app_r in Hnd. exact Hnd.
    + intros c Hc.
      assert (Hc' : (plain_elem x = true /\ c = item_id x) \/ In c earlier).
      { destruct (plain_elem x); [destruct Hc as [<-|Hc]; [left; split; reflexivity|right; exact Hc]|right; exact Hc]. }
      destruct Hc' as [[Hp ->]|Hc'].
      * destruct (plain_elem_inv x Hp) as (i & sz & ->). cbn [item_id].
        eexists off, _, _. unfold CountersWf.zfanch1, CountersWf.zfloc. cbn [plain_elem item_id elem_bytes].
        rewrite zlookup_reg2_same. split; [reflexivity|exact Hhx].
      * destruct (Han c Hc') as (o & en & sz & Hl & Hd). exists o, en, sz. split; [|exact Hd].
        rewrite zlookup_fanch1; [exact Hl|].
        intros Hin. apply (Hdis c Hc'). apply in_or_app. left. exact Hin.
    + exact Hhxs.
    + intros c Hc. apply HP. cbn [counters_of]. destruct (item_oc x); try exact Hc. right. exact Hc.
  Qed.
End Flat.

(* the whole record, for EVERY count vector over Z: the navigator is the closed form - or, when negative counts are refused
   and some table's counter is negative, ValueError *)
Lemma znav_flat_with (negref : bool) (zdec : list N -> res Z) (ze : id -> Z) t r :
  flat_odo t = true -> zcounters_hold zdec ze t r ->
  znav_of_with negref zdec r (build t) =
  if negref && has_neg ze (item_kids t) then Err ValueError else Ok (zflat_nav ze t).
Proof.
  intros Hf Hc. destruct (SR.Proofs.OdoStreamP.flat_odo_inv t Hf) as (i0 & rd & kids & -> & Hk & Hnd).
  cbn [zcounters_hold] in Hc. rewrite (SR.Proofs.OdoStreamP.build_flat i0 rd kids Hk).
  rewrite znav_of_unf, zwalk_obj.
  rewrite (zwalk_flat_kids negref zdec r ze (fun c => In c (counters_of kids)) kids [] 0 [] Hk).
  - cbn [item_kids]. destruct (negref && has_neg ze kids); reflexivity.
  - intros c [].
  - exact Hnd.
  - intros c [].
  - exact Hc.
  - intros c Hin. exact Hin.
Qed.

(* before the fix (no sign test): the closed form, always *)
Lemma znav_flat_old (zdec : list N -> res Z) (ze : id -> Z) t r :
  flat_odo t = true -> zcounters_hold zdec ze t r ->
  znav_of_with false zdec r (build t) = Ok (zflat_nav ze t).
Proof. intros Hf Hc. rewrite (znav_flat_with false zdec ze t r Hf Hc). reflexivity. Qed.

(* the source as it is now *)
Lemma znav_flat_now (zdec : list N -> res Z) (ze : id -> Z) t r :
  flat_odo t = true -> zcounters_hold zdec ze t r ->
  znav_of zdec r (build t) = if has_neg ze (item_kids t) then Err ValueError else Ok (zflat_nav ze t).
Proof. intros Hf Hc. unfold znav_of. rewrite negref_now. apply (znav_flat_with true zdec ze t r Hf Hc). Qed.

(* ================================================================== C3: the item after a table *)

Lemma consecutive_unf a b tl x y :
  consecutive (ICons a (ICons b tl)) x y = ((a = x /\ b = y) \/ consecutive (ICons b tl) x y).
Proof. reflexivity. Qed.

Lemma consecutive_in : forall ks x y, consecutive ks x y -> In (item_id x) (kid_ids ks) /\ In (item_id y) (kid_ids ks).
Proof.
  induction ks as [|a tl IH]; intros x y H; [destruct H|].
  destruct tl as [|b tl']; [destruct H|].
  rewrite consecutive_unf in H. destruct H as [[-> ->]|H].
  - split; [left; reflexivity|right; left; reflexivity].
  - destruct (IH x y H) as [H1 H2]. split; right; assumption.
Qed.

Lemma consecutive_in_items : forall ks x y, consecutive ks x y -> in_items x ks /\ in_items y ks.
Proof.
  induction ks as [|a tl IH]; intros x y H; [destruct H|].
  destruct tl as [|b tl']; [destruct H|].
  rewrite consecutive_unf in H. destruct H as [[-> ->]|H].
  - split; [left; reflexivity|right; left; reflexivity].
  - destruct (IH x y H) as [H1 H2]. split; right; assumption.
Qed.

Section After.
  Variable ze : id -> Z.

  (* where the closed form puts two consecutive children; Inv is any property of the running offset that every child
     preserves (True in general; 0 <= off when no counter is negative) *)
  Lemma zfprops_consecutive (Inv : Z -> Prop) : forall ks off x y,
    NoDup (kid_ids ks) ->
    (forall a o, in_items a ks -> Inv o -> Inv (o + zfsz ze a o)) ->
    Inv off -> consecutive ks x y ->
    exists o, Inv o
      /\ zfind_prop (KName (item_id x)) (zfprops ze ks off) = Some (zfloc ze x o)
      /\ zfind_prop (KName (item_id y)) (zfprops ze ks off) = Some (zfloc ze y (o + zfsz ze x o)).
  Proof.
    induction ks as [|a tl IH]; intros off x y Hnd Hstep Hinv H; [destruct H|].
    destruct tl as [|b tl']; [destruct H|].
    cbn [kid_ids] in Hnd. inversion Hnd as [|? ? Ha Hnd']; subst.
    rewrite consecutive_unf in H. destruct H as [[-> ->]|H].
    - exists off. split; [exact Hinv|]. cbn [zfprops zfind_prop]. rewrite !key_eqb_name, N.eqb_refl.
      split; [reflexivity|].
      destruct (N.eqb (item_id y) (item_id x)) eqn:E.
      + apply N.eqb_eq in E. exfalso. apply Ha. rewrite <- E. left. reflexivity.
      + rewrite N.eqb_refl. reflexivity.
    - destruct (consecutive_in _ _ _ H) as [Hx Hy].
      destruct (IH (off + zfsz ze a off) x y Hnd') as (o & Ho & F1 & F2).
      + intros a' o' Ha' Ho'. apply Hstep; [right; exact Ha'|exact Ho'].
      + apply Hstep; [left; reflexivity|exact Hinv].
      + exact H.
      + exists o. split; [exact Ho|].
        assert (N1 : N.eqb (item_id x) (item_id a) = false).
        { apply N.eqb_neq. intros E. apply Ha. rewrite <- E. exact Hx. }
        assert (N2 : N.eqb (item_id y) (item_id a) = false).
        { apply N.eqb_neq. intros E. apply Ha. rewrite <- E. exact Hy. }
        cbn [zfprops zfind_prop] in *. rewrite !key_eqb_name in *. rewrite N1, N2. split; assumption.
  Qed.

  Lemma zfloc_not_ref x o : match zfloc ze x o with ZRef _ _ _ _ => False | _ => True end.
  Proof. unfold zfloc. destruct (plain_elem x); exact I. Qed.

  Lemma znav_name_zfloc st en sz ps an k x o :
    zfind_prop k ps = Some (zfloc ze x o) ->
    znav_name (mkznav (ZObj st en sz ps) an) k = Ok (mkznav (zfloc ze x o) an).
  Proof.
    intros H. rewrite znav_name_unf. cbn [zn_loc zn_an]. rewrite H.
    unfold zfloc. destruct (plain_elem x); reflexivity.
  Qed.

  (* one occurrence of a table placed at a non-negative offset has the length the COBOL rules give it *)
  Lemma zatom_size_nonneg o sz : 0 <= o -> zsize (zatom o sz) = Z.of_nat sz.
  Proof. intros H. unfold zatom. cbn [zsize]. apply zmk_size_nonneg; lia. Qed.

  Lemma zpprops_sum_nonneg : forall ks off, all_plain ks = true -> 0 <= off ->
    zsum (zsizes_props (zpprops ks off)) = Z.of_nat (kids_extent (fun _ => 0%nat) ks) /\ 0 <= zsum (zsizes_props (zpprops ks off)).
  Proof.
    induction ks as [|x xs IH]; intros off H Hoff; [split; [reflexivity|cbn; lia]|].
    cbn [all_plain] in H. apply andb_prop in H as [Hx Hxs].
    destruct (SR.Proofs.OdoStreamP.plain_elem_inv x Hx) as (i & sz & ->).
    cbn [zpprops zsizes_props zsum fold_right elem_bytes kids_extent is_redefiner item_redef item_oc count ext1].
    rewrite (zatom_size_nonneg off sz Hoff).
    destruct (IH (off + Z.of_nat sz) Hxs ltac:(lia)) as [E1 E2]. unfold zsum in E1, E2. rewrite E1. split; lia.
  Qed.

  Lemma zocc_size_nonneg earlier x o : flat_kid earlier x = true -> plain_elem x = false -> 0 <= o ->
    zsize (zocc_loc x o) = item_bytes x.
  Proof.
    intros Hf Hp Ho. unfold item_bytes. destruct x as [i sz oc rd|g oc rd gks]; cbn [flat_kid] in Hf.
    - cbn [zocc_loc zobj zsize zsizes_props zsum fold_right ext1]. rewrite (zatom_size_nonneg o sz Ho). lia.
    - destruct rd; [discriminate|]. apply andb_prop in Hf as [_ Hpl].
      cbn [zocc_loc zobj zsize ext1]. apply (zpprops_sum_nonneg gks o Hpl Ho).
  Qed.

  Lemma in_items_flat : forall ks earlier a, flat_kids earlier ks = true -> in_items a ks -> exists earlier', flat_kid earlier' a = true.
  Proof.
    induction ks as [|x xs IH]; intros earlier a H Ha; [destruct Ha|].
    cbn [flat_kids] in H. apply andb_prop in H as [Hx Hxs]. destruct Ha as [->|Ha].
    - exists earlier. exact Hx.
    - apply (IH _ a Hxs Ha).
  Qed.

  Lemma in_items_counter : forall ks a c, in_items a ks -> item_oc a = Odo c -> In c (counters_of ks).
  Proof.
    induction ks as [|x xs IH]; intros a c Ha Hc; [destruct Ha|].
    cbn [counters_of]. destruct Ha as [->|Ha].
    - rewrite Hc. left. reflexivity.
    - destruct (item_oc x); try (apply (IH a c Ha Hc)). right. apply (IH a c Ha Hc).
  Qed.

  Lemma zfsz_nonneg earlier a o : flat_kid earlier a = true -> 0 <= zcount ze (item_oc a) -> 0 <= o ->
    zfsz ze a o = zcount ze (item_oc a) * item_bytes a /\ 0 <= zfsz ze a o.
  Proof.
    intros Hf Hc Ho. unfold zfsz, zfloc. destruct (plain_elem a) eqn:Ep.
    - destruct (SR.Proofs.OdoStreamP.plain_elem_inv a Ep) as (i & sz & ->).
      cbn [elem_bytes]. rewrite (zatom_size_nonneg o sz Ho). unfold item_bytes. cbn [item_oc zcount ext1]. lia.
    - unfold ztab. cbn [zsize]. rewrite (zocc_size_nonneg earlier a o Hf Ep Ho).
      assert (0 <= item_bytes a) by (unfold item_bytes; lia).
      rewrite zmk_size_nonneg by nia. split; nia.
  Qed.
End After.

Lemma NoDup_kid_ids ks : NoDup (all_ids ks) -> NoDup (kid_ids ks).
Proof.
  induction ks as [|x xs IH]; intros H; [constructor|].
  cbn [all_ids] in H. cbn [kid_ids]. constructor.
  - intros Hin. apply (SR.Proofs.OdoStreamP.NoDup_app_disj _ _ _ H (SR.Proofs.OdoStreamP.own_ids_head x)).
    apply SR.Proofs.OdoStreamP.kid_ids_sub. exact Hin.
  - apply IH. apply SR.Proofs.OdoStreamP.NoDup_app_r in H. exact H.
Qed.

(* ---- has_neg: some table's counter is negative *)
Lemma has_neg_false ze : forall ks, has_neg ze ks = false -> forall c, In c (counters_of ks) -> 0 <= ze c.
Proof.
  induction ks as [|x xs IH]; intros H c Hc; [destruct Hc|].
  cbn [has_neg] in H. apply orb_false_elim in H as [Hx Hxs]. cbn [counters_of] in Hc. unfold neg_count in Hx.
  destruct (item_oc x) as [|n|c']; try (apply (IH Hxs c Hc)).
  destruct Hc as [<-|Hc]; [apply Z.ltb_ge in Hx; exact Hx|apply (IH Hxs c Hc)].
Qed.

Lemma has_neg_true ze : forall ks x c, in_items x ks -> item_oc x = Odo c -> ze c < 0 -> has_neg ze ks = true.
Proof.
  induction ks as [|a tl IH]; intros x c Hin Hoc Hneg; [destruct Hin|].
  cbn [has_neg]. destruct Hin as [->|Hin].
  - unfold neg_count. rewrite Hoc. apply Z.ltb_lt in Hneg. rewrite Hneg. reflexivity.
  - rewrite (IH x c Hin Hoc Hneg). apply orb_true_r.
Qed.

(* what the walk does with the item that follows a table, for every value of the counter - as long as the walk goes
   through: always before the fix (negref = false), with no negative counter after it *)
Lemma after_table_with (negref : bool) (zdec : list N -> res Z) (ze : id -> Z) t r :
  flat_odo t = true -> zcounters_hold zdec ze t r -> negref && has_neg ze (item_kids t) = false ->
  exists v, znav_of_with negref zdec r (build t) = Ok v
    /\ forall x y c, consecutive (item_kids t) x y -> item_oc x = Odo c ->
         exists vx vy st en sz isz sub sch,
           znav_name v (KName (item_id x)) = Ok vx /\ znav_name v (KName (item_id y)) = Ok vy
           /\ zn_loc vx = ZArr st en sz isz (ze c) sub sch
           /\ sz = (if st + isz * ze c =? 0 then 0 else isz * ze c)
           /\ en = (if st + isz * ze c =? 0 then st else st + isz * ze c)
           /\ zstart (zn_loc vy) = st + sz
           /\ (0 <= st -> isz = item_bytes x)
           /\ (forall i, ze c <= i -> znav_index_with negref zdec r vx i = Err IndexError).
Proof.
  intros Hf Hc Hgo. exists (zflat_nav ze t).
  split; [rewrite (znav_flat_with negref zdec ze t r Hf Hc), Hgo; reflexivity|].
  destruct (SR.Proofs.OdoStreamP.flat_odo_inv t Hf) as (i0 & rd & kids & -> & Hk & Hnd).
  cbn [item_kids zflat_nav]. intros x y c Hxy Hoc.
  destruct (zfprops_consecutive ze (fun _ => True) kids 0 x y (NoDup_kid_ids kids Hnd) (fun _ _ _ _ => I) I Hxy)
    as (o & _ & F1 & F2).
  assert (Hpx : plain_elem x = false) by (destruct x as [? ? oc ?|]; [cbn [item_oc] in Hoc; subst oc; reflexivity|reflexivity]).
  set (an := (KName i0, zobj 0 (zfend ze kids 0) (zfprops ze kids 0)) :: zfanch ze kids 0 []).
  assert (Nx : znav_name (mkznav (zobj 0 (zfend ze kids 0) (zfprops ze kids 0)) an) (KName (item_id x)) = Ok (mkznav (zfloc ze x o) an))
    by (unfold zobj; apply (znav_name_zfloc ze); exact F1).
  assert (Ny : znav_name (mkznav (zobj 0 (zfend ze kids 0) (zfprops ze kids 0)) an) (KName (item_id y))
               = Ok (mkznav (zfloc ze y (o + zfsz ze x o)) an))
    by (unfold zobj; apply (znav_name_zfloc ze); exact F2).
  assert (Ex : zfloc ze x o = ZArr o (zmk_end o (o + zsize (zocc_loc x o) * ze c)) (zmk_size o (o + zsize (zocc_loc x o) * ze c))
                                (zsize (zocc_loc x o)) (ze c) (zocc_loc x o) (table_items_js x)).
  { unfold zfloc. rewrite Hpx, Hoc. reflexivity. }
  assert (Sy : forall a o', zstart (zfloc ze a o') = o') by (intros a o'; unfold zfloc; destruct (plain_elem a); reflexivity).
  exists (mkznav (zfloc ze x o) an), (mkznav (zfloc ze y (o + zfsz ze x o)) an).
  exists o, (zmk_end o (o + zsize (zocc_loc x o) * ze c)), (zmk_size o (o + zsize (zocc_loc x o) * ze c)),
         (zsize (zocc_loc x o)), (zocc_loc x o), (table_items_js x).
  split; [exact Nx|]. split; [exact Ny|]. cbn [zn_loc]. split; [exact Ex|].
  split; [unfold zmk_size; destruct (o + zsize (zocc_loc x o) * ze c =? 0); lia|].
  split; [reflexivity|].
  split; [rewrite Sy; unfold zfsz; rewrite Ex; reflexivity|].
  split.
  - intros Ho. destruct (consecutive_in_items _ _ _ Hxy) as [Hix _].
    destruct (in_items_flat kids [] x Hk Hix) as (earlier' & Hfx).
    apply (zocc_size_nonneg earlier' x o Hfx Hpx Ho) || apply (zocc_size_nonneg ze earlier' x o Hfx Hpx Ho).
  - intros i Hi. rewrite znav_index_unf. cbn [zn_loc]. rewrite Ex.
    destruct (ze c <=? i) eqn:E; [rewrite orb_true_r; reflexivity|apply Z.leb_gt in E; lia].
Qed.

(* BEFORE THE FIX, a NEGATIVE counter: the table has a negative length, the next item lies BEFORE the table, every index is refused *)
Lemma negative_counter_layout_old (zdec : list N -> res Z) (ze : id -> Z) t r :
  flat_odo t = true -> zcounters_hold zdec ze t r ->
  exists v, znav_of_with false zdec r (build t) = Ok v
    /\ forall x y c, consecutive (item_kids t) x y -> item_oc x = Odo c -> ze c < 0 ->
         exists vx vy st en sz isz sub sch,
           znav_name v (KName (item_id x)) = Ok vx /\ znav_name v (KName (item_id y)) = Ok vy
           /\ zn_loc vx = ZArr st en sz isz (ze c) sub sch
           /\ (0 <= st -> isz = item_bytes x)
           /\ (st + isz * ze c <> 0 ->
                 sz = isz * ze c /\ en = st + isz * ze c /\ zstart (zn_loc vy) = st + ze c * isz
                 /\ (0 < isz -> zstart (zn_loc vy) < st))
           /\ (st + isz * ze c = 0 -> sz = 0 /\ en = st /\ zstart (zn_loc vy) = st)
           /\ (forall i, znav_index_with false zdec r vx i = Err IndexError).
Proof.
  intros Hf Hc. destruct (after_table_with false zdec ze t r Hf Hc eq_refl) as (v & Hv & H). exists v. split; [exact Hv|].
  intros x y c Hxy Hoc Hneg.
  destruct (H x y c Hxy Hoc) as (vx & vy & st & en & sz & isz & sub & sch & N1 & N2 & L & Hsz & Hen & Hy & Hisz & Hidx).
  exists vx, vy, st, en, sz, isz, sub, sch. repeat (split; [assumption|]).
  split; [|split].
  - intros Hne. destruct (st + isz * ze c =? 0) eqn:E; [apply Z.eqb_eq in E; contradiction|].
    subst sz en. repeat split; try lia; intros; nia.
  - intros He. rewrite He in Hsz, Hen. cbn in Hsz, Hen. subst sz en. repeat split; lia.
  - intros i. rewrite znav_index_unf, L.
    destruct (i <? 0) eqn:E1; [reflexivity|]. apply Z.ltb_ge in E1.
    destruct (ze c <=? i) eqn:E2; [reflexivity|apply Z.leb_gt in E2; lia].
Qed.

(* NOW: a record in which some table's counter is negative is refused while the navigator is built - no item of it is
   ever located, before the table or anywhere *)
Lemma negative_counter_refused (zdec : list N -> res Z) (ze : id -> Z) t r :
  flat_odo t = true -> zcounters_hold zdec ze t r ->
  (exists x c, in_items x (item_kids t) /\ item_oc x = Odo c /\ ze c < 0) ->
  znav_of zdec r (build t) = Err ValueError.
Proof.
  intros Hf Hc (x & c & Hin & Hoc & Hneg).
  rewrite (znav_flat_now zdec ze t r Hf Hc), (has_neg_true ze (item_kids t) x c Hin Hoc Hneg). reflexivity.
Qed.

(* no counter negative: the property's sentence holds of the walk, with or without the sign test *)
Lemma item_after_table_nonneg_with (negref : bool) (zdec : list N -> res Z) (ze : id -> Z) t r :
  flat_odo t = true -> zcounters_hold zdec ze t r ->
  (forall c, In c (counters_of (item_kids t)) -> 0 <= ze c) ->
  exists v, znav_of_with negref zdec r (build t) = Ok v
    /\ forall x y c, consecutive (item_kids t) x y -> item_oc x = Odo c ->
         exists vx vy, znav_name v (KName (item_id x)) = Ok vx /\ znav_name v (KName (item_id y)) = Ok vy
           /\ 0 <= zstart (zn_loc vx)
           /\ zstart (zn_loc vy) = zstart (zn_loc vx) + occupied (ze c) * item_bytes x.
Proof.
  intros Hf Hc Hnn. exists (zflat_nav ze t).
  assert (Hno : has_neg ze (item_kids t) = false).
  { destruct (has_neg ze (item_kids t)) eqn:E; [|reflexivity]. exfalso.
    clear - E Hnn. revert E Hnn. generalize (item_kids t). induction i as [|x xs IH]; intros E Hnn; [discriminate|].
    cbn [has_neg] in E. apply orb_prop in E as [E|E].
    - unfold neg_count in E. destruct (item_oc x) as [|n|c] eqn:Eo; try discriminate. apply Z.ltb_lt in E.
      assert (0 <= ze c) by (apply Hnn; cbn [counters_of]; rewrite Eo; left; reflexivity). lia.
    - apply IH; [exact E|]. intros c Hc. apply Hnn. cbn [counters_of]. destruct (item_oc x); try exact Hc. right. exact Hc. }
  split; [rewrite (znav_flat_with negref zdec ze t r Hf Hc), Hno, andb_false_r; reflexivity|].
  destruct (SR.Proofs.OdoStreamP.flat_odo_inv t Hf) as (i0 & rd & kids & -> & Hk & Hnd).
  cbn [item_kids zflat_nav] in *. intros x y c Hxy Hoc.
  assert (Hcnt : forall a, in_items a kids -> 0 <= zcount ze (item_oc a)).
  { intros a Ha. destruct (item_oc a) as [|n|c'] eqn:E; cbn [zcount]; [lia|lia|]. apply Hnn. apply (in_items_counter kids a c' Ha E). }
  destruct (zfprops_consecutive ze (fun o => 0 <= o) kids 0 x y (NoDup_kid_ids kids Hnd)) as (o & Ho & F1 & F2).
  - intros a o' Ha Ho'. destruct (in_items_flat kids [] a Hk Ha) as (earlier' & Hfa).
    destruct (zfsz_nonneg ze earlier' a o' Hfa (Hcnt a Ha) Ho') as [_ H]. lia.
  - lia.
  - exact Hxy.
  - set (an := (KName i0, zobj 0 (zfend ze kids 0) (zfprops ze kids 0)) :: zfanch ze kids 0 []).
    exists (mkznav (zfloc ze x o) an), (mkznav (zfloc ze y (o + zfsz ze x o)) an).
    split; [unfold zobj; apply (znav_name_zfloc ze); exact F1|].
    split; [unfold zobj; apply (znav_name_zfloc ze); exact F2|].
    cbn [zn_loc].
    assert (S1 : forall a o', zstart (zfloc ze a o') = o') by (intros a o'; unfold zfloc; destruct (plain_elem a); reflexivity).
    rewrite !S1. split; [exact Ho|].
    destruct (consecutive_in_items _ _ _ Hxy) as [Hix _].
    destruct (in_items_flat kids [] x Hk Hix) as (earlier' & Hfx).
    destruct (zfsz_nonneg ze earlier' x o Hfx (Hcnt x Hix) Ho) as [E _]. rewrite E, Hoc. cbn [zcount].
    unfold occupied. pose proof (Hnn c (in_items_counter kids x c Hix Hoc)). rewrite Z.max_r by lia. reflexivity.
Qed.

Lemma item_after_table_nonneg (zdec : list N -> res Z) (ze : id -> Z) t r :
  flat_odo t = true -> zcounters_hold zdec ze t r ->
  (forall c, In c (counters_of (item_kids t)) -> 0 <= ze c) ->
  exists v, znav_of zdec r (build t) = Ok v
    /\ forall x y c, consecutive (item_kids t) x y -> item_oc x = Odo c ->
         exists vx vy, znav_name v (KName (item_id x)) = Ok vx /\ znav_name v (KName (item_id y)) = Ok vy
           /\ 0 <= zstart (zn_loc vx)
           /\ zstart (zn_loc vy) = zstart (zn_loc vx) + occupied (ze c) * item_bytes x.
Proof. exact (item_after_table_nonneg_with odo_negative_refused zdec ze t r). Qed.

(* the property's sentence, for EVERY count vector: refused, or the next item after the occupied elements *)
Lemma item_after_table_refusing : item_after_table_statement_with true.
Proof.
  intros zdec ze t r Hf Hc. destruct (has_neg ze (item_kids t)) eqn:E.
  - left. rewrite (znav_flat_with true zdec ze t r Hf Hc), E. reflexivity.
  - right. destruct (item_after_table_nonneg_with true zdec ze t r Hf Hc (has_neg_false ze _ E)) as (v & Hv & H).
    exists v. split; [exact Hv|]. intros x y c Hxy Hoc. destruct (H x y c Hxy Hoc) as (vx & vy & N1 & N2 & _ & Hst).
    exists vx, vy. repeat split; assumption.
Qed.

Lemma item_after_table_proved : C06e_item_after_table_statement.
Proof. unfold C06e_item_after_table_statement. rewrite negref_now. exact item_after_table_refusing. Qed.

(* ================================================================== the witness of the refutation of the OLD rule *)
Require Import SR.Model.Estruct SR.Model.ZonedCounter.
Open Scope Z_scope.

Lemma neg_witness_holds : flat_odo neg_tree = true /\ zcounters_hold zcount_zoned neg_ze neg_tree neg_rec.
Proof.
  split; [reflexivity|].
  cbn [zcounters_hold neg_tree zholds].
  repeat split; intros Hin; try (vm_compute; reflexivity); exfalso; cbn in Hin; destruct Hin as [E|[]]; discriminate.
Qed.

Lemma neg_witness_layout_old :
  exists v vt vz, znav_of_with false zcount_zoned neg_rec (build neg_tree) = Ok v
    /\ (zstart (zn_loc v), zend (zn_loc v), zsize (zn_loc v)) = (0, 1, 1)
    /\ znav_name v (KName 3%N) = Ok vt /\ (zstart (zn_loc vt), zend (zn_loc vt), zsize (zn_loc vt)) = (2, -2, -4)
    /\ znav_name v (KName 4%N) = Ok vz /\ (zstart (zn_loc vz), zend (zn_loc vz), zsize (zn_loc vz)) = (-2, 1, 3)
    /\ znav_raw neg_rec vz = [] /\ znav_index_with false zcount_zoned neg_rec vt 0 = Err IndexError.
Proof.
  destruct neg_witness_holds as [Hf Hc].
  pose proof (znav_flat_old zcount_zoned neg_ze neg_tree neg_rec Hf Hc) as Hv.
  eexists. eexists. eexists. split; [exact Hv|].
  split; [vm_compute; reflexivity|].
  split; [vm_compute; reflexivity|]. split; [vm_compute; reflexivity|].
  split; [vm_compute; reflexivity|]. split; [vm_compute; reflexivity|].
  split; vm_compute; reflexivity.
Qed.

(* the same record NOW: refused *)
Lemma neg_witness_refused : znav_of zcount_zoned neg_rec (build neg_tree) = Err ValueError.
Proof.
  destruct neg_witness_holds as [Hf Hc]. apply (negative_counter_refused zcount_zoned neg_ze neg_tree neg_rec Hf Hc).
  exists neg_table, 2%N. split; [right; left; reflexivity|]. split; reflexivity.
Qed.

Lemma item_after_table_old_refuted : ~ C06e_item_after_table_statement_old.
Proof.
  intros H. destruct neg_witness_holds as [Hf Hc].
  destruct (H zcount_zoned neg_ze neg_tree neg_rec Hf Hc) as [Hv|(v & Hv & Hall)];
    rewrite (znav_flat_old zcount_zoned neg_ze neg_tree neg_rec Hf Hc) in Hv; [discriminate|]. injection Hv as <-.
  destruct (Hall neg_table neg_next 2%N) as (vx & vy & Nx & Ny & Hst).
  - right. left. split; reflexivity.
  - reflexivity.
  - vm_compute in Nx. vm_compute in Ny. injection Nx as <-. injection Ny as <-. vm_compute in Hst. discriminate.
Qed.

(* ================================================================== statements of Props/C06e.v about the walk before the fix *)
Lemma after_table_old (zdec : list N -> res Z) (ze : id -> Z) t r :
  flat_odo t = true -> zcounters_hold zdec ze t r ->
  exists v, znav_of_with false zdec r (build t) = Ok v
    /\ forall x y c, consecutive (item_kids t) x y -> item_oc x = Odo c ->
         exists vx vy st en sz isz sub sch,
           znav_name v (KName (item_id x)) = Ok vx /\ znav_name v (KName (item_id y)) = Ok vy
           /\ zn_loc vx = ZArr st en sz isz (ze c) sub sch
           /\ sz = (if st + isz * ze c =? 0 then 0 else isz * ze c)
           /\ en = (if st + isz * ze c =? 0 then st else st + isz * ze c)
           /\ zstart (zn_loc vy) = st + sz
           /\ (0 <= st -> isz = item_bytes x)
           /\ (forall i, ze c <= i -> znav_index_with false zdec r vx i = Err IndexError).
Proof. intros Hf Hc. exact (after_table_with false zdec ze t r Hf Hc eq_refl). Qed.
